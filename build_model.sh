#!/bin/bash
# Build the Coq development (full .vo build) and the OCaml model driver from the extraction.
set -e
cd /verif/coq
[ -f Makefile ] || coq_makefile -f _CoqProject -o Makefile >/dev/null
timeout 3000 make -j16 2>&1 | grep -v "^COQDEP\|^COQC\|^make" || true
[ -f model.ml ] || { echo "extraction missing"; exit 1; }
cd /verif/driver
if [ ! -f model_driver ] || [ ../coq/model.ml -nt model_driver ] || [ driver.ml -nt model_driver ]; then
  cp ../coq/model.ml ../coq/model.mli .
  ocamlfind ocamlopt -package zarith -linkpkg -O2 -w -a model.mli model.ml driver.ml -o model_driver
fi
