//! lpharness: replays history files (see FORMAT.md) against the real launchpad contracts in the
//! Rust debug VM and writes observation files.
//!
//! usage: lpharness [--jobs N] <history-file> <observation-file>

mod exec;
mod mock;
mod universe;

use std::io::Write;
use std::sync::atomic::{AtomicUsize, Ordering};
use std::sync::Mutex;

fn split_histories(text: &str) -> Vec<Vec<&str>> {
    let mut hs: Vec<Vec<&str>> = Vec::new();
    let mut cur: Option<Vec<&str>> = None;
    for raw in text.lines() {
        let line = raw.trim();
        if line.is_empty() || line.starts_with('#') {
            continue;
        }
        let first = line.split(' ').next().unwrap_or("");
        if first == "H" {
            if let Some(c) = cur.take() {
                hs.push(c);
            }
            cur = Some(vec![line]);
        } else if let Some(c) = cur.as_mut() {
            c.push(line);
            if first == "E" {
                hs.push(cur.take().unwrap());
            }
        }
    }
    if let Some(c) = cur.take() {
        hs.push(c);
    }
    hs
}

fn silence_stdout() {
    use std::os::fd::AsRawFd;
    if let Ok(devnull) = std::fs::OpenOptions::new().write(true).open("/dev/null") {
        unsafe {
            libc::dup2(devnull.as_raw_fd(), 1);
        }
    }
}

fn main() {
    let mut args: Vec<String> = std::env::args().skip(1).collect();
    let mut jobs = 1usize;
    if args.len() >= 2 && args[0] == "--jobs" {
        jobs = args[1].parse().unwrap_or(1).max(1);
        args.drain(0..2);
    }
    if args.len() != 2 {
        eprintln!("usage: lpharness [--jobs N] <history-file> <observation-file>");
        std::process::exit(2);
    }
    let text = match std::fs::read_to_string(&args[0]) {
        Ok(t) => t,
        Err(e) => {
            eprintln!("cannot read {}: {}", args[0], e);
            std::process::exit(2);
        }
    };
    // contract errors are Rust panics caught by the debug VM: keep stderr quiet
    std::panic::set_hook(Box::new(|_| {}));
    // the debug VM println!s every signalled error message: send stdout to /dev/null
    silence_stdout();

    let histories = split_histories(&text);
    let mut results: Vec<String> = Vec::with_capacity(histories.len());
    if jobs <= 1 || histories.len() <= 1 {
        for h in &histories {
            results.push(exec::run_history(h));
        }
    } else {
        let next = AtomicUsize::new(0);
        let slots: Vec<Mutex<Option<String>>> =
            histories.iter().map(|_| Mutex::new(None)).collect();
        std::thread::scope(|s| {
            for _ in 0..jobs.min(histories.len()) {
                s.spawn(|| loop {
                    let i = next.fetch_add(1, Ordering::SeqCst);
                    if i >= histories.len() {
                        break;
                    }
                    // each history runs entirely on this thread (hook thread-locals)
                    let r = exec::run_history(&histories[i]);
                    *slots[i].lock().unwrap() = Some(r);
                });
            }
        });
        for s in slots {
            results.push(s.into_inner().unwrap().unwrap_or_default());
        }
    }

    let mut f = match std::fs::File::create(&args[1]) {
        Ok(f) => std::io::BufWriter::new(f),
        Err(e) => {
            eprintln!("cannot write {}: {}", args[1], e);
            std::process::exit(2);
        }
    };
    for r in results {
        let _ = f.write_all(r.as_bytes());
    }
    let _ = f.flush();
}
