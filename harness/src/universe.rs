//! Fixed universe of FORMAT.md: account ids <-> 32-byte addresses, token ids <-> identifiers.

use num_bigint::BigUint;

pub const MAX_ACCOUNT_ID: u64 = 32;
pub const UNKNOWN_ADDR: u64 = 255;
pub const UNKNOWN_TOKEN: u64 = 98;

/// Accounts whose address has the smart-contract format (8 leading zero bytes).
pub fn is_sc_id(id: u64) -> bool {
    id == 0 || (20..=24).contains(&id) || id == 30
}

/// Address of an account id. 32 = the zero address. Any id up to 65535 gets a (plain) address, but
/// only 0..=32 exist in the world state.
pub fn addr_of(id: u64) -> Option<[u8; 32]> {
    if id > 0xffff {
        return None;
    }
    let mut a = [b'_'; 32];
    if id == 32 {
        return Some([0u8; 32]);
    }
    if is_sc_id(id) {
        a[..8].copy_from_slice(&[0u8; 8]);
        a[8] = 5;
        a[9] = 0;
        a[10] = b's';
        a[11] = b'c';
    } else {
        a[..4].copy_from_slice(b"acct");
    }
    a[30] = (id >> 8) as u8;
    a[31] = (id & 0xff) as u8;
    Some(a)
}

pub fn id_of(addr: &[u8]) -> u64 {
    if addr.len() != 32 {
        return UNKNOWN_ADDR;
    }
    if addr.iter().all(|b| *b == 0) {
        return 32;
    }
    let id = ((addr[30] as u64) << 8) | addr[31] as u64;
    match addr_of(id) {
        Some(a) if a[..] == *addr && id != 32 => id,
        _ => UNKNOWN_ADDR,
    }
}

pub const TOKENS: [(u64, &[u8]); 8] = [
    (0, b"EGLD"),
    (1, b"LAUNCH-123456"),
    (2, b"PAY-123456"),
    (3, b"NFTC-123456"),
    (4, b"OTHER-123456"),
    (5, b"MYSTERY-123456"),
    (6, b"SFTPAY-123456"),
    (99, b"invalid"),
];

pub fn token_bytes(id: u64) -> Option<&'static [u8]> {
    TOKENS.iter().find(|(i, _)| *i == id).map(|(_, b)| *b)
}

pub fn token_id(bytes: &[u8]) -> u64 {
    TOKENS
        .iter()
        .find(|(_, b)| *b == bytes)
        .map(|(i, _)| *i)
        .unwrap_or(UNKNOWN_TOKEN)
}

pub fn pow10(n: u32) -> BigUint {
    BigUint::from(10u32).pow(n)
}
