//! Lock-contract mock (account 30) and trivial code for the SC-address accounts 20..24.
//!
//! `lockTokens(unlock_epoch, destination)` is payable, keeps whatever it receives and records the
//! call in a harness thread-local (the harness prints `l` lines from it after a successful call).

use std::cell::RefCell;

multiversx_sc::imports!();

pub struct LockRecord {
    pub unlock_epoch: u64,
    pub dest: [u8; 32],
    pub token: Vec<u8>,
    pub nonce: u64,
    pub amount: Vec<u8>,
}

thread_local! {
    static LOCK_LOG: RefCell<Vec<LockRecord>> = const { RefCell::new(Vec::new()) };
}

pub fn record_lock(rec: LockRecord) {
    LOCK_LOG.with(|l| l.borrow_mut().push(rec));
}

pub fn take_lock_log() -> Vec<LockRecord> {
    LOCK_LOG.with(|l| std::mem::take(&mut *l.borrow_mut()))
}

#[multiversx_sc::contract]
pub trait LockMock {
    #[init]
    fn init(&self) {}

    #[payable("*")]
    #[endpoint(lockTokens)]
    fn lock_tokens(&self, unlock_epoch: u64, destination: ManagedAddress) {
        let dest = destination.to_byte_array();
        let egld = self.call_value().egld_value().clone_value();
        if egld > 0 {
            record_lock(LockRecord {
                unlock_epoch,
                dest,
                token: b"EGLD".to_vec(),
                nonce: 0,
                amount: egld.to_bytes_be().as_slice().to_vec(),
            });
        }
        let transfers = self.call_value().all_esdt_transfers().clone_value();
        for p in transfers.iter() {
            record_lock(LockRecord {
                unlock_epoch,
                dest,
                token: p
                    .token_identifier
                    .as_managed_buffer()
                    .to_boxed_bytes()
                    .as_slice()
                    .to_vec(),
                nonce: p.token_nonce,
                amount: p.amount.to_bytes_be().as_slice().to_vec(),
            });
        }
    }
}
