//! Runs one history against the real contract code in the Rust debug VM.

use std::collections::BTreeMap;
use std::fmt::Write as _;
use std::panic::{catch_unwind, AssertUnwindSafe};

use launchpad_common::verif_hooks::{set_budget, take_rng_log, RngEvent};
use multiversx_sc::contract_base::CallableContractBuilder;
use multiversx_sc_scenario::{
    api::DebugApi,
    debug_executor::ContractContainer,
    multiversx_chain_vm::{
        tx_execution::execute_current_tx_context_input,
        tx_mock::{TxFunctionName, TxInput, TxLog, TxResult, TxTokenTransfer},
        types::{VMAddress, VMCodeMetadata, H256},
        world_mock::{AccountData, EsdtInstanceMetadata},
    },
    scenario::run_vm::ScenarioVMRunner,
};
use num_bigint::BigUint;

use crate::mock;
use crate::universe::*;

const GAS_LIMIT: u64 = 100_000_000;
const LP_CODE: &[u8] = b"launchpad-under-test";
const MOCK_CODE: &[u8] = b"lock-mock";

#[derive(Clone, Copy, PartialEq, Eq, Debug)]
pub enum Variant {
    Base,
    Lock,
    Nft,
    Gt1,
    Mig,
    Lgt,
    Ngt,
    Gt2,
}

impl Variant {
    pub fn parse(s: &str) -> Option<Variant> {
        Some(match s {
            "base" => Variant::Base,
            "lock" => Variant::Lock,
            "nft" => Variant::Nft,
            "gt1" => Variant::Gt1,
            "mig" => Variant::Mig,
            "lgt" => Variant::Lgt,
            "ngt" => Variant::Ngt,
            "gt2" => Variant::Gt2,
            _ => return None,
        })
    }

    fn contract(self) -> Box<dyn multiversx_sc::contract_base::CallableContract> {
        match self {
            Variant::Base => launchpad::ContractBuilder.new_contract_obj::<DebugApi>(),
            Variant::Lock => launchpad_locked_tokens::ContractBuilder.new_contract_obj::<DebugApi>(),
            Variant::Nft => launchpad_with_nft::ContractBuilder.new_contract_obj::<DebugApi>(),
            Variant::Gt1 => {
                launchpad_guaranteed_tickets::ContractBuilder.new_contract_obj::<DebugApi>()
            }
            Variant::Mig => launchpad_migration_guaranteed_tickets::ContractBuilder
                .new_contract_obj::<DebugApi>(),
            Variant::Lgt => launchpad_locked_tokens_and_guaranteed_tickets::ContractBuilder
                .new_contract_obj::<DebugApi>(),
            Variant::Ngt => {
                launchpad_nft_and_guaranteed_tickets::ContractBuilder.new_contract_obj::<DebugApi>()
            }
            Variant::Gt2 => {
                launchpad_guaranteed_tickets_v2::ContractBuilder.new_contract_obj::<DebugApi>()
            }
        }
    }

    fn gt1_family(self) -> bool {
        matches!(self, Variant::Gt1 | Variant::Mig | Variant::Lgt | Variant::Ngt)
    }
    fn has_nft(self) -> bool {
        matches!(self, Variant::Nft | Variant::Ngt)
    }
    fn has_lock(self) -> bool {
        matches!(self, Variant::Lock | Variant::Lgt)
    }
    fn has_release(self) -> bool {
        matches!(self, Variant::Gt1 | Variant::Gt2)
    }
    fn has_ut_status(self) -> bool {
        matches!(self, Variant::Gt1 | Variant::Mig | Variant::Gt2)
    }
}

// ---------------------------------------------------------------------------------------------
// small helpers

fn parse_num(s: &str) -> Option<BigUint> {
    if s.is_empty() || !s.bytes().all(|b| b.is_ascii_digit()) {
        return None;
    }
    BigUint::parse_bytes(s.as_bytes(), 10)
}

fn parse_u64(s: &str) -> Option<u64> {
    let n = parse_num(s)?;
    u64::try_from(&n).ok()
}

/// low 64 bits
fn low_u64(n: &BigUint) -> u64 {
    n.iter_u64_digits().next().unwrap_or(0)
}

/// Top-encoding of a number: minimal big-endian bytes, zero = empty.
fn num_bytes(n: &BigUint) -> Vec<u8> {
    if n.bits() == 0 {
        Vec::new()
    } else {
        n.to_bytes_be()
    }
}

fn be(b: &[u8]) -> BigUint {
    BigUint::from_bytes_be(b)
}

fn clean(msg: &str) -> String {
    msg.replace(['\n', '\r'], " ")
}

type BadLine = ();

struct Toks<'a> {
    t: Vec<&'a str>,
    p: usize,
}

impl<'a> Toks<'a> {
    fn next(&mut self) -> Result<&'a str, BadLine> {
        let r = self.t.get(self.p).copied().ok_or(())?;
        self.p += 1;
        Ok(r)
    }
    fn num(&mut self) -> Result<BigUint, BadLine> {
        parse_num(self.next()?).ok_or(())
    }
    fn u64(&mut self) -> Result<u64, BadLine> {
        parse_u64(self.next()?).ok_or(())
    }
    fn num_arg(&mut self) -> Result<Vec<u8>, BadLine> {
        Ok(num_bytes(&self.num()?))
    }
    fn addr(&mut self) -> Result<[u8; 32], BadLine> {
        addr_of(self.u64()?).ok_or(())
    }
    fn addr_arg(&mut self) -> Result<Vec<u8>, BadLine> {
        Ok(self.addr()?.to_vec())
    }
    fn tok_arg(&mut self) -> Result<Vec<u8>, BadLine> {
        Ok(token_bytes(self.u64()?).ok_or(())?.to_vec())
    }
    fn count(&mut self) -> Result<usize, BadLine> {
        let n = self.u64()?;
        if n > 1_000_000 {
            return Err(());
        }
        Ok(n as usize)
    }
    fn done(&self) -> bool {
        self.p == self.t.len()
    }
    fn finish(&self) -> Result<(), BadLine> {
        if self.done() {
            Ok(())
        } else {
            Err(())
        }
    }
}

/// Cursor over nested-encoded bytes.
struct Cur<'a> {
    b: &'a [u8],
    p: usize,
}

impl<'a> Cur<'a> {
    fn new(b: &'a [u8]) -> Self {
        Cur { b, p: 0 }
    }
    fn take(&mut self, n: usize) -> Option<&'a [u8]> {
        if self.p + n > self.b.len() {
            return None;
        }
        let r = &self.b[self.p..self.p + n];
        self.p += n;
        Some(r)
    }
    fn u32(&mut self) -> Option<u64> {
        self.take(4).map(|b| low_u64(&be(b)))
    }
    fn u64(&mut self) -> Option<u64> {
        self.take(8).map(|b| low_u64(&be(b)))
    }
    fn addr(&mut self) -> Option<u64> {
        self.take(32).map(id_of)
    }
    fn len_bytes(&mut self) -> Option<&'a [u8]> {
        let n = self.u32()? as usize;
        self.take(n)
    }
    fn tok(&mut self) -> Option<u64> {
        self.len_bytes().map(token_id)
    }
    fn big(&mut self) -> Option<BigUint> {
        self.len_bytes().map(be)
    }
    fn done(&self) -> bool {
        self.p == self.b.len()
    }
}

/// Decodes nested-encoded `data` according to `schema`, appending ` <num>` for each number.
/// A addr, Q u64, U u32, T token, B biguint, L counted list of addresses, M counted list of u64 pairs.
fn decode_schema(schema: &str, data: &[u8], out: &mut String) -> bool {
    let mut c = Cur::new(data);
    for k in schema.chars() {
        let ok = (|| -> Option<()> {
            match k {
                'A' => write!(out, " {}", c.addr()?).ok()?,
                'Q' => write!(out, " {}", c.u64()?).ok()?,
                'U' => write!(out, " {}", c.u32()?).ok()?,
                'T' => write!(out, " {}", c.tok()?).ok()?,
                'B' => write!(out, " {}", c.big()?).ok()?,
                'L' => {
                    let n = c.u32()?;
                    write!(out, " {}", n).ok()?;
                    for _ in 0..n {
                        write!(out, " {}", c.addr()?).ok()?;
                    }
                }
                'M' => {
                    let n = c.u32()?;
                    write!(out, " {}", n).ok()?;
                    for _ in 0..n {
                        write!(out, " {}", c.u64()?).ok()?;
                        write!(out, " {}", c.u64()?).ok()?;
                    }
                }
                _ => return None,
            }
            Some(())
        })();
        if ok.is_none() {
            return false;
        }
    }
    c.done()
}

fn event_schema(name: &[u8]) -> Option<&'static str> {
    Some(match name {
        b"refundTicketPayment" => "AQQUTQB",
        b"setTicketPrice" => "AQQTQB",
        b"confirmTickets" => "AQQUUUTQB",
        b"filterTicketsCompleted" | b"selectWinnersCompleted" => "AQQU",
        b"claimLaunchpadTokens" => "AQQTQB",
        b"addUsersToBlacklist" | b"removeGuaranteedUsersFromBlacklist" => "AQQL",
        b"setUnlockSchedule" => "AQQM",
        b"addTickets" => "AQQUUU",
        b"distributeGuaranteedTicketsCompleted" => "AQQU",
        b"pauseContract" | b"unpauseContract" => "",
        _ => return None,
    })
}

fn status_of(r: &TxResult) -> (&'static str, String) {
    let code = r.result_status.as_u64();
    let msg = clean(&r.result_message);
    let st = match code {
        0 => "ok",
        4 => {
            if msg == "panic occurred" {
                "panic"
            } else {
                "user"
            }
        }
        10 => "vm",
        _ => "other",
    };
    (st, msg)
}

fn status_line(prefix: &str, st: &str, msg: &str) -> String {
    if msg.is_empty() {
        format!("{} {}\n", prefix, st)
    } else {
        format!("{} {} # {}\n", prefix, st, msg)
    }
}

type Balances = BTreeMap<(u64, u64, Vec<u8>, u64), BigUint>;

// ---------------------------------------------------------------------------------------------

enum Action {
    Call(&'static str, Vec<Vec<u8>>),
    SftSetup,
}

pub struct World {
    runner: ScenarioVMRunner,
    variant: Variant,
    watch: Vec<u64>,
    deployed: bool,
    dead: Option<&'static str>,
    sc: VMAddress,
}

impl World {
    pub fn new(variant: Variant) -> World {
        let runner = ScenarioVMRunner::new();
        {
            let mut map = runner.contract_map_ref.lock();
            map.register_contract(
                LP_CODE.to_vec(),
                ContractContainer::new(variant.contract(), None, false),
            );
            map.register_contract(
                MOCK_CODE.to_vec(),
                ContractContainer::new(
                    mock::ContractBuilder.new_contract_obj::<DebugApi>(),
                    None,
                    false,
                ),
            );
        }
        let mut w = World {
            runner,
            variant,
            watch: Vec::new(),
            deployed: false,
            dead: None,
            sc: VMAddress::from(addr_of(0).unwrap()),
        };
        w.init_accounts();
        w
    }

    pub fn set_watch(&mut self, w: Vec<u64>) {
        self.watch = w;
    }

    fn init_accounts(&mut self) {
        let big = pow10(40);
        let sft = pow10(6);
        let owner = VMAddress::from(addr_of(1).unwrap());
        let state = &mut *self.runner.blockchain_mock.state;
        for id in (1..=24u64).chain([30, 31, 32]) {
            let address = VMAddress::from(addr_of(id).unwrap());
            let mut acct = AccountData::new_empty(address);
            if id <= 24 {
                acct.egld_balance = big.clone();
                for t in 1..=4u64 {
                    acct.esdt.set_esdt_balance(
                        token_bytes(t).unwrap().to_vec(),
                        0,
                        &big,
                        EsdtInstanceMetadata::default(),
                    );
                }
                acct.esdt.set_esdt_balance(
                    token_bytes(6).unwrap().to_vec(),
                    5,
                    &sft,
                    EsdtInstanceMetadata::default(),
                );
            }
            if is_sc_id(id) {
                acct.contract_path = Some(MOCK_CODE.to_vec());
                acct.contract_owner = Some(owner.clone());
                acct.code_metadata = VMCodeMetadata::all();
            }
            state.add_account(acct);
        }
    }

    fn set_block(&mut self, round: u64, epoch: u64, rnd: Option<u64>) {
        let state = &mut *self.runner.blockchain_mock.state;
        for (i, bi) in [&mut state.previous_block_info, &mut state.current_block_info]
            .into_iter()
            .enumerate()
        {
            bi.block_round = round;
            bi.block_epoch = epoch;
            if let Some(rnd) = rnd {
                let v = rnd.wrapping_add(i as u64).to_be_bytes();
                let mut seed = [0u8; 48];
                for k in 0..6 {
                    seed[8 * k..8 * k + 8].copy_from_slice(&v);
                }
                bi.block_random_seed = Box::new(seed);
            }
        }
    }

    fn account_exists(&self, a: &VMAddress) -> bool {
        self.runner.blockchain_mock.state.accounts.contains_key(a)
    }

    fn balances(&self) -> Balances {
        let mut m = Balances::new();
        let state = &*self.runner.blockchain_mock.state;
        for id in 0..=MAX_ACCOUNT_ID {
            let a = VMAddress::from(addr_of(id).unwrap());
            if let Some(acct) = state.accounts.get(&a) {
                if acct.egld_balance.bits() != 0 {
                    m.insert((id, 0, b"EGLD".to_vec(), 0), acct.egld_balance.clone());
                }
                for (tok, data) in acct.esdt.iter() {
                    let tid = token_id(tok);
                    // EsdtInstances has no public iterator over nonces except through its map
                    for (nonce, inst) in data.instances.get_instances().iter() {
                        if inst.balance.bits() != 0 {
                            m.insert((id, tid, tok.clone(), *nonce), inst.balance.clone());
                        }
                    }
                }
            }
        }
        m
    }

    fn diff_balances(before: &Balances, after: &Balances, out: &mut String) {
        let zero = BigUint::default();
        let mut keys: Vec<&(u64, u64, Vec<u8>, u64)> = before.keys().chain(after.keys()).collect();
        keys.sort();
        keys.dedup();
        for k in keys {
            let old = before.get(k).unwrap_or(&zero);
            let new = after.get(k).unwrap_or(&zero);
            if old != new {
                let _ = writeln!(out, "b {} {} {} {}", k.0, k.1, k.3, new);
            }
        }
    }

    // -----------------------------------------------------------------------------------------
    // deploy

    pub fn deploy(&mut self, toks: &[&str]) -> String {
        let r = self.deploy_inner(toks);
        set_budget(None);
        let _ = take_rng_log();
        let _ = mock::take_lock_log();
        match r {
            Ok((st, msg)) => {
                if st != "ok" && self.dead.is_none() {
                    self.dead = Some("no contract");
                }
                status_line("D", st, &msg)
            }
            Err(()) => {
                self.dead = Some("no contract");
                "D other # bad line\n".to_string()
            }
        }
    }

    fn deploy_inner(&mut self, toks: &[&str]) -> Result<(&'static str, String), BadLine> {
        if self.deployed || self.dead.is_some() {
            self.dead = Some("no contract");
            return Ok(("other", "second D line".into()));
        }
        let mut t = Toks {
            t: toks.to_vec(),
            p: 1,
        };
        let caller = t.addr()?;
        let round = t.u64()?;
        let epoch = t.u64()?;
        let mut args: Vec<Vec<u8>> = vec![
            t.tok_arg()?,
            t.num_arg()?,
            t.tok_arg()?,
            t.num_arg()?,
            t.num_arg()?,
            t.num_arg()?,
            t.num_arg()?,
            t.num_arg()?,
        ];
        match self.variant {
            Variant::Base | Variant::Gt2 => {}
            Variant::Gt1 | Variant::Mig => args.push(t.num_arg()?),
            Variant::Lock => {
                args.push(t.num_arg()?);
                args.push(t.num_arg()?);
                args.push(t.addr_arg()?);
            }
            Variant::Lgt => {
                args.push(t.num_arg()?);
                args.push(t.num_arg()?);
                args.push(t.num_arg()?);
                args.push(t.addr_arg()?);
            }
            Variant::Nft => {
                args.push(t.tok_arg()?);
                args.push(t.num_arg()?);
                args.push(t.num_arg()?);
                args.push(t.num_arg()?);
            }
            Variant::Ngt => {
                args.push(t.tok_arg()?);
                args.push(t.num_arg()?);
                args.push(t.num_arg()?);
                args.push(t.num_arg()?);
                args.push(t.num_arg()?);
            }
        }
        t.finish()?;

        let from = VMAddress::from(caller);
        if !self.account_exists(&from) {
            return Ok(("other", "unknown caller account".into()));
        }
        self.set_block(round, epoch, None);
        let nonce = self.runner.blockchain_mock.state.accounts[&from].nonce;
        self.runner
            .blockchain_mock
            .state
            .put_new_address(from.clone(), nonce, self.sc.clone());
        let tx_input = TxInput {
            from,
            to: VMAddress::zero(),
            func_name: TxFunctionName::INIT,
            args,
            gas_limit: GAS_LIMIT,
            gas_price: 0,
            tx_hash: H256::from([b'd'; 32]),
            ..Default::default()
        };
        set_budget(None);
        let bm = &mut self.runner.blockchain_mock;
        let res = catch_unwind(AssertUnwindSafe(|| {
            bm.vm.sc_create(
                tx_input,
                LP_CODE,
                VMCodeMetadata::all(),
                &mut bm.state,
                execute_current_tx_context_input,
            )
        }));
        match res {
            Ok((_addr, tx_result)) => {
                let (st, msg) = status_of(&tx_result);
                if st == "ok" {
                    self.deployed = true;
                }
                Ok((st, msg))
            }
            Err(_) => {
                self.dead = Some("harness panic");
                Ok(("other", "harness panic during deploy".into()))
            }
        }
    }

    // -----------------------------------------------------------------------------------------
    // calls

    fn addr_list(t: &mut Toks) -> Result<Vec<Vec<u8>>, BadLine> {
        let n = t.count()?;
        let mut v = Vec::with_capacity(n);
        for _ in 0..n {
            v.push(t.addr_arg()?);
        }
        Ok(v)
    }

    fn build_action(&self, t: &mut Toks) -> Result<Action, BadLine> {
        let ep = t.next()?;
        let v = self.variant;
        let a = match ep {
            "addTickets" => {
                let n = t.count()?;
                let mut args = Vec::new();
                for _ in 0..n {
                    args.push(t.addr_arg()?);
                    if v == Variant::Gt2 {
                        args.push(t.num_arg()?);
                        let k = t.count()?;
                        args.push(num_bytes(&BigUint::from(k)));
                        for _ in 0..k {
                            args.push(t.num_arg()?);
                            args.push(t.num_arg()?);
                        }
                    } else if v.gt1_family() {
                        args.push(t.num_arg()?);
                        args.push(t.num_arg()?);
                        args.push(t.num_arg()?);
                    } else {
                        args.push(t.num_arg()?);
                    }
                }
                Action::Call("addTickets", args)
            }
            "deposit" => Action::Call("depositLaunchpadTokens", vec![]),
            "setPrice" => Action::Call("setTicketPrice", vec![t.tok_arg()?, t.num_arg()?]),
            "setTpt" => Action::Call("setLaunchpadTokensPerWinningTicket", vec![t.num_arg()?]),
            "setConfStart" => Action::Call("setConfirmationPeriodStartRound", vec![t.num_arg()?]),
            "setWsStart" => Action::Call("setWinnerSelectionStartRound", vec![t.num_arg()?]),
            "setClaimStart" => Action::Call("setClaimStartRound", vec![t.num_arg()?]),
            "setSupport" => Action::Call("setSupportAddress", vec![t.addr_arg()?]),
            "pause" => Action::Call("pause", vec![]),
            "unpause" => Action::Call("unpause", vec![]),
            "blacklist" => Action::Call("addUsersToBlacklist", Self::addr_list(t)?),
            "refund" => Action::Call("refundUserTickets", Self::addr_list(t)?),
            "unblacklist" => {
                Action::Call("removeGuaranteedUsersFromBlacklist", Self::addr_list(t)?)
            }
            "confirm" => Action::Call("confirmTickets", vec![t.num_arg()?]),
            "filter" => Action::Call("filterTickets", vec![]),
            "select" => Action::Call("selectWinners", vec![]),
            "extra" => Action::Call(
                match v {
                    Variant::Nft => "selectNftWinners",
                    Variant::Ngt => "secondarySelectionStep",
                    _ => "distributeGuaranteedTickets",
                },
                vec![],
            ),
            "claim" => Action::Call("claimLaunchpadTokens", vec![]),
            "claimPayment" => Action::Call("claimTicketPayment", vec![]),
            "confirmNft" => Action::Call("confirmNft", vec![]),
            "setNftCost" => Action::Call(
                "setNftCost",
                vec![t.tok_arg()?, t.num_arg()?, t.num_arg()?],
            ),
            "setSchedule1" => {
                let mut args = Vec::new();
                for _ in 0..5 {
                    args.push(t.num_arg()?);
                }
                Action::Call("setUnlockSchedule", args)
            }
            "setSchedule2" => {
                let n = t.count()?;
                let mut args = Vec::new();
                for _ in 0..2 * n {
                    args.push(t.num_arg()?);
                }
                Action::Call("setUnlockSchedule", args)
            }
            "sftSetup" => Action::SftSetup,
            _ => return Err(()),
        };
        t.finish()?;
        Ok(a)
    }

    pub fn call(&mut self, idx: usize, toks: &[&str]) -> String {
        let prefix = format!("C {}", idx);
        if let Some(why) = self.dead {
            return status_line(&prefix, "other", why);
        }
        if !self.deployed {
            return status_line(&prefix, "other", "no contract");
        }
        let r = self.call_inner(&prefix, toks);
        set_budget(None);
        let _ = take_rng_log();
        let _ = mock::take_lock_log();
        match r {
            Ok(s) => s,
            Err(()) => status_line(&prefix, "other", "bad line"),
        }
    }

    fn call_inner(&mut self, prefix: &str, toks: &[&str]) -> Result<String, BadLine> {
        let mut t = Toks {
            t: toks.to_vec(),
            p: 1,
        };
        let caller = t.addr()?;
        let round = t.u64()?;
        let epoch = t.u64()?;
        let rnd = low_u64(&t.num()?);
        let budget_tok = t.next()?;
        let budget = if budget_tok == "-" {
            None
        } else {
            let n = parse_num(budget_tok).ok_or(())?;
            Some(u64::try_from(&n).unwrap_or(u64::MAX))
        };
        let snap = match t.next()? {
            "0" => false,
            "1" => true,
            _ => return Err(()),
        };
        let npay = t.count()?;
        let mut egld = BigUint::default();
        let mut esdt = Vec::new();
        for _ in 0..npay {
            let tok = t.u64()?;
            let nonce = t.u64()?;
            let amt = t.num()?;
            if tok == 0 {
                if npay != 1 {
                    return Err(());
                }
                egld = amt;
            } else {
                esdt.push(TxTokenTransfer {
                    token_identifier: token_bytes(tok).ok_or(())?.to_vec(),
                    nonce,
                    value: amt,
                });
            }
        }
        let action = self.build_action(&mut t)?;

        let mut out = String::new();
        self.set_block(round, epoch, Some(rnd));
        let before = self.balances();

        match action {
            Action::SftSetup => {
                self.sft_setup();
                out.push_str(&status_line(prefix, "ok", ""));
            }
            Action::Call(fname, args) => {
                let from = VMAddress::from(caller);
                if !self.account_exists(&from) {
                    return Ok(status_line(prefix, "other", "unknown caller account"));
                }
                let mut hash = [0u8; 32];
                let hv = rnd.wrapping_add(2).to_be_bytes();
                for k in 0..4 {
                    hash[8 * k..8 * k + 8].copy_from_slice(&hv);
                }
                let tx_input = TxInput {
                    from: from.clone(),
                    to: self.sc.clone(),
                    egld_value: egld,
                    esdt_values: esdt,
                    func_name: fname.into(),
                    args,
                    gas_limit: GAS_LIMIT,
                    gas_price: 0,
                    tx_hash: H256::from(hash),
                    ..Default::default()
                };
                let _ = take_rng_log();
                let _ = mock::take_lock_log();
                set_budget(budget);
                let bm = &mut self.runner.blockchain_mock;
                // same sequence as ScenarioVMRunner::perform_sc_call_lambda
                let res = catch_unwind(AssertUnwindSafe(|| {
                    bm.state.increase_account_nonce(&from);
                    bm.vm.sc_call_with_async_and_callback(
                        tx_input,
                        &mut bm.state,
                        execute_current_tx_context_input,
                    )
                }));
                set_budget(None);
                let rng_log = take_rng_log();
                let lock_log = mock::take_lock_log();
                let tx_result = match res {
                    Ok(r) => r,
                    Err(_) => {
                        self.dead = Some("harness panic");
                        return Ok(status_line(prefix, "other", "harness panic during call"));
                    }
                };
                let (st, msg) = status_of(&tx_result);
                out.push_str(&status_line(prefix, st, &msg));
                if st == "ok" {
                    self.print_results(&tx_result, &mut out);
                    self.print_events(&tx_result.result_logs, &mut out);
                    for ev in rng_log {
                        match ev {
                            RngEvent::Fresh => out.push_str("g F\n"),
                            RngEvent::Draw { seed, index, word } => {
                                let _ =
                                    writeln!(out, "g D {} {} {}", hex::encode(seed), index, word);
                            }
                        }
                    }
                    for l in lock_log {
                        let _ = writeln!(
                            out,
                            "l {} {} {} {} {}",
                            l.unlock_epoch,
                            id_of(&l.dest),
                            token_id(&l.token),
                            l.nonce,
                            be(&l.amount)
                        );
                    }
                }
            }
        }
        let after = self.balances();
        Self::diff_balances(&before, &after, &mut out);
        if snap {
            self.snapshot(&mut out);
        }
        Ok(out)
    }

    fn print_results(&self, r: &TxResult, out: &mut String) {
        if r.result_values.is_empty() {
            return;
        }
        out.push('r');
        for v in &r.result_values {
            let n = match v.as_slice() {
                b"completed" => BigUint::default(),
                b"interrupted" => BigUint::from(1u32),
                other => be(other),
            };
            let _ = write!(out, " {}", n);
        }
        out.push('\n');
    }

    fn print_events(&self, logs: &[TxLog], out: &mut String) {
        for log in logs {
            if log.address != self.sc || log.topics.is_empty() {
                continue;
            }
            let name = &log.topics[0];
            let Some(schema) = event_schema(name) else {
                continue;
            };
            let name_s = String::from_utf8_lossy(name);
            if schema.is_empty() {
                let _ = writeln!(out, "e {}", name_s);
                continue;
            }
            if log.topics.len() != 4 {
                continue;
            }
            let _ = write!(
                out,
                "e {} {} {} {}",
                name_s,
                id_of(&log.topics[1]),
                be(&log.topics[2]),
                be(&log.topics[3])
            );
            let data: Vec<u8> = log.data.concat();
            if !decode_schema(schema, &data, out) {
                out.push_str(" # payload decode error");
            }
            out.push('\n');
        }
    }

    // -----------------------------------------------------------------------------------------
    // SFT set-up (harness-only)

    fn sft_setup(&mut self) {
        let sc = self.sc.clone();
        let state = &mut *self.runner.blockchain_mock.state;
        let Some(acct) = state.accounts.get_mut(&sc) else {
            return;
        };
        let tok = token_bytes(5).unwrap().to_vec();
        acct.storage
            .insert(b"mysterySftTokenId".to_vec(), tok.clone());
        acct.storage
            .insert(b"sftSetupSteps".to_vec(), vec![1, 1, 1]);
        let names: [&[u8]; 3] = [b"Confirmed Won", b"Confirmed Lost", b"Not Confirmed"];
        for (i, name) in names.iter().enumerate() {
            let meta = EsdtInstanceMetadata {
                name: name.to_vec(),
                creator: Some(sc.clone()),
                ..Default::default()
            };
            acct.esdt
                .set_esdt_balance(tok.clone(), i as u64 + 1, &BigUint::from(1u32), meta);
        }
        if let Some(d) = acct.esdt.get_mut_by_identifier(&tok) {
            d.last_nonce = 3;
        }
        acct.esdt.set_roles(
            tok,
            vec![
                b"ESDTRoleNFTCreate".to_vec(),
                b"ESDTRoleNFTAddQuantity".to_vec(),
                b"ESDTRoleNFTBurn".to_vec(),
            ],
        );
    }

    // -----------------------------------------------------------------------------------------
    // views

    fn query(&mut self, fname: &str, args: Vec<Vec<u8>>) -> Option<Vec<Vec<u8>>> {
        let tx_input = TxInput {
            from: self.sc.clone(),
            to: self.sc.clone(),
            func_name: fname.into(),
            args,
            gas_limit: u64::MAX,
            gas_price: 0,
            tx_hash: H256::from([b'q'; 32]),
            ..Default::default()
        };
        let bm = &mut self.runner.blockchain_mock;
        let res = catch_unwind(AssertUnwindSafe(|| {
            bm.vm.execute_sc_query_lambda(
                tx_input,
                &mut bm.state,
                execute_current_tx_context_input,
            )
        }));
        match res {
            Ok(r) if r.result_status.as_u64() == 0 => Some(r.result_values),
            Ok(_) => None,
            Err(_) => {
                self.dead = Some("harness panic");
                None
            }
        }
    }

    fn storage_is_empty(&self, key: &[u8]) -> bool {
        self.runner
            .blockchain_mock
            .state
            .accounts
            .get(&self.sc)
            .and_then(|a| a.storage.get(key))
            .map(|v| v.is_empty())
            .unwrap_or(true)
    }

    fn view<F>(&mut self, out: &mut String, label: &str, fname: &str, arg: Option<u64>, dec: F)
    where
        F: FnOnce(&[Vec<u8>], &mut String) -> bool,
    {
        let args = match arg {
            Some(a) => vec![addr_of(a).map(|x| x.to_vec()).unwrap_or_default()],
            None => vec![],
        };
        match arg {
            Some(a) => {
                let _ = write!(out, "v {} {} :", label, a);
            }
            None => {
                let _ = write!(out, "v {} :", label);
            }
        }
        match self.query(fname, args) {
            None => out.push_str(" FAIL\n"),
            Some(vals) => {
                let mut s = String::new();
                if dec(&vals, &mut s) {
                    out.push_str(&s);
                    out.push('\n');
                } else {
                    out.push_str(" FAIL # undecodable result\n");
                }
            }
        }
    }

    fn snapshot(&mut self, out: &mut String) {
        let v = self.variant;
        fn single(schema: &'static str) -> impl FnOnce(&[Vec<u8>], &mut String) -> bool {
            move |vals, s| vals.len() == 1 && decode_schema(schema, &vals[0], s)
        }
        fn nums(vals: &[Vec<u8>], s: &mut String) -> bool {
            for v in vals {
                let _ = write!(s, " {}", be(v));
            }
            true
        }
        fn one_num(vals: &[Vec<u8>], s: &mut String) -> bool {
            vals.len() == 1 && nums(vals, s)
        }
        fn flag(vals: &[Vec<u8>], s: &mut String) -> bool {
            if vals.len() != 1 {
                return false;
            }
            let n = be(&vals[0]);
            let _ = write!(s, " {}", n);
            n <= BigUint::from(1u32)
        }
        fn one_addr(vals: &[Vec<u8>], s: &mut String) -> bool {
            if vals.len() != 1 || vals[0].len() != 32 {
                return false;
            }
            let _ = write!(s, " {}", id_of(&vals[0]));
            true
        }

        self.view(out, "config", "getConfiguration", None, single("QQQ"));
        self.view(out, "flags", "getLaunchStageFlags", None, |vals, s| {
            if vals.len() != 1 || vals[0].len() != 4 {
                return false;
            }
            for b in &vals[0] {
                let _ = write!(s, " {}", b);
            }
            true
        });
        self.view(out, "price", "getTicketPrice", None, single("TB"));
        self.view(out, "tpt", "getLaunchpadTokensPerWinningTicket", None, one_num);
        self.view(out, "nrWinning", "getNumberOfWinningTickets", None, one_num);
        self.view(out, "deposited", "getTotalLaunchpadTokensDeposited", None, one_num);
        self.view(out, "totalTickets", "getTotalNumberOfTickets", None, one_num);
        self.view(out, "support", "getSupportAddress", None, one_addr);
        self.view(out, "paused", "isPaused", None, flag);
        if v.has_release() {
            if self.storage_is_empty(b"unlockSchedule") {
                // the mapper's getter cannot decode an empty value: the query itself would fail
                out.push_str(if v == Variant::Gt1 {
                    "v schedule :\n"
                } else {
                    "v schedule : 0\n"
                });
            } else if v == Variant::Gt1 {
                self.view(out, "schedule", "getUnlockSchedule", None, single("QQQQQ"));
            } else {
                self.view(out, "schedule", "getUnlockSchedule", None, single("M"));
            }
        }
        if v.has_nft() {
            self.view(out, "nftCost", "getNftCost", None, single("TQB"));
        }
        if v.has_lock() {
            self.view(out, "lockPct", "getLaunchpadTokensLockPercentage", None, one_num);
            self.view(out, "unlockEpoch", "getLaunchpadTokensUnlockEpoch", None, one_num);
        }
        for a in self.watch.clone() {
            let a = Some(a);
            self.view(out, "range", "getTicketRangeForAddress", a, |vals, s| {
                (vals.is_empty() || vals.len() == 2) && nums(vals, s)
            });
            self.view(out, "totalFor", "getTotalNumberOfTicketsForAddress", a, one_num);
            self.view(out, "confirmed", "getNumberOfConfirmedTicketsForAddress", a, one_num);
            self.view(out, "winIds", "getWinningTicketIdsForAddress", a, nums);
            self.view(out, "blacklisted", "isUserBlacklisted", a, flag);
            self.view(out, "claimed", "hasUserClaimedTokens", a, flag);
            if v.has_ut_status() {
                if v == Variant::Gt2 {
                    self.view(out, "utStatus", "getUserTicketsStatus", a, |vals, s| {
                        if vals.len() != 2 || vals[1].len() % 8 != 0 {
                            return false;
                        }
                        let _ = write!(s, " {} {}", be(&vals[0]), vals[1].len() / 8);
                        for c in vals[1].chunks(4) {
                            let _ = write!(s, " {}", be(c));
                        }
                        true
                    });
                } else {
                    self.view(out, "utStatus", "getUserTicketsStatus", a, |vals, s| {
                        vals.len() == 5 && nums(vals, s)
                    });
                }
            }
            if v.has_release() {
                self.view(out, "claimable", "getClaimableTokens", a, one_num);
                self.view(out, "totalClaimable", "getUserTotalClaimableBalance", a, one_num);
                self.view(out, "claimedBal", "getUserClaimedBalance", a, one_num);
            }
            if v.has_nft() {
                self.view(out, "confirmedNft", "hasUserConfirmedNft", a, flag);
                self.view(out, "wonNft", "hasUserWonNft", a, flag);
            }
        }
    }
}

// ---------------------------------------------------------------------------------------------

/// Runs one history (its lines, from `H` to `E`) and returns the observation text.
pub fn run_history(lines: &[&str]) -> String {
    let mut out = String::new();
    let mut world: Option<World> = None;
    let mut idx = 0usize;
    let mut deploy_seen = false;
    for line in lines {
        let toks: Vec<&str> = line.split(' ').filter(|s| !s.is_empty()).collect();
        if toks.is_empty() {
            continue;
        }
        match toks[0] {
            "H" => {
                let hid = toks.get(1).copied().unwrap_or("?");
                let _ = writeln!(out, "H {}", hid);
                world = toks.get(2).and_then(|v| Variant::parse(v)).map(World::new);
            }
            "U" => {
                if let Some(w) = world.as_mut() {
                    let ids: Vec<u64> = toks[1..].iter().filter_map(|s| parse_u64(s)).collect();
                    if !ids.is_empty() && ids.len() == toks.len() - 1 && ids[0] as usize == ids.len() - 1 {
                        w.set_watch(ids[1..].to_vec());
                    }
                }
            }
            "D" => {
                deploy_seen = true;
                match world.as_mut() {
                    Some(w) => out.push_str(&w.deploy(&toks)),
                    None => out.push_str("D other # unknown variant\n"),
                }
            }
            "S" => {}
            "C" => {
                match world.as_mut() {
                    Some(w) if deploy_seen => out.push_str(&w.call(idx, &toks)),
                    _ => {
                        let _ = writeln!(out, "C {} other # no contract", idx);
                    }
                }
                idx += 1;
            }
            "E" => {}
            _ if toks[0].starts_with('#') => {}
            _ => {}
        }
    }
    out.push_str("E\n");
    out
}
