#!/bin/bash
# usage: try_seed.sh <patch.diff> <prop> [<prop>...]   - apply a seeded change to /repo, run the checks, undo
patch=$1; shift
cd /repo || exit 2
git -C /repo apply "$patch" || { echo "patch does not apply"; exit 2; }
for p in "$@"; do
  echo "=== $p"
  /verif/check $p quick 2>&1 | tail -6
  echo "exit=$?"
done
git -C /repo checkout -- .
git -C /repo status --short | head
