#!/bin/bash
# verify_seed.sh <pid> [<name>]: confirm a seeded change in its scratch worktree /tmp/wt_<pid>, store it under /verif/seeded/<name>
pid=$1; name=${2:-$pid}; wt=/tmp/wt_$pid; sd=/tmp/seeded_$pid
export CARGO_NET_OFFLINE=true
cd $wt || exit 2
git checkout -q -- . ; git clean -fdq -e target
where=$(head -1 $sd/demo_where.txt)
demo_path=$(echo "$where" | grep -o '[a-z0-9-]*/tests/[a-z0-9_]*\.rs' | head -1)
crate=$(echo $demo_path | cut -d/ -f1)
tname=$(basename $demo_path .rs)
echo "demo at $demo_path crate $crate test $tname"
cp $sd/demo_test.rs $wt/$demo_path
echo "--- without change: demo must pass"
cargo test -p $crate --offline --test $tname 2>&1 | grep -E "^test result|panicked|error" | head -5
git apply $sd/patch.diff || { echo "PATCH FAILS"; exit 1; }
echo "--- with change: demo must fail"
cargo test -p $crate --offline --test $tname 2>&1 | grep -E "^test result|error\[" | head -5
rm $wt/$demo_path
echo "--- with change: suite must pass"
cargo test --workspace --no-fail-fast --offline 2>&1 | grep -E "^test result: .*[1-9][0-9]* passed|FAILED|failed;" | awk '{p+=$4; f+=$6} END {print "passed",p,"failed",f}'
mkdir -p /verif/seeded/$name
cp $sd/patch.diff $sd/demo_test.rs $sd/demo_where.txt /verif/seeded/$name/
cp $sd/meta.json /verif/seeded/$name/meta.agent.json
cd /repo && git worktree remove --force $wt && echo "worktree removed"
