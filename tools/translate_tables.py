#!/usr/bin/env python3
"""Translator: regenerates coq/Gen/Generated.v from the Rust sources of /repo on every run.

Extracts (by regular expressions over this very regular code style)
  * named constants of the contract crates,
  * for each of the eight contract crates the list of (endpoint name, kind, only_owner, payable),
    following the super-trait lists (modules) transitively,
  * `overflow-checks` of each wasm/Cargo.toml release profile.
The Coq side (Proofs/GenTable.v) proves that these tables equal the tables the model was written
against, so a changed attribute or constant breaks a proof obligation.
"""
import os, re, sys

REPO = os.environ.get('LP_REPO', '/repo')
OUT = sys.argv[1] if len(sys.argv) > 1 else '/verif/coq/Gen/Generated.v'

CRATES = {
    'base': 'launchpad', 'lock': 'launchpad-locked-tokens', 'nft': 'launchpad-with-nft',
    'gt1': 'launchpad-guaranteed-tickets', 'mig': 'launchpad-migration-guaranteed-tickets',
    'lgt': 'launchpad-locked-tokens-and-guaranteed-tickets', 'ngt': 'launchpad-nft-and-guaranteed-tickets',
    'gt2': 'launchpad-guaranteed-tickets-v2',
}
CRATE_MODNAME = {
    'launchpad_common': 'launchpad-common', 'launchpad_guaranteed_tickets': 'launchpad-guaranteed-tickets',
    'launchpad_locked_tokens': 'launchpad-locked-tokens', 'launchpad_with_nft': 'launchpad-with-nft',
}


def strip_comments(src):
    src = re.sub(r'/\*.*?\*/', '', src, flags=re.S)
    return re.sub(r'//[^\n]*', '', src)


def parse_file(path):
    """-> list of traits: dict(name, kind, supers[list of path strings], methods[list of dict])"""
    src = strip_comments(open(path).read())
    traits = []
    for m in re.finditer(r'#\[multiversx_sc::(contract|module)\]\s*pub trait (\w+)\s*(:[^{]*)?\{', src):
        kind, name, supers = m.group(1), m.group(2), m.group(3) or ''
        supers = [s.strip() for s in supers.lstrip(':').split('+') if s.strip()]
        # body: match braces
        i = m.end()
        depth = 1
        while depth and i < len(src):
            if src[i] == '{':
                depth += 1
            elif src[i] == '}':
                depth -= 1
            i += 1
        body = src[m.end():i - 1]
        methods = []
        # attributes directly preceding each fn at trait level
        for fm in re.finditer(r'((?:\s*#\[[^\]]*\]\s*)*)fn\s+(\w+)', body):
            attrs = re.findall(r'#\[([^\]]*)\]', fm.group(1))
            ep = None
            k = None
            only_owner = False
            payable = False
            for a in attrs:
                a = a.strip()
                mm = re.match(r'(endpoint|view)\((\w+)\)', a)
                if mm:
                    k, ep = mm.group(1), mm.group(2)
                elif a in ('endpoint', 'view'):
                    k, ep = a, fm.group(2)
                elif a == 'init':
                    k, ep = 'init', 'init'
                elif a == 'upgrade':
                    k, ep = 'upgrade', 'upgrade'
                elif a == 'only_owner':
                    only_owner = True
                elif a.startswith('payable'):
                    payable = True
            if ep:
                methods.append({'name': ep, 'kind': k, 'only_owner': only_owner, 'payable': payable, 'fn': fm.group(2)})
        traits.append({'name': name, 'kind': kind, 'supers': supers, 'methods': methods, 'file': path})
    return traits


def crate_traits(crate_dir):
    res = {}
    srcdir = os.path.join(REPO, crate_dir, 'src')
    for root, _, files in os.walk(srcdir):
        for f in sorted(files):
            if f.endswith('.rs'):
                for t in parse_file(os.path.join(root, f)):
                    mod = os.path.splitext(f)[0]
                    res[(mod, t['name'])] = t
    return res


PAUSE_MODULE = [
    {'name': 'pause', 'kind': 'endpoint', 'only_owner': True, 'payable': False},
    {'name': 'unpause', 'kind': 'endpoint', 'only_owner': True, 'payable': False},
    {'name': 'isPaused', 'kind': 'view', 'only_owner': False, 'payable': False},
]


def resolve(variant):
    crate = CRATES[variant]
    all_traits = {c: crate_traits(c) for c in set(CRATE_MODNAME.values()) | {crate}}
    main = [t for t in all_traits[crate].values() if t['kind'] == 'contract']
    assert len(main) == 1, (variant, main)
    main = main[0]
    eps = {}
    seen = set()

    def add_trait(t):
        for m in t['methods']:
            eps[m['name']] = m

    def visit(cr, path):
        parts = path.split('::')
        tname = parts[-1]
        if parts[0] == 'multiversx_sc_modules':
            if tname == 'PauseModule':
                for m in PAUSE_MODULE:
                    eps[m['name']] = m
            return  # DefaultIssueCallbacksModule: callbacks only
        if parts[0] in CRATE_MODNAME:
            cr = CRATE_MODNAME[parts[0]]
            parts = parts[1:]
        elif parts[0] == 'crate':
            parts = parts[1:]
        cands = [t for (mod, n), t in all_traits[cr].items() if n == tname and (len(parts) < 2 or mod == parts[-2] or parts[-2] == 'lib')]
        if not cands:
            cands = [t for (mod, n), t in all_traits[cr].items() if n == tname]
        for t in cands[:1]:
            key = (cr, t['name'], t['file'])
            if key in seen:
                return
            seen.add(key)
            add_trait(t)
            for s in t['supers']:
                visit(cr, s)

    add_trait(main)
    for s in main['supers']:
        visit(crate, s)
    return sorted(eps.values(), key=lambda m: m['name'])


CONSTS = [
    ('launchpad-common/src/tickets.rs', 'FIRST_TICKET_ID'),
    ('launchpad-common/src/random.rs', 'USIZE_BYTES'),
    ('launchpad-common/src/random.rs', 'HASH_LEN'),
    ('launchpad-common/src/ongoing_operation.rs', 'MIN_GAS_TO_SAVE_PROGRESS'),
    ('launchpad-guaranteed-tickets/src/guaranteed_tickets_init.rs', 'STAKING_GUARANTEED_TICKETS_NO'),
    ('launchpad-guaranteed-tickets/src/guaranteed_tickets_init.rs', 'MIGRATION_GUARANTEED_TICKETS_NO'),
    ('launchpad-migration-guaranteed-tickets/src/guaranteed_tickets_init.rs', 'STAKING_GUARANTEED_TICKETS_NO'),
    ('launchpad-migration-guaranteed-tickets/src/guaranteed_tickets_init.rs', 'MIGRATION_GUARANTEED_TICKETS_NO'),
    ('launchpad-guaranteed-tickets/src/token_release.rs', 'MAX_PERCENTAGE'),
    ('launchpad-guaranteed-tickets-v2/src/token_release.rs', 'MAX_PERCENTAGE'),
    ('launchpad-guaranteed-tickets-v2/src/token_release.rs', 'MAX_UNLOCK_MILESTONES_ENTRIES'),
    ('launchpad-guaranteed-tickets-v2/src/token_release.rs', 'MAX_RELEASE_ROUND_DIFF'),
    ('launchpad-guaranteed-tickets-v2/src/guaranteed_tickets_init.rs', 'MAX_TICKETS_ALLOWANCE'),
    ('launchpad-guaranteed-tickets-v2/src/guaranteed_tickets_init.rs', 'MAX_GUARANTEED_TICKETS_ENTRIES'),
    ('launchpad-locked-tokens/src/locked_launchpad_token_send.rs', 'MAX_PERCENTAGE'),
    ('launchpad-with-nft/src/mystery_sft.rs', 'NFT_AMOUNT'),
    ('launchpad-with-nft/src/nft_winners_selection.rs', 'VEC_MAPPER_START_INDEX'),
    ('launchpad-guaranteed-tickets/src/guaranteed_ticket_winners.rs', 'VEC_MAPPER_START_INDEX'),
    ('launchpad-guaranteed-tickets-v2/src/guaranteed_ticket_winners.rs', 'VEC_MAPPER_START_INDEX'),
]


def const_value(path, name):
    src = strip_comments(open(os.path.join(REPO, path)).read())
    m = re.search(r'const\s+' + name + r'\s*:\s*\w+\s*=\s*([0-9_]+)', src)
    if not m:
        return None
    return int(m.group(1).replace('_', ''))


def coq_ident(path, name):
    crate = path.split('/')[0].replace('-', '_')
    return 'gen_%s__%s' % (crate, name)


def main():
    out = []
    out.append('(* GENERATED by tools/translate_tables.py from the Rust sources - do not edit. *)')
    out.append('From Coq Require Import NArith List String.')
    out.append('Import ListNotations.')
    out.append('Open Scope N_scope. Open Scope string_scope.')
    out.append('')
    for path, name in CONSTS:
        v = const_value(path, name)
        if v is None:
            out.append('(* %s in %s: NOT FOUND *)' % (name, path))
            out.append('Definition %s : option N := None.' % coq_ident(path, name))
        else:
            out.append('Definition %s : option N := Some %d%%N.' % (coq_ident(path, name), v))
    out.append('')
    out.append('(* endpoint name, kind (0 init, 1 endpoint, 2 view, 3 upgrade), only_owner, payable *)')
    for v in CRATES:
        eps = resolve(v)
        kinds = {'init': 0, 'endpoint': 1, 'view': 2, 'upgrade': 3}
        items = ['("%s", %d%%N, %s, %s)' % (m['name'], kinds[m['kind']], str(m['only_owner']).lower(), str(m['payable']).lower()) for m in eps]
        out.append('Definition gen_endpoints_%s : list (string * N * bool * bool) :=\n  [ %s ].' % (v, ';\n    '.join(items)))
    out.append('')
    for v, crate in CRATES.items():
        p = os.path.join(REPO, crate, 'wasm', 'Cargo.toml')
        val = 'None'
        if os.path.exists(p):
            src = open(p).read()
            m = re.search(r'\[profile\.release\](.*?)(\n\[|\Z)', src, flags=re.S)
            if m:
                mm = re.search(r'overflow-checks\s*=\s*(true|false)', m.group(1))
                if mm:
                    val = 'Some ' + mm.group(1)
        out.append('Definition gen_overflow_checks_%s : option bool := %s.' % (v, val))
    os.makedirs(os.path.dirname(OUT), exist_ok=True)
    new = '\n'.join(out) + '\n'
    old = open(OUT).read() if os.path.exists(OUT) else None
    if old != new:
        open(OUT, 'w').write(new)
        print('Generated.v updated')
    else:
        print('Generated.v unchanged')


if __name__ == '__main__':
    main()
