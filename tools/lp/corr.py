"""Correspondence check: run histories on the implementation (Rust harness) and on the model
(extracted Coq model), compare the observations."""
import os, subprocess, sys
from .modelproc import parse_block, ROOT, DRIVER

HARNESS_DEV = os.path.join(ROOT, 'harness', 'target', 'debug', 'lpharness')
HARNESS_WRAP = os.path.join(ROOT, 'harness', 'target', 'wrap', 'lpharness')
ZERO_SEED = '00' * 32


def split_histories(path):
    """observation file -> {hid: [deploy_rec, call_rec...]} (each rec parsed)"""
    res = {}
    order = []
    cur = None
    block = None
    with open(path) as f:
        for ln in f:
            ln = ln.rstrip('\n')
            if not ln:
                continue
            if ln.startswith('H '):
                cur = ln.split()[1]
                res[cur] = []
                order.append(cur)
                block = None
            elif ln[0] in 'DC' and ln[1] == ' ':
                block = [ln]
                res[cur].append(block)
            elif ln == 'E':
                block = None
            elif block is not None:
                block.append(ln)
    out = {}
    for h in order:
        out[h] = [parse_block(b) for b in res[h]]
    return out, order


def read_history_file(path):
    """history file -> {hid: [lines]} in order"""
    hs = {}
    order = []
    cur = None
    with open(path) as f:
        for ln in f:
            ln = ln.rstrip('\n')
            if ln.startswith('H '):
                cur = ln.split()[1]
                hs[cur] = []
                order.append(cur)
            if cur is not None:
                hs[cur].append(ln)
    return hs, order


def seeds_for_calls(recs):
    """recs: parsed call records of the implementation (without the deploy record).
    Returns {call index: [seed hex...]} - one seed per Random::default() of that call, taken from the
    first draw that follows it (streams are sequential in this code base)."""
    events = []  # (call idx, ev)
    for i, r in enumerate(recs):
        if r['status'] != 'ok':
            continue
        for ev in r['rng']:
            events.append((i, ev))
    res = {}
    anomalies = []
    for k, (i, ev) in enumerate(events):
        if ev[0] != 'F':
            continue
        seed = ZERO_SEED
        for (j, ev2) in events[k + 1:]:
            if ev2[0] == 'F':
                break
            seed = ev2[1]
            if ev2[2] != 0:
                anomalies.append((i, j, 'first draw of a fresh rng has index %d' % ev2[2]))
            break
        res.setdefault(i, []).append(seed)
    return res, anomalies


def make_model_input(hist_lines, impl_recs):
    """insert S lines (seeds recorded from the implementation) before the C lines"""
    seeds, anomalies = seeds_for_calls(impl_recs[1:]) if impl_recs else ({}, [])
    out = []
    ci = 0
    for ln in hist_lines:
        if ln.startswith('C '):
            if ci in seeds:
                out.append('S %d %s' % (len(seeds[ci]), ' '.join(seeds[ci])))
            ci += 1
        out.append(ln)
    return out, anomalies


CATS = ['status', 'ret', 'events', 'rng', 'locks', 'bal', 'views']


def status_class(s):
    return 'ok' if s == 'ok' else 'fail'


def diff_call(ir, mr):
    """-> list of (category, detail) differences between implementation and model records"""
    d = []
    if status_class(ir['status']) != status_class(mr['status']):
        d.append(('status', 'impl=%s(%s) model=%s' % (ir['status'], ir['msg'], mr['status'])))
        return d
    if ir['status'] != 'ok':
        # both failed; a failed call must not change balances
        if ir['bal']:
            d.append(('bal', 'failed call changed balances: %r' % (ir['bal'],)))
        if ir['status'] in ('user', 'panic', 'vm') and mr['status'] in ('user', 'panic', 'vm') and \
                (ir['status'] == 'panic') != (mr['status'] == 'panic'):
            d.append(('panic', 'impl=%s(%s) model=%s' % (ir['status'], ir['msg'], mr['status'])))
    else:
        if ir['ret'] != mr['ret']:
            d.append(('ret', 'impl=%r model=%r' % (ir['ret'], mr['ret'])))
        if ir['events'] != mr['events']:
            d.append(('events', 'impl=%r model=%r' % (ir['events'], mr['events'])))
        if ir['rng'] != mr['rng']:
            k = next((j for j, (x, y) in enumerate(zip(ir['rng'], mr['rng'])) if x != y), min(len(ir['rng']), len(mr['rng'])))
            d.append(('rng', 'lengths impl=%d model=%d, first difference at %d: impl=%r model=%r' % (
                len(ir['rng']), len(mr['rng']), k, ir['rng'][k:k + 2], mr['rng'][k:k + 2])))
        if ir['locks'] != mr['locks']:
            d.append(('locks', 'impl=%r model=%r' % (ir['locks'], mr['locks'])))
        if ir['bal'] != mr['bal']:
            d.append(('bal', 'impl=%r model=%r' % (ir['bal'], mr['bal'])))
    if ir['views'] != mr['views']:
        keys = sorted(set(ir['views']) | set(mr['views']), key=lambda k: (k[0], k[1] or 0))
        for k in keys:
            if ir['views'].get(k, 'absent') != mr['views'].get(k, 'absent'):
                d.append(('view:' + k[0], '%s %s impl=%r model=%r' % (k[0], k[1], ir['views'].get(k, 'absent'), mr['views'].get(k, 'absent'))))
    return d


def run_impl(hist_path, obs_path, profile='dev', jobs=16):
    exe = HARNESS_DEV if profile == 'dev' else HARNESS_WRAP
    subprocess.run([exe, '--jobs', str(jobs), hist_path, obs_path], check=True, timeout=3600)


def run_model(hist_path, obs_path):
    subprocess.run([DRIVER, hist_path, obs_path], check=True, timeout=3600)


def correspond(hist_path, workdir, profile='dev', jobs=16, tag='run'):
    """Run both sides; returns (impl, model, order, disagreements, anomalies, hist_lines)
    disagreements: list of dict(hid, idx, cat, detail)"""
    iobs = os.path.join(workdir, tag + '.iobs')
    mhist = os.path.join(workdir, tag + '.mhist')
    mobs = os.path.join(workdir, tag + '.mobs')
    run_impl(hist_path, iobs, profile, jobs)
    impl, order = split_histories(iobs)
    hs, horder = read_history_file(hist_path)
    anomalies = []
    with open(mhist, 'w') as f:
        for h in horder:
            lines, an = make_model_input(hs[h], impl.get(h, []))
            for a in an:
                anomalies.append((h,) + a)
            f.write('\n'.join(lines) + '\n')
    run_model(mhist, mobs)
    model, _ = split_histories(mobs)
    dis = []
    for h in horder:
        ir = impl.get(h, [])
        mr = model.get(h, [])
        if len(ir) != len(mr):
            dis.append({'hid': h, 'idx': -1, 'cat': 'shape', 'detail': 'impl %d records, model %d' % (len(ir), len(mr))})
            continue
        for k, (a, b) in enumerate(zip(ir, mr)):
            if profile == 'wrap' and b['status'] == 'panic':
                # the model (checked arithmetic) panics here: with deployment arithmetic the
                # implementation must reject as well; if it accepts, a counter wrapped silently and
                # nothing after this point is comparable
                cl = [l for l in hs[h] if l.startswith('C ')]
                if a['status'] == 'ok' and 0 <= k - 1 < len(cl) and cl[k - 1].split()[-2:] == ['confirm', '0']:
                    # benign: `last - first + 1` of an empty allocation (last = first - 1) wraps
                    # transiently and yields the exact result 0; confirming 0 tickets changes nothing
                    continue
                if a['status'] == 'ok':
                    dis.append({'hid': h, 'idx': k - 1, 'cat': 'wrap',
                                'detail': 'accepted with overflow-checks off where checked arithmetic overflows'})
                    break
                continue
            for (cat, det) in diff_call(a, b):
                if profile == 'wrap' and cat == 'view:totalFor' and det.endswith('impl=[0] model=None'):
                    continue   # same benign transient wrap in the view
                dis.append({'hid': h, 'idx': k - 1, 'cat': cat, 'detail': det})
    return impl, model, horder, dis, anomalies, hs
