"""Structured view of a history (FORMAT.md) together with the observations of one side."""
from .gen import V1, NFTV, LOCKV, HAS_EXTRA


class Call:
    __slots__ = ('caller', 'round', 'epoch', 'rnd', 'budget', 'snap', 'pay', 'ep', 'args', 'line')


def parse_call_line(ln):
    t = ln.split()
    c = Call()
    c.line = ln
    c.caller, c.round, c.epoch, c.rnd = int(t[1]), int(t[2]), int(t[3]), int(t[4])
    c.budget = None if t[5] == '-' else int(t[5])
    c.snap = t[6] == '1'
    n = int(t[7])
    c.pay = [(int(t[8 + 3 * i]), int(t[9 + 3 * i]), int(t[10 + 3 * i])) for i in range(n)]
    rest = t[8 + 3 * n:]
    c.ep = rest[0]
    c.args = [int(x) for x in rest[1:]]
    return c


class Hist:
    """deploy parameters, calls and (implementation) records; tracks cumulative balances and the
    latest snapshot before / after every call."""

    def __init__(self, lines, recs):
        self.lines = lines
        self.hid = None
        self.calls = []
        for ln in lines:
            if ln.startswith('H '):
                t = ln.split()
                self.hid, self.variant = t[1], t[2]
            elif ln.startswith('U '):
                self.addrs = [int(x) for x in ln.split()[2:]]
            elif ln.startswith('D '):
                t = [int(x) for x in ln.split()[1:]]
                (self.d_caller, self.d_round, self.d_epoch, self.lp, self.tpt0, self.pay_tok0, self.price0,
                 self.K, self.conf0, self.ws0, self.claim0) = t[:11]
                self.d_extra = t[11:]
            elif ln.startswith('C '):
                self.calls.append(parse_call_line(ln))
        self.deploy_rec = recs[0] if recs else None
        self.recs = recs[1:] if recs else []
        self.deployed = bool(recs) and recs[0]['status'] == 'ok'
        v = self.variant
        self.min_conf = None
        self.lock = None
        self.nft0 = None
        ex = self.d_extra
        if v in ('gt1', 'mig'):
            self.min_conf = ex[0]
        elif v == 'lock':
            self.lock = tuple(ex)
        elif v == 'lgt':
            self.min_conf = ex[0]
            self.lock = tuple(ex[1:])
        elif v == 'nft':
            self.nft0 = tuple(ex)
        elif v == 'ngt':
            self.nft0 = tuple(ex[:4])
            self.min_conf = ex[4]

    def steps(self):
        """yield (idx, call, rec, views_before, views_after, bal_before, bal_after) for every call;
        views_* are the latest snapshots (dict) known before / after the call (after = None when the
        call has no snapshot), bal_* map (addr, tok, nonce) -> amount with the initial endowment."""
        bal = {}

        def get(k):
            if k in bal:
                return bal[k]
            a, t, n = k
            if 1 <= a <= 24:
                if t <= 4 and n == 0:
                    return 10 ** 40
                if t == 6 and n == 5:
                    return 10 ** 6
            return 0

        class B:
            def __init__(s, d):
                s.d = dict(d)

            def __call__(s, a, t, n=0):
                k = (a, t, n)
                if k in s.d:
                    return s.d[k]
                return get_static(k)

        def get_static(k):
            a, t, n = k
            if 1 <= a <= 24:
                if t <= 4 and n == 0:
                    return 10 ** 40
                if t == 6 and n == 5:
                    return 10 ** 6
            return 0

        views = None
        for i, (c, r) in enumerate(zip(self.calls, self.recs)):
            b0 = B(bal)
            for k, v in r['bal'].items():
                bal[k] = v
            b1 = B(bal)
            va = r['views'] if r['views'] else None
            yield i, c, r, views, va, b0, b1
            if va:
                views = va
