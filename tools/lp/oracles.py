"""Property oracles: executable monitors of the properties, evaluated on implementation traces
(they never look at the model).  Each returns a list of violations
  {'prop': 'Cxx', 'idx': call index, 'clause': short name, 'msg': text}.
They are used (a) as the search for a failing input when a proof obligation or the correspondence
breaks and (b) on every run, as a direct monitor of the implementation."""
import hashlib
from .gen import V1, NFTV, LOCKV, HAS_EXTRA, HAS_UNBL, OWNER

VESTED = ('gt1', 'gt2')


def V(views, name, a=None):
    if views is None:
        return None
    return views.get((name, a))


def participants(h, views):
    return [a for a in h.addrs if V(views, 'range', a)]


def all_done(views):
    f = V(views, 'flags')
    return bool(f) and f[2] == 1 and f[3] == 1


def viol(prop, idx, clause, msg):
    return {'prop': prop, 'idx': idx, 'clause': clause, 'msg': msg}


# ------------------------------------------------------------------ C01 / C02 / C09 ledgers
def oracle_ledgers(h):
    """C01, C02, C09, C14(fees), C16: follow every settlement and check the contract's holdings."""
    out = []
    if not h.deployed:
        return out
    v = h.variant
    owner_paid = False        # owner withdrew ticket proceeds
    W_final = None            # winners when all steps completed
    settled = {}              # addr -> (wins, confirmed) at settlement
    lp_received = {}          # addr -> launchpad tokens received (direct + locked)
    deposited_amt = None
    nft_drawn = None
    for i, c, r, vb, va, b0, b1 in h.steps():
        ok = r['status'] == 'ok'
        views = va or vb
        if views is None:
            continue
        price = V(views, 'price')
        pay_tok, pr = price[0], price[1]
        tpt = V(views, 'tpt')[0]
        lp = h.lp
        # ---- deposit acceptance (C02)
        if c.ep == 'deposit' and vb is not None:
            tptb = V(vb, 'tpt')[0]
            # base winners + reserved tickets = configured winners as long as the filter has not
            # capped the base winners (C12); a (pointless but legal) deposit after that is sized by
            # the capped count, which the views do not expose completely: only its cover is checked
            uncapped = V(vb, 'flags')[1] == 0
            if ok:
                amt = c.pay[0][2] if c.pay else 0
                if uncapped and amt != tptb * h.K:
                    out.append(viol('C02', i, 'deposit_amount', 'deposit of %d accepted, tokens-per-ticket x configured winners = %d x %d' % (amt, tptb, h.K)))
                if not uncapped and (amt % tptb != 0 or amt < tptb * V(vb, 'nrWinning')[0]):
                    out.append(viol('C02', i, 'deposit_cover', 'deposit of %d accepted, does not cover %d x %d winners' % (amt, tptb, V(vb, 'nrWinning')[0])))
                deposited_amt = amt
                # the single deposit has no stage condition: made after the owner's withdrawal (only
                # possible in a sale nobody could confirm in) it is surplus the owner may withdraw again
                owner_paid = False
            else:
                already = V(vb, 'deposited')[0] > 0 or deposited_amt is not None
                if (uncapped and c.caller == OWNER and not already and len(c.pay) == 1 and c.pay[0] == (lp, 0, tptb * h.K)):
                    out.append(viol('C02', i, 'deposit_rejected', 'exact deposit %d = %d x %d rejected: %s' % (tptb * h.K, tptb, h.K, r['msg'])))
        # ---- completion of all steps
        if W_final is None and all_done(views) and va is not None:
            W_final = V(va, 'nrWinning')[0]
            if v in NFTV:
                nft_drawn = sum(1 for a in h.addrs if (V(va, 'wonNft', a) or [0])[0] == 1)
        # ---- claims
        if c.ep == 'claim' and vb is not None:
            u = c.caller
            rng = V(vb, 'range', u)
            cfg = V(vb, 'config')
            done_b = all_done(vb)
            in_claim = done_b and c.round >= cfg[2]
            first = bool(rng) and (V(vb, 'claimed', u) or [0])[0] == 0
            paused = (V(vb, 'paused') or [0])[0] == 1 and v == 'gt2'
            # a blacklisted owner of a (necessarily empty) surviving range has no ticket left: no claim is owed to them (C10)
            barred = v not in ('gt1', 'gt2') and (V(vb, 'blacklisted', u) or [0])[0] == 1
            if in_claim and first and not paused and not barred:
                wins = len(V(vb, 'winIds', u) or [])
                conf = V(vb, 'confirmed', u)[0]
                if not ok:
                    sft_ok = True
                    if v in NFTV:
                        sft_ok = b0(0, 5, 1) >= 1
                    if sft_ok:
                        out.append(viol('C01' if r['status'] == 'vm' or 'subtract' in r['msg'] else 'C09', i, 'claim_fails',
                                        'first claim of participant %d (confirmed %d, winning %d) rejected: %s' % (u, conf, wins, r['msg'])))
                else:
                    settled[u] = (wins, conf)
                    # refund exactly price x (confirmed - winning)
                    exp_refund = pr * (conf - wins)
                    got = b1(u, pay_tok) - b0(u, pay_tok)
                    fee_back = 0
                    if v in NFTV:
                        nc = V(vb, 'nftCost')
                        payer = (V(vb, 'confirmedNft', u) or [0])[0] == 1
                        won = (V(vb, 'wonNft', u) or [0])[0] == 1
                        if payer and not won:
                            fee_back = nc[2]
                            if (nc[0], nc[1]) != (pay_tok, 0):
                                gotf = b1(u, nc[0], nc[1]) - b0(u, nc[0], nc[1])
                                if gotf != nc[2]:
                                    out.append(viol('C14', i, 'fee_refund', 'losing payer %d got %d of the fee asset back, fee %d' % (u, gotf, nc[2])))
                        kind = 1 if won else (2 if payer else 3)
                        for k in (1, 2, 3):
                            d = b1(u, 5, k) - b0(u, 5, k)
                            if d != (1 if k == kind else 0):
                                out.append(viol('C14', i, 'sft', 'participant %d (payer=%s won=%s) SFT nonce %d delta %d' % (u, payer, won, k, d)))
                        if (nc[0], nc[1]) == (pay_tok, 0):
                            exp_refund += fee_back
                    if got != exp_refund:
                        out.append(viol('C09', i, 'refund', 'participant %d refunded %d, expected price x (confirmed - winning) = %d x (%d - %d) (+fee %d)' % (u, got, pr, conf, wins, fee_back)))
                    ent = tpt * wins
                    direct = b1(u, lp) - b0(u, lp)
                    locked = sum(l[4] for l in r['locks'] if l[1] == u)
                    lp_received[u] = lp_received.get(u, 0) + direct + locked
                    if v in VESTED:
                        tc = V(va, 'totalClaimable', u) if va else None
                        if tc is not None and tc[0] != ent:
                            out.append(viol('C09', i, 'entitlement', 'participant %d entitlement %d, expected %d x %d' % (u, tc[0], tpt, wins)))
                    else:
                        if direct + locked != ent:
                            out.append(viol('C09', i, 'entitlement', 'participant %d received %d launchpad tokens, expected %d x %d' % (u, direct + locked, tpt, wins)))
                    if v in LOCKV:
                        pct, unlock = h.lock[0], h.lock[1]
                        exp_lock = ent * pct // 10000 if c.epoch < unlock else 0
                        if locked != exp_lock or direct != ent - exp_lock:
                            out.append(viol('C16', i, 'split', 'entitlement %d pct %d epoch %d unlock %d: locked %d direct %d' % (ent, pct, c.epoch, unlock, locked, direct)))
                        for l in r['locks']:
                            if l[0] != unlock or l[2] != lp:
                                out.append(viol('C16', i, 'lock_args', 'lock call %r' % (l,)))
            elif ok and first and not barred:
                # settled although a selection step is unfinished or the claim round is not reached:
                # the views of that moment are not the final outcome
                wins = len(V(vb, 'winIds', u) or [])
                dlp = b1(u, lp) - b0(u, lp) + sum(l[4] for l in r['locks'] if l[1] == u)
                out.append(viol('C09', i, 'early_settlement',
                                'participant %d settled at round %d with flags %r, claim start %d (views: %d winning; received %d launchpad tokens)' % (
                                    u, c.round, V(vb, 'flags'), cfg[2], wins, dlp)))
                settled[u] = (wins, V(vb, 'confirmed', u)[0])
            elif ok:
                # a later claim: only vesting may pay
                u = c.caller
                dpay = b1(u, pay_tok) - b0(u, pay_tok)
                dlp = b1(u, lp) - b0(u, lp)
                if u in settled or not rng:
                    if dpay != 0:
                        out.append(viol('C09', i, 'second_refund', 'account %d got %d payment tokens on a repeated / foreign claim' % (u, dpay)))
                    if v in VESTED:
                        lp_received[u] = lp_received.get(u, 0) + dlp
                    elif dlp != 0:
                        out.append(viol('C09', i, 'second_payout', 'account %d got %d launchpad tokens on a repeated / foreign claim' % (u, dlp)))
            if ok and rng and len(rng) >= 2 and rng[1] < rng[0] and r['bal']:
                # an account whose range is empty holds no ticket: it can obtain nothing, not even a souvenir
                out.append(viol('C09', i, 'no_ticket_claim', 'account %d holds the empty range %r and obtained something from its claim: %r' % (c.caller, rng, sorted(r['bal'].items())[:3])))
            if ok and v in VESTED and c.caller in lp_received:
                wins = settled.get(c.caller, (0, 0))[0]
                if lp_received[c.caller] > tpt * wins:
                    out.append(viol('C13', i, 'over_entitlement', 'winner %d received %d > entitlement %d' % (c.caller, lp_received[c.caller], tpt * wins)))
        # ---- owner withdrawal
        if c.ep == 'claimPayment' and vb is not None:
            cfg = V(vb, 'config')
            in_claim = all_done(vb) and c.round >= cfg[2]
            if c.caller == OWNER and in_claim:
                if not ok:
                    out.append(viol('C01' if 'fund' in r['msg'] else 'C02', i, 'withdraw_fails', 'owner withdrawal rejected: %s' % r['msg']))
                elif not owner_paid and W_final is not None:
                    got = b1(OWNER, pay_tok) - b0(OWNER, pay_tok)
                    exp = pr * W_final
                    if v in NFTV:
                        nc = V(vb, 'nftCost')
                        if (nc[0], nc[1]) == (pay_tok, 0) and nft_drawn is not None:
                            exp += nc[2] * nft_drawn
                        elif nft_drawn is not None:
                            gotf = b1(OWNER, nc[0], nc[1]) - b0(OWNER, nc[0], nc[1])
                            if gotf != nc[2] * nft_drawn:
                                out.append(viol('C14', i, 'owner_fees', 'owner NFT proceeds %d, expected fee %d x drawn %d' % (gotf, nc[2], nft_drawn)))
                    if got != exp:
                        out.append(viol('C01', i, 'owner_proceeds', 'owner received %d, expected price x winners = %d x %d' % (got, pr, W_final)))
                    got_lp = b1(OWNER, lp) - b0(OWNER, lp)
                    if deposited_amt is not None:
                        exp_lp = deposited_amt - tpt * W_final
                        if got_lp != exp_lp:
                            out.append(viol('C02', i, 'owner_surplus', 'owner received %d launchpad tokens, surplus is deposit %d - %d x %d winners = %d' % (got_lp, deposited_amt, tpt, W_final, exp_lp)))
                    owner_paid = True
                elif ok and owner_paid:
                    got = b1(OWNER, pay_tok) - b0(OWNER, pay_tok)
                    if got != 0 or b1(OWNER, lp) - b0(OWNER, lp) != 0:
                        out.append(viol('C01', i, 'double_withdraw', 'second owner withdrawal moved value'))
        # ---- holdings equation after every accepted call with a snapshot (C01)
        if ok and va is not None:
            parts = participants(h, va)
            held = b1(0, pay_tok)
            fee_same = False
            nc = V(va, 'nftCost') if v in NFTV else None
            if nc and (nc[0], nc[1]) == (pay_tok, 0):
                fee_same = True
            if not all_done(va):
                owed = pr * sum(V(va, 'confirmed', a)[0] for a in h.addrs)
                if fee_same:
                    owed += nc[2] * sum(1 for a in h.addrs if (V(va, 'confirmedNft', a) or [0])[0] == 1)
                    f = V(va, 'flags')
                if held != owed and not (fee_same and V(va, 'flags')[2] == 1):
                    out.append(viol('C01', i, 'holdings_before', 'contract holds %d of the payment token, owes price x confirmed = %d' % (held, owed)))
            elif W_final is not None:
                owed = 0 if owner_paid else pr * W_final
                for a in parts:
                    if (V(va, 'claimed', a) or [0])[0] == 0:
                        owed += pr * (V(va, 'confirmed', a)[0] - len(V(va, 'winIds', a) or []))
                if fee_same:
                    if not owner_paid and nft_drawn is not None:
                        owed += nc[2] * nft_drawn
                    for a in h.addrs:
                        if (V(va, 'confirmedNft', a) or [0])[0] == 1 and (V(va, 'wonNft', a) or [0])[0] == 0:
                            owed += nc[2]
                if held != owed:
                    out.append(viol('C01', i, 'holdings_after', 'contract holds %d of the payment token, owes %d (owner paid=%s, winners=%d)' % (held, owed, owner_paid, W_final)))
                # launchpad token cover (C02)
                if deposited_amt is not None and pay_tok != lp:
                    need = 0
                    for a in h.addrs:
                        if V(va, 'range', a) and (V(va, 'claimed', a) or [0])[0] == 0:
                            need += tpt * len(V(va, 'winIds', a) or [])
                        if v in VESTED:
                            need += (V(va, 'totalClaimable', a) or [0])[0] - (V(va, 'claimedBal', a) or [0])[0]
                    have = b1(0, lp)
                    if have < need:
                        out.append(viol('C02', i, 'cover', 'contract holds %d launchpad tokens, still owes winners %d' % (have, need)))
                    if owner_paid and have != need:
                        out.append(viol('C02', i, 'residue', 'after the owner withdrawal the contract holds %d launchpad tokens, owes %d' % (have, need)))
    return out


# ------------------------------------------------------------------ C03 / C08 / C05
def oracle_selection(h):
    out = []
    if not h.deployed:
        return out
    v = h.variant
    W_before_filter = None
    base_checked = False
    final_checked = False
    draws = []      # rng events of the select calls
    sel_draws_done = False
    conf_before_filter = None
    for i, c, r, vb, va, b0, b1 in h.steps():
        ok = r['status'] == 'ok'
        if vb is not None and V(vb, 'flags')[1] == 0:
            W_before_filter = V(vb, 'nrWinning')[0]
            conf_before_filter = {a: V(vb, 'confirmed', a)[0] for a in h.addrs}
            bl_before = {a: V(vb, 'blacklisted', a)[0] for a in h.addrs}
        if ok and c.ep == 'select':
            draws += [e for e in r['rng'] if e[0] == 'D']
        if not ok or va is None:
            continue
        f = V(va, 'flags')
        # ---- C08 when the filter completes
        if c.ep == 'filter' and r['ret'] == [0] and conf_before_filter is not None:
            total = V(va, 'totalTickets')[0]
            nxt = 1
            owned = []
            for a in h.addrs:
                rg = V(va, 'range', a)
                cf = conf_before_filter[a]
                if rg and rg[1] >= rg[0]:
                    owned.append((rg[0], rg[1], a))
                    if rg[1] - rg[0] + 1 != cf:
                        out.append(viol('C08', i, 'count', 'participant %d owns %d tickets after filtering, confirmed %d' % (a, rg[1] - rg[0] + 1, cf)))
                elif cf != 0 and not (rg and rg[1] < rg[0]):
                    out.append(viol('C08', i, 'lost', 'participant %d confirmed %d tickets but owns none after filtering' % (a, cf)))
            owned.sort()
            for (f0, l0, a) in owned:
                if f0 != nxt:
                    out.append(viol('C08', i, 'partition', 'ranges after filtering are not contiguous from 1: %r' % (owned,)))
                    break
                nxt = l0 + 1
            if nxt - 1 != total or total != sum(conf_before_filter.values()):
                out.append(viol('C08', i, 'total', 'total tickets %d, ranges end at %d, sum of confirmed %d' % (total, nxt - 1, sum(conf_before_filter.values()))))
            expw = min(W_before_filter, total)
            if V(va, 'nrWinning')[0] != expw:
                out.append(viol('C08', i, 'winners_cap', 'winners count %d after filtering, expected min(%d, %d)' % (V(va, 'nrWinning')[0], W_before_filter, total)))
        # ---- C03 after base selection
        if c.ep == 'select' and r['ret'] == [0] and not base_checked:
            base_checked = True
            n = V(va, 'totalTickets')[0]
            W = V(va, 'nrWinning')[0]
            ids = []
            for a in h.addrs:
                w = V(va, 'winIds', a) or []
                rg = V(va, 'range', a)
                for t in w:
                    if not rg or not (rg[0] <= t <= rg[1]):
                        out.append(viol('C03', i, 'range', 'winning id %d reported for %d outside its range %r' % (t, a, rg)))
                ids += w
            if len(ids) != len(set(ids)) or any(t < 1 or t > n for t in ids):
                out.append(viol('C03', i, 'distinct', 'winning ids %r not distinct within 1..%d' % (sorted(ids), n)))
            if len(ids) != W:
                out.append(viol('C03', i, 'base_count', 'sum of per-participant winners %d, reported winners %d' % (len(ids), W)))
            # ---- C05: reference Fisher-Yates on the recorded raw words
            words = [e[3] for e in draws]
            ok5 = True
            prev = None
            for e in draws:
                seed = bytes.fromhex(e[1])
                if int.from_bytes(seed[e[2]:e[2] + 4], 'big') != e[3] or e[2] % 4 != 0 or e[2] > 28:
                    out.append(viol('C05', i, 'word', 'raw word %d is not the big-endian word at index %d of the seed' % (e[3], e[2])))
                    ok5 = False
                if prev is not None:
                    pseed, pidx = prev
                    if pidx + 4 <= 28:
                        if not (seed == pseed and e[2] == pidx + 4):
                            out.append(viol('C05', i, 'stream', 'draw does not continue the seed at the next word'))
                            ok5 = False
                    else:
                        if not (seed == hashlib.sha256(pseed).digest() and e[2] == 0):
                            out.append(viol('C05', i, 'rehash', 'exhausted seed was not replaced by its SHA-256'))
                            ok5 = False
                prev = (seed, e[2])
            if draws and draws[0][2] != 0:
                out.append(viol('C05', i, 'start', 'first draw does not start at index 0 of a fresh seed'))
            if ok5:
                arr = list(range(1, n + 1))
                ref = []
                k = min(W, n)
                if len(words) != k:
                    out.append(viol('C05', i, 'draw_count', '%d raw numbers consumed for %d winners' % (len(words), k)))
                else:
                    for step in range(k):
                        j = step + words[step] % (n - step)
                        ref.append(arr[j])
                        arr[j] = arr[step]
                    if sorted(ref) != sorted(ids):
                        out.append(viol('C05', i, 'fisher_yates', 'winners %r differ from textbook Fisher-Yates %r on the recorded raw numbers' % (sorted(ids), sorted(ref))))
        # ---- C03 when everything completed
        if all_done(va) and not final_checked and f[1] == 1:
            final_checked = True
            n = V(va, 'totalTickets')[0]
            W = V(va, 'nrWinning')[0]
            ids = []
            for a in h.addrs:
                w = V(va, 'winIds', a) or []
                rg = V(va, 'range', a)
                for t in w:
                    if not rg or not (rg[0] <= t <= rg[1]):
                        out.append(viol('C03', i, 'range', 'winning id %d reported for %d outside its range %r' % (t, a, rg)))
                if w and V(va, 'blacklisted', a)[0] == 1:
                    out.append(viol('C03', i, 'blacklisted_winner', 'blacklisted %d holds winning tickets' % a))
                ids += w
            if len(ids) != len(set(ids)) or any(t < 1 or t > n for t in ids):
                out.append(viol('C03', i, 'distinct', 'winning ids %r not distinct within 1..%d' % (sorted(ids), n)))
            if W != min(h.K, n):
                out.append(viol('C03', i, 'final_count', 'reported winners %d, expected min(configured %d, confirmed tickets %d)' % (W, h.K, n)))
            if len(ids) != W:
                out.append(viol('C03', i, 'final_sum', 'sum of per-participant winners %d, reported winners %d' % (len(ids), W)))
    return out


# ------------------------------------------------------------------ C06 / C15 / C19 gating
OWNER_ONLY = {'addTickets', 'deposit', 'setPrice', 'setTpt', 'setConfStart', 'setWsStart', 'setClaimStart',
              'setSupport', 'pause', 'unpause', 'claimPayment', 'setNftCost', 'setSchedule1', 'setSchedule2'}
OWNER_OR_SUPPORT = {'blacklist', 'refund', 'unblacklist'}


def stage_of(views, rnd):
    cfg = V(views, 'config')
    if rnd < cfg[0]:
        return 0
    if rnd < cfg[1]:
        return 1
    if not all_done(views):
        return 2
    if rnd < cfg[2]:
        return 2
    return 3


def oracle_gates(h):
    out = []
    if not h.deployed:
        return out
    v = h.variant
    prev_stage = None
    prev_flags = None
    finalised = {'filter': 0, 'extra': 0}
    begun = False
    for i, c, r, vb, va, b0, b1 in h.steps():
        ok = r['status'] == 'ok'
        if vb is None:
            continue
        if c.round >= V(vb, 'config')[0]:
            begun = True
        if begun and va is not None:
            for nm in ('price', 'nftCost') + (('schedule',) if v == 'gt2' else ()):
                if V(va, nm) != V(vb, nm):
                    out.append(viol('C17', i, 'changed_after_confirmation_began', '%s changed from %r to %r after confirmation had begun' % (nm, V(vb, nm), V(va, nm))))
        if va is not None and V(vb, 'deposited')[0] > 0 and V(va, 'tpt') != V(vb, 'tpt'):
            out.append(viol('C17', i, 'tpt_after_deposit', 'tokens-per-ticket changed after the deposit'))
        st = stage_of(vb, c.round)
        flags = V(vb, 'flags')
        cfg = V(vb, 'config')
        sup = V(vb, 'support')[0]
        paused = V(vb, 'paused')[0] == 1
        if ok:
            ep = c.ep
            if ep in OWNER_ONLY and c.caller != OWNER:
                out.append(viol('C15', i, 'owner_only', '%s accepted from account %d' % (ep, c.caller)))
            if ep in OWNER_OR_SUPPORT and c.caller not in (OWNER, sup):
                out.append(viol('C15', i, 'owner_or_support', '%s accepted from account %d' % (ep, c.caller)))
            if (ep == 'select' or (ep == 'extra' and v == 'gt2')) and c.caller != OWNER and 20 <= c.caller <= 30:
                out.append(viol('C15', i, 'owner_or_user', '%s accepted from contract account %d' % (ep, c.caller)))
            need = None
            if ep in ('addTickets', 'setPrice', 'setTpt', 'setNftCost', 'setSchedule2'):
                need = (0,)
            elif ep in ('confirm', 'confirmNft'):
                need = (1,)
            elif ep in ('blacklist', 'refund', 'unblacklist'):
                need = (0, 1)
            elif ep in ('filter', 'select', 'extra'):
                need = (2,)
            elif ep == 'claimPayment':
                need = (3,)
            elif ep == 'claim':
                first = bool(V(vb, 'range', c.caller))
                if v not in ('gt1', 'gt2') or first:
                    need = (3,)
            if need is not None and st not in need:
                out.append(viol('C06', i, 'gate', '%s accepted in stage %d (round %d, config %r, flags %r)' % (ep, st, c.round, cfg, flags)))
            if ep == 'filter' and flags[1] == 1:
                out.append(viol('C06', i, 'order', 'filter accepted after completion'))
            if ep == 'select' and (flags[1] == 0 or flags[2] == 1):
                out.append(viol('C06', i, 'order', 'select accepted with flags %r' % (flags,)))
            if ep == 'extra' and (flags[2] == 0 or flags[3] == 1):
                out.append(viol('C06', i, 'order', 'additional step accepted with flags %r' % (flags,)))
            if ep in finalised and va is not None and V(va, 'nrWinning') != V(vb, 'nrWinning'):
                # the winners counter is written when a step (or the distribution sub-step) completes: once
                finalised[ep] += 1
                if finalised[ep] > 1:
                    out.append(viol('C06', i, 'step_twice', '%s changed the winners counter in %d different calls (%r -> %r): a (sub-)step was completed more than once' % (ep, finalised[ep], V(vb, 'nrWinning'), V(va, 'nrWinning'))))
            if ep in ('setConfStart', 'setWsStart', 'setClaimStart'):
                k = ['setConfStart', 'setWsStart', 'setClaimStart'].index(ep)
                if not (cfg[k] > c.round and c.args[0] > c.round):
                    out.append(viol('C06', i, 'timeline', '%s to %d accepted at round %d (old %d)' % (ep, c.args[0], c.round, cfg[k])))
            if ep == 'setTpt' and V(vb, 'deposited')[0] > 0:
                out.append(viol('C17', i, 'tpt_after_deposit', 'tokens-per-ticket changed after the deposit'))
            if ep in ('setPrice', 'setTpt') and c.args[-1] == 0:
                out.append(viol('C17', i, 'zero', '%s accepted a zero amount' % ep))
            if paused and (ep in ('confirm', 'filter', 'select') or (v == 'gt2' and ep in ('extra', 'claim'))):
                out.append(viol('C19', i, 'paused', '%s accepted while paused' % ep))
        if va is not None:
            cfa = V(va, 'config')
            if not (cfa[0] < cfa[1] <= cfa[2]):
                out.append(viol('C06', i, 'timeline_order', 'configuration %r violates confirmation < selection <= claim' % (cfa,)))
            fa = V(va, 'flags')
            if prev_flags is not None:
                for k in range(4):
                    if prev_flags[k] == 1 and fa[k] == 0:
                        out.append(viol('C06', i, 'flag_reset', 'flag %d went back to false' % k))
            if fa[2] == 1 and fa[1] == 0 or (fa[3] == 1 and fa[2] == 0 and v in HAS_EXTRA):
                out.append(viol('C06', i, 'flag_order', 'flags %r out of order' % (fa,)))
            prev_flags = fa
            sa = stage_of(va, c.round)
            if prev_stage is not None and sa < prev_stage:
                out.append(viol('C06', i, 'stage_back', 'stage went from %d back to %d' % (prev_stage, sa)))
            prev_stage = sa
        if not ok and r['bal']:
            out.append(viol('C15', i, 'reject_noop', 'rejected call changed balances'))
        if not ok and va is not None and vb is not None:
            ch = [k for k in va if va[k] != vb.get(k) and k[0] not in ('claimable',)]
            if ch:
                out.append(viol('C15', i, 'reject_noop', 'rejected call changed views %r' % (ch[:3],)))
    return out


# ------------------------------------------------------------------ C07
def oracle_confirm(h):
    out = []
    if not h.deployed:
        return out
    for i, c, r, vb, va, b0, b1 in h.steps():
        if c.ep != 'confirm' or vb is None:
            continue
        ok = r['status'] == 'ok'
        n = c.args[0]
        u = c.caller
        price = V(vb, 'price')
        cfg = V(vb, 'config')
        rg = V(vb, 'range', u)
        alloc = (rg[1] - rg[0] + 1) if rg else 0
        conf = (V(vb, 'confirmed', u) or [0])[0]
        exact = (c.pay == [(price[0], 0, price[1] * n)]) or (n == 0 and price[0] == 0 and c.pay == [])
        cond = (V(vb, 'paused')[0] == 0 and cfg[0] <= c.round < cfg[1] and V(vb, 'deposited')[0] > 0
                and (V(vb, 'blacklisted', u) or [0])[0] == 0 and conf + n <= alloc and n < 2 ** 32 and exact
                and not (rg and rg[1] < rg[0]))
        if ok and not cond:
            out.append(viol('C07', i, 'accepted', 'confirmation of %d by %d accepted: payment %r price %r allocation %d confirmed %d' % (n, u, c.pay, price, alloc, conf)))
        if not ok and cond and u in h.addrs and r['status'] != 'vm':
            # (status vm: the caller does not hold what it tried to pay - the call never reached the contract)
            out.append(viol('C07', i, 'rejected', 'valid confirmation of %d by %d rejected: %s' % (n, u, r['msg'])))
        if ok and va is not None:
            if V(va, 'confirmed', u)[0] != conf + n:
                out.append(viol('C07', i, 'count', 'confirmed count %d after confirming %d on top of %d' % (V(va, 'confirmed', u)[0], n, conf)))
            d = b1(0, price[0]) - b0(0, price[0])
            if d != price[1] * n:
                out.append(viol('C07', i, 'holdings', 'contract holdings changed by %d, payment %d' % (d, price[1] * n)))
            evs = [e for e in r['events'] if e[0] == 'confirmTickets']
            exp = [u, c.round, c.epoch, u, c.round, c.epoch, n, conf + n, alloc, price[0], 0, price[1] * n]
            if len(evs) != 1 or evs[0][1] != exp:
                out.append(viol('C20', i, 'confirm_event', 'confirm event %r, expected %r' % (evs, exp)))
    return out


# ------------------------------------------------------------------ C13 vesting
def oracle_vesting(h):
    out = []
    if not h.deployed or h.variant not in VESTED:
        return out
    v = h.variant
    ent = {}
    recv = {}
    last = {}
    for i, c, r, vb, va, b0, b1 in h.steps():
        ok = r['status'] == 'ok'
        if c.ep in ('setSchedule1', 'setSchedule2') and vb is not None:
            cfg = V(vb, 'config')
            if c.ep == 'setSchedule2' and v == 'gt2':
                n = c.args[0]
                ms = [(c.args[1 + 2 * k], c.args[2 + 2 * k]) for k in range(n)]
                valid = (c.caller == OWNER and c.round < cfg[0] and 0 < n <= 60 and sum(p for _, p in ms) == 10000
                         and all(p <= 10000 for _, p in ms) and all(rr >= c.round and rr <= c.round + 26280000 for rr, _ in ms)
                         and all(ms[k][0] <= ms[k + 1][0] for k in range(n - 1)) and all(x < 2 ** 64 for x in c.args))
                if ok != valid:
                    out.append(viol('C13', i, 'accept_v2', 'schedule %r %s at round %d (valid=%s): %s' % (ms, 'accepted' if ok else 'rejected', c.round, valid, r['msg'])))
            if c.ep == 'setSchedule1' and v == 'gt1':
                start, initial, times, pct, period = c.args
                had = bool(V(vb, 'schedule'))
                if ok:
                    if initial + times * pct != 10000:
                        out.append(viol('C13', i, 'accept_v1', 'schedule with %d + %d x %d != 100%% accepted' % (initial, times, pct)))
                    if had and c.round >= cfg[0]:
                        out.append(viol('C13', i, 'altered', 'existing schedule altered after confirmation started'))
                    if c.caller != OWNER:
                        out.append(viol('C15', i, 'owner_only', 'setUnlockSchedule accepted from %d' % c.caller))
        if c.ep != 'claim' or vb is None:
            continue
        u = c.caller
        views = va or vb
        if not ok:
            tcb = (V(vb, 'totalClaimable', u) or [0])[0]
            cbb = (V(vb, 'claimedBal', u) or [0])[0]
            if tcb > cbb and not (v == 'gt2' and V(vb, 'paused')[0] == 1) and r['status'] == 'user':
                out.append(viol('C09', i, 'vesting_claim_fails', 'winner %d is owed %d - %d launchpad tokens but the claim is rejected: %s' % (u, tcb, cbb, r['msg'])))
        if ok and va is not None:
            tc = (V(va, 'totalClaimable', u) or [0])[0]
            cb = (V(va, 'claimedBal', u) or [0])[0]
            if tc == 0:
                continue
            sch = V(va, 'schedule')
            rnd = c.round
            if v == 'gt2':
                if not sch or sch[0] == 0:
                    pc = 10000
                else:
                    pc = 0
                    for k in range(sch[0]):
                        if sch[1 + 2 * k] <= rnd:
                            pc += sch[2 + 2 * k]
                        else:
                            break
            else:
                if not sch:
                    pc = 0
                else:
                    start, initial, times, pct, period = sch
                    if rnd < start:
                        pc = 0
                    elif initial == 10000:
                        pc = 10000
                    else:
                        pc = initial + pct * min(times, (rnd - start) // period)
            exp = tc * pc // 10000
            if cb != exp:
                out.append(viol('C13', i, 'cumulative', 'winner %d has received %d by round %d, expected floor(%d x %d / 10000) = %d' % (u, cb, rnd, tc, pc, exp)))
            if u in last and cb < last[u]:
                out.append(viol('C13', i, 'monotone', 'cumulative amount decreased'))
            if cb > tc:
                out.append(viol('C13', i, 'bounded', 'received %d > entitlement %d' % (cb, tc)))
            last[u] = cb
            delta = b1(u, h.lp) - b0(u, h.lp)
            prev_cb = (V(vb, 'claimedBal', u) or [0])[0]
            if delta != cb - prev_cb:
                out.append(viol('C13', i, 'transfer', 'balance moved by %d, claimed balance by %d' % (delta, cb - prev_cb)))
    return out


# ------------------------------------------------------------------ C10 blacklist
def oracle_blacklist(h):
    out = []
    if not h.deployed:
        return out
    v = h.variant
    for i, c, r, vb, va, b0, b1 in h.steps():
        if vb is None or r['status'] != 'ok' or va is None:
            continue
        if c.ep in ('confirm', 'confirmNft', 'claim') and c.caller in h.addrs and (V(vb, 'blacklisted', c.caller) or [0])[0] == 1:
            # a blacklisted participant can neither confirm, nor enter the NFT draw, nor claim anything
            if c.ep != 'claim' or r['bal']:
                out.append(viol('C10', i, 'blocked', '%s accepted from blacklisted %d (balances moved: %r)' % (c.ep, c.caller, bool(r['bal']))))
        if c.ep in ('blacklist', 'refund'):
            price = V(vb, 'price')
            users = c.args[1:]
            cfg = V(vb, 'config')
            if c.round >= cfg[1]:
                out.append(viol('C10', i, 'late', 'blacklisting accepted after selection start'))
            for u in set(users):
                conf = (V(vb, 'confirmed', u) or [0])[0]
                got = b1(u, price[0]) - b0(u, price[0])
                exp = price[1] * conf
                if v in NFTV:
                    nc = V(vb, 'nftCost')
                    if (V(vb, 'confirmedNft', u) or [0])[0] == 1:
                        if (nc[0], nc[1]) == (price[0], 0):
                            exp += nc[2]
                        elif b1(u, nc[0], nc[1]) - b0(u, nc[0], nc[1]) != nc[2]:
                            out.append(viol('C10', i, 'fee', 'NFT fee not returned to blacklisted %d' % u))
                        if (V(va, 'confirmedNft', u) or [0])[0] == 1:
                            out.append(viol('C10', i, 'fee_list', 'blacklisted %d still listed as NFT payer' % u))
                if got != exp and u != c.caller:
                    out.append(viol('C10', i, 'refund', 'blacklisted %d got %d, had paid %d' % (u, got, exp)))
                if (V(va, 'confirmed', u) or [0])[0] != 0 or (V(va, 'blacklisted', u) or [0])[0] != 1:
                    out.append(viol('C10', i, 'state', 'after blacklisting %d: confirmed %r blacklisted %r' % (u, V(va, 'confirmed', u), V(va, 'blacklisted', u))))
                if not V(vb, 'range', u):
                    out.append(viol('C10', i, 'no_alloc', 'account %d without allocation blacklisted' % u))
            for a in h.addrs:
                if a not in users:
                    for nm in ('range', 'confirmed', 'blacklisted', 'utStatus'):
                        if V(va, nm, a) != V(vb, nm, a):
                            out.append(viol('C10', i, 'frame', '%s of bystander %d changed' % (nm, a)))
        if c.ep == 'unblacklist':
            users = c.args[1:]
            for u in set(users):
                if (V(va, 'blacklisted', u) or [0])[0] != 0:
                    out.append(viol('C10', i, 'unbl_state', '%d still blacklisted' % u))
            for a in h.addrs:
                if a not in users:
                    for nm in ('range', 'confirmed', 'blacklisted', 'utStatus'):
                        if V(va, nm, a) != V(vb, nm, a):
                            out.append(viol('C10', i, 'unbl_frame', '%s of bystander %d changed' % (nm, a)))
            for a in h.addrs:
                if V(va, 'range', a) != V(vb, 'range', a) or V(va, 'confirmed', a) != V(vb, 'confirmed', a):
                    out.append(viol('C10', i, 'unbl_frame', 'tickets / confirmations of %d changed' % a))
            if v in V1 + ('gt2',):
                # every restored holder gets its reservation back out of the base winners, exactly once
                drop = 0
                for u in set(users):
                    if u in h.addrs and (V(vb, 'blacklisted', u) or [0])[0] == 1:
                        ut = V(va, 'utStatus', u)
                        if ut:
                            drop += (ut[3] + ut[4]) if v in V1 else sum(ut[2 + 2 * k] for k in range(ut[1]))
                wb, wa = V(vb, 'nrWinning')[0], V(va, 'nrWinning')[0]
                if set(users) <= set(h.addrs) and wb - wa != drop:
                    out.append(viol('C10', i, 'unbl_reserve', 'restored holders reserve %d tickets but the base winners went from %d to %d' % (drop, wb, wa)))
    return out


# ------------------------------------------------------------------ C12 reserve / C18 allocation
def oracle_reserve(h):
    out = []
    if not h.deployed:
        return out
    v = h.variant
    for i, c, r, vb, va, b0, b1 in h.steps():
        if va is None:
            continue
        ok = r['status'] == 'ok'
        f = V(va, 'flags')
        W = V(va, 'nrWinning')[0]
        if W >= 2 ** 32:
            out.append(viol('C12', i, 'wrap', 'winners counter is %d' % W))
        if ok and c.ep == 'addTickets' and vb is not None:
            # C18: fresh consecutive ranges
            last = V(vb, 'totalTickets')[0]
            n = c.args[0]
            a = c.args[1:]
            k = 0
            seen = set()
            reserved = 0
            all_listed = True
            for _ in range(n):
                if v in V1:
                    u, cnt = a[k], a[k + 1] + a[k + 2]
                    k += 4
                    ut = V(va, 'utStatus', u) if u in h.addrs else None
                    if ut:
                        reserved += ut[3] + ut[4]
                    else:
                        all_listed = False
                elif v == 'gt2':
                    u, cnt, m = a[k], a[k + 1], a[k + 2]
                    infos = a[k + 3:k + 3 + 2 * m]
                    k += 3 + 2 * m
                    if cnt == 0:
                        continue
                    reserved += sum(infos[2 * j] for j in range(m))
                    if cnt > 255 or m > 10 or 20 <= u <= 30 or any(infos[2 * j] > infos[2 * j + 1] for j in range(m)):
                        out.append(viol('C18', i, 'limits', 'entry (%d, %d, %r) accepted' % (u, cnt, infos)))
                else:
                    u, cnt = a[k], a[k + 1]
                    k += 2
                if u in seen or V(vb, 'range', u):
                    out.append(viol('C18', i, 'duplicate', 'participant %d allocated twice' % u))
                seen.add(u)
                rg = V(va, 'range', u) if u in h.addrs else None
                if u in h.addrs:
                    if rg != [last + 1, last + cnt]:
                        out.append(viol('C18', i, 'range', 'participant %d got %r, expected [%d, %d]' % (u, rg, last + 1, last + cnt)))
                last += cnt
            if V(va, 'totalTickets')[0] != last:
                out.append(viol('C18', i, 'total', 'total tickets %d, expected %d' % (V(va, 'totalTickets')[0], last)))
            if v in V1 + ('gt2',) and all_listed:
                wb, wa = V(vb, 'nrWinning')[0], V(va, 'nrWinning')[0]
                if reserved > wb:
                    out.append(viol('C18', i, 'over_reserve', 'allocation reserving %d guaranteed tickets accepted with %d base winners left' % (reserved, wb)))
                elif wb - wa != reserved:
                    out.append(viol('C18', i, 'reserve', 'the allocated participants hold %d guaranteed tickets but the base winners went from %d to %d' % (reserved, wb, wa)))
    return out


# ------------------------------------------------------------------ C11 guarantees
def oracle_guarantees(h):
    out = []
    if not h.deployed or h.variant not in V1 + ('gt2',):
        return out
    v = h.variant
    before = None
    alloc_v1 = {}    # user -> (staking, energy, migrated) from accepted allocations (v1 family)
    for i, c, r, vb, va, b0, b1 in h.steps():
        if c.ep == 'addTickets' and r['status'] == 'ok' and v in V1:
            a = c.args[1:]
            for k in range(c.args[0]):
                alloc_v1[a[4 * k]] = (a[4 * k + 1], a[4 * k + 2], a[4 * k + 3])
        if vb is not None and V(vb, 'flags')[2] == 1 and V(vb, 'flags')[3] == 0 and before is None:
            before = vb
        if c.ep == 'extra' and r['status'] == 'ok' and r['ret'] == [0] and va is not None and before is not None:
            n = V(va, 'totalTickets')[0]
            for a in h.addrs:
                w0 = set(V(before, 'winIds', a) or [])
                w1 = set(V(va, 'winIds', a) or [])
                if not w0 <= w1:
                    out.append(viol('C11', i, 'lost_winner', 'participant %d lost winning tickets in the distribution step' % a))
                ut = V(before, 'utStatus', a)
                conf = V(before, 'confirmed', a)[0]
                if ut and v == 'gt2':
                    infos = [(ut[2 + 2 * k], ut[3 + 2 * k]) for k in range(ut[1])]
                    q = sum(g for g, m in infos if conf >= m)
                    need = min(q, conf)
                    if len(w1) < need and (V(before, 'blacklisted', a) or [0])[0] == 0:
                        out.append(viol('C11', i, 'honoured', 'participant %d qualifies for %d guaranteed tickets (confirmed %d) but holds %d winners' % (a, q, conf, len(w1))))
                elif v in V1 and a in alloc_v1 and (V(before, 'blacklisted', a) or [0])[0] == 0:
                    st, en, mgf = alloc_v1[a]
                    sg, mg = (1 if st >= h.min_conf else 0), (1 if mgf else 0)
                    g = 0
                    if conf >= en:
                        g += mg
                    if (g > 0 and conf >= st + en) or (g == 0 and conf >= h.min_conf):
                        g += sg
                    need = min(g, conf)
                    if len(w1) < need and (V(before, 'blacklisted', a) or [0])[0] == 0:
                        out.append(viol('C11', i, 'honoured', 'participant %d qualifies for %d guaranteed tickets (confirmed %d) but holds %d winners' % (a, g, conf, len(w1))))
            W = V(va, 'nrWinning')[0]
            tot = sum(len(V(va, 'winIds', a) or []) for a in h.addrs)
            if tot != W:
                out.append(viol('C11', i, 'foreign_or_phantom', 'reported winners %d but participants hold %d winning tickets within 1..%d' % (W, tot, n)))
            if W != min(h.K, n):
                out.append(viol('C12', i, 'final_winners', 'final winners %d, expected min(%d, %d)' % (W, h.K, n)))
    return out


# ------------------------------------------------------------------ C20 events
def oracle_events(h):
    out = []
    if not h.deployed:
        return out
    v = h.variant
    for i, c, r, vb, va, b0, b1 in h.steps():
        ok = r['status'] == 'ok'
        if not ok:
            if r['events']:
                out.append(viol('C20', i, 'rejected_event', 'rejected call emitted %r' % (r['events'],)))
            continue
        hdr = [c.caller, c.round, c.epoch, c.caller, c.round, c.epoch]
        names = [e[0] for e in r['events']]
        for e in r['events']:
            if e[0] not in ('pauseContract', 'unpauseContract') and e[1][:6] != hdr:
                out.append(viol('C20', i, 'topics', 'event %s header %r, expected caller/round/epoch %r' % (e[0], e[1][:6], hdr)))
        if c.ep in ('filter', 'select', 'extra'):
            done_name = {'filter': 'filterTicketsCompleted', 'select': 'selectWinnersCompleted', 'extra': 'distributeGuaranteedTicketsCompleted'}[c.ep]
            if r['ret'] == [1] and r['events']:
                out.append(viol('C20', i, 'interrupted_event', 'interrupted %s emitted %r' % (c.ep, names)))
            if r['ret'] == [0]:
                want = 1 if (c.ep != 'extra' or v == 'gt2') else 0
                if names.count(done_name) != want:
                    out.append(viol('C20', i, 'completion_event', 'completed %s emitted %r' % (c.ep, names)))
                elif want and va is not None:
                    ev = [e for e in r['events'] if e[0] == done_name][0]
                    if c.ep == 'filter' and ev[1][6:] != [V(va, 'totalTickets')[0]]:
                        out.append(viol('C20', i, 'filter_payload', 'payload %r, tickets left %d' % (ev[1][6:], V(va, 'totalTickets')[0])))
                    if c.ep == 'select' and ev[1][6:] != [V(va, 'nrWinning')[0]]:
                        out.append(viol('C20', i, 'select_payload', 'payload %r, winners %d' % (ev[1][6:], V(va, 'nrWinning')[0])))
                    if c.ep == 'extra' and vb is not None and ev[1][6:] != [V(va, 'nrWinning')[0] - V(vb, 'nrWinning')[0]]:
                        out.append(viol('C20', i, 'distribute_payload', 'payload %r, additional winners %d' % (ev[1][6:], V(va, 'nrWinning')[0] - V(vb, 'nrWinning')[0])))
        if c.ep == 'setPrice':
            exp = [('setTicketPrice', hdr + [c.args[0], 0, c.args[1]])]
            if r['events'] != exp:
                out.append(viol('C20', i, 'price_event', 'events %r expected %r' % (r['events'], exp)))
        refunds = [e for e in r['events'] if e[0] == 'refundTicketPayment']
        if c.ep in ('blacklist', 'refund') and vb is not None:
            price = V(vb, 'price')
            exp = []
            seen = set()
            for u in c.args[1:]:
                cf = (V(vb, 'confirmed', u) or [0])[0]
                if cf > 0 and u not in seen:
                    exp.append(hdr + [cf, price[0], 0, price[1] * cf])
                seen.add(u)
            if [e[1] for e in refunds] != exp:
                out.append(viol('C20', i, 'refund_events', 'refund events %r expected %r' % ([e[1] for e in refunds], exp)))
            if v == 'gt2' and c.ep == 'blacklist':
                be = [e[1] for e in r['events'] if e[0] == 'addUsersToBlacklist']
                if be != [hdr + [c.args[0]] + c.args[1:]]:
                    out.append(viol('C20', i, 'blacklist_event', 'blacklist event %r' % (be,)))
        if c.ep == 'claim' and vb is not None:
            price = V(vb, 'price')
            d = b1(c.caller, price[0]) - b0(c.caller, price[0])
            amt = sum(e[1][9] for e in refunds)
            nft_same = False
            if v in NFTV:
                nc = V(vb, 'nftCost')
                nft_same = (nc[0], nc[1]) == (price[0], 0)
            if not nft_same and d != amt:
                out.append(viol('C20', i, 'claim_refund_event', 'refund events total %d, balance moved %d' % (amt, d)))
            for e in refunds:
                if e[1][9] != price[1] * e[1][6] or e[1][7] != price[0]:
                    out.append(viol('C20', i, 'refund_payload', 'refund event %r inconsistent with price %r' % (e[1], price)))
            if v == 'gt2':
                ce = [e[1] for e in r['events'] if e[0] == 'claimLaunchpadTokens']
                dlp = b1(c.caller, h.lp) - b0(c.caller, h.lp)
                if (dlp > 0) != (len(ce) == 1) or (ce and ce[0][6:] != [h.lp, 0, dlp]):
                    out.append(viol('C20', i, 'claim_event', 'claim events %r, tokens paid out %d' % (ce, dlp)))
        if v == 'gt2' and c.ep == 'addTickets':
            ae = [e[1] for e in r['events'] if e[0] == 'addTickets']
            a = c.args[1:]
            k = 0
            users = tickets = guar = 0
            for _ in range(c.args[0]):
                cnt, m = a[k + 1], a[k + 2]
                g = sum(a[k + 3 + 2 * j] for j in range(m))
                k += 3 + 2 * m
                if cnt == 0:
                    continue
                users += 1
                tickets += cnt
                guar += g
            if ae != [hdr + [users, tickets, guar]]:
                out.append(viol('C20', i, 'add_event', 'addTickets event %r expected %r' % (ae, hdr + [users, tickets, guar])))
        if v == 'gt2' and c.ep == 'setSchedule2':
            se = [e[1] for e in r['events'] if e[0] == 'setUnlockSchedule']
            if se != [hdr + c.args]:
                out.append(viol('C20', i, 'schedule_event', 'schedule event %r' % (se,)))
        if v == 'gt2' and c.ep == 'unblacklist':
            ue = [e[1] for e in r['events'] if e[0] == 'removeGuaranteedUsersFromBlacklist']
            if ue != [hdr + [c.args[0]] + c.args[1:]]:
                out.append(viol('C20', i, 'unblacklist_event', 'event %r' % (ue,)))
    return out


# ------------------------------------------------------------------ C14 NFT draw
def oracle_nft(h):
    out = []
    if not h.deployed or h.variant not in NFTV:
        return out
    total = h.nft0[3]
    for i, c, r, vb, va, b0, b1 in h.steps():
        ok = r['status'] == 'ok'
        if vb is None:
            continue
        if c.ep == 'confirmNft':
            nc = V(vb, 'nftCost')
            cfg = V(vb, 'config')
            u = c.caller
            cond = (cfg[0] <= c.round < cfg[1] and (V(vb, 'confirmed', u) or [0])[0] > 0 and
                    (V(vb, 'confirmedNft', u) or [0])[0] == 0 and b0(0, 5, 1) >= 1 and
                    (c.pay == [(nc[0], nc[1], nc[2])]) and b0(u, nc[0], nc[1]) >= nc[2])
            if ok != cond and u in h.addrs:
                out.append(viol('C14', i, 'pay_iff', 'confirmNft by %d %s (condition %s): %s' % (u, 'accepted' if ok else 'rejected', cond, r['msg'])))
        if c.ep == 'extra' and ok and r['ret'] == [0] and va is not None:
            payers = [a for a in h.addrs if (V(vb, 'confirmedNft', a) or [0])[0] == 1]
            if h.variant == 'ngt':
                payers = [a for a in h.addrs if (V(va, 'confirmedNft', a) or [0])[0] == 1]
            winners = [a for a in h.addrs if (V(va, 'wonNft', a) or [0])[0] == 1]
            if len(winners) != min(total, len(payers)) or not set(winners) <= set(payers):
                out.append(viol('C14', i, 'draw', 'NFT winners %r, payers %r, available %d' % (winners, payers, total)))
    return out


ALL_ORACLES = [oracle_ledgers, oracle_selection, oracle_gates, oracle_confirm, oracle_vesting,
               oracle_blacklist, oracle_reserve, oracle_guarantees, oracle_events, oracle_nft]


def run_oracles(h):
    res = []
    for o in ALL_ORACLES:
        try:
            res += o(h)
        except Exception as ex:  # an oracle bug must never look like a violation
            res.append({'prop': 'ORACLE-ERROR', 'idx': -1, 'clause': o.__name__, 'msg': repr(ex)})
    return res
