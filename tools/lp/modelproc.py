"""Interactive wrapper around the extracted Coq model (driver/model_driver - -)."""
import subprocess, os

ROOT = os.path.dirname(os.path.dirname(os.path.dirname(os.path.abspath(__file__))))
DRIVER = os.path.join(ROOT, 'driver', 'model_driver')


def parse_block(lines):
    """Parse the observation lines of one call into a dict."""
    rec = {'status': None, 'ret': [], 'events': [], 'rng': [], 'locks': [], 'bal': {}, 'views': {}, 'msg': ''}
    for ln in lines:
        if not ln:
            continue
        k = ln[0]
        if k in 'CD' and ln[1] == ' ':
            body, _, msg = ln.partition('#')
            t = body.split()
            rec['status'] = t[2] if k == 'C' else t[1]
            if k == 'C':
                rec['idx'] = int(t[1])
            rec['msg'] = msg.strip()
        elif k == 'r':
            rec['ret'] = [int(x) for x in ln.split()[1:]]
        elif k == 'e':
            t = ln.split()
            rec['events'].append((t[1], [int(x) for x in t[2:]]))
        elif k == 'g':
            t = ln.split()
            rec['rng'].append(('F',) if t[1] == 'F' else ('D', t[2], int(t[3]), int(t[4])))
        elif k == 'l':
            rec['locks'].append(tuple(int(x) for x in ln.split()[1:]))
        elif k == 'b':
            t = ln.split()
            rec['bal'][(int(t[1]), int(t[2]), int(t[3]))] = int(t[4])
        elif k == 'v':
            head, _, val = ln.partition(':')
            h = head.split()
            key = (h[1], int(h[2])) if len(h) > 2 else (h[1], None)
            val = val.strip()
            rec['views'][key] = None if val == 'FAIL' else [int(x) for x in val.split()]
    return rec


class ModelProc:
    def __init__(self):
        self.p = subprocess.Popen([DRIVER, '-', '-'], stdin=subprocess.PIPE, stdout=subprocess.PIPE,
                                  text=True, bufsize=1)

    def send(self, line, expect_reply):
        self.p.stdin.write(line + '\n')
        self.p.stdin.flush()
        if not expect_reply:
            return None
        out = []
        while True:
            ln = self.p.stdout.readline()
            if ln == '':
                raise RuntimeError('model driver died')
            ln = ln.rstrip('\n')
            if ln == '.':
                break
            out.append(ln)
        return out

    def close(self):
        try:
            self.p.stdin.close()
            self.p.wait(timeout=5)
        except Exception:
            self.p.kill()
