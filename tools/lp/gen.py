"""Model-guided generator of lifecycle histories (see harness/FORMAT.md).

Every random choice comes from the one `random.Random` handed in.  The generator talks to the
extracted Coq model while it generates, so that most calls are valid (exact payments, exact
deposit, legal phase) and a separate stream of deliberately invalid calls is mixed in.
"""
import hashlib
from .modelproc import ModelProc, parse_block

VARIANTS = ['base', 'lock', 'nft', 'gt1', 'mig', 'lgt', 'ngt', 'gt2']
V1 = ('gt1', 'mig', 'lgt', 'ngt')
NFTV = ('nft', 'ngt')
LOCKV = ('lock', 'lgt')
HAS_EXTRA = ('nft', 'gt1', 'mig', 'lgt', 'ngt', 'gt2')
HAS_UNBL = ('gt1', 'mig', 'gt2')
OWNER = 1
SUPPORT = 13
STRANGERS = [14, 15]
SC_CALLERS = [20, 21]
LP, PAY_ESDT, NFTC, OTHER, SFTPAY = 1, 2, 3, 4, 6


class History:
    def __init__(self, rng, variant, hid, profile='dev', size='small', tags=None, twin=False):
        self.rng = rng
        self.v = variant
        self.hid = hid
        self.profile = profile
        self.size = size
        self.lines = []
        self.ncalls = 0
        self.m = ModelProc()
        self.views = {}
        self.round = 0
        self.epoch = 0
        self.stats = {'ok': 0, 'fail': 0}
        self.kinds = {}
        self.deployed = False
        self.tags = tags or []
        self.twin = twin
        self.twin_lines = []
        self.fixed_rnd = None

    # ---------------------------------------------------------------- plumbing
    def raw(self, line, reply=False, twin_line=None):
        self.lines.append(line)
        self.twin_lines.append(twin_line if twin_line is not None else line)
        return self.m.send(line, reply)

    def pseudo_seeds(self):
        h = hashlib.sha256(('%s-%d-%d' % (self.hid, self.ncalls, self.rng.getrandbits(32))).encode()).hexdigest()
        h2 = hashlib.sha256(h.encode()).hexdigest()
        return [h, h2]

    def call(self, caller, ep, pay=(), budget='-', snap=1, kind=None):
        """Append a call; returns the model's record for it."""
        toks = ep if isinstance(ep, list) else ep.split()
        if self.round >= 2 ** 64:
            self.round = 2 ** 64 - 1      # the block round is a u64: a timeline value of 2^64-1 was reached and passed
        rnd = self.rng.getrandbits(40)
        if self.fixed_rnd is not None:
            rnd = self.fixed_rnd
        payl = []
        for (t, n, a) in pay:
            payl += [str(t), str(n), str(a)]
        line = 'C %d %d %d %d %s %d %d %s %s' % (caller, self.round, self.epoch, rnd, budget, snap, len(pay),
                                                  ' '.join(payl), ' '.join(str(x) for x in toks))
        line = ' '.join(line.split())
        tline = None
        if self.twin and toks[0] in ('filter', 'select', 'extra'):
            tl = line.split()
            tl[5] = '-'
            tline = ' '.join(tl)
        # generation-time seeds for the model only (not part of the history: the real seeds come from the VM)
        self.m.send('S 2 ' + ' '.join(self.pseudo_seeds()), False)
        out = self.raw(line, True, tline)
        rec = parse_block(out)
        self.ncalls += 1
        if rec['views']:
            self.views = rec['views']
        ok = rec['status'] == 'ok'
        self.stats['ok' if ok else 'fail'] += 1
        k = (kind or toks[0]) + (':ok' if ok else ':fail')
        self.kinds[k] = self.kinds.get(k, 0) + 1
        return rec

    def view(self, name, a=None):
        return self.views.get((name, a))

    def deposit_size(self):
        out = self.m.send('Q depositSize', True)
        return int(out[0].split()[1])

    def finish(self):
        self.raw('E', True)
        self.m.close()
        return self.lines

    # ---------------------------------------------------------------- set-up
    def amount(self, small_p=0.5):
        r = self.rng
        if r.random() < small_p:
            return r.choice([1, 2, 3, 7, 10, 100, 1000])
        return r.choice([10 ** 6, 10 ** 18, 3 * 10 ** 18 + 7, 10 ** 24 + 1, 10 ** 30])

    def start(self):
        r = self.rng
        v = self.v
        big = self.size == 'big'
        self.users = list(range(2, 2 + (r.randint(3, 9) if big else r.randint(1, 6))))
        # guarantee stress: few base winners among many tickets, so that guarantees decide who wins
        self.stress = (v in V1 or v == 'gt2') and r.random() < (0.6 if self.twin else 0.4)
        if self.stress:
            self.users = list(range(2, 2 + r.randint(3, 6)))
        self.snap_addrs = [OWNER] + self.users + [SUPPORT, STRANGERS[0], SC_CALLERS[0]]
        self.raw('H %s %s %s' % (self.hid, v, self.profile))
        self.raw('U %d %s' % (len(self.snap_addrs), ' '.join(map(str, self.snap_addrs))))
        self.pay_tok = r.choice([0, 0, PAY_ESDT])
        self.price = self.amount()
        if r.random() < 0.04:
            # the price token's identifier is also the identifier of a semi-fungible asset the participants hold
            # (nonce 5): only the fungible one (nonce 0, which nobody holds) is the payment token
            self.pay_tok = SFTPAY
            self.price = r.choice([1, 2, 7, 100])
        self.tptv = self.amount()
        self.K = r.randint(8, 30) if big else r.randint(1, 8)
        if self.stress:
            self.K = 2 * len(self.users) + r.choice([0, 1, 2])
            if self.twin and r.random() < 0.3:
                # dense sale: most (not all) tickets win, so the leftover re-draws often land on winners (no progress in that call)
                self.dense = True
                self.K = 4 * len(self.users) + r.choice([0, 1, 2])
        self.round = r.randint(0, 40)
        self.epoch = r.randint(0, 5)
        self.conf, self.ws = 100, 200
        self.claim = r.choice([200, 200, 230, 260])
        self.minconf = r.randint(1, 3)
        self.nft = (r.choice([(0, 0), (NFTC, 0), (SFTPAY, 5), (self.pay_tok, 0), (LP, 0) if r.random() < 0.5 else (NFTC, 0)]), self.amount())
        if self.nft[0] == (SFTPAY, 5):
            self.nft = (self.nft[0], r.choice([1, 2, 7, 100]))
        self.total_nfts = r.choice([1, 1, 2, 2, 3, 4])       # mostly fewer NFTs than entrants
        self.lock = (r.choice([1, 2500, 5000, 9999, 10000]), r.choice([self.epoch + 1, 20, 40]), 30)
        lp = LP
        bad = r.random() < 0.04
        args = [lp, self.tptv, self.pay_tok, self.price, self.K, self.conf, self.ws, self.claim]
        if bad:
            i = r.choice([1, 3, 4, 5, 7])
            args[i] = {1: 0, 3: 0, 4: 0, 5: 200, 7: 150}[i]
        extra = []
        if v in ('gt1', 'mig'):
            extra = [self.minconf]
        elif v == 'lock':
            extra = list(self.lock)
        elif v == 'lgt':
            extra = [self.minconf] + list(self.lock)
        elif v == 'nft':
            extra = [self.nft[0][0], self.nft[0][1], self.nft[1], self.total_nfts]
        elif v == 'ngt':
            extra = [self.nft[0][0], self.nft[0][1], self.nft[1], self.total_nfts, self.minconf]
        if extra and r.random() < 0.05:
            j = r.randrange(len(extra))
            extra[j] = 0
            if v in LOCKV and j == len(extra) - 1:
                extra[j] = r.choice([31, 32, 2])   # not a contract / zero address / plain account
            bad = True
        out = self.raw('D %d %d %d %s' % (OWNER, self.round, self.epoch, ' '.join(map(str, args + extra))), True)
        st = parse_block(out)['status']
        self.deployed = st == 'ok'
        return self.deployed

    # ---------------------------------------------------------------- helpers on model views
    def alloc(self, u):
        rg = self.view('range', u)
        if not rg:
            return 0
        return max(0, rg[1] - rg[0] + 1)

    def confirmed(self, u):
        x = self.view('confirmed', u)
        return x[0] if x else 0

    def cur_price(self):
        p = self.view('price')
        return (p[0], p[1]) if p else (self.pay_tok, self.price)

    def payment(self, n):
        tok, pr = self.cur_price()
        return [(tok, 0, pr * n)]

    def some_caller(self, p_owner=0.6):
        r = self.rng
        x = r.random()
        if x < p_owner:
            return OWNER
        return r.choice(self.users + [SUPPORT] + STRANGERS + SC_CALLERS)

    def non_owner(self):
        return self.rng.choice(self.users + [SUPPORT] + STRANGERS + SC_CALLERS)

    # ---------------------------------------------------------------- phase AddTickets
    def entry(self, u):
        r = self.rng
        v = self.v
        big = self.size == 'big'
        if v in V1:
            if r.random() < (0.5 if self.stress else 0.2):
                # holder of both guarantees whose energy allowance exceeds the staking minimum
                mc = self.minconf
                self.dual = getattr(self, 'dual', set()) | {u}
                return [u, mc + r.choice([0, 0, 1, 2]), mc + r.choice([1, 1, 2, 3]), 1]
            st = r.choice([0, 0, 1, 1, 2, 3, 4]) * (3 if big and r.random() < 0.3 else 1)
            en = r.choice([0, 0, 1, 2, 3])
            if self.stress:
                st, en = r.randint(0, self.minconf + 2), r.randint(1, 4)
            if getattr(self, 'dense', False):
                st, en = self.minconf + r.randint(0, 2), r.randint(3, 5)     # 5-10 tickets each: more tickets than winners
            if st + en == 0 and r.random() < 0.85:
                en = 1      # an allocation of zero tickets makes the whole batch fail (since F10): keep that rare
            return [u, st, en, int(r.random() < 0.35)]
        if v == 'gt2':
            cnt = r.choice([0, 1, 2, 3, 4, 5, 6, 6, 12 if big else 3])
            if self.stress:
                cnt = r.randint(3, 6)
                infos = []
                for _ in range(r.randint(1, 2)):
                    infos += [r.choice([1, 1, 2]), r.randint(1, cnt)]
                return [u, cnt, len(infos) // 2] + infos
            x = r.random()
            if x < 0.03:
                cnt = r.choice([255, 256])
            k = r.choice([0, 0, 1, 1, 2, 3])
            if r.random() < 0.03:
                k = r.choice([10, 11])
            infos = []
            for _ in range(k):
                g = r.choice([0, 1, 1, 1, 2])
                mc = g + r.choice([0, 0, 1, 2, 3])
                if r.random() < 0.03:
                    mc = max(0, g - 1)
                infos += [g, mc]
            return [u, cnt, k] + infos
        cnt = r.choice([0, 1, 1, 2, 3, 4, 5, 8]) * (4 if big and r.random() < 0.4 else 1)
        if cnt == 0 and r.random() < 0.8:
            cnt = 1         # zero-ticket allocations are rejected (since F10): keep them rare
        return [u, cnt]

    def add_tickets(self, users, caller=OWNER):
        ents = []
        for u in users:
            ents += self.entry(u)
        return self.call(caller, ['addTickets', len(users)] + ents)

    def do_deposit(self, exact=True, caller=OWNER):
        r = self.rng
        tpt = (self.view('tpt') or [self.tptv])[0]
        amt = tpt * self.deposit_size()
        tok = LP
        if not exact:
            c = r.randrange(5)
            if c == 0:
                amt += 1
            elif c == 1:
                amt = max(1, amt - 1)
            elif c == 2:
                tok = OTHER
            elif c == 3:
                return self.call(caller, 'deposit', pay=[(LP, 0, max(1, amt // 2)), (LP, 0, max(1, amt - amt // 2))], kind='deposit_bad')
            else:
                amt = tpt * (self.deposit_size() + 1)
        return self.call(caller, 'deposit', pay=[(tok, 0, max(1, amt))], kind='deposit' if exact else 'deposit_bad')

    def setter_noise(self):
        """one random owner-style set-up call (valid or not), by a random caller"""
        r = self.rng
        v = self.v
        c = self.some_caller(0.75)
        ch = r.randrange(12)
        if ch == 0:
            tok = r.choice([0, PAY_ESDT, PAY_ESDT, 99, LP if r.random() < 0.3 else OTHER])
            amt = r.choice([0, self.amount(), self.amount()])
            return self.call(c, ['setPrice', tok, amt])
        if ch == 1:
            return self.call(c, ['setTpt', r.choice([0, self.amount(), self.amount()])])
        if ch in (2, 3, 4):
            name = ['setConfStart', 'setWsStart', 'setClaimStart'][ch - 2]
            cfg = self.view('config') or [self.conf, self.ws, self.claim]
            cur = cfg[ch - 2]
            val = r.choice([cur + r.randint(-30, 30), self.round, self.round + 1, cfg[(ch - 1) % 3], cur + 5, 2 ** 64 - 1 if r.random() < 0.1 else cur + 1])
            return self.call(c, [name, max(0, val)])
        if ch == 5:
            return self.call(c, ['setSupport', r.choice([SUPPORT, SUPPORT, STRANGERS[0], OWNER])])
        if ch == 6:
            rec = self.call(c, 'pause')
            if rec['status'] == 'ok' and r.random() < 0.9:
                self.paused_probe()
                self.call(OWNER, 'unpause')
            return rec
        if ch == 7:
            return self.call(c, 'unpause')
        if ch == 8 and v == 'gt1':
            return self.schedule1(c)
        if ch == 8 and v == 'gt2':
            return self.schedule2(c)
        if ch == 9 and v in NFTV:
            tok, nonce = r.choice([(0, 0), (NFTC, 0), (SFTPAY, 5), (0, 1), (99, 0), (self.pay_tok, 0), (LP, 0)])
            return self.call(c, ['setNftCost', tok, nonce, r.choice([0, 3, self.amount()]) if tok != SFTPAY else r.choice([0, 1, 5])])
        if ch == 10:
            return self.do_deposit(exact=False, caller=c)
        return self.probe()

    def schedule1(self, c):
        r = self.rng
        start = r.choice([self.round, self.round + r.randint(0, 400), max(0, self.round - 1), self.claim])
        ch = r.randrange(6)
        if ch == 0:
            if r.random() < 0.5:
                start = self.claim + r.choice([5, 30, 100])     # everything at once, but later than the claim round
            a = [start, 10000, r.choice([0, 3]), 0, r.choice([0, 5])]
        elif ch == 1:
            times = r.choice([1, 2, 3, 4, 7])
            per = r.choice([p for p in (1000, 1400, 2500, 1) if times * p <= 10000])
            a = [start, 10000 - times * per, times, per, r.choice([1, 5, 30])]
        elif ch == 2:
            a = [start, r.choice([0, 2000]), 3, 3333, 10]
        elif ch == 3:
            a = [start, 5000, 5, 1000, 0]
        elif ch == 4:
            a = [start, 16, 2, 2 ** 63 + 4992, 1]  # times*pct overflows u64 and wraps to 9984
        else:
            a = [start, 2500, 3, 2500, r.choice([1, 7])]
        return self.call(c, ['setSchedule1'] + a)

    def schedule2(self, c):
        r = self.rng
        n = r.choice([0, 1, 2, 3, 4, 5, 60, 61] if r.random() < 0.15 else [1, 2, 3, 4])
        base = r.choice([self.round, self.round, self.claim, self.round + 50, max(0, self.round - 1)])
        rounds = []
        cur = base
        for _ in range(n):
            rounds.append(cur)
            cur += r.choice([0, 1, 10, 100])
        if n and r.random() < 0.08:
            rounds[-1] = self.round + 26280000 + r.choice([0, 1])
        if n > 1 and r.random() < 0.08:
            rounds[0], rounds[-1] = rounds[-1], rounds[0]
        pcts = []
        left = 10000
        for i in range(n):
            if i == n - 1:
                p = left
            else:
                p = r.randint(0, left) if n < 10 else left // (n - i)
            pcts.append(p)
            left -= p
        if n and r.random() < 0.15:
            pcts[r.randrange(n)] += r.choice([1, -1 if pcts[0] > 0 else 1, 10001])
            pcts = [max(0, p) for p in pcts]
        if n and n < 60 and r.random() < 0.25:
            # an empty (0 %) milestone at an odd place: out of order, in the past, beyond the limit
            idx = r.randrange(n + 1)
            odd = r.choice([rounds[-1] + 1000, max(0, self.round - 5), self.round + 26280001, base, rounds[0]])
            rounds.insert(idx, odd)
            pcts.insert(idx, 0)
            n += 1
        a = []
        for i in range(n):
            a += [rounds[i], pcts[i]]
        return self.call(c, ['setSchedule2', n] + a)

    def phase_add(self):
        r = self.rng
        v = self.v
        self.round = r.randint(self.round, 60)
        if v in NFTV and r.random() < 0.92:
            self.call(OWNER, 'sftSetup')
        if v == 'gt1' and r.random() < 0.85:
            self.call(OWNER, ['setSchedule1'] + r.choice([
                [self.claim, 10000, 0, 0, 0], [self.claim + r.choice([3, 30, 120]), 10000, 0, 0, 0], [self.claim, 2500, 3, 2500, 10], [self.claim + 5, 0, 4, 2500, 7],
                [self.claim, 1000, 9, 1000, 1], [self.claim, 3334, 2, 3333, 20]]))
        if v == 'gt2' and r.random() < 0.5:
            self.schedule2(OWNER)          # a random (possibly odd) schedule first; a good one usually follows
        if v == 'gt2' and r.random() < 0.75:
            self.call(OWNER, ['setSchedule2'] + r.choice([
                [1, self.claim, 10000], [2, self.claim, 5000, self.claim + 20, 5000],
                [3, self.claim, 3333, self.claim + 10, 3333, self.claim + 10, 3334],
                [4, self.claim, 1, self.claim + 5, 2499, self.claim + 10, 2500, self.claim + 100, 5000]]))
        pend = list(self.users)
        r.shuffle(pend)
        deposited = False
        steps = r.randint(2, 6)
        for _ in range(steps):
            self.round = min(99, self.round + r.choice([0, 0, 1, 3]))
            x = r.random()
            if pend and x < 0.5:
                k = r.randint(1, min(3, len(pend)))
                batch, pend = pend[:k], pend[k:]
                if r.random() < 0.08 and len(self.users) > 1:
                    batch.append(r.choice(self.users))  # possible duplicate
                if v == 'gt2' and r.random() < 0.05:
                    batch.append(SC_CALLERS[1])
                rec = self.add_tickets(batch, OWNER if r.random() < 0.93 else self.non_owner())
                if rec['status'] != 'ok' and r.random() < 0.7:
                    pend = batch[:1] + pend
            elif x < 0.62 and not deposited and r.random() < 0.5:
                if r.random() < 0.3:
                    self.do_deposit(exact=False)
                rec = self.do_deposit(exact=True, caller=OWNER if r.random() < 0.9 else self.non_owner())
                deposited = deposited or rec['status'] == 'ok'
            elif x < 0.72:
                rec = self.blacklist_ops()
                if rec['status'] == 'ok' and r.random() < 0.4:
                    # try to allocate again somebody who was just blacklisted (must be a duplicate)
                    self.add_tickets([rec_user for rec_user in self.last_blacklisted[:1]])
            else:
                self.setter_noise()
        if pend and r.random() < 0.9:
            self.add_tickets(pend)
        if r.random() < 0.3:
            # allocate -> blacklist -> allocate again (must be rejected as a duplicate) -> maybe restore
            done = [u for u in self.users if self.alloc(u) > 0]
            if done:
                a = r.choice(done)
                ep = 'refund' if (v == 'gt2' and r.random() < 0.4) else 'blacklist'
                rec = self.call(r.choice([OWNER, OWNER, SUPPORT]), [ep, 1, a])
                self.last_blacklisted = [a]
                self.add_tickets([a] if r.random() < 0.7 else [a, STRANGERS[1]])
                if v in HAS_UNBL and r.random() < 0.6:
                    self.call(OWNER, ['unblacklist', 1, a])
                    if r.random() < 0.3:
                        self.add_tickets([a])
        if not deposited and r.random() < 0.93:
            if r.random() < 0.3:
                self.do_deposit(exact=False)
            self.do_deposit(exact=True)
            if r.random() < 0.2:
                self.do_deposit(exact=True)  # second deposit must fail

    # ---------------------------------------------------------------- phase Confirm
    def confirm(self, u, mode='ok'):
        r = self.rng
        rem = self.alloc(u) - self.confirmed(u)
        tok, pr = self.cur_price()
        if mode == 'ok':
            tgt = self.target(u)
            togo = tgt - self.confirmed(u)
            if rem <= 0:
                n = r.choice([0, 1])
            elif togo > 0 and r.random() < 0.8:
                n = min(rem, togo if r.random() < 0.7 else r.randint(1, togo))
            else:
                n = r.choice([rem, rem, r.randint(1, rem), 1])
            return self.call(u, ['confirm', n], pay=self.payment(n) if n > 0 else [], kind='confirm')
        n = max(1, min(rem, r.randint(1, 3))) if rem > 0 else 1
        ch = r.randrange(8)
        if ch == 0:
            pay = [(tok, 0, pr * n + 1)]
        elif ch == 1:
            pay = [(tok, 0, max(1, pr * n - 1))]
        elif ch == 2:
            pay = [(OTHER if tok != OTHER else PAY_ESDT, 0, pr * n)]
        elif ch == 3:
            t2 = tok if tok != 0 else PAY_ESDT
            pay = [(t2, 0, max(1, pr * n // 2)), (t2, 0, max(1, pr * n - pr * n // 2))]
        elif ch == 4:
            pay = [(SFTPAY, 5, pr * n if tok == SFTPAY else min(pr * n, 1000))]
        elif ch == 5:
            n = rem + r.choice([1, 2, 2 ** 32 - 1, 2 ** 32])
            pay = [(tok, 0, pr * min(n, 300))]
        elif ch == 6:
            pay = [(0 if tok != 0 else PAY_ESDT, 0, pr * n)]
        else:
            pay = []
        return self.call(u, ['confirm', n], pay=pay, kind='confirm_bad')

    def target(self, u):
        """an interesting total number of confirmations for user u (thresholds of its guarantees)"""
        if not hasattr(self, 'targets'):
            self.targets = {}
        if u in self.targets:
            return self.targets[u]
        r = self.rng
        al = self.alloc(u)
        if getattr(self, 'dense', False) and r.random() < 0.7:
            self.targets[u] = al
            return al
        cands = [al, al, max(0, al - 1), 1]
        ut = self.view('utStatus', u)
        if self.v in V1:
            mc = self.minconf
            cands += [mc, max(0, mc - 1), mc + 1]
            if ut:
                st, en = ut[0], ut[1]
                cands += [en, max(0, en - 1), st + en, max(0, st + en - 1), max(mc, en - 1), max(mc, en - 1)]
        elif self.v == 'gt2' and ut:
            for k in range(ut[1]):
                g, m = ut[2 + 2 * k], ut[3 + 2 * k]
                cands += [m, max(0, m - 1), g, sum(ut[2 + 2 * j] for j in range(ut[1]))]
        t = min(al, r.choice(cands))
        if self.v in V1 and ut and u in getattr(self, 'dual', set()) and ut[1] > self.minconf and r.random() < 0.6:
            t = r.randint(self.minconf, ut[1] - 1)      # staking condition met, migration condition not
        self.targets[u] = t
        return t

    def blacklist_ops(self):
        r = self.rng
        v = self.v
        caller = r.choice([OWNER, OWNER, SUPPORT, self.non_owner()])
        us = r.sample(self.users, min(len(self.users), r.choice([1, 1, 2])))
        nc = [u for u in self.users if u in getattr(self, 'nft_conf', set())]
        if v in NFTV and nc and r.random() < 0.7:
            caller = r.choice([OWNER, OWNER, OWNER, SUPPORT, self.non_owner()])
            # a mixed batch: users without an NFT confirmation first, NFT entrants last (or shuffled)
            plain = [u for u in self.users if u not in nc]
            us = r.sample(plain, min(len(plain), r.randint(1, 3))) + r.sample(nc, r.randint(1, min(2, len(nc))))
            if r.random() < 0.3:
                r.shuffle(us)
        if v in HAS_UNBL and len(self.users) >= 2 and r.random() < 0.3:
            # a batch of several participants, later restored in one call
            us = r.sample(self.users, min(len(self.users), r.randint(2, 3)))
        if r.random() < 0.06:
            us = us + us[:1]
        if r.random() < 0.06:
            us = us + [STRANGERS[1]]
        ep = 'blacklist'
        if v == 'gt2' and r.random() < 0.4:
            ep = 'refund'
        rec = self.call(caller, [ep, len(us)] + us)
        self.last_blacklisted = list(us)
        if rec['status'] == 'ok':
            self.bl_now = getattr(self, 'bl_now', set()) | set(us)
        if rec['status'] == 'ok' and ep == 'blacklist':
            self.nft_conf = getattr(self, 'nft_conf', set()) - set(us)
        if r.random() < 0.6 and rec['status'] == 'ok':
            # attempts of the blacklisted user
            u = us[0]
            if r.random() < 0.5:
                self.confirm(u, 'ok')
            if v in HAS_UNBL or r.random() < 0.2:
                if r.random() < 0.75:
                    back = us if r.random() < 0.7 else us[:1]
                    if r.random() < 0.25:
                        back = sorted(getattr(self, 'bl_now', set()) | set(us))   # everybody blacklisted so far, in one call
                        r.shuffle(back)
                    if r.random() < 0.1:
                        back = back + [r.choice(self.users)]
                    rb = self.call(r.choice([OWNER, SUPPORT, caller]), ['unblacklist', len(back)] + back)
                    if rb['status'] == 'ok':
                        self.bl_now = getattr(self, 'bl_now', set()) - set(back)
                    if r.random() < 0.7:
                        self.confirm(u, 'ok')
        return rec

    def confirm_nft(self, u, good=True):
        r = self.rng
        nc = self.view('nftCost') or [self.nft[0][0], self.nft[0][1], self.nft[1]]
        tok, nonce, amt = nc
        if good:
            rec = self.call(u, 'confirmNft', pay=[(tok, nonce, amt)], kind='confirmNft')
            if rec['status'] == 'ok':
                self.nft_conf = getattr(self, 'nft_conf', set()) | {u}
            return rec
        ch = r.randrange(4)
        if ch == 0:
            pay = [(tok, nonce, amt + 1)]
        elif ch == 1:
            pay = [(OTHER, 0, amt)]
        elif ch == 2:
            pay = []
        else:
            pay = [(tok, nonce, max(1, amt - 1))]
        return self.call(u, 'confirmNft', pay=pay, kind='confirmNft_bad')

    def paused_probe(self):
        r = self.rng
        for _ in range(r.randint(1, 2)):
            ch = r.randrange(5)
            if self.twin:
                # in twin mode only calls whose outcome cannot depend on how far the current step
                # got: in the single-call twin the step is complete at once, so a later step's
                # endpoint (or a claim) would legitimately succeed there and the histories diverge
                ch = 0
            if ch == 0 and self.users:
                self.confirm(r.choice(self.users), 'ok')
            elif ch == 1:
                self.call(self.some_caller(0.3), 'filter', budget=r.choice(['-', 0, 1]))
            elif ch == 2:
                self.call(self.some_caller(0.3), 'select', budget=r.choice(['-', 0, 1]))
            elif ch == 3:
                self.call(self.some_caller(0.3), 'extra', budget=r.choice(['-', 0, 1]))
            elif not self.twin:
                # (not in twin mode: a claim inside a step succeeds in the single-call twin, where the
                # step is already complete, and the two histories legitimately diverge)
                self.call(r.choice(self.users + STRANGERS), 'claim')

    def phase_confirm(self):
        r = self.rng
        v = self.v
        self.round = r.choice([100, 100, r.randint(100, 150)])
        cfg = self.view('config')
        if cfg and r.random() < 0.5:
            self.round = max(self.round, cfg[0]) if r.random() < 0.3 else cfg[0]   # exact boundary round
            if self.users and r.random() < 0.6:
                self.confirm(r.choice(self.users), 'ok')
            if r.random() < 0.6:
                self.call(OWNER, ['setConfStart', self.round + r.choice([1, 5, 20])])
                if r.random() < 0.7:
                    self.setter_noise()
        steps = r.randint(len(self.users), 3 * len(self.users) + 3)
        for _ in range(steps):
            self.round = min(199, self.round + r.choice([0, 0, 1, 5]))
            x = r.random()
            u = r.choice(self.users)
            if x < 0.5:
                self.confirm(u, 'ok')
            elif x < 0.62:
                self.confirm(r.choice(self.users + STRANGERS), 'bad')
            elif x < 0.72:
                self.blacklist_ops()
            elif x < 0.84 and v in NFTV:
                self.confirm_nft(u, good=r.random() < 0.8)
            elif x < 0.86:
                rec = self.call(OWNER, 'pause')
                self.paused_probe()
                if r.random() < 0.95:
                    self.call(OWNER, 'unpause')
            elif x < 0.93:
                self.setter_noise()
            else:
                self.probe()
        if v in NFTV:
            for u in self.users:
                if self.confirmed(u) > 0 and r.random() < r.choice([0.2, 0.6, 0.9]):
                    self.confirm_nft(u, True)
            if r.random() < 0.6:
                self.blacklist_ops()

    # ---------------------------------------------------------------- phase WinnerSelection
    def budget(self):
        r = self.rng
        if self.twin:
            return r.choice([0, 1, 1, 2, 2, 3, 5])       # twins are about interruptions
        return r.choice(['-', '-', 0, 0, 1, 1, 2, 3, 5, 8])

    def run_step(self, ep, max_calls=400):
        """call a resumable endpoint until the model reports completion"""
        r = self.rng
        n = 0
        stuck = 0
        if self.twin:
            self.fixed_rnd = r.getrandbits(40)
        try:
            res = self._run_step(ep, max_calls)
            if self.twin:
                # the real contract may need more iterations than the generation-time model run
                # (different seeds): flush with an unlimited call (rejected if already complete)
                self.call(OWNER, ep, budget='-')
            return res
        finally:
            self.fixed_rnd = None

    def _run_step(self, ep, max_calls):
        r = self.rng
        n = 0
        stuck = 0
        while n < max_calls:
            n += 1
            if ep == 'filter':
                c = r.choice(self.users + [OWNER, STRANGERS[0], SC_CALLERS[0]])
            elif ep == 'select' or (ep == 'extra' and self.v == 'gt2'):
                c = r.choice(self.users + [OWNER, OWNER, STRANGERS[0]] + ([SC_CALLERS[0]] if r.random() < 0.15 else []))
                if r.random() < 0.08:
                    c = SC_CALLERS[0]      # a contract account tries to start or resume the step
            else:
                c = r.choice(self.users + [OWNER, STRANGERS[0], SC_CALLERS[0]])
            self.round += r.choice([0, 0, 0, 1, 2])
            if r.random() < 0.04:
                self.call(OWNER, 'pause')
                self.paused_probe()
                self.call(OWNER, 'unpause')
            b = self.budget() if n < 40 else '-'
            if ep == 'extra' and n < 40 and r.random() < 0.5:
                b = r.choice([0, 0, 1, 1, 2])      # the third step has two phases: many short calls
            if ep == 'extra' and n < 40 and self.twin and self.v in V1 and r.random() < 0.5:
                b = 0                               # one iteration per call: a call may consist of a single re-draw
            rec = self.call(c, ep, budget=b)
            if rec['status'] == 'ok':
                if rec['ret'] == [0]:
                    return True
                if r.random() < 0.1 and not self.twin:
                    self.probe()
                cfgb = self.view('config') or [self.conf, self.ws, self.claim]
                if self.round == cfgb[1] and r.random() < 0.35:
                    # still in the very round the selection period started: postponing it must be refused
                    rec2 = self.call(OWNER, ['setWsStart', self.round + r.choice([1, 3, 10])])
                    if rec2['status'] == 'ok' and self.users:
                        for a in r.sample(self.users, min(len(self.users), 2)):
                            self.call(OWNER, ['blacklist', 1, a])
                        self.confirm(r.choice(self.users), 'ok')
                if r.random() < 0.15:
                    rec2 = self.timeline_probe()
                    if rec2['status'] == 'ok' and self.users:
                        # a start round was moved while the step is in progress: whatever the earlier
                        # stage allows again is tried
                        self.blacklist_ops()
                        self.confirm(r.choice(self.users), 'ok')
                if r.random() < 0.06 and self.users and not self.twin:
                    # settlement attempts in the middle of a step, also once the claim round is reached
                    # (not in twin mode: in the single-call twin the step is already complete, so the
                    # attempt would legitimately succeed there and the two histories would diverge)
                    cfg = self.view('config') or [self.conf, self.ws, self.claim]
                    if r.random() < 0.6:
                        self.round = max(self.round, cfg[2]) + r.choice([0, 0, 1, 7])
                    self.call(r.choice(self.users), 'claim')
                    if r.random() < 0.5:
                        self.call(OWNER, 'claimPayment')
            else:
                stuck += 1
                if stuck > 3:
                    return False
        return False

    def phase_select(self):
        r = self.rng
        v = self.v
        self.round = r.choice([200, 200, r.randint(200, 215)])
        order = ['filter', 'select'] + (['extra'] if v in HAS_EXTRA else [])
        if r.random() < 0.3 and not self.twin:
            # out-of-order attempts
            self.call(self.some_caller(0.5), r.choice(['select', 'extra', 'claim', 'claimPayment']), budget=self.budget())
        for ep in order:
            if r.random() < 0.5:
                self.timeline_probe()
            if r.random() < 0.15 and not self.twin:
                nxt = [x for x in order if x != ep]
                self.call(self.some_caller(0.5), r.choice(nxt + ['claim']), budget=self.budget())
            okc = self.run_step(ep)
            if not okc:
                break
            if r.random() < 0.25 and not self.twin:
                self.call(self.some_caller(0.5), ep, budget=self.budget())  # repeat of a completed step must fail
        if v not in HAS_EXTRA and r.random() < 0.2:
            self.call(OWNER, 'extra')

    def paused_claims(self):
        """owner pauses, participants (settled or not) try to claim, owner withdraws, unpause"""
        r = self.rng
        rec = self.call(OWNER, 'pause')
        if rec['status'] != 'ok':
            return
        for a in r.sample(self.users, min(len(self.users), r.randint(1, 3))):
            self.call(a, 'claim')
        if r.random() < 0.3:
            self.call(OWNER, 'claimPayment')
        self.call(OWNER, 'unpause')

    def timeline_probe(self):
        """owner tries to move a start round (future values) - legal only for rounds not yet reached"""
        r = self.rng
        cfg = self.view('config') or [self.conf, self.ws, self.claim]
        k = r.choice([0, 1, 2, 2])
        name = ['setConfStart', 'setWsStart', 'setClaimStart'][k]
        val = r.choice([self.round + 1, self.round + r.randint(2, 50), max(cfg[k], self.round) + 10, cfg[2] + 1])
        return self.call(OWNER if r.random() < 0.9 else self.non_owner(), [name, val])

    # ---------------------------------------------------------------- phase Claim
    def phase_claim(self):
        r = self.rng
        v = self.v
        if self.claim > self.round and r.random() < 0.3:
            self.round = r.randint(self.round, self.claim - 1)
            self.call(r.choice(self.users), 'claim')
            self.call(OWNER, 'claimPayment')
        self.round = max(self.round, self.claim) + r.choice([0, 0, 1, 10])
        if v in LOCKV:
            self.epoch = r.choice([self.epoch, self.lock[1] - 1, self.lock[1], self.lock[1] + 3])
        if r.random() < 0.3:
            self.timeline_probe()
        actors = list(self.users) + [OWNER] + [STRANGERS[0]]
        r.shuffle(actors)
        if r.random() < 0.2:
            actors = [OWNER] + [a for a in actors if a != OWNER]
        extra_rounds = 0
        for a in actors:
            self.round += r.choice([0, 0, 1, 5, 12])
            if v in LOCKV and r.random() < 0.2:
                self.epoch += r.choice([1, 20])
            if a == OWNER:
                self.call(OWNER if r.random() < 0.9 else self.non_owner(), 'claimPayment')
                if r.random() < 0.4:
                    self.call(OWNER, 'claimPayment')
            else:
                self.call(a, 'claim')
                if r.random() < 0.3:
                    self.call(a, 'claim')
            if r.random() < 0.08:
                self.probe()
            if r.random() < 0.1:
                self.paused_claims()
        # vesting tail: repeated claims at later rounds
        if v in ('gt1', 'gt2'):
            for _ in range(r.randint(2, 8)):
                self.round += r.choice([1, 3, 7, 10, 25, 100])
                if r.random() < 0.25:
                    self.paused_claims()
                for a in r.sample(self.users, min(len(self.users), r.randint(1, 3))):
                    self.call(a, 'claim')
            self.round += 1000
            for a in self.users:
                self.call(a, 'claim')
                if r.random() < 0.3:
                    self.call(a, 'claim')
        if r.random() < 0.5:
            self.call(OWNER, 'claimPayment')
        if r.random() < 0.3 and self.users:
            self.call(r.choice(self.users), 'claim')

    # ---------------------------------------------------------------- probes
    def probe(self):
        """a random endpoint by a random caller class with plausible arguments"""
        r = self.rng
        v = self.v
        c = r.choice([OWNER, SUPPORT, r.choice(self.users), STRANGERS[0], SC_CALLERS[0]])
        ch = r.randrange(20)
        u = r.choice(self.users)
        if ch == 0:
            return self.add_tickets([r.choice(self.users + [16, 17])], c)
        if ch == 1:
            return self.do_deposit(exact=True, caller=c)
        if ch == 2:
            return self.call(c, ['setPrice', self.cur_price()[0], self.cur_price()[1]])
        if ch == 3:
            return self.call(c, ['setTpt', (self.view('tpt') or [1])[0]])
        if ch in (4, 5, 6):
            cfg = self.view('config') or [100, 200, 200]
            return self.call(c, [['setConfStart', 'setWsStart', 'setClaimStart'][ch - 4], cfg[ch - 4] + r.choice([0, 1, 7])])
        if ch == 7:
            return self.call(c, ['setSupport', SUPPORT])
        if ch == 8:
            rec = self.call(c, 'pause')
            if rec['status'] == 'ok':
                self.paused_probe()
                self.call(OWNER, 'unpause')
            return rec
        if ch == 9:
            return self.call(c, ['blacklist', 1, u])
        if ch == 10:
            return self.call(c, ['unblacklist', 1, u])
        if ch == 11:
            return self.confirm(c if c in self.users else u, 'ok')
        if ch in (12, 13, 14):
            return self.call(c, ['filter', 'select', 'extra'][ch - 12], budget=self.budget())
        if ch == 15:
            return self.call(c, 'claim')
        if ch == 16:
            return self.call(c, 'claimPayment')
        if ch == 17 and v in NFTV:
            return self.confirm_nft(c if c in self.users else u, True)
        if ch == 18 and v == 'gt1':
            return self.schedule1(c)
        if ch == 18 and v == 'gt2':
            return self.schedule2(c)
        if ch == 19 and v == 'gt2':
            return self.call(c, ['refund', 1, u])
        return self.call(c, 'unpause')


def gen_lifecycle(rng, variant, hid, profile='dev', size='small', twin=False):
    h = History(rng, variant, hid, profile, size, twin=twin)
    if h.start():
        h.phase_add()
        h.phase_confirm()
        h.phase_select()
        h.phase_claim()
    else:
        # a failed deploy: a few calls that must all be reported as not executed
        h.call(OWNER, 'pause')
    lines = h.finish()
    return lines, h
