"""Check driver: /verif/check <property> [quick|thorough]  |  /verif/check setup  |  /verif/check replay <file>

Stages (shared between properties through /verif/.cache, keyed by a hash of /repo's sources and of
the machinery, so every check still rebuilds from /repo's current working tree):
  A  translator -> Gen/Generated.v ; full .vo build of the Coq development (make -k) ; OCaml model
     driver from the extraction ; cargo build of the harness (dev + wrap profile) with hooks on
  B  histories (model-guided generator, seeded) -> implementation and model -> diff ; oracles ;
     twin (interrupted vs single-call) runs ; wrap-profile runs
  C  per property: re-check of Props/<id>.v with coqc (statements, Print Assumptions), hygiene
     scan, the property's share of B, known findings, evidence file, exit code.
"""
import fcntl, glob, hashlib, json, multiprocessing, os, random, re, shutil, subprocess, sys, time

ROOT = '/verif'
REPO = os.environ.get('LP_REPO', '/repo')
CACHE = os.path.join(ROOT, '.cache')
COQ = os.path.join(ROOT, 'coq')
sys.path.insert(0, os.path.join(ROOT, 'tools'))

from lp import corr, oracles          # noqa: E402
from lp.hist import Hist              # noqa: E402
from lp.gen import gen_lifecycle, VARIANTS  # noqa: E402
from lp.props import PROPS, relevant  # noqa: E402

TRUSTED_BASE = [
    'Coq 8.16.1 kernel (coqc); vm_compute in Examples, GenTable and non-vacuity lemmas; no native_compute',
    'axioms: none (every Print Assumptions under a property theorem must print "Closed under the global context")',
    'hand-written Gallina model coq/Model/*.v (exec) tied to /repo by the correspondence check of this run',
    'extraction with ExtrOcamlBasic only (Extract Inductive for bool, option, list, prod, unit, sumbool; no Extract Constant), OCaml 4.13.1, driver/driver.ml (zarith for decimal I/O)',
    'translator tools/translate_tables.py (regex) for endpoint attributes and constants',
    'Rust harness /verif/harness (multiversx-sc-scenario 0.54.2 debug VM as reference semantics), hooks H1-H3 under --cfg launchpad_verif',
    'Python generator, diff, oracles (tools/lp)',
    'Gallina SHA-256 instance validated against recorded draws; theorems quantify over the hash',
]


def sh(cmd, cwd=None, timeout=3600, env=None):
    p = subprocess.run(cmd, cwd=cwd, shell=isinstance(cmd, str), stdout=subprocess.PIPE, stderr=subprocess.STDOUT,
                       text=True, timeout=timeout, env=env)
    return p.returncode, p.stdout


def file_hash(paths):
    h = hashlib.sha256()
    for p in sorted(paths):
        try:
            with open(p, 'rb') as f:
                h.update(p.encode())
                h.update(f.read())
        except OSError:
            pass
    return h.hexdigest()[:16]


def repo_hash():
    files = []
    for root, dirs, fs in os.walk(REPO):
        dirs[:] = [d for d in dirs if d not in ('target', '.git', 'output', 'node_modules')]
        for f in fs:
            if f.endswith(('.rs', '.toml', '.lock', '.json')):
                files.append(os.path.join(root, f))
    return file_hash(files)


def mach_hash():
    files = glob.glob(COQ + '/**/*.v', recursive=True) + [COQ + '/_CoqProject']
    files = [f for f in files if not f.endswith('Gen/Generated.v')]
    files += glob.glob(ROOT + '/tools/**/*.py', recursive=True) + glob.glob(ROOT + '/driver/driver.ml')
    files += glob.glob(ROOT + '/harness/src/*.rs') + [ROOT + '/harness/Cargo.toml']
    files += glob.glob(ROOT + '/corpus/*.hist') + glob.glob(ROOT + '/corpus/twins/*.hist') + [ROOT + '/known_findings.json']
    return file_hash(files)


class Lock:
    def __enter__(self):
        os.makedirs(CACHE, exist_ok=True)
        self.f = open(os.path.join(CACHE, 'lock'), 'w')
        fcntl.flock(self.f, fcntl.LOCK_EX)
        return self

    def __exit__(self, *a):
        fcntl.flock(self.f, fcntl.LOCK_UN)
        self.f.close()


# ----------------------------------------------------------------------------- stage A
def all_vfiles():
    out = []
    for ln in open(COQ + '/_CoqProject'):
        ln = ln.strip()
        if ln.endswith('.v'):
            out.append(ln)
    return out


def bin_ids():
    """identity of the executables the runs use (so that a build made outside this script is noticed)"""
    out = {}
    for p in (ROOT + '/driver/model_driver', corr.HARNESS_DEV, corr.HARNESS_WRAP):
        try:
            st = os.stat(p)
            out[p] = [st.st_mtime_ns, st.st_size]
        except OSError:
            out[p] = None
    return out


def ensure_build():
    rh, mh = repo_hash(), mach_hash()
    stamp = os.path.join(CACHE, 'build.json')
    if os.path.exists(stamp):
        try:
            b = json.load(open(stamp))
            if b.get('repo') == rh and b.get('mach') == mh and b.get('bins') == bin_ids():
                return b
        except Exception:
            pass
    t0 = time.time()
    b = {'repo': rh, 'mach': mh, 'errors': [], 'coq_failed': []}
    rc, out = sh(['python3', ROOT + '/tools/translate_tables.py'], timeout=120)
    b['translator'] = out.strip()
    if rc != 0:
        b['errors'].append('translator failed: ' + out[-500:])
    if not os.path.exists(COQ + '/Makefile'):
        sh('coq_makefile -f _CoqProject -o Makefile', cwd=COQ)
    rc, out = sh('timeout 3000 make -k -j16', cwd=COQ, timeout=3100)
    open(os.path.join(CACHE, 'coq.log'), 'w').write(out)
    for v in all_vfiles():
        if not os.path.exists(os.path.join(COQ, v + 'o')):
            b['coq_failed'].append(v)
    # a .vo can be stale when its source failed: detect by the log
    for m in re.finditer(r'File "\./([^"]+)", line (\d+)[^\n]*\n(?:[^\n]*\n)?Error', out):
        if m.group(1) not in b['coq_failed']:
            b['coq_failed'].append(m.group(1))
    b['coq_log_tail'] = out[-1500:] if b['coq_failed'] else ''
    if os.path.exists(COQ + '/model.ml'):
        drv = ROOT + '/driver'
        need = (not os.path.exists(drv + '/model_driver') or not os.path.exists(drv + '/model.ml')
                or open(COQ + '/model.ml').read() != open(drv + '/model.ml').read()
                or os.path.getmtime(drv + '/driver.ml') > os.path.getmtime(drv + '/model_driver'))
        if need:
            shutil.copy(COQ + '/model.ml', drv + '/model.ml')
            shutil.copy(COQ + '/model.mli', drv + '/model.mli')
            rc, out = sh('ocamlfind ocamlopt -package zarith -linkpkg -O2 -w -a model.mli model.ml driver.ml -o model_driver', cwd=drv, timeout=600)
            if rc != 0:
                b['errors'].append('driver build failed: ' + out[-800:])
    else:
        b['errors'].append('extraction missing (Model does not compile)')
    env = dict(os.environ, CARGO_NET_OFFLINE='true')
    for prof in ('dev', 'wrap'):
        cmd = 'cargo build --offline' + ('' if prof == 'dev' else ' --profile wrap')
        rc, out = sh(cmd, cwd=ROOT + '/harness', timeout=3000, env=env)
        if rc != 0:
            b['errors'].append('harness build (%s) failed: %s' % (prof, out[-1500:]))
    b['build_s'] = round(time.time() - t0, 1)
    b['bins'] = bin_ids()
    json.dump(b, open(stamp, 'w'), indent=1)
    return b


# ----------------------------------------------------------------------------- stage B
TWIN_VARIANTS = ('base', 'nft', 'gt1', 'lgt', 'ngt', 'gt2', 'lock', 'nft', 'mig', 'lgt', 'ngt', 'gt2', 'lgt', 'gt1')


def _gen_worker(args):
    seed, start, count, size_mix, twin = args
    rng = random.Random(seed)
    res = []
    for i in range(start, start + count):
        v = VARIANTS[i % 8]
        if twin:
            # twins are about the resumable steps: the variants with a third step get two thirds of the pairs
            v = TWIN_VARIANTS[i % len(TWIN_VARIANTS)]
        size = 'big' if (i // 8) % size_mix == size_mix - 1 else 'small'
        lines, h = gen_lifecycle(rng, v, 'g%d' % i, size=size, twin=twin)
        res.append((lines, h.twin_lines if twin else None, h.kinds, h.ncalls))
    return res


def generate(seed, n, twin=False, jobs=8, tag='g'):
    per = max(8, (n + jobs - 1) // jobs)
    per = (per + 7) // 8 * 8
    tasks = []
    start = 0
    k = 0
    while start < n:
        cnt = min(per, n - start)
        tasks.append((seed * 1000003 + k * 7919 + (17 if twin else 0), start, cnt, 2 if twin else 5, twin))
        start += cnt
        k += 1
    with multiprocessing.Pool(min(jobs, len(tasks))) as pool:
        parts = pool.map(_gen_worker, tasks)
    hists, twins, kinds, calls = [], [], {}, 0
    for part in parts:
        for (lines, tl, kd, nc) in part:
            if tag != 'g':
                lines = [re.sub(r'^H g', 'H ' + tag, lines[0])] + lines[1:]
                if tl:
                    tl = [re.sub(r'^H g', 'H ' + tag, tl[0])] + tl[1:]
            hists.append(lines)
            twins.append(tl)
            calls += nc
            for kk, c in kd.items():
                kinds[kk] = kinds.get(kk, 0) + c
    return hists, twins, kinds, calls


def corpus_histories():
    out = []
    for p in sorted(glob.glob(ROOT + '/corpus/*.hist')):
        hs, order = corr.read_history_file(p)
        for h in order:
            out.append(hs[h])
    return out


def write_hist_file(path, hists):
    with open(path, 'w') as f:
        for lines in hists:
            f.write('\n'.join(lines) + '\n')


def final_state(h):
    """last snapshot and cumulative balances of a history run (implementation records)"""
    views = None
    bal = {}
    for r in h.recs:
        if r['views']:
            views = r['views']
        for k, v in r['bal'].items():
            bal[k] = v
    return views, bal


def ensure_corr(seed, tier, build):
    key = '%s-%s-%d-%s' % (build['repo'], build['mach'], seed, tier)
    path = os.path.join(CACHE, 'corr-%s.json' % key)
    if os.path.exists(path):
        try:
            return json.load(open(path))
        except Exception:
            pass
    t0 = time.time()
    work = os.path.join(CACHE, 'work')
    os.makedirs(work, exist_ok=True)
    n_main = 320 if tier == 'quick' else 2400
    n_twin = 168 if tier == 'quick' else 640
    n_wrap = 64 if tier == 'quick' else 480
    res = {'seed': seed, 'tier': tier, 'disagreements': [], 'violations': [], 'stats': {}, 'samples': [], 'errors': []}
    corp = corpus_histories()
    hists, _, kinds, ncalls = generate(seed, n_main)
    main = corp + hists
    hp = os.path.join(work, 'main.hist')
    write_hist_file(hp, main)
    histmap = {}

    def run(profile, hp, tag):
        impl, model, order, dis, an, hs = corr.correspond(hp, work, profile=profile, jobs=16, tag=tag)
        for h in order:
            histmap[(tag, h)] = hs[h]
        for d in dis:
            d['run'] = tag
            d['profile'] = profile
            d['variant'] = hs[d['hid']][0].split()[2]
            cl = [l for l in hs[d['hid']] if l.startswith('C ')]
            d['call'] = cl[d['idx']] if 0 <= d['idx'] < len(cl) else ''
            d['props'] = relevant(d)
        for a in an:
            res['disagreements'].append({'run': tag, 'profile': profile, 'hid': a[0], 'idx': a[1], 'cat': 'rng',
                                         'detail': 'rng stream anomaly: ' + a[3], 'variant': hs[a[0]][0].split()[2],
                                         'call': '', 'props': ['C04', 'C05']})
        res['disagreements'] += dis
        nviol = 0
        okc = failc = 0
        msgs = {}
        for h in order:
            H = Hist(hs[h], impl[h])
            for r in H.recs:
                if r['status'] == 'ok':
                    okc += 1
                else:
                    failc += 1
                    msgs[r['msg']] = msgs.get(r['msg'], 0) + 1
            if profile in ('dev', 'wrap'):
                # the wrap profile (deployment arithmetic) runs the same monitors: a wrapped amount is a wrong amount
                for v in oracles.run_oracles(H):
                    v.update({'run': tag, 'hid': h, 'variant': H.variant, 'profile': profile,
                              'call': H.calls[v['idx']].line if 0 <= v['idx'] < len(H.calls) else ''})
                    res['violations'].append(v)
                    nviol += 1
        return impl, order, hs, {'histories': len(order), 'calls_ok': okc, 'calls_rejected': failc,
                                 'distinct_rejection_messages': len(msgs), 'oracle_violations': nviol}

    try:
        impl, order, hs, st = run('dev', hp, 'main')
        res['stats']['main'] = st
        res['stats']['main']['generated_calls'] = ncalls
        res['stats']['main']['call_kinds'] = kinds
        # samples for the evidence file
        for h in order[-3:]:
            res['samples'].append({'history': h, 'first_lines': hs[h][:12], 'calls': len(hs[h]) - 4})
        # ---- twins (C04): interrupted vs single-call runs of the same history
        th, tw, tk, tc = generate(seed + 1, n_twin, twin=True, tag='t')
        # directed twin pairs (same history ids in A = interrupted and B = single-call), run first
        ca, cb = ROOT + '/corpus/twins/A.hist', ROOT + '/corpus/twins/B.hist'
        if os.path.exists(ca) and os.path.exists(cb):
            hA, oA = corr.read_history_file(ca)
            hB, oB = corr.read_history_file(cb)
            th = [hA[h] for h in oA if h in hB] + th
            tw = [hB[h] for h in oA if h in hB] + tw
        a_path, b_path = os.path.join(work, 'twinA.hist'), os.path.join(work, 'twinB.hist')
        write_hist_file(a_path, th)
        write_hist_file(b_path, tw)
        implA, orderA, hsA, stA = run('dev', a_path, 'twinA')
        implB, orderB, hsB, stB = run('dev', b_path, 'twinB')
        ntw = 0
        interrupted = 0
        incomplete = 0
        for h in orderA:
            HA, HB = Hist(hsA[h], implA[h]), Hist(hsB[h], implB[h])
            interrupted += sum(1 for r in HA.recs if r['status'] == 'ok' and r['ret'] == [1])
            va, ba = final_state(HA)
            vb, bb = final_state(HB)
            ntw += 1
            fa, fb = (va or {}).get(('flags', None)), (vb or {}).get(('flags', None))
            n_int = sum(1 for r in HA.recs if r['status'] == 'ok' and r['ret'] == [1])
            if fb and fb[1:] == [1, 1, 1] and fa != fb and n_int > 0:
                # every step of the interrupted run ends with an unlimited call by the owner at the
                # same block as the single-call run: if the single-call run finished all steps and
                # the interrupted one did not, a resumed operation failed or stalled
                res['violations'].append({'prop': 'C04', 'idx': len(HA.calls) - 1, 'clause': 'twin_unfinished',
                                          'msg': 'the single-call run completes every step (flags %r) but the interrupted run does not (flags %r)' % (fb, fa),
                                          'run': 'twinA', 'hid': h, 'variant': HA.variant, 'profile': 'dev', 'call': '',
                                          'twin': hsB[h]})
                continue
            if fa != fb or not fa or fa[1:] != [1, 1, 1]:
                incomplete += 1      # a step was left unfinished in both runs: not comparable
                continue
            if HA.variant == 'ngt':
                # the NFT draw of the combined step starts in the call in which the guaranteed
                # sub-step completes; in the single-call run that is the first call, whose random
                # stream has already handed out one seed - a legitimately different NFT outcome.
                # Compare everything except the NFT outcome (SFT kinds, fee refunds).
                # fee asset: the deployed one and whatever setNftCost made of it
                fts = {HA.nft0[0]} | {(vv or {}).get(('nftCost', None), [HA.nft0[0]])[0] for vv in (va, vb)}
                ba = {k: x for k, x in ba.items() if k[1] != 5 and k[1] not in fts}
                bb = {k: x for k, x in bb.items() if k[1] != 5 and k[1] not in fts}
                # ... but HOW MANY NFTs are drawn does not depend on the schedule (min(payers, NFTs))
                na = sum(1 for k, x in va.items() if k[0] == 'wonNft' and (x or [0])[0] == 1)
                nb = sum(1 for k, x in vb.items() if k[0] == 'wonNft' and (x or [0])[0] == 1)
                if na != nb:
                    res['violations'].append({'prop': 'C04', 'idx': len(HA.calls) - 1, 'clause': 'twin_nft_count',
                                              'msg': 'the interrupted run draws %d NFT winners, the single-call run %d' % (na, nb),
                                              'run': 'twinA', 'hid': h, 'variant': HA.variant, 'profile': 'dev', 'call': '',
                                              'twin': hsB[h]})
                    continue
                va = {k: x for k, x in va.items() if k[0] not in ('wonNft', 'confirmedNft')}
                vb = {k: x for k, x in vb.items() if k[0] not in ('wonNft', 'confirmedNft')}
            if va != vb or ba != bb:
                dv = [k for k in (va or {}) if (vb or {}).get(k) != va[k]][:4] if va and vb else ['snapshot missing']
                dbal = [k for k in set(ba) | set(bb) if ba.get(k) != bb.get(k)][:4]
                res['violations'].append({'prop': 'C04', 'idx': len(HA.calls) - 1, 'clause': 'twin',
                                          'msg': 'interrupted and single-call runs end differently: views %r balances %r' % (dv, dbal),
                                          'run': 'twinA', 'hid': h, 'variant': HA.variant, 'profile': 'dev', 'call': '',
                                          'twin': hsB[h]})
        res['stats']['twin'] = {'pairs': ntw, 'interrupted_calls': interrupted, 'not_comparable': incomplete, 'A': stA, 'B': stB}
        # ---- wrap profile (deployment arithmetic)
        wh, _, wk, wc = generate(seed + 2, n_wrap, tag='w')
        wpath = os.path.join(work, 'wrap.hist')
        write_hist_file(wpath, corp + wh)
        implW, orderW, hsW, stW = run('wrap', wpath, 'wrap')
        res['stats']['wrap'] = stW
    except subprocess.CalledProcessError as ex:
        res['errors'].append('run failed: %r' % (ex,))
    except subprocess.TimeoutExpired as ex:
        res['errors'].append('run timed out: %r' % (ex,))
    # keep the histories needed for replays
    keep = {}
    for d in res['disagreements'][:200] + res['violations'][:200]:
        k = (d['run'], d['hid'])
        if k in histmap:
            keep['%s/%s' % k] = histmap[k]
    res['histories'] = keep
    res['disagreements'] = res['disagreements'][:400]
    res['violations'] = res['violations'][:400]
    res['corr_s'] = round(time.time() - t0, 1)
    json.dump(res, open(path, 'w'))
    return res


def _gen_worker_v(args):
    seed, start, count, variants = args
    rng = random.Random(seed)
    res = []
    for i in range(start, start + count):
        v = variants[i % len(variants)]
        lines, h = gen_lifecycle(rng, v, 's%d' % i, size='big' if i % 4 == 3 else 'small')
        res.append(lines)
    return res


def focused_search(pid, variants, seed, tier):
    """more histories of the given variants; returns oracle violations of property pid (first few)"""
    n = 480 if tier == 'quick' else 2400
    jobs = 8
    per = n // jobs
    tasks = [(seed * 7777 + 31 * k + 5, k * per, per, variants) for k in range(jobs)]
    with multiprocessing.Pool(jobs) as pool:
        parts = pool.map(_gen_worker_v, tasks)
    hists = [l for part in parts for l in part]
    work = os.path.join(CACHE, 'work')
    hp = os.path.join(work, 'search.hist')
    write_hist_file(hp, hists)
    iobs = os.path.join(work, 'search.iobs')
    corr.run_impl(hp, iobs, 'dev', 16)
    impl, order = corr.split_histories(iobs)
    hs, _ = corr.read_history_file(hp)
    out = []
    for h in order:
        H = Hist(hs[h], impl[h])
        for v in oracles.run_oracles(H):
            if v['prop'] == pid:
                v.update({'run': 'search', 'hid': h, 'variant': H.variant, 'profile': 'dev',
                          'call': H.calls[v['idx']].line if 0 <= v['idx'] < len(H.calls) else '', 'history': hs[h]})
                out.append(v)
                break
        if len(out) >= 3:
            break
    return out


# ----------------------------------------------------------------------------- stage C
HYGIENE = re.compile(r'\b(Admitted|admit|Axiom|Parameter|Conjecture|Hypothesis|Variable)\b|Unset Guard|bypass_check|Admit Obligations|-type-in-type')


def hygiene_scan():
    bad = []
    for v in all_vfiles():
        p = os.path.join(COQ, v)
        if not os.path.exists(p):
            continue
        src = open(p).read()
        src_nc = re.sub(r'\(\*.*?\*\)', '', src, flags=re.S)
        depth = 0
        for ln in src_nc.split('\n'):
            if re.match(r'\s*Section\b', ln):
                depth += 1
            if re.match(r'\s*End\b', ln):
                depth = max(0, depth - 1)
            m = HYGIENE.search(ln)
            if m:
                if m.group(1) in ('Variable', 'Hypothesis') and depth > 0:
                    continue
                bad.append('%s: %s' % (v, ln.strip()[:100]))
    return bad


def coqchk_all(build):
    """thorough tier: re-check every compiled Props module and all it depends on with the independent
    checker; cached per machinery hash"""
    path = os.path.join(CACHE, 'coqchk-%s.json' % build['mach'])
    if os.path.exists(path):
        try:
            return json.load(open(path))
        except Exception:
            pass
    mods = ['LP.Props.%s' % pid for pid in sorted(PROPS)]
    t0 = time.time()
    rc, out = sh(['timeout', '1500', 'coqchk', '-silent', '-o', '-Q', '.', 'LP'] + mods, cwd=COQ, timeout=1600)
    m = re.search(r'\* Axioms:\s*(.*?)\n\s*\n', out, flags=re.S)
    axioms = m.group(1).strip() if m else 'unparsed'
    bad = [k for k in ('type-in-type', 'unsafe (co)fixpoints', 'positivity is assumed')
           if not re.search(re.escape(k) + r':\s*<none>', out)]
    r = {'ok': rc == 0 and axioms == '<none>' and not bad, 'rc': rc, 'axioms': axioms, 'unchecked': bad,
         'wall_s': round(time.time() - t0, 1), 'tail': out[-600:]}
    json.dump(r, open(path, 'w'), indent=1)
    return r


def check_props_file(pid):
    """re-check Props/<pid>.v with coqc; returns dict(theorems, closed, ok, out)"""
    v = 'Props/%s.v' % pid
    p = os.path.join(COQ, v)
    if not os.path.exists(p):
        return {'ok': False, 'theorems': [], 'closed': 0, 'printed': 0, 'out': 'no Props file'}
    src = open(p).read()
    src_nc = re.sub(r'\(\*.*?\*\)', '', src, flags=re.S)
    thms = re.findall(r'^\s*(?:Theorem|Example)\s+(\w+)', src_nc, flags=re.M)
    prints = re.findall(r'^\s*Print Assumptions\s+(\w+)', src_nc, flags=re.M)
    # every theorem must be closed by "exact <lemma>" or a vm_compute example and have a Print Assumptions
    rc, out = sh(['timeout', '600', 'coqc', '-Q', '.', 'LP', v], cwd=COQ, timeout=700)
    closed = out.count('Closed under the global context')
    axioms = [ln for ln in out.split('\n') if ln.strip() and 'Closed under' not in ln and not ln.startswith('Axioms:')] if 'Axioms:' in out else []
    ok = rc == 0 and closed == len(prints) and set(thms) <= set(prints) and len(thms) > 0
    return {'ok': ok, 'rc': rc, 'theorems': thms, 'closed': closed, 'printed': len(prints), 'out': out[-1500:], 'axioms': axioms[:10]}


def load_known():
    p = ROOT + '/known_findings.json'
    if os.path.exists(p):
        return json.load(open(p))
    return {'known': [], 'fixed': []}


def match_known(item, known):
    for k in known.get('known', []):
        if k['property'] != item.get('prop'):
            continue
        if k.get('variant') and k['variant'] != item.get('variant'):
            continue
        if k.get('clause') and k['clause'] != item.get('clause'):
            continue
        if k.get('endpoint') and (item.get('call', '').split() or [''])[-1:] and k['endpoint'] not in item.get('call', ''):
            continue
        return k
    return None


def write_replay(pid, kind, payload):
    os.makedirs(ROOT + '/replays', exist_ok=True)
    h = hashlib.sha256(json.dumps(payload, sort_keys=True, default=str).encode()).hexdigest()[:10]
    p = '%s/replays/%s-%s-%s.json' % (ROOT, pid, kind, h)
    json.dump(payload, open(p, 'w'), indent=1, default=str)
    return p


def run_property(pid, tier, seed):
    t0 = time.time()
    spec = PROPS[pid]
    with Lock():
        build = ensure_build()
        viols = []     # (replay path, suffix)
        known_lines = []
        notes = []
        if build['errors']:
            for e in build['errors']:
                print('BUILD-ERROR:', e[:400])
        cone = spec.get('coq', []) + ['Props/%s.v' % pid]
        cone_failed = [f for f in build['coq_failed'] if f in cone or f.startswith('Model/') or f == 'Proofs/Tactics.v']
        pf = check_props_file(pid) if not [f for f in build['coq_failed'] if f.startswith('Model/')] else {'ok': False, 'theorems': [], 'closed': 0, 'printed': 0, 'out': 'model does not compile'}
        hyg = hygiene_scan()
        res = ensure_corr(seed, tier, build) if not build['errors'] else {'disagreements': [], 'violations': [], 'stats': {}, 'samples': [], 'errors': build['errors'], 'histories': {}}
        known = load_known()
        # ---- what concerns this property
        my_dis = [d for d in res['disagreements'] if pid in d.get('props', [])]
        my_viol = [v for v in res['violations'] if v['prop'] == pid]
        oracle_errors = [v for v in res['violations'] if v['prop'] == 'ORACLE-ERROR']
        new_viol = []
        for v in my_viol:
            k = match_known(v, known)
            if k:
                line = 'KNOWN-FINDING: property=%s %s' % (pid, k['what'])
                if line not in known_lines:
                    known_lines.append(line)
            else:
                new_viol.append(v)
        # ---- the correspondence is broken for this property but no oracle fired: search harder
        # around the disagreements (more histories of the variants involved, this property's oracles)
        if my_dis and not new_viol and not build['errors']:
            vs = sorted(set(d['variant'] for d in my_dis))
            found = focused_search(pid, vs, seed, tier)
            for v in found:
                if not match_known(v, known):
                    new_viol.append(v)
                    res['histories']['%s/%s' % (v['run'], v['hid'])] = v.pop('history')
        chk = None
        if tier == 'thorough' and not build['coq_failed']:
            chk = coqchk_all(build)
            if not chk['ok']:
                hyg = hyg + ['coqchk: rc=%s axioms=%s unchecked=%s' % (chk['rc'], chk['axioms'], chk['unchecked'])]
        proof_broken = (not pf['ok']) or bool(cone_failed) or bool(hyg)
        # ---- report
        if new_viol:
            seen = set()
            for v in new_viol:
                key = (v['clause'], v['variant'])
                if key in seen:
                    continue
                seen.add(key)
                hist = res['histories'].get('%s/%s' % (v['run'], v['hid']))
                payload = {'property': pid, 'kind': 'failing-input', 'variant': v['variant'], 'profile': v['profile'],
                           'clause': v['clause'], 'message': v['msg'], 'failing_call_index': v['idx'],
                           'failing_call': v['call'], 'history': hist, 'twin_history': v.get('twin'),
                           'how_to_replay': '/verif/check replay <this file>'}
                viols.append((write_replay(pid, 'input', payload), ''))
        elif my_dis or proof_broken or res.get('errors'):
            # something no longer checks, but the search (oracles over this run's implementation
            # traces, corpus first) found no input on which the property fails
            payload = {'property': pid, 'kind': 'no-failing-input-found',
                       'broken_theorems_or_files': cone_failed + ([] if pf['ok'] else ['Props/%s.v: %s' % (pid, pf['out'][-600:])]),
                       'hygiene': hyg, 'run_errors': res.get('errors', []),
                       'correspondence': [{k: d[k] for k in ('run', 'profile', 'hid', 'idx', 'cat', 'detail', 'variant', 'call')} for d in my_dis[:10]],
                       'histories': {('%s/%s' % (d['run'], d['hid'])): res['histories'].get('%s/%s' % (d['run'], d['hid'])) for d in my_dis[:3]},
                       'coq_log_tail': build.get('coq_log_tail', '')}
            viols.append((write_replay(pid, 'unproved', payload), ' no-failing-input-found'))
        # ---- evidence
        st = res.get('stats', {})
        n_obl = len(pf['theorems']) + len(spec.get('gentable', []))
        gen_ok = 'Proofs/GenTable.v' not in build['coq_failed']
        discharged = (len(pf['theorems']) if pf['ok'] else 0) + (len(spec.get('gentable', [])) if gen_ok else 0)
        progs = sum(st.get(k, {}).get('histories', 0) for k in ('main', 'wrap')) + 2 * st.get('twin', {}).get('pairs', 0)
        ev = {
            'property_id': pid, 'tier': tier, 'seed': seed, 'level': 'proof',
            'coverage': {
                'obligations': max(n_obl, 1), 'discharged': discharged,
                'checker_cmd': 'cd /verif/coq && make -k -j16 (full .vo build) && coqc -Q . LP Props/%s.v  # statements + Print Assumptions' % pid,
                'trusted_base': TRUSTED_BASE,
                'theorems': pf['theorems'], 'assumptions_closed': pf['closed'], 'gentable_lemmas': spec.get('gentable', []),
                'coqchk': ({k: chk[k] for k in ('ok', 'axioms', 'unchecked', 'wall_s')} if chk else 'thorough tier only'),
                'programs': progs, 'disagreements_checked': len(res['disagreements']),
                'disagreements_relevant': len(my_dis),
                'evaluations': sum(st.get(k, {}).get('calls_ok', 0) + st.get(k, {}).get('calls_rejected', 0) for k in ('main', 'wrap')),
                'distinct_nontrivial': sum(st.get(k, {}).get('calls_ok', 0) for k in ('main', 'wrap')),
                'rule': 'model-guided random lifecycles of all 8 variants (seeded), corpus first; every call is executed by the real contract in the debug VM and by the extracted Coq model and all API-level observations are diffed; non-trivial = accepted state-changing call',
                'samples': res.get('samples', [])[:3] or [{'note': 'no run'}],
                'correspondence_stats': st,
                'oracle_violations_for_property': len(my_viol), 'oracle_errors': len(oracle_errors),
                'explanation': spec['explain'],
            },
            'assumptions': spec.get('assumptions', []) + ['environment assumptions of DESIGN.md 3.7'],
            'wall_s': round(time.time() - t0, 1),
            'violations': len(viols),
        }
        os.makedirs(ROOT + '/evidence', exist_ok=True)
        json.dump(ev, open('%s/evidence/%s.json' % (ROOT, pid), 'w'), indent=1)
    for ln in known_lines:
        print(ln)
    for (path, suffix) in viols:
        print('VIOLATION property=%s replay=%s%s' % (pid, path, suffix))
    if oracle_errors:
        print('NOTE: %d oracle errors (not counted): %s' % (len(oracle_errors), oracle_errors[0]['msg'][:200]))
    print('%s %s: theorems=%d closed=%d histories=%d disagreements(all/relevant)=%d/%d oracle-violations=%d wall=%.1fs' % (
        pid, tier, len(pf['theorems']), pf['closed'], progs, len(res['disagreements']), len(my_dis), len(my_viol), time.time() - t0))
    return 1 if viols else 0


def replay(path):
    """re-run the history of a replay file on the implementation and print the oracle verdicts"""
    rec = json.load(open(path))
    with Lock():
        ensure_build()
        work = os.path.join(CACHE, 'work')
        os.makedirs(work, exist_ok=True)
        hists = []
        if rec.get('history'):
            hists.append(rec['history'])
        for k, v in (rec.get('histories') or {}).items():
            if v:
                hists.append(v)
        if not hists:
            print('replay file names theorems / correspondence only:', rec.get('broken_theorems_or_files'))
            return 0
        hp = os.path.join(work, 'replay.hist')
        write_hist_file(hp, hists)
        impl, model, order, dis, an, hs = corr.correspond(hp, work, profile=rec.get('profile', 'dev'), jobs=2, tag='replay')
        n = 0
        for h in order:
            H = Hist(hs[h], impl[h])
            print('history', h, 'statuses', [r['status'] for r in H.recs])
            for v in oracles.run_oracles(H):
                print('  ORACLE', v['prop'], v['clause'], 'call', v['idx'], v['msg'])
                n += 1
        for d in dis:
            print('  DISAGREEMENT', d)
        return 1 if (n or dis) else 0


def main():
    if len(sys.argv) < 2:
        print(__doc__)
        return 2
    if sys.argv[1] == 'setup':
        with Lock():
            b = ensure_build()
        print('setup: build %.1fs errors=%r coq_failed=%r' % (b.get('build_s', 0), b['errors'], b['coq_failed']))
        return 0 if not b['errors'] and not b['coq_failed'] else 1
    if sys.argv[1] == 'replay':
        return replay(sys.argv[2])
    pid = sys.argv[1]
    tier = os.environ.get('VERIF_TIER') or (sys.argv[2] if len(sys.argv) > 2 else 'quick')
    seed = int(os.environ.get('VERIF_SEED', '1'))
    if pid not in PROPS:
        print('unknown property', pid)
        return 2
    return run_property(pid, tier, seed)


if __name__ == '__main__':
    sys.exit(main())
