"""Per-property configuration: which Coq files form its cone, which regenerated-table lemmas it
depends on, and which kinds of model/implementation disagreement concern it."""

ALL_EPS = None  # any endpoint


def P(explain, eps=(), cats=(), views=(), events=False, rng=False, locks=False, coq=(), gentable=(), assumptions=()):
    return {'explain': explain, 'eps': (None if eps is None else set(eps)), 'cats': set(cats), 'views': set(views), 'events': events,
            'rng': rng, 'locks': locks, 'coq': list(coq), 'gentable': list(gentable), 'assumptions': list(assumptions)}


SEL = ('filter', 'select', 'extra')
PROPS = {
    'C01': P('payment-token ledger: invariant of exec + claims in any order; correspondence on balances of every call',
             eps=('claim', 'claimPayment', 'confirm', 'blacklist', 'refund', 'confirmNft', 'setPrice'), cats=('bal', 'status'),
             coq=('Proofs/Ledger.v', 'Proofs/ClaimLedger.v', 'Proofs/Partition.v', 'Proofs/Lifecycle.v', 'Proofs/Setup.v', 'Proofs/SetupPrice.v', 'Proofs/SetupGt.v', 'Proofs/SetupNft.v', 'Proofs/SetupNgt.v')),
    'C02': P('launchpad-token ledger: deposit acceptance iff tpt x (W+R), cover, surplus',
             eps=('deposit', 'claim', 'claimPayment', 'setTpt'), cats=('bal', 'status', 'locks'), views=('deposited', 'tpt', 'nrWinning'),
             coq=('Proofs/Ledger.v', 'Proofs/Reserve.v', 'Proofs/ClaimLedger.v', 'Proofs/VestedCover.v', 'Proofs/VestedLifecycle.v', 'Proofs/SetupVested.v', 'Proofs/SetupCover.v', 'Proofs/CoverSteps.v')),
    'C03': P('number and identity of winners after base selection and after the additional step',
             eps=('select', 'extra'), cats=('ret', 'status'), views=('nrWinning', 'winIds', 'totalTickets'),
             coq=('Proofs/Shuffle.v', 'Proofs/Select.v', 'Proofs/GuaranteedLoop.v', 'Proofs/Leftover.v', 'Proofs/SetupCover.v', 'Proofs/SetupVested.v')),
    'C04': P('run_while split law lifted to every resumable endpoint; seeds consumed only by the first call',
             eps=SEL, cats=('ret', 'status'), rng=True, views=('flags',), coq=('Proofs/Loop.v', 'Proofs/Resume.v', 'Proofs/Resume2.v', 'Proofs/Resume3.v', 'Proofs/Resume4.v', 'Proofs/Interleave.v', 'Proofs/InterleaveGt.v', 'Proofs/InterleaveNft.v', 'Proofs/LifecycleNoisy.v')),
    'C05': P('sparse Fisher-Yates refines the textbook algorithm; bijection; word stream of the rng',
             eps=('select',), cats=('ret',), rng=True, views=('winIds',), coq=('Proofs/Shuffle.v', 'Proofs/Rng.v'),
             gentable=('const_usize_bytes', 'const_hash_len', 'const_first_ticket_id')),
    'C06': P('stage function, timeline setters, flag order; gate of every endpoint',
             eps=None, cats=('status',), views=('config', 'flags'), coq=('Proofs/Stage.v',)),
    'C07': P('confirmTickets accepted iff exact payment, window, deposit, not blacklisted, within allocation; exact effect',
             eps=('confirm',), cats=('status', 'bal', 'events'), views=('confirmed',), coq=('Proofs/Confirm.v',)),
    'C08': P('filter refines compaction of the allocation list; partition of 1..total; winners cap',
             eps=('filter',), cats=('status', 'ret'), views=('range', 'totalFor', 'totalTickets', 'nrWinning'),
             coq=('Proofs/Filter.v', 'Proofs/Partition.v', 'Proofs/Tiling.v')),
    'C09': P('settlement exactly once, for what the views reported', eps=('claim',), cats=('status', 'bal'),
             views=('claimed', 'range', 'confirmed', 'winIds', 'totalClaimable'), coq=('Proofs/Claim.v',)),
    'C10': P('blacklist refunds in full and excludes; un-blacklist restores and frames',
             eps=('blacklist', 'refund', 'unblacklist', 'confirm'), cats=('status', 'bal'),
             views=('blacklisted', 'confirmed', 'utStatus'), coq=('Proofs/Settle.v', 'Proofs/BlacklistInv.v', 'Proofs/BlacklistInvGt.v', 'Proofs/BlacklistInvNft.v')),
    'C11': P('guarantees honoured with own tickets only', eps=('extra',), cats=('status', 'ret'), rng='eps',
             views=('winIds', 'utStatus', 'nrWinning'), coq=('Proofs/Guaranteed.v', 'Proofs/GuaranteedLoop.v', 'Proofs/Resume2.v', 'Proofs/Resume4.v', 'Proofs/SetupGt.v', 'Proofs/SetupNgt.v')),
    'C12': P('W + R = K through allocation / blacklist / un-blacklist; no wrap; leftovers',
             eps=('addTickets', 'blacklist', 'refund', 'unblacklist', 'deposit', 'extra'), cats=('status', 'panic', 'wrap'),
             rng=True, views=('nrWinning',), coq=('Proofs/Reserve.v', 'Proofs/Leftover.v', 'Proofs/SetupVested.v'),
             gentable=('const_staking_gt1', 'const_migration_gt1', 'const_staking_mig', 'const_migration_mig', 'overflow_checks_all')),
    'C13': P('vesting: cumulative formula, monotone, bounded, ends at 100%; schedule acceptance',
             eps=('setSchedule1', 'setSchedule2', 'claim'), cats=('status', 'bal', 'panic', 'wrap'),
             views=('schedule', 'claimable', 'totalClaimable', 'claimedBal'), coq=('Proofs/Vesting.v', 'Proofs/VestedCover.v', 'Proofs/SetupVested.v'),
             gentable=('const_max_pct_gt1', 'const_max_pct_gt2', 'const_max_milestones', 'const_max_round_diff')),
    'C14': P('NFT draw without replacement, fee paid once and exactly, SFT kinds, fees reconcile',
             eps=('confirmNft', 'extra', 'claim', 'claimPayment', 'setNftCost', 'blacklist'), cats=('status', 'bal', 'ret'),
             rng=True, views=('confirmedNft', 'wonNft', 'nftCost'), coq=('Proofs/Nft.v', 'Proofs/NftLedger.v', 'Proofs/SetupNft.v', 'Proofs/SetupNgt.v', 'Proofs/NftPipeline.v'),
             gentable=('const_nft_amount', 'const_vec_start_nft')),
    'C15': P('caller conditions of every endpoint: regenerated attribute table + dispatch lemmas',
             eps=None, cats=('status',), coq=('Proofs/Permissions.v', 'Proofs/GenTable.v'),
             gentable=('endpoints_base', 'endpoints_lock', 'endpoints_nft', 'endpoints_gt1', 'endpoints_mig',
                       'endpoints_lgt', 'endpoints_ngt', 'endpoints_gt2')),
    'C16': P('lock split arithmetic and lock call arguments', eps=('claim',), cats=('bal', 'locks', 'status'), locks=True,
             views=('lockPct', 'unlockEpoch'), coq=('Proofs/Lock.v',), gentable=('const_max_pct_lock',)),
    'C17': P('terms frozen: setters gated by stage / deposit, non-zero', eps=('setPrice', 'setTpt', 'setNftCost', 'setSchedule1', 'setSchedule2', 'setConfStart', 'setWsStart', 'setClaimStart'),
             cats=('status',), views=('price', 'tpt', 'nftCost', 'schedule'), coq=('Proofs/Stage.v', 'Proofs/Terms.v')),
    'C18': P('allocation: fresh consecutive ranges, no duplicates, v2 limits', eps=('addTickets',), cats=('status', 'events'),
             views=('range', 'totalFor', 'totalTickets', 'utStatus'), coq=('Proofs/Alloc.v', 'Proofs/SetupAll.v'),
             gentable=('const_max_allowance', 'const_max_entries', 'const_first_ticket_id')),
    'C19': P('pause blocks the gated endpoints and is transparent otherwise',
             eps=('confirm', 'filter', 'select', 'extra', 'claim', 'pause', 'unpause'), cats=('status', 'ret'), views=('paused',),
             coq=('Proofs/Pause.v',)),
    'C20': P('events: exactly the list of the property with payload = state delta', eps=None, cats=('events',), events=True,
             coq=('Proofs/Events.v', 'Proofs/Events2.v')),
}


def relevant(d):
    """properties concerned by a disagreement record (cat, call)"""
    cat = d['cat']
    toks = d.get('call', '').split()
    ep = None
    if toks:
        # endpoint name is the first non-numeric token after the payment triples
        try:
            n = int(toks[7])
            ep = toks[8 + 3 * n]
        except Exception:
            ep = None
    out = []
    for pid, s in PROPS.items():
        hit = False
        if cat.startswith('view:'):
            hit = cat[5:] in s['views']
        elif cat == 'events':
            hit = s['events'] or ('events' in s['cats'] and (s['eps'] is None or ep in s['eps']))
        elif cat == 'rng':
            hit = s['rng'] is True or (s['rng'] == 'eps' and ep in (s['eps'] or ()))
        elif cat == 'locks':
            hit = s['locks'] or 'locks' in s['cats']
        elif cat == 'shape':
            hit = True
        else:
            hit = cat in s['cats'] and (s['eps'] is None or ep is None or ep in s['eps'])
        if hit:
            out.append(pid)
    return out
