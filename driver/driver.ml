(* Model driver: reads a history file (see harness/FORMAT.md, with S lines), runs the extracted
   Coq model and prints observations in the same format as the Rust harness. *)
open Model

let rec pos_of_z (z : Z.t) : positive =
  if Z.equal z Z.one then XH
  else if Z.is_even z then XO (pos_of_z (Z.shift_right z 1))
  else XI (pos_of_z (Z.shift_right z 1))
let n_of_z (z : Z.t) : n = if Z.sign z <= 0 then N0 else Npos (pos_of_z z)
let rec z_of_pos = function
  | XH -> Z.one
  | XO p -> Z.shift_left (z_of_pos p) 1
  | XI p -> Z.succ (Z.shift_left (z_of_pos p) 1)
let z_of_n = function N0 -> Z.zero | Npos p -> z_of_pos p
let n_of_string s = n_of_z (Z.of_string s)
let string_of_n x = Z.to_string (z_of_n x)
let n_of_int i = n_of_z (Z.of_int i)
let int_of_n x = Z.to_int (z_of_n x)
let nat_of_int i = let rec go acc i = if i <= 0 then acc else go (S acc) (i - 1) in go O i

let hex_to_bytes (h : string) : n list =
  let l = String.length h / 2 in
  List.init l (fun i -> n_of_int (int_of_string ("0x" ^ String.sub h (2 * i) 2)))
let bytes_to_hex (l : n list) : string =
  String.concat "" (List.map (fun b -> Printf.sprintf "%02x" (int_of_n b)) l)

let variant_of_string = function
  | "base" -> Base | "lock" -> Lock | "nft" -> Nft | "gt1" -> Gt1 | "mig" -> Mig
  | "lgt" -> Lgt | "ngt" -> Ngt | "gt2" -> Gt2 | s -> failwith ("variant " ^ s)

let is_v1 = function Gt1 | Mig | Lgt | Ngt -> true | _ -> false

(* token stream helpers *)
let take_n toks = match toks with t :: r -> (n_of_string t, r) | [] -> failwith "eol"
let rec take_list f k toks =
  if k = 0 then ([], toks) else
  let (x, r) = f toks in
  let (xs, r') = take_list f (k - 1) r in (x :: xs, r')
let take_count toks = match toks with t :: r -> (int_of_string t, r) | [] -> failwith "eol"

let parse_call (v : variant) (toks : string list) : call =
  match toks with
  | "addTickets" :: r ->
      let (k, r) = take_count r in
      (match v with
       | Base | Lock | Nft ->
           let (l, _) = take_list (fun t -> let (a, t) = take_n t in let (c, t) = take_n t in ((a, c), t)) k r in
           CAddTickets l
       | Gt2 ->
           let (l, _) = take_list (fun t ->
             let (a, t) = take_n t in let (c, t) = take_n t in
             let (m, t) = take_count t in
             let (infos, t) = take_list (fun t -> let (g, t) = take_n t in let (mc, t) = take_n t in ((g, mc), t)) m t in
             (((a, c), infos), t)) k r in
           CAddTicketsV2 l
       | _ ->
           let (l, _) = take_list (fun t ->
             let (a, t) = take_n t in let (s, t) = take_n t in let (e, t) = take_n t in
             let (m, t) = take_count t in ((((a, s), e), m <> 0), t)) k r in
           CAddTicketsV1 l)
  | ["deposit"] -> CDeposit
  | ["setPrice"; t; a] -> CSetPrice (n_of_string t, n_of_string a)
  | ["setTpt"; a] -> CSetTpt (n_of_string a)
  | ["setConfStart"; r] -> CSetConf (n_of_string r)
  | ["setWsStart"; r] -> CSetWs (n_of_string r)
  | ["setClaimStart"; r] -> CSetClaim (n_of_string r)
  | ["setSupport"; a] -> CSetSupport (n_of_string a)
  | ["pause"] -> CPause
  | ["unpause"] -> CUnpause
  | "blacklist" :: r -> let (k, r) = take_count r in CBlacklist (fst (take_list take_n k r))
  | "refund" :: r -> let (k, r) = take_count r in CRefund (fst (take_list take_n k r))
  | "unblacklist" :: r -> let (k, r) = take_count r in CUnblacklist (fst (take_list take_n k r))
  | ["confirm"; x] -> CConfirm (n_of_string x)
  | ["filter"] -> CFilter
  | ["select"] -> CSelect
  | ["extra"] -> CExtra
  | ["claim"] -> CClaim
  | ["claimPayment"] -> CClaimPayment
  | ["confirmNft"] -> CConfirmNft
  | ["setNftCost"; t; nn; a] -> CSetNftCost (n_of_string t, n_of_string nn, n_of_string a)
  | ["setSchedule1"; a; b; c; d; e] ->
      CSetSchedule1 (n_of_string a, n_of_string b, n_of_string c, n_of_string d, n_of_string e)
  | "setSchedule2" :: r ->
      let (k, r) = take_count r in
      CSetSchedule2 (fst (take_list (fun t -> let (a, t) = take_n t in let (b, t) = take_n t in ((a, b), t)) k r))
  | ["sftSetup"] -> CSftSetup
  | _ -> failwith "bad call"

let big_budget = nat_of_int 1000000
let status_string = function FUser -> "user" | FPanic -> "panic" | FVm -> "vm" | FOther -> "other"

let evname_string = function
  | EvRefund -> "refundTicketPayment" | EvSetPrice -> "setTicketPrice" | EvConfirm -> "confirmTickets"
  | EvFilterDone -> "filterTicketsCompleted" | EvSelectDone -> "selectWinnersCompleted"
  | EvClaimTokens -> "claimLaunchpadTokens" | EvBlacklist -> "addUsersToBlacklist"
  | EvUnblacklist -> "removeGuaranteedUsersFromBlacklist" | EvSetSchedule -> "setUnlockSchedule"
  | EvAddTickets -> "addTickets" | EvDistributeDone -> "distributeGuaranteedTicketsCompleted"
  | EvPause -> "pauseContract" | EvUnpause -> "unpauseContract"

let view_name = function
  | 1 -> "config" | 2 -> "flags" | 3 -> "price" | 4 -> "tpt" | 5 -> "nrWinning" | 6 -> "deposited"
  | 7 -> "totalTickets" | 8 -> "support" | 9 -> "paused" | 10 -> "schedule" | 11 -> "nftCost"
  | 12 -> "lockPct" | 13 -> "unlockEpoch" | 20 -> "range" | 21 -> "totalFor" | 22 -> "confirmed"
  | 23 -> "winIds" | 24 -> "blacklisted" | 25 -> "claimed" | 26 -> "utStatus" | 27 -> "claimable"
  | 28 -> "totalClaimable" | 29 -> "claimedBal" | 30 -> "confirmedNft" | 31 -> "wonNft"
  | k -> "view" ^ string_of_int k

let nums l = String.concat " " (List.map string_of_n l)
let sp s = if s = "" then "" else " " ^ s

(* the fixed universe of balances *)
let accounts = List.init 33 (fun i -> i)
let assets = [(0,0);(1,0);(2,0);(3,0);(4,0);(5,1);(5,2);(5,3);(6,5)]

let print_bal_diff oc (b0 : n -> n -> n -> n) (b1 : n -> n -> n -> n) =
  List.iter (fun a ->
    List.iter (fun (t, nn) ->
      let a' = n_of_int a and t' = n_of_int t and n' = n_of_int nn in
      let x0 = b0 a' t' n' and x1 = b1 a' t' n' in
      if x0 <> x1 then Printf.fprintf oc "b %d %d %d %s\n" a t nn (string_of_n x1)) assets) accounts

let () =
  let interactive = Sys.argv.(1) = "-" in
  let ic = if interactive then stdin else open_in Sys.argv.(1) in
  let oc = if interactive then stdout else open_out Sys.argv.(2) in
  let variant = ref Base in
  let addrs = ref [] in
  let world : world option ref = ref None in
  let idx = ref 0 in
  let seeds = ref [] in
  (try
    while true do
      let line = input_line ic in
      let toks = List.filter (fun s -> s <> "") (String.split_on_char ' ' (String.trim line)) in
      match toks with
      | [] -> ()
      | t :: _ when String.length t > 0 && t.[0] = '#' -> ()
      | "H" :: hid :: v :: _ ->
          variant := variant_of_string v; world := None; idx := 0; seeds := []; addrs := [];
          Printf.fprintf oc "H %s\n" hid
      | "U" :: _ :: r -> addrs := List.map n_of_string r
      | "D" :: c :: rd :: ep :: lp :: tpt :: ptok :: price :: nrw :: conf :: ws :: claim :: extra ->
          let e = { caller = n_of_string c; round = n_of_string rd; epoch = n_of_string ep; pay = [] } in
          let z = N0 in
          let x0 = { d_min_conf = z; d_lock_pct = z; d_unlock_epoch = z; d_lock_addr = z;
                     d_nft_tok = z; d_nft_nonce = z; d_nft_amt = z; d_total_nfts = z } in
          let ex = List.map n_of_string extra in
          let x = match !variant, ex with
            | (Base | Gt2), _ -> x0
            | (Gt1 | Mig), [m] -> { x0 with d_min_conf = m }
            | Lock, [p; u; a] -> { x0 with d_lock_pct = p; d_unlock_epoch = u; d_lock_addr = a }
            | Lgt, [m; p; u; a] -> { x0 with d_min_conf = m; d_lock_pct = p; d_unlock_epoch = u; d_lock_addr = a }
            | Nft, [t; nn; a; tot] -> { x0 with d_nft_tok = t; d_nft_nonce = nn; d_nft_amt = a; d_total_nfts = tot }
            | Ngt, [t; nn; a; tot; m] -> { x0 with d_nft_tok = t; d_nft_nonce = nn; d_nft_amt = a; d_total_nfts = tot; d_min_conf = m }
            | _ -> failwith "bad deploy extras" in
          (match deploy !variant e (n_of_string lp) (n_of_string tpt) (n_of_string ptok) (n_of_string price)
                   (n_of_string nrw) (n_of_string conf) (n_of_string ws) (n_of_string claim) x with
           | Ok s -> world := Some (world0 s); Printf.fprintf oc "D ok\n"
           | Err k -> world := None; Printf.fprintf oc "D %s\n" (status_string k));
          if interactive then (Printf.fprintf oc ".\n"; flush oc)
      | "S" :: _ :: r -> seeds := List.map hex_to_bytes r
      | "C" :: c :: rd :: ep :: _rnd :: budget :: snap :: npay :: r ->
          let i = !idx in incr idx;
          let sd = !seeds in seeds := [];
          (match !world with
           | None -> Printf.fprintf oc "C %d other\n" i
           | Some w ->
             (try
               let (k, r) = (int_of_string npay, r) in
               let (pay, r) = take_list (fun t ->
                 let (a, t) = take_n t in let (b, t) = take_n t in let (cc, t) = take_n t in (((a, b), cc), t)) k r in
               let e = { caller = n_of_string c; round = n_of_string rd; epoch = n_of_string ep; pay = pay } in
               let b = if budget = "-" then big_budget else nat_of_int (int_of_string budget) in
               let call = parse_call !variant r in
               (match exec_sha !variant e b sd w call with
                | Err k ->
                    Printf.fprintf oc "C %d %s\n" i (status_string k)
                | Ok (w', rets) ->
                    Printf.fprintf oc "C %d ok\n" i;
                    if rets <> [] then Printf.fprintf oc "r %s\n" (nums rets);
                    List.iter (fun ev ->
                      Printf.fprintf oc "e %s%s\n" (evname_string ev.ev_name) (sp (nums ev.ev_nums))) (List.rev w'.evs);
                    List.iter (function
                      | RFresh -> Printf.fprintf oc "g F\n"
                      | RDraw (sd, ix, wd) ->
                          Printf.fprintf oc "g D %s %s %s\n" (bytes_to_hex sd) (string_of_n ix) (string_of_n wd))
                      (List.rev w'.rlog);
                    List.iter (fun l ->
                      Printf.fprintf oc "l %s %s %s %s %s\n" (string_of_n l.lk_epoch) (string_of_n l.lk_dest)
                        (string_of_n l.lk_tok) (string_of_n l.lk_nonce) (string_of_n l.lk_amt)) (List.rev w'.locks);
                    print_bal_diff oc w.bal w'.bal;
                    world := Some w');
               if snap = "1" then begin
                 match !world with
                 | Some wcur ->
                   List.iter (fun ((code, a), res) ->
                     let code = int_of_n code in
                     let astr = if code >= 20 then " " ^ string_of_n a else "" in
                     match res with
                     | None -> Printf.fprintf oc "v %s%s : FAIL\n" (view_name code) astr
                     | Some l -> Printf.fprintf oc "v %s%s :%s\n" (view_name code) astr (sp (nums l)))
                     (snapshot !variant e wcur.st !addrs)
                 | None -> ()
               end
             with Failure _ | Invalid_argument _ -> Printf.fprintf oc "C %d other # bad line\n" i));
          if interactive then (Printf.fprintf oc ".\n"; flush oc)
      | ["E"] -> Printf.fprintf oc "E\n"; if interactive then (Printf.fprintf oc ".\n"; flush oc)
      | ["Q"; "depositSize"] ->
          (match !world with
           | Some w -> Printf.fprintf oc "q %s\n" (string_of_n (deposit_size !variant w.st))
           | None -> Printf.fprintf oc "q 0\n");
          Printf.fprintf oc ".\n"; flush oc
      | _ -> ()
    done
  with End_of_file -> ());
  close_out oc
