(** * Base definitions of the launchpad model: numbers, maps, result monad.
    Stdlib only; everything is total and computable. *)
From Coq Require Export NArith List Bool Lia.
Export ListNotations.
Open Scope N_scope.

(** Failure classes, as the debug VM reports them (status 4 with a message, status 4
    "panic occurred", status 10, anything else). *)
Inductive fkind := FUser | FPanic | FVm | FOther.

Inductive res (A : Type) : Type :=
| Ok (a : A)
| Err (k : fkind).
Arguments Ok {A} a.
Arguments Err {A} k.

Definition bind {A B} (r : res A) (f : A -> res B) : res B :=
  match r with Ok a => f a | Err k => Err k end.

Notation "'do' x <- r ; k" := (bind r (fun x => k))
  (at level 200, x pattern, r at level 100, k at level 200, right associativity).
Notation "'do_' r ; k" := (bind r (fun _ => k))
  (at level 200, r at level 100, k at level 200, right associativity).

(** [require!(c, ..)]: a user error. *)
Definition require (c : bool) : res unit := if c then Ok tt else Err FUser.
(** A Rust arithmetic check that panics in the [dev] profile (overflow-checks on). *)
Definition assert_nopanic (c : bool) : res unit := if c then Ok tt else Err FPanic.

(** Checked subtraction of machine integers: underflow panics (dev profile). *)
Definition usub (a b : N) : res N := if b <=? a then Ok (a - b) else Err FPanic.
(** BigUint subtraction: the VM signals an error ("cannot subtract because result would be negative"). *)
Definition bsub (a b : N) : res N := if b <=? a then Ok (a - b) else Err FUser.

(** Total function maps. *)
Definition upd {V} (m : N -> V) (k : N) (v : V) : N -> V :=
  fun x => if x =? k then v else m x.

Lemma upd_same {V} (m : N -> V) k v : upd m k v k = v.
Proof. unfold upd. now rewrite N.eqb_refl. Qed.
Lemma upd_other {V} (m : N -> V) k v x : x <> k -> upd m k v x = m x.
Proof. unfold upd. intros H. destruct (N.eqb_spec x k); congruence. Qed.

(** Codec limits of the implementation (both on the native test target and on wasm32):
    a [usize] argument is at most 4 bytes, a [u64] at most 8. *)
Definition usize_lim : N := 4294967296.            (* 2^32 *)
Definition u64_lim : N := 18446744073709551616.     (* 2^64 *)
Definition usize_arg (n : N) : res unit := require (n <? usize_lim).
Definition u64_arg (n : N) : res unit := require (n <? u64_lim).
Definition u32_arg (n : N) : res unit := require (n <? usize_lim).

Fixpoint all_ok {A} (f : A -> res unit) (l : list A) : res unit :=
  match l with
  | [] => Ok tt
  | x :: r => do_ f x; all_ok f r
  end.

(** [UnorderedSetMapper]: a duplicate-free list with swap-remove. *)
Definition mem (x : N) (l : list N) : bool := existsb (N.eqb x) l.

Fixpoint replace_first (x y : N) (l : list N) : list N :=
  match l with
  | [] => []
  | a :: r => if a =? x then y :: r else a :: replace_first x y r
  end.

(** remove [x]: the last element takes its place (nothing happens if [x] is absent). *)
Definition swap_remove (x : N) (l : list N) : list N :=
  if mem x l then
    match rev l with
    | [] => []
    | lastx :: rfront =>
        if lastx =? x then rev rfront
        else replace_first x lastx (rev rfront)
    end
  else l.

Definition set_insert (x : N) (l : list N) : list N :=
  if mem x l then l else l ++ [x].

Definition sumN (l : list N) : N := fold_right N.add 0 l.
