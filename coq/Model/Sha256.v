(** * SHA-256 on byte lists (executable instance of the hash used by [Random::hash_seed]).
    Validated against FIPS vectors below and against the implementation's recorded draws
    on every correspondence run; theorems never depend on it (they quantify over the hash). *)
From Coq Require Import NArith List.
Import ListNotations.
Open Scope N_scope.

Definition w32 : N := 4294967296.
Definition add32 (a b : N) : N := (a + b) mod w32.
Definition rotr (n x : N) : N := N.lor (N.shiftr x n) ((N.shiftl x (32 - n)) mod w32).
Definition shr (n x : N) : N := N.shiftr x n.
Definition not32 (x : N) : N := (w32 - 1) - x.

Definition Ch x y z := N.lxor (N.land x y) (N.land (not32 x) z).
Definition Maj x y z := N.lxor (N.lxor (N.land x y) (N.land x z)) (N.land y z).
Definition S0 x := N.lxor (N.lxor (rotr 2 x) (rotr 13 x)) (rotr 22 x).
Definition S1 x := N.lxor (N.lxor (rotr 6 x) (rotr 11 x)) (rotr 25 x).
Definition s0 x := N.lxor (N.lxor (rotr 7 x) (rotr 18 x)) (shr 3 x).
Definition s1 x := N.lxor (N.lxor (rotr 17 x) (rotr 19 x)) (shr 10 x).

Definition K256 : list N :=
 [0x428a2f98;0x71374491;0xb5c0fbcf;0xe9b5dba5;0x3956c25b;0x59f111f1;0x923f82a4;0xab1c5ed5;
  0xd807aa98;0x12835b01;0x243185be;0x550c7dc3;0x72be5d74;0x80deb1fe;0x9bdc06a7;0xc19bf174;
  0xe49b69c1;0xefbe4786;0x0fc19dc6;0x240ca1cc;0x2de92c6f;0x4a7484aa;0x5cb0a9dc;0x76f988da;
  0x983e5152;0xa831c66d;0xb00327c8;0xbf597fc7;0xc6e00bf3;0xd5a79147;0x06ca6351;0x14292967;
  0x27b70a85;0x2e1b2138;0x4d2c6dfc;0x53380d13;0x650a7354;0x766a0abb;0x81c2c92e;0x92722c85;
  0xa2bfe8a1;0xa81a664b;0xc24b8b70;0xc76c51a3;0xd192e819;0xd6990624;0xf40e3585;0x106aa070;
  0x19a4c116;0x1e376c08;0x2748774c;0x34b0bcb5;0x391c0cb3;0x4ed8aa4a;0x5b9cca4f;0x682e6ff3;
  0x748f82ee;0x78a5636f;0x84c87814;0x8cc70208;0x90befffa;0xa4506ceb;0xbef9a3f7;0xc67178f2].

Definition H0 : list N :=
 [0x6a09e667;0xbb67ae85;0x3c6ef372;0xa54ff53a;0x510e527f;0x9b05688c;0x1f83d9ab;0x5be0cd19].

Fixpoint words_of_bytes (l : list N) : list N :=
  match l with
  | a :: b :: c :: d :: r => (((a * 256 + b) * 256 + c) * 256 + d) :: words_of_bytes r
  | _ => []
  end.

Definition bytes_of_word (w : N) : list N :=
  [ (w / 16777216) mod 256; (w / 65536) mod 256; (w / 256) mod 256; w mod 256 ].

Definition nthN (l : list N) (i : nat) : N := nth i l 0.

(** message schedule: extend 16 words to 64 (list kept in reverse: newest first) *)
Fixpoint extend (n : nat) (rev_w : list N) : list N :=
  match n with
  | O => rev_w
  | S n' =>
      let w := add32 (add32 (s1 (nthN rev_w 1)) (nthN rev_w 6))
                     (add32 (s0 (nthN rev_w 14)) (nthN rev_w 15)) in
      extend n' (w :: rev_w)
  end.

Definition sha_round (st : list N) (kw : N * N) : list N :=
  match st with
  | [a;b;c;d;e;f;g;h] =>
      let t1 := add32 (add32 (add32 h (S1 e)) (add32 (Ch e f g) (fst kw))) (snd kw) in
      let t2 := add32 (S0 a) (Maj a b c) in
      [add32 t1 t2; a; b; c; add32 d t1; e; f; g]
  | _ => st
  end.

Definition compress (h : list N) (block : list N) : list N :=
  let w := rev (extend 48 (rev block)) in
  let st := fold_left sha_round (combine K256 w) h in
  map (fun p => add32 (fst p) (snd p)) (combine h st).

Fixpoint chunks16 (fuel : nat) (l : list N) : list (list N) :=
  match fuel with
  | O => []
  | S f => match l with
           | [] => []
           | _ => firstn 16 l :: chunks16 f (skipn 16 l)
           end
  end.

Definition pad (msg : list N) : list N :=
  let len := N.of_nat (length msg) in
  let zeros := N.to_nat ((119 - (len mod 64)) mod 64) in
  let bitlen := len * 8 in
  msg ++ [128] ++ repeat 0 zeros
      ++ bytes_of_word (bitlen / w32) ++ bytes_of_word (bitlen mod w32).

Definition sha256 (msg : list N) : list N :=
  let ws := words_of_bytes (pad msg) in
  let blocks := chunks16 (S (length ws)) ws in
  concat (map bytes_of_word (fold_left compress blocks H0)).
