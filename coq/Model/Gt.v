(** * Guaranteed-ticket modules: v1 ([launchpad-guaranteed-tickets], identical copy in
    [launchpad-migration-guaranteed-tickets], reused by lgt and ngt) and v2. *)
From LP Require Export Model.Common.
Open Scope N_scope.

(** ** v1 [guaranteed_tickets_init.rs] *)
Definition STAKING_GUARANTEED_TICKETS_NO : N := 1.
Definition MIGRATION_GUARANTEED_TICKETS_NO : N := 1.

Definition add_one_v1 (minc : N) (acc : state * N * N) (x : N * N * N * bool)
  : res (state * N * N) :=
  let '(s, tw, tg) := acc in
  let '(buyer, staking, energy, mig) := x in
  do_ usize_arg staking; do_ usize_arg energy;
  do s1 <- try_create_tickets s buyer (staking + energy);
  let us0 := {| us_a := staking; us_b := energy; us_sg := 0; us_mg := 0; us_infos := [] |} in
  do r1 <-
    (if minc <=? staking then
       do_ require (0 <? tw);
       Ok (s1 <| gt_users := set_insert buyer (gt_users s1) |>, tw - STAKING_GUARANTEED_TICKETS_NO,
           tg + STAKING_GUARANTEED_TICKETS_NO,
           {| us_a := staking; us_b := energy; us_sg := STAKING_GUARANTEED_TICKETS_NO; us_mg := 0; us_infos := [] |})
     else Ok (s1, tw, tg, us0));
  let '(s2, tw2, tg2, us2) := r1 in
  do r2 <-
    (if mig then
       do_ require (0 <? tw2);
       Ok (s2 <| gt_users := set_insert buyer (gt_users s2) |>, tw2 - MIGRATION_GUARANTEED_TICKETS_NO,
           tg2 + MIGRATION_GUARANTEED_TICKETS_NO,
           {| us_a := us_a us2; us_b := us_b us2; us_sg := us_sg us2; us_mg := MIGRATION_GUARANTEED_TICKETS_NO; us_infos := [] |})
     else Ok (s2, tw2, tg2, us2));
  let '(s3, tw3, tg3, us3) := r2 in
  Ok (s3 <| uts := upd (uts s3) buyer (Some us3) |>, tw3, tg3).

Fixpoint add_loop_v1 (minc : N) (acc : state * N * N) (l : list (N * N * N * bool)) : res (state * N * N) :=
  match l with
  | [] => Ok acc
  | x :: r => do acc' <- add_one_v1 minc acc x; add_loop_v1 minc acc' r
  end.

Definition add_tickets_v1 (e : env) (w : world) (l : list (N * N * N * bool)) : res world :=
  let s := st w in
  do_ require_stage e s AddTickets;
  do r <- add_loop_v1 (min_conf s) (s, nr_winning s, total_guaranteed s) l;
  let '(s', tw, tg) := r in
  Ok (set_st w (s' <| total_guaranteed := tg |> <| nr_winning := tw |>)).

Definition us_get (o : option ustatus) : ustatus :=
  match o with Some u => u | None => ustatus_default end.

(** [clear_users_with_guaranteed_ticket_after_blacklist] (v1) *)
Fixpoint clear_gt_loop_v1 (acc : state * N * N) (l : list N) : res (state * N * N) :=
  match l with
  | [] => Ok acc
  | u :: r =>
      let '(s, removed, tg) := acc in
      if mem u (gt_users s) then
        let us := us_get (uts s u) in
        do tg1 <- usub tg (us_sg us);
        do tg2 <- usub tg1 (us_mg us);
        let s1 := s <| gt_users := swap_remove u (gt_users s) |>
                    <| uts := upd (uts s) u None |> in
        clear_gt_loop_v1 (s1 <| bl_uts := upd (bl_uts s1) u (Some us) |>, removed + us_sg us + us_mg us, tg2) r
      else clear_gt_loop_v1 acc r
  end.
Definition clear_gt_after_blacklist_v1 (w : world) (l : list N) : res world :=
  let s := st w in
  do r <- clear_gt_loop_v1 (s, 0, total_guaranteed s) l;
  let '(s1, removed, tg) := r in
  let s2 := if 0 <? removed then s1 <| nr_winning := nr_winning s1 + removed |> else s1 in
  Ok (set_st w (s2 <| total_guaranteed := tg |>)).

(** [remove_guaranteed_tickets_from_blacklist] (v1), with the bound check added by the repair of F3 *)
Fixpoint unbl_gt_loop_v1 (acc : state * N * N) (l : list N) : res (state * N * N) :=
  match l with
  | [] => Ok acc
  | u :: r =>
      let '(s, nw, tg) := acc in
      if (match uts s u with Some _ => true | None => false end)
         || (match range s u with None => true | Some _ => false end)
      then unbl_gt_loop_v1 acc r
      else if mem u (gt_users s) then unbl_gt_loop_v1 acc r
      else
        let us := us_get (bl_uts s u) in
        do_ require (us_sg us + us_mg us <=? nw);
        do nw1 <- usub nw (us_sg us);
        do nw2 <- usub nw1 (us_mg us);
        let s1 := s <| gt_users := gt_users s ++ [u] |>
                    <| bl_uts := upd (bl_uts s) u None |> in
        unbl_gt_loop_v1 (s1 <| uts := upd (uts s1) u (Some us) |>, nw2, tg + us_sg us + us_mg us) r
  end.
Definition unblacklist_gt_v1 (w : world) (l : list N) : res world :=
  let s := st w in
  do r <- unbl_gt_loop_v1 (s, nr_winning s, total_guaranteed s) l;
  let '(s1, nw, tg) := r in
  Ok (set_st w (s1 <| nr_winning := nw |> <| total_guaranteed := tg |>)).

(** ** v2 [guaranteed_tickets_init.rs] *)
Definition MAX_TICKETS_ALLOWANCE : N := 255.
Definition MAX_GUARANTEED_TICKETS_ENTRIES : N := 10.

Fixpoint infos_ok (l : list (N * N)) : res unit :=
  match l with
  | [] => Ok tt
  | (g, m) :: r => do_ usize_arg g; do_ usize_arg m; do_ require (g <=? m); infos_ok r
  end.
Definition infos_sum (l : list (N * N)) : N := sumN (map fst l).

(* accumulator: state, total_winning, total_guaranteed, users, tickets, guaranteed added *)
Definition add_one_v2 (acc : state * N * N * N * N * N) (x : N * N * list (N * N))
  : res (state * N * N * N * N * N) :=
  let '(s, tw, tg, uc, ta, ga) := acc in
  let '(buyer, allowance, infos) := x in
  if allowance =? 0 then Ok acc
  else
    do_ require (negb (is_sc buyer));
    do_ require (allowance <=? MAX_TICKETS_ALLOWANCE);
    do_ require (N.of_nat (length infos) <=? MAX_GUARANTEED_TICKETS_ENTRIES);
    do s1 <- try_create_tickets s buyer allowance;
    do_ infos_ok infos;
    let ug := infos_sum infos in
    if 0 <? ug then
      do_ require (ug <=? tw);
      let us := {| us_a := allowance; us_b := 0; us_sg := 0; us_mg := 0; us_infos := infos |} in
      let s2 := s1 <| gt_users := set_insert buyer (gt_users s1) |> in
      Ok (s2 <| uts := upd (uts s2) buyer (Some us) |>, tw - ug, tg + ug, uc + 1, ta + allowance, ga + ug)
    else
      let us := {| us_a := allowance; us_b := 0; us_sg := 0; us_mg := 0; us_infos := [] |} in
      Ok (s1 <| uts := upd (uts s1) buyer (Some us) |>, tw, tg, uc + 1, ta + allowance, ga).

Fixpoint add_loop_v2 (acc : state * N * N * N * N * N) (l : list (N * N * list (N * N)))
  : res (state * N * N * N * N * N) :=
  match l with
  | [] => Ok acc
  | x :: r => do_ usize_arg (snd (fst x)); do acc' <- add_one_v2 acc x; add_loop_v2 acc' r
  end.

Definition add_tickets_v2 (e : env) (w : world) (l : list (N * N * list (N * N))) : res world :=
  let s := st w in
  do_ require_stage e s AddTickets;
  do r <- add_loop_v2 (s, nr_winning s, total_guaranteed s, 0, 0, 0) l;
  let '(s', tw, tg, uc, ta, ga) := r in
  Ok (emit (set_st w (s' <| total_guaranteed := tg |> <| nr_winning := tw |>))
           EvAddTickets (event_hdr e ++ [uc; ta; ga])).

Fixpoint clear_gt_loop_v2 (acc : state * N * N) (l : list N) : res (state * N * N) :=
  match l with
  | [] => Ok acc
  | u :: r =>
      let '(s, nw, tg) := acc in
      let us := us_get (uts s u) in
      let rec := infos_sum (us_infos us) in
      do tg1 <- usub tg rec;
      let s1 := s <| gt_users := swap_remove u (gt_users s) |>
                  <| uts := upd (uts s) u None |> in
      clear_gt_loop_v2 (s1 <| bl_uts := upd (bl_uts s1) u (Some us) |>, nw + rec, tg1) r
  end.
Definition clear_gt_after_blacklist_v2 (w : world) (l : list N) : res world :=
  let s := st w in
  do r <- clear_gt_loop_v2 (s, nr_winning s, total_guaranteed s) l;
  let '(s1, nw, tg) := r in
  Ok (set_st w (s1 <| nr_winning := nw |> <| total_guaranteed := tg |>)).

Fixpoint unbl_gt_loop_v2 (acc : state * N * N) (l : list N) : res (state * N * N) :=
  match l with
  | [] => Ok acc
  | u :: r =>
      let '(s, nw, tg) := acc in
      match range s u with
      | None => unbl_gt_loop_v2 acc r
      | Some _ =>
          let us := us_get (bl_uts s u) in
          let added := infos_sum (us_infos us) in
          let s0 := s <| bl_uts := upd (bl_uts s) u None |> in
          do r1 <-
            (if 0 <? added then
               do_ require (added <=? nw);
               Ok (s0 <| gt_users := set_insert u (gt_users s0) |>, nw - added, tg + added)
             else Ok (s0, nw, tg));
          let '(s1, nw1, tg1) := r1 in
          unbl_gt_loop_v2 (s1 <| uts := upd (uts s1) u (Some us) |>, nw1, tg1) r
      end
  end.
Definition unblacklist_gt_v2 (w : world) (l : list N) : res world :=
  let s := st w in
  do r <- unbl_gt_loop_v2 (s, nr_winning s, total_guaranteed s) l;
  let '(s1, nw, tg) := r in
  Ok (set_st w (s1 <| nr_winning := nw |> <| total_guaranteed := tg |>)).

(** ** selection ([guaranteed_ticket_winners.rs]) *)
Definition winning_tickets_in_range (s : state) (f l : N) : N := count_winning s (range_ids f l).

Definition gtop_default (r : rng) : gtop :=
  {| g_rng := r; g_leftover := 0; g_offset := 1; g_additional := 0 |}.

(** v2 top-up: walk the user's own range, bounded by its last id *)
Fixpoint topup_v2 (ids : list N) (s : state) (remaining added : N) : state * N * N :=
  match ids with
  | [] => (s, remaining, added)
  | t :: r =>
      if remaining =? 0 then (s, remaining, added)
      else if status s t then topup_v2 r s remaining added
      else topup_v2 r (s <| status := upd (status s) t true |>) (remaining - 1) (added + 1)
  end.

(** v1 top-up as it was before the repair of finding F1: [while remaining > 0] with no bound on the
    ticket id.  Kept only for the refutation lemma of the unrepaired behaviour; the repaired v1 code
    uses the bounded loop ([topup_v2]) like v2. *)
Fixpoint topup_v1 (fuel : nat) (t : N) (s : state) (remaining added : N) : state * N * N :=
  match fuel with
  | O => (s, remaining, added)
  | S f =>
      if remaining =? 0 then (s, remaining, added)
      else if status s t then topup_v1 f (t + 1) s remaining added
      else topup_v1 f (t + 1) (s <| status := upd (status s) t true |>) (remaining - 1) (added + 1)
  end.

Definition calc_v2 (infos : list (N * N)) (c : N) : N * N :=
  let g := sumN (map fst (filter (fun i => snd i <=? c) infos)) in
  let l := sumN (map fst (filter (fun i => negb (snd i <=? c)) infos)) in
  if c <? g then (c, l + (g - c)) else (g, l).

Definition gt_user_step_v2 (s : state) (o : gtop) (u : N) : state * gtop :=
  match uts s u with
  | None => (s, o)
  | Some us =>
      let c := confirmed s u in
      let (g, l) := calc_v2 (us_infos us) c in
      let o1 := o <| g_leftover := g_leftover o + l |> in
      if 0 <? g then
        match range s u with
        | None => (s, o1 <| g_leftover := g_leftover o1 + g |>)
        | Some (f, la) =>
            let wn := winning_tickets_in_range s f la in
            if wn <? g then
              let '(s', rem, added) := topup_v2 (range_ids f la) s (g - wn) 0 in
              (s', o1 <| g_additional := g_additional o1 + added |>
                      <| g_leftover := g_leftover o1 + rem + wn |>)
            else (s, o1 <| g_leftover := g_leftover o1 + g |>)
        end
      else (s, o1)
  end.

Definition gt_user_step_v1 (s : state) (o : gtop) (u : N) : state * gtop :=
  match uts s u with
  | None => (s, o)
  | Some us =>
      let c := confirmed s u in
      let total_allow := us_a us + us_b us in
      let (n1, o1) := if us_b us <=? c then (us_mg us, o)
                      else (0, o <| g_leftover := g_leftover o + us_mg us |>) in
      let (n2, o2) := if ((0 <? n1) && (total_allow <=? c)) || ((n1 =? 0) && (min_conf s <=? c))
                      then (n1 + us_sg us, o1)
                      else (n1, o1 <| g_leftover := g_leftover o1 + us_sg us |>) in
      if 0 <? n2 then
        match range s u with
        | None => (s, o2 <| g_leftover := g_leftover o2 + n2 |>)
        | Some (f, la) =>
            let wn := winning_tickets_in_range s f la in
            if n2 <=? wn then (s, o2 <| g_leftover := g_leftover o2 + n2 |>)
            else
              let rem := n2 - wn in
              let o3 := o2 <| g_leftover := g_leftover o2 + (n2 - rem) |> in
              let '(s', rem', added) := topup_v2 (range_ids f la) s rem 0 in
              (s', o3 <| g_additional := g_additional o3 + added |>
                      <| g_leftover := g_leftover o3 + rem' |>)
        end
      else (s, o2)
  end.

Definition select_gt_body (v2 : bool) (x : state * gtop * N) : res (state * gtop * N * bool) :=
  let '(s, o, nleft) := x in
  if nleft =? 0 then Ok (s, o, nleft, false)
  else
    match gt_users s with
    | [] => Err FUser
    | u :: _ =>
        let s1 := s <| gt_users := swap_remove u (gt_users s) |> in
        let (s2, o2) := if v2 then gt_user_step_v2 s1 o u else gt_user_step_v1 s1 o u in
        Ok (s2, o2, nleft - 1, true)
    end.

Section WithHash.
Variable H : list N -> list N.

Inductive tryres := TOk | TCurrentWinning | TNewWinning.

Definition try_select_winning_ticket (v2 : bool) (w : world) (r : rng) (cur last : N)
  : tryres * rng * world :=
  let s := st w in
  let cur_id := get_ticket_id_from_pos s cur in
  if status s cur_id then (TCurrentWinning, r, w)
  else
    let '(rand_pos, r', w1) := next_usize_in_range H w r cur (last + 1) in
    let s1 := st w1 in
    let sel := get_ticket_id_from_pos s1 rand_pos in
    if status s1 sel then
      if v2 then
        let s2 := s1 <| pos2id := upd (pos2id s1) cur sel |> in
        (TNewWinning, r', set_st w1 (s2 <| pos2id := upd (pos2id s2) rand_pos cur_id |>))
      else (TNewWinning, r', w1)
    else
      let s2 := s1 <| pos2id := upd (pos2id s1) rand_pos cur_id |> in
      (TOk, r', set_st w1 (s2 <| status := upd (status s2) sel true |>)).

Definition leftover_body (v2 : bool) (nrw last : N) (x : world * gtop) : res (world * gtop * bool) :=
  let (w, o) := x in
  let o1 := if last <=? nrw + g_additional o then o <| g_leftover := 0 |> else o in
  if g_leftover o1 =? 0 then Ok (w, o1, false)
  else
    let cur := nrw + g_offset o1 in
    let '(tr, r', w') := try_select_winning_ticket v2 w (g_rng o1) cur last in
    let o2 := o1 <| g_rng := r' |> in
    match tr with
    | TOk => Ok (w', o2 <| g_leftover := g_leftover o2 - 1 |>
                        <| g_additional := g_additional o2 + 1 |>
                        <| g_offset := g_offset o2 + 1 |>, true)
    | TCurrentWinning => Ok (w', o2 <| g_offset := g_offset o2 + 1 |>, true)
    | TNewWinning => Ok (w', (if v2 then o2 <| g_offset := g_offset o2 + 1 |> else o2), true)
    end.

(** both phases; returns world, operation data, completed?, remaining budget *)
Definition gt_distribution (v2 : bool) (b : nat) (w : world) (o : gtop) : res (world * gtop * bool * nat) :=
  do r1 <- run_while b (select_gt_body v2) (st w, o, N.of_nat (length (gt_users (st w))));
  let '(s1, o1, _, done1, b1) := r1 in
  let w1 := set_st w s1 in
  if negb done1 then Ok (w1, o1, false, b1)
  else
    do r2 <- run_while b1 (leftover_body v2 (nr_winning s1) (last_ticket_id s1)) (w1, o1);
    let '(w2, o2, done2, b2) := r2 in
    Ok (w2, o2, done2, b2).

Definition finish_gt (w : world) (o : gtop) : world :=
  let s := st w in
  set_st w (s <| claimable_payment := claimable_payment s + price s * g_additional o |>
              <| nr_winning := nr_winning s + g_additional o |>).

Definition load_gt_op (w : world) : res (gtop * world) :=
  match op (st w) with
  | OpNone => let (r, w') := rng_default w in Ok (gtop_default r, w')
  | OpExtra (XGt o) => Ok (o, w)
  | _ => Err FUser
  end.

(** [distributeGuaranteedTickets] of gt1 / mig / lgt ([v2 = false]) and gt2 ([v2 = true]) *)
Definition distribute_guaranteed_tickets (v2 : bool) (e : env) (b : nat) (w : world) : res (world * N) :=
  let s := st w in
  do_ (if v2 then require (negb (paused s)) else Ok tt);
  do_ require_stage e s WinnerSelection;
  do_ (if v2 then check_caller_owner_or_user e else Ok tt);
  do_ require (fl_selected s);
  do_ require (negb (fl_additional s));
  do l <- load_gt_op w;
  let (o0, wl) := l in
  let w0 := set_st wl (st wl <| op := OpNone |>) in
  do r <- gt_distribution v2 b w0 o0;
  let '(w1, o1, completed, _) := r in
  if completed then
    let w2 := finish_gt (set_st w1 (st w1 <| fl_additional := true |>)) o1 in
    Ok ((if v2 then emit w2 EvDistributeDone (event_hdr e ++ [g_additional o1]) else w2), 0)
  else Ok (set_st w1 (st w1 <| op := OpExtra (XGt o1) |>), 1).

End WithHash.
