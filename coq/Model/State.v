(** * Contract state, ledger and environment of the launchpad model. *)
From LP Require Export Model.Base.
From RecordUpdate Require Export RecordSet.
Export RecordSetNotations.
Open Scope N_scope.

(** [launchpad-common/src/random.rs]: 32-byte seed and byte index. *)
Record rng := { r_seed : list N; r_index : N }.

(** Saved state of the guaranteed-ticket distribution (both versions). *)
Record gtop := {
  g_rng : rng;
  g_leftover : N;
  g_offset : N;
  g_additional : N
}.
#[export] Instance eta_gtop : Settable _ :=
  settable! Build_gtop <g_rng; g_leftover; g_offset; g_additional>.

Inductive extra_data :=
| XGt (o : gtop)          (* gt1 mig lgt gt2 *)
| XRng (r : rng)          (* nft *)
| XCombGt (o : gtop)      (* ngt, first sub-step *)
| XCombNft (r : rng).     (* ngt, second sub-step *)

(** [OngoingOperationType] *)
Inductive operation :=
| OpNone
| OpFilter (first removed : N)
| OpSelect (r : rng) (pos : N)
| OpExtra (d : extra_data).

(** Per-user guarantee data. v1 family: staking / energy allowance and the two 0/1 guarantees;
    v2: allowance [us_a] and the list of (guaranteed, min confirmed). *)
Record ustatus := {
  us_a : N; us_b : N; us_sg : N; us_mg : N; us_infos : list (N * N)
}.
Definition ustatus_default : ustatus := {| us_a := 0; us_b := 0; us_sg := 0; us_mg := 0; us_infos := [] |}.

Record state := {
  (* configuration *)
  lp_token : N; tpt : N; pay_token : N; price : N; nr_winning : N;
  conf_start : N; ws_start : N; claim_start : N;
  fl_started : bool; fl_filtered : bool; fl_selected : bool; fl_additional : bool;
  support : N; paused : bool; deposited : bool; total_deposited : N; claimable_payment : N;
  (* tickets *)
  last_ticket_id : N;
  range : N -> option (N * N);          (* address -> (first, last) *)
  batch : N -> option (N * N);          (* first id -> (address, nr tickets) *)
  confirmed : N -> N;
  status : N -> bool;                   (* ticket id -> winning *)
  pos2id : N -> N;                      (* 0 = identity *)
  blacklisted : N -> bool;
  claimed : N -> bool;
  op : operation;
  (* guaranteed tickets *)
  min_conf : N; gt_users : list N; total_guaranteed : N;
  uts : N -> option ustatus; bl_uts : N -> option ustatus;
  (* vesting *)
  sched1 : option (N * N * N * N * N);  (* start, initial pct, times, pct, period *)
  sched2 : option (list (N * N));       (* (release round, pct) *)
  total_claimable : N -> N; claimed_balance : N -> N;
  (* nft *)
  nft_tok : N; nft_nonce : N; nft_amt : N;
  nft_payers : list N; nft_winners : list N; total_nfts : N; claimable_nft : N; sft_ready : bool;
  (* lock *)
  lock_pct : N; unlock_epoch : N; lock_sc : N
}.
#[export] Instance eta_state : Settable _ :=
  settable! Build_state <lp_token; tpt; pay_token; price; nr_winning;
    conf_start; ws_start; claim_start; fl_started; fl_filtered; fl_selected; fl_additional;
    support; paused; deposited; total_deposited; claimable_payment;
    last_ticket_id; range; batch; confirmed; status; pos2id; blacklisted; claimed; op;
    min_conf; gt_users; total_guaranteed; uts; bl_uts;
    sched1; sched2; total_claimable; claimed_balance;
    nft_tok; nft_nonce; nft_amt; nft_payers; nft_winners; total_nfts; claimable_nft; sft_ready;
    lock_pct; unlock_epoch; lock_sc>.

Definition state0 : state := {|
  lp_token := 0; tpt := 0; pay_token := 0; price := 0; nr_winning := 0;
  conf_start := 0; ws_start := 0; claim_start := 0;
  fl_started := false; fl_filtered := false; fl_selected := false; fl_additional := false;
  support := 0; paused := false; deposited := false; total_deposited := 0; claimable_payment := 0;
  last_ticket_id := 0;
  range := fun _ => None; batch := fun _ => None; confirmed := fun _ => 0;
  status := fun _ => false; pos2id := fun _ => 0;
  blacklisted := fun _ => false; claimed := fun _ => false; op := OpNone;
  min_conf := 0; gt_users := []; total_guaranteed := 0;
  uts := fun _ => None; bl_uts := fun _ => None;
  sched1 := None; sched2 := None; total_claimable := fun _ => 0; claimed_balance := fun _ => 0;
  nft_tok := 0; nft_nonce := 0; nft_amt := 0;
  nft_payers := []; nft_winners := []; total_nfts := 0; claimable_nft := 0; sft_ready := false;
  lock_pct := 0; unlock_epoch := 0; lock_sc := 0
|}.

(** Events: name and payload numbers (topics are the first three payload numbers). *)
Inductive evname :=
| EvRefund | EvSetPrice | EvConfirm | EvFilterDone | EvSelectDone
| EvClaimTokens | EvBlacklist | EvUnblacklist | EvSetSchedule | EvAddTickets | EvDistributeDone
| EvPause | EvUnpause.
Record event := { ev_name : evname; ev_nums : list N }.

Inductive rngev := RFresh | RDraw (seed : list N) (index word : N).

Record lockrec := { lk_epoch : N; lk_dest : N; lk_tok : N; lk_nonce : N; lk_amt : N }.

(** The world: contract storage, the ledger of every account (address, token, nonce) and the
    observable outputs of the call being executed. *)
Record world := {
  st : state;
  bal : N -> N -> N -> N;
  evs : list event;       (* newest first *)
  rlog : list rngev;      (* newest first *)
  locks : list lockrec;   (* newest first *)
  seeds : list (list N)   (* fresh seeds still available to this call *)
}.
#[export] Instance eta_world : Settable _ :=
  settable! Build_world <st; bal; evs; rlog; locks; seeds>.

(** Environment of one transaction. *)
Record env := {
  caller : N; round : N; epoch : N;
  pay : list (N * N * N)          (* (token, nonce, amount); EGLD = token 0 *)
}.

Definition sc_addr : N := 0.
Definition owner_addr : N := 1.
(** accounts 20..30 have smart-contract addresses *)
Definition is_sc (a : N) : bool := (a =? 0) || ((20 <=? a) && (a <=? 30)).
Definition token_valid (t : N) : bool := negb (t =? 99).
Definition egld : N := 0.

Definition upd_bal (b : N -> N -> N -> N) (a t n v : N) : N -> N -> N -> N :=
  fun a' t' n' => if (a' =? a) && (t' =? t) && (n' =? n) then v else b a' t' n'.

(** A transfer performed by the contract (or by the VM on its behalf). Insufficient funds is a VM
    failure. *)
Definition transfer (w : world) (from to tok nonce amt : N) : res world :=
  let have := bal w from tok nonce in
  if amt <=? have then
    let b1 := upd_bal (bal w) from tok nonce (have - amt) in
    let b2 := upd_bal b1 to tok nonce (b1 to tok nonce + amt) in
    Ok (w <| bal := b2 |>)
  else Err FVm.

Definition emit (w : world) (n : evname) (nums : list N) : world :=
  w <| evs := {| ev_name := n; ev_nums := nums |} :: evs w |>.

Definition set_st (w : world) (s : state) : world := w <| st := s |>.
