(** * Model of [launchpad-common]: stages, set-up, tickets, resumable loops, random numbers,
    filtering, winner selection, confirmation, claims, blacklist.  Function names follow the
    Rust sources. *)
From LP Require Export Model.State.
Open Scope N_scope.

(** ** [ongoing_operation.rs]: [run_while_it_has_gas] with the iteration budget of hook H1.
    [b] = number of continue-checks that may still pass.  Returns the final loop state, whether
    the loop completed (STOP_OP) and the remaining budget. *)
Fixpoint run_while {S : Type} (b : nat) (body : S -> res (S * bool)) (s : S) : res (S * bool * nat) :=
  do sc <- body s;
  let (s', cont) := sc in
  if cont then
    match b with
    | O => Ok (s', false, O)
    | Datatypes.S b' => run_while b' body s'
    end
  else Ok (s', true, b).

(** ** [launch_stage.rs] *)
Inductive stage := AddTickets | Confirm | WinnerSelection | Claim.
Definition stage_idx (g : stage) : N :=
  match g with AddTickets => 0 | Confirm => 1 | WinnerSelection => 2 | Claim => 3 end.
Definition stage_eqb (a b : stage) : bool := stage_idx a =? stage_idx b.

Definition get_launch_stage (e : env) (s : state) : stage :=
  if round e <? conf_start s then AddTickets
  else if round e <? ws_start s then Confirm
  else if negb (fl_selected s && fl_additional s) then WinnerSelection
  else if round e <? claim_start s then WinnerSelection
  else Claim.

Definition require_stage (e : env) (s : state) (g : stage) : res unit :=
  require (stage_eqb (get_launch_stage e s) g).
Definition require_before_winner_selection (e : env) (s : state) : res unit :=
  require (stage_idx (get_launch_stage e s) <? 2).

(** ** permissions *)
Definition only_owner (e : env) : res unit := require (caller e =? owner_addr).
Definition require_extended_permissions (e : env) (s : state) : res unit :=
  require ((caller e =? owner_addr) || (caller e =? support s)).
Definition check_caller_owner_or_user (e : env) : res unit :=
  require ((caller e =? owner_addr) || negb (is_sc (caller e))).

(** ** call value helpers ([multiversx-sc 0.54.2] [CallValueWrapper]) *)
Definition esdt_transfers (p : list (N * N * N)) : list (N * N * N) :=
  filter (fun x => negb (fst (fst x) =? egld)) p.
Definition egld_value (p : list (N * N * N)) : N :=
  match p with
  | [(t, _, a)] => if t =? egld then a else 0
  | _ => 0
  end.
Definition egld_or_single_esdt (p : list (N * N * N)) : res (N * N * N) :=
  match esdt_transfers p with
  | [] => Ok (egld, 0, egld_value p)
  | [x] => Ok x
  | _ => Err FUser
  end.
Definition egld_or_single_fungible_esdt (p : list (N * N * N)) : res (N * N) :=
  do x <- egld_or_single_esdt p;
  let '(t, n, a) := x in
  do_ require (n =? 0);
  Ok (t, a).
Definition single_fungible_esdt (p : list (N * N * N)) : res (N * N) :=
  match esdt_transfers p with
  | [(t, n, a)] => do_ require (n =? 0); Ok (t, a)
  | _ => Err FUser
  end.
Definition no_payment (p : list (N * N * N)) : res unit :=
  require (match p with [] => true | _ => false end).

(** ** [setup.rs] *)
Definition try_set_ticket_price (s : state) (tok amt : N) : res state :=
  do_ require (token_valid tok);
  do_ require (0 <? amt);
  Ok (s <| pay_token := tok |> <| price := amt |>).
Definition try_set_tpt (s : state) (amt : N) : res state :=
  do_ require (0 <? amt);
  Ok (s <| tpt := amt |>).
Definition try_set_nr_winning (s : state) (n : N) : res state :=
  do_ require (0 <? n);
  Ok (s <| nr_winning := n |>).
Definition require_valid_time_periods (s : state) : res unit :=
  do_ require (conf_start s <? ws_start s);
  require (ws_start s <=? claim_start s).
Definition require_valid_config_timeline_change (e : env) (old new : N) : res unit :=
  do_ require (round e <? old);
  require (round e <? new).

Definition event_hdr (e : env) : list N := [caller e; round e; epoch e; caller e; round e; epoch e].

Definition deposit_launchpad_tokens (e : env) (w : world) (total_winning : N) : res world :=
  let s := st w in
  do_ require (negb (deposited s));
  do ta <- single_fungible_esdt (pay e);
  let (tok, amt) := ta in
  do_ require (tok =? lp_token s);
  do_ require (amt =? tpt s * total_winning);
  Ok (set_st w (s <| deposited := true |> <| total_deposited := amt |>)).

Definition set_ticket_price (e : env) (w : world) (tok amt : N) : res world :=
  do_ only_owner e;
  do_ require_stage e (st w) AddTickets;
  do_ (if negb (tok =? egld) then require (negb (lp_token (st w) =? tok)) else Ok tt);
  do s' <- try_set_ticket_price (st w) tok amt;
  Ok (emit (set_st w s') EvSetPrice (event_hdr e ++ [tok; 0; amt])).

Definition set_launchpad_tokens_per_winning_ticket (e : env) (w : world) (amt : N) : res world :=
  do_ only_owner e;
  do_ require_stage e (st w) AddTickets;
  do_ require (negb (deposited (st w)));
  do s' <- try_set_tpt (st w) amt;
  Ok (set_st w s').

Definition set_confirmation_period_start_round (e : env) (w : world) (r : N) : res world :=
  do_ only_owner e;
  do_ u64_arg r;
  do_ require_valid_config_timeline_change e (conf_start (st w)) r;
  let s' := st w <| conf_start := r |> in
  do_ require_valid_time_periods s';
  Ok (set_st w s').
Definition set_winner_selection_start_round (e : env) (w : world) (r : N) : res world :=
  do_ only_owner e;
  do_ u64_arg r;
  do_ require_valid_config_timeline_change e (ws_start (st w)) r;
  let s' := st w <| ws_start := r |> in
  do_ require_valid_time_periods s';
  Ok (set_st w s').
Definition set_claim_start_round (e : env) (w : world) (r : N) : res world :=
  do_ only_owner e;
  do_ u64_arg r;
  do_ require_valid_config_timeline_change e (claim_start (st w)) r;
  let s' := st w <| claim_start := r |> in
  do_ require_valid_time_periods s';
  Ok (set_st w s').

Definition set_support_address (e : env) (w : world) (a : N) : res world :=
  do_ only_owner e;
  Ok (set_st w (st w <| support := a |>)).
Definition pause_endpoint (e : env) (w : world) : res world :=
  do_ only_owner e;
  Ok (emit (set_st w (st w <| paused := true |>)) EvPause []).
Definition unpause_endpoint (e : env) (w : world) : res world :=
  do_ only_owner e;
  Ok (emit (set_st w (st w <| paused := false |>)) EvUnpause []).

(** [lib.rs] [init_base] (the caller is the deployer = owner) *)
Definition init_base (e : env) (lp tpt0 ptok price0 nrw conf ws claim : N) (additional0 : bool) : res state :=
  do_ usize_arg nrw;
  do_ u64_arg conf; do_ u64_arg ws; do_ u64_arg claim;
  do_ require (token_valid lp || true);
  do_ (if negb (ptok =? egld) then require (negb (lp =? ptok)) else Ok tt);
  let s0 := state0 <| lp_token := lp |> in
  do s1 <- try_set_tpt s0 tpt0;
  do s2 <- try_set_ticket_price s1 ptok price0;
  do s3 <- try_set_nr_winning s2 nrw;
  let s4 := s3 <| conf_start := conf |> <| ws_start := ws |> <| claim_start := claim |> in
  do_ require_valid_time_periods s4;
  Ok (s4 <| fl_additional := additional0 |> <| support := caller e |>).

(** ** [tickets.rs] *)
Definition get_ticket_id_from_pos (s : state) (p : N) : N :=
  if pos2id s p =? 0 then p else pos2id s p.

Definition try_create_tickets (s : state) (buyer n : N) : res state :=
  do_ require (0 <? n);
  do_ require (match range s buyer with None => true | Some _ => false end);
  let first := last_ticket_id s + 1 in
  do m <- usub (u64_lim - 1) n;
  do_ require (first <? m);
  do last <- usub (first + n) 1;
  Ok (s <| range := upd (range s) buyer (Some (first, last)) |>
        <| batch := upd (batch s) first (Some (buyer, n)) |>
        <| last_ticket_id := last |>).

Fixpoint add_tickets_loop (s : state) (l : list (N * N)) : res state :=
  match l with
  | [] => Ok s
  | (buyer, n) :: r =>
      do_ usize_arg n;
      do s' <- try_create_tickets s buyer n;
      add_tickets_loop s' r
  end.
Definition add_tickets (e : env) (w : world) (l : list (N * N)) : res world :=
  do_ require_stage e (st w) AddTickets;
  do s' <- add_tickets_loop (st w) l;
  Ok (set_st w s').

Definition get_total_number_of_tickets_for_address (s : state) (a : N) : res N :=
  match range s a with
  | None => Ok 0
  | Some (f, l) => do d <- usub l f; Ok (d + 1)
  end.

(** ids [first .. last] (empty if [last < first]) *)
Definition range_ids (first last : N) : list N :=
  map (fun i => first + N.of_nat i) (seq 0 (N.to_nat (last + 1 - first))).

Definition count_winning (s : state) (ids : list N) : N :=
  N.of_nat (length (filter (status s) ids)).

(** ** [token_send.rs] *)
Definition refund_ticket_payment (e : env) (w : world) (a n : N) : res world :=
  if n =? 0 then Ok w
  else
    let amt := price (st w) * n in
    do w1 <- transfer w sc_addr a (pay_token (st w)) 0 amt;
    Ok (emit w1 EvRefund (event_hdr e ++ [n; pay_token (st w); 0; amt])).

Definition default_send (e : env) (w : world) (a amt : N) : res world :=
  transfer w sc_addr a (lp_token (st w)) 0 amt.

Definition send_launchpad_tokens (send_fn : env -> world -> N -> N -> res world)
           (e : env) (w : world) (a n : N) : res world :=
  if n =? 0 then Ok w else send_fn e w a (n * tpt (st w)).

(** ** [random.rs] *)
Section WithHash.
Variable H : list N -> list N.

Definition word_at (seed : list N) (i : N) : N :=
  let l := skipn (N.to_nat i) seed in
  ((nth 0 l 0 * 256 + nth 1 l 0) * 256 + nth 2 l 0) * 256 + nth 3 l 0.

Definition rng_default (w : world) : rng * world :=
  match seeds w with
  | sd :: rest => ({| r_seed := sd; r_index := 0 |}, w <| seeds := rest |> <| rlog := RFresh :: rlog w |>)
  | [] => ({| r_seed := repeat 0 32%nat; r_index := 0 |}, w <| rlog := RFresh :: rlog w |>)
  end.

Definition next_usize (w : world) (r : rng) : N * rng * world :=
  let r1 := if 32 <? r_index r + 4 then {| r_seed := H (r_seed r); r_index := 0 |} else r in
  let word := word_at (r_seed r1) (r_index r1) in
  (word, {| r_seed := r_seed r1; r_index := r_index r1 + 4 |},
   w <| rlog := RDraw (r_seed r1) (r_index r1) word :: rlog w |>).

(** range is [min, max) *)
Definition next_usize_in_range (w : world) (r : rng) (min max : N) : N * rng * world :=
  let '(x, r', w') := next_usize w r in
  ((if max <=? min then min else min + x mod (max - min)), r', w').

(** ** [winner_selection.rs]: [filterTickets] *)
Definition filter_body (last : N) (x : state * N * N) : res (state * N * N * bool) :=
  let '(s, first, removed) := x in
  if first =? last + 1 then Ok (s, first, removed, false)
  else
    match batch s first with
    | None => Err FUser
    | Some (a, n) =>
        let c := confirmed s a in
        do s' <-
          (if c =? 0 then
             Ok (s <| range := upd (range s) a None |> <| batch := upd (batch s) first None |>)
           else if (0 <? removed) || (c <? n) then
             do nf <- usub first removed;
             do nl <- usub (nf + c) 1;
             let s1 := s <| batch := upd (batch s) first None |> in
             let s2 := s1 <| range := upd (range s1) a (Some (nf, nl)) |> in
             Ok (s2 <| batch := upd (batch s2) nf (Some (a, c)) |>)
           else Ok s);
        do d <- usub n c;
        Ok (s', first + n, removed + d, true)
    end.

Definition load_filter_tickets_operation (s : state) : res (N * N) :=
  match op s with
  | OpNone => Ok (1, 0)
  | OpFilter f r => Ok (f, r)
  | _ => Err FUser
  end.

(** returns the new world, the returned completion status (0 completed / 1 interrupted) *)
Definition filter_tickets (e : env) (b : nat) (w : world) : res (world * N) :=
  let s := st w in
  do_ require (negb (paused s));
  do_ require_stage e s WinnerSelection;
  do_ require (negb (fl_filtered s));
  let last := last_ticket_id s in
  do fr <- load_filter_tickets_operation s;
  let (first0, removed0) := fr in
  let started := if first0 =? 1 then true else fl_started s in
  (* the saved operation is consumed here and the start flag set: nothing reads either before the
     endpoint writes them again (completion clears, interruption saves, failure reverts) *)
  let s0 := s <| op := OpNone |> <| fl_started := started |> in
  do lr <- run_while b (filter_body last) (s0, first0, removed0);
  let '(s1, first1, removed1, completed, _) := lr in
  if completed then
    do new_last <- usub last removed1;
    let nrw := if new_last <? nr_winning s1 then new_last else nr_winning s1 in
    let s2 := s1 <| nr_winning := nrw |> <| last_ticket_id := new_last |> <| fl_filtered := true |> in
    Ok (emit (set_st w s2) EvFilterDone (event_hdr e ++ [new_last]), 0)
  else
    Ok (set_st w (s1 <| op := OpFilter first1 removed1 |>), 1).

(** ** [selectWinners] *)
Definition shuffle_single_ticket (w : world) (r : rng) (cur last : N) : rng * world :=
  let '(rand_pos, r', w1) := next_usize_in_range w r cur (last + 1) in
  let s := st w1 in
  let win := get_ticket_id_from_pos s rand_pos in
  let s1 := s <| status := upd (status s) win true |> in
  let cur_id := get_ticket_id_from_pos s1 cur in
  (r', set_st w1 (s1 <| pos2id := upd (pos2id s1) rand_pos cur_id |>)).

Definition select_body (nrw last : N) (x : world * rng * N) : res (world * rng * N * bool) :=
  let '(w, r, pos) := x in
  if nrw =? 0 then Ok (w, r, pos, false)
  else
    let (r', w') := shuffle_single_ticket w r pos last in
    if pos =? nrw then Ok (w', r', pos, false)
    else Ok (w', r', pos + 1, true).

Definition load_select_winners_operation (w : world) : res (rng * N * world) :=
  match op (st w) with
  | OpNone => let (r, w') := rng_default w in Ok (r, 1, w')
  | OpSelect r p => Ok (r, p, w)
  | _ => Err FUser
  end.

Definition select_winners (e : env) (b : nat) (w : world) : res (world * N) :=
  let s := st w in
  do_ require (negb (paused s));
  do_ require_stage e s WinnerSelection;
  do_ check_caller_owner_or_user e;
  do_ require (fl_filtered s);
  do_ require (negb (fl_selected s));
  let nrw := nr_winning s in
  let last := last_ticket_id s in
  do l <- load_select_winners_operation w;
  let '(r0, pos0, wl) := l in
  let w0 := set_st wl (st wl <| op := OpNone |>) in
  do lr <- run_while b (select_body nrw last) (w0, r0, pos0);
  let '(w1, r1, pos1, completed, _) := lr in
  if completed then
    let s2 := st w1 <| fl_selected := true |> <| claimable_payment := price (st w1) * nrw |> in
    Ok (emit (set_st w1 s2) EvSelectDone (event_hdr e ++ [nrw]), 0)
  else
    Ok (set_st w1 (st w1 <| op := OpSelect r1 pos1 |>), 1).

End WithHash.

(** ** [user_interactions.rs] *)
Definition confirm_tickets (e : env) (w : world) (n : N) : res world :=
  let s := st w in
  do_ usize_arg n;
  do_ require (negb (paused s));
  do ta <- egld_or_single_fungible_esdt (pay e);
  let (ptok, pamt) := ta in
  do_ require_stage e s Confirm;
  do_ require (deposited s);
  do_ require (negb (blacklisted s (caller e)));
  do total <- get_total_number_of_tickets_for_address s (caller e);
  let tc := confirmed s (caller e) + n in
  do_ require (tc <=? total);
  do_ require (ptok =? pay_token s);
  do_ require (pamt =? price s * n);
  let s' := s <| confirmed := upd (confirmed s) (caller e) tc |> in
  Ok (emit (set_st w s') EvConfirm (event_hdr e ++ [n; tc; total; ptok; 0; pamt])).

(** the settlement part shared by all claim endpoints: returns the world and
    (redeemable = winning tickets, refunded tickets) *)
Definition settle_tickets (e : env) (w : world) : res (world * N) :=
  let s := st w in
  let a := caller e in
  do fl <- match range s a with Some x => Ok x | None => Err FUser end;
  let (first, last) := fl in
  let c := confirmed s a in
  let ids := range_ids first last in
  let wins := count_winning s ids in
  let s1 := s <| status := fun t => if mem t ids then false else status s t |>
             <| pos2id := fun t => if mem t ids then 0 else pos2id s t |> in
  let s2 := s1 <| confirmed := upd (confirmed s1) a 0 |>
              <| range := upd (range s1) a None |>
              <| batch := upd (batch s1) first None |> in
  do s3 <- (if 0 <? wins then do x <- usub (nr_winning s2) wins; Ok (s2 <| nr_winning := x |>) else Ok s2);
  let s4 := s3 <| claimed := upd (claimed s3) a true |> in
  do to_refund <- usub c wins;
  do w1 <- refund_ticket_payment e (set_st w s4) a to_refund;
  Ok (w1, wins).

Definition claim_launchpad_tokens (send_fn : env -> world -> N -> N -> res world)
           (e : env) (w : world) : res world :=
  do_ require_stage e (st w) Claim;
  do_ require (negb (claimed (st w) (caller e)));
  do_ require (negb (blacklisted (st w) (caller e)));
  do x <- settle_tickets e w;
  let (w1, wins) := x in
  send_launchpad_tokens send_fn e w1 (caller e) wins.

(** [tickets.rs] [claim_ticket_payment]: surplus computed from the live balance *)
Definition claim_ticket_payment (e : env) (w : world) : res world :=
  do_ require_stage e (st w) Claim;
  let s := st w in
  do w1 <- (if 0 <? claimable_payment s then
              transfer (set_st w (s <| claimable_payment := 0 |>)) sc_addr (caller e) (pay_token s) 0 (claimable_payment s)
            else Ok w);
  let s1 := st w1 in
  let balance := bal w1 sc_addr (lp_token s1) 0 in
  let needed := tpt s1 * nr_winning s1 in
  do extra <- bsub balance needed;
  if 0 <? extra then transfer w1 sc_addr (caller e) (lp_token s1) 0 extra else Ok w1.

(** ** [blacklist.rs] *)
Fixpoint blacklist_loop (e : env) (w : world) (l : list N) : res world :=
  match l with
  | [] => Ok w
  | a :: r =>
      let s := st w in
      do_ require (negb (blacklisted s a));
      do_ require (match range s a with Some _ => true | None => false end);
      let c := confirmed s a in
      do w1 <- (if 0 <? c then
                  do w' <- refund_ticket_payment e w a c;
                  Ok (set_st w' (st w' <| confirmed := upd (confirmed (st w')) a 0 |>))
                else Ok w);
      blacklist_loop e (set_st w1 (st w1 <| blacklisted := upd (blacklisted (st w1)) a true |>)) r
  end.
Definition add_users_to_blacklist (e : env) (w : world) (l : list N) : res world :=
  do_ require_extended_permissions e (st w);
  do_ require_before_winner_selection e (st w);
  blacklist_loop e w l.

Fixpoint unblacklist_loop (s : state) (l : list N) : res state :=
  match l with
  | [] => Ok s
  | a :: r =>
      do_ require (blacklisted s a);
      unblacklist_loop (s <| blacklisted := upd (blacklisted s) a false |>) r
  end.
Definition remove_users_from_blacklist (e : env) (w : world) (l : list N) : res world :=
  do_ require_extended_permissions e (st w);
  do_ require_before_winner_selection e (st w);
  do s' <- unblacklist_loop (st w) l;
  Ok (set_st w s').

(** ** views *)
Definition get_winning_ticket_ids_for_address (s : state) (a : N) : list N :=
  if negb (fl_selected s) then []
  else match range s a with
       | None => []
       | Some (f, l) => filter (status s) (range_ids f l)
       end.
