(** * Variant-specific modules: vesting (gt1, gt2), token locking (lock, lgt), NFT draw (nft, ngt). *)
From LP Require Export Model.Gt.
Open Scope N_scope.

Definition MAX_PERCENTAGE : N := 10000.
Definition MAX_UNLOCK_MILESTONES_ENTRIES : N := 60.
Definition MAX_RELEASE_ROUND_DIFF : N := 26280000.

(** ** vesting v1 ([launchpad-guaranteed-tickets/src/token_release.rs]) *)
Definition set_unlock_schedule_v1 (e : env) (w : world) (start initial times pct period : N) : res world :=
  let s := st w in
  do_ only_owner e;
  do_ u64_arg start; do_ u64_arg initial; do_ u64_arg times; do_ u64_arg pct; do_ u64_arg period;
  do_ require ((round e <? conf_start s) || (match sched1 s with None => true | Some _ => false end));
  do_ require (round e <=? start);
  do_ require ((0 <? period) || (initial =? MAX_PERCENTAGE));
  do_ require (times * pct <? u64_lim);
  do_ require (initial + times * pct <? u64_lim);
  do_ require (initial + times * pct =? MAX_PERCENTAGE);
  Ok (set_st w (s <| sched1 := Some (start, initial, times, pct, period) |>)).

Definition pct_v1 (sch : N * N * N * N * N) (r : N) : N :=
  let '(start, initial, times, pct, period) := sch in
  let periods := N.min ((r - start) / period) times in
  initial + pct * periods.

Definition compute_claimable_v1 (e : env) (s : state) (a : N) : res N :=
  let total := total_claimable s a in
  if total =? 0 then Ok 0
  else
    let cl := claimed_balance s a in
    do_ require (cl <? total);
    match sched1 s with
    | None => Ok 0
    | Some (start, initial, times, pct, period) =>
        if round e <? start then Ok 0
        else if initial =? MAX_PERCENTAGE then Ok total
        else
          do_ assert_nopanic (0 <? period);
          let cur := total * pct_v1 (start, initial, times, pct, period) (round e) / MAX_PERCENTAGE in
          bsub cur cl
    end.

(** ** vesting v2 *)
Fixpoint validate_v2 (cur last total : N) (l : list (N * N)) : bool * N :=
  match l with
  | [] => (true, total)
  | (r, p) :: rest =>
      if (MAX_PERCENTAGE <? p) || (r <? cur) || (r <? last) || (cur + MAX_RELEASE_ROUND_DIFF <? r)
      then (false, total)
      else validate_v2 cur r (total + p) rest
  end.
Definition schedule_valid_v2 (cur : N) (l : list (N * N)) : bool :=
  match l with
  | [] => false
  | _ => let (ok, total) := validate_v2 cur 0 0 l in ok && (total =? MAX_PERCENTAGE)
  end.

Definition set_unlock_schedule_v2 (e : env) (w : world) (l : list (N * N)) : res world :=
  let s := st w in
  do_ only_owner e;
  do_ all_ok (fun x => do_ u64_arg (fst x); u64_arg (snd x)) l;
  do_ require_stage e s AddTickets;
  do_ require (N.of_nat (length l) <=? MAX_UNLOCK_MILESTONES_ENTRIES);
  do_ require (schedule_valid_v2 (round e) l);
  Ok (emit (set_st w (s <| sched2 := Some l |>)) EvSetSchedule
           (event_hdr e ++ N.of_nat (length l) :: flat_map (fun x => [fst x; snd x]) l)).

(** percentage released at round [r]: milestones are scanned in order until the first one in the future *)
Fixpoint pct_v2 (l : list (N * N)) (r : N) : N :=
  match l with
  | [] => 0
  | (rr, p) :: rest => if rr <=? r then p + pct_v2 rest r else 0
  end.
Definition schedule_v2 (s : state) : list (N * N) :=
  match sched2 s with Some l => l | None => [(0, MAX_PERCENTAGE)] end.

Definition compute_claimable_v2 (e : env) (s : state) (a : N) : res N :=
  let total := total_claimable s a in
  if total =? 0 then Ok 0
  else
    let cl := claimed_balance s a in
    do_ require (cl <? total);
    let cur := total * pct_v2 (schedule_v2 s) (round e) / MAX_PERCENTAGE in
    bsub cur cl.

(** ** claims of gt1 / gt2 *)
Definition compute_launchpad_results (e : env) (w : world) : res world :=
  do_ require_stage e (st w) Claim;
  do x <- settle_tickets e w;
  let (w1, wins) := x in
  if 0 <? wins then
    let s := st w1 in
    Ok (set_st w1 (s <| total_claimable := upd (total_claimable s) (caller e) (wins * tpt s) |>))
  else Ok w1.

Definition claim_vested (v2 : bool) (e : env) (w : world) : res world :=
  do_ (if v2 then require (negb (paused (st w))) else Ok tt);
  do w1 <- (if claimed (st w) (caller e) then Ok w else compute_launchpad_results e w);
  do amt <- (if v2 then compute_claimable_v2 e (st w1) (caller e) else compute_claimable_v1 e (st w1) (caller e));
  if 0 <? amt then
    do w2 <- transfer w1 sc_addr (caller e) (lp_token (st w1)) 0 amt;
    let s := st w2 in
    let w3 := set_st w2 (s <| claimed_balance := upd (claimed_balance s) (caller e) (claimed_balance s (caller e) + amt) |>) in
    Ok (if v2 then emit w3 EvClaimTokens (event_hdr e ++ [lp_token s; 0; amt]) else w3)
  else Ok w1.

(** [claimTicketPayment] of gt1 / gt2: surplus = deposited - won *)
Definition claim_ticket_payment_gt (e : env) (w : world) : res world :=
  do_ require_stage e (st w) Claim;
  let s := st w in
  let cp := claimable_payment s in
  do w1 <- (if 0 <? cp then
              transfer (set_st w (s <| claimable_payment := 0 |>)) sc_addr (caller e) (pay_token s) 0 cp
            else Ok w);
  let s1 := st w1 in
  let dep := total_deposited s1 in
  let w2 := set_st w1 (s1 <| total_deposited := 0 |>) in
  if dep =? 0 then Ok w2
  else
    let won := (cp / price s1) * tpt s1 in
    if dep <=? won then Ok w2
    else transfer w2 sc_addr (caller e) (lp_token s1) 0 (dep - won).

(** ** lock ([locked_launchpad_token_send.rs]) *)
Definition lock_init (e : env) (s : state) (pct unlock lock_addr : N) : res state :=
  do_ u32_arg pct; do_ u64_arg unlock;
  do_ require ((0 <? pct) && (pct <=? MAX_PERCENTAGE));
  do_ require (epoch e <? unlock);
  do_ require (negb (lock_addr =? 32) && is_sc lock_addr);
  Ok (s <| lock_pct := pct |> <| unlock_epoch := unlock |> <| lock_sc := lock_addr |>).

Definition lock_amount (s : state) (e : env) (amt : N) : N :=
  if epoch e <? unlock_epoch s then amt * lock_pct s / MAX_PERCENTAGE else 0.

Definition send_locked_launchpad_tokens (e : env) (w : world) (dest amt : N) : res world :=
  let s := st w in
  let la := lock_amount s e amt in
  do w1 <- (if 0 <? la then
              do w' <- transfer w sc_addr (lock_sc s) (lp_token s) 0 la;
              Ok (w' <| locks := {| lk_epoch := unlock_epoch s; lk_dest := dest; lk_tok := lp_token s;
                                    lk_nonce := 0; lk_amt := la |} :: locks w' |>)
            else Ok w);
  let unlocked := amt - la in
  if 0 <? unlocked then transfer w1 sc_addr dest (lp_token s) 0 unlocked else Ok w1.

(** ** NFT ([launchpad-with-nft]) *)
Definition sft_token : N := 5.

Definition try_set_nft_cost (s : state) (tok nonce amt : N) : res state :=
  do_ u64_arg nonce;
  do_ (if tok =? egld then require (nonce =? 0) else require (token_valid tok));
  do_ require (0 <? amt);
  do_ (if negb (tok =? egld) then require (negb (lp_token s =? tok)) else Ok tt);
  Ok (s <| nft_tok := tok |> <| nft_nonce := nonce |> <| nft_amt := amt |>).

Definition set_nft_cost (e : env) (w : world) (tok nonce amt : N) : res world :=
  do_ only_owner e;
  do_ require_stage e (st w) AddTickets;
  do s' <- try_set_nft_cost (st w) tok nonce amt;
  Ok (set_st w s').

Definition confirm_nft (e : env) (w : world) : res world :=
  let s := st w in
  do_ require_stage e s Confirm;
  do_ require (sft_ready s);
  do_ require (0 <? confirmed s (caller e));
  do_ require (negb (mem (caller e) (nft_payers s)));
  do p <- egld_or_single_esdt (pay e);
  let '(t, n, a) := p in
  do_ require ((t =? nft_tok s) && (n =? nft_nonce s) && (a =? nft_amt s));
  Ok (set_st w (s <| nft_payers := nft_payers s ++ [caller e] |>)).

Fixpoint refund_nft_loop (w : world) (l : list N) : res world :=
  match l with
  | [] => Ok w
  | u :: r =>
      let s := st w in
      if mem u (nft_payers s) then
        do w1 <- transfer (set_st w (s <| nft_payers := swap_remove u (nft_payers s) |>))
                          sc_addr u (nft_tok s) (nft_nonce s) (nft_amt s);
        refund_nft_loop w1 r
      else refund_nft_loop w r
  end.

Definition claim_nft_payment (e : env) (w : world) : res world :=
  do_ require_stage e (st w) Claim;
  let s := st w in
  if 0 <? claimable_nft s then
    do w1 <- transfer w sc_addr (caller e) (nft_tok s) (nft_nonce s) (claimable_nft s);
    Ok (set_st w1 (st w1 <| claimable_nft := 0 |>))
  else Ok w.

Definition claim_nft (e : env) (w : world) : res world :=
  let s := st w in
  let a := caller e in
  let '(s1, kind) :=
    if mem a (nft_winners s) then (s <| nft_winners := swap_remove a (nft_winners s) |>, 1)
    else if mem a (nft_payers s) then (s <| nft_payers := swap_remove a (nft_payers s) |>, 2)
    else (s, 3) in
  do_ require (sft_ready s);
  let w1 := set_st w s1 in
  let w2 := w1 <| bal := upd_bal (bal w1) a sft_token kind (bal w1 a sft_token kind + 1) |> in
  if kind =? 2 then transfer w2 sc_addr a (nft_tok s) (nft_nonce s) (nft_amt s) else Ok w2.

Section WithHash.
Variable H : list N -> list N.

Definition nft_body (total : N) (x : world * rng * N * N) : res (world * rng * N * N * bool) :=
  let '(w, r, users_left, selected) := x in
  if (users_left =? 0) || (selected =? total) then Ok (w, r, users_left, selected, false)
  else
    let '(idx, r', w1) := next_usize_in_range H w r 1 (users_left + 1) in
    let s := st w1 in
    match nth_error (nft_payers s) (N.to_nat (idx - 1)) with
    | None => Err FUser
    | Some u =>
        let s1 := s <| nft_payers := swap_remove u (nft_payers s) |> in
        Ok (set_st w1 (s1 <| nft_winners := set_insert u (nft_winners s1) |>), r', users_left - 1, selected + 1, true)
    end.

Definition select_nft_winners (b : nat) (w : world) (r : rng) : res (world * rng * bool * nat) :=
  let s := st w in
  do x <- run_while b (nft_body (total_nfts s))
                    (w, r, N.of_nat (length (nft_payers s)), N.of_nat (length (nft_winners s)));
  let '(w1, r1, _, _, completed, b1) := x in
  Ok (w1, r1, completed, b1).

Definition set_claimable_nft (w : world) : world :=
  let s := st w in
  set_st w (s <| claimable_nft := nft_amt s * N.of_nat (length (nft_winners s)) |>).

(** [selectNftWinners] (nft) *)
Definition select_nft_winners_endpoint (e : env) (b : nat) (w : world) : res (world * N) :=
  let s := st w in
  do_ require_stage e s WinnerSelection;
  do_ require (fl_selected s);
  do_ require (negb (fl_additional s));
  do l <- match op s with
          | OpNone => Ok (rng_default w)
          | OpExtra (XRng r) => Ok (r, w)
          | _ => Err FUser
          end;
  let (r0, wl) := l in
  let w0 := set_st wl (st wl <| op := OpNone |>) in
  do x <- select_nft_winners b w0 r0;
  let '(w1, r1, completed, _) := x in
  if completed then
    Ok (set_claimable_nft (set_st w1 (st w1 <| fl_additional := true |>)), 0)
  else Ok (set_st w1 (st w1 <| op := OpExtra (XRng r1) |>), 1).

(** [secondarySelectionStep] (ngt) *)
Definition secondary_selection_step (e : env) (b : nat) (w : world) : res (world * N) :=
  let s := st w in
  do_ require_stage e s WinnerSelection;
  do_ require (fl_selected s);
  do_ require (negb (fl_additional s));
  do l <- match op s with
          | OpNone => let (r, w') := rng_default w in Ok (XCombGt (gtop_default r), w')
          | OpExtra (XCombGt o) => Ok (XCombGt o, w)
          | OpExtra (XCombNft r) => Ok (XCombNft r, w)
          | _ => Err FUser
          end;
  let (cur, wl) := l in
  let w0 := set_st wl (st wl <| op := OpNone |>) in
  do ph1 <-
    match cur with
    | XCombGt o =>
        do r <- gt_distribution H false b w0 o;
        let '(w1, o1, completed, b1) := r in
        if completed then
          let w2 := finish_gt w1 o1 in
          let (rn, w3) := rng_default w2 in
          Ok (w3, Some rn, b1)
        else Ok (set_st w1 (st w1 <| op := OpExtra (XCombGt o1) |>), None, b1)
    | XCombNft r => Ok (w0, Some r, b)
    | _ => Err FUser
    end;
  let '(w1, orng, b1) := ph1 in
  match orng with
  | None => Ok (w1, 1)
  | Some r =>
      do x <- select_nft_winners b1 w1 r;
      let '(w2, r2, completed, _) := x in
      if completed then
        Ok (set_st (set_claimable_nft w2) (st (set_claimable_nft w2) <| fl_additional := true |>), 0)
      else Ok (set_st w2 (st w2 <| op := OpExtra (XCombNft r2) |>), 1)
  end.

End WithHash.
