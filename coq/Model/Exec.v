(** * The eight contracts: deployment, endpoint dispatch, views. *)
From LP Require Export Model.Extras Model.Sha256.
Open Scope N_scope.

Inductive variant := Base | Lock | Nft | Gt1 | Mig | Lgt | Ngt | Gt2.

Definition is_v1 (v : variant) : bool := match v with Gt1 | Mig | Lgt | Ngt => true | _ => false end.
Definition has_nft (v : variant) : bool := match v with Nft | Ngt => true | _ => false end.
Definition has_lock (v : variant) : bool := match v with Lock | Lgt => true | _ => false end.
Definition has_unblacklist (v : variant) : bool := match v with Gt1 | Mig | Gt2 => true | _ => false end.
Definition vested (v : variant) : bool := match v with Gt1 | Gt2 => true | _ => false end.
Definition has_extra (v : variant) : bool := match v with Base | Lock => false | _ => true end.

Inductive call :=
| CAddTickets (l : list (N * N))
| CAddTicketsV1 (l : list (N * N * N * bool))
| CAddTicketsV2 (l : list (N * N * list (N * N)))
| CDeposit
| CSetPrice (tok amt : N)
| CSetTpt (amt : N)
| CSetConf (r : N) | CSetWs (r : N) | CSetClaim (r : N)
| CSetSupport (a : N)
| CPause | CUnpause
| CBlacklist (l : list N) | CRefund (l : list N) | CUnblacklist (l : list N)
| CConfirm (n : N)
| CFilter | CSelect | CExtra
| CClaim | CClaimPayment
| CConfirmNft | CSetNftCost (tok nonce amt : N)
| CSetSchedule1 (start initial times pct period : N)
| CSetSchedule2 (l : list (N * N))
| CSftSetup.

(** deployment arguments after the eight common ones *)
Record deploy_extra := {
  d_min_conf : N; d_lock_pct : N; d_unlock_epoch : N; d_lock_addr : N;
  d_nft_tok : N; d_nft_nonce : N; d_nft_amt : N; d_total_nfts : N
}.

Definition deploy (v : variant) (e : env) (lp tpt0 ptok price0 nrw conf ws claim : N) (x : deploy_extra)
  : res state :=
  do_ only_owner e;
  do_ no_payment (pay e);
  do_ (if has_nft v then do_ usize_arg (d_total_nfts x); require (0 <? d_total_nfts x) else Ok tt);
  do s <- init_base e lp tpt0 ptok price0 nrw conf ws claim (negb (has_extra v));
  do s1 <- (if is_v1 v then
              do_ usize_arg (d_min_conf x);
              do_ require (0 <? d_min_conf x);
              Ok (s <| min_conf := d_min_conf x |>)
            else Ok s);
  do s2 <- (if has_lock v then lock_init e s1 (d_lock_pct x) (d_unlock_epoch x) (d_lock_addr x) else Ok s1);
  do s3 <- (if has_nft v then
              do s' <- try_set_nft_cost s2 (d_nft_tok x) (d_nft_nonce x) (d_nft_amt x);
              Ok (s' <| total_nfts := d_total_nfts x |>)
            else Ok s2);
  Ok s3.

Definition payable (c : call) : bool :=
  match c with CDeposit | CConfirm _ | CConfirmNft => true | _ => false end.

(** the VM moves the call value to the contract before the endpoint runs *)
Fixpoint credit_payment (w : world) (from : N) (p : list (N * N * N)) : res world :=
  match p with
  | [] => Ok w
  | (t, n, a) :: r => do w1 <- transfer w from sc_addr t n a; credit_payment w1 from r
  end.

Definition deposit_size (v : variant) (s : state) : N :=
  match v with
  | Base | Lock | Nft => nr_winning s
  | _ => nr_winning s + total_guaranteed s
  end.

Definition send_fn_of (v : variant) : env -> world -> N -> N -> res world :=
  if has_lock v then send_locked_launchpad_tokens else default_send.

Section WithHash.
Variable H : list N -> list N.

Definition ret0 (r : res world) : res (world * list N) := do w <- r; Ok (w, []).
Definition ret1 (r : res (world * N)) : res (world * list N) := do x <- r; Ok (fst x, [snd x]).

Definition blacklist_endpoint (v : variant) (with_event : bool) (e : env) (w : world) (l : list N) : res world :=
  do w1 <- add_users_to_blacklist e w l;
  do w2 <- (match v with
            | Gt1 | Mig | Lgt | Ngt => clear_gt_after_blacklist_v1 w1 l
            | Gt2 => clear_gt_after_blacklist_v2 w1 l
            | _ => Ok w1
            end);
  do w3 <- (if has_nft v then refund_nft_loop w2 l else Ok w2);
  Ok (match v with
      | Gt2 => if with_event then emit w3 EvBlacklist (event_hdr e ++ N.of_nat (length l) :: l) else w3
      | _ => w3
      end).

Definition unblacklist_endpoint (v : variant) (e : env) (w : world) (l : list N) : res world :=
  do w1 <- remove_users_from_blacklist e w l;
  match v with
  | Gt1 | Mig => unblacklist_gt_v1 w1 l
  | Gt2 => do w2 <- unblacklist_gt_v2 w1 l;
           Ok (emit w2 EvUnblacklist (event_hdr e ++ N.of_nat (length l) :: l))
  | _ => Err FOther
  end.

Definition dispatch (v : variant) (e : env) (b : nat) (w : world) (c : call) : res (world * list N) :=
  match c with
  | CAddTickets l =>
      match v with
      | Base | Lock | Nft => ret0 (do_ only_owner e; add_tickets e w l)
      | _ => Err FOther
      end
  | CAddTicketsV1 l => if is_v1 v then ret0 (do_ only_owner e; add_tickets_v1 e w l) else Err FOther
  | CAddTicketsV2 l => match v with Gt2 => ret0 (do_ only_owner e; add_tickets_v2 e w l) | _ => Err FOther end
  | CDeposit => ret0 (do_ only_owner e; deposit_launchpad_tokens e w (deposit_size v (st w)))
  | CSetPrice tok amt => ret0 (set_ticket_price e w tok amt)
  | CSetTpt amt => ret0 (set_launchpad_tokens_per_winning_ticket e w amt)
  | CSetConf r => ret0 (set_confirmation_period_start_round e w r)
  | CSetWs r => ret0 (set_winner_selection_start_round e w r)
  | CSetClaim r => ret0 (set_claim_start_round e w r)
  | CSetSupport a => ret0 (set_support_address e w a)
  | CPause => ret0 (pause_endpoint e w)
  | CUnpause => ret0 (unpause_endpoint e w)
  | CBlacklist l => ret0 (blacklist_endpoint v true e w l)
  | CRefund l => match v with Gt2 => ret0 (blacklist_endpoint v false e w l) | _ => Err FOther end
  | CUnblacklist l => if has_unblacklist v then ret0 (unblacklist_endpoint v e w l) else Err FOther
  | CConfirm n => ret0 (confirm_tickets e w n)
  | CFilter => ret1 (filter_tickets e b w)
  | CSelect => ret1 (select_winners H e b w)
  | CExtra =>
      match v with
      | Base | Lock => Err FOther
      | Gt1 | Mig | Lgt => ret1 (distribute_guaranteed_tickets H false e b w)
      | Gt2 => ret1 (distribute_guaranteed_tickets H true e b w)
      | Nft => ret1 (select_nft_winners_endpoint H e b w)
      | Ngt => ret1 (secondary_selection_step H e b w)
      end
  | CClaim =>
      match v with
      | Gt1 => ret0 (claim_vested false e w)
      | Gt2 => ret0 (claim_vested true e w)
      | Nft | Ngt => ret0 (do w1 <- claim_launchpad_tokens default_send e w; claim_nft e w1)
      | _ => ret0 (claim_launchpad_tokens (send_fn_of v) e w)
      end
  | CClaimPayment =>
      match v with
      | Gt1 | Gt2 => ret0 (do_ only_owner e; claim_ticket_payment_gt e w)
      | Nft | Ngt => ret0 (do_ only_owner e; do w1 <- claim_ticket_payment e w; claim_nft_payment e w1)
      | _ => ret0 (do_ only_owner e; claim_ticket_payment e w)
      end
  | CConfirmNft => if has_nft v then ret0 (confirm_nft e w) else Err FOther
  | CSetNftCost tok nonce amt => if has_nft v then ret0 (set_nft_cost e w tok nonce amt) else Err FOther
  | CSetSchedule1 a b0 c0 d e0 => match v with Gt1 => ret0 (set_unlock_schedule_v1 e w a b0 c0 d e0) | _ => Err FOther end
  | CSetSchedule2 l => match v with Gt2 => ret0 (set_unlock_schedule_v2 e w l) | _ => Err FOther end
  | CSftSetup =>
      (* harness-only: make the SFT collection ready (contract holds one unit of nonces 1,2,3) *)
      let b1 := upd_bal (bal w) sc_addr sft_token 1 1 in
      let b2 := upd_bal b1 sc_addr sft_token 2 1 in
      let b3 := upd_bal b2 sc_addr sft_token 3 1 in
      Ok (set_st w (st w <| sft_ready := true |>) <| bal := b3 |>, [])
  end.

(** One transaction.  [sd]: fresh seeds the VM would hand out during this call.
    Outputs of the previous call are dropped; on [Err] the caller keeps the old world. *)
Definition exec (v : variant) (e : env) (b : nat) (sd : list (list N)) (w : world) (c : call)
  : res (world * list N) :=
  let w0 := w <| evs := [] |> <| rlog := [] |> <| locks := [] |> <| seeds := sd |> in
  match c with
  | CSftSetup => dispatch v e b w0 c
  | _ =>
      do_ (if payable c then Ok tt else no_payment (pay e));
      do w1 <- credit_payment w0 (caller e) (pay e);
      dispatch v e b w1 c
  end.

End WithHash.

Definition exec_sha := exec sha256.

(** ** views (what the snapshots of the correspondence check contain).
    code, address (0 for global views), result ([None] = the query fails) *)
Definition b2n (b : bool) : N := if b then 1 else 0.
Definition ok_opt {A} (r : res A) : option A := match r with Ok a => Some a | Err _ => None end.

Definition global_views (v : variant) (s : state) : list (N * N * option (list N)) :=
  [ (1, 0, Some [conf_start s; ws_start s; claim_start s]);
    (2, 0, Some [b2n (fl_started s); b2n (fl_filtered s); b2n (fl_selected s); b2n (fl_additional s)]);
    (3, 0, Some [pay_token s; price s]);
    (4, 0, Some [tpt s]);
    (5, 0, Some [nr_winning s]);
    (6, 0, Some [total_deposited s]);
    (7, 0, Some [last_ticket_id s]);
    (8, 0, Some [support s]);
    (9, 0, Some [b2n (paused s)]) ]
  ++ (match v with
      | Gt1 => [(10, 0, match sched1 s with
                        | Some (a, b, c, d, e) => Some [a; b; c; d; e]
                        | None => Some [] end)]
      | Gt2 => [(10, 0, match sched2 s with
                        | Some l => Some (N.of_nat (length l) :: flat_map (fun x => [fst x; snd x]) l)
                        | None => Some [0] end)]
      | _ => [] end)
  ++ (if has_nft v then [(11, 0, Some [nft_tok s; nft_nonce s; nft_amt s])] else [])
  ++ (if has_lock v then [(12, 0, Some [lock_pct s]); (13, 0, Some [unlock_epoch s])] else []).

Definition addr_views (v : variant) (e : env) (s : state) (a : N) : list (N * N * option (list N)) :=
  [ (20, a, Some (match range s a with Some (f, l) => [f; l] | None => [] end));
    (21, a, option_map (fun x => [x]) (ok_opt (get_total_number_of_tickets_for_address s a)));
    (22, a, Some [confirmed s a]);
    (23, a, Some (get_winning_ticket_ids_for_address s a));
    (24, a, Some [b2n (blacklisted s a)]);
    (25, a, Some [b2n (claimed s a)]) ]
  ++ (match v with
      | Gt1 | Mig => [(26, a, match uts s a with
                              | Some u => Some [us_a u; us_b u; confirmed s a; us_sg u; us_mg u]
                              | None => None end)]
      | Gt2 => [(26, a, match uts s a with
                        | Some u => Some (us_a u :: N.of_nat (length (us_infos u))
                                               :: flat_map (fun x => [fst x; snd x]) (us_infos u))
                        | None => None end)]
      | _ => [] end)
  ++ (match v with
      | Gt1 => [(27, a, option_map (fun x => [x]) (ok_opt (compute_claimable_v1 e s a)));
                (28, a, Some [total_claimable s a]); (29, a, Some [claimed_balance s a])]
      | Gt2 => [(27, a, option_map (fun x => [x]) (ok_opt (compute_claimable_v2 e s a)));
                (28, a, Some [total_claimable s a]); (29, a, Some [claimed_balance s a])]
      | _ => [] end)
  ++ (if has_nft v then
        [(30, a, Some [b2n (mem a (nft_payers s) || mem a (nft_winners s))]);
         (31, a, Some [b2n (mem a (nft_winners s))])]
      else []).

Definition snapshot (v : variant) (e : env) (s : state) (addrs : list N) : list (N * N * option (list N)) :=
  global_views v s ++ flat_map (addr_views v e s) addrs.

(** initial world of the correspondence check: accounts 1..24 hold 10^40 of tokens 0..4 and
    10^6 of token 6 nonce 5 *)
Definition big_amount : N := 10000000000000000000000000000000000000000.
Definition init_bal (a t n : N) : N :=
  if (1 <=? a) && (a <=? 24) then
    if (t <=? 4) && (n =? 0) then big_amount
    else if (t =? 6) && (n =? 5) then 1000000 else 0
  else 0.
Definition world0 (s : state) : world :=
  {| st := s; bal := init_bal; evs := []; rlog := []; locks := []; seeds := [] |}.
