(** * C04 continued: distributeGuaranteedTickets (v1 family and v2) and selectNftWinners. *)
From LP Require Import Proofs.Tactics Proofs.Loop Proofs.Resume Proofs.Frames Proofs.Guaranteed.
Open Scope N_scope.

(** ** frames *)
Definition gt_frame (s s' : state) : Prop :=
  paused s' = paused s /\ conf_start s' = conf_start s /\ ws_start s' = ws_start s /\
  claim_start s' = claim_start s /\ fl_selected s' = fl_selected s /\ fl_additional s' = fl_additional s /\
  fl_filtered s' = fl_filtered s /\ last_ticket_id s' = last_ticket_id s /\ nr_winning s' = nr_winning s /\
  op s' = op s /\ price s' = price s /\ claimable_payment s' = claimable_payment s /\
  nft_payers s' = nft_payers s /\ nft_winners s' = nft_winners s /\ total_nfts s' = total_nfts s.

Lemma gt_frame_refl s : gt_frame s s.
Proof. unfold gt_frame. repeat split. Qed.
Lemma gt_frame_trans a b c : gt_frame a b -> gt_frame b c -> gt_frame a c.
Proof. unfold gt_frame. intuition congruence. Qed.

Lemma topup_v2_gt_frame : forall ids s rem added s' rem' added',
  topup_v2 ids s rem added = (s', rem', added') -> gt_frame s s' /\ gt_users s' = gt_users s.
Proof.
  induction ids as [|t ids IH]; intros s rem added s' rem' added' E; cbn in E.
  - inversion E; subst. split; [apply gt_frame_refl | reflexivity].
  - destruct (rem =? 0); [inversion E; subst; split; [apply gt_frame_refl | reflexivity]|].
    destruct (status s t); [eapply IH; eauto|].
    apply IH in E. destruct E as [Hf Hg]. split; [|exact Hg]. unfold gt_frame in *. cbn in *. exact Hf.
Qed.

Lemma gt_user_step_gt_frame (v2 : bool) s o u (s' : state) (o' : gtop) :
  (if v2 then gt_user_step_v2 s o u else gt_user_step_v1 s o u) = (s', o') ->
  gt_frame s s' /\ gt_users s' = gt_users s.
Proof.
  destruct v2.
  - unfold gt_user_step_v2. intros E. break_in E; inversion E; subst; try (split; [apply gt_frame_refl|reflexivity]).
    eapply topup_v2_gt_frame; eauto.
  - unfold gt_user_step_v1. intros E. break_in E; inversion E; subst; try (split; [apply gt_frame_refl|reflexivity]);
      eapply topup_v2_gt_frame; eauto.
Qed.

Lemma length_replace_first x y l : length (replace_first x y l) = length l.
Proof. induction l as [|a l IH]; cbn; [reflexivity|]. destruct (a =? x); cbn; congruence. Qed.

Lemma swap_remove_head_length u l : Datatypes.S (length (swap_remove u (u :: l))) = length (u :: l).
Proof.
  unfold swap_remove. replace (mem u (u :: l)) with true by (unfold mem; cbn; now rewrite N.eqb_refl).
  rewrite <- (rev_length (u :: l)). destruct (rev (u :: l)) as [|y r] eqn:E.
  - apply (f_equal (@rev N)) in E. rewrite rev_involutive in E. discriminate.
  - cbn [length]. destruct (y =? u); [now rewrite rev_length | now rewrite length_replace_first, rev_length].
Qed.

(** phase 1: the counter is the number of users still listed; on STOP it is zero *)
Lemma select_gt_body_inv v2 s o n s' o' n' c :
  n = N.of_nat (length (gt_users s)) ->
  select_gt_body v2 (s, o, n) = Ok (s', o', n', c) ->
  gt_frame s s' /\ n' = N.of_nat (length (gt_users s')) /\ (c = false -> n' = 0).
Proof.
  intros Hn. unfold select_gt_body. destruct (N.eqb_spec n 0) as [Hz|Hz].
  { intros E; inversion E; subst. split; [apply gt_frame_refl|]. split; auto. }
  destruct (gt_users s) as [|u l] eqn:Eg; [discriminate|].
  set (s1 := s <| gt_users := swap_remove u (u :: l) |>).
  destruct (if v2 then gt_user_step_v2 s1 o u else gt_user_step_v1 s1 o u) as [s2 o2] eqn:Es.
  intros E; inversion E; subst s' o' n' c. clear E.
  apply gt_user_step_gt_frame in Es. destruct Es as [Hf Hg].
  split; [|split; [|discriminate]].
  - eapply gt_frame_trans; [|exact Hf]. unfold gt_frame, s1. cbn. repeat split.
  - rewrite Hg. unfold s1. cbn [gt_users].
    pose proof (swap_remove_head_length u l) as Hl. cbn [length] in Hl. cbn [length] in Hn.
    change (gt_users (s <| gt_users := swap_remove u (u :: l) |>)) with (swap_remove u (u :: l)). lia.
Qed.

Lemma select_gt_loop_inv v2 : forall b s o n s' o' n' d b',
  n = N.of_nat (length (gt_users s)) ->
  run_while b (select_gt_body v2) (s, o, n) = Ok (s', o', n', d, b') ->
  gt_frame s s' /\ n' = N.of_nat (length (gt_users s')) /\ (d = true -> n' = 0).
Proof.
  induction b as [|b IH]; intros s o n s' o' n' d b' Hn E; rewrite run_while_eq in E;
    destruct (select_gt_body v2 (s, o, n)) as [[[[s1 o1] n1] c]|k] eqn:Eb; try discriminate;
    destruct (select_gt_body_inv _ _ _ _ _ _ _ _ Hn Eb) as (Hf & Hn1 & Hc); destruct c.
  - inversion E; subst. split; [assumption|]. split; [reflexivity|]. intros Hx; discriminate Hx.
  - inversion E; subst. split; [assumption|]. split; [reflexivity|]. intros _. apply Hc. reflexivity.
  - destruct (IH _ _ _ _ _ _ _ _ Hn1 E) as (Hf2 & Hn2 & Hd). split; [eapply gt_frame_trans; eauto|]. auto.
  - inversion E; subst. split; [assumption|]. split; [reflexivity|]. intros _. apply Hc. reflexivity.
Qed.

Section H.
Variable H : list N -> list N.

Lemma try_select_gt_frame v2 w r cur last tr r' w' :
  try_select_winning_ticket H v2 w r cur last = (tr, r', w') ->
  gt_frame (st w) (st w') /\ gt_users (st w') = gt_users (st w) /\ bal w' = bal w /\ evs w' = evs w /\ seeds w' = seeds w.
Proof.
  unfold try_select_winning_ticket, next_usize_in_range, next_usize. destruct w as [s ? ? ? ? ?]. cbn.
  intros E. break_in E; inversion E; subst; unfold gt_frame; cbn; repeat split.
Qed.

Lemma leftover_body_gt_frame v2 nrw last w o w' o' c :
  leftover_body H v2 nrw last (w, o) = Ok (w', o', c) ->
  gt_frame (st w) (st w') /\ gt_users (st w') = gt_users (st w) /\ bal w' = bal w /\ evs w' = evs w /\ seeds w' = seeds w.
Proof.
  unfold leftover_body. intros E.
  destruct (g_leftover _ =? 0); [inversion E; subst; repeat split; apply gt_frame_refl|].
  destruct (try_select_winning_ticket _ _ _ _ _ _) as [[tr r'] w1] eqn:Et.
  apply try_select_gt_frame in Et. destruct tr; inversion E; subst; assumption.
Qed.

Lemma leftover_loop_gt_frame v2 nrw last b w o w' o' d b' :
  run_while b (leftover_body H v2 nrw last) (w, o) = Ok (w', o', d, b') ->
  gt_frame (st w) (st w') /\ gt_users (st w') = gt_users (st w) /\ bal w' = bal w /\ evs w' = evs w /\ seeds w' = seeds w.
Proof.
  intros E.
  change (gt_frame (st w) (st (fst (w', o'))) /\ gt_users (st (fst (w', o'))) = gt_users (st w) /\
          bal (fst (w', o')) = bal w /\ evs (fst (w', o')) = evs w /\ seeds (fst (w', o')) = seeds w).
  eapply (run_invariant (leftover_body H v2 nrw last)
            (fun x => gt_frame (st w) (st (fst x)) /\ gt_users (st (fst x)) = gt_users (st w) /\
                      bal (fst x) = bal w /\ evs (fst x) = evs w /\ seeds (fst x) = seeds w)); [| |exact E].
  - intros [wa oa] [wb ob] c (Hf & Hg & Hb & He & Hs) Eb. cbn in *.
    apply leftover_body_gt_frame in Eb. destruct Eb as (Hf2 & Hg2 & Hb2 & He2 & Hs2).
    split; [eapply gt_frame_trans; eauto|]. repeat split; congruence.
  - cbn. split; [apply gt_frame_refl|]. repeat split.
Qed.

Lemma set_st_st w : set_st w (st w) = w.
Proof. destruct w; reflexivity. Qed.

(** the two-phase distribution: interrupted then resumed = one run with the total budget *)
Theorem gt_distribution_resume v2 b1 b2 w o w1 o1 bb :
  gt_distribution H v2 b1 w o = Ok (w1, o1, false, bb) ->
  gt_distribution H v2 b2 w1 o1 = gt_distribution H v2 (b1 + Datatypes.S b2) w o /\
  gt_frame (st w) (st w1) /\ bal w1 = bal w /\ evs w1 = evs w /\ seeds w1 = seeds w.
Proof.
  unfold gt_distribution. intros E.
  apply bind_ok in E. destruct E as ([[[[s1 oa] n1] d1] ba] & H1 & E).
  destruct (select_gt_loop_inv v2 _ _ _ _ _ _ _ _ _ eq_refl H1) as (Hf1 & Hn1 & Hd1).
  destruct d1; cbn [negb] in E.
  - (* phase 1 completed, phase 2 interrupted *)
    apply bind_ok in E. destruct E as ([[[w2 o2] d2] b2'] & H2 & E). inversion E; subst w1 o1 d2 bb; clear E.
    pose proof (run_interrupted_budget _ _ _ _ _ H2) as ->.
    destruct (leftover_loop_gt_frame v2 _ _ _ _ _ _ _ _ _ H2) as (Hf2 & Hg2 & Hb2 & He2 & Hs2).
    rewrite st_set_st in Hf2, Hg2. cbn in Hb2, He2, Hs2.
    specialize (Hd1 eq_refl).
    assert (Hg0 : gt_users (st w2) = []).
    { rewrite Hg2. destruct (gt_users s1); [reflexivity|]. cbn [length] in Hn1. lia. }
    split; [|split; [eapply gt_frame_trans; eauto|auto]].
    rewrite Hg0. cbn [length N.of_nat].
    rewrite (run_while_eq (select_gt_body v2) b2). unfold select_gt_body at 1. cbn [N.eqb].
    rewrite N.eqb_refl. cbn [bind negb].
    rewrite (run_completed_mono _ _ _ _ _ (Datatypes.S b2) H1). cbn [bind negb].
    rewrite (run_split _ _ _ _ _ H2).
    destruct Hf2 as (_ & _ & _ & _ & _ & _ & _ & Hl & Hnw & _). rewrite Hl, Hnw, set_st_st. reflexivity.
  - (* phase 1 interrupted *)
    inversion E; subst w1 o1 bb; clear E.
    pose proof (run_interrupted_budget _ _ _ _ _ H1) as ->.
    split; [|rewrite st_set_st; split; [assumption|auto]].
    rewrite st_set_st. rewrite <- Hn1. rewrite (run_split _ _ _ _ _ H1).
    destruct (run_while b2 (select_gt_body v2) (s1, oa, n1)) as [[[[[s2 o2] n2] d2] b2']|k]; [|reflexivity].
    cbn [bind]. rewrite set_st_set_st. reflexivity.
Qed.

Lemma reload_gt w o :
  op (st w) = OpNone ->
  set_st (set_st w (st w <| op := OpExtra (XGt o) |>)) (st w <| op := OpExtra (XGt o) |> <| op := OpNone |>) = w.
Proof. destruct w as [s ? ? ? ? ?]. destruct s; cbn; intros ->; reflexivity. Qed.

Theorem distribute_resume v2 e1 e2 b1 b2 w w1 :
  distribute_guaranteed_tickets H v2 e1 b1 w = Ok (w1, 1) ->
  distribute_guaranteed_tickets H v2 e2 b2 w1 = distribute_guaranteed_tickets H v2 e2 (b1 + Datatypes.S b2) w.
Proof.
  unfold distribute_guaranteed_tickets. intros E.
  apply bind_ok in E. destruct E as (u1 & _ & E).
  apply bind_ok in E. destruct E as (u2 & _ & E).
  apply bind_ok in E. destruct E as (u3 & _ & E).
  apply bind_ok in E. destruct E as (u4 & _ & E).
  apply bind_ok in E. destruct E as (u5 & _ & E).
  apply bind_ok in E. destruct E as ([o0 wl] & Hl & E).
  apply bind_ok in E. destruct E as ([[[wa oa] da] ba] & Hd & E).
  destruct da; [destruct v2; inversion E|]. inversion E; subst w1; clear E.
  destruct (gt_distribution_resume v2 b1 b2 _ _ _ _ _ Hd) as (Hres & Hfr & _).
  assert (Hwl : st wl = st w) by (eapply load_gt_op_st; eauto).
  rewrite st_set_st in Hfr.
  destruct Hfr as (Hpa & Hc1 & Hc2 & Hc3 & Hsel & Hadd & Hfil & Hlast & Hnw & Hopp & Hpr & Hcp).
  cbn in Hpa, Hc1, Hc2, Hc3, Hsel, Hadd, Hfil, Hlast, Hnw, Hopp, Hpr, Hcp.
  rewrite Hwl in Hpa, Hc1, Hc2, Hc3, Hsel, Hadd, Hfil, Hlast, Hnw, Hpr, Hcp.
  rewrite !st_set_st.
  assert (Hstage : get_launch_stage e2 (st wa <| op := OpExtra (XGt oa) |>) = get_launch_stage e2 (st w)).
  { unfold get_launch_stage. cbn. rewrite Hc1, Hc2, Hc3, Hsel, Hadd. reflexivity. }
  unfold require_stage. rewrite Hstage.
  change (paused (st wa <| op := OpExtra (XGt oa) |>)) with (paused (st wa)).
  change (fl_selected (st wa <| op := OpExtra (XGt oa) |>)) with (fl_selected (st wa)).
  change (fl_additional (st wa <| op := OpExtra (XGt oa) |>)) with (fl_additional (st wa)).
  rewrite Hpa, Hsel, Hadd.
  destruct (if v2 then require (negb (paused (st w))) else Ok tt) as [[]|]; [|reflexivity]. cbn [bind].
  destruct (require (stage_eqb (get_launch_stage e2 (st w)) WinnerSelection)) as [[]|]; [|reflexivity]. cbn [bind].
  destruct (if v2 then check_caller_owner_or_user e2 else Ok tt) as [[]|]; [|reflexivity]. cbn [bind].
  destruct (require (fl_selected (st w))) as [[]|]; [|reflexivity]. cbn [bind].
  destruct (require (negb (fl_additional (st w)))) as [[]|]; [|reflexivity]. cbn [bind].
  rewrite Hl. cbn [bind]. rewrite <- Hres.
  unfold load_gt_op. rewrite st_set_st.
  change (op (st wa <| op := OpExtra (XGt oa) |>)) with (OpExtra (XGt oa)). cbn [bind].
  rewrite st_set_st, (reload_gt wa oa Hopp). reflexivity.
Qed.

Theorem distribute_multi_resume v2 : forall l w wk e b,
  after_interrupted (distribute_guaranteed_tickets H v2) l w = Some wk ->
  distribute_guaranteed_tickets H v2 e b wk = distribute_guaranteed_tickets H v2 e (total_budget l b) w.
Proof.
  intros l w wk e b. apply (multi_resume (distribute_guaranteed_tickets H v2) (fun _ => True)); auto.
  intros e1 e2 b1 b2 w0 w1 _ E. split; auto. eapply distribute_resume; eauto.
Qed.
End H.
