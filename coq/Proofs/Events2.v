(** * C20, remaining events: the completion event of the distribution step (gt2) and the batch events of
    v2 blacklisting / un-blacklisting. *)
From LP Require Import Proofs.Tactics Proofs.LedgerBase Proofs.Loop Proofs.Frames Proofs.Guaranteed Proofs.Resume2 Proofs.Nft
  Proofs.Resume3 Proofs.Resume4 Proofs.Events.
Open Scope N_scope.

Section HEv.
Variable H : list N -> list N.

(** distributeGuaranteedTickets: gt2 emits one completion event carrying the number of additional
    winners (= the growth of the winners counter); the v1 family emits nothing; nothing when interrupted *)
Theorem distribute_events v2 e b w w' x :
  distribute_guaranteed_tickets H v2 e b w = Ok (w', x) ->
  (x = 1 /\ evs w' = evs w) \/
  (x = 0 /\ evs w' = (if v2 then [ev EvDistributeDone (event_hdr e ++ [nr_winning (st w') - nr_winning (st w)])] else []) ++ evs w).
Proof.
  unfold distribute_guaranteed_tickets. intros E.
  apply bind_ok in E. destruct E as (u1 & _ & E).
  apply bind_ok in E. destruct E as (u2 & _ & E).
  apply bind_ok in E. destruct E as (u3 & _ & E).
  apply bind_ok in E. destruct E as (u4 & _ & E).
  apply bind_ok in E. destruct E as (u5 & _ & E).
  apply bind_ok in E. destruct E as ([o0 wl] & Hl & E).
  apply bind_ok in E. destruct E as ([[[wa oa] da] ba] & Hd & E).
  assert (Hwl : st wl = st w /\ evs wl = evs w).
  { unfold load_gt_op in Hl. destruct (op (st w)) as [| | |d]; try discriminate.
    - unfold rng_default in Hl. destruct (seeds w); inversion Hl; subst; split; reflexivity.
    - destruct d; try discriminate. inversion Hl; subst. split; reflexivity. }
  destruct Hwl as [Hwl Hel].
  destruct (gt_distribution_frame H v2 _ _ _ _ _ _ _ Hd) as (Hfr & _ & Hev & _).
  rewrite st_set_st in Hfr. cbn in Hev.
  destruct Hfr as (_&_&_&_&_&_&_&_& Hnw & _). cbn in Hnw. rewrite Hwl in Hnw.
  destruct da.
  - right. inversion E; subst. split; [reflexivity|].
    destruct v2; unfold finish_gt, emit; cbn; rewrite Hev, Hel; [|reflexivity].
    cbn. rewrite Hnw. replace (nr_winning (st w) + g_additional oa - nr_winning (st w)) with (g_additional oa) by lia. reflexivity.
  - left. inversion E; subst. split; [reflexivity|]. rewrite evs_set_st. congruence.
Qed.
End HEv.

(** v2 blacklisting: the refund events of the common part, then one batch event with the list *)
Theorem blacklist_v2_event e w l w' (with_event : bool) :
  blacklist_endpoint Gt2 with_event e w l = Ok w' ->
  exists w1, add_users_to_blacklist e w l = Ok w1 /\
    evs w' = (if with_event then [ev EvBlacklist (event_hdr e ++ N.of_nat (length l) :: l)] else []) ++ evs w1.
Proof.
  unfold blacklist_endpoint. cbn [has_nft]. intros E.
  apply bind_ok in E. destruct E as (w1 & H1 & E).
  apply bind_ok in E. destruct E as (w2 & H2 & E). cbn [bind] in E. inversion E; subst w'; clear E.
  exists w1. split; [exact H1|].
  assert (He : evs w2 = evs w1).
  { unfold clear_gt_after_blacklist_v2 in H2. apply bind_ok in H2. destruct H2 as ([[s1 nw] tg] & _ & H2). inversion H2; subst. reflexivity. }
  destruct with_event; [unfold emit; cbn; rewrite He; reflexivity | cbn; exact He].
Qed.

Theorem unblacklist_v2_event e w l w' :
  unblacklist_endpoint Gt2 e w l = Ok w' ->
  exists w2, evs w' = ev EvUnblacklist (event_hdr e ++ N.of_nat (length l) :: l) :: evs w2 /\ evs w2 = evs w.
Proof.
  unfold unblacklist_endpoint. intros E.
  apply bind_ok in E. destruct E as (w1 & H1 & E).
  apply bind_ok in E. destruct E as (w2 & H2 & E). inversion E; subst w'; clear E.
  exists w2. split; [reflexivity|].
  assert (He1 : evs w1 = evs w).
  { unfold remove_users_from_blacklist in H1. mon_inv. reflexivity. }
  assert (He2 : evs w2 = evs w1).
  { unfold unblacklist_gt_v2 in H2. apply bind_ok in H2. destruct H2 as ([[s1 nw] tg] & _ & H2). inversion H2; subst. reflexivity. }
  congruence.
Qed.
