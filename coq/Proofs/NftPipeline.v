(** * C14 end to end: the fee ledger through the selection pipeline of the two NFT contracts, the
    third stage interrupted arbitrarily often, and from deployment. *)
From Coq Require Import Permutation.
From LP Require Import Proofs.Tactics Proofs.LedgerBase Proofs.Loop Proofs.Shuffle Proofs.Gates Proofs.Frames Proofs.Filter
  Proofs.Select Proofs.Resume Proofs.Resume2 Proofs.Resume3 Proofs.Resume4 Proofs.Guaranteed Proofs.GuaranteedLoop Proofs.Leftover
  Proofs.Nft Proofs.Ledger Proofs.ClaimLedger Proofs.Partition Proofs.Lifecycle Proofs.Setup Proofs.SetupGt Proofs.NftLedger
  Proofs.SetupNft Proofs.SetupNgt.
Open Scope N_scope.

Definition fside (s : state) := (nft_tok s, nft_nonce s, nft_amt s, nft_payers s, nft_winners s, claimable_nft s, total_nfts s).

Lemma FeeInv_frame w w' :
  FeeInv w -> fside (st w') = fside (st w) -> bal w' = bal w -> FeeInv w'.
Proof.
  intros [Hnd Hsft Hbal] Hf Hb. unfold fside in Hf. inversion Hf as [[E1 E2 E3 E4 E5 E6 E7]].
  constructor; unfold fee_held in *; rewrite ?E1, ?E2, ?E3, ?E4, ?E5, ?E6, ?Hb; assumption.
Qed.

Section HNftPipe.
Variable H : list N -> list N.

(** the completed third stage of launchpad-with-nft, started afresh *)
Theorem FeeInv_nft_endpoint e b w w' :
  op (st w) = OpNone -> FeeInv w -> nft_winners (st w) = [] -> claimable_nft (st w) = 0 ->
  select_nft_winners_endpoint H e b w = Ok (w', 0) ->
  FeeInv w' /\
  claimable_nft (st w') = nft_amt (st w) * N.min (total_nfts (st w)) (N.of_nat (length (nft_payers (st w)))).
Proof.
  intros Hop Hi Hw0 Hc0. unfold select_nft_winners_endpoint. intros E.
  apply bind_ok in E. destruct E as (u1 & _ & E).
  apply bind_ok in E. destruct E as (u2 & _ & E).
  apply bind_ok in E. destruct E as (u3 & _ & E).
  rewrite Hop in E. cbn [bind] in E. destruct (rng_default w) as [r0 wl] eqn:Er.
  assert (Hwl : st wl = st w /\ bal wl = bal w).
  { unfold rng_default in Er. destruct (seeds w); inversion Er; subst; split; reflexivity. }
  destruct Hwl as [Hwl Hbl].
  apply bind_ok in E. destruct E as ([[[wx rx] dx] bx] & Hs & E).
  destruct dx; [|discriminate E]. injection E as Hw'.
  set (w0 := set_st wl (st wl <| op := OpNone |>)) in *.
  assert (Hi0 : FeeInv w0) by (eapply FeeInv_frame; [exact Hi|unfold w0; rewrite st_set_st, Hwl; reflexivity|exact Hbl]).
  assert (Hw00 : nft_winners (st w0) = []) by (unfold w0; rewrite st_set_st, Hwl; exact Hw0).
  assert (Hc00 : claimable_nft (st w0) = 0) by (unfold w0; rewrite st_set_st, Hwl; exact Hc0).
  destruct (FeeInv_draw H _ _ _ _ _ _ Hi0 Hw00 Hc00 Hs) as [Hf Hcn].
  subst w'. split.
  - eapply FeeInv_frame; [exact Hf| |reflexivity].
    unfold set_claimable_nft. rewrite !st_set_st. reflexivity.
  - change (claimable_nft (st (set_claimable_nft wx)) = nft_amt (st w) * N.min (total_nfts (st w)) (N.of_nat (length (nft_payers (st w))))).
    rewrite Hcn. unfold w0. rewrite st_set_st. cbn. rewrite Hwl. reflexivity.
Qed.

(** the completed additional step of the combined contract, started afresh *)
Theorem FeeInv_secondary e b w w' :
  op (st w) = OpNone -> FeeInv w -> nft_winners (st w) = [] -> claimable_nft (st w) = 0 ->
  secondary_selection_step H e b w = Ok (w', 0) ->
  FeeInv w' /\
  claimable_nft (st w') = nft_amt (st w) * N.min (total_nfts (st w)) (N.of_nat (length (nft_payers (st w)))).
Proof.
  intros Hop Hi Hw0 Hc0. unfold secondary_selection_step. intros E.
  apply bind_ok in E. destruct E as (u1 & _ & E).
  apply bind_ok in E. destruct E as (u2 & _ & E).
  apply bind_ok in E. destruct E as (u3 & _ & E).
  rewrite Hop in E. destruct (rng_default w) as [r0 wl] eqn:Er. cbn [bind] in E.
  assert (Hwl : st wl = st w /\ bal wl = bal w).
  { unfold rng_default in Er. destruct (seeds w); inversion Er; subst; split; reflexivity. }
  destruct Hwl as [Hwl Hbl].
  apply bind_ok in E. destruct E as ([[wp orng] bp] & Hph & E).
  apply bind_ok in Hph. destruct Hph as ([[[wa oa] da] ba] & Hd & Hph).
  destruct da.
  2:{ inversion Hph; subst. inversion E. }
  destruct (rng_default (finish_gt wa oa)) as [rn w3] eqn:Er3. inversion Hph; subst wp orng bp; clear Hph.
  apply bind_ok in E. destruct E as ([[[wx rx] dx] bx] & Hs & E).
  destruct dx; [|discriminate E]. injection E as Hw'.
  destruct (gt_distribution_only H false _ _ _ _ _ _ _ Hd) as ((f & g & u & Hsa) & Hba).
  rewrite st_set_st in Hsa. cbn in Hba.
  assert (H3 : st w3 = st (finish_gt wa oa) /\ bal w3 = bal wa).
  { unfold rng_default in Er3. destruct (seeds (finish_gt wa oa)); inversion Er3; subst; split; reflexivity. }
  destruct H3 as [Hs3 Hb3].
  assert (Hf3 : fside (st w3) = fside (st w)).
  { rewrite Hs3. unfold finish_gt. rewrite st_set_st, Hsa, Hwl. reflexivity. }
  assert (Hi3 : FeeInv w3) by (eapply FeeInv_frame; [exact Hi|exact Hf3|congruence]).
  unfold fside in Hf3. inversion Hf3 as [[E1 E2 E3 E4 E5 E6 E7]].
  assert (Hw30 : nft_winners (st w3) = []) by (rewrite E5; exact Hw0).
  assert (Hc30 : claimable_nft (st w3) = 0) by (rewrite E6; exact Hc0).
  destruct (FeeInv_draw H _ _ _ _ _ _ Hi3 Hw30 Hc30 Hs) as [Hf Hcn].
  subst w'. split.
  - eapply FeeInv_frame; [exact Hf| |reflexivity]. rewrite st_set_st. reflexivity.
  - etransitivity; [|exact Hcn]. reflexivity.
Qed.

(** the first two stages leave the NFT side alone *)
Lemma two_stages_fside l w0 lf wf ef bf w1 ls ws es bs w2 sd rest :
  PreSel w0 l ->
  after_interrupted filter_tickets lf w0 = Some wf -> filter_tickets ef bf wf = Ok (w1, 0) ->
  seeds w1 = sd :: rest ->
  after_interrupted (select_winners H) ls w1 = Some ws -> select_winners H es bs ws = Ok (w2, 0) ->
  fside (st w2) = fside (st w0) /\ bal w2 = bal w0 /\ op (st w2) = OpNone /\ gt_users (st w2) = gt_users (st w0).
Proof.
  intros Hpre Haf Ef Hseeds Has Es.
  pose proof Hpre as [Hop0 _ _ _ _ _ _ _].
  assert (Hfok : filter_op_ok (st w0)) by (unfold filter_op_ok; rewrite Hop0; exact I).
  rewrite (filter_multi_resume lf w0 wf ef bf Hfok Haf) in Ef.
  destruct (filter_tickets_only _ _ _ _ Ef) as ((rg & ba & nw & la & fs & Hs1) & Hb1).
  rewrite (select_multi_resume H ls w1 ws es bs Has) in Es.
  assert (Hop1 : op (st w1) = OpNone) by (rewrite Hs1; reflexivity).
  destruct (select_winners_only H _ _ _ _ Hop1 Es) as ((f2 & g2 & Hs2) & Hb2).
  repeat split; try (rewrite Hs2, Hs1; reflexivity). congruence.
Qed.

Theorem pipeline_nft_fee l w0 lf wf ef bf w1 ls ws es bs w2 sd rest ln wn en bn w3 :
  PreSel w0 l -> FeeInv w0 -> nft_winners (st w0) = [] -> claimable_nft (st w0) = 0 ->
  after_interrupted filter_tickets lf w0 = Some wf -> filter_tickets ef bf wf = Ok (w1, 0) ->
  seeds w1 = sd :: rest ->
  after_interrupted (select_winners H) ls w1 = Some ws -> select_winners H es bs ws = Ok (w2, 0) ->
  after_interrupted (select_nft_winners_endpoint H) ln w2 = Some wn ->
  select_nft_winners_endpoint H en bn wn = Ok (w3, 0) ->
  FeeInv w3 /\
  claimable_nft (st w3) = nft_amt (st w0) * N.min (total_nfts (st w0)) (N.of_nat (length (nft_payers (st w0)))).
Proof.
  intros Hpre Hi Hw0 Hc0 Haf Ef Hseeds Has Es Han En.
  destruct (two_stages_fside l w0 lf wf ef bf w1 ls ws es bs w2 sd rest Hpre Haf Ef Hseeds Has Es) as (Hf2 & Hb2 & Hop2 & _).
  assert (Hi2 : FeeInv w2) by (eapply FeeInv_frame; eauto).
  unfold fside in Hf2. inversion Hf2 as [[E1 E2 E3 E4 E5 E6 E7]].
  assert (Hdj2 : nft_disjoint w2).
  { unfold nft_disjoint. rewrite E4, E5, Hw0, app_nil_r. exact (fi_nodup _ Hi). }
  rewrite (select_nft_multi_resume H ln w2 wn en bn Hdj2 Han) in En.
  destruct (FeeInv_nft_endpoint _ _ _ _ Hop2 Hi2 ltac:(rewrite E5; exact Hw0) ltac:(rewrite E6; exact Hc0) En) as [Hf3 Hc3].
  split; [exact Hf3|]. rewrite Hc3, E3, E4, E7. reflexivity.
Qed.

Theorem pipeline_ngt_fee l w0 lf wf ef bf w1 ls ws es bs w2 sd rest ld wd ed bd w3 :
  PreSel w0 l -> FeeInv w0 -> nft_winners (st w0) = [] -> claimable_nft (st w0) = 0 ->
  after_interrupted filter_tickets lf w0 = Some wf -> filter_tickets ef bf wf = Ok (w1, 0) ->
  seeds w1 = sd :: rest ->
  after_interrupted (select_winners H) ls w1 = Some ws -> select_winners H es bs ws = Ok (w2, 0) ->
  after_interrupted (secondary_selection_step H) ld w2 = Some wd ->
  secondary_selection_step H ed bd wd = Ok (w3, 0) ->
  FeeInv w3 /\
  claimable_nft (st w3) = nft_amt (st w0) * N.min (total_nfts (st w0)) (N.of_nat (length (nft_payers (st w0)))).
Proof.
  intros Hpre Hi Hw0 Hc0 Haf Ef Hseeds Has Es Had Ed.
  destruct (two_stages_fside l w0 lf wf ef bf w1 ls ws es bs w2 sd rest Hpre Haf Ef Hseeds Has Es) as (Hf2 & Hb2 & Hop2 & _).
  assert (Hi2 : FeeInv w2) by (eapply FeeInv_frame; eauto).
  unfold fside in Hf2. inversion Hf2 as [[E1 E2 E3 E4 E5 E6 E7]].
  assert (Hdj2 : nft_disjoint w2).
  { unfold nft_disjoint. rewrite E4, E5, Hw0, app_nil_r. exact (fi_nodup _ Hi). }
  rewrite (secondary_multi_resume H ld w2 wd ed bd Hdj2 Had) in Ed.
  destruct (FeeInv_secondary _ _ _ _ Hop2 Hi2 ltac:(rewrite E5; exact Hw0) ltac:(rewrite E6; exact Hc0) Ed) as [Hf3 Hc3].
  split; [exact Hf3|]. rewrite Hc3, E3, E4, E7. reflexivity.
Qed.

(** from deployment *)
Theorem deployed_nft_fee w0 lf wf ef bf w1 ls ws es bs w2 sd rest ln wn en bn w3 :
  setup_reach_nft H w0 ->
  after_interrupted filter_tickets lf w0 = Some wf -> filter_tickets ef bf wf = Ok (w1, 0) ->
  seeds w1 = sd :: rest ->
  after_interrupted (select_winners H) ls w1 = Some ws -> select_winners H es bs ws = Ok (w2, 0) ->
  after_interrupted (select_nft_winners_endpoint H) ln w2 = Some wn ->
  select_nft_winners_endpoint H en bn wn = Ok (w3, 0) ->
  FeeInv w3 /\
  claimable_nft (st w3) = nft_amt (st w0) * N.min (total_nfts (st w0)) (N.of_nat (length (nft_payers (st w0)))).
Proof.
  intros Hr Haf Ef Hs Has Es Han En.
  destruct (setup_reach_nft_PreN H w0 Hr) as (l & [Hsel _ _] & Hi).
  eapply (pipeline_nft_fee l); eauto; [exact (ni_fee _ Hi)|exact (ni_win _ Hi)|exact (ni_cn _ Hi)].
Qed.

Theorem deployed_ngt_fee w0 lf wf ef bf w1 ls ws es bs w2 sd rest ld wd ed bd w3 :
  setup_reach_ngt H w0 ->
  after_interrupted filter_tickets lf w0 = Some wf -> filter_tickets ef bf wf = Ok (w1, 0) ->
  seeds w1 = sd :: rest ->
  after_interrupted (select_winners H) ls w1 = Some ws -> select_winners H es bs ws = Ok (w2, 0) ->
  after_interrupted (secondary_selection_step H) ld w2 = Some wd ->
  secondary_selection_step H ed bd wd = Ok (w3, 0) ->
  FeeInv w3 /\
  claimable_nft (st w3) = nft_amt (st w0) * N.min (total_nfts (st w0)) (N.of_nat (length (nft_payers (st w0)))).
Proof.
  intros Hr Haf Ef Hs Has Es Had Ed.
  destruct (setup_reach_ngt_inv H w0 Hr) as (l & [[Hsel _ _] _] & Hi).
  eapply (pipeline_ngt_fee l); eauto; [exact (ni_fee _ Hi)|exact (ni_win _ Hi)|exact (ni_cn _ Hi)].
Qed.
End HNftPipe.
