(** * C01, claim period: the contract holds exactly the owner's proceeds plus the refunds still
    due; every settlement and the owner's withdrawal succeed in any order and pay exactly; when
    everybody has settled and the owner has withdrawn, nothing is left. *)
From LP Require Import Proofs.Tactics Proofs.LedgerBase Proofs.Shuffle Proofs.Frames Proofs.Settle Proofs.Ledger.
Open Scope N_scope.

(** ** sums over a duplicate-free list with one changed entry *)
Lemma sumN_map_ext (f g : N -> N) A : (forall a, In a A -> f a = g a) -> sumN (map f A) = sumN (map g A).
Proof.
  induction A as [|x A IH]; intros Hc; [reflexivity|]. cbn [map]. rewrite !sumN_cons.
  rewrite Hc by (now left). rewrite IH; [reflexivity|]. intros a Ha. apply Hc. now right.
Qed.

Lemma sumN_map_upd (f g : N -> N) A a :
  NoDup A -> In a A -> (forall x, In x A -> x <> a -> g x = f x) ->
  sumN (map g A) + f a = sumN (map f A) + g a.
Proof.
  induction A as [|x A IH]; intros Hnd Hin Ho; [destruct Hin|].
  inversion Hnd as [|? ? Hx Hnd']; subst. cbn [map]. rewrite !sumN_cons.
  destruct Hin as [->|Hin].
  - rewrite (sumN_map_ext g f A); [lia|]. intros y Hy. apply Ho; [now right|]. intros ->. contradiction.
  - assert (x <> a) by (intros ->; contradiction). rewrite (Ho x) by (auto; now left).
    specialize (IH Hnd' Hin (fun y Hy => Ho y (or_intror Hy))). lia.
Qed.

Lemma sumN_map_ge (f : N -> N) A a : In a A -> f a <= sumN (map f A).
Proof.
  induction A as [|x A IH]; intros Hin; [destruct Hin|]. cbn [map]. rewrite sumN_cons.
  destruct Hin as [->|Hin]; [lia|]. specialize (IH Hin). lia.
Qed.

Definition due (s : state) (a : N) : N := confirmed s a - winning_of s a.

Definition ranges_disjoint (s : state) (A : list N) : Prop :=
  forall x y fx lx fy ly t, In x A -> In y A -> x <> y ->
  range s x = Some (fx, lx) -> range s y = Some (fy, ly) ->
  In t (range_ids fx lx) -> ~ In t (range_ids fy ly).

(** the solvency invariant of the claim period *)
Record ClaimInv (w : world) (A : list N) : Prop := {
  ci_nodup : NoDup A;
  ci_support : forall a, ~ In a A -> confirmed (st w) a = 0 /\ range (st w) a = None;
  ci_sc : ~ In sc_addr A;
  ci_le : forall a, In a A -> winning_of (st w) a <= confirmed (st w) a;
  ci_disj : ranges_disjoint (st w) A;
  ci_win : nr_winning (st w) = sumN (map (winning_of (st w)) A);
  ci_bal : bal w sc_addr (pay_token (st w)) 0 =
           price (st w) * sumN (map (due (st w)) A) + claimable_payment (st w)
}.

(** from the confirmation-window invariant, once every selection step is complete *)
Lemma ClaimInv_start w A :
  PayInv w A ->
  (forall a, ~ In a A -> range (st w) a = None) ->
  (forall a, In a A -> winning_of (st w) a <= confirmed (st w) a) ->
  ranges_disjoint (st w) A ->
  nr_winning (st w) = sumN (map (winning_of (st w)) A) ->
  claimable_payment (st w) = price (st w) * nr_winning (st w) ->
  ClaimInv w A.
Proof.
  intros [Hnd Hsup Hsc Hbal] Hr Hle Hd Hw Hcp. constructor; auto.
  - rewrite Hbal, Hcp, Hw. unfold paysum. rewrite <- N.mul_add_distr_l. f_equal.
    clear - Hle. induction A as [|x A IH]; [reflexivity|]. cbn [map]. rewrite !sumN_cons.
    rewrite IH by (intros a Ha; apply Hle; now right). specialize (Hle x (or_introl eq_refl)). unfold due. lia.
Qed.

Lemma count_winning_ext_in s s' ids :
  (forall t, In t ids -> status s' t = status s t) -> count_winning s' ids = count_winning s ids.
Proof. intros He. unfold count_winning. f_equal. f_equal. apply filter_ext_in. exact He. Qed.

(** ** a participant settles *)
Theorem ClaimInv_settle e w A :
  ClaimInv w A -> range (st w) (caller e) <> None ->
  exists w' wins,
    settle_tickets e w = Ok (w', wins) /\ wins = winning_of (st w) (caller e) /\
    ClaimInv w' A /\
    bal w' = (if 0 <? due (st w) (caller e)
              then bal_after (bal w) sc_addr (caller e) (pay_token (st w)) 0 (price (st w) * due (st w) (caller e))
              else bal w) /\
    due (st w') (caller e) = 0 /\ winning_of (st w') (caller e) = 0 /\
    claimable_payment (st w') = claimable_payment (st w).
Proof.
  intros [Hnd Hsup Hsc Hle Hdisj Hwin Hbal] Hr.
  set (a := caller e) in *. set (s := st w) in *.
  assert (HinA : In a A).
  { destruct (in_dec N.eq_dec a A) as [Hi|Hn]; [exact Hi|]. destruct (Hsup a Hn) as [_ Hx]. contradiction. }
  destruct (range s a) as [[f l]|] eqn:Hrange; [|contradiction]. clear Hr.
  set (ids := range_ids f l). set (wins := count_winning s ids).
  assert (Hwo : winning_of s a = wins) by (unfold winning_of; rewrite Hrange; reflexivity).
  assert (Hwle : wins <= nr_winning s) by (rewrite Hwin, <- Hwo; apply sumN_map_ge; exact HinA).
  assert (Hcle : wins <= confirmed s a) by (rewrite <- Hwo; apply Hle; exact HinA).
  assert (Hdue : due s a = confirmed s a - wins) by (unfold due; rewrite Hwo; reflexivity).
  assert (Hfunds : price s * due s a <= bal w sc_addr (pay_token s) 0).
  { rewrite Hbal. pose proof (sumN_map_ge (due s) A a HinA). nia. }
  (* run the definition *)
  destruct (settle_tickets e w) as [[w' wins']|k] eqn:E.
  2:{ exfalso. unfold settle_tickets in E. fold a s in E. rewrite Hrange in E. cbn [bind] in E.
      fold ids wins in E.
      destruct (0 <? wins) eqn:Hp; cbn [bind] in E.
      - unfold usub at 1 in E. cbn [nr_winning] in E.
        change (nr_winning (s <| status := fun t => if mem t ids then false else status s t |>
                              <| pos2id := fun t => if mem t ids then 0 else pos2id s t |>
                              <| confirmed := _ |> <| range := _ |> <| batch := _ |>)) with (nr_winning s) in E.
        destruct (N.leb_spec wins (nr_winning s)) as [_|Hx]; [|lia]. cbn [bind] in E.
        unfold usub in E. destruct (N.leb_spec wins (confirmed s a)) as [_|Hx]; [|lia]. cbn [bind] in E.
        unfold refund_ticket_payment in E. rewrite st_set_st in E.
        destruct (confirmed s a - wins =? 0); [discriminate|].
        match type of E with context [transfer ?ww ?x ?y ?t ?k ?am] => destruct (transfer ww x y t k am) eqn:Et end; [discriminate|].
        unfold transfer in Et. cbn in Et. fold s in Et. rewrite <- Hdue in Et.
        destruct (N.leb_spec (price s * due s a) (bal w sc_addr (pay_token s) 0)); [discriminate|lia].
      - unfold usub in E. destruct (N.leb_spec wins (confirmed s a)) as [_|Hx]; [|lia]. cbn [bind] in E.
        unfold refund_ticket_payment in E. rewrite st_set_st in E.
        destruct (confirmed s a - wins =? 0); [discriminate|].
        match type of E with context [transfer ?ww ?x ?y ?t ?k ?am] => destruct (transfer ww x y t k am) eqn:Et end; [discriminate|].
        unfold transfer in Et. cbn in Et. fold s in Et. rewrite <- Hdue in Et.
        destruct (N.leb_spec (price s * due s a) (bal w sc_addr (pay_token s) 0)); [discriminate|lia]. }
  exists w', wins'.
  pose proof (settle_spec e w w' wins' E) as Hs. cbn zeta in Hs. fold a s in Hs.
  destruct Hs as (_ & Hw' & _ & Hr' & Hc' & _ & Hn' & _ & Hoth & Htf & _ & _ & Hb' & _).
  rewrite Hwo in Hw'. subst wins'.
  split; [reflexivity|]. split; [symmetry; exact Hwo|].
  destruct (tf_price' _ _ Htf) as [Hpr Hpt].
  assert (Hwa' : winning_of (st w') a = 0) by (unfold winning_of; rewrite Hr'; reflexivity).
  assert (Hda' : due (st w') a = 0) by (unfold due; rewrite Hc', Hwa'; reflexivity).
  (* other participants keep range, confirmations and winning tickets *)
  assert (Hst' : forall t, ~ In t ids -> status (st w') t = status s t).
  { intros t Ht. unfold settle_tickets in E. fold a s in E. rewrite Hrange in E. cbn [bind] in E. fold ids wins in E.
    apply bind_ok in E. destruct E as (s3 & Hs3 & E).
    apply bind_ok in E. destruct E as (tr & _ & E).
    apply bind_ok in E. destruct E as (w1 & Hrf & E). inversion E; subst w1; clear E.
    apply refund_spec in Hrf. rewrite st_set_st in Hrf.
    assert (Hs3st : status s3 t = status s t).
    { destruct (0 <? wins); [apply bind_ok in Hs3; destruct Hs3 as (xx & _ & Hs3)|]; inversion Hs3; subst s3; cbn;
        (destruct (mem t ids) eqn:Em; [apply mem_In' in Em; contradiction|reflexivity]). }
    destruct Hrf as [(_ & ->)|(_ & _ & ->)]; rewrite ?st_emit, ?st_set_st; cbn; exact Hs3st. }
  assert (Hwo' : forall x, In x A -> x <> a -> winning_of (st w') x = winning_of s x).
  { intros x Hx Hne. unfold winning_of. destruct (Hoth x Hne) as (Hrx & _). rewrite Hrx.
    destruct (range s x) as [[fx lx]|] eqn:Erx; [|reflexivity].
    apply count_winning_ext_in. intros t Ht. apply Hst'.
    intros Hin. exact (Hdisj x a fx lx f l t Hx HinA Hne Erx Hrange Ht Hin). }
  assert (Hcf' : claimable_payment (st w') = claimable_payment s).
  { unfold tf, terms_of, flags_of in Htf. clear - E Hrange.
    unfold settle_tickets in E. fold a s in E. rewrite Hrange in E. cbn [bind] in E.
    apply bind_ok in E. destruct E as (s3 & Hs3 & E).
    apply bind_ok in E. destruct E as (tr & _ & E).
    apply bind_ok in E. destruct E as (w1 & Hrf & E). inversion E; subst w1; clear E.
    apply refund_spec in Hrf. rewrite st_set_st in Hrf.
    assert (Hc3 : claimable_payment s3 = claimable_payment s).
    { match type of Hs3 with context [0 <? ?x] => destruct (0 <? x) end;
        [apply bind_ok in Hs3; destruct Hs3 as (xx & _ & Hs3)|]; inversion Hs3; subst s3; reflexivity. }
    destruct Hrf as [(_ & ->)|(_ & _ & ->)]; rewrite ?st_emit, ?st_set_st; cbn; exact Hc3. }
  split; [|split; [rewrite Hb', <- Hdue; reflexivity | split; [exact Hda' | split; [exact Hwa' | exact Hcf']]]].
  constructor; [exact Hnd| | exact Hsc | | | | ].
  - intros x Hx. destruct (N.eq_dec x a) as [->|Hne]; [contradiction|].
    destruct (Hoth x Hne) as (Hrx & Hcx & _). rewrite Hrx, Hcx. apply Hsup. exact Hx.
  - intros x Hx. destruct (N.eq_dec x a) as [->|Hne]; [rewrite Hwa'; lia|].
    destruct (Hoth x Hne) as (_ & Hcx & _). rewrite Hcx, (Hwo' x Hx Hne). apply Hle. exact Hx.
  - intros x y fx lx fy ly t Hx Hy Hne Erx Ery.
    destruct (N.eq_dec x a) as [->|Hxa]; [rewrite Hr' in Erx; discriminate|].
    destruct (N.eq_dec y a) as [->|Hya]; [rewrite Hr' in Ery; discriminate|].
    destruct (Hoth x Hxa) as (Hrx & _). destruct (Hoth y Hya) as (Hry & _). rewrite Hrx in Erx. rewrite Hry in Ery.
    intros Ht. exact (Hdisj x y fx lx fy ly t Hx Hy Hne Erx Ery Ht).
  - rewrite Hn'.
    pose proof (sumN_map_upd (winning_of s) (winning_of (st w')) A a Hnd HinA Hwo') as Hsum.
    rewrite Hwa', Hwo in Hsum. fold s. rewrite Hwin. lia.
  - rewrite Hpr, Hpt, Hcf'. fold s.
    assert (Hdo : forall x, In x A -> x <> a -> due (st w') x = due s x).
    { intros x Hx Hne. unfold due. destruct (Hoth x Hne) as (_ & Hcx & _). rewrite Hcx, (Hwo' x Hx Hne). reflexivity. }
    pose proof (sumN_map_upd (due s) (due (st w')) A a Hnd HinA Hdo) as Hsum. rewrite Hda' in Hsum.
    rewrite Hb'. rewrite <- Hdue.
    assert (Hasc : a <> sc_addr) by (intros Heq; apply Hsc; rewrite <- Heq; exact HinA).
    destruct (N.ltb_spec 0 (due s a)) as [Hp|Hz].
    + rewrite bal_after_from by congruence. fold s in Hbal. rewrite Hbal. nia.
    + fold s in Hbal. rewrite Hbal. assert (due s a = 0) by lia. nia.
Qed.

(** ** the owner withdraws *)
Definition pay_leg (e : env) (w : world) : res world :=
  let s := st w in
  if 0 <? claimable_payment s then
    transfer (set_st w (s <| claimable_payment := 0 |>)) sc_addr (caller e) (pay_token s) 0 (claimable_payment s)
  else Ok w.

Lemma ClaimInv_same_ledger w w' A :
  ClaimInv w A ->
  confirmed (st w') = confirmed (st w) -> range (st w') = range (st w) -> status (st w') = status (st w) ->
  nr_winning (st w') = nr_winning (st w) -> price (st w') = price (st w) -> pay_token (st w') = pay_token (st w) ->
  bal w' sc_addr (pay_token (st w)) 0 + claimable_payment (st w) =
  bal w sc_addr (pay_token (st w)) 0 + claimable_payment (st w') ->
  ClaimInv w' A.
Proof.
  intros [Hnd Hsup Hsc Hle Hdisj Hwin Hbal] Hc Hr Hs Hn Hp Ht Hb.
  assert (Hwo : forall a, winning_of (st w') a = winning_of (st w) a).
  { intros a. unfold winning_of, count_winning. rewrite Hr, Hs. reflexivity. }
  assert (Hdu : forall a, due (st w') a = due (st w) a) by (intros a; unfold due; rewrite Hc, Hwo; reflexivity).
  constructor; auto.
  - intros a Ha. rewrite Hc, Hr. apply Hsup. exact Ha.
  - intros a Ha. rewrite Hc, Hwo. apply Hle. exact Ha.
  - unfold ranges_disjoint. rewrite Hr. exact Hdisj.
  - rewrite Hn, Hwin. apply sumN_map_ext. intros a _. symmetry. apply Hwo.
  - rewrite Ht, Hp, (sumN_map_ext _ _ A (fun a _ => Hdu a)). lia.
Qed.

Theorem ClaimInv_pay_leg e w A :
  ClaimInv w A -> caller e <> sc_addr ->
  exists w1, pay_leg e w = Ok w1 /\ ClaimInv w1 A /\ claimable_payment (st w1) = 0 /\
    (exists s1, st w1 = st w <| claimable_payment := s1 |>) /\
    bal w1 = (if 0 <? claimable_payment (st w)
              then bal_after (bal w) sc_addr (caller e) (pay_token (st w)) 0 (claimable_payment (st w)) else bal w).
Proof.
  intros Hi Hne. pose proof (ci_bal _ _ Hi) as Hbal. unfold pay_leg.
  destruct (N.ltb_spec 0 (claimable_payment (st w))) as [Hp|Hz].
  - assert (Hf : claimable_payment (st w) <= bal (set_st w (st w <| claimable_payment := 0 |>)) sc_addr (pay_token (st w)) 0)
      by (cbn; lia).
    eexists. split; [apply transfer_ok; split; [exact Hf|reflexivity]|].
    split; [|split; [reflexivity|split; [exists 0; reflexivity|reflexivity]]].
    eapply ClaimInv_same_ledger; [exact Hi|reflexivity..|].
    cbn. rewrite bal_after_from by congruence. lia.
  - exists w. split; [reflexivity|]. split; [exact Hi|]. split; [lia|]. split; [|reflexivity].
    exists (claimable_payment (st w)). destruct (st w); reflexivity.
Qed.

(** base / lock / nft / mig / lgt / ngt *)
Theorem ClaimInv_owner e w w' A :
  ClaimInv w A -> caller e <> sc_addr -> pay_token (st w) <> lp_token (st w) ->
  claim_ticket_payment e w = Ok w' ->
  ClaimInv w' A /\ claimable_payment (st w') = 0 /\
  bal w' (caller e) (pay_token (st w)) 0 = bal w (caller e) (pay_token (st w)) 0 + claimable_payment (st w).
Proof.
  intros Hi Hne Htok E. unfold claim_ticket_payment in E.
  apply bind_ok in E. destruct E as (u & _ & E).
  destruct (ClaimInv_pay_leg e w A Hi Hne) as (w1 & Hl & Hi1 & Hz & (c1 & Hs1) & Hb1).
  unfold pay_leg in Hl. rewrite Hl in E. cbn [bind] in E.
  apply bind_ok in E. destruct E as (extra & _ & E).
  assert (Hlp : lp_token (st w1) = lp_token (st w)) by (rewrite Hs1; reflexivity).
  assert (Hcaller : bal w1 (caller e) (pay_token (st w)) 0 = bal w (caller e) (pay_token (st w)) 0 + claimable_payment (st w)).
  { rewrite Hb1. destruct (N.ltb_spec 0 (claimable_payment (st w))); [rewrite bal_after_to by congruence; reflexivity|lia]. }
  destruct (0 <? extra).
  - apply transfer_ok in E. destruct E as [_ ->]. cbn [st bal]. 
    split; [|split; [exact Hz|]].
    + eapply ClaimInv_same_ledger; [exact Hi1|reflexivity..|]. cbn.
      rewrite bal_after_other; [lia| |]; rewrite Hlp; intros Hx; inversion Hx; apply Htok; rewrite Hs1 in *; cbn in *; congruence.
    + cbn. rewrite bal_after_other; [exact Hcaller| |]; rewrite Hlp; intros Hx; inversion Hx; congruence.
  - inversion E; subst w'. auto.
Qed.

(** gt1 / gt2 *)
Theorem ClaimInv_owner_gt e w w' A :
  ClaimInv w A -> caller e <> sc_addr -> pay_token (st w) <> lp_token (st w) ->
  claim_ticket_payment_gt e w = Ok w' ->
  ClaimInv w' A /\ claimable_payment (st w') = 0 /\
  bal w' (caller e) (pay_token (st w)) 0 = bal w (caller e) (pay_token (st w)) 0 + claimable_payment (st w).
Proof.
  intros Hi Hne Htok E. unfold claim_ticket_payment_gt in E.
  apply bind_ok in E. destruct E as (u & _ & E).
  destruct (ClaimInv_pay_leg e w A Hi Hne) as (w1 & Hl & Hi1 & Hz & (c1 & Hs1) & Hb1).
  unfold pay_leg in Hl. rewrite Hl in E. cbn [bind] in E.
  assert (Hlp : lp_token (st w1) = lp_token (st w)) by (rewrite Hs1; reflexivity).
  assert (Hcaller : bal w1 (caller e) (pay_token (st w)) 0 = bal w (caller e) (pay_token (st w)) 0 + claimable_payment (st w)).
  { rewrite Hb1. destruct (N.ltb_spec 0 (claimable_payment (st w))); [rewrite bal_after_to by congruence; reflexivity|lia]. }
  set (w2 := set_st w1 (st w1 <| total_deposited := 0 |>)) in *.
  assert (Hi2 : ClaimInv w2 A).
  { eapply ClaimInv_same_ledger; [exact Hi1|reflexivity..|]. cbn. lia. }
  assert (Hz2 : claimable_payment (st w2) = 0) by exact Hz.
  destruct (total_deposited (st w1) =? 0); [inversion E; subst w'; auto|].
  destruct (total_deposited (st w1) <=? _); [inversion E; subst w'; auto|].
  apply transfer_ok in E. destruct E as [_ ->]. cbn [st bal].
  split; [|split; [exact Hz2|]].
  - eapply ClaimInv_same_ledger; [exact Hi2|reflexivity..|]. cbn.
    rewrite bal_after_other; [lia| |]; rewrite Hlp; intros Hx; inversion Hx; apply Htok; rewrite Hs1 in *; cbn in *; congruence.
  - cbn. rewrite bal_after_other; [exact Hcaller| |]; rewrite Hlp; intros Hx; inversion Hx; congruence.
Qed.

(** when every participant has settled and the owner has withdrawn, nothing is left *)
Theorem ClaimInv_drained w A :
  ClaimInv w A -> (forall a, In a A -> confirmed (st w) a = 0) -> claimable_payment (st w) = 0 ->
  bal w sc_addr (pay_token (st w)) 0 = 0.
Proof.
  intros Hi Hall Hz. rewrite (ci_bal _ _ Hi), Hz.
  rewrite (sumN_map_ext (due (st w)) (fun _ => 0) A).
  - clear. induction A as [|x A IH]; cbn [map]; rewrite ?sumN_cons; [cbn; lia|]. cbn [map] in IH. lia.
  - intros a Ha. unfold due. rewrite (Hall a Ha). lia.
Qed.

(** ** any order of settlements and withdrawals *)
Inductive pay_step : world -> world -> Prop :=
| ps_settle e w w' wins : settle_tickets e w = Ok (w', wins) -> pay_step w w'
| ps_owner e w w1 : caller e <> sc_addr -> pay_leg e w = Ok w1 -> pay_step w w1.

Inductive pay_steps : world -> world -> Prop :=
| pss_nil w : pay_steps w w
| pss_cons w w1 w2 : pay_step w w1 -> pay_steps w1 w2 -> pay_steps w w2.

Theorem ClaimInv_step w w' A : ClaimInv w A -> pay_step w w' -> ClaimInv w' A.
Proof.
  intros Hi Hs. destruct Hs as [e w0 w1 wins E | e w0 w1 Hne E].
  - assert (Hr : range (st w0) (caller e) <> None) by (pose proof (settle_spec _ _ _ _ E) as Hs; cbn zeta in Hs; tauto).
    destruct (ClaimInv_settle e w0 A Hi Hr) as (w2 & wins2 & E2 & _ & Hi2 & _).
    rewrite E in E2. inversion E2; subst. exact Hi2.
  - destruct (ClaimInv_pay_leg e w0 A Hi Hne) as (w2 & E2 & Hi2 & _).
    rewrite E in E2. inversion E2; subst. exact Hi2.
Qed.

Theorem ClaimInv_steps w w' A : ClaimInv w A -> pay_steps w w' -> ClaimInv w' A.
Proof. intros Hi Hs. induction Hs as [|w w1 w2 H1 _ IH]; [exact Hi|]. apply IH. eapply ClaimInv_step; eauto. Qed.

(** ** C02, claim period (variants that pay winners at once): the deposit keeps covering the winners *)
Definition CoverInv (w : world) : Prop :=
  tpt (st w) * nr_winning (st w) <= bal w sc_addr (lp_token (st w)) 0.

Lemma tf_lp s' s : tf s' = tf s -> lp_token s' = lp_token s /\ tpt s' = tpt s.
Proof. unfold tf, terms_of. intros E. inversion E. auto. Qed.

Theorem Cover_claim e w A :
  ClaimInv w A -> CoverInv w -> pay_token (st w) <> lp_token (st w) -> caller e <> sc_addr ->
  get_launch_stage e (st w) = Claim -> claimed (st w) (caller e) = false ->
  blacklisted (st w) (caller e) = false ->
  range (st w) (caller e) <> None ->
  exists w',
    claim_launchpad_tokens default_send e w = Ok w' /\ ClaimInv w' A /\ CoverInv w' /\
    let wins := winning_of (st w) (caller e) in
    nr_winning (st w') = nr_winning (st w) - wins /\
    bal w' (caller e) (lp_token (st w)) 0 = bal w (caller e) (lp_token (st w)) 0 + tpt (st w) * wins /\
    bal w' sc_addr (lp_token (st w)) 0 + tpt (st w) * wins = bal w sc_addr (lp_token (st w)) 0.
Proof.
  intros Hi Hc Htok Hne Hstage Hcl Hnb Hr. unfold CoverInv in *.
  destruct (ClaimInv_settle e w A Hi Hr) as (w1 & wins & E & Hw & Hi1 & Hb1 & _ & _ & _).
  pose proof (settle_spec e w w1 wins E) as Hs. cbn zeta in Hs.
  destruct Hs as (_ & _ & _ & _ & _ & _ & Hn1 & Hwle & _ & Htf & _).
  destruct (tf_lp _ _ Htf) as [Hlp Htpt]. destruct (tf_price' _ _ Htf) as [_ Hpt].
  assert (Hwins : wins <= nr_winning (st w)).
  { rewrite (ci_win _ _ Hi), Hw. apply sumN_map_ge.
    destruct (in_dec N.eq_dec (caller e) A) as [Hin|Hn]; [exact Hin|]. destruct (ci_support _ _ Hi _ Hn) as [_ Hx]. contradiction. }
  assert (Hlpbal : forall x, bal w1 x (lp_token (st w)) 0 = bal w x (lp_token (st w)) 0).
  { intros x. rewrite Hb1. destruct (0 <? due (st w) (caller e)); [|reflexivity].
    apply bal_after_other; intros Hx; inversion Hx; congruence. }
  unfold claim_launchpad_tokens, require_stage. rewrite Hstage. cbn [stage_eqb require bind].
  rewrite Hcl, Hnb. cbn [negb require bind]. rewrite E. cbn [bind].
  unfold send_launchpad_tokens. subst wins. set (wins := winning_of (st w) (caller e)) in *.
  destruct (N.eqb_spec wins 0) as [Hz|Hnz].
  - exists w1. split; [reflexivity|]. split; [exact Hi1|]. rewrite Hlp, Htpt, Hn1, !Hlpbal, Hz.
    split; [lia|]. cbn zeta. repeat split; lia.
  - unfold default_send. rewrite Hlp, Htpt.
    assert (Hf : wins * tpt (st w) <= bal w1 sc_addr (lp_token (st w)) 0) by (rewrite Hlpbal; nia).
    eexists. split; [apply transfer_ok; split; [exact Hf|reflexivity]|].
    split; [|split].
    + eapply ClaimInv_same_ledger; [exact Hi1|reflexivity..|]. cbn.
      rewrite bal_after_other; [lia| |]; rewrite Hpt; intros Hx; inversion Hx; congruence.
    + cbn. rewrite Hlp, Htpt, Hn1. rewrite bal_after_from by congruence. rewrite Hlpbal. nia.
    + cbn zeta. fold wins. change (st (w1 <| bal := bal_after (bal w1) sc_addr (caller e) (lp_token (st w)) 0 (wins * tpt (st w)) |>)) with (st w1).
      change (bal (w1 <| bal := bal_after (bal w1) sc_addr (caller e) (lp_token (st w)) 0 (wins * tpt (st w)) |>)) with (bal_after (bal w1) sc_addr (caller e) (lp_token (st w)) 0 (wins * tpt (st w))).
      rewrite Hn1. split; [reflexivity|].
      rewrite bal_after_to by congruence. rewrite bal_after_from by congruence. rewrite !Hlpbal. split; nia.
Qed.

(** the owner's withdrawal leaves exactly what the winners are still owed *)
Theorem Cover_owner e w w' A :
  ClaimInv w A -> caller e <> sc_addr -> pay_token (st w) <> lp_token (st w) ->
  claim_ticket_payment e w = Ok w' ->
  bal w' sc_addr (lp_token (st w)) 0 = tpt (st w) * nr_winning (st w) /\
  nr_winning (st w') = nr_winning (st w) /\ tpt (st w') = tpt (st w) /\ lp_token (st w') = lp_token (st w) /\
  bal w' (caller e) (lp_token (st w)) 0 + tpt (st w) * nr_winning (st w) =
  bal w (caller e) (lp_token (st w)) 0 + bal w sc_addr (lp_token (st w)) 0.
Proof.
  intros Hi Hne Htok E.
  destruct (claim_ticket_payment_spec e w w' E) as (_ & _ & b1 & Hb1 & Hle & Hb').
  assert (Hb1lp : forall x, b1 x (lp_token (st w)) 0 = bal w x (lp_token (st w)) 0).
  { intros x. rewrite Hb1. destruct (0 <? claimable_payment (st w)); [|reflexivity].
    apply bal_after_other; intros Hx; inversion Hx; congruence. }
  assert (Hst : nr_winning (st w') = nr_winning (st w) /\ tpt (st w') = tpt (st w) /\ lp_token (st w') = lp_token (st w)).
  { unfold claim_ticket_payment in E.
    apply bind_ok in E. destruct E as (u & _ & E).
    apply bind_ok in E. destruct E as (w1 & H1 & E).
    assert (Hs1 : exists c, st w1 = st w <| claimable_payment := c |>).
    { destruct (0 <? claimable_payment (st w)).
      - apply transfer_ok in H1. destruct H1 as [_ ->]. exists 0. reflexivity.
      - inversion H1; subst. exists (claimable_payment (st w1)). destruct (st w1); reflexivity. }
    destruct Hs1 as [c Hs1].
    apply bind_ok in E. destruct E as (extra & _ & E).
    destruct (0 <? extra).
    - apply transfer_ok in E. destruct E as [_ ->].
      change (st (w1 <| bal := _ |>)) with (st w1). rewrite Hs1. cbn. auto.
    - inversion E; subst. rewrite Hs1. cbn. auto. }
  split; [|split; [apply Hst|split; [apply Hst|split; [apply Hst|]]]].
  - rewrite Hb'. cbn zeta. rewrite Hb1lp in *.
    destruct (N.ltb_spec 0 (bal w sc_addr (lp_token (st w)) 0 - tpt (st w) * nr_winning (st w))).
    + rewrite bal_after_from by congruence. rewrite Hb1lp. lia.
    + rewrite Hb1lp. lia.
  - rewrite Hb'. cbn zeta. rewrite !Hb1lp in *.
    destruct (N.ltb_spec 0 (bal w sc_addr (lp_token (st w)) 0 - tpt (st w) * nr_winning (st w))).
    + rewrite bal_after_to by congruence. rewrite Hb1lp. lia.
    + rewrite Hb1lp. lia.
Qed.

(** ** the same for the locked variants (launchpad-locked-tokens, locked-tokens-and-guaranteed-tickets):
    the entitlement leaves in two parts, one to the lock contract *)
From LP Require Import Proofs.Lock.

Theorem Cover_claim_locked e w A :
  ClaimInv w A -> CoverInv w -> pay_token (st w) <> lp_token (st w) -> caller e <> sc_addr ->
  lock_sc (st w) <> sc_addr -> lock_pct (st w) <= MAX_PERCENTAGE -> 0 < tpt (st w) ->
  get_launch_stage e (st w) = Claim -> claimed (st w) (caller e) = false ->
  blacklisted (st w) (caller e) = false ->
  range (st w) (caller e) <> None ->
  exists w',
    claim_launchpad_tokens send_locked_launchpad_tokens e w = Ok w' /\ ClaimInv w' A /\ CoverInv w' /\
    let wins := winning_of (st w) (caller e) in
    nr_winning (st w') = nr_winning (st w) - wins /\
    bal w' sc_addr (lp_token (st w)) 0 + tpt (st w) * wins = bal w sc_addr (lp_token (st w)) 0.
Proof.
  intros Hi Hc Htok Hne Hlsc Hpct Htptpos Hstage Hcl Hnb Hr. unfold CoverInv in *.
  destruct (ClaimInv_settle e w A Hi Hr) as (w1 & wins & E & Hw & Hi1 & Hb1 & _ & _ & _).
  pose proof (settle_spec e w w1 wins E) as Hs. cbn zeta in Hs.
  destruct Hs as (_ & _ & _ & _ & _ & _ & Hn1 & Hwle & _ & Htf & _).
  destruct (tf_lp _ _ Htf) as [Hlp Htpt]. destruct (tf_price' _ _ Htf) as [_ Hpt].
  assert (Hlk : lock_pct (st w1) = lock_pct (st w) /\ unlock_epoch (st w1) = unlock_epoch (st w) /\ lock_sc (st w1) = lock_sc (st w)).
  { unfold tf, terms_of in Htf. inversion Htf. auto. }
  destruct Hlk as (Hlp1 & Hue1 & Hls1).
  assert (Hwins : wins <= nr_winning (st w)).
  { rewrite (ci_win _ _ Hi), Hw. apply sumN_map_ge.
    destruct (in_dec N.eq_dec (caller e) A) as [Hin|Hn]; [exact Hin|]. destruct (ci_support _ _ Hi _ Hn) as [_ Hx]. contradiction. }
  assert (Hlpbal : forall x, bal w1 x (lp_token (st w)) 0 = bal w x (lp_token (st w)) 0).
  { intros x. rewrite Hb1. destruct (0 <? due (st w) (caller e)); [|reflexivity].
    apply bal_after_other; intros Hx; inversion Hx; congruence. }
  unfold claim_launchpad_tokens, require_stage. rewrite Hstage. cbn [stage_eqb require bind].
  rewrite Hcl, Hnb. cbn [negb require bind]. rewrite E. cbn [bind].
  unfold send_launchpad_tokens. subst wins. set (wins := winning_of (st w) (caller e)) in *.
  destruct (N.eqb_spec wins 0) as [Hz|Hnz].
  - exists w1. split; [reflexivity|]. split; [exact Hi1|]. rewrite Hlp, Htpt, Hn1, !Hlpbal, Hz.
    split; [lia|]. cbn zeta. repeat split; lia.
  - unfold send_locked_launchpad_tokens. rewrite Htpt.
    set (amt := wins * tpt (st w)). set (la := lock_amount (st w1) e amt).
    assert (Hla : la <= amt).
    { unfold la, lock_amount. rewrite Hlp1. destruct (epoch e <? unlock_epoch (st w1)); [|lia].
      unfold MAX_PERCENTAGE in *. apply N.div_le_upper_bound; [lia|]. nia. }
    assert (Hf : amt <= bal w1 sc_addr (lp_token (st w)) 0) by (rewrite Hlpbal; unfold amt; nia).
    cbv zeta. rewrite Hls1. rewrite !Hlp.
    (* first leg: to the lock contract *)
    destruct (N.ltb_spec 0 la) as [Hlap|Hlaz].
    + assert (Hf1 : la <= bal w1 sc_addr (lp_token (st w)) 0) by lia.
      rewrite (proj2 (transfer_ok w1 sc_addr (lock_sc (st w)) (lp_token (st w)) 0 la _) (conj Hf1 eq_refl)). cbn [bind].
      set (w2 := w1 <| bal := bal_after (bal w1) sc_addr (lock_sc (st w)) (lp_token (st w)) 0 la |>
                    <| locks := _ |>).
      assert (Hb2 : bal w2 sc_addr (lp_token (st w)) 0 = bal w sc_addr (lp_token (st w)) 0 - la).
      { unfold w2. cbn. rewrite bal_after_from by congruence. rewrite Hlpbal. reflexivity. }
      destruct (N.ltb_spec 0 (amt - la)) as [Hrp|Hrz].
      * assert (Hf2 : amt - la <= bal w2 sc_addr (lp_token (st w)) 0) by (rewrite Hb2; rewrite Hlpbal in Hf; lia).
        eexists. split; [apply transfer_ok; split; [exact Hf2|reflexivity]|].
        split; [|split].
        -- eapply ClaimInv_same_ledger; [exact Hi1|reflexivity..|]. cbn.
           rewrite !bal_after_other; [lia| | | |]; rewrite ?Hpt; intros Hx; inversion Hx; congruence.
        -- cbn. rewrite Hlp, Htpt, Hn1. rewrite bal_after_from by congruence.
           change (bal_after (bal w1) sc_addr (lock_sc (st w)) (lp_token (st w)) 0 la sc_addr (lp_token (st w)) 0) with (bal w2 sc_addr (lp_token (st w)) 0).
           rewrite Hb2. unfold amt in *. rewrite Hlpbal in Hf. nia.
        -- cbn zeta. fold wins. cbn. rewrite Hn1. split; [reflexivity|].
           rewrite bal_after_from by congruence.
           change (bal_after (bal w1) sc_addr (lock_sc (st w)) (lp_token (st w)) 0 la sc_addr (lp_token (st w)) 0) with (bal w2 sc_addr (lp_token (st w)) 0).
           rewrite Hb2. unfold amt in *. rewrite Hlpbal in Hf. nia.
      * exists w2. split; [reflexivity|]. split; [|split].
        -- eapply ClaimInv_same_ledger; [exact Hi1|reflexivity..|]. unfold w2. cbn.
           rewrite bal_after_other; [lia| |]; rewrite ?Hpt; intros Hx; inversion Hx; congruence.
        -- assert (Hst2 : st w2 = st w1) by reflexivity. rewrite Hst2, Hlp, Htpt, Hn1, Hb2. unfold amt in *. rewrite Hlpbal in Hf. nia.
        -- cbn zeta. fold wins. assert (Hst2 : st w2 = st w1) by reflexivity. rewrite Hst2, Hn1. split; [reflexivity|]. rewrite Hb2.
           unfold amt in *. rewrite Hlpbal in Hf. nia.
    + cbn [bind]. assert (la = 0) by lia. 
      destruct (N.ltb_spec 0 (amt - la)) as [Hrp|Hrz].
      * assert (Hf2 : amt - la <= bal w1 sc_addr (lp_token (st w)) 0) by lia.
        eexists. split; [apply transfer_ok; split; [exact Hf2|reflexivity]|].
        split; [|split].
        -- eapply ClaimInv_same_ledger; [exact Hi1|reflexivity..|]. cbn.
           rewrite bal_after_other; [lia| |]; rewrite ?Hpt; intros Hx; inversion Hx; congruence.
        -- cbn. rewrite Hlp, Htpt, Hn1. rewrite bal_after_from by congruence. rewrite Hlpbal.
           unfold amt in *. rewrite Hlpbal in Hf. nia.
        -- cbn zeta. fold wins. cbn. rewrite Hn1. split; [reflexivity|].
           rewrite bal_after_from by congruence. rewrite Hlpbal. unfold amt in *. rewrite Hlpbal in Hf. nia.
      * (* nothing to send: impossible, the entitlement is positive *)
        exfalso. unfold amt in *. nia.
Qed.
