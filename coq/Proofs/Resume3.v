(** * C04 continued: selectNftWinners (nft). *)
From Coq Require Import Permutation.
From LP Require Import Proofs.Tactics Proofs.Loop Proofs.Resume Proofs.Frames Proofs.Nft.
Open Scope N_scope.

Lemma tf_fields s' s : tf s' = tf s ->
  conf_start s' = conf_start s /\ ws_start s' = ws_start s /\ claim_start s' = claim_start s /\
  fl_selected s' = fl_selected s /\ fl_additional s' = fl_additional s /\ total_nfts s' = total_nfts s.
Proof. unfold tf, terms_of, flags_of. intros E. inversion E. auto 10. Qed.

Section H2.
Variable H : list N -> list N.

Lemma nft_loop_inv total p0 : NoDup p0 -> forall b w r ul sel w' r' ul' sel' d b',
  NInv p0 w ul sel ->
  run_while b (nft_body H total) (w, r, ul, sel) = Ok (w', r', ul', sel', d, b') ->
  NInv p0 w' ul' sel' /\ tf (st w') = tf (st w) /\ op (st w') = op (st w).
Proof.
  intros Hnd b w r ul sel w' r' ul' sel' d b' Hi E.
  change (NInv p0 (fst (fst (fst (w', r', ul', sel')))) (snd (fst (w', r', ul', sel'))) (snd (w', r', ul', sel')) /\
          tf (st (fst (fst (fst (w', r', ul', sel'))))) = tf (st w) /\ op (st (fst (fst (fst (w', r', ul', sel'))))) = op (st w)).
  eapply (run_invariant (nft_body H total)
            (fun x => NInv p0 (fst (fst (fst x))) (snd (fst x)) (snd x) /\ tf (st (fst (fst (fst x)))) = tf (st w) /\
                      op (st (fst (fst (fst x)))) = op (st w))); [| |exact E].
  - intros [[[wa ra] ua] sa] [[[wb rb] ub] sb] c (Hia & Hta & Hoa) Eb. cbn [fst snd] in *.
    destruct (nft_body_inv H total p0 _ _ _ _ _ _ _ _ _ Hnd Hia Eb) as (Hib & _ & _ & _ & _ & Htb & _).
    split; [assumption|]. split; [congruence|].
    unfold nft_body in Eb. destruct ((ua =? 0) || (sa =? total)); [inversion Eb; subst; assumption|].
    unfold next_usize_in_range, next_usize in Eb. cbn zeta in Eb.
    match type of Eb with context [nth_error ?l ?i] => destruct (nth_error l i) end; [|discriminate].
    inversion Eb; subst. rewrite st_set_st. destruct wa as [sx ? ? ? ? ?]. cbn in *. assumption.
  - cbn. auto.
Qed.

Lemma reload_nft w r :
  op (st w) = OpNone ->
  set_st (set_st w (st w <| op := OpExtra (XRng r) |>)) (st w <| op := OpExtra (XRng r) |> <| op := OpNone |>) = w.
Proof. destruct w as [s ? ? ? ? ?]. destruct s; cbn; intros ->; reflexivity. Qed.

Theorem select_nft_resume e1 e2 b1 b2 w w1 :
  NoDup (nft_payers (st w) ++ nft_winners (st w)) ->
  select_nft_winners_endpoint H e1 b1 w = Ok (w1, 1) ->
  select_nft_winners_endpoint H e2 b2 w1 = select_nft_winners_endpoint H e2 (b1 + Datatypes.S b2) w /\
  NoDup (nft_payers (st w1) ++ nft_winners (st w1)).
Proof.
  intros Hnd. unfold select_nft_winners_endpoint. intros E.
  apply bind_ok in E. destruct E as (u1 & _ & E).
  apply bind_ok in E. destruct E as (u2 & _ & E).
  apply bind_ok in E. destruct E as (u3 & _ & E).
  apply bind_ok in E. destruct E as ([r0 wl] & Hl & E).
  assert (Hwl : st wl = st w).
  { destruct (op (st w)) as [| | |d]; try discriminate.
    - unfold rng_default in Hl. destruct (seeds w); inversion Hl; reflexivity.
    - destruct d; try discriminate. inversion Hl; reflexivity. }
  unfold select_nft_winners in E.
  apply bind_ok in E. destruct E as ([[[wa ra] da] ba] & Hs & E).
  apply bind_ok in Hs. destruct Hs as ([[[[[wx rx] ux] sx] dx] bx] & Hrun & Hs). inversion Hs; subst wa ra da ba; clear Hs.
  destruct dx; [inversion E|]. inversion E; subst w1; clear E.
  pose proof (run_interrupted_budget _ _ _ _ _ Hrun) as ->.
  rewrite !st_set_st in Hrun. cbn [nft_payers nft_winners total_nfts] in Hrun.
  set (p0 := nft_payers (st w) ++ nft_winners (st w)) in *.
  assert (Hi0 : NInv p0 (set_st wl (st wl <| op := OpNone |>)) (N.of_nat (length (nft_payers (st wl)))) (N.of_nat (length (nft_winners (st wl))))).
  { constructor; rewrite ?st_set_st; cbn; rewrite ?Hwl; [apply Permutation_refl | reflexivity | reflexivity]. }
  destruct (nft_loop_inv _ p0 Hnd _ _ _ _ _ _ _ _ _ _ _ Hi0 Hrun) as ([Hp Hul Hsel] & Htf & Hop).
  rewrite st_set_st in Htf, Hop. cbn in Hop.
  split.
  2:{ rewrite st_set_st. cbn. eapply Permutation_NoDup; [apply Permutation_sym, Hp|exact Hnd]. }
  rewrite !st_set_st.
  assert (Hterms : tf (st wx) = tf (st w)) by (rewrite Htf; unfold tf, terms_of, flags_of; cbn; rewrite Hwl; reflexivity).
  destruct (tf_fields _ _ Hterms) as (Hc1 & Hc2 & Hc3 & Hf2 & Hf3 & Htot).
  assert (Hstage : get_launch_stage e2 (st wx <| op := OpExtra (XRng rx) |>) = get_launch_stage e2 (st w)).
  { unfold get_launch_stage. cbn. rewrite Hc1, Hc2, Hc3, Hf2, Hf3. reflexivity. }
  unfold require_stage. rewrite Hstage.
  change (fl_selected (st wx <| op := OpExtra (XRng rx) |>)) with (fl_selected (st wx)).
  change (fl_additional (st wx <| op := OpExtra (XRng rx) |>)) with (fl_additional (st wx)).
  rewrite Hf2, Hf3.
  destruct (require (stage_eqb (get_launch_stage e2 (st w)) WinnerSelection)) as [[]|]; [|reflexivity]. cbn [bind].
  destruct (require (fl_selected (st w))) as [[]|]; [|reflexivity]. cbn [bind].
  destruct (require (negb (fl_additional (st w)))) as [[]|]; [|reflexivity]. cbn [bind].
  rewrite Hl. cbn [bind].
  change (op (st wx <| op := OpExtra (XRng rx) |>)) with (OpExtra (XRng rx)). cbn [bind].
  rewrite st_set_st, (reload_nft wx rx Hop).
  unfold select_nft_winners. rewrite !st_set_st. cbn [nft_payers nft_winners total_nfts].
  rewrite (run_split _ _ _ _ _ Hrun).
  replace (total_nfts (st wx)) with (total_nfts (st wl)) by (rewrite Hwl; auto).
  rewrite <- Hul, <- Hsel. reflexivity.
Qed.

Definition nft_disjoint (w : world) : Prop := NoDup (nft_payers (st w) ++ nft_winners (st w)).

Theorem select_nft_multi_resume : forall l w wk e b,
  nft_disjoint w -> after_interrupted (select_nft_winners_endpoint H) l w = Some wk ->
  select_nft_winners_endpoint H e b wk = select_nft_winners_endpoint H e (total_budget l b) w.
Proof.
  intros l w wk e b Hi. apply (multi_resume (select_nft_winners_endpoint H) nft_disjoint); auto.
  intros e1 e2 b1 b2 w0 w1 Hi0 E. eapply select_nft_resume; eauto.
Qed.
End H2.
