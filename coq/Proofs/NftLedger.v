(** * C14, the NFT-fee ledger: the contract holds in the fee asset exactly fee x (payers not yet
    settled) + the owner's not yet withdrawn NFT proceeds; claims and the withdrawal keep that,
    cannot fail for lack of the fee asset, and nothing is left at the end. *)
From Coq Require Import Permutation.
From LP Require Import Proofs.Tactics Proofs.LedgerBase Proofs.Loop Proofs.FisherYates Proofs.Frames Proofs.Filter Proofs.Alloc Proofs.Confirm Proofs.Nft.
Open Scope N_scope.

Definition fee_held (w : world) : N := bal w sc_addr (nft_tok (st w)) (nft_nonce (st w)).

Record FeeInv (w : world) : Prop := {
  fi_nodup : NoDup (nft_payers (st w));
  fi_sft : nft_tok (st w) <> sft_token;
  fi_bal : fee_held w = nft_amt (st w) * N.of_nat (length (nft_payers (st w))) + claimable_nft (st w)
}.

Section HFee.
Variable H : list N -> list N.

(** the completed draw turns fee x payers into fee x losers + proceeds *)
Theorem FeeInv_draw b w r w' r' b' :
  FeeInv w -> nft_winners (st w) = [] -> claimable_nft (st w) = 0 ->
  select_nft_winners H b w r = Ok (w', r', true, b') ->
  FeeInv (set_claimable_nft w') /\
  claimable_nft (st (set_claimable_nft w')) =
    nft_amt (st w) * N.min (total_nfts (st w)) (N.of_nat (length (nft_payers (st w)))).
Proof.
  intros [Hnd Hsft Hbal] Hw0 Hc0 E.
  pose proof (select_nft_winners_spec H b w r w' r' b' Hnd Hw0 E) as Hs. cbn zeta in Hs.
  destruct Hs as (Hndw & _ & Hperm & Hlen & Hb & _ & Htf & _).
  assert (Hterms : nft_tok (st w') = nft_tok (st w) /\ nft_nonce (st w') = nft_nonce (st w) /\ nft_amt (st w') = nft_amt (st w)).
  { unfold tf, terms_of in Htf. inversion Htf. auto. }
  destruct Hterms as (Ht & Hn & Ha).
  assert (Hndp : NoDup (nft_payers (st w'))).
  { assert (Hx : NoDup (nft_payers (st w') ++ nft_winners (st w'))) by (eapply Permutation_NoDup; [apply Permutation_sym, Hperm|exact Hnd]).
    eapply NoDup_app_l; eauto. }
  pose proof (Permutation_length Hperm) as Hpl. rewrite app_length in Hpl.
  split.
  - constructor; unfold set_claimable_nft; rewrite ?st_set_st; cbn.
    + exact Hndp.
    + rewrite Ht. exact Hsft.
    + unfold fee_held. rewrite ?st_set_st, ?bal_set_st. cbn. rewrite Ht, Hn, Ha, Hb.
      unfold fee_held in Hbal. rewrite Hbal, Hc0. nia.
  - unfold set_claimable_nft. rewrite st_set_st. cbn. rewrite Ha, Hlen. reflexivity.
Qed.
End HFee.

(** a claim: a loser gets the fee back, a winner or a non-payer nothing; never blocked *)
Theorem FeeInv_claim e w :
  FeeInv w -> sft_ready (st w) = true -> caller e <> sc_addr ->
  exists w', claim_nft e w = Ok w' /\ FeeInv w' /\ claimable_nft (st w') = claimable_nft (st w) /\
    let a := caller e in
    nft_payers (st w') = (if mem a (nft_winners (st w)) then nft_payers (st w)
                          else if mem a (nft_payers (st w)) then swap_remove a (nft_payers (st w)) else nft_payers (st w)).
Proof.
  intros [Hnd Hsft Hbal] Hready Hne. unfold claim_nft. rewrite Hready. cbn [require bind].
  cbn zeta. unfold fee_held in Hbal.
  destruct (mem (caller e) (nft_winners (st w))) eqn:Ew.
  - (* a drawn participant *)
    cbn [N.eqb]. eexists. split; [reflexivity|]. split; [|split; reflexivity].
    constructor; cbn; auto. unfold fee_held. cbn.
    rewrite upd_bal_other; [exact Hbal|]. intros Hx; inversion Hx; congruence.
  - destruct (mem (caller e) (nft_payers (st w))) eqn:Ep.
    + (* a payer who was not drawn: the fee goes back *)
      apply mem_In in Ep. destruct (swap_remove_facts (caller e) _ Hnd Ep) as (Hnd1 & _ & _ & Hlen).
      assert (Hf : nft_amt (st w) <= bal w sc_addr (nft_tok (st w)) (nft_nonce (st w))).
      { rewrite Hbal. destruct (nft_payers (st w)); [destruct Ep|]. cbn [length]. nia. }
      cbn [N.eqb].
      match goal with |- context [transfer ?ww ?x ?y ?t ?k ?am] =>
        assert (Hfw : am <= bal ww x t k) by (cbn; rewrite upd_bal_other; [exact Hf|intros Hx; inversion Hx; congruence]);
        rewrite (proj2 (transfer_ok ww x y t k am _) (conj Hfw eq_refl)) end.
      eexists. split; [reflexivity|]. split; [|split; reflexivity].
      constructor; cbn; auto. unfold fee_held. cbn.
      rewrite bal_after_from by congruence. rewrite upd_bal_other by (intros Hx; inversion Hx; congruence).
      rewrite Hbal. nia.
    + cbn [N.eqb]. eexists. split; [reflexivity|]. split; [|split; reflexivity].
      constructor; cbn; auto. unfold fee_held. cbn.
      rewrite upd_bal_other; [exact Hbal|]. intros Hx; inversion Hx; congruence.
Qed.

(** the owner's NFT proceeds: exactly what the draw recorded, never blocked *)
Theorem FeeInv_owner e w :
  FeeInv w -> get_launch_stage e (st w) = Claim -> caller e <> sc_addr ->
  exists w', claim_nft_payment e w = Ok w' /\ FeeInv w' /\ claimable_nft (st w') = 0 /\
    nft_payers (st w') = nft_payers (st w) /\
    bal w' (caller e) (nft_tok (st w)) (nft_nonce (st w)) =
    bal w (caller e) (nft_tok (st w)) (nft_nonce (st w)) + claimable_nft (st w).
Proof.
  intros [Hnd Hsft Hbal] Hstage Hne. unfold claim_nft_payment, require_stage. rewrite Hstage. cbn [stage_eqb require bind].
  unfold fee_held in Hbal.
  destruct (N.ltb_spec 0 (claimable_nft (st w))) as [Hp|Hz].
  - assert (Hf : claimable_nft (st w) <= bal w sc_addr (nft_tok (st w)) (nft_nonce (st w))) by (rewrite Hbal; lia).
    rewrite (proj2 (transfer_ok w sc_addr (caller e) _ _ _ _) (conj Hf eq_refl)). cbn [bind].
    eexists. split; [reflexivity|]. rewrite st_set_st. cbn.
    split; [|split; [reflexivity|split; [reflexivity|rewrite bal_after_to by congruence; reflexivity]]].
    constructor; rewrite ?st_set_st; cbn; auto.
    unfold fee_held. rewrite ?st_set_st, ?bal_set_st. cbn. rewrite bal_after_from by congruence. rewrite Hbal. lia.
  - exists w. split; [reflexivity|]. split; [constructor; auto|]. split; [lia|]. split; [reflexivity|]. lia.
Qed.

(** everybody settled, proceeds withdrawn: nothing of the fee asset is left *)
Theorem FeeInv_drained w : FeeInv w -> nft_payers (st w) = [] -> claimable_nft (st w) = 0 -> fee_held w = 0.
Proof. intros [_ _ Hb] Hp Hc. rewrite Hb, Hp, Hc. cbn. lia. Qed.

(** ** the confirmation window: every fee payment adds one fee, every blacklisted payer takes one back *)
Lemma credit_parsed p : pay_wf p -> forall w from w1 t n a,
  from <> sc_addr -> egld_or_single_esdt p = Ok (t, n, a) ->
  credit_payment w from p = Ok w1 ->
  st w1 = st w /\ bal w1 sc_addr t n = bal w sc_addr t n + a.
Proof.
  intros Hwf w from w1 t n a Hne Hp Hc.
  split; [eapply credit_payment_st; eauto|].
  destruct Hwf as [-> | [(x & ->) | (Hnn & Hall)]].
  - cbn in Hp, Hc. inversion Hp; subst. inversion Hc; subst. lia.
  - cbn in Hp. inversion Hp; subst. cbn in Hc. apply bind_ok in Hc. destruct Hc as (w2 & Ht & Hc). inversion Hc; subst.
    apply transfer_ok in Ht. destruct Ht as [_ ->]. cbn. apply bal_after_to. congruence.
  - unfold egld_or_single_esdt in Hp. rewrite (esdt_transfers_all p Hall) in Hp.
    destruct p as [|[[t0 n0] a0] [|y p']]; try discriminate; [contradiction|]. inversion Hp; subst.
    cbn in Hc. apply bind_ok in Hc. destruct Hc as (w2 & Ht & Hc). inversion Hc; subst.
    apply transfer_ok in Ht. destruct Ht as [_ ->]. cbn. apply bal_after_to. congruence.
Qed.

Section HFeeWindow.
Variable H : list N -> list N.

Theorem FeeInv_confirm_nft v e b sd w w' r :
  pay_wf (pay e) -> caller e <> sc_addr -> FeeInv w ->
  exec H v e b sd w CConfirmNft = Ok (w', r) ->
  FeeInv w' /\ nft_payers (st w') = nft_payers (st w) ++ [caller e] /\ claimable_nft (st w') = claimable_nft (st w).
Proof.
  intros Hwf Hcs [Hnd Hsft Hbal] E. unfold exec in E. cbn [payable bind] in E.
  apply bind_ok in E. destruct E as (w1 & Hcr & E). cbn [dispatch] in E.
  destruct (has_nft v); [|discriminate]. unfold ret0 in E. mon_inv.
  match goal with Hd : confirm_nft _ _ = Ok _ |- _ => apply confirm_nft_spec in Hd;
    destruct Hd as (_ & _ & _ & Hm & Hp & Hs & Hb & _) end.
  destruct (credit_parsed (pay e) Hwf _ _ _ _ _ _ Hcs Hp Hcr) as [Hs1 Hb1]. cbn in Hs1, Hb1.
  rewrite Hs1 in *.
  split; [|rewrite Hs; cbn; auto].
  constructor; rewrite ?Hs; cbn; auto.
  - apply NoDup_snoc; [exact Hnd|]. intros Hi. apply mem_In in Hi. congruence.
  - unfold fee_held. rewrite Hs, Hb. cbn. rewrite Hb1. unfold fee_held in Hbal. cbn in Hbal. rewrite Hbal.
    rewrite app_length. cbn [length]. lia.
Qed.

End HFeeWindow.

(** blacklisting a batch of participants (NFT contracts): every payer among them gets the fee back *)
Theorem FeeInv_refund : forall l w w',
  FeeInv w -> ~ In sc_addr l -> refund_nft_loop w l = Ok w' ->
  FeeInv w' /\ claimable_nft (st w') = claimable_nft (st w).
Proof.
  induction l as [|u l IH]; intros w w' Hi Hsc E; cbn [refund_nft_loop] in E; [inversion E; subst; auto|].
  destruct (mem u (nft_payers (st w))) eqn:Em.
  - apply bind_ok in E. destruct E as (w1 & Ht & E).
    apply transfer_ok in Ht. destruct Ht as [_ ->].
    destruct Hi as [Hnd Hsft Hbal]. apply mem_In in Em.
    destruct (swap_remove_facts u _ Hnd Em) as (Hnd1 & _ & _ & Hlen).
    assert (Hu : u <> sc_addr) by (intros ->; apply Hsc; now left).
    assert (Hi1 : FeeInv (set_st w (st w <| nft_payers := swap_remove u (nft_payers (st w)) |>)
                          <| bal := bal_after (bal (set_st w (st w <| nft_payers := swap_remove u (nft_payers (st w)) |>)))
                                              sc_addr u (nft_tok (st w)) (nft_nonce (st w)) (nft_amt (st w)) |>)).
    { constructor; cbn; auto. unfold fee_held. cbn. rewrite bal_after_from by congruence.
      unfold fee_held in Hbal. rewrite Hbal. destruct (nft_payers (st w)); [destruct Em|]. cbn [length] in *. nia. }
    destruct (IH _ _ Hi1 ltac:(intros Hx; apply Hsc; now right) E) as [Hi' Hc']. split; [exact Hi'|rewrite Hc'; reflexivity].
  - apply IH; auto. intros Hx; apply Hsc; now right.
Qed.
