(** * C14, the NFT-fee ledger: the contract holds in the fee asset exactly fee x (payers not yet
    settled) + the owner's not yet withdrawn NFT proceeds; claims and the withdrawal keep that,
    cannot fail for lack of the fee asset, and nothing is left at the end. *)
From Coq Require Import Permutation.
From LP Require Import Proofs.Tactics Proofs.LedgerBase Proofs.Loop Proofs.FisherYates Proofs.Frames Proofs.Nft.
Open Scope N_scope.

Definition fee_held (w : world) : N := bal w sc_addr (nft_tok (st w)) (nft_nonce (st w)).

Record FeeInv (w : world) : Prop := {
  fi_nodup : NoDup (nft_payers (st w));
  fi_sft : nft_tok (st w) <> sft_token;
  fi_bal : fee_held w = nft_amt (st w) * N.of_nat (length (nft_payers (st w))) + claimable_nft (st w)
}.

Section HFee.
Variable H : list N -> list N.

(** the completed draw turns fee x payers into fee x losers + proceeds *)
Theorem FeeInv_draw b w r w' r' b' :
  FeeInv w -> nft_winners (st w) = [] -> claimable_nft (st w) = 0 ->
  select_nft_winners H b w r = Ok (w', r', true, b') ->
  FeeInv (set_claimable_nft w') /\
  claimable_nft (st (set_claimable_nft w')) =
    nft_amt (st w) * N.min (total_nfts (st w)) (N.of_nat (length (nft_payers (st w)))).
Proof.
  intros [Hnd Hsft Hbal] Hw0 Hc0 E.
  pose proof (select_nft_winners_spec H b w r w' r' b' Hnd Hw0 E) as Hs. cbn zeta in Hs.
  destruct Hs as (Hndw & _ & Hperm & Hlen & Hb & _ & Htf & _).
  assert (Hterms : nft_tok (st w') = nft_tok (st w) /\ nft_nonce (st w') = nft_nonce (st w) /\ nft_amt (st w') = nft_amt (st w)).
  { unfold tf, terms_of in Htf. inversion Htf. auto. }
  destruct Hterms as (Ht & Hn & Ha).
  assert (Hndp : NoDup (nft_payers (st w'))).
  { assert (Hx : NoDup (nft_payers (st w') ++ nft_winners (st w'))) by (eapply Permutation_NoDup; [apply Permutation_sym, Hperm|exact Hnd]).
    eapply NoDup_app_l; eauto. }
  pose proof (Permutation_length Hperm) as Hpl. rewrite app_length in Hpl.
  split.
  - constructor; unfold set_claimable_nft; rewrite ?st_set_st; cbn.
    + exact Hndp.
    + rewrite Ht. exact Hsft.
    + unfold fee_held. rewrite ?st_set_st, ?bal_set_st. cbn. rewrite Ht, Hn, Ha, Hb.
      unfold fee_held in Hbal. rewrite Hbal, Hc0. nia.
  - unfold set_claimable_nft. rewrite st_set_st. cbn. rewrite Ha, Hlen. reflexivity.
Qed.
End HFee.

(** a claim: a loser gets the fee back, a winner or a non-payer nothing; never blocked *)
Theorem FeeInv_claim e w :
  FeeInv w -> sft_ready (st w) = true -> caller e <> sc_addr ->
  exists w', claim_nft e w = Ok w' /\ FeeInv w' /\ claimable_nft (st w') = claimable_nft (st w) /\
    let a := caller e in
    nft_payers (st w') = (if mem a (nft_winners (st w)) then nft_payers (st w)
                          else if mem a (nft_payers (st w)) then swap_remove a (nft_payers (st w)) else nft_payers (st w)).
Proof.
  intros [Hnd Hsft Hbal] Hready Hne. unfold claim_nft. rewrite Hready. cbn [require bind].
  cbn zeta. unfold fee_held in Hbal.
  destruct (mem (caller e) (nft_winners (st w))) eqn:Ew.
  - (* a drawn participant *)
    cbn [N.eqb]. eexists. split; [reflexivity|]. split; [|split; reflexivity].
    constructor; cbn; auto. unfold fee_held. cbn.
    rewrite upd_bal_other; [exact Hbal|]. intros Hx; inversion Hx; congruence.
  - destruct (mem (caller e) (nft_payers (st w))) eqn:Ep.
    + (* a payer who was not drawn: the fee goes back *)
      apply mem_In in Ep. destruct (swap_remove_facts (caller e) _ Hnd Ep) as (Hnd1 & _ & _ & Hlen).
      assert (Hf : nft_amt (st w) <= bal w sc_addr (nft_tok (st w)) (nft_nonce (st w))).
      { rewrite Hbal. destruct (nft_payers (st w)); [destruct Ep|]. cbn [length]. nia. }
      cbn [N.eqb].
      match goal with |- context [transfer ?ww ?x ?y ?t ?k ?am] =>
        assert (Hfw : am <= bal ww x t k) by (cbn; rewrite upd_bal_other; [exact Hf|intros Hx; inversion Hx; congruence]);
        rewrite (proj2 (transfer_ok ww x y t k am _) (conj Hfw eq_refl)) end.
      eexists. split; [reflexivity|]. split; [|split; reflexivity].
      constructor; cbn; auto. unfold fee_held. cbn.
      rewrite bal_after_from by congruence. rewrite upd_bal_other by (intros Hx; inversion Hx; congruence).
      rewrite Hbal. nia.
    + cbn [N.eqb]. eexists. split; [reflexivity|]. split; [|split; reflexivity].
      constructor; cbn; auto. unfold fee_held. cbn.
      rewrite upd_bal_other; [exact Hbal|]. intros Hx; inversion Hx; congruence.
Qed.

(** the owner's NFT proceeds: exactly what the draw recorded, never blocked *)
Theorem FeeInv_owner e w :
  FeeInv w -> get_launch_stage e (st w) = Claim -> caller e <> sc_addr ->
  exists w', claim_nft_payment e w = Ok w' /\ FeeInv w' /\ claimable_nft (st w') = 0 /\
    nft_payers (st w') = nft_payers (st w) /\
    bal w' (caller e) (nft_tok (st w)) (nft_nonce (st w)) =
    bal w (caller e) (nft_tok (st w)) (nft_nonce (st w)) + claimable_nft (st w).
Proof.
  intros [Hnd Hsft Hbal] Hstage Hne. unfold claim_nft_payment, require_stage. rewrite Hstage. cbn [stage_eqb require bind].
  unfold fee_held in Hbal.
  destruct (N.ltb_spec 0 (claimable_nft (st w))) as [Hp|Hz].
  - assert (Hf : claimable_nft (st w) <= bal w sc_addr (nft_tok (st w)) (nft_nonce (st w))) by (rewrite Hbal; lia).
    rewrite (proj2 (transfer_ok w sc_addr (caller e) _ _ _ _) (conj Hf eq_refl)). cbn [bind].
    eexists. split; [reflexivity|]. rewrite st_set_st. cbn.
    split; [|split; [reflexivity|split; [reflexivity|rewrite bal_after_to by congruence; reflexivity]]].
    constructor; rewrite ?st_set_st; cbn; auto.
    unfold fee_held. rewrite ?st_set_st, ?bal_set_st. cbn. rewrite bal_after_from by congruence. rewrite Hbal. lia.
  - exists w. split; [reflexivity|]. split; [constructor; auto|]. split; [lia|]. split; [reflexivity|]. lia.
Qed.

(** everybody settled, proceeds withdrawn: nothing of the fee asset is left *)
Theorem FeeInv_drained w : FeeInv w -> nft_payers (st w) = [] -> claimable_nft (st w) = 0 -> fee_held w = 0.
Proof. intros [_ _ Hb] Hp Hc. rewrite Hb, Hp, Hc. cbn. lia. Qed.
