(** * Lemmas and tactics for reasoning about the result monad. *)
From Coq Require Export ZArith Lia ZifyBool ZifyNat ZifyN.
From LP Require Export Model.Exec.
Open Scope N_scope.
Ltac Zify.zify_post_hook ::= Z.div_mod_to_equations.

Arguments N.add : simpl never.
Arguments N.sub : simpl never.
Arguments N.mul : simpl never.
Arguments N.div : simpl never.
Arguments N.modulo : simpl never.
Arguments N.eqb : simpl never.
Arguments N.ltb : simpl never.
Arguments N.leb : simpl never.

Lemma bind_ok {A B} (r : res A) (f : A -> res B) b :
  bind r f = Ok b <-> exists a, r = Ok a /\ f a = Ok b.
Proof.
  split.
  - destruct r as [a|k]; simpl; intros E; [exists a; auto | discriminate].
  - intros (a & -> & E). exact E.
Qed.

Lemma bind_err {A B} (r : res A) (f : A -> res B) k :
  bind r f = Err k <-> r = Err k \/ exists a, r = Ok a /\ f a = Err k.
Proof.
  split.
  - destruct r as [a|k']; simpl; intros E; [right; exists a; auto | left; congruence].
  - intros [-> | (a & -> & E)]; auto.
Qed.

Lemma require_ok c : require c = Ok tt <-> c = true.
Proof. unfold require. destruct c; split; congruence. Qed.
Lemma require_ok' c u : require c = Ok u -> c = true.
Proof. unfold require. destruct c; congruence. Qed.
Lemma require_true c : c = true -> require c = Ok tt.
Proof. intros ->. reflexivity. Qed.
Lemma assert_nopanic_ok c u : assert_nopanic c = Ok u -> c = true.
Proof. unfold assert_nopanic. destruct c; congruence. Qed.

Lemma usub_ok a b c : usub a b = Ok c <-> b <= a /\ c = a - b.
Proof.
  unfold usub. destruct (N.leb_spec b a); split.
  - intros E; inversion E; auto.
  - intros [_ ->]; reflexivity.
  - discriminate.
  - intros [L _]; lia.
Qed.
Lemma bsub_ok a b c : bsub a b = Ok c <-> b <= a /\ c = a - b.
Proof.
  unfold bsub. destruct (N.leb_spec b a); split.
  - intros E; inversion E; auto.
  - intros [_ ->]; reflexivity.
  - discriminate.
  - intros [L _]; lia.
Qed.

(** break [bind .. = Ok _] hypotheses into their parts *)
Ltac mon_inv :=
  repeat match goal with
  | H : bind _ _ = Ok _ |- _ =>
      let a := fresh "a" in let E := fresh "E" in
      apply bind_ok in H; destruct H as (a & E & H)
  | H : require _ = Ok _ |- _ => apply require_ok' in H
  | H : assert_nopanic _ = Ok _ |- _ => apply assert_nopanic_ok in H
  | H : usub _ _ = Ok _ |- _ => apply usub_ok in H; destruct H as [? ?]
  | H : bsub _ _ = Ok _ |- _ => apply bsub_ok in H; destruct H as [? ?]
  | H : Ok _ = Ok _ |- _ => inversion H; subst; clear H
  | H : Err _ = Ok _ |- _ => discriminate H
  | a : unit |- _ => destruct a
  end.

Lemma stage_eqb_eq a b : stage_eqb a b = true <-> a = b.
Proof. destruct a, b; unfold stage_eqb; simpl; split; intros; try reflexivity; try discriminate. Qed.

Lemma require_stage_ok e s g u : require_stage e s g = Ok u -> get_launch_stage e s = g.
Proof. unfold require_stage. intros H. apply require_ok' in H. now apply stage_eqb_eq. Qed.

(** projections of updated worlds *)
Lemma st_set_st w s : st (set_st w s) = s. Proof. reflexivity. Qed.
Lemma bal_set_st w s : bal (set_st w s) = bal w. Proof. reflexivity. Qed.
Lemma evs_set_st w s : evs (set_st w s) = evs w. Proof. reflexivity. Qed.
Lemma rlog_set_st w s : rlog (set_st w s) = rlog w. Proof. reflexivity. Qed.
Lemma locks_set_st w s : locks (set_st w s) = locks w. Proof. reflexivity. Qed.
Lemma seeds_set_st w s : seeds (set_st w s) = seeds w. Proof. reflexivity. Qed.
Lemma set_st_set_st w s s' : set_st (set_st w s) s' = set_st w s'. Proof. reflexivity. Qed.
Lemma st_emit w n l : st (emit w n l) = st w. Proof. reflexivity. Qed.
Lemma bal_emit w n l : bal (emit w n l) = bal w. Proof. reflexivity. Qed.
#[export] Hint Rewrite st_set_st bal_set_st evs_set_st rlog_set_st locks_set_st seeds_set_st set_st_set_st st_emit bal_emit : world.

Lemma sumN_cons x l : sumN (x :: l) = x + sumN l.
Proof. reflexivity. Qed.
Lemma sumN_nil : sumN [] = 0.
Proof. reflexivity. Qed.
Lemma sumN_app l1 l2 : sumN (l1 ++ l2) = sumN l1 + sumN l2.
Proof. induction l1 as [|a l IH]; cbn [app]; rewrite ?sumN_nil, ?sumN_cons; lia. Qed.
