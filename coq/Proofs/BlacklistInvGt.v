(** * C10 from deployment for the four contracts with guaranteed tickets (gt1, mig, lgt, gt2): along
    every set-up history (allocations with guarantees, deposit, confirmations, blacklisting with or
    without refund, un-blacklisting, schedule and configuration setters, pause) a blacklisted
    participant has no confirmed ticket; hence after filterTickets - however it was interrupted - it
    owns no ticket range, holds no ticket in the draw and its claim is rejected. *)
From LP Require Import Proofs.Tactics Proofs.LedgerBase Proofs.Loop Proofs.Gates Proofs.Frames Proofs.Filter
  Proofs.Alloc Proofs.Confirm Proofs.Settle Proofs.Ledger Proofs.Resume Proofs.Partition Proofs.Lifecycle Proofs.Setup
  Proofs.Vesting Proofs.SetupGt Proofs.SetupVested Proofs.Tiling Proofs.BlacklistInv.
Open Scope N_scope.

(** what a set-up step may do to the two fields [BlInv] reads: keep the confirmations, shrink the blacklist *)
Definition cb_le (s s' : state) : Prop :=
  confirmed s' = confirmed s /\ forall a, blacklisted s' a = true -> blacklisted s a = true.

Lemma BlInv_cb_le w w' : BlInv w -> cb_le (st w) (st w') -> BlInv w'.
Proof. intros Hi [Hc Hb] a Ha. rewrite Hc. apply Hi. apply Hb. exact Ha. Qed.

Lemma cb_le_alloc_only s s' : alloc_only s s' -> cb_le s s'.
Proof. intros (r & b & la & g & u & ->). split; [reflexivity|intros a Ha; exact Ha]. Qed.

Lemma cb_le_gt_only s s' nw tg : gt_only s s' -> cb_le s (s' <| nr_winning := nw |> <| total_guaranteed := tg |>).
Proof. intros (g & u & b & ->). split; [reflexivity|intros a Ha; exact Ha]. Qed.

Lemma BlInv_gt_only w s' nw tg :
  BlInv w -> gt_only (st w) s' -> BlInv (set_st w (s' <| nr_winning := nw |> <| total_guaranteed := tg |>)).
Proof. intros Hi Ho. eapply BlInv_cb_le; [exact Hi|]. rewrite st_set_st. apply cb_le_gt_only. exact Ho. Qed.

Lemma BlInv_ext w w' : st w' = st w -> BlInv w -> BlInv w'.
Proof. intros Hs Hi a. rewrite Hs. apply Hi. Qed.

Theorem BlInv_blacklist v we e w la w' :
  guar v -> BlInv w -> blacklist_endpoint v we e w la = Ok w' -> BlInv w'.
Proof.
  intros Hv Hp E. unfold blacklist_endpoint in E.
  apply bind_ok in E. destruct E as (w1 & H1 & E).
  unfold add_users_to_blacklist in H1. apply bind_ok in H1. destruct H1 as (u1 & _ & H1). apply bind_ok in H1. destruct H1 as (u2 & _ & H1).
  pose proof (blacklist_loop_BlInv e la w w1 H1 Hp) as Hp1.
  apply bind_ok in E. destruct E as (w2 & H2 & E).
  assert (Hp2 : BlInv w2).
  { destruct Hv as [-> | [-> | [-> | ->]]].
    1,2,3: unfold clear_gt_after_blacklist_v1 in H2; apply bind_ok in H2; destruct H2 as ([[s1 rm] tg] & Hl & H2);
      inversion H2; subst w2; clear H2; destruct (clear_gt_loop_v1_only _ _ _ _ _ _ _ Hl) as [Ho Hn];
      destruct (0 <? rm);
      [ apply BlInv_gt_only; [exact Hp1|exact Ho]
      | replace (s1 <| total_guaranteed := tg |>) with (s1 <| nr_winning := nr_winning s1 |> <| total_guaranteed := tg |>) by (destruct s1; reflexivity);
        apply BlInv_gt_only; [exact Hp1|exact Ho] ].
    unfold clear_gt_after_blacklist_v2 in H2; apply bind_ok in H2; destruct H2 as ([[s1 nw] tg] & Hl & H2);
      inversion H2; subst w2; clear H2; destruct (clear_gt_loop_v2_only _ _ _ _ _ _ _ Hl) as [Ho Hn].
    apply BlInv_gt_only; [exact Hp1|exact Ho]. }
  apply bind_ok in E. destruct E as (w3 & H3 & E).
  assert (w3 = w2) by (destruct Hv as [-> | [-> | [-> | ->]]]; cbn [has_nft] in H3; inversion H3; reflexivity). subst w3.
  inversion E; subst w'; clear E.
  destruct Hv as [-> | [-> | [-> | ->]]]; try exact Hp2.
  destruct we; [|exact Hp2]. eapply BlInv_ext; [|exact Hp2]. reflexivity.
Qed.

Theorem BlInv_unblacklist v e w la w' :
  guar v -> BlInv w -> unblacklist_endpoint v e w la = Ok w' -> BlInv w'.
Proof.
  intros Hv Hp E. unfold unblacklist_endpoint in E.
  apply bind_ok in E. destruct E as (w1 & H1 & E).
  unfold remove_users_from_blacklist in H1. apply bind_ok in H1. destruct H1 as (u1 & _ & H1). apply bind_ok in H1. destruct H1 as (u2 & _ & H1).
  apply bind_ok in H1. destruct H1 as (s1 & Hl & H1). inversion H1; subst w1; clear H1.
  destruct (unblacklist_loop_facts _ _ _ Hl) as (_ & _ & Hback).
  destruct (unblacklist_loop_only _ _ _ Hl) as (bl & Hs1).
  assert (Hp1 : BlInv (set_st w s1)).
  { eapply BlInv_cb_le; [exact Hp|]. rewrite st_set_st. split; [rewrite Hs1; reflexivity|].
    intros a Ha. apply (Hback a Ha). }
  clear Hs1 Hback Hl.
  destruct Hv as [-> | [-> | [-> | ->]]]; try discriminate.
  1,2: unfold unblacklist_gt_v1 in E; apply bind_ok in E; destruct E as ([[s2 nw] tg] & Hl2 & E); inversion E; subst w'; clear E;
       destruct (unbl_gt_loop_v1_only _ _ _ _ _ _ _ Hl2) as [Ho Hn];
       apply (BlInv_gt_only (set_st w s1)); [exact Hp1|exact Ho].
  apply bind_ok in E. destruct E as (w2 & H2 & E). inversion E; subst w'; clear E.
  unfold unblacklist_gt_v2 in H2. apply bind_ok in H2. destruct H2 as ([[s2 nw] tg] & Hl2 & H2). inversion H2; subst w2; clear H2.
  destruct (unbl_gt_loop_v2_only _ _ _ _ _ _ _ Hl2) as [Ho Hn].
  eapply BlInv_ext; [|apply (BlInv_gt_only (set_st w s1)); [exact Hp1|exact Ho]]. reflexivity.
Qed.

Section HBlGt.
Variable H : list N -> list N.

Ltac open_plain E w0 :=
  unfold exec in E; cbn [payable] in E; fold w0 in E;
  apply bind_ok in E; destruct E as (?u & ?Hnp & E); apply no_payment_nil in Hnp; rewrite Hnp in E;
  cbn [credit_payment bind] in E; cbn [dispatch] in E; unfold ret0 in E; mon_inv.

Theorem BlInv_exec_common v e b sd w c w' r :
  BlInv w -> common_call c -> pay_wf (pay e) ->
  exec H v e b sd w c = Ok (w', r) -> BlInv w'.
Proof.
  intros Hi Hc Hwf E.
  set (w0 := w <| evs := [] |> <| rlog := [] |> <| locks := [] |> <| seeds := sd |>).
  assert (Hi0 : BlInv w0) by exact Hi.
  destruct Hc as [ | n | | | r0 | r0 | r0 | a | a].
  - unfold exec in E. cbn [payable] in E. fold w0 in E. cbn [bind] in E.
    apply bind_ok in E. destruct E as (w1 & Hcr & E).
    cbn [dispatch] in E. unfold ret0 in E. mon_inv.
    match goal with Hd : deposit_launchpad_tokens _ _ _ = Ok _ |- _ => apply (deposit_iff _ _ _ _ Hwf) in Hd; destruct Hd as (_ & _ & _ & ->) end.
    pose proof (credit_payment_st _ _ _ _ Hcr) as Hs1. unfold BlInv. rewrite st_set_st, Hs1. exact Hi0.
  - apply (exec_confirm_iff H v e b sd w n w' r Hwf) in E. destruct E as (w1 & Hcr & Hcond & -> & _).
    pose proof (credit_payment_st _ _ _ _ Hcr) as Hs1. unfold reset_outputs in Hs1. cbn in Hs1.
    destruct Hcond as (_ & _ & _ & _ & Hnb & _).
    unfold BlInv, confirm_effect. rewrite st_emit, st_set_st, Hs1. cbn. intros a Ha.
    unfold upd. destruct (N.eqb_spec a (caller e)) as [->|Hne]; [congruence|apply Hi; exact Ha].
  - open_plain E w0.
    match goal with Hd : pause_endpoint _ _ = Ok _ |- _ => apply gate_pause in Hd; destruct Hd as (_ & Hs & _) end.
    unfold BlInv. rewrite Hs. exact Hi0.
  - open_plain E w0.
    match goal with Hd : unpause_endpoint _ _ = Ok _ |- _ => apply gate_unpause in Hd; destruct Hd as (_ & Hs & _) end.
    unfold BlInv. rewrite Hs. exact Hi0.
  - open_plain E w0.
    match goal with Hd : set_confirmation_period_start_round _ _ _ = Ok _ |- _ => apply gate_set_conf in Hd; destruct Hd as (_ & _ & _ & Hs & _) end.
    unfold BlInv. rewrite Hs. exact Hi0.
  - open_plain E w0.
    match goal with Hd : set_winner_selection_start_round _ _ _ = Ok _ |- _ => apply gate_set_ws in Hd; destruct Hd as (_ & _ & _ & Hs & _) end.
    unfold BlInv. rewrite Hs. exact Hi0.
  - open_plain E w0.
    match goal with Hd : set_claim_start_round _ _ _ = Ok _ |- _ => apply gate_set_claim in Hd; destruct Hd as (_ & _ & _ & Hs & _) end.
    unfold BlInv. rewrite Hs. exact Hi0.
  - open_plain E w0.
    match goal with Hd : set_support_address _ _ _ = Ok _ |- _ => unfold set_support_address in Hd; mon_inv end.
    exact Hi0.
  - open_plain E w0.
    match goal with Hd : set_launchpad_tokens_per_winning_ticket _ _ _ = Ok _ |- _ =>
      unfold set_launchpad_tokens_per_winning_ticket, try_set_tpt in Hd; mon_inv end.
    exact Hi0.
Qed.

Theorem setup_reach_gt_BlInv v w : guar v -> setup_reach_gt H v w -> BlInv w.
Proof.
  intros Hv Hreach. pose proof Hreach as Hreach0.
  induction Hreach as [e lp tpt0 ptok price0 nrw conf ws claim x s Hd Hlp
                            | w e b sd c w' r Hr IH Hc Hwf Hcs E
                            | w e b sd lx w' r Hr IH Hpos Hsc E
                            | w e b sd lx w' r Hr IH Hsc E
                            | w e b sd la w' r Hr IH Hsc E
                            | w e b sd la w' r Hr IH Hsc E
                            | w e b sd la w' r Hr IH E
                            | w e b sd a0 b0 c0 d0 p0 w' r Hr IH E
                            | w e b sd ls w' r Hr IH E].
  - unfold deploy in Hd.
    assert (Hb : blacklisted s = (fun _ => false)).
    { destruct Hv as [-> | [-> | [-> | ->]]]; cbn [has_nft is_v1 has_lock has_extra negb] in Hd; mon_inv;
        repeat match goal with Hl : lock_init _ _ _ _ _ = Ok _ |- _ => unfold lock_init in Hl; mon_inv end;
        match goal with Hinit : init_base _ _ _ _ _ _ _ _ _ _ = Ok _ |- _ =>
          unfold init_base, try_set_tpt, try_set_ticket_price, try_set_nr_winning in Hinit; mon_inv end;
        reflexivity. }
    intros a Ha. cbn in Ha. rewrite Hb in Ha. discriminate.
  - eapply BlInv_exec_common; [apply IH; exact Hr| | |]; eauto.
  - specialize (IH Hr). pose proof (setup_reach_gt_LpInv H v w Hv Hr) as HL.
    set (w0 := w <| evs := [] |> <| rlog := [] |> <| locks := [] |> <| seeds := sd |>).
    assert (Hi0 : BlInv w0) by exact IH.
    assert (HL0 : LpInv (vflag v) w0) by (eapply LpInv_ext; [| |exact HL]; reflexivity).
    unfold exec in E. cbn [payable] in E. fold w0 in E.
    apply bind_ok in E. destruct E as (u & Hnp & E). apply no_payment_nil in Hnp. rewrite Hnp in E.
    cbn [credit_payment bind] in E. cbn [dispatch] in E.
    destruct (is_v1 v) eqn:Hv1; [|discriminate]. unfold ret0 in E. mon_inv.
    assert (Hf : vflag v = false) by (destruct v; try reflexivity; discriminate).
    rewrite Hf in *.
    match goal with Hd : add_tickets_v1 _ _ _ = Ok _ |- _ => rename Hd into Ea end.
    unfold add_tickets_v1 in Ea.
    apply bind_ok in Ea. destruct Ea as (u' & _ & Ea).
    apply bind_ok in Ea. destruct Ea as ([[s' tw] tg] & Hloop & Ea). inversion Ea; subst; clear Ea.
    destruct (add_loop_v1_GRes _ _ _ _ _ _ _ _ Hloop (lp_res _ _ HL0)) as [_ Ha].
    eapply BlInv_cb_le; [exact Hi0|]. rewrite st_set_st.
    destruct (cb_le_alloc_only _ _ Ha) as [Hc Hb]. split; [exact Hc|exact Hb].
  - specialize (IH Hr). pose proof (setup_reach_gt_LpInv H v w Hv Hr) as HL.
    set (w0 := w <| evs := [] |> <| rlog := [] |> <| locks := [] |> <| seeds := sd |>).
    assert (Hi0 : BlInv w0) by exact IH.
    assert (HL0 : LpInv (vflag v) w0) by (eapply LpInv_ext; [| |exact HL]; reflexivity).
    unfold exec in E. cbn [payable] in E. fold w0 in E.
    apply bind_ok in E. destruct E as (u & Hnp & E). apply no_payment_nil in Hnp. rewrite Hnp in E.
    cbn [credit_payment bind] in E. cbn [dispatch] in E.
    destruct v; try discriminate. unfold ret0 in E. mon_inv.
    match goal with Hd : add_tickets_v2 _ _ _ = Ok _ |- _ => rename Hd into Ea end.
    unfold add_tickets_v2 in Ea.
    apply bind_ok in Ea. destruct Ea as (u' & _ & Ea).
    apply bind_ok in Ea. destruct Ea as ([[[[[s' tw] tg] uc] ta] ga] & Hloop & Ea). inversion Ea; subst; clear Ea.
    destruct (add_loop_v2_GRes _ _ _ _ _ _ _ _ _ _ _ _ _ Hloop (lp_res _ _ HL0)) as [_ Ha].
    eapply BlInv_cb_le; [exact Hi0|]. rewrite ?st_emit, st_set_st.
    destruct (cb_le_alloc_only _ _ Ha) as [Hc Hb]. split; [exact Hc|exact Hb].
  - specialize (IH Hr).
    set (w0 := w <| evs := [] |> <| rlog := [] |> <| locks := [] |> <| seeds := sd |>).
    assert (Hi0 : BlInv w0) by exact IH.
    unfold exec in E. cbn [payable] in E. fold w0 in E.
    apply bind_ok in E. destruct E as (u & Hnp & E). apply no_payment_nil in Hnp. rewrite Hnp in E.
    cbn [credit_payment bind] in E. cbn [dispatch] in E. unfold ret0 in E. mon_inv.
    eapply BlInv_blacklist; eauto.
  - specialize (IH Hr).
    set (w0 := w <| evs := [] |> <| rlog := [] |> <| locks := [] |> <| seeds := sd |>).
    assert (Hi0 : BlInv w0) by exact IH.
    unfold exec in E. cbn [payable] in E. fold w0 in E.
    apply bind_ok in E. destruct E as (u & Hnp & E). apply no_payment_nil in Hnp. rewrite Hnp in E.
    cbn [credit_payment bind] in E. cbn [dispatch] in E.
    destruct v; try discriminate. unfold ret0 in E. mon_inv.
    eapply (BlInv_blacklist Gt2); eauto.
  - specialize (IH Hr).
    set (w0 := w <| evs := [] |> <| rlog := [] |> <| locks := [] |> <| seeds := sd |>).
    assert (Hi0 : BlInv w0) by exact IH.
    unfold exec in E. cbn [payable] in E. fold w0 in E.
    apply bind_ok in E. destruct E as (u & Hnp & E). apply no_payment_nil in Hnp. rewrite Hnp in E.
    cbn [credit_payment bind] in E. cbn [dispatch] in E.
    destruct (has_unblacklist v); [|discriminate]. unfold ret0 in E. mon_inv.
    eapply BlInv_unblacklist; eauto.
  - specialize (IH Hr).
    set (w0 := w <| evs := [] |> <| rlog := [] |> <| locks := [] |> <| seeds := sd |>).
    assert (Hi0 : BlInv w0) by exact IH.
    unfold exec in E. cbn [payable] in E. fold w0 in E.
    apply bind_ok in E. destruct E as (u & Hnp & E). apply no_payment_nil in Hnp. rewrite Hnp in E.
    cbn [credit_payment bind] in E. cbn [dispatch] in E.
    destruct v; try discriminate. unfold ret0 in E. mon_inv.
    match goal with Hd : set_unlock_schedule_v1 _ _ _ _ _ _ _ = Ok _ |- _ => apply set_unlock_schedule_v1_ok in Hd; destruct Hd as (_ & _ & _ & _ & Hs & _) end.
    unfold BlInv. rewrite Hs. exact Hi0.
  - specialize (IH Hr).
    set (w0 := w <| evs := [] |> <| rlog := [] |> <| locks := [] |> <| seeds := sd |>).
    assert (Hi0 : BlInv w0) by exact IH.
    unfold exec in E. cbn [payable] in E. fold w0 in E.
    apply bind_ok in E. destruct E as (u & Hnp & E). apply no_payment_nil in Hnp. rewrite Hnp in E.
    cbn [credit_payment bind] in E. cbn [dispatch] in E.
    destruct v; try discriminate. unfold ret0 in E. mon_inv.
    match goal with Hd : set_unlock_schedule_v2 _ _ _ = Ok _ |- _ => unfold set_unlock_schedule_v2 in Hd; mon_inv end.
    unfold BlInv. rewrite ?st_emit, ?st_set_st. exact Hi0.
Qed.

(** from deployment: whoever is blacklisted when the filter completes owns no ticket afterwards and
    its claim is rejected *)
Theorem deployed_blacklisted_excluded_gt v w0 lf wf ef bf w1 :
  guar v -> setup_reach_gt H v w0 ->
  after_interrupted filter_tickets lf w0 = Some wf -> filter_tickets ef bf wf = Ok (w1, 0) ->
  forall a, blacklisted (st w0) a = true ->
    confirmed (st w1) a = 0 /\ range (st w1) a = None /\
    (forall sf e, caller e = a -> exists k, claim_launchpad_tokens sf e w1 = Err k).
Proof.
  intros Hv Hr Haf Ef a Ha.
  pose proof (setup_reach_gt_BlInv v w0 Hv Hr a Ha) as Hc0.
  destruct (deployed_tiling_gt H v w0 lf wf ef bf w1 Hv Hr Haf Ef) as (l & Hlay & _ & _ & Hcf & Hnone & _).
  assert (Hc1 : confirmed (st w1) a = 0) by (rewrite Hcf; exact Hc0).
  assert (Hr1 : range (st w1) a = None).
  { destruct (in_dec N.eq_dec a (map fst l)) as [Hin|Hn]; [eapply layout_zero; eauto|apply Hnone; exact Hn]. }
  split; [exact Hc1|]. split; [exact Hr1|].
  intros sf e He. apply claim_without_range_fails. rewrite He. exact Hr1.
Qed.
End HBlGt.
