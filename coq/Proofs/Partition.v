(** * After the filter the participants' ranges tile 1..total in allocation order: consequences
    used by the ledgers (C01/C02) and by the additional step (C03/C11): pairwise disjoint ranges,
    ranges inside 1..total, range size = confirmed tickets, and
    sum over participants of winning tickets = winning tickets among 1..total. *)
From Coq Require Import Permutation.
From LP Require Import Proofs.Tactics Proofs.Shuffle Proofs.Frames Proofs.Settle Proofs.Filter Proofs.Guaranteed
  Proofs.Ledger Proofs.ClaimLedger Proofs.GuaranteedLoop Proofs.Leftover.
Open Scope N_scope.

Inductive Layout (rg : N -> option (N * N)) (cf : N -> N) : N -> list N -> Prop :=
| L_nil b : Layout rg cf b []
| L_cons b a A : rg a = new_range b (cf a) -> Layout rg cf (b + cf a) A -> Layout rg cf b (a :: A).

(** the filter's conclusion, in this form *)
Lemma layout_of_filter (rg : N -> option (N * N)) (cf : N -> N) : forall (l : list (N * N)) b,
  (forall pre a n post, l = pre ++ (a, n) :: post ->
     rg a = new_range (b + sumN (map (fun x => cf (fst x)) pre)) (cf a)) ->
  Layout rg cf b (map fst l).
Proof.
  induction l as [|[a n] l IH]; intros b Hs; cbn [map fst]; constructor.
  - specialize (Hs [] a n l eq_refl). cbn in Hs. rewrite N.add_0_r in Hs. exact Hs.
  - apply IH. intros pre a' n' post E.
    specialize (Hs ((a, n) :: pre) a' n' post). cbn [app map fst] in Hs. rewrite sumN_cons in Hs.
    rewrite N.add_assoc in Hs. apply Hs. now rewrite E.
Qed.

Definition ids_of (rg : N -> option (N * N)) (a : N) : list N :=
  match rg a with Some (f, l) => range_ids f l | None => [] end.

Lemma ids_of_new rg cf b a : rg a = new_range b (cf a) -> ids_of rg a = range_ids (b + 1) (b + cf a).
Proof.
  unfold ids_of, new_range. intros ->. destruct (N.eqb_spec (cf a) 0) as [Hz|Hz]; [|reflexivity].
  rewrite Hz, N.add_0_r. symmetry. apply range_ids_nil. lia.
Qed.

Lemma range_ids_split i m n : i <= m + 1 -> m <= n -> range_ids i n = range_ids i m ++ range_ids (m + 1) n.
Proof.
  intros Him Hmn. remember (N.to_nat (m + 1 - i)) as k eqn:Hk. revert i Him Hk.
  induction k as [|k IH]; intros i Him Hk.
  - assert (i = m + 1) by lia. subst i. rewrite (range_ids_nil (m + 1) m) by lia. reflexivity.
  - rewrite (range_ids_cons i n) by lia. rewrite (range_ids_cons i m) by lia. cbn [app]. f_equal.
    apply IH; lia.
Qed.

Lemma layout_concat rg cf : forall A b, Layout rg cf b A ->
  concat (map (ids_of rg) A) = range_ids (b + 1) (b + sumN (map cf A)).
Proof.
  induction A as [|a A IH]; intros b Hl; inversion Hl as [|b' a' A' Hrg Hrest]; subst; cbn [map concat].
  - cbn. rewrite N.add_0_r. symmetry. apply range_ids_nil. lia.
  - rewrite sumN_cons. rewrite (ids_of_new rg cf b a) by assumption. rewrite (IH _ Hrest).
    rewrite (range_ids_split (b + 1) (b + cf a) (b + (cf a + sumN (map cf A)))) by lia.
    f_equal. f_equal. lia.
Qed.

Lemma layout_bounds rg cf : forall A b, Layout rg cf b A ->
  forall a t, In a A -> In t (ids_of rg a) -> b + 1 <= t <= b + sumN (map cf A).
Proof.
  induction A as [|x A IH]; intros b Hl a t Ha Ht; [destruct Ha|]. inversion Hl as [|b' a' A' Hrg Hrest]; subst.
  cbn [map]. rewrite sumN_cons. destruct Ha as [->|Ha].
  - rewrite (ids_of_new rg cf b a) in Ht by assumption. apply range_ids_In in Ht. lia.
  - specialize (IH _ Hrest a t Ha Ht). lia.
Qed.

Lemma layout_disjoint rg cf : forall A b, Layout rg cf b A -> NoDup A ->
  forall x y t, In x A -> In y A -> x <> y -> In t (ids_of rg x) -> ~ In t (ids_of rg y).
Proof.
  induction A as [|a A IH]; intros b Hl Hnd x y t Hx Hy Hne Htx Hty; [destruct Hx|].
  inversion Hl as [|b' a' A' Hrg Hrest]; subst. inversion Hnd as [|? ? Hna Hnd']; subst.
  assert (Hhead : forall t', In t' (ids_of rg a) -> b + 1 <= t' <= b + cf a).
  { intros t' Ht'. rewrite (ids_of_new rg cf b a) in Ht' by assumption. apply range_ids_In in Ht'. exact Ht'. }
  destruct Hx as [->|Hx], Hy as [->|Hy].
  - contradiction.
  - pose proof (Hhead t Htx). pose proof (layout_bounds rg cf A _ Hrest y t Hy Hty). lia.
  - pose proof (Hhead t Hty). pose proof (layout_bounds rg cf A _ Hrest x t Hx Htx). lia.
  - exact (IH _ Hrest Hnd' x y t Hx Hy Hne Htx Hty).
Qed.

Lemma count_winning_app s l1 l2 : count_winning s (l1 ++ l2) = count_winning s l1 + count_winning s l2.
Proof. unfold count_winning. rewrite filter_app, app_length. lia. Qed.

Lemma winning_of_ids s a : winning_of s a = count_winning s (ids_of (range s) a).
Proof. unfold winning_of, ids_of. destruct (range s a) as [[f l]|]; reflexivity. Qed.

Lemma layout_winsum s cf : forall A b, Layout (range s) cf b A ->
  sumN (map (winning_of s) A) = count_winning s (range_ids (b + 1) (b + sumN (map cf A))).
Proof.
  intros A b Hl. rewrite <- (layout_concat _ _ _ _ Hl). clear Hl.
  induction A as [|a A IH]; cbn [map concat]; [reflexivity|].
  rewrite sumN_cons, count_winning_app, IH, winning_of_ids. reflexivity.
Qed.

(** ** the facts the other theorems assume *)
Theorem layout_facts s A :
  Layout (range s) (confirmed s) 0 A -> NoDup A ->
  let total := sumN (map (confirmed s) A) in
  ranges_disjoint s A /\
  (forall a f la t, In a A -> range s a = Some (f, la) -> In t (range_ids f la) -> In t (range_ids 1 total)) /\
  (forall a, In a A -> winning_of s a <= confirmed s a) /\
  (forall a f la, In a A -> range s a = Some (f, la) -> N.of_nat (length (range_ids f la)) = confirmed s a) /\
  sumN (map (winning_of s) A) = count_winning s (range_ids 1 total).
Proof.
  intros Hl Hnd total.
  assert (Hids : forall a f la, range s a = Some (f, la) -> ids_of (range s) a = range_ids f la)
    by (intros a f la Hr; unfold ids_of; rewrite Hr; reflexivity).
  assert (Hsize : forall A' b, Layout (range s) (confirmed s) b A' -> forall a f la, In a A' -> range s a = Some (f, la) ->
            N.of_nat (length (range_ids f la)) = confirmed s a).
  { induction A' as [|x A' IH]; intros b Hl' a f la Ha Hr; [destruct Ha|]. inversion Hl' as [|b' a' A'' Hrg Hrest]; subst.
    destruct Ha as [->|Ha]; [|eapply IH; eauto].
    rewrite Hr in Hrg. unfold new_range in Hrg. destruct (confirmed s a =? 0); [discriminate|].
    inversion Hrg; subst. rewrite range_ids_length. lia. }
  split; [|split; [|split; [|split]]].
  - intros x y fx lx fy ly t Hx Hy Hne Erx Ery Htx. rewrite <- (Hids _ _ _ Ery).
    apply (layout_disjoint _ _ _ _ Hl Hnd x y t Hx Hy Hne). rewrite (Hids _ _ _ Erx). exact Htx.
  - intros a f la t Ha Hr Ht. apply range_ids_In.
    pose proof (layout_bounds _ _ _ _ Hl a t Ha) as Hb. rewrite (Hids _ _ _ Hr) in Hb. specialize (Hb Ht).
    fold total in Hb. lia.
  - intros a Ha. unfold winning_of. destruct (range s a) as [[f la]|] eqn:Er; [|lia].
    rewrite <- (Hsize _ _ Hl a f la Ha Er). apply count_winning_le_length.
  - intros a f la Ha Hr. eapply Hsize; eauto.
  - rewrite (layout_winsum s _ _ _ Hl). reflexivity.
Qed.

(** C01: the claim-period invariant holds once the selection is complete *)
Theorem ClaimInv_from_layout w A :
  PayInv w A -> Layout (range (st w)) (confirmed (st w)) 0 A ->
  (forall a, ~ In a A -> range (st w) a = None) ->
  count_winning (st w) (range_ids 1 (sumN (map (confirmed (st w)) A))) = nr_winning (st w) ->
  claimable_payment (st w) = price (st w) * nr_winning (st w) ->
  ClaimInv w A.
Proof.
  intros Hp Hl Hr Hc Hcp.
  destruct (layout_facts (st w) A Hl (pi_nodup _ _ Hp)) as (Hd & _ & Hle & _ & Hs).
  apply ClaimInv_start; auto. rewrite Hs. symmetry. exact Hc.
Qed.

(** the completed filter establishes the layout (C08) *)
Theorem filter_gives_layout e b w w' l :
  op (st w) = OpNone ->
  Chain (st w) (last_ticket_id (st w)) 1 l -> Owned (st w) 1 l -> NoDup (map fst l) ->
  Forall (fun x => confirmed (st w) (fst x) <= snd x /\ 0 < snd x) l ->
  filter_tickets e b w = Ok (w', 0) ->
  let A := map fst l in
  Layout (range (st w')) (confirmed (st w')) 0 A /\ NoDup A /\
  last_ticket_id (st w') = sumN (map (confirmed (st w')) A).
Proof.
  intros Hop Hch Hown Hnd Hc E.
  destruct (filter_tickets_completed e b w w' l Hop Hch Hown Hnd Hc E) as (_ & Hlast & _ & _ & _ & Hrg & _ & Hcf & _).
  cbn zeta. rewrite Hcf. split; [|split; [exact Hnd|]].
  - apply layout_of_filter. intros pre a n post El. rewrite (Hrg pre a n post El). cbn [N.add]. reflexivity.
  - rewrite Hlast. unfold confs. rewrite map_map. reflexivity.
Qed.

(** ... and with it the structural hypotheses of the additional step that concern ranges *)
Theorem layout_dist_hyps v2 s A :
  Layout (range s) (confirmed s) 0 A -> NoDup A ->
  last_ticket_id s = sumN (map (confirmed s) A) ->
  (forall a, ~ In a A -> range s a = None) ->
  within s (last_ticket_id s) /\ sized v2 s.
Proof.
  intros Hl Hnd Hlast Hsup.
  destruct (layout_facts s A Hl Hnd) as (_ & Hw & _ & Hsz & _). cbn zeta in Hw.
  assert (HinA : forall u f la, range s u = Some (f, la) -> In u A).
  { intros u f la Hr. destruct (in_dec N.eq_dec u A) as [Hi|Hn]; [exact Hi|]. rewrite (Hsup u Hn) in Hr. discriminate. }
  split.
  - intros u f la t Hr Ht. rewrite Hlast. eapply Hw; eauto.
  - intros _ u us f la _ _ Hr. rewrite (Hsz u f la (HinA _ _ _ Hr) Hr). lia.
Qed.
