(** * C07: confirmation needs the exact payment and never exceeds the allocation. *)
From LP Require Import Proofs.Tactics.
Open Scope N_scope.

(** Shape of a call value as the protocol delivers it: nothing, one EGLD value, or ESDT transfers only. *)
Definition pay_wf (p : list (N * N * N)) : Prop :=
  p = [] \/ (exists a, p = [(egld, 0, a)]) \/
  (p <> [] /\ Forall (fun x => fst (fst x) <> egld) p).

(** "exactly [amt] of [tok] in a single payment" (an EGLD price with [amt = 0] needs no transfer) *)
Definition exact_payment (p : list (N * N * N)) (tok amt : N) : Prop :=
  p = [(tok, 0, amt)] \/ (p = [] /\ tok = egld /\ amt = 0).

Lemma esdt_transfers_all p : Forall (fun x => fst (fst x) <> egld) p -> esdt_transfers p = p.
Proof.
  induction 1 as [|x l Hx Hl IH]; [reflexivity|].
  unfold esdt_transfers in *. simpl. destruct (N.eqb_spec (fst (fst x)) egld); [contradiction|].
  simpl. now rewrite IH.
Qed.

Lemma payment_spec p tok amt :
  pay_wf p ->
  (egld_or_single_fungible_esdt p = Ok (tok, amt) <-> exact_payment p tok amt).
Proof.
  intros [-> | [(a & ->) | (Hne & Hall)]].
  - unfold exact_payment. cbn. split.
    + intros E. inversion E. right; auto.
    + intros [E | (_ & -> & ->)]; [discriminate | reflexivity].
  - unfold exact_payment, egld_or_single_fungible_esdt, egld_or_single_esdt. cbn. split.
    + intros E. inversion E. left; reflexivity.
    + intros [E | (E & _)]; [|discriminate]. inversion E. reflexivity.
  - unfold exact_payment, egld_or_single_fungible_esdt, egld_or_single_esdt.
    rewrite (esdt_transfers_all _ Hall).
    destruct p as [|[[t n] a] [|y l]]; [congruence| |].
    + cbn. destruct (N.eqb_spec n 0) as [->|Hn]; cbn; split.
      * intros E; inversion E; left; reflexivity.
      * intros [E | (E & _)]; [inversion E; reflexivity | discriminate].
      * discriminate.
      * intros [E | (E & _)]; [inversion E; congruence | discriminate].
    + cbn. split; [discriminate|]. intros [E | (E & _)]; discriminate.
Qed.

(** The acceptance condition of [confirmTickets], read off the state before the call. *)
Definition confirm_cond (e : env) (s : state) (n : N) : Prop :=
  n < usize_lim /\ paused s = false /\ get_launch_stage e s = Confirm /\ deposited s = true /\
  blacklisted s (caller e) = false /\
  (exists total, get_total_number_of_tickets_for_address s (caller e) = Ok total /\
                 confirmed s (caller e) + n <= total) /\
  exact_payment (pay e) (pay_token s) (price s * n).

Definition confirm_effect (e : env) (w : world) (n : N) : world :=
  let s := st w in
  let tc := confirmed s (caller e) + n in
  emit (set_st w (s <| confirmed := upd (confirmed s) (caller e) tc |>)) EvConfirm
       (event_hdr e ++ [n; tc;
          match get_total_number_of_tickets_for_address s (caller e) with Ok t => t | Err _ => 0 end;
          pay_token s; 0; price s * n]).

Theorem confirm_iff e w n w' :
  pay_wf (pay e) ->
  (confirm_tickets e w n = Ok w' <-> confirm_cond e (st w) n /\ w' = confirm_effect e w n).
Proof.
  intros Hwf. unfold confirm_tickets, confirm_cond, confirm_effect. split.
  - intros E. mon_inv.
    match goal with H : usize_arg _ = Ok _ |- _ => unfold usize_arg in H; mon_inv end.
    destruct a1 as [ptok pamt]. mon_inv.
    match goal with H : require_stage _ _ _ = Ok _ |- _ => apply require_stage_ok in H end.
    repeat match goal with H : negb _ = true |- _ => apply negb_true_iff in H end.
    repeat match goal with H : (_ =? _) = true |- _ => apply N.eqb_eq in H end.
    repeat match goal with H : (_ <=? _) = true |- _ => apply N.leb_le in H end.
    repeat match goal with H : (_ <? _) = true |- _ => apply N.ltb_lt in H end.
    subst ptok pamt.
    match goal with H : egld_or_single_fungible_esdt _ = Ok _ |- _ => apply (payment_spec _ _ _ Hwf) in H end.
    match goal with H : get_total_number_of_tickets_for_address _ _ = Ok _ |- _ => rewrite H end.
    repeat split; eauto.
  - intros ((Hn & Hp & Hst & Hd & Hb & (total & Ht & Hle) & Hpay) & ->).
    apply (payment_spec _ _ _ Hwf) in Hpay.
    unfold usize_arg, require_stage. rewrite Hpay, Ht, Hp, Hd, Hb, Hst. cbn.
    assert (E1 : (n <? usize_lim) = true) by now apply N.ltb_lt.
    assert (E2 : (confirmed (st w) (caller e) + n <=? total) = true) by now apply N.leb_le.
    rewrite E1, E2, !N.eqb_refl. cbn. reflexivity.
Qed.

Lemma confirm_needs_not_blacklisted e w n w' :
  pay_wf (pay e) -> confirm_tickets e w n = Ok w' -> blacklisted (st w) (caller e) = false.
Proof.
  intros Hwf E. apply (confirm_iff _ _ _ _ Hwf) in E. destruct E as [(_ & _ & _ & _ & Hb & _) _]. exact Hb.
Qed.

(** Frame: the call changes nothing but the caller's confirmed count and the event log. *)
Lemma confirm_effect_frame e w n :
  let w' := confirm_effect e w n in
  bal w' = bal w /\ rlog w' = rlog w /\ locks w' = locks w /\
  (forall a, a <> caller e -> confirmed (st w') a = confirmed (st w) a) /\
  confirmed (st w') (caller e) = confirmed (st w) (caller e) + n /\
  st w' = st w <| confirmed := confirmed (st w') |>.
Proof.
  unfold confirm_effect, emit, set_st. cbn. repeat split.
  - intros a Ha. now apply upd_other.
  - apply upd_same.
Qed.

(** ** The same at the level of a whole transaction, for every variant. *)
Section Exec.
Variable H : list N -> list N.

Lemma credit_single w from t a w1 :
  credit_payment w from [(t, 0, a)] = Ok w1 <-> transfer w from sc_addr t 0 a = Ok w1.
Proof.
  cbn. split.
  - intros E. mon_inv. assumption.
  - intros E. rewrite E. reflexivity.
Qed.

Definition reset_outputs (w : world) (sd : list (list N)) : world :=
  w <| evs := [] |> <| rlog := [] |> <| locks := [] |> <| seeds := sd |>.

Lemma transfer_st w from to t k a w1 : transfer w from to t k a = Ok w1 -> st w1 = st w.
Proof.
  unfold transfer. destruct (a <=? bal w from t k); [|discriminate].
  intros E; inversion E; reflexivity.
Qed.

Lemma credit_payment_st p : forall w0 from w1, credit_payment w0 from p = Ok w1 -> st w1 = st w0.
Proof.
  induction p as [|[[t k] a] p IH]; intros w0 from w1 E; cbn in E.
  - now inversion E.
  - mon_inv. apply IH in E. apply transfer_st in E0. congruence.
Qed.

Theorem exec_confirm_iff v e b sd w n w' r :
  pay_wf (pay e) ->
  (exec H v e b sd w (CConfirm n) = Ok (w', r) <->
   exists w1, credit_payment (reset_outputs w sd) (caller e) (pay e) = Ok w1 /\
              confirm_cond e (st w) n /\ w' = confirm_effect e w1 n /\ r = []).
Proof.
  intros Hwf. unfold exec. cbn [payable]. fold (reset_outputs w sd).
  assert (Hst : forall w1, credit_payment (reset_outputs w sd) (caller e) (pay e) = Ok w1 -> st w1 = st w).
  { intros w1 E. apply credit_payment_st in E. exact E. }
  split.
  - intros E. cbn in E. mon_inv. unfold dispatch, ret0 in E. mon_inv.
    match goal with
    | Hc : credit_payment _ _ _ = Ok ?w1, Hk : confirm_tickets _ ?w1 _ = Ok _ |- _ =>
        exists w1; split; [exact Hc|];
        apply (confirm_iff _ _ _ _ Hwf) in Hk; destruct Hk as [Hcond ->];
        rewrite (Hst _ Hc) in Hcond; auto
    end.
  - intros (w1 & Ec & Hc & -> & ->). cbn. rewrite Ec. cbn. unfold ret0.
    rewrite <- (Hst _ Ec) in Hc.
    assert (E : confirm_tickets e w1 n = Ok (confirm_effect e w1 n)) by (apply confirm_iff; auto).
    rewrite E. reflexivity.
Qed.

End Exec.
