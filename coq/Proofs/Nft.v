(** * C14: the NFT fee, the draw without replacement, the claim kinds. *)
From Coq Require Import Permutation.
From LP Require Import Proofs.Tactics Proofs.Loop Proofs.LedgerBase Proofs.Gates Proofs.Frames Proofs.Confirm Proofs.FisherYates.
Open Scope N_scope.

(** ** [UnorderedSetMapper::swap_remove] on duplicate-free lists *)
Lemma mem_In x l : mem x l = true <-> In x l.
Proof.
  unfold mem. rewrite existsb_exists. split.
  - intros (y & Hy & E). apply N.eqb_eq in E. now subst.
  - intros H. exists x. split; [assumption|apply N.eqb_refl].
Qed.

Lemma replace_first_perm x y : forall l, In x l ->
  Permutation (x :: replace_first x y l) (y :: l).
Proof.
  induction l as [|a l IH]; intros Hin; [destruct Hin|]. cbn [replace_first].
  destruct (N.eqb_spec a x) as [->|Hne].
  - apply perm_swap.
  - destruct Hin as [->|Hin]; [congruence|].
    eapply perm_trans; [apply perm_swap|]. eapply perm_trans; [apply perm_skip, IH, Hin|]. apply perm_swap.
Qed.

Theorem swap_remove_perm x l : NoDup l -> In x l -> Permutation (x :: swap_remove x l) l.
Proof.
  intros Hnd Hin. unfold swap_remove. rewrite (proj2 (mem_In x l) Hin).
  destruct (rev l) as [|lastx rfront] eqn:Er.
  - apply (f_equal (@rev N)) in Er. rewrite rev_involutive in Er. subst. destruct Hin.
  - assert (Hl : l = rev rfront ++ [lastx]).
    { apply (f_equal (@rev N)) in Er. rewrite rev_involutive in Er. exact Er. }
    destruct (N.eqb_spec lastx x) as [->|Hne].
    + rewrite Hl. apply Permutation_cons_append.
    + assert (Hin' : In x (rev rfront)).
      { rewrite Hl in Hin. apply in_app_iff in Hin. destruct Hin as [H|[H|[]]]; [assumption|congruence]. }
      eapply perm_trans; [apply replace_first_perm, Hin'|]. rewrite Hl. apply Permutation_cons_append.
Qed.

Corollary swap_remove_facts x l : NoDup l -> In x l ->
  NoDup (swap_remove x l) /\ ~ In x (swap_remove x l) /\
  (forall y, In y (swap_remove x l) <-> In y l /\ y <> x) /\
  Datatypes.S (length (swap_remove x l)) = length l.
Proof.
  intros Hnd Hin. pose proof (swap_remove_perm x l Hnd Hin) as Hp.
  assert (Hnd' : NoDup (x :: swap_remove x l)) by (eapply Permutation_NoDup; [apply Permutation_sym, Hp|exact Hnd]).
  inversion Hnd' as [|? ? Hn Hn2]; subst.
  split; [assumption|]. split; [assumption|]. split.
  - intros y. split.
    + intros Hy. split; [eapply Permutation_in; [exact Hp|now right]|]. intros ->. contradiction.
    + intros [Hy Hne]. apply (Permutation_in _ (Permutation_sym Hp)) in Hy. destruct Hy; [congruence|assumption].
  - apply Permutation_length in Hp. cbn in Hp. exact Hp.
Qed.

(** ** paying the fee *)
Theorem confirm_nft_spec e w w' :
  confirm_nft e w = Ok w' ->
  get_launch_stage e (st w) = Confirm /\ sft_ready (st w) = true /\ 0 < confirmed (st w) (caller e) /\
  mem (caller e) (nft_payers (st w)) = false /\
  egld_or_single_esdt (pay e) = Ok (nft_tok (st w), nft_nonce (st w), nft_amt (st w)) /\
  st w' = st w <| nft_payers := nft_payers (st w) ++ [caller e] |> /\ bal w' = bal w /\ evs w' = evs w.
Proof.
  intros E. pose proof (gate_confirm_nft _ _ _ E) as (Hs & Hr & Hc & Hm).
  unfold confirm_nft in E.
  apply bind_ok in E. destruct E as (u1 & _ & E). apply bind_ok in E. destruct E as (u2 & _ & E).
  apply bind_ok in E. destruct E as (u3 & _ & E). apply bind_ok in E. destruct E as (u4 & _ & E).
  apply bind_ok in E. destruct E as ([[t n] a] & Hp & E).
  apply bind_ok in E. destruct E as (u5 & Hx & E). apply require_ok' in Hx.
  apply andb_true_iff in Hx. destruct Hx as [Hx Ha]. apply andb_true_iff in Hx. destruct Hx as [Ht Hn].
  apply N.eqb_eq in Ht, Hn, Ha. subst. inversion E; subst. repeat split; auto.
Qed.

(** ** the draw *)
Section H.
Variable H : list N -> list N.

(** invariant of the draw loop *)
Record NInv (p0 : list N) (w : world) (ul sel : N) : Prop := {
  ni_perm : Permutation (nft_payers (st w) ++ nft_winners (st w)) p0;
  ni_ul : ul = N.of_nat (length (nft_payers (st w)));
  ni_sel : sel = N.of_nat (length (nft_winners (st w)))
}.

Lemma nft_body_inv total p0 w r ul sel w' r' ul' sel' c :
  NoDup p0 -> NInv p0 w ul sel ->
  nft_body H total (w, r, ul, sel) = Ok (w', r', ul', sel', c) ->
  NInv p0 w' ul' sel' /\
  (c = true -> sel' = sel + 1 /\ ul' + 1 = ul) /\
  (c = false -> (ul = 0 \/ sel = total) /\ w' = w /\ ul' = ul /\ sel' = sel) /\
  bal w' = bal w /\ evs w' = evs w /\ tf (st w') = tf (st w) /\ status (st w') = status (st w) /\
  nr_winning (st w') = nr_winning (st w) /\ claimable_payment (st w') = claimable_payment (st w).
Proof.
  intros Hnd Hinv. unfold nft_body. intros E.
  destruct ((ul =? 0) || (sel =? total)) eqn:Hstop.
  { inversion E; subst. split; [assumption|]. split; [discriminate|]. split; [|auto 10].
    intros _. apply orb_true_iff in Hstop. destruct Hstop as [Hs|Hs]; apply N.eqb_eq in Hs; auto. }
  unfold next_usize_in_range, next_usize in E. cbn zeta in E.
  match type of E with context [nth_error ?l ?i] => destruct (nth_error l i) as [u|] eqn:Hnth end; [|discriminate].
  inversion E; subst; clear E.
  destruct w as [s b ev rl lk sd]. cbn [st bal evs] in *.
  apply nth_error_In in Hnth. cbn in Hnth.
  destruct Hinv as [Hp Hul Hsel]. cbn [st] in *.
  assert (Hndall : NoDup (nft_payers s ++ nft_winners s)) by (eapply Permutation_NoDup; [apply Permutation_sym, Hp|exact Hnd]).
  assert (Hndp : NoDup (nft_payers s)) by (eapply NoDup_app_l; exact Hndall).
  destruct (swap_remove_facts u (nft_payers s) Hndp Hnth) as (Hnd1 & Hnot & Hiff & Hlen).
  assert (Hnw : ~ In u (nft_winners s)).
  { intros Hw. clear -Hndall Hnth Hw. induction (nft_payers s) as [|a l IH]; [destruct Hnth|].
    cbn in Hndall. inversion Hndall as [|? ? Hx Hy]; subst. destruct Hnth as [->|Hn].
    - apply Hx. apply in_or_app. now right.
    - now apply IH. }
  assert (Hmf : mem u (nft_winners s) = false).
  { destruct (mem u (nft_winners s)) eqn:Hm; [apply mem_In in Hm; contradiction|reflexivity]. }
  cbn. unfold set_insert. cbn. rewrite Hmf.
  split.
  { constructor; cbn.
    - eapply perm_trans; [|exact Hp].
      rewrite app_assoc. eapply perm_trans; [apply Permutation_sym, Permutation_cons_append|].
      change (u :: swap_remove u (nft_payers s) ++ nft_winners s) with ((u :: swap_remove u (nft_payers s)) ++ nft_winners s).
      apply Permutation_app_tail. apply swap_remove_perm; assumption.
    - lia.
    - rewrite app_length. cbn. lia. }
  split; [intros _; lia|]. split; [discriminate|]. repeat split.
Qed.
End H.

Section H2.
Variable H : list N -> list N.

Theorem select_nft_winners_spec b w r w' r' b' :
  let p0 := nft_payers (st w) in
  NoDup p0 -> nft_winners (st w) = [] ->
  select_nft_winners H b w r = Ok (w', r', true, b') ->
  NoDup (nft_winners (st w')) /\ (forall a, In a (nft_winners (st w')) -> In a p0) /\
  Permutation (nft_payers (st w') ++ nft_winners (st w')) p0 /\
  N.of_nat (length (nft_winners (st w'))) = N.min (total_nfts (st w)) (N.of_nat (length p0)) /\
  bal w' = bal w /\ evs w' = evs w /\ tf (st w') = tf (st w) /\ status (st w') = status (st w) /\
  nr_winning (st w') = nr_winning (st w) /\ claimable_payment (st w') = claimable_payment (st w).
Proof.
  cbn zeta. intros Hnd Hw0. unfold select_nft_winners. intros E.
  apply bind_ok in E. destruct E as ([[[[[w1 r1] u1] s1] d1] b1] & Hr & E). inversion E; subst; clear E.
  set (p0 := nft_payers (st w)) in *. set (total := total_nfts (st w)) in *.
  pose (P := fun x : world * rng * N * N =>
               let '(wx, _, ux, sx) := x in
               NInv p0 wx ux sx /\ sx <= total /\ bal wx = bal w /\ evs wx = evs w /\ tf (st wx) = tf (st w) /\
               status (st wx) = status (st w) /\ nr_winning (st wx) = nr_winning (st w) /\
               claimable_payment (st wx) = claimable_payment (st w)).
  assert (HP : P (w', r', u1, s1)).
  { eapply (run_invariant (nft_body H total) P); [| |exact Hr].
    - intros [[[wa ra] ua] sa] [[[wb rb] ub] sb] c (Hi & Hle & Hb & He & Ht & Hs & Hn & Hc) Eb.
      destruct (nft_body_inv H total p0 _ _ _ _ _ _ _ _ _ Hnd Hi Eb) as (Hi' & Hct & Hcf & Hb' & He' & Ht' & Hs' & Hn' & Hc').
      unfold P. split; [assumption|]. split.
      { destruct c; [destruct (Hct eq_refl) as [-> _]|destruct (Hcf eq_refl) as (_ & _ & _ & ->); assumption].
        unfold nft_body in Eb. destruct ((ua =? 0) || (sa =? total)) eqn:Hstop; [inversion Eb|].
        apply orb_false_iff in Hstop. destruct Hstop as [_ Hst]. apply N.eqb_neq in Hst. lia. }
      repeat split; congruence.
    - unfold P. split.
      { constructor; [rewrite Hw0, app_nil_r; apply Permutation_refl | reflexivity | now rewrite Hw0]. }
      rewrite Hw0. cbn. repeat split; auto. lia. }
  destruct HP as (Hi & Hle & Hb & He & Ht & Hs & Hn & Hc).
  destruct Hi as [Hp Hul Hsel].
  assert (Hndall : NoDup (nft_payers (st w') ++ nft_winners (st w'))) by (eapply Permutation_NoDup; [apply Permutation_sym, Hp|exact Hnd]).
  pose proof (Permutation_length Hp) as Hlen. rewrite app_length in Hlen.
  destruct (run_completed_stop _ _ _ _ _ Hr) as ([[[wz rz] uz] sz] & Hz).
  unfold nft_body in Hz. destruct ((uz =? 0) || (sz =? total)) eqn:Hstop.
  2:{ unfold next_usize_in_range, next_usize in Hz. cbn zeta in Hz.
      match type of Hz with context [nth_error ?l ?i] => destruct (nth_error l i) end; discriminate. }
  inversion Hz; subst wz rz uz sz. clear Hz.
  split.
  { clear -Hndall. induction (nft_payers (st w')) as [|a l IH]; [exact Hndall|]. cbn in Hndall. inversion Hndall; auto. }
  split.
  { intros a Ha. eapply Permutation_in; [exact Hp|]. apply in_or_app. now right. }
  split; [assumption|]. split.
  { apply orb_true_iff in Hstop. destruct Hstop as [Hs0|Hs0]; apply N.eqb_eq in Hs0; lia. }
  auto 10.
Qed.
End H2.

(** ** the claim: which SFT, which refund *)
Theorem claim_nft_spec e w w' :
  claim_nft e w = Ok w' ->
  let s := st w in let a := caller e in
  let kind := if mem a (nft_winners s) then 1 else if mem a (nft_payers s) then 2 else 3 in
  sft_ready s = true /\
  nft_winners (st w') = (if mem a (nft_winners s) then swap_remove a (nft_winners s) else nft_winners s) /\
  nft_payers (st w') = (if mem a (nft_winners s) then nft_payers s
                        else if mem a (nft_payers s) then swap_remove a (nft_payers s) else nft_payers s) /\
  bal w' = (let b1 := upd_bal (bal w) a sft_token kind (bal w a sft_token kind + 1) in
            if kind =? 2 then bal_after b1 sc_addr a (nft_tok s) (nft_nonce s) (nft_amt s) else b1).
Proof.
  unfold claim_nft. cbn zeta. intros E.
  destruct (mem (caller e) (nft_winners (st w))).
  - apply bind_ok in E. destruct E as (u & Hu & E). apply require_ok' in Hu. cbn in E. inversion E; subst. auto.
  - destruct (mem (caller e) (nft_payers (st w))).
    + apply bind_ok in E. destruct E as (u & Hu & E). apply require_ok' in Hu. cbn in E.
      apply transfer_ok in E. destruct E as [_ ->]. auto.
    + apply bind_ok in E. destruct E as (u & Hu & E). apply require_ok' in Hu. cbn in E. inversion E; subst. auto.
Qed.

(** blacklisting a payer returns the fee and removes the payer from the draw *)
Theorem refund_nft_one w u w' :
  refund_nft_loop w [u] = Ok w' ->
  (mem u (nft_payers (st w)) = false /\ w' = w) \/
  (mem u (nft_payers (st w)) = true /\
   nft_payers (st w') = swap_remove u (nft_payers (st w)) /\
   bal w' = bal_after (bal w) sc_addr u (nft_tok (st w)) (nft_nonce (st w)) (nft_amt (st w))).
Proof.
  cbn. destruct (mem u (nft_payers (st w))).
  - intros E. apply bind_ok in E. destruct E as (w1 & Ht & E). inversion E; subst.
    apply transfer_ok in Ht. destruct Ht as [_ ->]. right. auto.
  - intros E. inversion E. left. auto.
Qed.

(** the owner's NFT proceeds: fee x drawn participants, paid once *)
Theorem claim_nft_payment_spec e w w' :
  claim_nft_payment e w = Ok w' ->
  get_launch_stage e (st w) = Claim /\ claimable_nft (st w') = 0 /\
  bal w' = (if 0 <? claimable_nft (st w)
            then bal_after (bal w) sc_addr (caller e) (nft_tok (st w)) (nft_nonce (st w)) (claimable_nft (st w))
            else bal w).
Proof.
  intros E. pose proof (gate_claim_nft_payment _ _ _ E) as Hs. unfold claim_nft_payment in E.
  apply bind_ok in E. destruct E as (u & _ & E).
  destruct (N.ltb_spec 0 (claimable_nft (st w))).
  - apply bind_ok in E. destruct E as (w1 & Ht & E). apply transfer_ok in Ht. destruct Ht as [_ ->].
    inversion E; subst. auto.
  - inversion E; subst. repeat split; auto. lia.
Qed.
