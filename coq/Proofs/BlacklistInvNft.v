(** * C10 from deployment for the two contracts with an NFT fee (launchpad-with-nft,
    launchpad-nft-and-guaranteed-tickets): along every set-up history - which also contains fee
    payments, the SFT set-up and, on blacklisting, the refund of the fee - a blacklisted participant
    has no confirmed ticket; after filterTickets, however interrupted, it owns no range and cannot claim.
    With [BlacklistInv.v] (launchpad, locked-tokens) and [BlacklistInvGt.v] (gt1, migration, locked+gt,
    gt2) this covers all eight contracts. *)
From Coq Require Import Permutation.
From LP Require Import Proofs.Tactics Proofs.LedgerBase Proofs.Loop Proofs.Shuffle Proofs.Gates Proofs.Frames Proofs.Filter
  Proofs.Alloc Proofs.Confirm Proofs.Settle Proofs.Ledger Proofs.Stage Proofs.Resume Proofs.FisherYates Proofs.Rng
  Proofs.Guaranteed Proofs.GuaranteedLoop Proofs.Leftover
  Proofs.Nft Proofs.Resume3 Proofs.ClaimLedger Proofs.Partition Proofs.Lifecycle Proofs.Setup Proofs.SetupGt Proofs.NftLedger
  Proofs.SetupNft Proofs.SetupNgt Proofs.Tiling Proofs.BlacklistInv Proofs.BlacklistInvGt.
Open Scope N_scope.

(** the blacklisting endpoint of any of the eight contracts, with or without event *)
Theorem BlInv_blacklist_any v we e w la w' :
  BlInv w -> blacklist_endpoint v we e w la = Ok w' -> BlInv w'.
Proof.
  intros Hp E. unfold blacklist_endpoint in E.
  apply bind_ok in E. destruct E as (w1 & H1 & E).
  unfold add_users_to_blacklist in H1. apply bind_ok in H1. destruct H1 as (u1 & _ & H1). apply bind_ok in H1. destruct H1 as (u2 & _ & H1).
  pose proof (blacklist_loop_BlInv e la w w1 H1 Hp) as Hp1.
  apply bind_ok in E. destruct E as (w2 & H2 & E).
  assert (Hp2 : BlInv w2).
  { destruct v.
    all: try (inversion H2; subst w2; exact Hp1).
    all: try (unfold clear_gt_after_blacklist_v1 in H2; apply bind_ok in H2; destruct H2 as ([[s1 rm] tg] & Hl & H2);
      inversion H2; subst w2; clear H2; destruct (clear_gt_loop_v1_only _ _ _ _ _ _ _ Hl) as [Ho Hn];
      destruct (0 <? rm);
      [ apply BlInv_gt_only; [exact Hp1|exact Ho]
      | replace (s1 <| total_guaranteed := tg |>) with (s1 <| nr_winning := nr_winning s1 |> <| total_guaranteed := tg |>) by (destruct s1; reflexivity);
        apply BlInv_gt_only; [exact Hp1|exact Ho] ]).
    unfold clear_gt_after_blacklist_v2 in H2; apply bind_ok in H2; destruct H2 as ([[s1 nw] tg] & Hl & H2);
      inversion H2; subst w2; clear H2; destruct (clear_gt_loop_v2_only _ _ _ _ _ _ _ Hl) as [Ho Hn].
    apply BlInv_gt_only; [exact Hp1|exact Ho]. }
  apply bind_ok in E. destruct E as (w3 & H3 & E).
  assert (Hp3 : BlInv w3).
  { destruct (has_nft v); [|inversion H3; subst w3; exact Hp2].
    destruct (refund_nft_loop_only _ _ _ H3) as ((p & Hs3) & _).
    intros a. rewrite Hs3. cbn. apply Hp2. }
  inversion E; subst w'; clear E.
  destruct v; try exact Hp3. destruct we; [|exact Hp3]. eapply BlInv_ext; [|exact Hp3]. reflexivity.
Qed.

(** v1 allocation leaves confirmations and the blacklist alone *)
Lemma add_one_v1_cb minc s tw tg x s' tw' tg' :
  add_one_v1 minc (s, tw, tg) x = Ok (s', tw', tg') -> confirmed s' = confirmed s /\ blacklisted s' = blacklisted s.
Proof.
  destruct x as [[[buyer staking] energy] mig]. unfold add_one_v1. intros E.
  apply bind_ok in E. destruct E as (u1 & _ & E). apply bind_ok in E. destruct E as (u2 & _ & E).
  apply bind_ok in E. destruct E as (s1 & Hc & E).
  assert (H1 : confirmed s1 = confirmed s /\ blacklisted s1 = blacklisted s) by (unfold try_create_tickets in Hc; mon_inv; split; reflexivity).
  apply bind_ok in E. destruct E as ([[[s2 tw2] tg2] us2] & H2 & E).
  apply bind_ok in E. destruct E as ([[[s3 tw3] tg3] us3] & H3 & E).
  inversion E; subst s' tw' tg'; clear E.
  assert (H12 : confirmed s2 = confirmed s1 /\ blacklisted s2 = blacklisted s1).
  { destruct (minc <=? staking); [apply bind_ok in H2; destruct H2 as (u5 & _ & H2)|]; inversion H2; subst; split; reflexivity. }
  assert (H23 : confirmed s3 = confirmed s2 /\ blacklisted s3 = blacklisted s2).
  { destruct mig; [apply bind_ok in H3; destruct H3 as (u6 & _ & H3)|]; inversion H3; subst; split; reflexivity. }
  destruct H1, H12, H23. cbn. split; congruence.
Qed.

Lemma add_loop_v1_cb minc : forall l s tw tg s' tw' tg',
  add_loop_v1 minc (s, tw, tg) l = Ok (s', tw', tg') -> confirmed s' = confirmed s /\ blacklisted s' = blacklisted s.
Proof.
  induction l as [|x l IH]; intros s tw tg s' tw' tg' E; cbn [add_loop_v1] in E; [inversion E; split; reflexivity|].
  apply bind_ok in E. destruct E as ([[s1 tw1] tg1] & H1 & E).
  destruct (IH _ _ _ _ _ _ E) as [-> ->]. eapply add_one_v1_cb; eauto.
Qed.

Section HBlNft.
Variable H : list N -> list N.

Theorem BlInv_confirm_nft v e b sd w w' r :
  BlInv w -> pay_wf (pay e) -> caller e <> sc_addr ->
  exec H v e b sd w CConfirmNft = Ok (w', r) -> BlInv w'.
Proof.
  intros Hi Hwf Hcs E.
  unfold exec in E. cbn [payable bind] in E.
  apply bind_ok in E. destruct E as (w1 & Hcr & E). cbn [dispatch] in E.
  destruct (has_nft v); [|discriminate]. unfold ret0 in E. mon_inv.
  match goal with Hd : confirm_nft _ _ = Ok _ |- _ => apply confirm_nft_spec in Hd;
    destruct Hd as (_ & _ & _ & Hm & Hpp & Hs & Hb & _) end.
  destruct (credit_parsed (pay e) Hwf _ _ _ _ _ _ Hcs Hpp Hcr) as [Hs1 Hb1]. cbn in Hs1.
  intros a. rewrite Hs, Hs1. cbn. apply Hi.
Qed.

Theorem BlInv_sft_setup v e b sd w w' r :
  BlInv w -> exec H v e b sd w CSftSetup = Ok (w', r) -> BlInv w'.
Proof.
  intros Hi E.
  set (w0 := w <| evs := [] |> <| rlog := [] |> <| locks := [] |> <| seeds := sd |>).
  unfold exec in E. fold w0 in E.
  cbn [dispatch] in E. inversion E; subst w' r; clear E.
  intros a. cbn. apply Hi.
Qed.

Lemma deploy_not_blacklisted v e lp tpt0 ptok price0 nrw conf ws claim x s :
  deploy v e lp tpt0 ptok price0 nrw conf ws claim x = Ok s -> blacklisted s = (fun _ => false).
Proof.
  intros Hd. unfold deploy in Hd.
  destruct v; cbn [has_nft is_v1 has_lock has_extra negb] in Hd; mon_inv;
    repeat match goal with Hl : lock_init _ _ _ _ _ = Ok _ |- _ => unfold lock_init in Hl; mon_inv end;
    repeat match goal with Hl : try_set_nft_cost _ _ _ _ = Ok _ |- _ => unfold try_set_nft_cost in Hl; mon_inv end;
    match goal with Hinit : init_base _ _ _ _ _ _ _ _ _ _ = Ok _ |- _ =>
      unfold init_base, try_set_tpt, try_set_ticket_price, try_set_nr_winning in Hinit; mon_inv end;
    reflexivity.
Qed.

Theorem setup_reach_nft_BlInv w : setup_reach_nft H w -> BlInv w.
Proof.
  induction 1 as [e lp tpt0 ptok price0 nrw conf ws claim x s Hd Hlp Hsft Hpay
                 | w e b sd c w' r _ IH Hc Hwf Hcs E
                 | w e b sd w' r _ IH Hwf Hcs E
                 | w e b sd w' r _ IH E].
  - intros a Ha. cbn in Ha. rewrite (deploy_not_blacklisted _ _ _ _ _ _ _ _ _ _ _ _ Hd) in Ha. discriminate.
  - assert (Hbl : not_blacklist c \/ exists la, c = CBlacklist la).
    { destruct Hc; try (left; exact I). right. eexists. reflexivity. }
    destruct Hbl as [Hnb|(la & ->)].
    + rewrite (exec_nft_base H e b sd w c Hc Hnb) in E. eapply BlInv_exec; eauto.
    + set (w0 := w <| evs := [] |> <| rlog := [] |> <| locks := [] |> <| seeds := sd |>).
      assert (Hi0 : BlInv w0) by exact IH.
      unfold exec in E. cbn [payable] in E. fold w0 in E.
      apply bind_ok in E. destruct E as (u & Hnp & E). apply no_payment_nil in Hnp. rewrite Hnp in E. cbn [credit_payment bind] in E.
      cbn [dispatch] in E. unfold ret0 in E. mon_inv.
      eapply BlInv_blacklist_any; eauto.
  - eapply BlInv_confirm_nft; eauto.
  - eapply BlInv_sft_setup; eauto.
Qed.

Theorem setup_reach_ngt_BlInv w : setup_reach_ngt H w -> BlInv w.
Proof.
  induction 1 as [e lp tpt0 ptok price0 nrw conf ws claim x s Hd Hlp Hsft Hpay
                 | w e b sd c w' r _ IH Hc Hwf Hcs E
                 | w e b sd lx w' r _ IH Hpos Hsc E
                 | w e b sd la w' r _ IH Hsc E
                 | w e b sd w' r _ IH Hwf Hcs E
                 | w e b sd w' r _ IH E].
  - intros a Ha. cbn in Ha. rewrite (deploy_not_blacklisted _ _ _ _ _ _ _ _ _ _ _ _ Hd) in Ha. discriminate.
  - eapply BlInv_exec_common; eauto.
  - set (w0 := w <| evs := [] |> <| rlog := [] |> <| locks := [] |> <| seeds := sd |>).
    assert (Hi0 : BlInv w0) by exact IH.
    unfold exec in E. cbn [payable] in E. fold w0 in E.
    apply bind_ok in E. destruct E as (u & Hnp & E). apply no_payment_nil in Hnp. rewrite Hnp in E.
    cbn [credit_payment bind] in E. cbn [dispatch is_v1] in E. unfold ret0 in E. mon_inv.
    match goal with Hd : add_tickets_v1 _ _ _ = Ok _ |- _ => rename Hd into Ea end.
    unfold add_tickets_v1 in Ea.
    apply bind_ok in Ea. destruct Ea as (u' & _ & Ea).
    apply bind_ok in Ea. destruct Ea as ([[s' tw] tg] & Hloop & Ea). inversion Ea; subst; clear Ea.
    destruct (add_loop_v1_cb _ _ _ _ _ _ _ _ Hloop) as [Hc Hb].
    intros a. rewrite st_set_st. cbn. rewrite Hc, Hb. apply Hi0.
  - set (w0 := w <| evs := [] |> <| rlog := [] |> <| locks := [] |> <| seeds := sd |>).
    assert (Hi0 : BlInv w0) by exact IH.
    unfold exec in E. cbn [payable] in E. fold w0 in E.
    apply bind_ok in E. destruct E as (u & Hnp & E). apply no_payment_nil in Hnp. rewrite Hnp in E.
    cbn [credit_payment bind] in E. cbn [dispatch] in E. unfold ret0 in E. mon_inv.
    eapply BlInv_blacklist_any; eauto.
  - eapply BlInv_confirm_nft; eauto.
  - eapply BlInv_sft_setup; eauto.
Qed.

Lemma excluded_after_filter w0 w1 l a :
  tiled w0 w1 l -> confirmed (st w0) a = 0 ->
  confirmed (st w1) a = 0 /\ range (st w1) a = None /\
  (forall sf e, caller e = a -> exists k, claim_launchpad_tokens sf e w1 = Err k).
Proof.
  intros (Hlay & _ & _ & Hcf & Hnone & _) Hc0.
  assert (Hc1 : confirmed (st w1) a = 0) by (rewrite Hcf; exact Hc0).
  assert (Hr1 : range (st w1) a = None).
  { destruct (in_dec N.eq_dec a (map fst l)) as [Hin|Hn]; [eapply layout_zero; eauto|apply Hnone; exact Hn]. }
  split; [exact Hc1|]. split; [exact Hr1|].
  intros sf e He. apply claim_without_range_fails. rewrite He. exact Hr1.
Qed.

Theorem deployed_blacklisted_excluded_nft w0 lf wf ef bf w1 :
  setup_reach_nft H w0 ->
  after_interrupted filter_tickets lf w0 = Some wf -> filter_tickets ef bf wf = Ok (w1, 0) ->
  forall a, blacklisted (st w0) a = true ->
    confirmed (st w1) a = 0 /\ range (st w1) a = None /\
    (forall sf e, caller e = a -> exists k, claim_launchpad_tokens sf e w1 = Err k).
Proof.
  intros Hr Haf Ef a Ha.
  destruct (deployed_tiling_nft H w0 lf wf ef bf w1 Hr Haf Ef) as (l & Ht).
  eapply excluded_after_filter; [exact Ht|]. exact (setup_reach_nft_BlInv w0 Hr a Ha).
Qed.

Theorem deployed_blacklisted_excluded_ngt w0 lf wf ef bf w1 :
  setup_reach_ngt H w0 ->
  after_interrupted filter_tickets lf w0 = Some wf -> filter_tickets ef bf wf = Ok (w1, 0) ->
  forall a, blacklisted (st w0) a = true ->
    confirmed (st w1) a = 0 /\ range (st w1) a = None /\
    (forall sf e, caller e = a -> exists k, claim_launchpad_tokens sf e w1 = Err k).
Proof.
  intros Hr Haf Ef a Ha.
  destruct (deployed_tiling_ngt H w0 lf wf ef bf w1 Hr Haf Ef) as (l & Ht).
  eapply excluded_after_filter; [exact Ht|]. exact (setup_reach_ngt_BlInv w0 Hr a Ha).
Qed.
End HBlNft.
