(** * C02 end to end for the vested contracts: from the end of the confirmation window with an exact
    deposit, through filterTickets / selectWinners / distributeGuaranteedTickets interrupted
    arbitrarily often, to the launchpad-token invariant [VInv] of the claim period. *)
From LP Require Import Proofs.Tactics Proofs.Loop Proofs.Resume Proofs.Resume2 Proofs.Frames Proofs.Shuffle Proofs.Guaranteed Proofs.Filter Proofs.Select
  Proofs.Ledger Proofs.ClaimLedger Proofs.Leftover Proofs.GuaranteedLoop Proofs.Partition Proofs.Lifecycle Proofs.Vesting Proofs.VestedCover.
Open Scope N_scope.

Section HVest.
Variable H : list N -> list N.

Theorem pipeline_gt_vested v2 l w0 lf wf ef bf w1 ls ws es bs w2 sd rest ld wd ed bd w3 :
  PreSel w0 l -> NoDup (gt_users (st w0)) ->
  after_interrupted filter_tickets lf w0 = Some wf -> filter_tickets ef bf wf = Ok (w1, 0) ->
  seeds w1 = sd :: rest ->
  after_interrupted (select_winners H) ls w1 = Some ws -> select_winners H es bs ws = Ok (w2, 0) ->
  after_interrupted (distribute_guaranteed_tickets H v2) ld w2 = Some wd ->
  distribute_guaranteed_tickets H v2 ed bd wd = Ok (w3, 0) ->
  (* the launchpad-token side at the end of the confirmation window *)
  sched_inv v2 (st w0) ->
  (forall a, total_claimable (st w0) a = 0) -> (forall a, claimed_balance (st w0) a = 0) ->
  0 < price (st w0) ->
  bal w0 sc_addr (lp_token (st w0)) 0 = total_deposited (st w0) ->
  tpt (st w0) * (nr_winning (st w0) + total_reserved v2 (st w0)) <= total_deposited (st w0) ->
  ClaimInv w3 (map fst l) /\ VInv v2 w3 (map fst l) 0 /\
  pay_token (st w3) = pay_token (st w0) /\ lp_token (st w3) = lp_token (st w0).
Proof.
  intros Hpre Hndg Haf Ef Hseeds Has Es Had Ed Hsch Htc Hcb Hprice Hbal Hdep.
  pose proof Hpre as [Hop0 _ _ _ _ _ _ _].
  destruct (pipeline_gt H v2 l w0 lf wf ef bf w1 ls ws es bs w2 sd rest ld wd ed bd w3 Hpre Hndg Haf Ef Hseeds Has Es Had Ed)
    as (Hci & (Hc3 & Hn3 & Hcp3 & Hl3) & _ & _).
  split; [exact Hci|].
  cut (VInv v2 w3 (map fst l) 0 /\ (pay_token (st w3) = pay_token (st w0) /\ lp_token (st w3) = lp_token (st w0))); [tauto|].
  destruct (pipeline_to_claims H l w0 lf wf ef bf w1 ls ws es bs w2 sd rest Hpre Haf Ef Hseeds Has Es)
    as (_ & _ & _ & Hn2 & _ & _ & Hcp2 & _). cbn zeta in Hn2, Hcp2.
  destruct (pipeline_postsel H l w0 lf wf ef bf w1 ls ws es bs w2 sd rest Hpre Haf Ef Hseeds Has Es)
    as [_ _ _ _ Hop2 _ Hcount Hcp2' _].
  (* frames of the three stages *)
  assert (Hfok : filter_op_ok (st w0)) by (unfold filter_op_ok; rewrite Hop0; exact I).
  rewrite (filter_multi_resume lf w0 wf ef bf Hfok Haf) in Ef.
  destruct (filter_tickets_only _ _ _ _ Ef) as ((rg & ba & nw & la & fs & Hs1) & Hb1).
  rewrite (select_multi_resume H ls w1 ws es bs Has) in Es.
  assert (Hop1 : op (st w1) = OpNone) by (rewrite Hs1; reflexivity).
  destruct (select_winners_only H _ _ _ _ Hop1 Es) as ((f2 & g2 & Hs2) & Hb2).
  rewrite (distribute_multi_resume H v2 _ _ _ _ _ Had) in Ed.
  destruct (distribute_only H v2 _ _ _ _ Hop2 Ed) as ((f3 & g3 & u3 & cp3 & nw3 & Hs3) & Hb3).
  assert (Hres : total_reserved v2 (st w2) = total_reserved v2 (st w0)).
  { unfold total_reserved, reserved. rewrite Hs2, Hs1. reflexivity. }
  assert (Hpr2 : price (st w2) = price (st w0)) by (rewrite Hs2, Hs1; reflexivity).
  assert (Hle23 : nr_winning (st w2) <= nr_winning (st w3)).
  { rewrite Hn3. pose proof (count_winning_le_length (st w2) (range_ids 1 (last_ticket_id (st w2)))) as Hle.
    rewrite range_ids_length in Hle.
    rewrite Hcount in Hle. lia. }
  split; [|rewrite Hs3, Hs2, Hs1; split; reflexivity].
  apply VInv_start.
  - eapply sched_inv_ext; [| | | |exact Hsch]; rewrite Hs3, Hs2, Hs1; reflexivity.
  - intros a. rewrite Hs3, Hs2, Hs1. cbn. apply Htc.
  - intros a. rewrite Hs3, Hs2, Hs1. cbn. apply Hcb.
  - rewrite Hs3, Hs2, Hs1. cbn. exact Hprice.
  - rewrite Hcp3, Hcp2'. replace (price (st w3)) with (price (st w2)) by (rewrite Hs3; reflexivity). nia.
  - replace (tpt (st w3)) with (tpt (st w0)) by (rewrite Hs3, Hs2, Hs1; reflexivity).
    replace (total_deposited (st w3)) with (total_deposited (st w0)) by (rewrite Hs3, Hs2, Hs1; reflexivity).
    rewrite Hn3, Hres, Hn2.
    assert (N.min (N.min (nr_winning (st w0)) (sumN (map (confirmed (st w0)) (map fst l))) + total_reserved v2 (st w0))
                  (last_ticket_id (st w2)) <= nr_winning (st w0) + total_reserved v2 (st w0)) by lia.
    nia.
  - replace (lp_token (st w3)) with (lp_token (st w0)) by (rewrite Hs3, Hs2, Hs1; reflexivity).
    replace (total_deposited (st w3)) with (total_deposited (st w0)) by (rewrite Hs3, Hs2, Hs1; reflexivity).
    rewrite Hb3, Hb2, Hb1. exact Hbal.
Qed.

End HVest.
