(** * The leftover redistribution (second phase of the guaranteed-ticket step): every reserved ticket
    handed out marks exactly one existing, not yet winning ticket; the reported number of winners
    stays equal to the number of marked tickets; on completion either all reserved tickets were
    handed out or every ticket wins. *)
From Coq Require Import Permutation.
From LP Require Import Proofs.Tactics Proofs.Loop Proofs.FisherYates Proofs.Shuffle Proofs.Frames Proofs.Guaranteed Proofs.Nft
  Proofs.Resume2 Proofs.GuaranteedLoop.
Open Scope N_scope.

(** positions [i..n] hold distinct ids; the ids no longer in that tail ([dead]) are all winning *)
Record DInv (n : N) (s : state) (i : N) (dead : list N) : Prop := {
  di_lo : 1 <= i;
  di_hi : i <= n + 1;
  di_perm : Permutation (dead ++ arr_of s i n) (range_ids 1 n);
  di_dead : forall t, In t dead -> status s t = true
}.

Lemma SInv_DInv n s i wins : SInv n s i wins -> DInv n s i wins.
Proof. intros [A B C D]. constructor; auto. intros t Ht. now apply D. Qed.

Lemma DInv_ids n s i dead p : DInv n s i dead -> i <= p <= n -> 1 <= id_at s p <= n.
Proof.
  intros Hi Hp. apply (range_ids_In 1 n). eapply Permutation_in; [apply (di_perm _ _ _ _ Hi)|].
  apply in_or_app. right. unfold arr_of. apply in_map. now apply range_ids_In.
Qed.

(** status-only changes that keep the dead winning keep the invariant *)
Lemma DInv_status n s s' i dead :
  DInv n s i dead -> pos2id s' = pos2id s -> (forall t, status s t = true -> status s' t = true) ->
  DInv n s' i dead.
Proof.
  intros [A B C D] Hp Hm. constructor; auto.
  - replace (arr_of s' i n) with (arr_of s i n); [exact C|].
    unfold arr_of. apply map_ext. intros p. unfold id_at, get_ticket_id_from_pos. now rewrite Hp.
Qed.

(** moving the head id into position [j] and dropping the head: the textbook [rest] *)
Lemma arr_after_move n s s' i x dead :
  DInv n s i dead -> i <= n ->
  let arr := arr_of s i n in
  let j := i + N.of_nat (offset arr x) in
  (forall p, i < p -> id_at s' p = if p =? j then id_at s i else id_at s p) ->
  arr_of s' (i + 1) n = rest arr x /\ pick arr x = id_at s j /\ i <= j <= n.
Proof.
  intros Hinv Hi arr j Hid'.
  pose proof (arr_of_length s i n) as Hlen. fold arr in Hlen.
  assert (Hne : arr <> []) by (unfold arr; rewrite (arr_of_cons s i n Hi); discriminate).
  pose proof (offset_lt arr x Hne) as Hofflt. rewrite Hlen in Hofflt.
  set (k := offset arr x) in *.
  assert (Hpick : pick arr x = id_at s j) by (unfold pick; fold k; unfold arr; now rewrite arr_of_nth).
  split; [|split; [exact Hpick | unfold j; lia]].
  unfold arr_of at 1.
  rewrite (map_ext_in _ (fun p => if p =? j then id_at s i else id_at s p)).
  2:{ intros p Hp. apply range_ids_In in Hp. apply Hid'. lia. }
  unfold rest. fold k. unfold arr. rewrite (arr_of_cons s i n Hi). cbn [hd].
  destruct k as [|k'] eqn:Ek.
  - cbn [set_nth tl]. apply map_noupd_range. unfold j. lia.
  - cbn [set_nth tl]. unfold arr_of. apply map_upd_range; [lia | unfold j; lia].
Qed.

Lemma DInv_move n s s' i x dead :
  DInv n s i dead -> i <= n ->
  let arr := arr_of s i n in
  let j := i + N.of_nat (offset arr x) in
  (forall p, i < p -> id_at s' p = if p =? j then id_at s i else id_at s p) ->
  (forall t, status s t = true -> status s' t = true) -> status s' (id_at s j) = true ->
  DInv n s' (i + 1) (dead ++ [id_at s j]).
Proof.
  intros Hinv Hi arr j Hid' Hmono Hj.
  destruct (arr_after_move n s s' i x dead Hinv Hi Hid') as (Harr & Hpick & Hjr). fold arr in Harr, Hpick. fold j in Hpick.
  destruct Hinv as [A B C D]. constructor; try lia.
  - rewrite Harr, <- app_assoc. cbn [app]. rewrite <- Hpick.
    eapply perm_trans; [|exact C]. apply Permutation_app_head. apply pick_rest_perm.
    unfold arr. rewrite (arr_of_cons s i n Hi). discriminate.
  - intros t Ht. apply in_app_or in Ht. destruct Ht as [Ht|[<-|[]]]; auto.
Qed.

(** skipping the head when it is already winning *)
Lemma DInv_skip n s i dead :
  DInv n s i dead -> i <= n -> status s (id_at s i) = true -> DInv n s (i + 1) (dead ++ [id_at s i]).
Proof.
  intros [A B C D] Hi Hs. constructor; try lia.
  - rewrite <- app_assoc. cbn [app]. rewrite <- (arr_of_cons s i n Hi). exact C.
  - intros t Ht. apply in_app_or in Ht. destruct Ht as [Ht|[<-|[]]]; auto.
Qed.

Section HLeft.
Variable H : list N -> list N.

Lemma next_usize_st w r x r' w1 : next_usize H w r = (x, r', w1) -> st w1 = st w.
Proof. unfold next_usize. intros E; inversion E; reflexivity. Qed.

Lemma offset_pos s cur last x :
  cur <= last ->
  cur + x mod (last + 1 - cur) = cur + N.of_nat (offset (arr_of s cur last) x).
Proof.
  intros Hc. unfold offset. rewrite arr_of_length. rewrite !N2Nat.id. reflexivity.
Qed.

Inductive try_spec (v2 : bool) (n : N) (w : world) (cur : N) (dead : list N) : tryres -> world -> Prop :=
| TS_cur : status (st w) (id_at (st w) cur) = true -> try_spec v2 n w cur dead TCurrentWinning w
| TS_new : forall w' sel, status (st w') = status (st w) -> status (st w) sel = true ->
    (if v2 then DInv n (st w') (cur + 1) (dead ++ [sel]) else pos2id (st w') = pos2id (st w)) ->
    try_spec v2 n w cur dead TNewWinning w'
| TS_ok : forall w' sel, 1 <= sel <= n -> status (st w) sel = false ->
    status (st w') = upd (status (st w)) sel true ->
    DInv n (st w') (cur + 1) (dead ++ [sel]) ->
    try_spec v2 n w cur dead TOk w'.

Lemma try_select_spec v2 w r cur last dead tr r' w' :
  DInv last (st w) cur dead -> cur <= last ->
  try_select_winning_ticket H v2 w r cur last = (tr, r', w') ->
  try_spec v2 last w cur dead tr w' /\ bal w' = bal w /\ evs w' = evs w /\
  (exists f g, st w' = st w <| status := f |> <| pos2id := g |>).
Proof.
  intros Hinv Hc. unfold try_select_winning_ticket. cbn zeta.
  fold (id_at (st w) cur).
  destruct (status (st w) (id_at (st w) cur)) eqn:Ecur.
  { intros E; inversion E; subst. split; [constructor; exact Ecur|]. split; [reflexivity|]. split; [reflexivity|].
    exists (status (st w')), (pos2id (st w')). destruct (st w'); reflexivity. }
  unfold next_usize_in_range. destruct (next_usize H w r) as [[x r1] w1] eqn:En.
  pose proof (next_usize_st _ _ _ _ _ En) as Hst1.
  assert (Hb1 : bal w1 = bal w /\ evs w1 = evs w) by (unfold next_usize in En; inversion En; subst; split; reflexivity).
  destruct (N.leb_spec (last + 1) cur) as [Hx|_]; [lia|].
  rewrite (offset_pos (st w) cur last x Hc).
  set (arr := arr_of (st w) cur last). set (j := cur + N.of_nat (offset arr x)).
  rewrite Hst1. fold (id_at (st w) j).
  pose proof (DInv_ids _ _ _ _ cur Hinv ltac:(lia)) as Hcid.
  assert (Hjr : cur <= j <= last).
  { pose proof (arr_of_length (st w) cur last) as Hl. fold arr in Hl.
    assert (Hne : arr <> []) by (unfold arr; rewrite (arr_of_cons _ _ _ Hc); discriminate).
    pose proof (offset_lt arr x Hne). unfold j. lia. }
  pose proof (DInv_ids _ _ _ _ j Hinv Hjr) as Hjid.
  destruct (status (st w) (id_at (st w) j)) eqn:Esel.
  - (* the drawn ticket is already winning *)
    destruct v2; intros E; inversion E; subst tr r' w'; clear E.
    + rewrite st_set_st. split; [|split; [apply Hb1|split; [apply Hb1|]]].
      * eapply TS_new with (sel := id_at (st w) j); [rewrite st_set_st; reflexivity | exact Esel |].
        rewrite st_set_st.
        apply (DInv_move last (st w) _ cur x dead Hinv Hc); fold arr; fold j.
        -- intros p Hp. unfold id_at, get_ticket_id_from_pos. cbn. unfold upd.
           destruct (N.eqb_spec p j) as [->|Hne].
           ++ fold (get_ticket_id_from_pos (st w) cur). fold (id_at (st w) cur).
              destruct (N.eqb_spec (id_at (st w) cur) 0); [lia|reflexivity].
           ++ destruct (N.eqb_spec p cur); [lia|reflexivity].
        -- intros t Ht. exact Ht.
        -- exact Esel.
      * eexists _, _. reflexivity.
    + split; [|split; [apply Hb1|split; [apply Hb1|]]].
      * eapply TS_new with (sel := id_at (st w) j); [now rewrite Hst1 | exact Esel | now rewrite Hst1].
      * rewrite Hst1. exists (status (st w)), (pos2id (st w)). destruct (st w); reflexivity.
  - intros E; inversion E; subst tr r' w'; clear E.
    rewrite st_set_st. split; [|split; [apply Hb1|split; [apply Hb1|]]].
    + eapply TS_ok with (sel := id_at (st w) j); [exact Hjid | exact Esel | rewrite st_set_st; reflexivity |].
      rewrite st_set_st.
      apply (DInv_move last (st w) _ cur x dead Hinv Hc); fold arr; fold j.
      * intros p Hp. unfold id_at, get_ticket_id_from_pos. cbn. unfold upd.
        destruct (N.eqb_spec p j) as [->|Hne]; [|reflexivity].
        fold (get_ticket_id_from_pos (st w) cur). fold (id_at (st w) cur).
        destruct (N.eqb_spec (id_at (st w) cur) 0); [lia|reflexivity].
      * intros t Ht. cbn. apply upd_true_mono. exact Ht.
      * cbn. unfold upd. now rewrite N.eqb_refl.
    + eexists _, _. reflexivity.
Qed.
End HLeft.

(** ** counting *)
Lemma count_winning_status s s' ids : status s' = status s -> count_winning s' ids = count_winning s ids.
Proof. unfold count_winning. now intros ->. Qed.

Lemma count_upd_in s s' sel : forall ids,
  NoDup ids -> In sel ids -> status s sel = false -> status s' = upd (status s) sel true ->
  count_winning s' ids = count_winning s ids + 1.
Proof.
  intros ids Hnd Hin Hf Hs'. unfold count_winning. rewrite Hs'. clear Hs'.
  induction ids as [|x l IH]; [destruct Hin|].
  inversion Hnd as [|? ? Hx Hl]; subst. cbn [filter]. unfold upd at 1.
  destruct (N.eqb_spec x sel) as [->|Hne].
  - rewrite Hf. cbn [length].
    replace (filter (upd (status s) sel true) l) with (filter (status s) l); [lia|].
    apply filter_ext_in. intros a Ha. unfold upd. destruct (N.eqb_spec a sel); [subst; contradiction|reflexivity].
  - destruct Hin as [->|Hin]; [congruence|]. specialize (IH Hl Hin).
    destruct (status s x); cbn [length]; lia.
Qed.

Lemma count_all s ids : (forall t, In t ids -> status s t = true) -> count_winning s ids = N.of_nat (length ids).
Proof.
  intros Hall. unfold count_winning. induction ids as [|x l IH]; [reflexivity|].
  cbn [filter]. rewrite (Hall x (or_introl eq_refl)). cbn [length]. rewrite Nat2N.inj_succ, Nat2N.inj_succ.
  f_equal. apply IH. intros t Ht. apply Hall. now right.
Qed.

Lemma count_perm s l1 l2 : Permutation l1 l2 -> count_winning s l1 = count_winning s l2.
Proof.
  unfold count_winning. intros Hp. induction Hp as [|x l l' Hp IH|x y l|l l' l'' H1 IH1 H2 IH2]; cbn [filter].
  - reflexivity.
  - destruct (status s x); cbn [length]; lia.
  - destruct (status s x), (status s y); cbn [length]; lia.
  - lia.
Qed.

(** once the tail is empty every ticket wins *)
Lemma DInv_full n s dead : DInv n s (n + 1) dead -> count_winning s (range_ids 1 n) = n.
Proof.
  intros [A B C D]. assert (Ha : arr_of s (n + 1) n = []) by (unfold arr_of; rewrite range_ids_nil by lia; reflexivity).
  rewrite Ha, app_nil_r in C. rewrite <- (count_perm s _ _ C), (count_all s dead D).
  rewrite (Permutation_length C), range_ids_length. lia.
Qed.

Section HLoop.
Variable H : list N -> list N.

(** the invariant of the second phase *)
Record LInv (v2 : bool) (nrw last tot : N) (x : world * gtop) : Prop := {
  li_d : exists dead, DInv last (st (fst x)) (nrw + g_offset (snd x)) dead;
  li_count : count_winning (st (fst x)) (range_ids 1 last) = nrw + g_additional (snd x);
  li_pool : g_additional (snd x) + g_leftover (snd x) = tot \/
            (g_leftover (snd x) = 0 /\ g_additional (snd x) <= tot /\ last <= nrw + g_additional (snd x))
}.

Lemma leftover_body_LInv v2 nrw last tot w o w' o' c :
  LInv v2 nrw last tot (w, o) ->
  leftover_body H v2 nrw last (w, o) = Ok (w', o', c) ->
  LInv v2 nrw last tot (w', o') /\ (c = false -> g_leftover o' = 0 /\ w' = w) /\
  bal w' = bal w /\ evs w' = evs w /\
  (exists f g, st w' = st w <| status := f |> <| pos2id := g |>) /\
  (forall t, status (st w) t = true -> status (st w') t = true).
Proof.
  intros [(dead & Hd) Hcnt Hpool]. cbn [fst snd] in *. unfold leftover_body.
  set (o1 := if last <=? nrw + g_additional o then o <| g_leftover := 0 |> else o).
  assert (Ho1 : g_additional o1 = g_additional o /\ g_offset o1 = g_offset o /\ g_rng o1 = g_rng o /\
                (g_additional o1 + g_leftover o1 = tot \/
                 (g_leftover o1 = 0 /\ g_additional o1 <= tot /\ last <= nrw + g_additional o1)) /\
                (g_leftover o1 <> 0 -> nrw + g_additional o < last)).
  { unfold o1. destruct (N.leb_spec last (nrw + g_additional o)) as [Hle|Hgt]; cbn.
    - repeat split; auto. right. repeat split; auto. lia. congruence.
    - repeat split; auto. }
  destruct Ho1 as (Ha1 & Hof1 & Hr1 & Hpool1 & Hgt).
  destruct (N.eqb_spec (g_leftover o1) 0) as [Hz|Hnz].
  { intros E; inversion E; subst w' o' c; clear E. split; [|split; [auto|]].
    - constructor; cbn [fst snd]; [exists dead; rewrite Hof1; exact Hd | rewrite Ha1; exact Hcnt | exact Hpool1].
    - repeat split; auto. exists (status (st w)), (pos2id (st w)). destruct (st w); reflexivity. }
  specialize (Hgt Hnz).
  (* the tail is not empty: otherwise every ticket would win and the clamp would have fired *)
  assert (Hcur : nrw + g_offset o1 <= last).
  { rewrite Hof1. destruct (N.le_gt_cases (nrw + g_offset o) last) as [Hle|Hlt]; [exact Hle|].
    pose proof (di_hi _ _ _ _ Hd) as Hhi.
    assert (Heq : nrw + g_offset o = last + 1) by lia. rewrite Heq in Hd.
    pose proof (DInv_full _ _ _ Hd) as Hfull. lia. }
  destruct (try_select_winning_ticket H v2 w (g_rng o1) (nrw + g_offset o1) last) as [[tr r'] w1] eqn:Et.
  rewrite Hof1 in Et, Hcur.
  destruct (try_select_spec H v2 _ _ _ _ _ _ _ _ Hd Hcur Et) as (Hspec & Hb & He & Hfr).
  assert (Hpool2 : g_additional o + g_leftover o1 = tot) by (destruct Hpool1 as [Hp|(Hp & _)]; [lia|congruence]).
  inversion Hspec as [Hs Htr Hw | w2 sel Hst Hsel Hv Htr Hw | w2 sel Hr Hsf Hst Hd2 Htr Hw]; subst tr; try subst w1; try subst w2.
  - (* current ticket already winning: skip it *)
    intros E; inversion E; subst w' o' c; clear E. split; [|split; [discriminate|]].
    + constructor; cbn [fst snd]; cbn.
      * exists (dead ++ [id_at (st w) (nrw + g_offset o)]). rewrite Hof1.
        replace (nrw + (g_offset o + 1)) with (nrw + g_offset o + 1) by lia. apply DInv_skip; assumption.
      * rewrite Ha1. exact Hcnt.
      * left. rewrite Ha1. exact Hpool2.
    + repeat split; auto.
  - (* drawn ticket already winning *)
    intros E; inversion E; subst w' o' c; clear E. split; [|split; [discriminate|]].
    + destruct v2; constructor; cbn [fst snd]; cbn.
      * exists (dead ++ [sel]). rewrite Hof1. replace (nrw + (g_offset o + 1)) with (nrw + g_offset o + 1) by lia. exact Hv.
      * rewrite Ha1, (count_winning_status _ _ _ Hst). exact Hcnt.
      * left. rewrite Ha1. exact Hpool2.
      * exists dead. rewrite Hof1. eapply DInv_status; [exact Hd | exact Hv | intros t Ht; rewrite Hst; exact Ht].
      * rewrite Ha1, (count_winning_status _ _ _ Hst). exact Hcnt.
      * left. rewrite Ha1. exact Hpool2.
    + repeat split; auto. intros t Ht. rewrite Hst. exact Ht.
  - (* a new winner *)
    intros E; inversion E; subst w' o' c; clear E. split; [|split; [discriminate|]].
    + constructor; cbn [fst snd]; cbn.
      * exists (dead ++ [sel]). rewrite Hof1. replace (nrw + (g_offset o + 1)) with (nrw + g_offset o + 1) by lia. exact Hd2.
      * rewrite Ha1. rewrite (count_upd_in (st w) (st w2) sel); [lia | apply range_ids_NoDup | apply range_ids_In; lia | exact Hsf | exact Hst].
      * left. rewrite Ha1. lia.
    + repeat split; auto. intros t Ht. rewrite Hst. apply upd_true_mono. exact Ht.
Qed.
End HLoop.

(** ** the first phase: counting over all tickets, and the pool of reserved tickets *)
Lemma topup_v2_count_all all : NoDup all -> forall walk s rem added s' rem' added',
  (forall t, In t walk -> In t all) ->
  topup_v2 walk s rem added = (s', rem', added') ->
  count_winning s' all = count_winning s all + (added' - added) /\ added <= added' /\
  rem' <= rem /\ added' + rem' = added + rem.
Proof.
  intros Hnd. induction walk as [|t walk IH]; intros s rem added s' rem' added' Hsub E; cbn in E.
  - inversion E; subst. repeat split; lia.
  - destruct (N.eqb_spec rem 0) as [Hz|Hnz]; [inversion E; subst; repeat split; lia|].
    destruct (status s t) eqn:Est.
    + apply IH in E; [exact E|]. intros x Hx. apply Hsub. now right.
    + apply IH in E; [|intros x Hx; apply Hsub; now right].
      destruct E as (Hc & Ha & Hr & Hp).
      rewrite (count_upd_in s (s <| status := upd (status s) t true |>) t all Hnd) in Hc;
        [|apply Hsub; now left | exact Est | reflexivity].
      repeat split; lia.
Qed.

Definition reserved (v2 : bool) (s0 : state) (u : N) : N :=
  match uts s0 u with
  | Some us => if v2 then sumN (map fst (us_infos us)) else us_sg us + us_mg us
  | None => 0
  end.

Lemma gt_user_step_count (v2 : bool) all s o u (s' : state) (o' : gtop) :
  NoDup all ->
  (forall f la t, range s u = Some (f, la) -> In t (range_ids f la) -> In t all) ->
  (if v2 then gt_user_step_v2 s o u else gt_user_step_v1 s o u) = (s', o') ->
  count_winning s' all = count_winning s all + (g_additional o' - g_additional o) /\
  g_additional o <= g_additional o' /\
  g_additional o' + g_leftover o' = g_additional o + g_leftover o + reserved v2 s u /\
  g_offset o' = g_offset o /\ g_rng o' = g_rng o.
Proof.
  intros Hnd Hsub. unfold reserved. destruct v2.
  - unfold gt_user_step_v2. destruct (uts s u) as [us|]; [|intros E; inversion E; subst; repeat split; lia].
    destruct (calc_v2_spec (us_infos us) (confirmed s u)) as [_ Hsum].
    destruct (calc_v2 (us_infos us) (confirmed s u)) as [g l]. cbn [fst snd] in Hsum.
    destruct (N.ltb_spec 0 g) as [Hg|Hg]; [|intros E; inversion E; subst; cbn; repeat split; lia].
    destruct (range s u) as [[f la]|] eqn:Er; [|intros E; inversion E; subst; cbn; repeat split; lia].
    destruct (N.ltb_spec (winning_tickets_in_range s f la) g) as [Hlt|Hge];
      [|intros E; inversion E; subst; cbn; repeat split; lia].
    destruct (topup_v2 (range_ids f la) s (g - winning_tickets_in_range s f la) 0) as [[s2 rem] added] eqn:Et.
    intros E; inversion E; subst s' o'; clear E.
    destruct (topup_v2_count_all all Hnd _ _ _ _ _ _ _ (fun t Ht => Hsub f la t eq_refl Ht) Et) as (Hc & Ha & Hr & Hp).
    cbn. repeat split; lia.
  - unfold gt_user_step_v1. destruct (uts s u) as [us|]; [|intros E; inversion E; subst; repeat split; lia].
    destruct (us_b us <=? confirmed s u); cbn [fst snd];
    match goal with |- context [if ?c then _ else _] => destruct c end; cbn [fst snd];
    match goal with |- context [0 <? ?n] => destruct (N.ltb_spec 0 n) end;
    try (intros E; inversion E; subst; cbn; repeat split; lia);
    (destruct (range s u) as [[f la]|] eqn:Er; [|intros E; inversion E; subst; cbn; repeat split; lia]);
    match goal with |- context [?n <=? winning_tickets_in_range s f la] =>
      destruct (N.leb_spec n (winning_tickets_in_range s f la)) end;
    try (intros E; inversion E; subst; cbn; repeat split; lia);
    match goal with |- context [topup_v2 ?a ?b ?c ?d] => destruct (topup_v2 a b c d) as [[s2 rem] added] eqn:Et end;
    intros E; inversion E; subst s' o'; clear E;
    destruct (topup_v2_count_all all Hnd _ _ _ _ _ _ _ (fun t Ht => Hsub f la t eq_refl Ht) Et) as (Hc & Ha & Hr & Hp);
    cbn; repeat split; lia.
Qed.

Lemma sumN_map_perm (f : N -> N) l1 l2 : Permutation l1 l2 -> sumN (map f l1) = sumN (map f l2).
Proof.
  intros Hp. induction Hp as [|x l l' Hp IH|x y l|l l' l'' H1 IH1 H2 IH2]; cbn [map]; rewrite ?sumN_cons; lia.
Qed.

Definition within (s0 : state) (last : N) : Prop :=
  forall u f la t, range s0 u = Some (f, la) -> In t (range_ids f la) -> In t (range_ids 1 last).

Record CInv (v2 : bool) (s0 : state) (o0 : gtop) (last : N) (s : state) (o : gtop) : Prop := {
  ci_g : GInv v2 s0 s;
  ci_count : count_winning s (range_ids 1 last) =
             count_winning s0 (range_ids 1 last) + (g_additional o - g_additional o0);
  ci_add : g_additional o0 <= g_additional o;
  ci_pool : g_additional o + g_leftover o + sumN (map (reserved v2 s0) (gt_users s)) =
            g_additional o0 + g_leftover o0 + sumN (map (reserved v2 s0) (gt_users s0));
  ci_off : g_offset o = g_offset o0 /\ g_rng o = g_rng o0
}.

Lemma select_gt_body_CInv v2 s0 o0 last s o n s' o' n' :
  sized v2 s0 -> within s0 last -> CInv v2 s0 o0 last s o ->
  select_gt_body v2 (s, o, n) = Ok (s', o', n', true) -> CInv v2 s0 o0 last s' o'.
Proof.
  intros Hsz Hw [Hg Hc Ha Hp [Hof Hrn]] E.
  pose proof (select_gt_body_GInv v2 s0 s o n s' o' n' Hsz Hg E) as Hg'.
  destruct Hg as [_ (f0 & g0 & Hfr) Hnd _ _ _].
  unfold select_gt_body in E. destruct (n =? 0); [discriminate|].
  destruct (gt_users s) as [|u l] eqn:Eg; [discriminate|].
  set (s1 := s <| gt_users := swap_remove u (u :: l) |>) in *.
  destruct (if v2 then gt_user_step_v2 s1 o u else gt_user_step_v1 s1 o u) as [s2 o2] eqn:Es.
  inversion E; subst s' o' n'; clear E.
  assert (Hr1 : range s1 = range s0) by (unfold s1; rewrite Hfr; reflexivity).
  assert (Hu1 : uts s1 = uts s0) by (unfold s1; rewrite Hfr; reflexivity).
  assert (Hsub : forall f la t, range s1 u = Some (f, la) -> In t (range_ids f la) -> In t (range_ids 1 last)).
  { intros f la t Hr Ht. rewrite Hr1 in Hr. eapply Hw; eauto. }
  destruct (gt_user_step_count v2 _ s1 o u s2 o2 (range_ids_NoDup 1 last) Hsub Es) as (Hc2 & Ha2 & Hp2 & Hof2 & Hrn2).
  destruct (gt_user_step_only_status v2 _ _ _ _ _ Es) as [f2 Hs2].
  assert (Hres : reserved v2 s1 u = reserved v2 s0 u) by (unfold reserved; rewrite Hu1; reflexivity).
  assert (Hsum : sumN (map (reserved v2 s0) (u :: l)) = reserved v2 s0 u + sumN (map (reserved v2 s0) (swap_remove u (u :: l)))).
  { rewrite <- (sumN_map_perm _ _ _ (swap_remove_perm u (u :: l) Hnd (or_introl eq_refl))). cbn [map]. now rewrite sumN_cons. }
  constructor; auto.
  - rewrite Hc2. change (count_winning s1 (range_ids 1 last)) with (count_winning s (range_ids 1 last)). lia.
  - lia.
  - replace (gt_users s2) with (swap_remove u (u :: l)) by (rewrite Hs2; reflexivity). lia.
  - split; congruence.
Qed.

Theorem select_gt_loop_counts v2 s0 o0 last : forall b n s' o' n' d b',
  NoDup (gt_users s0) -> sized v2 s0 -> within s0 last -> n = N.of_nat (length (gt_users s0)) ->
  run_while b (select_gt_body v2) (s0, o0, n) = Ok (s', o', n', d, b') ->
  CInv v2 s0 o0 last s' o'.
Proof.
  intros b n s' o' n' d b' Hnd Hsz Hw Hn E.
  change (CInv v2 s0 o0 last (fst (fst (s', o', n'))) (snd (fst (s', o', n')))).
  eapply (run_invariant (select_gt_body v2) (fun x => CInv v2 s0 o0 last (fst (fst x)) (snd (fst x)))); [| |exact E].
  - intros [[sa oa] na] [[sb ob] nb] c Hi Eb. cbn [fst snd] in *. destruct c.
    + eapply select_gt_body_CInv; eauto.
    + unfold select_gt_body in Eb. destruct (na =? 0); [inversion Eb; subst; assumption|].
      destruct (gt_users sa); [discriminate|]. destruct (if v2 then _ else _); discriminate.
  - cbn [fst snd]. constructor; auto; try lia. apply GInv_init; assumption.
Qed.

Section HFinal.
Variable H : list N -> list N.

Lemma leftover_body_false v2 nrw last w o w' o' :
  leftover_body H v2 nrw last (w, o) = Ok (w', o', false) -> g_leftover o' = 0.
Proof.
  unfold leftover_body.
  set (o1 := if last <=? nrw + g_additional o then o <| g_leftover := 0 |> else o).
  destruct (N.eqb_spec (g_leftover o1) 0) as [Hz|Hnz]; [intros E; inversion E; subst; exact Hz|].
  destruct (try_select_winning_ticket _ _ _ _ _ _) as [[tr r'] w1]. destruct tr; discriminate.
Qed.

Lemma leftover_loop_LInv v2 nrw last tot b w o w' o' d b' :
  LInv v2 nrw last tot (w, o) ->
  run_while b (leftover_body H v2 nrw last) (w, o) = Ok (w', o', d, b') ->
  LInv v2 nrw last tot (w', o') /\ (d = true -> g_leftover o' = 0).
Proof.
  intros Hi E. split.
  - eapply (run_invariant (leftover_body H v2 nrw last) (LInv v2 nrw last tot)); [| exact Hi | exact E].
    intros [wa oa] [wb ob] c Ha Eb. eapply leftover_body_LInv; eauto.
  - intros ->. destruct (run_completed_stop _ _ _ _ _ E) as ([wz oz] & Ez).
    eapply leftover_body_false; eauto.
Qed.

Definition pool0 (v2 : bool) (s0 : state) (o : gtop) : N :=
  g_additional o + g_leftover o + sumN (map (reserved v2 s0) (gt_users s0)).

(** both phases, completed: marked tickets = reported winners; the pool of reserved tickets is
    handed out completely unless every ticket wins *)
Theorem gt_distribution_counts v2 b w o w1 o1 bb :
  let s0 := st w in
  let last := last_ticket_id s0 in
  let nrw := nr_winning s0 in
  NoDup (gt_users s0) -> sized v2 s0 -> within s0 last ->
  (exists dead, DInv last s0 (nrw + g_offset o) dead) ->
  count_winning s0 (range_ids 1 last) = nrw + g_additional o ->
  gt_distribution H v2 b w o = Ok (w1, o1, true, bb) ->
  count_winning (st w1) (range_ids 1 last) = nrw + g_additional o1 /\
  g_leftover o1 = 0 /\
  (g_additional o1 = pool0 v2 s0 o \/ (g_additional o1 <= pool0 v2 s0 o /\ last <= nrw + g_additional o1)) /\
  nr_winning (st w1) = nrw /\ last_ticket_id (st w1) = last.
Proof.
  intros s0 last nrw Hnd Hsz Hw (dead & Hd) Hc. unfold gt_distribution. intros E.
  apply bind_ok in E. destruct E as ([[[[s1 oa] n1] d1] ba] & H1 & E).
  destruct d1; cbn [negb] in E; [|inversion E].
  apply bind_ok in E. destruct E as ([[[w2 o2] d2] b2'] & H2 & E). inversion E; subst w2 o2 d2 b2'; clear E.
  fold s0 in H1.
  pose proof (select_gt_loop_counts v2 s0 o last _ _ _ _ _ _ _ Hnd Hsz Hw eq_refl H1) as [Hg Hc1 Ha1 Hp1 [Hof1 Hr1]].
  destruct (select_gt_loop_honours v2 s0 _ _ _ _ _ _ _ _ Hnd Hsz eq_refl H1) as (_ & Hempty).
  specialize (Hempty eq_refl). rewrite Hempty in Hp1. cbn [map] in Hp1. unfold sumN at 1 in Hp1. cbn [fold_right] in Hp1.
  destruct Hg as [Hmono (f1 & g1 & Hfr) _ _ _ _].
  assert (Hnw1 : nr_winning s1 = nrw) by (rewrite Hfr; reflexivity).
  assert (Hl1 : last_ticket_id s1 = last) by (rewrite Hfr; reflexivity).
  assert (Hpos : pos2id s1 = pos2id s0) by (rewrite Hfr; reflexivity).
  rewrite Hnw1, Hl1 in H2.
  assert (Hi : LInv v2 nrw last (pool0 v2 s0 o) (set_st w s1, oa)).
  { constructor; cbn [fst snd]; rewrite ?st_set_st.
    - exists dead. rewrite Hof1. eapply DInv_status; eauto.
    - rewrite Hc1, Hc. lia.
    - left. unfold pool0. fold s0. lia. }
  destruct (leftover_loop_LInv v2 nrw last _ _ _ _ _ _ _ _ Hi H2) as ([_ Hcf Hpf] & Hz). cbn [fst snd] in *.
  specialize (Hz eq_refl).
  destruct (leftover_loop_gt_frame H v2 _ _ _ _ _ _ _ _ _ H2) as (Hgf & _).
  rewrite st_set_st in Hgf. destruct Hgf as (_&_&_&_&_&_&_& Hlast & Hnrw & _).
  split; [exact Hcf|]. split; [exact Hz|]. split; [|split; congruence].
  destruct Hpf as [Hp|(_ & Hle & Hcl)]; [left; lia | right; split; assumption].
Qed.
End HFinal.

(** ** the state left by the completed base selection satisfies the hypotheses above *)
From LP Require Import Proofs.Rng Proofs.Resume Proofs.Select Proofs.Resume3 Proofs.Resume4.

Lemma count_of_wins s n wins :
  (forall t, status s t = true <-> In t wins) -> NoDup wins -> (forall t, In t wins -> 1 <= t <= n) ->
  count_winning s (range_ids 1 n) = N.of_nat (length wins).
Proof.
  intros Hst Hnd Hr. unfold count_winning. f_equal. apply Permutation_length.
  apply NoDup_Permutation; [apply NoDup_filter, range_ids_NoDup | exact Hnd|].
  intros t. rewrite filter_In, range_ids_In, Hst. split; [tauto|]. intros Ht. split; [apply Hr|]; assumption.
Qed.

Section HSel.
Variable H : list N -> list N.

Theorem select_winners_completed_shape e b w w' sd rest :
  op (st w) = OpNone -> seeds w = sd :: rest ->
  fresh_shuffle (st w) ->
  nr_winning (st w) <= last_ticket_id (st w) ->
  select_winners H e b w = Ok (w', 0) ->
  let n := last_ticket_id (st w) in
  (exists wins, DInv n (st w') (nr_winning (st w) + 1) wins) /\
  count_winning (st w') (range_ids 1 n) = nr_winning (st w).
Proof.
  intros Hop Hseeds Hfresh Hle E. cbn zeta.
  destruct (select_winners_completed H e b w w' sd rest Hop Hseeds Hfresh Hle E) as (Hst & Hnd & Hlen & Hrg & _).
  split.
  2:{ rewrite (count_of_wins _ _ _ Hst Hnd Hrg), Hlen. lia. }
  unfold select_winners in E.
  apply bind_ok in E. destruct E as (u1 & _ & E).
  apply bind_ok in E. destruct E as (u2 & _ & E).
  apply bind_ok in E. destruct E as (u3 & _ & E).
  apply bind_ok in E. destruct E as (u4 & _ & E).
  apply bind_ok in E. destruct E as (u5 & _ & E).
  unfold load_select_winners_operation in E. rewrite Hop in E.
  rewrite (rng_default_fresh _ _ _ Hseeds) in E. cbn [bind] in E.
  apply bind_ok in E. destruct E as ([[[[wl rl] pl] done] bb] & Hrun & E).
  destruct done; [|inversion E]. inversion E; subst w'; clear E.
  rewrite !st_emit, !st_set_st.
  assert (Hfresh' : fresh_shuffle (st w <| op := OpNone |>)) by (destruct Hfresh; split; auto).
  destruct (N.eqb_spec (nr_winning (st w)) 0) as [Hz|Hnz].
  - rewrite run_while_eq in Hrun. unfold select_body in Hrun. rewrite Hz in Hrun. cbn in Hrun.
    exists []. rewrite Hz.
    destruct (fresh_SInv _ (last_ticket_id (st w)) Hfresh') as [Hi _].
    apply SInv_DInv in Hi.
    destruct b; inversion Hrun; subst; clear Hrun; (eapply DInv_status; [exact Hi | reflexivity | auto]).
  - assert (H1le : 1 <= nr_winning (st w)) by lia.
    pose proof (select_loop_completed H _ _ Hnz _ _ _ _ _ _ _ _ H1le Hrun) as Hc.
    cbn zeta in Hc. destruct Hc as (Hstl & _).
    rewrite st_set_st in Hstl.
    replace (S (N.to_nat (nr_winning (st w) - 1))) with (N.to_nat (nr_winning (st w))) in Hstl by lia.
    set (k := N.to_nat (nr_winning (st w))) in *.
    destruct (fresh_SInv _ (last_ticket_id (st w)) Hfresh') as [Hi _].
    pose proof (sloop_refines k _ 1 (last_ticket_id (st w)) [] (rng_words H k {| r_seed := sd; r_index := 0 |}) Hi
                  ltac:(lia) ltac:(rewrite rng_words_length; lia)) as Hr.
    match type of Hr with context [fy ?a ?b ?c] => destruct (fy a b c) as [w2 r2] end.
    destruct Hr as [Hi2 _]. cbn [app] in Hi2.
    exists w2. replace (nr_winning (st w) + 1) with (1 + N.of_nat k) by lia.
    apply SInv_DInv in Hi2.
    assert (Heq : st wl = sloop k (st w <| op := OpNone |>) 1 (last_ticket_id (st w)) (rng_words H k {| r_seed := sd; r_index := 0 |})) by exact Hstl.
    rewrite <- Heq in Hi2.
    eapply DInv_status; [exact Hi2 | reflexivity | auto].
Qed.
End HSel.

(** ** the endpoints *)
Section HEnd.
Variable H : list N -> list N.

Definition total_reserved (v2 : bool) (s : state) : N := sumN (map (reserved v2 s) (gt_users s)).

Definition dist_ready (v2 : bool) (s : state) : Prop :=
  op s = OpNone /\ NoDup (gt_users s) /\ sized v2 s /\ within s (last_ticket_id s) /\
  (exists dead, DInv (last_ticket_id s) s (nr_winning s + 1) dead) /\
  count_winning s (range_ids 1 (last_ticket_id s)) = nr_winning s.

Definition dist_result (v2 : bool) (s s' : state) : Prop :=
  let n := last_ticket_id s in
  count_winning s' (range_ids 1 n) = nr_winning s' /\
  nr_winning s' = N.min (nr_winning s + total_reserved v2 s) n /\
  claimable_payment s' = claimable_payment s + price s * (nr_winning s' - nr_winning s) /\
  last_ticket_id s' = n.

Lemma counts_result v2 s0 (o1 : gtop) (s1 : state) :
  count_winning s1 (range_ids 1 (last_ticket_id s0)) = nr_winning s0 + g_additional o1 ->
  (g_additional o1 = total_reserved v2 s0 \/
   (g_additional o1 <= total_reserved v2 s0 /\ last_ticket_id s0 <= nr_winning s0 + g_additional o1)) ->
  nr_winning s0 + g_additional o1 = N.min (nr_winning s0 + total_reserved v2 s0) (last_ticket_id s0).
Proof.
  intros Hc Hp. pose proof (count_winning_le_length s1 (range_ids 1 (last_ticket_id s0))) as Hle.
  rewrite range_ids_length in Hle. lia.
Qed.

Theorem distribute_counts v2 e b w w' :
  dist_ready v2 (st w) ->
  distribute_guaranteed_tickets H v2 e b w = Ok (w', 0) ->
  dist_result v2 (st w) (st w').
Proof.
  intros (Hop & Hnd & Hsz & Hw & Hd & Hc). unfold distribute_guaranteed_tickets. intros E.
  apply bind_ok in E. destruct E as (u1 & _ & E).
  apply bind_ok in E. destruct E as (u2 & _ & E).
  apply bind_ok in E. destruct E as (u3 & _ & E).
  apply bind_ok in E. destruct E as (u4 & _ & E).
  apply bind_ok in E. destruct E as (u5 & _ & E).
  apply bind_ok in E. destruct E as ([o0 wl] & Hl & E).
  apply bind_ok in E. destruct E as ([[[wa oa] da] ba] & Hdist & E).
  assert (Hwl : st wl = st w) by (eapply load_gt_op_st; eauto).
  assert (Ho0 : g_additional o0 = 0 /\ g_leftover o0 = 0 /\ g_offset o0 = 1).
  { unfold load_gt_op in Hl. rewrite Hop in Hl. destruct (rng_default w) as [r0 w0']. inversion Hl; subst. auto. }
  destruct Ho0 as (Ha0 & Hl0 & Hof0).
  destruct da; [|inversion E].
  set (w0 := set_st wl (st wl <| op := OpNone |>)) in *.
  assert (Hs0 : st w0 = st w).
  { unfold w0. rewrite st_set_st, Hwl. rewrite <- Hop. destruct (st w); reflexivity. }
  assert (Hd' : exists dead, DInv (last_ticket_id (st w0)) (st w0) (nr_winning (st w0) + g_offset o0) dead)
    by (rewrite Hs0, Hof0; exact Hd).
  assert (Hc' : count_winning (st w0) (range_ids 1 (last_ticket_id (st w0))) = nr_winning (st w0) + g_additional o0)
    by (rewrite Hs0, Ha0, N.add_0_r; exact Hc).
  rewrite <- Hs0 in Hnd, Hsz, Hw.
  destruct (gt_distribution_counts H v2 _ _ _ _ _ _ Hnd Hsz Hw Hd' Hc' Hdist) as (Hcf & Hzf & Hpf & Hnf & Hlf).
  unfold pool0 in Hpf. rewrite Ha0, Hl0 in Hpf. cbn [N.add] in Hpf. rewrite Hs0 in *.
  fold (total_reserved v2 (st w)) in Hpf.
  pose proof (counts_result v2 (st w) oa (st wa) Hcf Hpf) as Hmin.
  destruct (gt_distribution_frame H v2 _ _ _ _ _ _ _ Hdist) as (Hfr & _).
  rewrite Hs0 in Hfr. destruct Hfr as (_&_&_&_&_&_&_&_&_&_& Hpr & Hcp & _).
  assert (Hst' : st w' = st wa <| fl_additional := true |>
                      <| claimable_payment := claimable_payment (st wa) + price (st wa) * g_additional oa |>
                      <| nr_winning := nr_winning (st wa) + g_additional oa |>).
  { destruct v2; inversion E; subst w'; unfold finish_gt; rewrite ?st_emit, !st_set_st; reflexivity. }
  unfold dist_result. rewrite Hst'. cbn [nr_winning claimable_payment last_ticket_id]. cbn.
  rewrite Hnf, Hlf, Hpr, Hcp.
  split; [|split; [exact Hmin|split; [f_equal; f_equal; lia|reflexivity]]].
  rewrite <- Hcf. reflexivity.
Qed.

Theorem distribute_counts_interrupted v2 l w wk e b w' :
  dist_ready v2 (st w) ->
  after_interrupted (distribute_guaranteed_tickets H v2) l w = Some wk ->
  distribute_guaranteed_tickets H v2 e b wk = Ok (w', 0) ->
  dist_result v2 (st w) (st w').
Proof.
  intros Hr Ha E. rewrite (distribute_multi_resume H v2 _ _ _ _ _ Ha) in E. eapply distribute_counts; eauto.
Qed.
End HEnd.

Section HNftOnly.
Variable H : list N -> list N.

Definition nft_only (s s' : state) : Prop := exists p q, s' = s <| nft_payers := p |> <| nft_winners := q |>.

Lemma nft_only_refl s : nft_only s s.
Proof. exists (nft_payers s), (nft_winners s). destruct s; reflexivity. Qed.

Lemma nft_only_trans a b c : nft_only a b -> nft_only b c -> nft_only a c.
Proof. intros (p & q & ->) (p' & q' & ->). exists p', q'. reflexivity. Qed.

Lemma nft_body_only total w r ul sel w' r' ul' sel' c :
  nft_body H total (w, r, ul, sel) = Ok (w', r', ul', sel', c) -> nft_only (st w) (st w').
Proof.
  unfold nft_body. destruct ((ul =? 0) || (sel =? total)); [intros E; inversion E; apply nft_only_refl|].
  unfold next_usize_in_range, next_usize. cbn zeta.
  match goal with |- context [nth_error ?l ?i] => destruct (nth_error l i) end; [|discriminate].
  intros E; inversion E; subst. rewrite st_set_st. destruct w as [sx ? ? ? ? ?]. cbn. eexists _, _. reflexivity.
Qed.

Lemma select_nft_winners_only b w r w' r' d b' :
  select_nft_winners H b w r = Ok (w', r', d, b') -> nft_only (st w) (st w').
Proof.
  unfold select_nft_winners. intros E.
  apply bind_ok in E. destruct E as ([[[[[wy ry] uy] sy] dy] by_] & Hrun & E). inversion E; subst; clear E.
  change (nft_only (st w) (st (fst (fst (fst (w', r', uy, sy)))))).
  eapply (run_invariant (nft_body H (total_nfts (st w)))
            (fun x => nft_only (st w) (st (fst (fst (fst x)))))); [| |exact Hrun].
  - intros [[[wa ra] ua] sa] [[[wb rb] ub] sb] c Hi Eb. cbn [fst] in *.
    eapply nft_only_trans; [exact Hi|]. eapply nft_body_only; eauto.
  - apply nft_only_refl.
Qed.
End HNftOnly.

Section HEndN.
Variable H : list N -> list N.

Theorem secondary_counts e b w w' :
  dist_ready false (st w) ->
  secondary_selection_step H e b w = Ok (w', 0) ->
  dist_result false (st w) (st w').
Proof.
  intros (Hop & Hnd & Hsz & Hw & Hd & Hc). unfold secondary_selection_step. intros E.
  apply bind_ok in E. destruct E as (u1 & _ & E).
  apply bind_ok in E. destruct E as (u2 & _ & E).
  apply bind_ok in E. destruct E as (u3 & _ & E).
  rewrite Hop in E. destruct (rng_default w) as [r0 wl] eqn:Er. cbn [bind] in E.
  assert (Hwl : st wl = st w) by (eapply rng_default_st; eauto).
  set (w0 := set_st wl (st wl <| op := OpNone |>)) in *.
  assert (Hs0 : st w0 = st w).
  { unfold w0. rewrite st_set_st, Hwl. rewrite <- Hop. destruct (st w); reflexivity. }
  apply bind_ok in E. destruct E as ([[wp orng] bp] & Hph & E).
  apply bind_ok in Hph. destruct Hph as ([[[wa oa] da] ba] & Hdist & Hph).
  destruct da.
  2:{ inversion Hph; subst. inversion E. }
  destruct (rng_default (finish_gt wa oa)) as [rn w3] eqn:Er3. inversion Hph; subst wp orng bp; clear Hph.
  apply bind_ok in E. destruct E as ([[[wx rx] dx] bx] & Hs & E).
  destruct dx; [|discriminate E]. injection E as Hw'.
  assert (Hd' : exists dead, DInv (last_ticket_id (st w0)) (st w0) (nr_winning (st w0) + g_offset (gtop_default r0)) dead)
    by (rewrite Hs0; exact Hd).
  assert (Hc' : count_winning (st w0) (range_ids 1 (last_ticket_id (st w0))) = nr_winning (st w0) + g_additional (gtop_default r0))
    by (rewrite Hs0; cbn [g_additional gtop_default]; rewrite N.add_0_r; exact Hc).
  rewrite <- Hs0 in Hnd, Hsz, Hw.
  destruct (gt_distribution_counts H false _ _ _ _ _ _ Hnd Hsz Hw Hd' Hc' Hdist) as (Hcf & Hzf & Hpf & Hnf & Hlf).
  unfold pool0 in Hpf. cbn [g_additional g_leftover gtop_default N.add] in Hpf. rewrite Hs0 in *.
  fold (total_reserved false (st w)) in Hpf.
  pose proof (counts_result false (st w) oa (st wa) Hcf Hpf) as Hmin.
  destruct (gt_distribution_frame H false _ _ _ _ _ _ _ Hdist) as (Hfr & _).
  rewrite Hs0 in Hfr. destruct Hfr as (_&_&_&_&_&_&_&_&_&_& Hpr & Hcp & _).
  (* the NFT draw changes neither tickets nor the ticket ledger *)
  destruct (select_nft_winners_only H _ _ _ _ _ _ _ Hs) as (pn & qn & Hxo).
  assert (H3 : st w3 = st (finish_gt wa oa)) by (eapply rng_default_st; eauto).
  unfold dist_result. rewrite <- Hw'. rewrite st_set_st. unfold set_claimable_nft. rewrite ?st_set_st.
  rewrite Hxo, H3. unfold finish_gt. rewrite ?st_set_st. unfold count_winning. cbn.
  rewrite Hnf, Hlf, Hpr, Hcp.
  split; [|split; [exact Hmin|split; [f_equal; f_equal; lia|reflexivity]]].
  rewrite <- Hcf. reflexivity.
Qed.

Theorem secondary_counts_interrupted l w wk e b w' :
  dist_ready false (st w) -> nft_disjoint w ->
  after_interrupted (secondary_selection_step H) l w = Some wk ->
  secondary_selection_step H e b wk = Ok (w', 0) ->
  dist_result false (st w) (st w').
Proof.
  intros Hr Hdj Ha E. rewrite (secondary_multi_resume H _ _ _ _ _ Hdj Ha) in E. eapply secondary_counts; eauto.
Qed.
End HEndN.
