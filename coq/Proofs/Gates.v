(** * Gates of every endpoint (C06, C15, C17, C19): what an accepted call implies about the caller,
    the stage, the pause flag and the step flags.  One lemma per endpoint, then the summary over
    [dispatch] for all eight contracts. *)
From LP Require Import Proofs.Tactics.
Open Scope N_scope.

Definition is_owner (e : env) : Prop := caller e = owner_addr.
Definition owner_or_support (e : env) (s : state) : Prop := caller e = owner_addr \/ caller e = support s.
Definition owner_or_user (e : env) : Prop := caller e = owner_addr \/ is_sc (caller e) = false.

Lemma only_owner_ok e u : only_owner e = Ok u -> is_owner e.
Proof. unfold only_owner, is_owner. intros H. apply require_ok' in H. now apply N.eqb_eq. Qed.
Lemma ext_perm_ok e s u : require_extended_permissions e s = Ok u -> owner_or_support e s.
Proof.
  unfold require_extended_permissions, owner_or_support. intros H. apply require_ok' in H.
  apply orb_true_iff in H. destruct H as [H|H]; apply N.eqb_eq in H; auto.
Qed.
Lemma owner_or_user_ok e u : check_caller_owner_or_user e = Ok u -> owner_or_user e.
Proof.
  unfold check_caller_owner_or_user, owner_or_user. intros H. apply require_ok' in H.
  apply orb_true_iff in H. destruct H as [H|H]; [left; now apply N.eqb_eq | right; now apply negb_true_iff].
Qed.
Lemma before_ws_ok e s u : require_before_winner_selection e s = Ok u ->
  get_launch_stage e s = AddTickets \/ get_launch_stage e s = Confirm.
Proof.
  unfold require_before_winner_selection. intros H. apply require_ok' in H. apply N.ltb_lt in H.
  destruct (get_launch_stage e s); cbn in H; auto; lia.
Qed.

Ltac gate_inv :=
  repeat match goal with
  | H : only_owner _ = Ok _ |- _ => apply only_owner_ok in H
  | H : require_extended_permissions _ _ = Ok _ |- _ => apply ext_perm_ok in H
  | H : check_caller_owner_or_user _ = Ok _ |- _ => apply owner_or_user_ok in H
  | H : require_stage _ _ _ = Ok _ |- _ => apply require_stage_ok in H
  | H : require_before_winner_selection _ _ = Ok _ |- _ => apply before_ws_ok in H
  | H : negb _ = true |- _ => apply negb_true_iff in H
  end.

(** ** launchpad-common *)
Lemma gate_set_ticket_price e w t a w' :
  set_ticket_price e w t a = Ok w' -> is_owner e /\ get_launch_stage e (st w) = AddTickets /\ 0 < a /\ token_valid t = true.
Proof.
  unfold set_ticket_price, try_set_ticket_price. intros E. mon_inv. gate_inv.
  repeat match goal with H : (_ <? _) = true |- _ => apply N.ltb_lt in H end. auto.
Qed.
Lemma gate_set_tpt e w a w' :
  set_launchpad_tokens_per_winning_ticket e w a = Ok w' ->
  is_owner e /\ get_launch_stage e (st w) = AddTickets /\ deposited (st w) = false /\ 0 < a.
Proof.
  unfold set_launchpad_tokens_per_winning_ticket, try_set_tpt. intros E. mon_inv. gate_inv.
  repeat match goal with H : (_ <? _) = true |- _ => apply N.ltb_lt in H end. auto.
Qed.

Definition timeline_ok (s : state) : Prop := conf_start s < ws_start s /\ ws_start s <= claim_start s.

Lemma valid_time_periods_ok s u : require_valid_time_periods s = Ok u -> timeline_ok s.
Proof.
  unfold require_valid_time_periods, timeline_ok. intros E. mon_inv.
  repeat match goal with H : require _ = Ok _ |- _ => apply require_ok' in H end.
  repeat match goal with H : (_ <=? _) = true |- _ => apply N.leb_le in H end.
  repeat match goal with H : (_ <? _) = true |- _ => apply N.ltb_lt in H end. auto.
Qed.
Lemma timeline_change_ok e o n u : require_valid_config_timeline_change e o n = Ok u -> round e < o /\ round e < n.
Proof.
  unfold require_valid_config_timeline_change. intros E. mon_inv.
  repeat match goal with H : require _ = Ok _ |- _ => apply require_ok' in H end.
  repeat match goal with H : (_ <? _) = true |- _ => apply N.ltb_lt in H end. auto.
Qed.

Lemma gate_set_conf e w r w' :
  set_confirmation_period_start_round e w r = Ok w' ->
  is_owner e /\ round e < conf_start (st w) /\ round e < r /\
  st w' = st w <| conf_start := r |> /\ timeline_ok (st w') /\ bal w' = bal w.
Proof.
  unfold set_confirmation_period_start_round. intros E. mon_inv. gate_inv.
  match goal with H : require_valid_config_timeline_change _ _ _ = Ok _ |- _ => apply timeline_change_ok in H; destruct H end.
  match goal with H : require_valid_time_periods _ = Ok _ |- _ => apply valid_time_periods_ok in H end.
  rewrite st_set_st. auto 10.
Qed.
Lemma gate_set_ws e w r w' :
  set_winner_selection_start_round e w r = Ok w' ->
  is_owner e /\ round e < ws_start (st w) /\ round e < r /\
  st w' = st w <| ws_start := r |> /\ timeline_ok (st w') /\ bal w' = bal w.
Proof.
  unfold set_winner_selection_start_round. intros E. mon_inv. gate_inv.
  match goal with H : require_valid_config_timeline_change _ _ _ = Ok _ |- _ => apply timeline_change_ok in H; destruct H end.
  match goal with H : require_valid_time_periods _ = Ok _ |- _ => apply valid_time_periods_ok in H end.
  rewrite st_set_st. auto 10.
Qed.
Lemma gate_set_claim e w r w' :
  set_claim_start_round e w r = Ok w' ->
  is_owner e /\ round e < claim_start (st w) /\ round e < r /\
  st w' = st w <| claim_start := r |> /\ timeline_ok (st w') /\ bal w' = bal w.
Proof.
  unfold set_claim_start_round. intros E. mon_inv. gate_inv.
  match goal with H : require_valid_config_timeline_change _ _ _ = Ok _ |- _ => apply timeline_change_ok in H; destruct H end.
  match goal with H : require_valid_time_periods _ = Ok _ |- _ => apply valid_time_periods_ok in H end.
  rewrite st_set_st. auto 10.
Qed.

Lemma gate_set_support e w a w' : set_support_address e w a = Ok w' -> is_owner e.
Proof. unfold set_support_address. intros E. mon_inv. gate_inv. auto. Qed.
Lemma gate_pause e w w' : pause_endpoint e w = Ok w' -> is_owner e /\ st w' = st w <| paused := true |> /\ bal w' = bal w.
Proof. unfold pause_endpoint. intros E. mon_inv. gate_inv. auto. Qed.
Lemma gate_unpause e w w' : unpause_endpoint e w = Ok w' -> is_owner e /\ st w' = st w <| paused := false |> /\ bal w' = bal w.
Proof. unfold unpause_endpoint. intros E. mon_inv. gate_inv. auto. Qed.

Lemma gate_add_tickets e w l w' : add_tickets e w l = Ok w' -> get_launch_stage e (st w) = AddTickets.
Proof. unfold add_tickets. intros E. mon_inv. gate_inv. auto. Qed.
Lemma gate_add_tickets_v1 e w l w' : add_tickets_v1 e w l = Ok w' -> get_launch_stage e (st w) = AddTickets.
Proof. unfold add_tickets_v1. intros E. mon_inv. gate_inv. auto. Qed.
Lemma gate_add_tickets_v2 e w l w' : add_tickets_v2 e w l = Ok w' -> get_launch_stage e (st w) = AddTickets.
Proof. unfold add_tickets_v2. intros E. mon_inv. gate_inv. auto. Qed.

Lemma gate_confirm e w n w' :
  confirm_tickets e w n = Ok w' -> paused (st w) = false /\ get_launch_stage e (st w) = Confirm.
Proof. unfold confirm_tickets. intros E. mon_inv. destruct a1. mon_inv. gate_inv. auto. Qed.

Lemma gate_blacklist e w l w' :
  add_users_to_blacklist e w l = Ok w' ->
  owner_or_support e (st w) /\ (get_launch_stage e (st w) = AddTickets \/ get_launch_stage e (st w) = Confirm).
Proof. unfold add_users_to_blacklist. intros E. mon_inv. gate_inv. auto. Qed.
Lemma gate_unblacklist e w l w' :
  remove_users_from_blacklist e w l = Ok w' ->
  owner_or_support e (st w) /\ (get_launch_stage e (st w) = AddTickets \/ get_launch_stage e (st w) = Confirm).
Proof. unfold remove_users_from_blacklist. intros E. mon_inv. gate_inv. auto. Qed.

Lemma gate_filter e b w w' x :
  filter_tickets e b w = Ok (w', x) ->
  paused (st w) = false /\ get_launch_stage e (st w) = WinnerSelection /\ fl_filtered (st w) = false.
Proof.
  unfold filter_tickets. intros E.
  apply bind_ok in E. destruct E as (u1 & H1 & E).
  apply bind_ok in E. destruct E as (u2 & H2 & E).
  apply bind_ok in E. destruct E as (u3 & H3 & _). mon_inv. gate_inv. auto.
Qed.
Section H.
Variable H : list N -> list N.
Lemma gate_select e b w w' x :
  select_winners H e b w = Ok (w', x) ->
  paused (st w) = false /\ get_launch_stage e (st w) = WinnerSelection /\ owner_or_user e /\
  fl_filtered (st w) = true /\ fl_selected (st w) = false.
Proof.
  unfold select_winners. intros E.
  apply bind_ok in E. destruct E as (u1 & H1 & E).
  apply bind_ok in E. destruct E as (u2 & H2 & E).
  apply bind_ok in E. destruct E as (u3 & H3 & E).
  apply bind_ok in E. destruct E as (u4 & H4 & E).
  apply bind_ok in E. destruct E as (u5 & H5 & _). mon_inv. gate_inv. auto.
Qed.
Lemma gate_distribute v2 e b w w' x :
  distribute_guaranteed_tickets H v2 e b w = Ok (w', x) ->
  get_launch_stage e (st w) = WinnerSelection /\ fl_selected (st w) = true /\ fl_additional (st w) = false /\
  (v2 = true -> paused (st w) = false /\ owner_or_user e).
Proof.
  unfold distribute_guaranteed_tickets. intros E.
  apply bind_ok in E. destruct E as (u1 & H1 & E).
  apply bind_ok in E. destruct E as (u2 & H2 & E).
  apply bind_ok in E. destruct E as (u3 & H3 & E).
  apply bind_ok in E. destruct E as (u4 & H4 & E).
  apply bind_ok in E. destruct E as (u5 & H5 & _).
  split; [gate_inv; assumption|]. split; [mon_inv; assumption|]. split; [mon_inv; gate_inv; assumption|].
  intros ->. mon_inv. gate_inv. auto.
Qed.
Lemma gate_select_nft e b w w' x :
  select_nft_winners_endpoint H e b w = Ok (w', x) ->
  get_launch_stage e (st w) = WinnerSelection /\ fl_selected (st w) = true /\ fl_additional (st w) = false.
Proof.
  unfold select_nft_winners_endpoint. intros E.
  apply bind_ok in E. destruct E as (u1 & H1 & E).
  apply bind_ok in E. destruct E as (u2 & H2 & E).
  apply bind_ok in E. destruct E as (u3 & H3 & _). mon_inv. gate_inv. auto.
Qed.
Lemma gate_secondary e b w w' x :
  secondary_selection_step H e b w = Ok (w', x) ->
  get_launch_stage e (st w) = WinnerSelection /\ fl_selected (st w) = true /\ fl_additional (st w) = false.
Proof.
  unfold secondary_selection_step. intros E.
  apply bind_ok in E. destruct E as (u1 & H1 & E).
  apply bind_ok in E. destruct E as (u2 & H2 & E).
  apply bind_ok in E. destruct E as (u3 & H3 & _). mon_inv. gate_inv. auto.
Qed.
End H.

Lemma gate_claim sf e w w' :
  claim_launchpad_tokens sf e w = Ok w' ->
  get_launch_stage e (st w) = Claim /\ claimed (st w) (caller e) = false /\ range (st w) (caller e) <> None.
Proof.
  unfold claim_launchpad_tokens, settle_tickets. intros E.
  apply bind_ok in E. destruct E as (u1 & H1 & E).
  apply bind_ok in E. destruct E as (u2 & H2 & E).
  apply bind_ok in E. destruct E as (u3 & H3 & E).
  apply bind_ok in E. destruct E as (x & Hx & _).
  apply bind_ok in Hx. destruct Hx as (fl & Hfl & _).
  mon_inv. gate_inv. repeat split; auto.
  destruct (range (st w) (caller e)); [discriminate|discriminate].
Qed.
Lemma gate_claim_not_blacklisted sf e w w' :
  claim_launchpad_tokens sf e w = Ok w' -> blacklisted (st w) (caller e) = false.
Proof.
  unfold claim_launchpad_tokens. intros E.
  apply bind_ok in E. destruct E as (u1 & _ & E).
  apply bind_ok in E. destruct E as (u2 & _ & E).
  apply bind_ok in E. destruct E as (u3 & H3 & _). apply require_ok' in H3. apply negb_true_iff in H3. exact H3.
Qed.
Lemma gate_claim_payment e w w' : claim_ticket_payment e w = Ok w' -> get_launch_stage e (st w) = Claim.
Proof. unfold claim_ticket_payment. intros E. apply bind_ok in E. destruct E as (u & Hu & _). gate_inv. auto. Qed.
Lemma gate_claim_payment_gt e w w' : claim_ticket_payment_gt e w = Ok w' -> get_launch_stage e (st w) = Claim.
Proof. unfold claim_ticket_payment_gt. intros E. apply bind_ok in E. destruct E as (u & Hu & _). gate_inv. auto. Qed.
Lemma gate_claim_nft_payment e w w' : claim_nft_payment e w = Ok w' -> get_launch_stage e (st w) = Claim.
Proof. unfold claim_nft_payment. intros E. apply bind_ok in E. destruct E as (u & Hu & _). gate_inv. auto. Qed.

Lemma gate_claim_vested v2 e w w' :
  claim_vested v2 e w = Ok w' ->
  (v2 = true -> paused (st w) = false) /\
  (claimed (st w) (caller e) = false -> get_launch_stage e (st w) = Claim /\ range (st w) (caller e) <> None).
Proof.
  unfold claim_vested. intros E.
  apply bind_ok in E. destruct E as (u1 & H1 & E).
  apply bind_ok in E. destruct E as (w1 & Hw1 & _).
  split.
  - intros ->. mon_inv. gate_inv. auto.
  - intros Hc. rewrite Hc in Hw1. unfold compute_launchpad_results, settle_tickets in Hw1.
    apply bind_ok in Hw1. destruct Hw1 as (u2 & H2 & Hw1).
    apply bind_ok in Hw1. destruct Hw1 as (x & Hx & _).
    apply bind_ok in Hx. destruct Hx as (fl & Hfl & _). gate_inv. split; auto.
    destruct (range (st w) (caller e)); discriminate.
Qed.

Lemma gate_confirm_nft e w w' :
  confirm_nft e w = Ok w' -> get_launch_stage e (st w) = Confirm /\ sft_ready (st w) = true /\
  0 < confirmed (st w) (caller e) /\ mem (caller e) (nft_payers (st w)) = false.
Proof.
  unfold confirm_nft. intros E.
  apply bind_ok in E. destruct E as (u1 & H1 & E).
  apply bind_ok in E. destruct E as (u2 & H2 & E).
  apply bind_ok in E. destruct E as (u3 & H3 & E).
  apply bind_ok in E. destruct E as (u4 & H4 & _). mon_inv. gate_inv.
  match goal with H : (_ <? _) = true |- _ => apply N.ltb_lt in H end. auto.
Qed.
Lemma gate_set_nft_cost e w t n a w' :
  set_nft_cost e w t n a = Ok w' -> is_owner e /\ get_launch_stage e (st w) = AddTickets.
Proof. unfold set_nft_cost. intros E. mon_inv. gate_inv. auto. Qed.
Lemma gate_set_schedule_v2 e w l w' :
  set_unlock_schedule_v2 e w l = Ok w' -> is_owner e /\ get_launch_stage e (st w) = AddTickets.
Proof. unfold set_unlock_schedule_v2. intros E. mon_inv. gate_inv. auto. Qed.
Lemma gate_set_schedule_v1 e w a b c d p w' :
  set_unlock_schedule_v1 e w a b c d p = Ok w' ->
  is_owner e /\ (round e < conf_start (st w) \/ sched1 (st w) = None).
Proof.
  unfold set_unlock_schedule_v1. intros E.
  apply bind_ok in E. destruct E as (u1 & H1 & E). gate_inv. split; [assumption|].
  mon_inv.
  match goal with H : ((round e <? _) || _) = true |- _ => apply orb_true_iff in H; destruct H as [H|H] end.
  - left. now apply N.ltb_lt.
  - right. destruct (sched1 (st w)); [discriminate|reflexivity].
Qed.
