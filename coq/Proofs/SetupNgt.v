(** * From deployment to the end of the confirmation window, launchpad-nft-and-guaranteed-tickets
    (v1 allocation with guarantees + NFT fee): allocation, deposit, ticket confirmations, fee payments,
    blacklisting (ticket refunds, release of guarantees, fee refunds), pause and configuration
    transactions keep [PreSel], a duplicate-free holder list, the fee ledger and an empty winners'
    list - the hypotheses of [pipeline_ngt]. *)
From Coq Require Import Permutation.
From LP Require Import Proofs.Tactics Proofs.LedgerBase Proofs.Loop Proofs.Shuffle Proofs.Gates Proofs.Frames Proofs.Filter
  Proofs.Alloc Proofs.Confirm Proofs.Settle Proofs.Ledger Proofs.Stage Proofs.Resume Proofs.FisherYates Proofs.Rng
  Proofs.Guaranteed Proofs.GuaranteedLoop Proofs.Leftover
  Proofs.Nft Proofs.Resume3 Proofs.ClaimLedger Proofs.Partition Proofs.Lifecycle Proofs.Setup Proofs.SetupGt Proofs.NftLedger
  Proofs.SetupNft Proofs.Examples.
Open Scope N_scope.

Lemma add_one_v1_nside minc s tw tg x s' tw' tg' :
  add_one_v1 minc (s, tw, tg) x = Ok (s', tw', tg') -> nside s' = nside s.
Proof.
  destruct x as [[[buyer staking] energy] mig]. unfold add_one_v1. intros E.
  apply bind_ok in E. destruct E as (u1 & _ & E). apply bind_ok in E. destruct E as (u2 & _ & E).
  apply bind_ok in E. destruct E as (s1 & Hc & E).
  assert (H1 : nside s1 = nside s) by (unfold try_create_tickets in Hc; mon_inv; reflexivity).
  apply bind_ok in E. destruct E as ([[[s2 tw2] tg2] us2] & H2 & E).
  apply bind_ok in E. destruct E as ([[[s3 tw3] tg3] us3] & H3 & E).
  inversion E; subst s' tw' tg'; clear E.
  assert (H12 : nside s2 = nside s1).
  { destruct (minc <=? staking); [apply bind_ok in H2; destruct H2 as (u5 & _ & H2)|]; inversion H2; subst; reflexivity. }
  assert (H23 : nside s3 = nside s2).
  { destruct mig; [apply bind_ok in H3; destruct H3 as (u6 & _ & H3)|]; inversion H3; subst; reflexivity. }
  change (nside s3 = nside s). congruence.
Qed.

Lemma add_loop_v1_nside minc : forall l s tw tg s' tw' tg',
  add_loop_v1 minc (s, tw, tg) l = Ok (s', tw', tg') -> nside s' = nside s.
Proof.
  induction l as [|x l IH]; intros s tw tg s' tw' tg' E; cbn [add_loop_v1] in E; [inversion E; reflexivity|].
  apply bind_ok in E. destruct E as ([[s1 tw1] tg1] & H1 & E).
  rewrite (IH _ _ _ _ _ _ E). eapply add_one_v1_nside; eauto.
Qed.

Section HSetupNgt.
Variable H : list N -> list N.

Ltac open_plain E w0 :=
  unfold exec in E; cbn [payable] in E; fold w0 in E;
  apply bind_ok in E; destruct E as (?u & ?Hnp & E); apply no_payment_nil in Hnp; rewrite Hnp in E;
  cbn [credit_payment bind] in E; cbn [dispatch] in E; unfold ret0 in E; mon_inv.

(** the transactions shared by all contracts leave the NFT side alone (any contract) *)
Theorem NInv_exec_common v e b sd w c w' r :
  NInv w -> common_call c -> pay_wf (pay e) -> caller e <> sc_addr ->
  exec H v e b sd w c = Ok (w', r) -> NInv w'.
Proof.
  intros Hi Hc Hwf Hcs E.
  set (w0 := w <| evs := [] |> <| rlog := [] |> <| locks := [] |> <| seeds := sd |>).
  assert (Hi0 : NInv w0) by (eapply NInv_ext; [| |exact Hi]; reflexivity).
  destruct Hc as [ | n | | | r0 | r0 | r0 | a | a].
  - unfold exec in E. cbn [payable] in E. fold w0 in E. cbn [bind] in E.
    apply bind_ok in E. destruct E as (w1 & Hcr & E).
    cbn [dispatch] in E. unfold ret0 in E. mon_inv.
    match goal with Hd : deposit_launchpad_tokens _ _ _ = Ok _ |- _ => apply (deposit_iff _ _ _ _ Hwf) in Hd; destruct Hd as (Hnd & Hp & Hlp & ->) end.
    pose proof (credit_payment_st _ _ _ _ Hcr) as Hs1. rewrite Hs1 in *.
    rewrite Hp in Hcr. apply credit_single in Hcr. apply transfer_ok in Hcr. destruct Hcr as [_ Hw1].
    eapply NInv_frame; [exact Hi0|rewrite st_set_st; reflexivity|].
    rewrite bal_set_st, Hw1. cbn. pose proof (ni_lp _ Hi0) as Hne. cbn in Hne.
    apply bal_after_other; intros Hx; inversion Hx; subst; congruence.
  - apply (exec_confirm_iff H v e b sd w n w' r Hwf) in E. destruct E as (w1 & Hcr & Hcond & -> & _).
    pose proof (credit_payment_st _ _ _ _ Hcr) as Hs1. unfold reset_outputs in Hs1. cbn in Hs1.
    destruct Hcond as (_ & _ & _ & _ & _ & _ & Hpay).
    assert (Hb1 : bal w1 sc_addr (nft_tok (st w)) (nft_nonce (st w)) = bal w sc_addr (nft_tok (st w)) (nft_nonce (st w))).
    { change (bal w) with (bal (reset_outputs w sd)).
      destruct Hpay as [Hp|(Hp & _)]; rewrite Hp in Hcr.
      - apply credit_single in Hcr. apply transfer_ok in Hcr. destruct Hcr as [_ ->]. cbn.
        pose proof (ni_pay _ Hi) as Hne. apply bal_after_other; intros Hx; inversion Hx; subst; congruence.
      - cbn in Hcr. inversion Hcr; reflexivity. }
    eapply NInv_frame; [exact Hi|..]; unfold confirm_effect; rewrite ?st_emit, ?st_set_st, ?bal_emit, ?bal_set_st, ?Hs1; [reflexivity|exact Hb1].
  - open_plain E w0.
    match goal with Hd : pause_endpoint _ _ = Ok _ |- _ => apply gate_pause in Hd; destruct Hd as (_ & Hs & Hb) end.
    eapply NInv_frame; [exact Hi0|..]; rewrite ?Hs, ?Hb; reflexivity.
  - open_plain E w0.
    match goal with Hd : unpause_endpoint _ _ = Ok _ |- _ => apply gate_unpause in Hd; destruct Hd as (_ & Hs & Hb) end.
    eapply NInv_frame; [exact Hi0|..]; rewrite ?Hs, ?Hb; reflexivity.
  - open_plain E w0.
    match goal with Hd : set_confirmation_period_start_round _ _ _ = Ok _ |- _ => apply gate_set_conf in Hd; destruct Hd as (_ & _ & _ & Hs & _ & Hb) end.
    eapply NInv_frame; [exact Hi0|..]; rewrite ?Hs, ?Hb; reflexivity.
  - open_plain E w0.
    match goal with Hd : set_winner_selection_start_round _ _ _ = Ok _ |- _ => apply gate_set_ws in Hd; destruct Hd as (_ & _ & _ & Hs & _ & Hb) end.
    eapply NInv_frame; [exact Hi0|..]; rewrite ?Hs, ?Hb; reflexivity.
  - open_plain E w0.
    match goal with Hd : set_claim_start_round _ _ _ = Ok _ |- _ => apply gate_set_claim in Hd; destruct Hd as (_ & _ & _ & Hs & _ & Hb) end.
    eapply NInv_frame; [exact Hi0|..]; rewrite ?Hs, ?Hb; reflexivity.
  - open_plain E w0.
    match goal with Hd : set_support_address _ _ _ = Ok _ |- _ => unfold set_support_address in Hd; mon_inv end.
    eapply NInv_frame; [exact Hi0|..]; rewrite ?st_set_st, ?bal_set_st; reflexivity.
  - open_plain E w0.
    match goal with Hd : set_launchpad_tokens_per_winning_ticket _ _ _ = Ok _ |- _ =>
      unfold set_launchpad_tokens_per_winning_ticket, try_set_tpt in Hd; mon_inv end.
    eapply NInv_frame; [exact Hi0|..]; rewrite ?st_set_st, ?bal_set_st; reflexivity.
Qed.

Theorem NInv_add_tickets_v1 e w lx w' : NInv w -> add_tickets_v1 e w lx = Ok w' -> NInv w'.
Proof.
  intros Hi E. unfold add_tickets_v1 in E.
  apply bind_ok in E. destruct E as (u & _ & E).
  apply bind_ok in E. destruct E as ([[s' tw] tg] & Hloop & E). inversion E; subst w'; clear E.
  apply add_loop_v1_nside in Hloop.
  eapply NInv_frame; [exact Hi|rewrite st_set_st; rewrite <- Hloop; reflexivity|reflexivity].
Qed.

(** blacklisting in the combined contract: ticket refunds, release of the guarantees, fee refunds *)
Theorem PreGN_blacklist e w l la w' :
  PreG w l -> NInv w -> ~ In sc_addr la ->
  blacklist_endpoint Ngt true e w la = Ok w' -> PreG w' l /\ NInv w'.
Proof.
  intros Hp Hi Hsc E. unfold blacklist_endpoint in E.
  apply bind_ok in E. destruct E as (w1 & H1 & E).
  unfold add_users_to_blacklist in H1. apply bind_ok in H1. destruct H1 as (u1 & _ & H1). apply bind_ok in H1. destruct H1 as (u2 & _ & H1).
  pose proof (PreG_blacklist_loop e la w l w1 Hp Hsc H1) as Hp1.
  destruct (blacklist_loop_nside e la w w1 H1) as [Hn1 Hb1].
  assert (Hi1 : NInv w1) by (eapply NInv_frame; [exact Hi|exact Hn1|apply Hb1; exact (ni_pay _ Hi)]).
  apply bind_ok in E. destruct E as (w2 & H2 & E).
  assert (H2' : PreG w2 l /\ NInv w2).
  { unfold clear_gt_after_blacklist_v1 in H2. apply bind_ok in H2. destruct H2 as ([[s1 rm] tg] & Hl & H2).
    inversion H2; subst w2; clear H2. destruct (clear_gt_loop_v1_only _ _ _ _ _ _ _ Hl) as [Ho Hn].
    assert (Hns : nside s1 = nside (st w1)) by (destruct Ho as (g & u & b & ->); reflexivity).
    destruct (0 <? rm).
    - split; [apply PreG_gt_only; [exact Hp1|exact Ho|apply Hn; apply Hp1]|].
      eapply NInv_frame; [exact Hi1|rewrite st_set_st; rewrite <- Hns; reflexivity|reflexivity].
    - replace (s1 <| total_guaranteed := tg |>) with (s1 <| nr_winning := nr_winning s1 |> <| total_guaranteed := tg |>) by (destruct s1; reflexivity).
      split; [apply PreG_gt_only; [exact Hp1|exact Ho|apply Hn; apply Hp1]|].
      eapply NInv_frame; [exact Hi1|rewrite st_set_st; rewrite <- Hns; reflexivity|reflexivity]. }
  destruct H2' as [Hp2 Hi2].
  apply bind_ok in E. destruct E as (w3 & H3 & E). cbn [has_nft] in H3. inversion E; subst w'; clear E.
  destruct (refund_nft_loop_only _ _ _ H3) as ((p & Hs3) & Hb3).
  split.
  - eapply PreG_neutral; [| | |exact Hp2].
    + rewrite Hs3. unfold neutral. cbn. repeat split.
    + rewrite Hs3. reflexivity.
    + apply Hb3. intros Hx. apply (ni_pay _ Hi2). symmetry. exact Hx.
  - destruct (FeeInv_refund la w2 w3 (ni_fee _ Hi2) Hsc H3) as [Hf Hc].
    constructor; [exact Hf|rewrite Hs3; cbn; exact (ni_win _ Hi2)|rewrite Hc; exact (ni_cn _ Hi2)|rewrite Hs3; cbn; exact (ni_pay _ Hi2)|rewrite Hs3; cbn; exact (ni_lp _ Hi2)].
Qed.
End HSetupNgt.

(** ** deployment and reachability *)
Lemma deploy_PreGN e lp tpt0 ptok price0 nrw conf ws claim x s :
  deploy Ngt e lp tpt0 ptok price0 nrw conf ws claim x = Ok s -> lp <> egld ->
  d_nft_tok x <> sft_token -> (d_nft_tok x, d_nft_nonce x) <> (ptok, 0) ->
  PreG (world0 s) [] /\ NInv (world0 s).
Proof.
  intros E Hlp Hsft Hpay. unfold deploy in E. cbn [has_nft is_v1 has_lock has_extra negb] in E. mon_inv.
  match goal with Hinit : init_base _ _ _ _ _ _ _ _ _ _ = Ok ?s0 |- _ =>
    destruct (init_base_Pre _ _ _ _ _ _ _ _ _ _ _ Hinit Hlp) as [Hp0 Hg0]; rename s0 into sb; rename Hinit into Hib end.
  match goal with Hn : try_set_nft_cost _ _ _ _ = Ok _ |- _ => unfold try_set_nft_cost in Hn; mon_inv end.
  assert (Hfields : pay_token sb = ptok /\ lp_token sb = lp /\ nft_payers sb = [] /\ nft_winners sb = [] /\ claimable_nft sb = 0).
  { unfold init_base, try_set_tpt, try_set_ticket_price, try_set_nr_winning in Hib. mon_inv. cbn. repeat split; reflexivity. }
  destruct Hfields as (Hpt & Hlpt & Hpy & Hwn & Hcn).
  split.
  - constructor; [|cbn; rewrite Hg0; constructor].
    eapply (Pre_neutral (world0 sb)); [|reflexivity|exact Hp0]. unfold neutral. cbn. repeat split.
  - assert (Hz : forall t n, init_bal sc_addr t n = 0).
    { intros t n. unfold init_bal. replace ((1 <=? sc_addr) && (sc_addr <=? 24)) with false by (vm_compute; reflexivity). reflexivity. }
    constructor; [constructor|..]; unfold fee_held; cbn; rewrite ?Hpy, ?Hwn, ?Hcn, ?Hpt, ?Hlpt; try reflexivity; try assumption.
    + constructor.
    + rewrite Hz. cbn. lia.
    + intros Hx. inversion Hx; subst.
      match goal with Hq : (if negb (d_nft_tok x =? egld) then _ else _) = Ok _ |- _ => rename Hq into Hne end.
      destruct (N.eqb_spec (d_nft_tok x) egld) as [Heq|Hneq]; [congruence|].
      cbn in Hne. apply require_ok' in Hne. apply negb_true_iff in Hne. apply N.eqb_neq in Hne. congruence.
Qed.

Section HReachNgt.
Variable H : list N -> list N.

Inductive setup_reach_ngt : world -> Prop :=
| sgn_deploy e lp tpt0 ptok price0 nrw conf ws claim x s :
    deploy Ngt e lp tpt0 ptok price0 nrw conf ws claim x = Ok s -> lp <> egld ->
    d_nft_tok x <> sft_token -> (d_nft_tok x, d_nft_nonce x) <> (ptok, 0) -> setup_reach_ngt (world0 s)
| sgn_common w e b sd c w' r :
    setup_reach_ngt w -> common_call c -> pay_wf (pay e) -> caller e <> sc_addr ->
    exec H Ngt e b sd w c = Ok (w', r) -> setup_reach_ngt w'
| sgn_add_v1 w e b sd lx w' r :
    setup_reach_ngt w -> Forall (fun x => 0 < snd x) (v1_sizes lx) -> ~ In sc_addr (map fst (v1_sizes lx)) ->
    exec H Ngt e b sd w (CAddTicketsV1 lx) = Ok (w', r) -> setup_reach_ngt w'
| sgn_blacklist w e b sd la w' r :
    setup_reach_ngt w -> ~ In sc_addr la ->
    exec H Ngt e b sd w (CBlacklist la) = Ok (w', r) -> setup_reach_ngt w'
| sgn_confirm_nft w e b sd w' r :
    setup_reach_ngt w -> pay_wf (pay e) -> caller e <> sc_addr ->
    exec H Ngt e b sd w CConfirmNft = Ok (w', r) -> setup_reach_ngt w'
| sgn_sft w e b sd w' r :
    setup_reach_ngt w -> exec H Ngt e b sd w CSftSetup = Ok (w', r) -> setup_reach_ngt w'.

Theorem setup_reach_ngt_inv w : setup_reach_ngt w -> exists l, PreG w l /\ NInv w.
Proof.
  induction 1 as [e lp tpt0 ptok price0 nrw conf ws claim x s Hd Hlp Hsft Hpay
                 | w e b sd c w' r _ IH Hc Hwf Hcs E
                 | w e b sd lx w' r _ IH Hpos Hsc E
                 | w e b sd la w' r _ IH Hsc E
                 | w e b sd w' r _ IH Hwf Hcs E
                 | w e b sd w' r _ IH E].
  - exists []. eapply deploy_PreGN; eauto.
  - destruct IH as (l & Hp & Hi). exists l. split; [eapply PreG_exec_common; eauto|eapply NInv_exec_common; eauto].
  - destruct IH as (l & Hp & Hi). exists (l ++ v1_sizes lx).
    set (w0 := w <| evs := [] |> <| rlog := [] |> <| locks := [] |> <| seeds := sd |>).
    assert (Hp0 : PreG w0 l) by (eapply PreG_ext; [| |exact Hp]; reflexivity).
    assert (Hi0 : NInv w0) by (eapply NInv_ext; [| |exact Hi]; reflexivity).
    unfold exec in E. cbn [payable] in E. fold w0 in E.
    apply bind_ok in E. destruct E as (u & Hnp & E). apply no_payment_nil in Hnp. rewrite Hnp in E.
    cbn [credit_payment bind] in E. cbn [dispatch is_v1] in E. unfold ret0 in E. mon_inv.
    split; [eapply PreG_add_tickets_v1; eauto|eapply NInv_add_tickets_v1; eauto].
  - destruct IH as (l & Hp & Hi). exists l.
    set (w0 := w <| evs := [] |> <| rlog := [] |> <| locks := [] |> <| seeds := sd |>).
    assert (Hp0 : PreG w0 l) by (eapply PreG_ext; [| |exact Hp]; reflexivity).
    assert (Hi0 : NInv w0) by (eapply NInv_ext; [| |exact Hi]; reflexivity).
    unfold exec in E. cbn [payable] in E. fold w0 in E.
    apply bind_ok in E. destruct E as (u & Hnp & E). apply no_payment_nil in Hnp. rewrite Hnp in E.
    cbn [credit_payment bind] in E. cbn [dispatch] in E. unfold ret0 in E. mon_inv.
    eapply PreGN_blacklist; eauto.
  - destruct IH as (l & [Hp Hg] & Hi). exists l.
    destruct (PreN_confirm_nft H Ngt e b sd w l w' r Hp Hi Hwf Hcs E) as (A & B & C).
    split; [constructor; [exact A|rewrite C; exact Hg]|exact B].
  - destruct IH as (l & [Hp Hg] & Hi). exists l.
    destruct (PreN_sft_setup H Ngt e b sd w l w' r Hp Hi E) as (A & B & C).
    split; [constructor; [exact A|rewrite C; exact Hg]|exact B].
Qed.

Theorem deployed_pipeline_ngt w0 lf wf ef bf w1 ls ws es bs w2 sd rest ld wd ed bd w3 :
  setup_reach_ngt w0 ->
  after_interrupted filter_tickets lf w0 = Some wf -> filter_tickets ef bf wf = Ok (w1, 0) ->
  seeds w1 = sd :: rest ->
  after_interrupted (select_winners H) ls w1 = Some ws -> select_winners H es bs ws = Ok (w2, 0) ->
  after_interrupted (secondary_selection_step H) ld w2 = Some wd ->
  secondary_selection_step H ed bd wd = Ok (w3, 0) ->
  exists l : list (N * N),
    ClaimInv w3 (map fst l) /\
    dist_result false (st w2) (st w3) /\
    (forall u, In u (gt_users (st w2)) -> owed false (st w2) u <= own_winning (st w2) (st w3) u) /\
    (forall t, status (st w2) t = true -> status (st w3) t = true).
Proof.
  intros Hr Haf Ef Hs Has Es Had Ed.
  destruct (setup_reach_ngt_inv w0 Hr) as (l & [[Hsel _ _] Hg] & Hi). exists l.
  eapply (pipeline_ngt H l w0 lf wf ef bf w1 ls ws es bs w2 sd rest ld wd ed bd w3); eauto.
  unfold nft_disjoint. rewrite (ni_win _ Hi), app_nil_r. exact (fi_nodup _ (ni_fee _ Hi)).
Qed.
End HReachNgt.

(** ** non-vacuity: a concrete history of the combined contract (3 winners; holder 2 with a staking and
    a migration guarantee, holder 3 with a staking guarantee who is blacklisted after paying the fee) *)
Definition ngt_0 : world :=
  match deploy Ngt (mkenv 1 0 0 []) 1 100 0 1000 3 10 20 30 xn with Ok s => world0 s | Err _ => world0 state0 end.
Definition ngt_history : list (env * nat * list (list N) * call) :=
    [ (mkenv 1 1 0 [], 100%nat, [], CAddTicketsV1 [(2, 2, 1, true); (3, 1, 1, false); (4, 0, 2, false)]);
      (mkenv 1 2 0 [(1, 0, 300)], 100%nat, [], CDeposit);
      (mkenv 1 3 0 [], 100%nat, [], CSftSetup);
      (mkenv 2 10 0 [(0, 0, 3000)], 100%nat, [], CConfirm 3);
      (mkenv 3 11 0 [(0, 0, 1000)], 100%nat, [], CConfirm 1);
      (mkenv 2 12 0 [(2, 0, 7)], 100%nat, [], CConfirmNft);
      (mkenv 3 12 0 [(2, 0, 7)], 100%nat, [], CConfirmNft);
      (mkenv 1 13 0 [], 100%nat, [], CBlacklist [3]) ].
Definition ngt_confirmed : world := run_sha Ngt ngt_0 ngt_history.

Lemma step_ngt w e b sd c :
  setup_reach_ngt sha256 w -> common_call c -> pay_wf (pay e) -> caller e <> sc_addr ->
  (exists w' r, exec sha256 Ngt e b sd w c = Ok (w', r)) ->
  setup_reach_ngt sha256 (step_sha Ngt w (e, b, sd, c)).
Proof. intros Hr Hc Hwf Hcs (w' & r & E). unfold step_sha, exec_sha. rewrite E. eapply sgn_common; eauto. Qed.
Lemma step_ngt_fee w e b sd :
  setup_reach_ngt sha256 w -> pay_wf (pay e) -> caller e <> sc_addr ->
  (exists w' r, exec sha256 Ngt e b sd w CConfirmNft = Ok (w', r)) ->
  setup_reach_ngt sha256 (step_sha Ngt w (e, b, sd, CConfirmNft)).
Proof. intros Hr Hwf Hcs (w' & r & E). unfold step_sha, exec_sha. rewrite E. eapply sgn_confirm_nft; eauto. Qed.
Lemma step_ngt_sft w e b sd :
  setup_reach_ngt sha256 w ->
  (exists w' r, exec sha256 Ngt e b sd w CSftSetup = Ok (w', r)) ->
  setup_reach_ngt sha256 (step_sha Ngt w (e, b, sd, CSftSetup)).
Proof. intros Hr (w' & r & E). unfold step_sha, exec_sha. rewrite E. eapply sgn_sft; eauto. Qed.
Lemma step_ngt_bl w e b sd la :
  setup_reach_ngt sha256 w -> ~ In sc_addr la ->
  (exists w' r, exec sha256 Ngt e b sd w (CBlacklist la) = Ok (w', r)) ->
  setup_reach_ngt sha256 (step_sha Ngt w (e, b, sd, CBlacklist la)).
Proof. intros Hr Hsc (w' & r & E). unfold step_sha, exec_sha. rewrite E. eapply sgn_blacklist; eauto. Qed.
Lemma step_ngt_add w e b sd lx :
  setup_reach_ngt sha256 w -> Forall (fun x => 0 < snd x) (v1_sizes lx) -> ~ In sc_addr (map fst (v1_sizes lx)) ->
  (exists w' r, exec sha256 Ngt e b sd w (CAddTicketsV1 lx) = Ok (w', r)) ->
  setup_reach_ngt sha256 (step_sha Ngt w (e, b, sd, CAddTicketsV1 lx)).
Proof. intros Hr Hp Hsc (w' & r & E). unfold step_sha, exec_sha. rewrite E. eapply sgn_add_v1; eauto. Qed.

Example ngt_confirmed_reachable :
  setup_reach_ngt sha256 ngt_confirmed /\
  (nft_payers (st ngt_confirmed), confirmed (st ngt_confirmed) 2, confirmed (st ngt_confirmed) 3,
   bal ngt_confirmed sc_addr 2 0, bal ngt_confirmed sc_addr 0 0, gt_users (st ngt_confirmed),
   nr_winning (st ngt_confirmed), total_guaranteed (st ngt_confirmed)) = ([2], 3, 0, 7, 3000, [2], 1, 2).
Proof.
  split; [|vm_compute; reflexivity].
  unfold ngt_confirmed, ngt_history, run_sha. cbn [fold_left].
  assert (H0 : setup_reach_ngt sha256 ngt_0).
  { unfold ngt_0. destruct (deploy Ngt (mkenv 1 0 0 []) 1 100 0 1000 3 10 20 30 xn) as [s|k] eqn:Ed; [|vm_compute in Ed; discriminate].
    eapply sgn_deploy; [exact Ed|vm_compute; discriminate..]. }
  apply step_ngt_bl; [|vm_compute; intros [Hx|Hx]; [discriminate Hx|exact Hx]|eexists _, _; vm_compute; reflexivity].
  apply step_ngt_fee; [|right; right; split; [discriminate|repeat constructor; cbn; discriminate]|vm_compute; discriminate|eexists _, _; vm_compute; reflexivity].
  apply step_ngt_fee; [|right; right; split; [discriminate|repeat constructor; cbn; discriminate]|vm_compute; discriminate|eexists _, _; vm_compute; reflexivity].
  apply step_ngt; [|apply cc_confirm|right; left; eexists; reflexivity|vm_compute; discriminate|eexists _, _; vm_compute; reflexivity].
  apply step_ngt; [|apply cc_confirm|right; left; eexists; reflexivity|vm_compute; discriminate|eexists _, _; vm_compute; reflexivity].
  apply step_ngt_sft; [|eexists _, _; vm_compute; reflexivity].
  apply step_ngt; [|apply cc_deposit|right; right; split; [discriminate|repeat constructor; cbn; discriminate]|vm_compute; discriminate|eexists _, _; vm_compute; reflexivity].
  apply step_ngt_add; [|vm_compute; repeat constructor|vm_compute; intros [Hx|[Hx|[Hx|Hx]]]; try discriminate Hx; exact Hx|eexists _, _; vm_compute; reflexivity].
  exact H0.
Qed.
