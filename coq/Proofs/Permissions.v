(** * Summary of the gates over [dispatch], for all eight contracts (C06, C15, C19). *)
From Coq Require Import String.
From LP Require Import Proofs.Tactics Proofs.Gates Gen.Expected.
Open Scope N_scope.

Definition owner_only_call (c : call) : bool :=
  match c with
  | CAddTickets _ | CAddTicketsV1 _ | CAddTicketsV2 _ | CDeposit | CSetPrice _ _ | CSetTpt _
  | CSetConf _ | CSetWs _ | CSetClaim _ | CSetSupport _ | CPause | CUnpause | CClaimPayment
  | CSetNftCost _ _ _ | CSetSchedule1 _ _ _ _ _ | CSetSchedule2 _ => true
  | _ => false
  end.
Definition owner_or_support_call (c : call) : bool :=
  match c with CBlacklist _ | CRefund _ | CUnblacklist _ => true | _ => false end.
Definition owner_or_user_call (v : variant) (c : call) : bool :=
  match c, v with CSelect, _ => true | CExtra, Gt2 => true | _, _ => false end.

(** stage an accepted call needs (None: no stage condition) *)
Definition stage_needed (v : variant) (c : call) : option (list stage) :=
  match c with
  | CAddTickets _ | CAddTicketsV1 _ | CAddTicketsV2 _ | CSetPrice _ _ | CSetTpt _ | CSetNftCost _ _ _
  | CSetSchedule2 _ => Some [AddTickets]
  | CConfirm _ | CConfirmNft => Some [Confirm]
  | CBlacklist _ | CRefund _ | CUnblacklist _ => Some [AddTickets; Confirm]
  | CFilter | CSelect | CExtra => Some [WinnerSelection]
  | CClaimPayment => Some [Claim]
  | CClaim => match v with Gt1 | Gt2 => None | _ => Some [Claim] end
  | _ => None
  end.

(** calls that are rejected while the contract is paused *)
Definition pause_gated (v : variant) (c : call) : bool :=
  match c, v with
  | (CConfirm _ | CFilter | CSelect), _ => true
  | (CExtra | CClaim), Gt2 => true
  | _, _ => false
  end.

Section Dispatch.
Variable H : list N -> list N.

Ltac dispatch_cases E :=
  unfold dispatch, ret0, ret1, blacklist_endpoint, unblacklist_endpoint in E;
  repeat match type of E with
  | (match ?x with _ => _ end) = Ok _ => destruct x; try discriminate E
  | (if ?x then _ else _) = Ok _ => destruct x eqn:?; try discriminate E
  end.

Theorem dispatch_owner_only v e b w c w' r :
  dispatch H v e b w c = Ok (w', r) -> owner_only_call c = true -> is_owner e.
Proof.
  intros E Hc. destruct c; cbn in Hc; try discriminate; dispatch_cases E; mon_inv;
    try match goal with H : only_owner _ = Ok _ |- _ => exact (only_owner_ok _ _ H) end;
    try match goal with Hx : set_ticket_price _ _ _ _ = Ok _ |- _ => apply gate_set_ticket_price in Hx; tauto end;
    try match goal with Hx : set_launchpad_tokens_per_winning_ticket _ _ _ = Ok _ |- _ => apply gate_set_tpt in Hx; tauto end;
    try match goal with Hx : set_confirmation_period_start_round _ _ _ = Ok _ |- _ => apply gate_set_conf in Hx; tauto end;
    try match goal with Hx : set_winner_selection_start_round _ _ _ = Ok _ |- _ => apply gate_set_ws in Hx; tauto end;
    try match goal with Hx : set_claim_start_round _ _ _ = Ok _ |- _ => apply gate_set_claim in Hx; tauto end;
    try match goal with Hx : set_support_address _ _ _ = Ok _ |- _ => apply gate_set_support in Hx; tauto end;
    try match goal with Hx : pause_endpoint _ _ = Ok _ |- _ => apply gate_pause in Hx; tauto end;
    try match goal with Hx : unpause_endpoint _ _ = Ok _ |- _ => apply gate_unpause in Hx; tauto end;
    try match goal with Hx : set_nft_cost _ _ _ _ _ = Ok _ |- _ => apply gate_set_nft_cost in Hx; tauto end;
    try match goal with Hx : set_unlock_schedule_v1 _ _ _ _ _ _ _ = Ok _ |- _ => apply gate_set_schedule_v1 in Hx; tauto end;
    try match goal with Hx : set_unlock_schedule_v2 _ _ _ = Ok _ |- _ => apply gate_set_schedule_v2 in Hx; tauto end.
Qed.

Theorem dispatch_owner_or_support v e b w c w' r :
  dispatch H v e b w c = Ok (w', r) -> owner_or_support_call c = true -> owner_or_support e (st w).
Proof.
  intros E Hc. destruct c; cbn in Hc; try discriminate; dispatch_cases E; mon_inv;
    try match goal with Hx : add_users_to_blacklist _ _ _ = Ok _ |- _ => apply gate_blacklist in Hx; tauto end;
    try match goal with Hx : remove_users_from_blacklist _ _ _ = Ok _ |- _ => apply gate_unblacklist in Hx; tauto end.
Qed.

Theorem dispatch_owner_or_user v e b w c w' r :
  dispatch H v e b w c = Ok (w', r) -> owner_or_user_call v c = true -> owner_or_user e.
Proof.
  intros E Hc. destruct c; cbn in Hc; try discriminate; destruct v; try discriminate;
    unfold dispatch, ret1 in E; mon_inv;
    repeat match goal with a : (world * N)%type |- _ => destruct a end;
    try match goal with Hx : select_winners _ _ _ _ = Ok _ |- _ => apply gate_select in Hx; tauto end;
    try match goal with Hx : distribute_guaranteed_tickets _ true _ _ _ = Ok _ |- _ =>
          apply gate_distribute in Hx; destruct Hx as (_ & _ & _ & Hx); destruct (Hx eq_refl); assumption end.
Qed.

Theorem dispatch_stage v e b w c w' r l :
  dispatch H v e b w c = Ok (w', r) -> stage_needed v c = Some l -> In (get_launch_stage e (st w)) l.
Proof.
  intros E Hs.
  destruct c; cbn in Hs; try discriminate;
    try (destruct v; try discriminate); inversion Hs; subst l; clear Hs; dispatch_cases E; mon_inv;
    repeat match goal with a : (world * N)%type |- _ => destruct a end;
    repeat match goal with
    | Hx : add_tickets _ _ _ = Ok _ |- _ => apply gate_add_tickets in Hx
    | Hx : add_tickets_v1 _ _ _ = Ok _ |- _ => apply gate_add_tickets_v1 in Hx
    | Hx : add_tickets_v2 _ _ _ = Ok _ |- _ => apply gate_add_tickets_v2 in Hx
    | Hx : set_ticket_price _ _ _ _ = Ok _ |- _ => apply gate_set_ticket_price in Hx
    | Hx : set_launchpad_tokens_per_winning_ticket _ _ _ = Ok _ |- _ => apply gate_set_tpt in Hx
    | Hx : set_nft_cost _ _ _ _ _ = Ok _ |- _ => apply gate_set_nft_cost in Hx
    | Hx : set_unlock_schedule_v2 _ _ _ = Ok _ |- _ => apply gate_set_schedule_v2 in Hx
    | Hx : confirm_tickets _ _ _ = Ok _ |- _ => apply gate_confirm in Hx
    | Hx : confirm_nft _ _ = Ok _ |- _ => apply gate_confirm_nft in Hx
    | Hx : add_users_to_blacklist _ _ _ = Ok _ |- _ => apply gate_blacklist in Hx
    | Hx : remove_users_from_blacklist _ _ _ = Ok _ |- _ => apply gate_unblacklist in Hx
    | Hx : filter_tickets _ _ _ = Ok _ |- _ => apply gate_filter in Hx
    | Hx : select_winners _ _ _ _ = Ok _ |- _ => apply gate_select in Hx
    | Hx : distribute_guaranteed_tickets _ _ _ _ _ = Ok _ |- _ => apply gate_distribute in Hx
    | Hx : select_nft_winners_endpoint _ _ _ _ = Ok _ |- _ => apply gate_select_nft in Hx
    | Hx : secondary_selection_step _ _ _ _ = Ok _ |- _ => apply gate_secondary in Hx
    | Hx : claim_launchpad_tokens _ _ _ = Ok _ |- _ => apply gate_claim in Hx
    | Hx : claim_ticket_payment _ _ = Ok _ |- _ => apply gate_claim_payment in Hx
    | Hx : claim_ticket_payment_gt _ _ = Ok _ |- _ => apply gate_claim_payment_gt in Hx
    end;
    repeat match goal with Hx : _ /\ _ |- _ => destruct Hx end;
    cbn [In];
    try match goal with Hx : get_launch_stage _ _ = _ |- _ => rewrite Hx; tauto end;
    try match goal with Hx : _ \/ _ |- _ => destruct Hx as [Hx|Hx]; rewrite Hx; tauto end.
Qed.

Theorem dispatch_paused v e b w c :
  paused (st w) = true -> pause_gated v c = true -> exists k, dispatch H v e b w c = Err k.
Proof.
  intros Hp Hc.
  destruct (dispatch H v e b w c) as [[w' r]|k] eqn:E; [|eauto]. exfalso.
  destruct c; cbn in Hc; try discriminate; try (destruct v; try discriminate);
    unfold dispatch, ret0, ret1 in E; mon_inv;
    repeat match goal with a : (world * N)%type |- _ => destruct a end;
    repeat match goal with
    | Hx : confirm_tickets _ _ _ = Ok _ |- _ => apply gate_confirm in Hx
    | Hx : filter_tickets _ _ _ = Ok _ |- _ => apply gate_filter in Hx
    | Hx : select_winners _ _ _ _ = Ok _ |- _ => apply gate_select in Hx
    | Hx : distribute_guaranteed_tickets _ true _ _ _ = Ok _ |- _ =>
        apply gate_distribute in Hx; destruct Hx as (_ & _ & _ & Hx); destruct (Hx eq_refl)
    | Hx : claim_vested true _ _ = Ok _ |- _ => apply gate_claim_vested in Hx; destruct Hx as [Hx _]; specialize (Hx eq_refl)
    end;
    repeat match goal with Hx : _ /\ _ |- _ => destruct Hx end; congruence.
Qed.

End Dispatch.

(** ** the tables regenerated from the sources agree with these classifications *)
Definition ep_name (v : variant) (c : call) : string :=
  match c with
  | CAddTickets _ | CAddTicketsV1 _ | CAddTicketsV2 _ => "addTickets"
  | CDeposit => "depositLaunchpadTokens"
  | CSetPrice _ _ => "setTicketPrice"
  | CSetTpt _ => "setLaunchpadTokensPerWinningTicket"
  | CSetConf _ => "setConfirmationPeriodStartRound"
  | CSetWs _ => "setWinnerSelectionStartRound"
  | CSetClaim _ => "setClaimStartRound"
  | CSetSupport _ => "setSupportAddress"
  | CPause => "pause" | CUnpause => "unpause"
  | CBlacklist _ => "addUsersToBlacklist" | CRefund _ => "refundUserTickets"
  | CUnblacklist _ => "removeGuaranteedUsersFromBlacklist"
  | CConfirm _ => "confirmTickets"
  | CFilter => "filterTickets" | CSelect => "selectWinners"
  | CExtra => match v with Nft => "selectNftWinners" | Ngt => "secondarySelectionStep" | _ => "distributeGuaranteedTickets" end
  | CClaim => "claimLaunchpadTokens" | CClaimPayment => "claimTicketPayment"
  | CConfirmNft => "confirmNft" | CSetNftCost _ _ _ => "setNftCost"
  | CSetSchedule1 _ _ _ _ _ | CSetSchedule2 _ => "setUnlockSchedule"
  | CSftSetup => "sftSetup"
  end.

Definition exp_table (v : variant) : list (string * N * bool * bool) :=
  match v with
  | Base => exp_endpoints_base | Lock => exp_endpoints_lock | Nft => exp_endpoints_nft
  | Gt1 => exp_endpoints_gt1 | Mig => exp_endpoints_mig | Lgt => exp_endpoints_lgt
  | Ngt => exp_endpoints_ngt | Gt2 => exp_endpoints_gt2
  end.

Fixpoint lookup (name : string) (t : list (string * N * bool * bool)) : option (bool * bool) :=
  match t with
  | [] => None
  | (n, _, o, p) :: r => if String.eqb n name then Some (o, p) else lookup name r
  end.

(** one representative call per constructor *)
Definition all_calls : list call :=
  [CAddTickets []; CAddTicketsV1 []; CAddTicketsV2 []; CDeposit; CSetPrice 0 0; CSetTpt 0; CSetConf 0;
   CSetWs 0; CSetClaim 0; CSetSupport 0; CPause; CUnpause; CBlacklist []; CRefund []; CUnblacklist [];
   CConfirm 0; CFilter; CSelect; CExtra; CClaim; CClaimPayment; CConfirmNft; CSetNftCost 0 0 0;
   CSetSchedule1 0 0 0 0 0; CSetSchedule2 []].
Definition all_variants : list variant := [Base; Lock; Nft; Gt1; Mig; Lgt; Ngt; Gt2].

(** for every contract and every call kind whose endpoint exists in the contract, the
    [#[only_owner]] and [#[payable]] attributes of the source are exactly the model's
    classification *)
Definition table_agrees (v : variant) (c : call) : bool :=
  match lookup (ep_name v c) (exp_table v) with
  | Some (o, p) => Bool.eqb o (owner_only_call c) && Bool.eqb p (payable c)
  | None => true
  end.

Theorem tables_agree :
  forallb (fun v => forallb (table_agrees v) all_calls) all_variants = true.
Proof. vm_compute. reflexivity. Qed.

(** and every endpoint of the source that is not a view / init / upgrade / SFT set-up is one of
    the modelled calls *)
Definition modelled_names (v : variant) : list string := map (ep_name v) all_calls.
Definition unmodelled (v : variant) : list string :=
  map (fun x => fst (fst (fst x)))
      (filter (fun x => (snd (fst (fst x)) =? 1) &&
                        negb (existsb (String.eqb (fst (fst (fst x)))) (modelled_names v)))
              (exp_table v)).
Theorem unmodelled_endpoints :
  map unmodelled all_variants =
  [[]; []; ["createInitialSfts"; "issueMysterySft"; "setTransferRole"]; []; []; [];
   ["createInitialSfts"; "issueMysterySft"; "setTransferRole"]; []]%string.
Proof. vm_compute. reflexivity. Qed.
