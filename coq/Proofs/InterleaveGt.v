(** * The same for the third stage of the guaranteed-ticket contracts: distributeGuaranteedTickets
    commutes with changes of the support address and the claim start. *)
From LP Require Import Proofs.Tactics Proofs.Loop Proofs.Resume Proofs.Gates Proofs.Frames Proofs.Interleave.
Open Scope N_scope.

Definition mapT {A} (su cs : N) (p : bool) (r : res (world * A)) : res (world * A) :=
  match r with Ok (w, x) => Ok (Tw su cs p w, x) | Err k => Err k end.


Lemma topup_v2_T su cs p : forall ids s rem added,
  topup_v2 ids (T su cs p s) rem added =
  let '(s', r, a) := topup_v2 ids s rem added in (T su cs p s', r, a).
Proof.
  induction ids as [|t ids IH]; intros s rem added; cbn [topup_v2]; [reflexivity|].
  destruct (rem =? 0); [reflexivity|].
  change (status (T su cs p s) t) with (status s t). destruct (status s t); [apply IH|].
  change (T su cs p s <| status := upd (status (T su cs p s)) t true |>) with (T su cs p (s <| status := upd (status s) t true |>)).
  apply IH.
Qed.

Lemma gt_user_step_v2_T su cs p s o u :
  gt_user_step_v2 (T su cs p s) o u = let '(s', o') := gt_user_step_v2 s o u in (T su cs p s', o').
Proof.
  unfold gt_user_step_v2.
  change (uts (T su cs p s) u) with (uts s u). change (confirmed (T su cs p s) u) with (confirmed s u).
  change (range (T su cs p s) u) with (range s u).
  destruct (uts s u) as [us|]; [|reflexivity].
  destruct (calc_v2 (us_infos us) (confirmed s u)) as [g l].
  destruct (0 <? g); [|reflexivity].
  destruct (range s u) as [[f la]|]; [|reflexivity].
  unfold winning_tickets_in_range, count_winning. change (status (T su cs p s)) with (status s).
  destruct (_ <? g); [|reflexivity].
  rewrite topup_v2_T. destruct (topup_v2 _ s _ 0) as [[s' r] a]. reflexivity.
Qed.

Lemma gt_user_step_v1_T su cs p s o u :
  gt_user_step_v1 (T su cs p s) o u = let '(s', o') := gt_user_step_v1 s o u in (T su cs p s', o').
Proof.
  unfold gt_user_step_v1.
  change (uts (T su cs p s) u) with (uts s u). change (confirmed (T su cs p s) u) with (confirmed s u).
  change (range (T su cs p s) u) with (range s u). change (min_conf (T su cs p s)) with (min_conf s).
  destruct (uts s u) as [us|]; [|reflexivity].
  destruct (us_b us <=? confirmed s u); cbn [fst snd];
    (match goal with |- context [if ?c then (_, _) else (_, _)] => destruct c end); cbn [fst snd];
    (match goal with |- context [0 <? ?n] => destruct (0 <? n) end); try reflexivity;
    (destruct (range s u) as [[f la]|]; [|reflexivity]);
    unfold winning_tickets_in_range, count_winning; change (status (T su cs p s)) with (status s);
    (match goal with |- context [if ?c then _ else _] => destruct c end); try reflexivity;
    rewrite topup_v2_T;
    (match goal with |- context [topup_v2 ?a ?b ?c ?d] => destruct (topup_v2 a b c d) as [[s' r] a'] end); reflexivity.
Qed.

Lemma select_gt_body_T su cs p v2 s o n :
  select_gt_body v2 (T su cs p s, o, n) =
  match select_gt_body v2 (s, o, n) with Ok (s', o', n', c) => Ok (T su cs p s', o', n', c) | Err k => Err k end.
Proof.
  unfold select_gt_body. destruct (n =? 0); [reflexivity|].
  change (gt_users (T su cs p s)) with (gt_users s). destruct (gt_users s) as [|u l]; [reflexivity|].
  change (T su cs p s <| gt_users := swap_remove u (u :: l) |>) with (T su cs p (s <| gt_users := swap_remove u (u :: l) |>)).
  destruct v2.
  - rewrite gt_user_step_v2_T. destruct (gt_user_step_v2 _ o u) as [s2 o2]. reflexivity.
  - rewrite gt_user_step_v1_T. destruct (gt_user_step_v1 _ o u) as [s2 o2]. reflexivity.
Qed.

Lemma run_select_gt_T su cs p v2 b s o n :
  run_while b (select_gt_body v2) (T su cs p s, o, n) =
  match run_while b (select_gt_body v2) (s, o, n) with
  | Ok (s', o', n', d, b') => Ok (T su cs p s', o', n', d, b')
  | Err k => Err k
  end.
Proof.
  pose proof (run_while_commute (fun x : state * gtop * N => (T su cs p (fst (fst x)), snd (fst x), snd x))
                (select_gt_body v2)) as Hc.
  specialize (Hc ltac:(intros [[sx ox] nx]; cbn [fst snd]; rewrite select_gt_body_T;
                        destruct (select_gt_body v2 (sx, ox, nx)) as [[[[s' o'] n'] c]|]; reflexivity) b (s, o, n)).
  cbn [fst snd] in Hc. rewrite Hc.
  destruct (run_while b (select_gt_body v2) (s, o, n)) as [[[[[s1 o1] n1] d] bb]|]; reflexivity.
Qed.

Section HInterGt.
Variable H : list N -> list N.

Lemma next_usize_in_range_T su cs p w r a b :
  next_usize_in_range H (Tw su cs p w) r a b =
  let '(x, r', w1) := next_usize_in_range H w r a b in (x, r', Tw su cs p w1).
Proof. unfold next_usize_in_range, next_usize, Uw, U. destruct w as [s ? ? ? ? ?]. reflexivity. Qed.

Lemma try_select_T su cs p v2 w r cur last :
  try_select_winning_ticket H v2 (Tw su cs p w) r cur last =
  let '(tr, r', w') := try_select_winning_ticket H v2 w r cur last in (tr, r', Tw su cs p w').
Proof.
  unfold try_select_winning_ticket. cbv zeta.
  change (st (Tw su cs p w)) with (T su cs p (st w)).
  change (get_ticket_id_from_pos (T su cs p (st w)) cur) with (get_ticket_id_from_pos (st w) cur).
  change (status (T su cs p (st w))) with (status (st w)).
  destruct (status (st w) (get_ticket_id_from_pos (st w) cur)); [reflexivity|].
  rewrite next_usize_in_range_T. destruct (next_usize_in_range H w r cur (last + 1)) as [[x r'] w1].
  change (st (Tw su cs p w1)) with (T su cs p (st w1)).
  change (get_ticket_id_from_pos (T su cs p (st w1)) x) with (get_ticket_id_from_pos (st w1) x).
  change (status (T su cs p (st w1))) with (status (st w1)).
  destruct (status (st w1) (get_ticket_id_from_pos (st w1) x)); [destruct v2; reflexivity|reflexivity].
Qed.

Lemma leftover_body_T su cs p v2 nrw last w o :
  leftover_body H v2 nrw last (Tw su cs p w, o) =
  match leftover_body H v2 nrw last (w, o) with Ok (w', o', c) => Ok (Tw su cs p w', o', c) | Err k => Err k end.
Proof.
  unfold leftover_body.
  destruct (g_leftover _ =? 0); [reflexivity|].
  rewrite try_select_T. destruct (try_select_winning_ticket H v2 w _ _ last) as [[tr r'] w']. destruct tr; reflexivity.
Qed.

Lemma run_leftover_T su cs p v2 nrw last b w o :
  run_while b (leftover_body H v2 nrw last) (Tw su cs p w, o) =
  match run_while b (leftover_body H v2 nrw last) (w, o) with
  | Ok (w', o', d, b') => Ok (Tw su cs p w', o', d, b')
  | Err k => Err k
  end.
Proof.
  pose proof (run_while_commute (fun x : world * gtop => (Tw su cs p (fst x), snd x)) (leftover_body H v2 nrw last)) as Hc.
  specialize (Hc ltac:(intros [wx ox]; cbn [fst snd]; rewrite leftover_body_T;
                        destruct (leftover_body H v2 nrw last (wx, ox)) as [[[w' o'] c]|]; reflexivity) b (w, o)).
  cbn [fst snd] in Hc. rewrite Hc.
  destruct (run_while b (leftover_body H v2 nrw last) (w, o)) as [[[[w1 o1] d] bb]|]; reflexivity.
Qed.

Lemma gt_distribution_T su cs p v2 b w o :
  gt_distribution H v2 b (Tw su cs p w) o =
  match gt_distribution H v2 b w o with Ok (w', o', d, b') => Ok (Tw su cs p w', o', d, b') | Err k => Err k end.
Proof.
  unfold gt_distribution. unfold Tw at 1 2. rewrite st_set_st. change (gt_users (T su cs p (st w))) with (gt_users (st w)).
  rewrite run_select_gt_T.
  destruct (run_while b (select_gt_body v2) _) as [[[[[s1 o1] n1] d1] b1]|]; [|reflexivity]. cbn [bind].
  destruct d1; cbn [negb].
  - change (nr_winning (T su cs p s1)) with (nr_winning s1). change (last_ticket_id (T su cs p s1)) with (last_ticket_id s1).
    change (set_st (Tw su cs p w) (T su cs p s1)) with (Tw su cs p (set_st w s1)).
    rewrite run_leftover_T. destruct (run_while b1 _ _) as [[[[w2 o2] d2] b2]|]; reflexivity.
  - reflexivity.
Qed.

Lemma stage_T e su cs p s :
  fl_selected s && fl_additional s = false -> get_launch_stage e (T su cs p s) = get_launch_stage e s.
Proof. intros Hf. unfold get_launch_stage, T, U. cbn. rewrite Hf. cbn. reflexivity. Qed.

(** gt2 checks the pause flag, the v1 family does not *)
Theorem distribute_T su cs p v2 e b w :
  open_flags w -> (v2 = true -> p = paused (st w)) ->
  distribute_guaranteed_tickets H v2 e b (Tw su cs p w) = mapT su cs p (distribute_guaranteed_tickets H v2 e b w).
Proof.
  intros Hf Hp. unfold distribute_guaranteed_tickets. unfold Tw at 1 2 3 4 5. rewrite !st_set_st.
  change (paused (T su cs p (st w))) with p.
  assert (Hg : (if v2 then require (negb p) else Ok tt) = (if v2 then require (negb (paused (st w))) else Ok tt))
    by (destruct v2; [rewrite (Hp eq_refl)|]; reflexivity).
  rewrite Hg.
  change (fl_selected (T su cs p (st w))) with (fl_selected (st w)).
  change (fl_additional (T su cs p (st w))) with (fl_additional (st w)).
  unfold require_stage. rewrite (stage_T e su cs p (st w) Hf).
  destruct (if v2 then require (negb (paused (st w))) else Ok tt) as [[]|]; [|reflexivity]. cbn [bind].
  destruct (require (stage_eqb (get_launch_stage e (st w)) WinnerSelection)) as [[]|]; [|reflexivity]. cbn [bind].
  destruct (if v2 then check_caller_owner_or_user e else Ok tt) as [[]|]; [|reflexivity]. cbn [bind].
  destruct (require (fl_selected (st w))) as [[]|]; [|reflexivity]. cbn [bind].
  destruct (require (negb (fl_additional (st w)))) as [[]|]; [|reflexivity]. cbn [bind].
  unfold load_gt_op. rewrite st_set_st. change (op (T su cs p (st w))) with (op (st w)).
  destruct (op (st w)) as [| | |d]; try reflexivity.
  - unfold rng_default. change (seeds (set_st w (T su cs p (st w)))) with (seeds w).
    destruct (seeds w) as [|sd rest]; cbn [bind].
    all: lazymatch goal with
         | |- bind (gt_distribution _ _ _ ?x _) _ = mapT _ _ _ (bind (gt_distribution _ _ _ ?y _) _) =>
             change x with (Tw su cs p y)
         end.
    all: rewrite gt_distribution_T.
    all: match goal with |- context [gt_distribution ?hh ?vv ?bb ?x ?o] => destruct (gt_distribution hh vv bb x o) as [[[[wa oa] da] ba]|] end;
         [|reflexivity]; cbn [bind]; destruct da; [destruct v2|]; reflexivity.
  - destruct d; try reflexivity. cbn [bind].
    lazymatch goal with
    | |- bind (gt_distribution _ _ _ ?x _) _ = mapT _ _ _ (bind (gt_distribution _ _ _ ?y _) _) =>
        change x with (Tw su cs p y)
    end.
    rewrite gt_distribution_T.
    match goal with |- context [gt_distribution ?hh ?vv ?bb ?x ?o] => destruct (gt_distribution hh vv bb x o) as [[[[wa oa] da] ba]|] end;
      [|reflexivity]; cbn [bind]; destruct da; [destruct v2|]; reflexivity.
Qed.
End HInterGt.

(** ** noisy histories for steps that commute with the full transform [Tw] (the pause flag too, unless
    the step is gated by it) *)
Lemma Tw_id w : w = Tw (support (st w)) (claim_start (st w)) (paused (st w)) w.
Proof. unfold Tw, T, U. destruct w as [s ? ? ? ? ?]. destruct s. reflexivity. Qed.

Section NoisyT.
Variable ep : env -> nat -> world -> res (world * N).
Variable gated : bool.
Hypothesis ep_T : forall su cs p e b w, open_flags w -> (gated = true -> p = paused (st w)) ->
                  ep e b (Tw su cs p w) = mapT su cs p (ep e b w).
Hypothesis ep_gate : gated = true -> forall e b w w1 x, ep e b w = Ok (w1, x) -> paused (st w) = false.
Hypothesis ep_keeps : forall e b w w1, ep e b w = Ok (w1, 1) -> paused (st w1) = paused (st w) /\ (open_flags w -> open_flags w1).

Inductive noisyT : world -> world -> Prop :=
| nt_nil w : noisyT w w
| nt_call e b w w1 wk : ep e b w = Ok (w1, 1) -> noisyT w1 wk -> noisyT w wk
| nt_noise su cs p w wk : noisyT (Tw su cs p w) wk -> noisyT w wk.

Theorem noisyT_pure : forall wa wk, noisyT wa wk ->
  forall wp su cs p, wa = Tw su cs p wp -> (gated = true -> paused (st wp) = false) -> open_flags wp ->
  exists l wq su' cs' p', after_interrupted ep l wp = Some wq /\ wk = Tw su' cs' p' wq /\
                          (gated = true -> paused (st wq) = false) /\ open_flags wq.
Proof.
  induction 1 as [w | e b w w1 wk E _ IH | su0 cs0 p0 w wk _ IH]; intros wp su cs p Hw Hp Hf.
  - exists [], wp, su, cs, p. cbn. auto.
  - subst w.
    assert (Hpp : gated = true -> p = paused (st wp)).
    { intros Hg. rewrite (Hp Hg). pose proof (ep_gate Hg _ _ _ _ _ E) as Hx. unfold Tw, T in Hx. rewrite st_set_st in Hx. exact Hx. }
    rewrite (ep_T su cs p e b wp Hf Hpp) in E.
    destruct (ep e b wp) as [[wp1 x]|] eqn:Ep; [|discriminate]. cbn in E. inversion E; subst w1 x; clear E.
    destruct (ep_keeps _ _ _ _ Ep) as [Hp1 Hf1].
    destruct (IH wp1 su cs p eq_refl ltac:(intros Hg; rewrite Hp1; auto) (Hf1 Hf)) as (l & wq & su' & cs' & p' & Ha & Hk & Hq).
    exists ((e, b) :: l), wq, su', cs', p'. cbn. rewrite Ep. auto.
  - subst w. rewrite Tw_Tw in IH. exact (IH wp su0 cs0 p0 eq_refl Hp Hf).
Qed.

Corollary noisyT_complete wa wp su0 cs0 p0 wk e b wf x :
  noisyT wa wk -> wa = Tw su0 cs0 p0 wp -> (gated = true -> paused (st wp) = false) -> open_flags wp ->
  ep e b wk = Ok (wf, x) ->
  exists l wq su cs p wpure, after_interrupted ep l wp = Some wq /\ ep e b wq = Ok (wpure, x) /\ wf = Tw su cs p wpure.
Proof.
  intros Hn Hwa Hp Hf E.
  destruct (noisyT_pure wa wk Hn wp _ _ _ Hwa Hp Hf) as (l & wq & su & cs & p & Ha & Hk & Hq & Hfq).
  subst wk.
  assert (Hpp : gated = true -> p = paused (st wq)).
  { intros Hg. rewrite (Hq Hg). pose proof (ep_gate Hg _ _ _ _ _ E) as Hx. unfold Tw, T in Hx. rewrite st_set_st in Hx. exact Hx. }
  rewrite (ep_T su cs p e b wq Hfq Hpp) in E.
  destruct (ep e b wq) as [[wpure x']|] eqn:Ep; [|discriminate]. cbn in E. inversion E; subst.
  exists l, wq, su, cs, p, wpure. auto.
Qed.
End NoisyT.

Section HDistNoisy.
Variable H : list N -> list N.

Theorem distribute_noisy_complete v2 wa wp su0 cs0 p0 wk e b wf x :
  noisyT (distribute_guaranteed_tickets H v2) wa wk -> wa = Tw su0 cs0 p0 wp ->
  (v2 = true -> paused (st wp) = false) -> open_flags wp ->
  distribute_guaranteed_tickets H v2 e b wk = Ok (wf, x) ->
  exists l wq su cs p wpure, after_interrupted (distribute_guaranteed_tickets H v2) l wp = Some wq /\
                             distribute_guaranteed_tickets H v2 e b wq = Ok (wpure, x) /\ wf = Tw su cs p wpure.
Proof.
  apply (noisyT_complete (distribute_guaranteed_tickets H v2) v2).
  - intros su cs p e0 b0 w Hf Hp. apply distribute_T; assumption.
  - intros Hg e0 b0 w w1 x0 E. subst v2. unfold distribute_guaranteed_tickets in E.
    apply bind_ok in E. destruct E as (u1 & Hu & _). apply require_ok' in Hu. apply negb_true_iff in Hu. exact Hu.
  - intros e0 b0 w w1 E. destruct (distribute_tf H v2 _ _ _ _ _ E) as (Ht & _ & Hs & _ & Ha).
    split; [apply terms_paused; exact Ht|]. unfold open_flags. rewrite Hs, (Ha ltac:(discriminate)). auto.
Qed.
End HDistNoisy.
