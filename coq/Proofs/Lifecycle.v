(** * The selection pipeline of the contracts without an additional step (launchpad,
    launchpad-locked-tokens), end to end: from a well-formed state at the end of the confirmation
    window, through filterTickets and selectWinners interrupted arbitrarily often by anybody, to the
    claim-period invariant - after which every settlement and the withdrawal succeed in any order
    and drain the payment token (C01), the winners are exactly the Fisher-Yates winners (C03, C05)
    and the ranges tile 1..total (C08). *)
From Coq Require Import Permutation.
From LP Require Import Proofs.Tactics Proofs.Loop Proofs.Resume Proofs.FisherYates Proofs.Shuffle Proofs.Rng Proofs.Select
  Proofs.Frames Proofs.Settle Proofs.Filter Proofs.Guaranteed Proofs.Nft Proofs.Resume2 Proofs.Resume3 Proofs.Resume4 Proofs.GuaranteedLoop Proofs.Ledger Proofs.ClaimLedger
  Proofs.Leftover Proofs.Partition Proofs.Examples.
Open Scope N_scope.

(** the selection loop marks tickets and permutes positions; nothing else *)
Definition marks_only (s s' : state) : Prop := exists f g, s' = s <| status := f |> <| pos2id := g |>.

Lemma marks_only_refl s : marks_only s s.
Proof. exists (status s), (pos2id s). destruct s; reflexivity. Qed.
Lemma marks_only_trans a b c : marks_only a b -> marks_only b c -> marks_only a c.
Proof. intros (f & g & ->) (f' & g' & ->). exists f', g'. reflexivity. Qed.

Lemma sstep_marks_only s i n x : marks_only s (sstep s i n x).
Proof. unfold sstep. eexists _, _. reflexivity. Qed.

Section HLife.
Variable H : list N -> list N.

Lemma select_loop_marks_only nrw n : nrw <> 0 -> forall b w r pos w' r' pos' d b',
  run_while b (select_body H nrw n) (w, r, pos) = Ok (w', r', pos', d, b') ->
  marks_only (st w) (st w') /\ bal w' = bal w.
Proof.
  intros Hn b w r pos w' r' pos' d b' E.
  change (marks_only (st w) (st (fst (fst (w', r', pos')))) /\ bal (fst (fst (w', r', pos'))) = bal w).
  eapply (run_invariant (select_body H nrw n)
            (fun x => marks_only (st w) (st (fst (fst x))) /\ bal (fst (fst x)) = bal w)); [| |exact E].
  - intros [[wa ra] pa] [[wb rb] pb] c [Hm Hb] Eb. cbn [fst] in *.
    rewrite (select_body_step H _ _ _ _ _ Hn) in Eb. cbn zeta in Eb.
    destruct (pa =? nrw); inversion Eb; subst; rewrite st_set_st; (split; [|exact Hb]);
      (eapply marks_only_trans; [exact Hm|apply sstep_marks_only]).
  - split; [apply marks_only_refl|reflexivity].
Qed.

(** a completed selectWinners started afresh: only marks, positions, the flag and the proceeds change *)
Lemma select_winners_only e b w w' :
  op (st w) = OpNone -> select_winners H e b w = Ok (w', 0) ->
  (exists f g, st w' = st w <| status := f |> <| pos2id := g |> <| fl_selected := true |>
                              <| claimable_payment := price (st w) * nr_winning (st w) |>) /\
  bal w' = bal w.
Proof.
  intros Hop. unfold select_winners. intros E.
  apply bind_ok in E. destruct E as (u1 & _ & E).
  apply bind_ok in E. destruct E as (u2 & _ & E).
  apply bind_ok in E. destruct E as (u3 & _ & E).
  apply bind_ok in E. destruct E as (u4 & _ & E).
  apply bind_ok in E. destruct E as (u5 & _ & E).
  unfold load_select_winners_operation in E. rewrite Hop in E.
  destruct (rng_default w) as [r0 wl] eqn:Er. cbn [bind] in E.
  assert (Hwl : st wl = st w /\ bal wl = bal w).
  { unfold rng_default in Er. destruct (seeds w); inversion Er; subst; split; reflexivity. }
  destruct Hwl as [Hwl Hbl].
  apply bind_ok in E. destruct E as ([[[[w1 r1] p1] done] bb] & Hrun & E).
  destruct done; [|inversion E]. inversion E; subst w'; clear E.
  rewrite st_emit, st_set_st. rewrite bal_emit, bal_set_st.
  assert (Hs0 : st (set_st wl (st wl <| op := OpNone |>)) = st w).
  { rewrite st_set_st, Hwl. rewrite <- Hop. destruct (st w); reflexivity. }
  destruct (N.eqb_spec (nr_winning (st w)) 0) as [Hz|Hnz].
  - rewrite run_while_eq in Hrun. unfold select_body in Hrun. rewrite Hz in Hrun. cbn [N.eqb] in Hrun.
    destruct b; inversion Hrun; subst; rewrite Hs0; (split; [|exact Hbl]);
      exists (status (st w)), (pos2id (st w)); rewrite Hz; destruct (st w); reflexivity.
  - destruct (select_loop_marks_only _ _ Hnz _ _ _ _ _ _ _ _ _ Hrun) as ((f & g & Hst) & Hb).
    rewrite Hs0 in Hst. cbn in Hb. split; [|congruence].
    exists f, g. rewrite Hst. reflexivity.
Qed.

(** ** the pipeline *)
Record PreSel (w : world) (l : list (N * N)) : Prop := {
  ps_op : op (st w) = OpNone;
  ps_chain : Chain (st w) (last_ticket_id (st w)) 1 l;
  ps_owned : Owned (st w) 1 l;
  ps_nodup : NoDup (map fst l);
  ps_conf : Forall (fun x => confirmed (st w) (fst x) <= snd x /\ 0 < snd x) l;
  ps_fresh : fresh_shuffle (st w);
  ps_pay : PayInv w (map fst l);
  ps_none : forall a, ~ In a (map fst l) -> range (st w) a = None
}.

Theorem pipeline_to_claims l w0 lf wf ef bf w1 ls ws es bs w2 sd rest :
  PreSel w0 l ->
  after_interrupted filter_tickets lf w0 = Some wf -> filter_tickets ef bf wf = Ok (w1, 0) ->
  seeds w1 = sd :: rest ->
  after_interrupted (select_winners H) ls w1 = Some ws -> select_winners H es bs ws = Ok (w2, 0) ->
  let A := map fst l in
  let total := sumN (map (confirmed (st w0)) A) in
  let k := N.min (nr_winning (st w0)) total in
  let wins := fst (fy (N.to_nat k) (range_ids 1 total) (rng_words H (N.to_nat k) {| r_seed := sd; r_index := 0 |})) in
  ClaimInv w2 A /\
  Layout (range (st w2)) (confirmed (st w2)) 0 A /\ last_ticket_id (st w2) = total /\
  nr_winning (st w2) = k /\ (forall t, status (st w2) t = true <-> In t wins) /\ NoDup wins /\
  claimable_payment (st w2) = price (st w0) * k /\ confirmed (st w2) = confirmed (st w0).
Proof.
  intros [Hop Hch Hown Hnd Hcf Hfresh Hpay Hnone] Haf Ef Hseeds Has Es. cbn zeta.
  (* the filter: any schedule = one call *)
  assert (Hfok : filter_op_ok (st w0)) by (unfold filter_op_ok; rewrite Hop; exact I).
  rewrite (filter_multi_resume lf w0 wf ef bf Hfok Haf) in Ef.
  destruct (filter_tickets_completed _ _ _ _ l Hop Hch Hown Hnd Hcf Ef)
    as (_ & Hlast1 & Hnw1 & Hfl1 & Hop1 & Hrg1 & Hother1 & Hcf1 & Hst1 & Hpos1 & Hbal1).
  destruct (filter_gives_layout _ _ _ _ l Hop Hch Hown Hnd Hcf Ef) as (Hlay1 & _ & Hlast1').
  destruct (filter_tickets_tf _ _ _ _ _ Ef) as (Hterms1 & _).
  assert (Hpr1 : price (st w1) = price (st w0) /\ pay_token (st w1) = pay_token (st w0))
    by (unfold terms_of in Hterms1; inversion Hterms1; auto).
  destruct Hpr1 as [Hpr1 Hpt1].
  assert (Htot : sumN (confs (st w0) l) = sumN (map (confirmed (st w0)) (map fst l)))
    by (unfold confs; rewrite map_map; reflexivity).
  (* the selection: any schedule = one call *)
  rewrite (select_multi_resume H ls w1 ws es bs Has) in Es.
  assert (Hfresh1 : fresh_shuffle (st w1)) by (destruct Hfresh as [Ha Hb]; split; intros; rewrite ?Hst1, ?Hpos1; auto).
  assert (Hle1 : nr_winning (st w1) <= last_ticket_id (st w1)) by (rewrite Hnw1, Hlast1; lia).
  destruct (select_winners_completed H _ _ _ _ _ _ Hop1 Hseeds Hfresh1 Hle1 Es)
    as (Hst2 & Hnd2 & Hlen2 & Hrg2 & _ & Hnw2 & Hlast2 & Hcp2 & Hbal2 & _).
  destruct (select_winners_completed_shape H _ _ _ _ _ _ Hop1 Hseeds Hfresh1 Hle1 Es) as (_ & Hcount2).
  destruct (select_winners_only _ _ _ _ Hop1 Es) as ((f2 & g2 & Hs2) & _).
  assert (Hcf2 : confirmed (st w2) = confirmed (st w0)) by (rewrite Hs2; cbn; exact Hcf1).
  assert (Hrg2' : range (st w2) = range (st w1)) by (rewrite Hs2; reflexivity).
  assert (Hpr2 : price (st w2) = price (st w0) /\ pay_token (st w2) = pay_token (st w0))
    by (rewrite Hs2; cbn; auto).
  destruct Hpr2 as [Hpr2 Hpt2].
  rewrite Hlast1, Hnw1, Htot in *.
  assert (Hlay2 : Layout (range (st w2)) (confirmed (st w2)) 0 (map fst l)).
  { rewrite Hrg2', Hcf2. rewrite Hcf1 in Hlay1. exact Hlay1. }
  assert (Hpay2 : PayInv w2 (map fst l)).
  { eapply PayInv_frame; [exact Hpay| | exact Hpr2 | intros a; rewrite Hcf2; reflexivity].
    rewrite Hpt2, Hbal2, Hbal1. reflexivity. }
  split; [|split; [exact Hlay2|split; [congruence|split; [congruence|split; [exact Hst2|split; [exact Hnd2|split; [|exact Hcf2]]]]]]].
  - apply ClaimInv_from_layout; auto.
    + intros a Ha. rewrite Hrg2', (Hother1 a Ha). apply Hnone. exact Ha.
    + rewrite Hcf2, Hnw2. exact Hcount2.
    + rewrite Hcp2, Hnw2, Hpr2, Hpr1. reflexivity.
  - rewrite Hcp2, Hpr1. reflexivity.
Qed.

(** ... and from there, whatever the order of settlements and withdrawals, to an empty till *)
Corollary pipeline_drained l w0 lf wf ef bf w1 ls ws es bs w2 sd rest w3 :
  PreSel w0 l ->
  after_interrupted filter_tickets lf w0 = Some wf -> filter_tickets ef bf wf = Ok (w1, 0) ->
  seeds w1 = sd :: rest ->
  after_interrupted (select_winners H) ls w1 = Some ws -> select_winners H es bs ws = Ok (w2, 0) ->
  pay_steps w2 w3 ->
  (forall a, In a (map fst l) -> confirmed (st w3) a = 0) -> claimable_payment (st w3) = 0 ->
  bal w3 sc_addr (pay_token (st w3)) 0 = 0.
Proof.
  intros Hpre Haf Ef Hs Has Es Hsteps Hall Hz.
  destruct (pipeline_to_claims l w0 lf wf ef bf w1 ls ws es bs w2 sd rest Hpre Haf Ef Hs Has Es) as (Hci & _).
  eapply ClaimInv_drained; [eapply ClaimInv_steps; eauto | exact Hall | exact Hz].
Qed.
End HLife.

(** ** the guaranteed-ticket variants (gt1 mig lgt: [v2 = false]; gt2: [v2 = true]): the same
    pipeline with the distribution step as third stage *)
Definition rb_only (s s' : state) : Prop := exists rg ba, s' = s <| range := rg |> <| batch := ba |>.
Lemma rb_only_refl s : rb_only s s.
Proof. exists (range s), (batch s). destruct s; reflexivity. Qed.
Lemma rb_only_trans a b c : rb_only a b -> rb_only b c -> rb_only a c.
Proof. intros (f & g & ->) (f' & g' & ->). exists f', g'. reflexivity. Qed.

Lemma filter_body_rb_only last s f r s' f' r' c :
  filter_body last (s, f, r) = Ok (s', f', r', c) -> rb_only s s'.
Proof.
  unfold filter_body. destruct (f =? last + 1); [intros E; inversion E; apply rb_only_refl|].
  destruct (batch s f) as [[a n]|]; [|discriminate]. intros E.
  apply bind_ok in E. destruct E as (s1 & Hs1 & E). apply bind_ok in E. destruct E as (d & _ & E).
  inversion E; subst s1 f' r' c; clear E.
  destruct (confirmed s a =? 0); [inversion Hs1; subst; eexists _, _; reflexivity|].
  destruct ((0 <? r) || (confirmed s a <? n)); [|inversion Hs1; subst; apply rb_only_refl].
  apply bind_ok in Hs1. destruct Hs1 as (nf & _ & Hs1). apply bind_ok in Hs1. destruct Hs1 as (nl & _ & Hs1).
  inversion Hs1; subst. eexists _, _. reflexivity.
Qed.

Lemma filter_tickets_only e b w w' :
  filter_tickets e b w = Ok (w', 0) ->
  (exists rg ba nw la fs, st w' = st w <| op := OpNone |> <| fl_started := fs |> <| range := rg |> <| batch := ba |>
                                       <| nr_winning := nw |> <| last_ticket_id := la |> <| fl_filtered := true |>) /\
  bal w' = bal w.
Proof.
  unfold filter_tickets. intros E.
  apply bind_ok in E. destruct E as (u1 & _ & E).
  apply bind_ok in E. destruct E as (u2 & _ & E).
  apply bind_ok in E. destruct E as (u3 & _ & E).
  apply bind_ok in E. destruct E as ([f0 r0] & _ & E).
  apply bind_ok in E. destruct E as ([[[[s1 f1] r1] done] bb] & Hrun & E).
  destruct done; [|inversion E].
  apply bind_ok in E. destruct E as (nl & _ & E). inversion E; subst w'; clear E.
  assert (Hrb : rb_only (st w <| op := OpNone |> <| fl_started := (if f0 =? 1 then true else fl_started (st w)) |>) s1).
  { change s1 with (fst (fst (s1, f1, r1))).
    eapply (run_invariant (filter_body (last_ticket_id (st w)))
              (fun x => rb_only (st w <| op := OpNone |> <| fl_started := (if f0 =? 1 then true else fl_started (st w)) |>) (fst (fst x))));
      [| |exact Hrun].
    - intros [[sa fa] ra] [[sb fb] rb] c Hi Eb. cbn [fst] in *. eapply rb_only_trans; [exact Hi|].
      eapply filter_body_rb_only; eauto.
    - apply rb_only_refl. }
  destruct Hrb as (rg & ba & ->). rewrite st_emit, st_set_st, bal_emit, bal_set_st. split; [|reflexivity].
  eexists rg, ba, _, _, _. reflexivity.
Qed.

Definition sg_only (s s' : state) : Prop := exists f u, s' = s <| status := f |> <| gt_users := u |>.
Lemma sg_only_refl s : sg_only s s.
Proof. exists (status s), (gt_users s). destruct s; reflexivity. Qed.
Lemma sg_only_trans a b c : sg_only a b -> sg_only b c -> sg_only a c.
Proof. intros (f & g & ->) (f' & g' & ->). exists f', g'. reflexivity. Qed.

Lemma select_gt_body_sg_only v2 s o n s' o' n' c :
  select_gt_body v2 (s, o, n) = Ok (s', o', n', c) -> sg_only s s'.
Proof.
  unfold select_gt_body. destruct (n =? 0); [intros E; inversion E; apply sg_only_refl|].
  destruct (gt_users s) as [|u l]; [discriminate|].
  destruct (if v2 then gt_user_step_v2 _ o u else gt_user_step_v1 _ o u) as [s2 o2] eqn:Es.
  intros E; inversion E; subst. destruct (gt_user_step_only_status v2 _ _ _ _ _ Es) as [f ->].
  eexists _, _. reflexivity.
Qed.

Section HLife2.
Variable H : list N -> list N.

Lemma try_select_marks_only v2 w r cur last tr r' w' :
  try_select_winning_ticket H v2 w r cur last = (tr, r', w') -> marks_only (st w) (st w') /\ bal w' = bal w.
Proof.
  unfold try_select_winning_ticket, next_usize_in_range, next_usize. destruct w as [s ? ? ? ? ?]. cbn.
  intros E. break_in E; inversion E; subst; cbn; (split; [|reflexivity]);
    try apply marks_only_refl; eexists _, _; reflexivity.
Qed.

Lemma gt_distribution_only v2 b w o w1 o1 d bb :
  gt_distribution H v2 b w o = Ok (w1, o1, d, bb) ->
  (exists f g u, st w1 = st w <| status := f |> <| pos2id := g |> <| gt_users := u |>) /\ bal w1 = bal w.
Proof.
  unfold gt_distribution. intros E.
  apply bind_ok in E. destruct E as ([[[[s1 oa] n1] d1] ba] & H1 & E).
  assert (Hsg : sg_only (st w) s1).
  { change s1 with (fst (fst (s1, oa, n1))).
    eapply (run_invariant (select_gt_body v2) (fun x => sg_only (st w) (fst (fst x)))); [| |exact H1].
    - intros [[sa oa'] na] [[sb ob] nb] c Hi Eb. cbn [fst] in *. eapply sg_only_trans; [exact Hi|].
      eapply select_gt_body_sg_only; eauto.
    - apply sg_only_refl. }
  destruct Hsg as (f1 & u1 & Hs1).
  destruct d1; cbn [negb] in E.
  - apply bind_ok in E. destruct E as ([[[w2 o2] d2] b2'] & H2 & E). inversion E; subst w2 o2 d2 b2'; clear E.
    assert (Hm : marks_only s1 (st w1) /\ bal w1 = bal w).
    { change w1 with (fst (w1, o1)).
      eapply (run_invariant (leftover_body H v2 (nr_winning s1) (last_ticket_id s1))
                (fun x => marks_only s1 (st (fst x)) /\ bal (fst x) = bal w)); [| |exact H2].
      - intros [wa oa'] [wb ob] c [Hi Hb] Eb. cbn [fst] in *. unfold leftover_body in Eb.
        destruct (g_leftover _ =? 0); [inversion Eb; subst; auto|].
        destruct (try_select_winning_ticket _ _ _ _ _ _) as [[tr r'] wz] eqn:Et.
        destruct (try_select_marks_only _ _ _ _ _ _ _ _ Et) as [Hm Hbz].
        destruct tr; inversion Eb; subst; (split; [eapply marks_only_trans; eauto | congruence]).
      - cbn [fst]. rewrite st_set_st. split; [apply marks_only_refl|reflexivity]. }
    destruct Hm as ((f2 & g2 & Hs2) & Hb2). split; [|exact Hb2].
    exists f2, g2, u1. rewrite Hs2, Hs1. reflexivity.
  - injection E as Hw1 _ _ _. rewrite <- Hw1. rewrite st_set_st. split; [|reflexivity].
    exists f1, (pos2id (st w)), u1. rewrite Hs1. destruct (st w); reflexivity.
Qed.

Lemma distribute_only v2 e b w w' :
  op (st w) = OpNone -> distribute_guaranteed_tickets H v2 e b w = Ok (w', 0) ->
  (exists f g u cp nw, st w' = st w <| status := f |> <| pos2id := g |> <| gt_users := u |> <| fl_additional := true |>
                                     <| claimable_payment := cp |> <| nr_winning := nw |>) /\ bal w' = bal w.
Proof.
  intros Hop. unfold distribute_guaranteed_tickets. intros E.
  apply bind_ok in E. destruct E as (u1 & _ & E).
  apply bind_ok in E. destruct E as (u2 & _ & E).
  apply bind_ok in E. destruct E as (u3 & _ & E).
  apply bind_ok in E. destruct E as (u4 & _ & E).
  apply bind_ok in E. destruct E as (u5 & _ & E).
  apply bind_ok in E. destruct E as ([o0 wl] & Hl & E).
  apply bind_ok in E. destruct E as ([[[wa oa] da] ba] & Hd & E).
  assert (Hwl : st wl = st w /\ bal wl = bal w).
  { unfold load_gt_op in Hl. rewrite Hop in Hl. unfold rng_default in Hl. destruct (seeds w); inversion Hl; subst; split; reflexivity. }
  destruct Hwl as [Hwl Hbl].
  destruct da; [|inversion E].
  destruct (gt_distribution_only v2 _ _ _ _ _ _ _ Hd) as ((f & g & u & Hs) & Hb).
  rewrite st_set_st in Hs. cbn in Hb.
  assert (Hs' : st wa = st w <| status := f |> <| pos2id := g |> <| gt_users := u |>).
  { rewrite Hs, Hwl. rewrite <- Hop. destruct (st w); reflexivity. }
  assert (Hfin : st w' = st wa <| fl_additional := true |>
                      <| claimable_payment := claimable_payment (st wa) + price (st wa) * g_additional oa |>
                      <| nr_winning := nr_winning (st wa) + g_additional oa |> /\ bal w' = bal wa).
  { destruct v2; inversion E; subst w'; unfold finish_gt; rewrite ?st_emit, ?bal_emit, !st_set_st; split; reflexivity. }
  destruct Hfin as [Hf Hbf]. split; [|congruence].
  eexists f, g, u, _, _. rewrite Hf, Hs'. reflexivity.
Qed.

(** what the first two stages establish (both families) *)
Record PostSel (w0 w2 : world) (l : list (N * N)) : Prop := {
  po_pay : PayInv w2 (map fst l);
  po_lay : Layout (range (st w2)) (confirmed (st w2)) 0 (map fst l);
  po_last : last_ticket_id (st w2) = sumN (map (confirmed (st w2)) (map fst l));
  po_none : forall a, ~ In a (map fst l) -> range (st w2) a = None;
  po_op : op (st w2) = OpNone;
  po_dinv : exists wins, DInv (last_ticket_id (st w2)) (st w2) (nr_winning (st w2) + 1) wins;
  po_count : count_winning (st w2) (range_ids 1 (last_ticket_id (st w2))) = nr_winning (st w2);
  po_cp : claimable_payment (st w2) = price (st w2) * nr_winning (st w2);
  po_gt : gt_users (st w2) = gt_users (st w0)
}.

Lemma pipeline_postsel l w0 lf wf ef bf w1 ls ws es bs w2 sd rest :
  PreSel w0 l ->
  after_interrupted filter_tickets lf w0 = Some wf -> filter_tickets ef bf wf = Ok (w1, 0) ->
  seeds w1 = sd :: rest ->
  after_interrupted (select_winners H) ls w1 = Some ws -> select_winners H es bs ws = Ok (w2, 0) ->
  PostSel w0 w2 l.
Proof.
  intros [Hop Hch Hown Hnd Hcf Hfresh Hpay Hnone] Haf Ef Hseeds Has Es.
  assert (Hfok : filter_op_ok (st w0)) by (unfold filter_op_ok; rewrite Hop; exact I).
  rewrite (filter_multi_resume lf w0 wf ef bf Hfok Haf) in Ef.
  destruct (filter_tickets_completed _ _ _ _ l Hop Hch Hown Hnd Hcf Ef)
    as (_ & Hlast1 & Hnw1 & Hfl1 & Hop1 & Hrg1 & Hother1 & Hcf1 & Hst1 & Hpos1 & Hbal1).
  destruct (filter_gives_layout _ _ _ _ l Hop Hch Hown Hnd Hcf Ef) as (Hlay1 & _ & Hlast1').
  destruct (filter_tickets_only _ _ _ _ Ef) as ((rg & ba & nw & la & fs & Hs1) & _).
  rewrite (select_multi_resume H ls w1 ws es bs Has) in Es.
  assert (Hfresh1 : fresh_shuffle (st w1)) by (destruct Hfresh as [Ha Hb]; split; intros; rewrite ?Hst1, ?Hpos1; auto).
  assert (Htot : sumN (confs (st w0) l) = sumN (map (confirmed (st w0)) (map fst l)))
    by (unfold confs; rewrite map_map; reflexivity).
  assert (Hle1 : nr_winning (st w1) <= last_ticket_id (st w1)) by (rewrite Hnw1, Hlast1; lia).
  destruct (select_winners_completed H _ _ _ _ _ _ Hop1 Hseeds Hfresh1 Hle1 Es)
    as (_ & _ & _ & _ & _ & Hnw2 & Hlast2 & Hcp2 & Hbal2 & Hop2 & _).
  destruct (select_winners_completed_shape H _ _ _ _ _ _ Hop1 Hseeds Hfresh1 Hle1 Es) as (Hd2 & Hcount2).
  destruct (select_winners_only H _ _ _ _ Hop1 Es) as ((f2 & g2 & Hs2) & _).
  assert (Hcf2 : confirmed (st w2) = confirmed (st w1)) by (rewrite Hs2; reflexivity).
  assert (Hrg2 : range (st w2) = range (st w1)) by (rewrite Hs2; reflexivity).
  assert (Hpr2 : price (st w2) = price (st w1) /\ pay_token (st w2) = pay_token (st w1)) by (rewrite Hs2; auto).
  assert (Hpr1 : price (st w1) = price (st w0) /\ pay_token (st w1) = pay_token (st w0)) by (rewrite Hs1; auto).
  destruct Hpr2 as [Hpr2 Hpt2]. destruct Hpr1 as [Hpr1 Hpt1].
  constructor.
  - eapply PayInv_frame; [exact Hpay| | congruence | intros a; rewrite Hcf2, Hcf1; reflexivity].
    rewrite Hpt2, Hpt1, Hbal2, Hbal1. reflexivity.
  - rewrite Hrg2, Hcf2. exact Hlay1.
  - rewrite Hlast2, Hcf2. exact Hlast1'.
  - intros a Ha. rewrite Hrg2, (Hother1 a Ha). apply Hnone. exact Ha.
  - exact Hop2.
  - rewrite Hlast2, Hnw2. exact Hd2.
  - rewrite Hlast2, Hnw2. exact Hcount2.
  - rewrite Hcp2, Hpr2, Hnw2. reflexivity.
  - rewrite Hs2, Hs1. reflexivity.
Qed.

Theorem pipeline_gt v2 l w0 lf wf ef bf w1 ls ws es bs w2 sd rest ld wd ed bd w3 :
  PreSel w0 l -> NoDup (gt_users (st w0)) ->
  after_interrupted filter_tickets lf w0 = Some wf -> filter_tickets ef bf wf = Ok (w1, 0) ->
  seeds w1 = sd :: rest ->
  after_interrupted (select_winners H) ls w1 = Some ws -> select_winners H es bs ws = Ok (w2, 0) ->
  after_interrupted (distribute_guaranteed_tickets H v2) ld w2 = Some wd ->
  distribute_guaranteed_tickets H v2 ed bd wd = Ok (w3, 0) ->
  ClaimInv w3 (map fst l) /\
  dist_result v2 (st w2) (st w3) /\
  (forall u, In u (gt_users (st w2)) -> owed v2 (st w2) u <= own_winning (st w2) (st w3) u) /\
  (forall t, status (st w2) t = true -> status (st w3) t = true).
Proof.
  intros Hpre Hndg Haf Ef Hseeds Has Es Had Ed.
  destruct (pipeline_postsel l w0 lf wf ef bf w1 ls ws es bs w2 sd rest Hpre Haf Ef Hseeds Has Es)
    as [Hpay Hlay Hlast Hnone Hop Hdinv Hcount Hcp Hgt].
  pose proof (pi_nodup _ _ Hpay) as HndA.
  destruct (layout_dist_hyps v2 (st w2) (map fst l) Hlay HndA Hlast Hnone) as [Hwithin Hsized].
  assert (Hready : dist_ready v2 (st w2)).
  { unfold dist_ready. rewrite Hgt. repeat split; auto. }
  pose proof (distribute_counts_interrupted H v2 ld w2 wd ed bd w3 Hready Had Ed) as Hres.
  assert (Hndg2 : NoDup (gt_users (st w2))) by (rewrite Hgt; exact Hndg).
  destruct (distribute_honours_interrupted H v2 ld w2 wd ed bd w3 Hop Hndg2 Hsized Had Ed) as [Hhon Hmono].
  split; [|split; [exact Hres|split; [exact Hhon|exact Hmono]]].
  rewrite (distribute_multi_resume H v2 _ _ _ _ _ Had) in Ed.
  destruct (distribute_only v2 _ _ _ _ Hop Ed) as ((f & g & u & cp & nw & Hs3) & Hb3).
  destruct Hres as (Hc3 & Hn3 & Hcp3 & Hl3).
  apply ClaimInv_from_layout.
  - eapply PayInv_frame; [exact Hpay| | rewrite Hs3; reflexivity | intros a; rewrite Hs3; reflexivity].
    rewrite Hb3, Hs3. reflexivity.
  - rewrite Hs3. exact Hlay.
  - intros a Ha. rewrite Hs3. apply Hnone. exact Ha.
  - replace (confirmed (st w3)) with (confirmed (st w2)) by (rewrite Hs3; reflexivity).
    rewrite <- Hlast. exact Hc3.
  - rewrite Hcp3, Hcp. replace (price (st w3)) with (price (st w2)) by (rewrite Hs3; reflexivity).
    assert (nr_winning (st w2) <= nr_winning (st w3)).
    { rewrite Hn3. pose proof (count_winning_le_length (st w2) (range_ids 1 (last_ticket_id (st w2)))) as Hle.
      rewrite range_ids_length, Hcount in Hle. lia. }
    nia.
Qed.

(** ** the two NFT contracts: nft (third stage selectNftWinners) and ngt (third stage
    secondarySelectionStep = guaranteed tickets, then the NFT draw) *)
Lemma select_nft_winners_bal b w r w' r' d b' :
  select_nft_winners H b w r = Ok (w', r', d, b') -> bal w' = bal w.
Proof.
  unfold select_nft_winners. intros Hs. apply bind_ok in Hs. destruct Hs as ([[[[[wy ry] uy] sy] dy] by_] & Hrun & Hs).
  inversion Hs; subst; clear Hs.
  change (bal (fst (fst (fst (w', r', uy, sy)))) = bal w).
  eapply (run_invariant (nft_body H _) (fun x => bal (fst (fst (fst x))) = bal w)); [| |exact Hrun].
  - intros [[[wa ra] ua] sa] [[[wb rb] ub] sb] c Hi Eb. cbn [fst] in *. unfold nft_body in Eb.
    destruct ((ua =? 0) || (sa =? _)); [inversion Eb; subst; exact Hi|].
    unfold next_usize_in_range, next_usize in Eb. cbn zeta in Eb.
    match type of Eb with context [nth_error ?l ?i] => destruct (nth_error l i) end; [|discriminate].
    inversion Eb; subst. destruct wa; cbn in *. exact Hi.
  - reflexivity.
Qed.

Lemma select_nft_endpoint_only e b w w' :
  op (st w) = OpNone -> select_nft_winners_endpoint H e b w = Ok (w', 0) ->
  (exists p q cn, st w' = st w <| nft_payers := p |> <| nft_winners := q |> <| fl_additional := true |>
                                <| claimable_nft := cn |>) /\ bal w' = bal w.
Proof.
  intros Hop. unfold select_nft_winners_endpoint. intros E.
  apply bind_ok in E. destruct E as (u1 & _ & E).
  apply bind_ok in E. destruct E as (u2 & _ & E).
  apply bind_ok in E. destruct E as (u3 & _ & E).
  rewrite Hop in E. cbn [bind] in E. destruct (rng_default w) as [r0 wl] eqn:Er.
  assert (Hwl : st wl = st w /\ bal wl = bal w).
  { unfold rng_default in Er. destruct (seeds w); inversion Er; subst; split; reflexivity. }
  destruct Hwl as [Hwl Hbl].
  apply bind_ok in E. destruct E as ([[[wx rx] dx] bx] & Hs & E).
  destruct dx; [|discriminate E]. injection E as Hw'.
  destruct (select_nft_winners_only H _ _ _ _ _ _ _ Hs) as (p & q & Hx).
  assert (Hbx : bal wx = bal w) by (rewrite (select_nft_winners_bal _ _ _ _ _ _ _ Hs); cbn; exact Hbl).
  rewrite st_set_st in Hx.
  split.
  - rewrite <- Hw'. unfold set_claimable_nft. rewrite !st_set_st. rewrite Hx, Hwl.
    exists p, q, (nft_amt (st w) * N.of_nat (length q)). revert Hop. destruct (st w); cbn; intros ->; reflexivity.
  - rewrite <- Hw'. unfold set_claimable_nft. rewrite !bal_set_st. exact Hbx.
Qed.

Theorem pipeline_nft l w0 lf wf ef bf w1 ls ws es bs w2 sd rest ln wn en bn w3 :
  PreSel w0 l -> nft_disjoint w0 ->
  after_interrupted filter_tickets lf w0 = Some wf -> filter_tickets ef bf wf = Ok (w1, 0) ->
  seeds w1 = sd :: rest ->
  after_interrupted (select_winners H) ls w1 = Some ws -> select_winners H es bs ws = Ok (w2, 0) ->
  after_interrupted (select_nft_winners_endpoint H) ln w2 = Some wn ->
  select_nft_winners_endpoint H en bn wn = Ok (w3, 0) ->
  ClaimInv w3 (map fst l) /\ status (st w3) = status (st w2) /\ nr_winning (st w3) = nr_winning (st w2).
Proof.
  intros Hpre Hdj Haf Ef Hseeds Has Es Han En.
  pose proof Hpre as [Hop0 _ _ _ _ _ _ _].
  destruct (pipeline_postsel l w0 lf wf ef bf w1 ls ws es bs w2 sd rest Hpre Haf Ef Hseeds Has Es)
    as [Hpay Hlay Hlast Hnone Hop Hdinv Hcount Hcp Hgt].
  (* the NFT lists are untouched by the first two stages *)
  assert (Hdj2 : nft_disjoint w2).
  { assert (Hfok : filter_op_ok (st w0)) by (unfold filter_op_ok; rewrite Hop0; exact I).
    rewrite (filter_multi_resume lf w0 wf ef bf Hfok Haf) in Ef.
    destruct (filter_tickets_only _ _ _ _ Ef) as ((rg & ba & nw & la & fs & Hs1) & _).
    rewrite (select_multi_resume H ls w1 ws es bs Has) in Es.
    assert (Hop1 : op (st w1) = OpNone) by (rewrite Hs1; reflexivity).
    destruct (select_winners_only H _ _ _ _ Hop1 Es) as ((f2 & g2 & Hs2) & _).
    unfold nft_disjoint in *. rewrite Hs2, Hs1. exact Hdj. }
  rewrite (select_nft_multi_resume H ln w2 wn en bn Hdj2 Han) in En.
  destruct (select_nft_endpoint_only _ _ _ _ Hop En) as ((p & q & cn & Hs3) & Hb3).
  split; [|rewrite Hs3; split; reflexivity].
  apply ClaimInv_from_layout.
  - eapply PayInv_frame; [exact Hpay| | rewrite Hs3; reflexivity | intros a; rewrite Hs3; reflexivity].
    rewrite Hb3, Hs3. reflexivity.
  - rewrite Hs3. exact Hlay.
  - intros a Ha. rewrite Hs3. apply Hnone. exact Ha.
  - replace (confirmed (st w3)) with (confirmed (st w2)) by (rewrite Hs3; reflexivity).
    rewrite <- Hlast. rewrite Hs3. exact Hcount.
  - rewrite Hs3. exact Hcp.
Qed.

Lemma secondary_only e b w w' :
  op (st w) = OpNone -> secondary_selection_step H e b w = Ok (w', 0) ->
  (exists f g u p q cp nw cn,
     st w' = st w <| status := f |> <| pos2id := g |> <| gt_users := u |> <| nft_payers := p |> <| nft_winners := q |>
                  <| fl_additional := true |> <| claimable_payment := cp |> <| nr_winning := nw |>
                  <| claimable_nft := cn |>) /\ bal w' = bal w.
Proof.
  intros Hop. unfold secondary_selection_step. intros E.
  apply bind_ok in E. destruct E as (u1 & _ & E).
  apply bind_ok in E. destruct E as (u2 & _ & E).
  apply bind_ok in E. destruct E as (u3 & _ & E).
  rewrite Hop in E. destruct (rng_default w) as [r0 wl] eqn:Er. cbn [bind] in E.
  assert (Hwl : st wl = st w /\ bal wl = bal w).
  { unfold rng_default in Er. destruct (seeds w); inversion Er; subst; split; reflexivity. }
  destruct Hwl as [Hwl Hbl].
  apply bind_ok in E. destruct E as ([[wp orng] bp] & Hph & E).
  apply bind_ok in Hph. destruct Hph as ([[[wa oa] da] ba] & Hd & Hph).
  destruct da.
  2:{ inversion Hph; subst. inversion E. }
  destruct (rng_default (finish_gt wa oa)) as [rn w3] eqn:Er3. inversion Hph; subst wp orng bp; clear Hph.
  apply bind_ok in E. destruct E as ([[[wx rx] dx] bx] & Hs & E).
  destruct dx; [|discriminate E]. injection E as Hw'.
  destruct (gt_distribution_only false _ _ _ _ _ _ _ Hd) as ((f & g & u & Hsa) & Hba).
  rewrite st_set_st in Hsa. cbn in Hba.
  assert (H3 : st w3 = st (finish_gt wa oa) /\ bal w3 = bal wa).
  { unfold rng_default in Er3. destruct (seeds (finish_gt wa oa)); inversion Er3; subst; split; reflexivity. }
  destruct H3 as [Hs3 Hb3].
  destruct (select_nft_winners_only H _ _ _ _ _ _ _ Hs) as (p & q & Hx).
  pose proof (select_nft_winners_bal _ _ _ _ _ _ _ Hs) as Hbx.
  split.
  - rewrite <- Hw'. unfold set_claimable_nft. rewrite !st_set_st. rewrite Hx, Hs3. unfold finish_gt. rewrite st_set_st, Hsa, Hwl.
    exists f, g, u, p, q, (claimable_payment (st w) + price (st w) * g_additional oa), (nr_winning (st w) + g_additional oa),
      (nft_amt (st w) * N.of_nat (length q)).
    revert Hop. destruct (st w); cbn; intros ->; reflexivity.
  - rewrite <- Hw'. unfold set_claimable_nft. rewrite !bal_set_st. congruence.
Qed.

Theorem pipeline_ngt l w0 lf wf ef bf w1 ls ws es bs w2 sd rest ld wd ed bd w3 :
  PreSel w0 l -> NoDup (gt_users (st w0)) -> nft_disjoint w0 ->
  after_interrupted filter_tickets lf w0 = Some wf -> filter_tickets ef bf wf = Ok (w1, 0) ->
  seeds w1 = sd :: rest ->
  after_interrupted (select_winners H) ls w1 = Some ws -> select_winners H es bs ws = Ok (w2, 0) ->
  after_interrupted (secondary_selection_step H) ld w2 = Some wd ->
  secondary_selection_step H ed bd wd = Ok (w3, 0) ->
  ClaimInv w3 (map fst l) /\
  dist_result false (st w2) (st w3) /\
  (forall u, In u (gt_users (st w2)) -> owed false (st w2) u <= own_winning (st w2) (st w3) u) /\
  (forall t, status (st w2) t = true -> status (st w3) t = true).
Proof.
  intros Hpre Hndg Hdj Haf Ef Hseeds Has Es Had Ed.
  pose proof Hpre as [Hop0 _ _ _ _ _ _ _].
  destruct (pipeline_postsel l w0 lf wf ef bf w1 ls ws es bs w2 sd rest Hpre Haf Ef Hseeds Has Es)
    as [Hpay Hlay Hlast Hnone Hop Hdinv Hcount Hcp Hgt].
  assert (Hdj2 : nft_disjoint w2).
  { assert (Hfok : filter_op_ok (st w0)) by (unfold filter_op_ok; rewrite Hop0; exact I).
    rewrite (filter_multi_resume lf w0 wf ef bf Hfok Haf) in Ef.
    destruct (filter_tickets_only _ _ _ _ Ef) as ((rg & ba & nw & la & fs & Hs1) & _).
    rewrite (select_multi_resume H ls w1 ws es bs Has) in Es.
    assert (Hop1 : op (st w1) = OpNone) by (rewrite Hs1; reflexivity).
    destruct (select_winners_only H _ _ _ _ Hop1 Es) as ((f2 & g2 & Hs2) & _).
    unfold nft_disjoint in *. rewrite Hs2, Hs1. exact Hdj. }
  pose proof (pi_nodup _ _ Hpay) as HndA.
  destruct (layout_dist_hyps false (st w2) (map fst l) Hlay HndA Hlast Hnone) as [Hwithin Hsized].
  assert (Hready : dist_ready false (st w2)).
  { unfold dist_ready. rewrite Hgt. repeat split; auto. }
  pose proof (secondary_counts_interrupted H ld w2 wd ed bd w3 Hready Hdj2 Had Ed) as Hres.
  assert (Hndg2 : NoDup (gt_users (st w2))) by (rewrite Hgt; exact Hndg).
  destruct (secondary_honours_interrupted H ld w2 wd ed bd w3 Hop Hndg2 Hdj2 Had Ed) as [Hhon Hmono].
  split; [|split; [exact Hres|split; [exact Hhon|exact Hmono]]].
  rewrite (secondary_multi_resume H _ _ _ _ _ Hdj2 Had) in Ed.
  destruct (secondary_only _ _ _ _ Hop Ed) as ((f & g & u & p & q & cp & nw & cn & Hs3) & Hb3).
  destruct Hres as (Hc3 & Hn3 & Hcp3 & Hl3).
  apply ClaimInv_from_layout.
  - eapply PayInv_frame; [exact Hpay| | rewrite Hs3; reflexivity | intros a; rewrite Hs3; reflexivity].
    rewrite Hb3, Hs3. reflexivity.
  - rewrite Hs3. exact Hlay.
  - intros a Ha. rewrite Hs3. apply Hnone. exact Ha.
  - replace (confirmed (st w3)) with (confirmed (st w2)) by (rewrite Hs3; reflexivity).
    rewrite <- Hlast. exact Hc3.
  - rewrite Hcp3, Hcp. replace (price (st w3)) with (price (st w2)) by (rewrite Hs3; reflexivity).
    assert (nr_winning (st w2) <= nr_winning (st w3)).
    { rewrite Hn3. pose proof (count_winning_le_length (st w2) (range_ids 1 (last_ticket_id (st w2)))) as Hle.
      rewrite range_ids_length, Hcount in Hle. lia. }
    nia.
Qed.

End HLife2.

(** ** non-vacuity: a state reached from deployment by real transactions (allocation 3 + 2, deposit,
    two confirmations) satisfies [PreSel] *)
Lemma base_confirmed_PreSel : PreSel base_confirmed [(2, 3); (3, 2)].
Proof.
  assert (Hst : status (st base_confirmed) = fun _ => false) by (vm_compute; reflexivity).
  assert (Hpo : pos2id (st base_confirmed) = fun _ => 0) by (vm_compute; reflexivity).
  assert (Hrg : range (st base_confirmed) = fun x => if x =? 3 then Some (4, 5) else if x =? 2 then Some (1, 3) else None)
    by (vm_compute; reflexivity).
  assert (Hcf : confirmed (st base_confirmed) = fun x => if x =? 3 then 2 else if x =? 2 then 2 else 0)
    by (vm_compute; reflexivity).
  assert (Hba : batch (st base_confirmed) = fun x => if x =? 4 then Some (3, 2) else if x =? 1 then Some (2, 3) else None)
    by (vm_compute; reflexivity).
  assert (Hla : last_ticket_id (st base_confirmed) = 5) by (vm_compute; reflexivity).
  assert (Hnotin : forall a, ~ In a [2; 3] -> (a =? 3) = false /\ (a =? 2) = false).
  { intros a Ha. split; apply N.eqb_neq; intros ->; apply Ha; cbn; auto. }
  constructor.
  - vm_compute. reflexivity.
  - rewrite Hla. apply chain_cons; [lia | rewrite Hba; reflexivity | lia |].
    apply (chain_cons _ 5 4 3 2 []); [lia | rewrite Hba; reflexivity | lia |]. apply (chain_nil _ 5).
  - apply owned_cons; [rewrite Hrg; reflexivity|]. apply (owned_cons _ 4 3 2 []); [rewrite Hrg; reflexivity|]. apply owned_nil.
  - cbn. repeat constructor; cbn; intuition discriminate.
  - rewrite Hcf.
    constructor; [split; [apply N.leb_le|apply N.ltb_lt]; vm_compute; reflexivity|].
    constructor; [split; [apply N.leb_le|apply N.ltb_lt]; vm_compute; reflexivity|]. constructor.
  - split; intros; [rewrite Hst|rewrite Hpo]; reflexivity.
  - constructor.
    + cbn. repeat constructor; cbn; intuition discriminate.
    + intros a Ha. destruct (Hnotin a Ha) as [E3 E2]. rewrite Hcf, E3, E2. reflexivity.
    + cbn. intuition discriminate.
    + vm_compute. reflexivity.
  - intros a Ha. destruct (Hnotin a Ha) as [E3 E2]. rewrite Hrg, E3, E2. reflexivity.
Qed.
