(** * C04 with interleaved transactions, third stage of the NFT contracts: [selectNftWinners] (nft)
    and [secondarySelectionStep] (ngt) commute with what the other accepted transactions of the
    selection period leave (support address, claim start, pause flag); hence a history in which such
    transactions run between the calls of the step ends in the transform of the noise-free outcome. *)
From LP Require Import Proofs.Tactics Proofs.Loop Proofs.Resume Proofs.Resume2 Proofs.Frames Proofs.Gates Proofs.Stage
  Proofs.Guaranteed Proofs.Nft Proofs.Interleave Proofs.InterleaveGt.
Open Scope N_scope.

Section HInterNft.
Variable H : list N -> list N.

Lemma nft_body_T su cs p total w r ul sel :
  nft_body H total (Tw su cs p w, r, ul, sel) =
  match nft_body H total (w, r, ul, sel) with
  | Ok (w', r', ul', sel', c) => Ok (Tw su cs p w', r', ul', sel', c)
  | Err k => Err k
  end.
Proof.
  unfold nft_body. destruct ((ul =? 0) || (sel =? total)); [reflexivity|].
  rewrite (next_usize_in_range_T H). destruct (next_usize_in_range H w r 1 (ul + 1)) as [[idx r'] w1].
  change (st (Tw su cs p w1)) with (T su cs p (st w1)).
  change (nft_payers (T su cs p (st w1))) with (nft_payers (st w1)).
  destruct (nth_error (nft_payers (st w1)) (N.to_nat (idx - 1))); reflexivity.
Qed.

Lemma run_nft_T su cs p total b w r ul sel :
  run_while b (nft_body H total) (Tw su cs p w, r, ul, sel) =
  match run_while b (nft_body H total) (w, r, ul, sel) with
  | Ok (w', r', ul', sel', d, b') => Ok (Tw su cs p w', r', ul', sel', d, b')
  | Err k => Err k
  end.
Proof.
  pose proof (run_while_commute (fun x : world * rng * N * N => (Tw su cs p (fst (fst (fst x))), snd (fst (fst x)), snd (fst x), snd x))
                                (nft_body H total)) as Hc.
  specialize (Hc ltac:(intros [[[wx rx] ux] sx]; cbn [fst snd]; rewrite nft_body_T;
                        destruct (nft_body H total (wx, rx, ux, sx)) as [[[[[w' r'] u'] s'] c]|]; reflexivity) b (w, r, ul, sel)).
  cbn [fst snd] in Hc. rewrite Hc.
  destruct (run_while b (nft_body H total) (w, r, ul, sel)) as [[[[[[w1 r1] u1] s1] d] bb]|]; reflexivity.
Qed.

Lemma select_nft_winners_T su cs p b w r :
  select_nft_winners H b (Tw su cs p w) r =
  match select_nft_winners H b w r with Ok (w', r', d, b') => Ok (Tw su cs p w', r', d, b') | Err k => Err k end.
Proof.
  unfold select_nft_winners. change (st (Tw su cs p w)) with (T su cs p (st w)).
  change (total_nfts (T su cs p (st w))) with (total_nfts (st w)).
  change (nft_payers (T su cs p (st w))) with (nft_payers (st w)).
  change (nft_winners (T su cs p (st w))) with (nft_winners (st w)).
  rewrite run_nft_T.
  destruct (run_while b _ _) as [[[[[[w1 r1] u1] s1] d] bb]|]; reflexivity.
Qed.

Lemma rng_default_Tw su cs p w :
  rng_default (Tw su cs p w) = let (r, w') := rng_default w in (r, Tw su cs p w').
Proof. unfold rng_default. change (seeds (Tw su cs p w)) with (seeds w). destruct (seeds w); reflexivity. Qed.

Theorem select_nft_endpoint_T su cs p e b w :
  open_flags w ->
  select_nft_winners_endpoint H e b (Tw su cs p w) = mapT su cs p (select_nft_winners_endpoint H e b w).
Proof.
  intros Hf. unfold select_nft_winners_endpoint.
  change (st (Tw su cs p w)) with (T su cs p (st w)).
  change (fl_selected (T su cs p (st w))) with (fl_selected (st w)).
  change (fl_additional (T su cs p (st w))) with (fl_additional (st w)).
  change (op (T su cs p (st w))) with (op (st w)).
  unfold require_stage. rewrite (stage_T e su cs p (st w) Hf).
  destruct (require (stage_eqb (get_launch_stage e (st w)) WinnerSelection)) as [[]|]; [|reflexivity]. cbn [bind].
  destruct (require (fl_selected (st w))) as [[]|]; [|reflexivity]. cbn [bind].
  destruct (require (negb (fl_additional (st w)))) as [[]|]; [|reflexivity]. cbn [bind].
  destruct (op (st w)) as [| | |d]; try reflexivity.
  - cbn [bind]. rewrite rng_default_Tw. destruct (rng_default w) as [r0 wl].
    change (set_st (Tw su cs p wl) (st (Tw su cs p wl) <| op := OpNone |>)) with (Tw su cs p (set_st wl (st wl <| op := OpNone |>))).
    rewrite select_nft_winners_T.
    destruct (select_nft_winners H b (set_st wl (st wl <| op := OpNone |>)) r0) as [[[[wa oa] da] ba]|]; [|reflexivity].
    cbn [bind]. destruct da; reflexivity.
  - destruct d; try reflexivity. cbn [bind].
    change (set_st (Tw su cs p w) (st (Tw su cs p w) <| op := OpNone |>)) with (Tw su cs p (set_st w (st w <| op := OpNone |>))).
    rewrite select_nft_winners_T.
    destruct (select_nft_winners H b (set_st w (st w <| op := OpNone |>)) r) as [[[[wa oa] da] ba]|]; [|reflexivity].
    cbn [bind]. destruct da; reflexivity.
Qed.

Theorem secondary_T su cs p e b w :
  open_flags w ->
  secondary_selection_step H e b (Tw su cs p w) = mapT su cs p (secondary_selection_step H e b w).
Proof.
  intros Hf. unfold secondary_selection_step.
  change (st (Tw su cs p w)) with (T su cs p (st w)).
  change (fl_selected (T su cs p (st w))) with (fl_selected (st w)).
  change (fl_additional (T su cs p (st w))) with (fl_additional (st w)).
  change (op (T su cs p (st w))) with (op (st w)).
  unfold require_stage. rewrite (stage_T e su cs p (st w) Hf).
  destruct (require (stage_eqb (get_launch_stage e (st w)) WinnerSelection)) as [[]|]; [|reflexivity]. cbn [bind].
  destruct (require (fl_selected (st w))) as [[]|]; [|reflexivity]. cbn [bind].
  destruct (require (negb (fl_additional (st w)))) as [[]|]; [|reflexivity]. cbn [bind].
  assert (Hnft : forall b1 w1 r,
    (do x <- select_nft_winners H b1 (Tw su cs p w1) r;
     let '(w2, r2, completed, _) := x in
     if completed then Ok (set_st (set_claimable_nft w2) (st (set_claimable_nft w2) <| fl_additional := true |>), 0)
     else Ok (set_st w2 (st w2 <| op := OpExtra (XCombNft r2) |>), 1)) =
    mapT su cs p
      (do x <- select_nft_winners H b1 w1 r;
       let '(w2, r2, completed, _) := x in
       if completed then Ok (set_st (set_claimable_nft w2) (st (set_claimable_nft w2) <| fl_additional := true |>), 0)
       else Ok (set_st w2 (st w2 <| op := OpExtra (XCombNft r2) |>), 1))).
  { intros b1 w1 r. rewrite select_nft_winners_T.
    destruct (select_nft_winners H b1 w1 r) as [[[[wa oa] da] ba]|]; [|reflexivity]. cbn [bind]. destruct da; reflexivity. }
  assert (Hgt : forall wl o,
    (do ph1 <- (do r <- gt_distribution H false b (Tw su cs p wl) o;
                let '(w1, o1, completed, b1) := r in
                if completed then let w2 := finish_gt w1 o1 in let (rn, w3) := rng_default w2 in Ok (w3, Some rn, b1)
                else Ok (set_st w1 (st w1 <| op := OpExtra (XCombGt o1) |>), None, b1));
     let '(w1, orng, b1) := ph1 in
     match orng with
     | None => Ok (w1, 1)
     | Some r =>
         do x <- select_nft_winners H b1 w1 r;
         let '(w2, r2, completed, _) := x in
         if completed then Ok (set_st (set_claimable_nft w2) (st (set_claimable_nft w2) <| fl_additional := true |>), 0)
         else Ok (set_st w2 (st w2 <| op := OpExtra (XCombNft r2) |>), 1)
     end) =
    mapT su cs p
    (do ph1 <- (do r <- gt_distribution H false b wl o;
                let '(w1, o1, completed, b1) := r in
                if completed then let w2 := finish_gt w1 o1 in let (rn, w3) := rng_default w2 in Ok (w3, Some rn, b1)
                else Ok (set_st w1 (st w1 <| op := OpExtra (XCombGt o1) |>), None, b1));
     let '(w1, orng, b1) := ph1 in
     match orng with
     | None => Ok (w1, 1)
     | Some r =>
         do x <- select_nft_winners H b1 w1 r;
         let '(w2, r2, completed, _) := x in
         if completed then Ok (set_st (set_claimable_nft w2) (st (set_claimable_nft w2) <| fl_additional := true |>), 0)
         else Ok (set_st w2 (st w2 <| op := OpExtra (XCombNft r2) |>), 1)
     end)).
  { intros wl o. rewrite (gt_distribution_T H).
    destruct (gt_distribution H false b wl o) as [[[[wa oa] da] ba]|]; [|reflexivity]. cbn [bind].
    destruct da.
    - change (finish_gt (Tw su cs p wa) oa) with (Tw su cs p (finish_gt wa oa)).
      rewrite rng_default_Tw. destruct (rng_default (finish_gt wa oa)) as [rn w3]. cbn [bind]. apply Hnft.
    - cbn [bind]. reflexivity. }
  destruct (op (st w)) as [| | |d]; try reflexivity.
  - rewrite rng_default_Tw. destruct (rng_default w) as [r0 wl]. cbn [bind].
    change (set_st (Tw su cs p wl) (st (Tw su cs p wl) <| op := OpNone |>)) with (Tw su cs p (set_st wl (st wl <| op := OpNone |>))).
    apply Hgt.
  - destruct d; try reflexivity; cbn [bind].
    + change (set_st (Tw su cs p w) (st (Tw su cs p w) <| op := OpNone |>)) with (Tw su cs p (set_st w (st w <| op := OpNone |>))).
      apply Hgt.
    + change (set_st (Tw su cs p w) (st (Tw su cs p w) <| op := OpNone |>)) with (Tw su cs p (set_st w (st w <| op := OpNone |>))).
      apply Hnft.
Qed.
End HInterNft.

Section HNftNoisy.
Variable H : list N -> list N.

Theorem select_nft_noisy_complete wa wp su0 cs0 p0 wk e b wf x :
  noisyT (select_nft_winners_endpoint H) wa wk -> wa = Tw su0 cs0 p0 wp -> open_flags wp ->
  select_nft_winners_endpoint H e b wk = Ok (wf, x) ->
  exists l wq su cs p wpure, after_interrupted (select_nft_winners_endpoint H) l wp = Some wq /\
                             select_nft_winners_endpoint H e b wq = Ok (wpure, x) /\ wf = Tw su cs p wpure.
Proof.
  intros Hn Hwa Hf E.
  eapply (noisyT_complete (select_nft_winners_endpoint H) false); eauto.
  - intros su cs p e0 b0 w Hf0 _. apply select_nft_endpoint_T; assumption.
  - discriminate.
  - intros e0 b0 w w1 E0. destruct (select_nft_endpoint_tf H _ _ _ _ _ E0) as (Ht & _ & Hs & _ & Ha).
    split; [apply terms_paused; exact Ht|]. unfold open_flags. rewrite Hs, (Ha ltac:(discriminate)). auto.
  - discriminate.
Qed.

Theorem secondary_noisy_complete wa wp su0 cs0 p0 wk e b wf x :
  noisyT (secondary_selection_step H) wa wk -> wa = Tw su0 cs0 p0 wp -> open_flags wp ->
  secondary_selection_step H e b wk = Ok (wf, x) ->
  exists l wq su cs p wpure, after_interrupted (secondary_selection_step H) l wp = Some wq /\
                             secondary_selection_step H e b wq = Ok (wpure, x) /\ wf = Tw su cs p wpure.
Proof.
  intros Hn Hwa Hf E.
  eapply (noisyT_complete (secondary_selection_step H) false); eauto.
  - intros su cs p e0 b0 w Hf0 _. apply secondary_T; assumption.
  - discriminate.
  - intros e0 b0 w w1 E0. destruct (secondary_tf H _ _ _ _ _ E0) as (Ht & _ & Hs & _ & Ha).
    split; [apply terms_paused; exact Ht|]. unfold open_flags. rewrite Hs, (Ha ltac:(discriminate)). auto.
  - discriminate.
Qed.
End HNftNoisy.
