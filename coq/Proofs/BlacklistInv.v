(** * C10 from deployment (launchpad, launchpad-locked-tokens): along every set-up history a blacklisted
    participant has no confirmed ticket; hence after filterTickets it owns no ticket range, holds no
    ticket in the draw and its claim is rejected. *)
From LP Require Import Proofs.Tactics Proofs.LedgerBase Proofs.Loop Proofs.Gates Proofs.Frames Proofs.Filter
  Proofs.Alloc Proofs.Confirm Proofs.Settle Proofs.Ledger Proofs.Resume Proofs.Partition Proofs.Lifecycle Proofs.Setup Proofs.Tiling.
Open Scope N_scope.

Definition BlInv (w : world) : Prop := forall a, blacklisted (st w) a = true -> confirmed (st w) a = 0.

Lemma alloc_all_cb : forall l s, confirmed (alloc_all s l) = confirmed s /\ blacklisted (alloc_all s l) = blacklisted s.
Proof.
  induction l as [|[a n] l IH]; intros s; cbn [alloc_all]; [auto|].
  destruct (IH (alloc_one s a n)) as [-> ->]. unfold alloc_one. cbn. auto.
Qed.

Lemma blacklist_loop_BlInv e : forall l w w', blacklist_loop e w l = Ok w' -> BlInv w -> BlInv w'.
Proof.
  induction l as [|x l IH]; intros w w' E Hi; [cbn in E; inversion E; subst; exact Hi|].
  rewrite blacklist_loop_cons in E. apply bind_ok in E. destruct E as (w1 & H1 & E).
  apply (IH _ _ E). apply bl_one_spec in H1. cbn zeta in H1.
  destruct H1 as (_ & _ & _ & Hc0 & Hoth & _).
  intros a Ha. destruct (N.eq_dec a x) as [->|Hne]; [exact Hc0|].
  destruct (Hoth a Hne) as [Hca Hba]. rewrite Hca. apply Hi. rewrite <- Hba. exact Ha.
Qed.

Section HBl.
Variable H : list N -> list N.

Ltac open_plain E w0 :=
  unfold exec in E; cbn [payable] in E; fold w0 in E;
  apply bind_ok in E; destruct E as (?u & ?Hnp & E); apply no_payment_nil in Hnp; rewrite Hnp in E;
  cbn [credit_payment bind] in E; cbn [dispatch] in E; unfold ret0 in E; mon_inv.

Theorem BlInv_exec e b sd w c w' r :
  BlInv w -> setup_call c -> pay_wf (pay e) ->
  exec H Base e b sd w c = Ok (w', r) -> BlInv w'.
Proof.
  intros Hi Hc Hwf E.
  set (w0 := w <| evs := [] |> <| rlog := [] |> <| locks := [] |> <| seeds := sd |>).
  assert (Hi0 : BlInv w0) by exact Hi.
  destruct Hc as [la Hpos Hsc | | n | | | r0 | r0 | r0 | a | la Hsc | a].
  - open_plain E w0.
    match goal with Hd : add_tickets _ _ _ = Ok _ |- _ => unfold add_tickets in Hd; mon_inv end.
    match goal with Hd : add_tickets_loop _ _ = Ok _ |- _ => apply add_tickets_loop_spec in Hd; destruct Hd as (-> & _) end.
    unfold BlInv. rewrite st_set_st. destruct (alloc_all_cb la (st w0)) as [-> ->]. exact Hi0.
  - unfold exec in E. cbn [payable] in E. fold w0 in E. cbn [bind] in E.
    apply bind_ok in E. destruct E as (w1 & Hcr & E).
    cbn [dispatch] in E. unfold ret0 in E. mon_inv.
    match goal with Hd : deposit_launchpad_tokens _ _ _ = Ok _ |- _ => apply (deposit_iff _ _ _ _ Hwf) in Hd; destruct Hd as (_ & _ & _ & ->) end.
    pose proof (credit_payment_st _ _ _ _ Hcr) as Hs1. unfold BlInv. rewrite st_set_st, Hs1. exact Hi0.
  - apply (exec_confirm_iff H Base e b sd w n w' r Hwf) in E. destruct E as (w1 & Hcr & Hcond & -> & _).
    pose proof (credit_payment_st _ _ _ _ Hcr) as Hs1. unfold reset_outputs in Hs1. cbn in Hs1.
    destruct Hcond as (_ & _ & _ & _ & Hnb & _).
    unfold BlInv, confirm_effect. rewrite st_emit, st_set_st, Hs1. cbn. intros a Ha.
    unfold upd. destruct (N.eqb_spec a (caller e)) as [->|Hne]; [congruence|apply Hi; exact Ha].
  - open_plain E w0.
    match goal with Hd : pause_endpoint _ _ = Ok _ |- _ => apply gate_pause in Hd; destruct Hd as (_ & Hs & _) end.
    unfold BlInv. rewrite Hs. exact Hi0.
  - open_plain E w0.
    match goal with Hd : unpause_endpoint _ _ = Ok _ |- _ => apply gate_unpause in Hd; destruct Hd as (_ & Hs & _) end.
    unfold BlInv. rewrite Hs. exact Hi0.
  - open_plain E w0.
    match goal with Hd : set_confirmation_period_start_round _ _ _ = Ok _ |- _ => apply gate_set_conf in Hd; destruct Hd as (_ & _ & _ & Hs & _) end.
    unfold BlInv. rewrite Hs. exact Hi0.
  - open_plain E w0.
    match goal with Hd : set_winner_selection_start_round _ _ _ = Ok _ |- _ => apply gate_set_ws in Hd; destruct Hd as (_ & _ & _ & Hs & _) end.
    unfold BlInv. rewrite Hs. exact Hi0.
  - open_plain E w0.
    match goal with Hd : set_claim_start_round _ _ _ = Ok _ |- _ => apply gate_set_claim in Hd; destruct Hd as (_ & _ & _ & Hs & _) end.
    unfold BlInv. rewrite Hs. exact Hi0.
  - open_plain E w0.
    match goal with Hd : set_support_address _ _ _ = Ok _ |- _ => unfold set_support_address in Hd; mon_inv end.
    exact Hi0.
  - unfold exec in E. cbn [payable] in E. fold w0 in E.
    apply bind_ok in E. destruct E as (u & Hnp & E). apply no_payment_nil in Hnp. rewrite Hnp in E. cbn [credit_payment bind] in E.
    cbn [dispatch] in E. unfold ret0, blacklist_endpoint in E. cbn [has_nft] in E. mon_inv.
    match goal with Hd : add_users_to_blacklist _ _ _ = Ok _ |- _ => unfold add_users_to_blacklist in Hd; mon_inv end.
    match goal with Hd : blacklist_loop _ _ _ = Ok _ |- _ => eapply blacklist_loop_BlInv; [exact Hd|exact Hi0] end.
  - open_plain E w0.
    match goal with Hd : set_launchpad_tokens_per_winning_ticket _ _ _ = Ok _ |- _ =>
      unfold set_launchpad_tokens_per_winning_ticket, try_set_tpt in Hd; mon_inv end.
    exact Hi0.
Qed.

Theorem setup_reach_BlInv v w : plain v -> setup_reach H v w -> BlInv w.
Proof.
  intros Hv. induction 1 as [e lp tpt0 ptok price0 nrw conf ws claim x s Hd Hlp | w e b sd c w' r _ IH Hc Hwf Hcs E].
  - unfold deploy in Hd.
    assert (Hb : blacklisted s = (fun _ => false)).
    { destruct Hv as [-> | ->]; cbn [has_nft is_v1 has_lock has_extra negb] in Hd; mon_inv;
        repeat match goal with Hl : lock_init _ _ _ _ _ = Ok _ |- _ => unfold lock_init in Hl; mon_inv end;
        match goal with Hinit : init_base _ _ _ _ _ _ _ _ _ _ = Ok _ |- _ =>
          unfold init_base, try_set_tpt, try_set_ticket_price, try_set_nr_winning in Hinit; mon_inv end;
        reflexivity. }
    intros a Ha. cbn in Ha. rewrite Hb in Ha. discriminate.
  - rewrite (exec_plain H v _ _ _ _ _ Hv Hc) in E. eapply BlInv_exec; eauto.
Qed.

Lemma layout_zero rg cf : forall A b a, Layout rg cf b A -> In a A -> cf a = 0 -> rg a = None.
Proof.
  induction A as [|x A IH]; intros b a Hl Hin Hz; [destruct Hin|].
  inversion Hl as [|? ? ? Hr Hl']; subst. destruct Hin as [->|Hin].
  - rewrite Hr, Hz. reflexivity.
  - eapply IH; eauto.
Qed.

(** from deployment: whoever is blacklisted when the filter completes owns no ticket afterwards and
    its claim is rejected *)
Theorem deployed_blacklisted_excluded v w0 lf wf ef bf w1 :
  plain v -> setup_reach H v w0 ->
  after_interrupted filter_tickets lf w0 = Some wf -> filter_tickets ef bf wf = Ok (w1, 0) ->
  forall a, blacklisted (st w0) a = true ->
    confirmed (st w1) a = 0 /\ range (st w1) a = None /\
    (forall sf e, caller e = a -> exists k, claim_launchpad_tokens sf e w1 = Err k).
Proof.
  intros Hv Hr Haf Ef a Ha.
  pose proof (setup_reach_BlInv v w0 Hv Hr a Ha) as Hc0.
  destruct (deployed_tiling H v w0 lf wf ef bf w1 Hv Hr Haf Ef) as (l & Hlay & _ & _ & Hcf & Hnone & _).
  assert (Hc1 : confirmed (st w1) a = 0) by (rewrite Hcf; exact Hc0).
  assert (Hr1 : range (st w1) a = None).
  { destruct (in_dec N.eq_dec a (map fst l)) as [Hin|Hn]; [eapply layout_zero; eauto|apply Hnone; exact Hn]. }
  split; [exact Hc1|]. split; [exact Hr1|].
  intros sf e He. apply claim_without_range_fails. rewrite He. exact Hr1.
Qed.
End HBl.
