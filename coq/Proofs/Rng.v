(** * The random number stream of [random.rs]: successive 4-byte big-endian words of a 32-byte seed
    that is replaced by its hash when exhausted.  [H] is arbitrary. *)
From LP Require Import Proofs.Tactics.
Open Scope N_scope.

Section Rng.
Variable H : list N -> list N.

(** the generator without the world (the world only logs the draw) *)
Definition rehash (r : rng) : rng :=
  if 32 <? r_index r + 4 then {| r_seed := H (r_seed r); r_index := 0 |} else r.
Definition rng_step (r : rng) : N * rng :=
  let r1 := rehash r in
  (word_at (r_seed r1) (r_index r1), {| r_seed := r_seed r1; r_index := r_index r1 + 4 |}).

Lemma next_usize_step w r :
  next_usize H w r =
  (fst (rng_step r), snd (rng_step r),
   w <| rlog := RDraw (r_seed (rehash r)) (r_index (rehash r)) (fst (rng_step r)) :: rlog w |>).
Proof. reflexivity. Qed.

Fixpoint rng_words (k : nat) (r : rng) : list N :=
  match k with
  | O => []
  | S k' => fst (rng_step r) :: rng_words k' (snd (rng_step r))
  end.
Fixpoint rng_end (k : nat) (r : rng) : rng :=
  match k with
  | O => r
  | S k' => rng_end k' (snd (rng_step r))
  end.

Lemma rng_words_app a b r : rng_words (a + b) r = rng_words a r ++ rng_words b (rng_end a r).
Proof. revert r; induction a as [|a IH]; intros r; cbn; [reflexivity|]. now rewrite IH. Qed.

Lemma rng_words_length k r : length (rng_words k r) = k.
Proof. revert r; induction k as [|k IH]; intros r; cbn; auto. Qed.

Fixpoint iterH (j : nat) (seed : list N) : list N :=
  match j with O => seed | S j' => iterH j' (H seed) end.

(** inside one seed: [k] draws starting at word [t] *)
Lemma rng_block sd : forall k t, (t + k <= 8)%nat ->
  rng_words k {| r_seed := sd; r_index := 4 * N.of_nat t |} =
    map (fun u => word_at sd (4 * N.of_nat u)) (seq t k) /\
  rng_end k {| r_seed := sd; r_index := 4 * N.of_nat t |} = {| r_seed := sd; r_index := 4 * N.of_nat (t + k) |}.
Proof.
  induction k as [|k IH]; intros t Ht.
  - cbn. replace (t + 0)%nat with t by lia. auto.
  - cbn [rng_words rng_end seq map].
    assert (Hs : rng_step {| r_seed := sd; r_index := 4 * N.of_nat t |} =
                 (word_at sd (4 * N.of_nat t), {| r_seed := sd; r_index := 4 * N.of_nat (S t) |})).
    { unfold rng_step, rehash. cbn [r_index r_seed].
      replace (32 <? 4 * N.of_nat t + 4) with false by (symmetry; apply N.ltb_ge; lia).
      cbn [r_index r_seed]. f_equal. f_equal. lia. }
    rewrite Hs. cbn [fst snd]. destruct (IH (S t) ltac:(lia)) as [Hw He].
    rewrite Hw, He. split; [reflexivity|]. f_equal. lia.
Qed.

Definition eight_words (sd : list N) : list N := map (fun u => word_at sd (4 * N.of_nat u)) (seq 0 8).

Lemma rng_eight sd :
  rng_words 8 {| r_seed := sd; r_index := 0 |} = eight_words sd /\
  rng_end 8 {| r_seed := sd; r_index := 0 |} = {| r_seed := sd; r_index := 32 |}.
Proof. exact (rng_block sd 8 0 ltac:(lia)). Qed.

(** an exhausted seed behaves like a fresh generator on its hash *)
Lemma rng_exhausted sd k :
  rng_words k {| r_seed := sd; r_index := 32 |} = rng_words k {| r_seed := H sd; r_index := 0 |}.
Proof. destruct k as [|k]; reflexivity. Qed.

Lemma iterH_S j seed : iterH (S j) seed = iterH j (H seed).
Proof. reflexivity. Qed.

(** The [8 m + t]-th raw number drawn from a fresh generator is the big-endian word [t] of the
    seed hashed [m] times. *)
Theorem rng_word_stream : forall m sd t k, (t < 8)%nat -> (8 * m + t < k)%nat ->
  nth (8 * m + t) (rng_words k {| r_seed := sd; r_index := 0 |}) 0 = word_at (iterH m sd) (4 * N.of_nat t).
Proof.
  induction m as [|m IH]; intros sd t k Ht Hk.
  - replace (8 * 0 + t)%nat with t by lia.
    replace k with (S t + (k - S t))%nat by lia. rewrite rng_words_app.
    rewrite app_nth1 by (rewrite rng_words_length; lia).
    destruct (rng_block sd (S t) 0 ltac:(lia)) as [Hw _].
    change (4 * N.of_nat 0) with 0 in Hw. rewrite Hw.
    rewrite (nth_indep _ 0 (word_at sd (4 * N.of_nat 0))) by (rewrite map_length, seq_length; lia).
    rewrite (map_nth (fun u => word_at sd (4 * N.of_nat u)) (seq 0 (S t)) 0%nat t).
    rewrite seq_nth by lia. reflexivity.
  - replace k with (8 + (k - 8))%nat by lia. rewrite rng_words_app.
    destruct (rng_eight sd) as [Hw He]. rewrite Hw, He.
    replace (8 * S m + t)%nat with (length (eight_words sd) + (8 * m + t))%nat
      by (unfold eight_words; rewrite map_length, seq_length; lia).
    rewrite app_nth2_plus. rewrite rng_exhausted. rewrite IH by lia. reflexivity.
Qed.

(** a fresh generator takes its seed from the call's environment and starts at index 0 *)
Lemma rng_default_fresh w sd rest :
  seeds w = sd :: rest ->
  rng_default w = ({| r_seed := sd; r_index := 0 |}, w <| seeds := rest |> <| rlog := RFresh :: rlog w |>).
Proof. unfold rng_default. intros ->. reflexivity. Qed.

End Rng.
