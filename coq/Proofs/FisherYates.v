(** * Textbook partial Fisher-Yates on an explicit list, and its combinatorics.
    [fy k arr words]: at each step pick the element at offset [x mod (length arr)], output it, move
    the head into the hole, continue with the tail.  Pure list theory (no contract state). *)
From Coq Require Import NArith List Lia Permutation.
From Coq Require Import ZArith ZifyBool ZifyNat ZifyN.
Import ListNotations.
Open Scope N_scope.
Ltac Zify.zify_post_hook ::= Z.div_mod_to_equations.

Fixpoint set_nth {A} (k : nat) (v : A) (l : list A) : list A :=
  match l, k with
  | [], _ => []
  | _ :: r, O => v :: r
  | a :: r, S k' => a :: set_nth k' v r
  end.

Lemma length_set_nth {A} k (v : A) l : length (set_nth k v l) = length l.
Proof. revert k; induction l as [|a l IH]; intros [|k]; cbn; auto. Qed.

Lemma nth_set_nth_same {A} k (v d : A) l : (k < length l)%nat -> nth k (set_nth k v l) d = v.
Proof. revert k; induction l as [|a l IH]; intros [|k] H; cbn in *; try lia; auto. apply IH; lia. Qed.

Lemma nth_set_nth_other {A} k j (v d : A) l : j <> k -> nth j (set_nth k v l) d = nth j l d.
Proof.
  revert k j; induction l as [|a l IH]; intros [|k] [|j] H; cbn; auto; try congruence.
Qed.

Lemma perm_set_nth (a d : N) : forall l k, (k < length l)%nat ->
  Permutation (nth k l d :: set_nth k a l) (a :: l).
Proof.
  induction l as [|b l IH]; intros [|k] H; cbn in *; try lia.
  - apply perm_swap.
  - eapply perm_trans; [apply perm_swap|].
    eapply perm_trans; [apply perm_skip, IH; lia|]. apply perm_swap.
Qed.

Definition offset (arr : list N) (x : N) : nat := N.to_nat (x mod N.of_nat (length arr)).
Definition pick (arr : list N) (x : N) : N := nth (offset arr x) arr 0.
Definition rest (arr : list N) (x : N) : list N := tl (set_nth (offset arr x) (hd 0 arr) arr).

Lemma offset_lt arr x : arr <> [] -> (offset arr x < length arr)%nat.
Proof. intros H. unfold offset. destruct arr; [congruence|]. cbn [length]. lia. Qed.

Lemma length_rest arr x : length (rest arr x) = pred (length arr).
Proof. unfold rest. destruct arr as [|a l]; [destruct (offset [] x); reflexivity|]. cbn [hd].
  destruct (offset (a :: l) x); cbn; [reflexivity|]. now rewrite length_set_nth. Qed.

(** one step keeps exactly the elements: picked :: rest is a permutation of arr *)
Lemma pick_rest_perm arr x : arr <> [] -> Permutation (pick arr x :: rest arr x) arr.
Proof.
  intros H. pose proof (offset_lt arr x H) as Hk. unfold pick, rest.
  destruct arr as [|a l]; [congruence|]. cbn [hd]. destruct (offset (a :: l) x) as [|k] eqn:E.
  - cbn. apply Permutation_refl.
  - cbn [set_nth tl nth]. cbn [length] in Hk. apply perm_set_nth. lia.
Qed.

Fixpoint fy (k : nat) (arr : list N) (words : list N) : list N * list N :=
  match k, words with
  | S k', x :: ws => let (wins, r) := fy k' (rest arr x) ws in (pick arr x :: wins, r)
  | _, _ => ([], arr)
  end.

Lemma fy_perm : forall k arr words, (k <= length arr)%nat -> (k <= length words)%nat ->
  let (wins, r) := fy k arr words in Permutation (wins ++ r) arr /\ length wins = k.
Proof.
  induction k as [|k IH]; intros arr words Hk Hw; cbn [fy].
  - split; [apply Permutation_refl | reflexivity].
  - destruct words as [|x ws]; [cbn in Hw; lia|].
    assert (Hne : arr <> []) by (destruct arr; cbn in Hk; [lia | congruence]).
    specialize (IH (rest arr x) ws). rewrite length_rest in IH. cbn in Hw.
    destruct (fy k (rest arr x) ws) as [wins r].
    destruct IH as [Hp Hl]; [lia | lia |]. split; [|cbn; lia].
    cbn [app]. eapply perm_trans; [apply perm_skip, Hp|]. now apply pick_rest_perm.
Qed.

Lemma NoDup_app_l {A} (l r : list A) : NoDup (l ++ r) -> NoDup l.
Proof.
  induction l as [|a l IH]; cbn; intros H; [constructor|].
  inversion H; subst. constructor; auto. intros Hin. apply H2. apply in_or_app; auto.
Qed.

(** the winners are distinct elements of the array *)
Corollary fy_winners_nodup k arr words :
  NoDup arr -> (k <= length arr)%nat -> (k <= length words)%nat ->
  NoDup (fst (fy k arr words)) /\ incl (fst (fy k arr words)) arr /\ length (fst (fy k arr words)) = k.
Proof.
  intros Hnd Hk Hw. pose proof (fy_perm k arr words Hk Hw) as H.
  destruct (fy k arr words) as [wins r]. destruct H as [Hp Hl]. cbn [fst].
  assert (Hnd' : NoDup (wins ++ r)) by (eapply Permutation_NoDup; [apply Permutation_sym, Hp | exact Hnd]).
  split; [|split; auto].
  - now apply NoDup_app_l in Hnd'.
  - intros t Ht. eapply Permutation_in; [exact Hp|]. apply in_or_app; auto.
Qed.

(** ** One-to-one: distinct residue vectors give distinct ordered selections *)
Definition bounded (n : nat) (os : list N) : Prop :=
  forall t, (t < length os)%nat -> nth t os 0 < N.of_nat (n - t).

Lemma NoDup_nth_inj (l : list N) i j :
  NoDup l -> (i < length l)%nat -> (j < length l)%nat -> nth i l 0 = nth j l 0 -> i = j.
Proof. intros H. rewrite (NoDup_nth l 0) in H. auto. Qed.

Lemma rest_nodup arr x : NoDup arr -> NoDup (rest arr x).
Proof.
  intros H. destruct arr as [|a l]; [unfold rest; destruct (offset [] x); constructor|].
  assert (Hp : Permutation (pick (a :: l) x :: rest (a :: l) x) (a :: l)) by (apply pick_rest_perm; congruence).
  apply Permutation_sym in Hp. pose proof (Permutation_NoDup Hp H) as H'. now inversion H'.
Qed.

Lemma bounded_tail n o os : bounded (S n) (o :: os) -> o < N.of_nat (S n) /\ bounded n os.
Proof.
  intros H. split.
  - specialize (H O). cbn in H. apply H. lia.
  - intros t Ht. specialize (H (S t)). cbn in H. apply H. lia.
Qed.

Theorem fy_injective : forall k arr os os',
  NoDup arr -> length arr = k -> length os = k -> length os' = k ->
  bounded k os -> bounded k os' ->
  fst (fy k arr os) = fst (fy k arr os') -> os = os'.
Proof.
  induction k as [|k IH]; intros arr os os' Hnd Hlen Ho Ho' Hb Hb' E.
  - destruct os, os'; cbn in *; congruence.
  - destruct os as [|o os]; [cbn in Ho; lia|]. destruct os' as [|o' os']; [cbn in Ho'; lia|].
    cbn [fy] in E.
    destruct (fy k (rest arr o) os) as [w1 r1] eqn:E1.
    destruct (fy k (rest arr o') os') as [w2 r2] eqn:E2. cbn [fst] in E. inversion E as [[Hpick Hw]].
    apply bounded_tail in Hb. destruct Hb as [Hob Hb]. apply bounded_tail in Hb'. destruct Hb' as [Hob' Hb'].
    assert (Hoo : o = o').
    { unfold pick in Hpick. apply NoDup_nth_inj in Hpick; auto.
      - unfold offset in Hpick. rewrite Hlen in Hpick.
        rewrite !N.mod_small in Hpick by assumption. lia.
      - apply offset_lt. destruct arr; cbn in Hlen; [lia|congruence].
      - apply offset_lt. destruct arr; cbn in Hlen; [lia|congruence]. }
    subst o'. f_equal.
    cbn [length] in Ho, Ho'.
    apply (IH (rest arr o)); auto; try lia.
    + now apply rest_nodup.
    + rewrite length_rest. lia.
    + rewrite E1, E2. exact Hw.
Qed.

(** ** Onto: every ordered selection of distinct elements is produced by some residue vector *)
Fixpoint index_of (t : N) (l : list N) : nat :=
  match l with
  | [] => O
  | a :: r => if a =? t then O else S (index_of t r)
  end.

Lemma index_of_spec t l : In t l -> (index_of t l < length l)%nat /\ nth (index_of t l) l 0 = t.
Proof.
  induction l as [|a l IH]; intros H; [destruct H|]. cbn.
  destruct (N.eqb_spec a t) as [->|Hne]; [split; [lia|reflexivity]|].
  destruct H as [H|H]; [congruence|]. destruct (IH H). split; [lia|assumption].
Qed.

Theorem fy_surjective : forall tgt arr,
  NoDup arr -> NoDup tgt -> incl tgt arr ->
  exists os, length os = length tgt /\
             (forall t, (t < length os)%nat -> nth t os 0 < N.of_nat (length arr - t)) /\
             fst (fy (length tgt) arr os) = tgt.
Proof.
  induction tgt as [|t tgt IH]; intros arr Hnd Hndt Hincl.
  - exists []. repeat split; auto. intros t Ht; cbn in Ht; lia.
  - assert (Hin : In t arr) by (apply Hincl; left; reflexivity).
    destruct (index_of_spec t arr Hin) as [Hlt Hnth].
    set (o := N.of_nat (index_of t arr)).
    assert (Hoff : offset arr o = index_of t arr).
    { unfold offset, o. rewrite N.mod_small by lia. lia. }
    assert (Hpick : pick arr o = t) by (unfold pick; now rewrite Hoff).
    assert (Hne : arr <> []) by (destruct arr; [destruct Hin | congruence]).
    pose proof (pick_rest_perm arr o Hne) as Hp. rewrite Hpick in Hp.
    apply NoDup_cons_iff in Hndt. destruct Hndt as [Hnotin Hndt'].
    destruct (IH (rest arr o)) as (os & Hlen & Hb & Hfy).
    + now apply rest_nodup.
    + assumption.
    + intros u Hu. assert (Hu' : In u (t :: rest arr o)).
      { eapply Permutation_in; [apply Permutation_sym, Hp|]. apply Hincl. now right. }
      destruct Hu' as [->|]; [contradiction|assumption].
    + exists (o :: os). split; [cbn; lia|]. split.
      * intros [|j] Hj; cbn.
        -- unfold o. lia.
        -- rewrite length_rest in Hb. cbn in Hj. specialize (Hb j ltac:(lia)).
           replace (length arr - S j)%nat with (pred (length arr) - j)%nat by lia. exact Hb.
      * cbn [length fy]. destruct (fy (length tgt) (rest arr o) os) as [w r] eqn:E.
        cbn [fst] in *. now rewrite Hpick, Hfy.
Qed.

(** Symmetry: for any two elements there is a bijection of bounded residue vectors that exchanges
    "a wins" and "b wins" (so under uniform residues every element is equally likely to win). It
    follows from injectivity and surjectivity: the residue vector producing a selection with a and
    b exchanged. *)
Definition swap_ab (a b t : N) : N := if t =? a then b else if t =? b then a else t.

Lemma swap_ab_invol a b t : swap_ab a b (swap_ab a b t) = t.
Proof.
  unfold swap_ab. destruct (N.eqb_spec t a) as [->|Ha].
  - destruct (N.eqb_spec b a) as [->|Hb]; [reflexivity|]. now rewrite N.eqb_refl.
  - destruct (N.eqb_spec t b) as [->|Hb].
    + now rewrite N.eqb_refl.
    + destruct (N.eqb_spec t a); [congruence|]. destruct (N.eqb_spec t b); congruence.
Qed.

Lemma swap_ab_inj a b x y : swap_ab a b x = swap_ab a b y -> x = y.
Proof. intros H. rewrite <- (swap_ab_invol a b x), <- (swap_ab_invol a b y). now f_equal. Qed.

Lemma NoDup_map_swap a b l : NoDup l -> NoDup (map (swap_ab a b) l).
Proof.
  induction 1 as [|x l Hx Hl IH]; cbn; constructor; auto.
  intros Hin. apply in_map_iff in Hin. destruct Hin as (y & Hy & Hiny).
  apply swap_ab_inj in Hy. subst. contradiction.
Qed.

Theorem fy_symmetric : forall k arr a b os,
  NoDup arr -> In a arr -> In b arr -> (k <= length arr)%nat -> length os = k ->
  exists os', length os' = k /\
              (forall t, (t < length os')%nat -> nth t os' 0 < N.of_nat (length arr - t)) /\
              fst (fy k arr os') = map (swap_ab a b) (fst (fy k arr os)).
Proof.
  intros k arr a b os Hnd Ha Hb Hk Hos.
  destruct (fy_winners_nodup k arr os Hnd Hk ltac:(lia)) as (Hndw & Hincl & Hlen).
  destruct (fy_surjective (map (swap_ab a b) (fst (fy k arr os))) arr Hnd) as (os' & Hl & Hbd & Hfy).
  - now apply NoDup_map_swap.
  - intros t Ht. apply in_map_iff in Ht. destruct Ht as (y & <- & Hy). unfold swap_ab.
    destruct (y =? a); [assumption|]. destruct (y =? b); [assumption|]. now apply Hincl.
  - rewrite map_length, Hlen in *. exists os'. auto.
Qed.
