(** * The side condition "allocations of at least one ticket" of the set-up histories is implied by
    acceptance: since the repair of finding F10 [try_create_tickets] rejects an allocation of zero
    tickets, so every accepted allocation transaction extends a set-up history.  (The v2 allocation
    skips zero allowances; its rule never had the side condition.) *)
From LP Require Import Proofs.Tactics Proofs.Alloc Proofs.Confirm Proofs.Setup Proofs.SetupGt Proofs.SetupNft Proofs.SetupNgt.
Open Scope N_scope.

Lemma try_create_positive s a n s' : try_create_tickets s a n = Ok s' -> 0 < n.
Proof.
  unfold try_create_tickets. intros E. apply bind_ok in E. destruct E as (u & Hp & _).
  apply require_ok' in Hp. now apply N.ltb_lt.
Qed.

Lemma add_tickets_loop_positive : forall l s s', add_tickets_loop s l = Ok s' -> Forall (fun x => 0 < snd x) l.
Proof.
  induction l as [|[a n] l IH]; intros s s' E; [constructor|]. cbn [add_tickets_loop] in E.
  apply bind_ok in E. destruct E as (u & _ & E). apply bind_ok in E. destruct E as (s1 & H1 & E).
  constructor; [cbn; eapply try_create_positive; eauto|eapply IH; eauto].
Qed.

Lemma add_one_v1_positive minc s tw tg buyer staking energy mig acc' :
  add_one_v1 minc (s, tw, tg) (buyer, staking, energy, mig) = Ok acc' -> 0 < staking + energy.
Proof.
  unfold add_one_v1. intros E.
  apply bind_ok in E. destruct E as (u1 & _ & E). apply bind_ok in E. destruct E as (u2 & _ & E).
  apply bind_ok in E. destruct E as (s1 & Hc & _). eapply try_create_positive; eauto.
Qed.

Lemma add_loop_v1_positive minc : forall lx acc acc',
  add_loop_v1 minc acc lx = Ok acc' -> Forall (fun x => 0 < snd x) (v1_sizes lx).
Proof.
  induction lx as [|[[[buyer staking] energy] mig] lx IH]; intros [[s tw] tg] acc' E; [constructor|].
  cbn [add_loop_v1] in E. apply bind_ok in E. destruct E as ([[s1 tw1] tg1] & H1 & E).
  cbn [v1_sizes map fst snd]. constructor; [cbn; eapply add_one_v1_positive; eauto|eapply IH; eauto].
Qed.

Section HAll.
Variable H : list N -> list N.

Lemma exec_add_positive v e b sd w la w' r :
  exec H v e b sd w (CAddTickets la) = Ok (w', r) -> Forall (fun x => 0 < snd x) la.
Proof.
  intros E. unfold exec in E. cbn [payable] in E.
  apply bind_ok in E. destruct E as (u & _ & E). apply bind_ok in E. destruct E as (w1 & _ & E).
  cbn [dispatch] in E.
  assert (Ha : exists w2, add_tickets e w1 la = Ok w2).
  { destruct v; try discriminate; unfold ret0 in E; mon_inv; eauto. }
  destruct Ha as (w2 & Ha). unfold add_tickets in Ha. mon_inv. eapply add_tickets_loop_positive; eauto.
Qed.

Lemma exec_add_v1_positive v e b sd w lx w' r :
  exec H v e b sd w (CAddTicketsV1 lx) = Ok (w', r) -> Forall (fun x => 0 < snd x) (v1_sizes lx).
Proof.
  intros E. unfold exec in E. cbn [payable] in E.
  apply bind_ok in E. destruct E as (u & _ & E). apply bind_ok in E. destruct E as (w1 & _ & E).
  cbn [dispatch] in E. destruct (is_v1 v); [|discriminate]. unfold ret0 in E. mon_inv.
  match goal with Ha : add_tickets_v1 _ _ _ = Ok _ |- _ => unfold add_tickets_v1 in Ha; mon_inv end.
  eapply add_loop_v1_positive; eauto.
Qed.

(** every accepted allocation transaction extends the set-up history *)
Theorem setup_reach_add_any v w e b sd la w' r :
  setup_reach H v w -> ~ In sc_addr (map fst la) -> pay_wf (pay e) -> caller e <> sc_addr ->
  exec H v e b sd w (CAddTickets la) = Ok (w', r) -> setup_reach H v w'.
Proof.
  intros Hr Hsc Hwf Hcs E. eapply sr_step; [exact Hr| |exact Hwf|exact Hcs|exact E].
  apply sc_add; [eapply exec_add_positive; eauto|exact Hsc].
Qed.

Theorem setup_reach_gt_add_any v w e b sd lx w' r :
  setup_reach_gt H v w -> ~ In sc_addr (map fst (v1_sizes lx)) ->
  exec H v e b sd w (CAddTicketsV1 lx) = Ok (w', r) -> setup_reach_gt H v w'.
Proof.
  intros Hr Hsc E. eapply sg_add_v1; [exact Hr| |exact Hsc|exact E]. eapply exec_add_v1_positive; eauto.
Qed.

Theorem setup_reach_nft_add_any w e b sd la w' r :
  setup_reach_nft H w -> ~ In sc_addr (map fst la) -> pay_wf (pay e) -> caller e <> sc_addr ->
  exec H Nft e b sd w (CAddTickets la) = Ok (w', r) -> setup_reach_nft H w'.
Proof.
  intros Hr Hsc Hwf Hcs E. eapply sn_step; [exact Hr| |exact Hwf|exact Hcs|exact E].
  apply sc_add; [eapply exec_add_positive; eauto|exact Hsc].
Qed.

Theorem setup_reach_ngt_add_any w e b sd lx w' r :
  setup_reach_ngt H w -> ~ In sc_addr (map fst (v1_sizes lx)) ->
  exec H Ngt e b sd w (CAddTicketsV1 lx) = Ok (w', r) -> setup_reach_ngt H w'.
Proof.
  intros Hr Hsc E. eapply sgn_add_v1; [exact Hr| |exact Hsc|exact E]. eapply exec_add_v1_positive; eauto.
Qed.
End HAll.
