(** * C08 from deployment: after filterTickets - interrupted arbitrarily often - the ranges of the
    participants tile 1..total in allocation order, each as long as the participant's confirmed
    tickets, for every set-up history of every contract. *)
From LP Require Import Proofs.Tactics Proofs.Loop Proofs.Resume Proofs.Filter Proofs.Partition Proofs.Lifecycle
  Proofs.Setup Proofs.SetupGt Proofs.SetupNft Proofs.SetupNgt.
Open Scope N_scope.

Theorem filter_from_PreSel l w0 lf wf ef bf w1 :
  PreSel w0 l ->
  after_interrupted filter_tickets lf w0 = Some wf -> filter_tickets ef bf wf = Ok (w1, 0) ->
  let A := map fst l in
  Layout (range (st w1)) (confirmed (st w1)) 0 A /\ NoDup A /\
  last_ticket_id (st w1) = sumN (map (confirmed (st w1)) A) /\
  confirmed (st w1) = confirmed (st w0) /\
  (forall a, ~ In a A -> range (st w1) a = None) /\
  nr_winning (st w1) = N.min (nr_winning (st w0)) (sumN (map (confirmed (st w0)) A)).
Proof.
  intros [Hop Hch Hown Hnd Hcf Hfresh Hpay Hnone] Haf Ef. cbn zeta.
  assert (Hfok : filter_op_ok (st w0)) by (unfold filter_op_ok; rewrite Hop; exact I).
  rewrite (filter_multi_resume lf w0 wf ef bf Hfok Haf) in Ef.
  destruct (filter_gives_layout _ _ _ _ l Hop Hch Hown Hnd Hcf Ef) as (Hlay & _ & Hlast).
  destruct (filter_tickets_completed _ _ _ _ l Hop Hch Hown Hnd Hcf Ef)
    as (_ & Hlast1 & Hnw1 & Hfl1 & Hop1 & Hrg1 & Hother1 & Hcf1 & Hst1 & Hpos1 & Hbal1).
  split; [exact Hlay|]. split; [exact Hnd|]. split; [exact Hlast|]. split; [exact Hcf1|]. split.
  - intros a Ha. rewrite (Hother1 a Ha). apply Hnone. exact Ha.
  - rewrite map_map. exact Hnw1.
Qed.

Definition tiled (w0 w1 : world) (l : list (N * N)) : Prop :=
  let A := map fst l in
  Layout (range (st w1)) (confirmed (st w1)) 0 A /\ NoDup A /\
  last_ticket_id (st w1) = sumN (map (confirmed (st w1)) A) /\
  confirmed (st w1) = confirmed (st w0) /\
  (forall a, ~ In a A -> range (st w1) a = None) /\
  nr_winning (st w1) = N.min (nr_winning (st w0)) (sumN (map (confirmed (st w0)) A)).

Section HTiling.
Variable H : list N -> list N.

Theorem deployed_tiling v w0 lf wf ef bf w1 :
  plain v -> setup_reach H v w0 ->
  after_interrupted filter_tickets lf w0 = Some wf -> filter_tickets ef bf wf = Ok (w1, 0) ->
  exists l, tiled w0 w1 l.
Proof.
  intros Hv Hr Haf Ef. destruct (setup_reach_Pre H v w0 Hv Hr) as [l [Hsel _ _]]. exists l.
  exact (filter_from_PreSel l w0 lf wf ef bf w1 Hsel Haf Ef).
Qed.

Theorem deployed_tiling_gt v w0 lf wf ef bf w1 :
  guar v -> setup_reach_gt H v w0 ->
  after_interrupted filter_tickets lf w0 = Some wf -> filter_tickets ef bf wf = Ok (w1, 0) ->
  exists l, tiled w0 w1 l.
Proof.
  intros Hv Hr Haf Ef. destruct (setup_reach_gt_PreG H v w0 Hv Hr) as [l [[Hsel _ _] _]]. exists l.
  exact (filter_from_PreSel l w0 lf wf ef bf w1 Hsel Haf Ef).
Qed.

Theorem deployed_tiling_nft w0 lf wf ef bf w1 :
  setup_reach_nft H w0 ->
  after_interrupted filter_tickets lf w0 = Some wf -> filter_tickets ef bf wf = Ok (w1, 0) ->
  exists l, tiled w0 w1 l.
Proof.
  intros Hr Haf Ef. destruct (setup_reach_nft_PreN H w0 Hr) as (l & [Hsel _ _] & _). exists l.
  exact (filter_from_PreSel l w0 lf wf ef bf w1 Hsel Haf Ef).
Qed.

Theorem deployed_tiling_ngt w0 lf wf ef bf w1 :
  setup_reach_ngt H w0 ->
  after_interrupted filter_tickets lf w0 = Some wf -> filter_tickets ef bf wf = Ok (w1, 0) ->
  exists l, tiled w0 w1 l.
Proof.
  intros Hr Haf Ef. destruct (setup_reach_ngt_inv H w0 Hr) as (l & [[Hsel _ _] _] & _). exists l.
  exact (filter_from_PreSel l w0 lf wf ef bf w1 Hsel Haf Ef).
Qed.
End HTiling.
