(** * C02 from deployment for the contracts that pay winners at once (launchpad,
    launchpad-locked-tokens): through the set-up history (allocation, deposit, confirmations,
    blacklisting with refunds, pause, timeline / support / tokens-per-ticket transactions) the
    contract holds exactly the recorded deposit = tokens-per-ticket x configured winners; after
    filterTickets and selectWinners, interrupted arbitrarily, the cover invariant of the claim period
    holds. *)
From LP Require Import Proofs.Tactics Proofs.LedgerBase Proofs.Loop Proofs.Shuffle Proofs.Gates Proofs.Frames Proofs.Filter
  Proofs.Alloc Proofs.Confirm Proofs.Settle Proofs.Ledger Proofs.Stage Proofs.Resume Proofs.FisherYates Proofs.Rng
  Proofs.ClaimLedger Proofs.Partition Proofs.Lifecycle Proofs.Setup Proofs.CoverSteps.
Open Scope N_scope.

Definition lpside (s : state) := (lp_token s, tpt s, pay_token s, deposited s, total_deposited s, nr_winning s).

Record CovPre (w : world) : Prop := {
  cp_bal : bal w sc_addr (lp_token (st w)) 0 = total_deposited (st w);
  cp_dep : if deposited (st w) then total_deposited (st w) = tpt (st w) * nr_winning (st w)
           else total_deposited (st w) = 0;
  cp_tok : pay_token (st w) <> lp_token (st w)
}.

Lemma CovPre_frame w w' :
  CovPre w -> lpside (st w') = lpside (st w) ->
  bal w' sc_addr (lp_token (st w)) 0 = bal w sc_addr (lp_token (st w)) 0 -> CovPre w'.
Proof.
  intros [Hb Hd Ht] Hl Hbal. unfold lpside in Hl. inversion Hl as [[E1 E2 E3 E4 E5 E6]].
  constructor; rewrite ?E1, ?E2, ?E3, ?E4, ?E5, ?E6; try assumption. rewrite Hbal. exact Hb.
Qed.

Lemma add_tickets_loop_lpside : forall l s s', add_tickets_loop s l = Ok s' -> lpside s' = lpside s.
Proof.
  induction l as [|[buyer n] l IH]; intros s s' E; cbn [add_tickets_loop] in E; [inversion E; reflexivity|].
  apply bind_ok in E. destruct E as (u & _ & E).
  apply bind_ok in E. destruct E as (s1 & Hc & E).
  rewrite (IH _ _ E). unfold try_create_tickets in Hc. mon_inv. reflexivity.
Qed.

Lemma blacklist_loop_lpside e : forall l w w',
  blacklist_loop e w l = Ok w' -> pay_token (st w) <> lp_token (st w) ->
  lpside (st w') = lpside (st w) /\ bal w' sc_addr (lp_token (st w)) 0 = bal w sc_addr (lp_token (st w)) 0.
Proof.
  induction l as [|a l IH]; intros w w' E Htok; cbn [blacklist_loop] in E; [inversion E; auto|].
  apply bind_ok in E. destruct E as (u1 & _ & E). apply bind_ok in E. destruct E as (u2 & _ & E).
  apply bind_ok in E. destruct E as (w1 & H1 & E).
  assert (Hw1 : lpside (st w1) = lpside (st w) /\ bal w1 sc_addr (lp_token (st w)) 0 = bal w sc_addr (lp_token (st w)) 0).
  { destruct (0 <? confirmed (st w) a); [|inversion H1; auto].
    apply bind_ok in H1. destruct H1 as (w2 & Hrf & H1). inversion H1; subst w1; clear H1.
    unfold refund_ticket_payment in Hrf. destruct (confirmed (st w) a =? 0); [inversion Hrf; subst; auto|].
    apply bind_ok in Hrf. destruct Hrf as (w3 & Ht & Hrf). inversion Hrf; subst w2; clear Hrf.
    apply transfer_ok in Ht. destruct Ht as [_ ->]. rewrite st_set_st, st_emit, bal_set_st, bal_emit. cbn. split; [reflexivity|].
    apply bal_after_other; intros Hx; inversion Hx; congruence. }
  destruct Hw1 as [Hl1 Hb1].
  set (w1' := set_st w1 (st w1 <| blacklisted := upd (blacklisted (st w1)) a true |>)) in *.
  assert (Hl1' : lpside (st w1') = lpside (st w)) by (rewrite <- Hl1; reflexivity).
  assert (Htok' : pay_token (st w1') <> lp_token (st w1')).
  { unfold w1'. rewrite st_set_st. change (pay_token (st w1) <> lp_token (st w1)).
    unfold lpside in Hl1. inversion Hl1 as [[E1 E2 E3 E4 E5 E6]]. rewrite E1, E3. exact Htok. }
  destruct (IH _ _ E Htok') as [Hl2 Hb2]. split; [congruence|].
  assert (Hlp : lp_token (st w1') = lp_token (st w)).
  { change (lp_token (st w1) = lp_token (st w)). unfold lpside in Hl1. inversion Hl1; auto. }
  rewrite Hlp in Hb2. rewrite Hb2. exact Hb1.
Qed.

Lemma CovPre_ext w w' : st w' = st w -> bal w' = bal w -> CovPre w -> CovPre w'.
Proof. intros Hs Hb Hi. eapply CovPre_frame; [exact Hi|rewrite Hs; reflexivity|rewrite Hb; reflexivity]. Qed.

Section HSetupCover.
Variable H : list N -> list N.

Ltac open_plain E w0 :=
  unfold exec in E; cbn [payable] in E; fold w0 in E;
  apply bind_ok in E; destruct E as (?u & ?Hnp & E); apply no_payment_nil in Hnp; rewrite Hnp in E;
  cbn [credit_payment bind] in E; cbn [dispatch] in E; unfold ret0 in E; mon_inv.

Theorem CovPre_exec e b sd w c w' r :
  CovPre w -> setup_call c -> pay_wf (pay e) -> caller e <> sc_addr ->
  exec H Base e b sd w c = Ok (w', r) -> CovPre w'.
Proof.
  intros Hi Hc Hwf Hcs E.
  set (w0 := w <| evs := [] |> <| rlog := [] |> <| locks := [] |> <| seeds := sd |>).
  assert (Hi0 : CovPre w0) by (eapply CovPre_ext; [| |exact Hi]; reflexivity).
  destruct Hc as [la Hpos Hsc | | n | | | r0 | r0 | r0 | a | la Hsc | a].
  - open_plain E w0.
    match goal with Hd : add_tickets _ _ _ = Ok _ |- _ => unfold add_tickets in Hd; mon_inv end.
    match goal with Hd : add_tickets_loop _ _ = Ok _ |- _ => apply add_tickets_loop_lpside in Hd; rename Hd into Hl end.
    eapply CovPre_frame; [exact Hi0|rewrite st_set_st; exact Hl|reflexivity].
  - (* deposit *)
    unfold exec in E. cbn [payable] in E. fold w0 in E. cbn [bind] in E.
    apply bind_ok in E. destruct E as (w1 & Hcr & E).
    cbn [dispatch] in E. unfold ret0 in E. mon_inv.
    match goal with Hd : deposit_launchpad_tokens _ _ _ = Ok _ |- _ => apply (deposit_iff _ _ _ _ Hwf) in Hd; destruct Hd as (Hnd & Hp & Hlp & ->) end.
    pose proof (credit_payment_st _ _ _ _ Hcr) as Hs1.
    rewrite Hs1 in *.
    rewrite Hp in Hcr. apply credit_single in Hcr. apply transfer_ok in Hcr. destruct Hcr as [_ Hw1].
    destruct Hi0 as [Hbal Hdep Htok]. rewrite Hnd in Hdep.
    constructor; rewrite ?st_set_st, ?bal_set_st; cbn.
    + rewrite Hw1. cbn. rewrite bal_after_to by exact Hcs. cbn in Hbal, Hdep. rewrite Hbal, Hdep. lia.
    + reflexivity.
    + exact Htok.
  - (* confirmation *)
    apply (exec_confirm_iff H Base e b sd w n w' r Hwf) in E. destruct E as (w1 & Hcr & Hcond & -> & _).
    pose proof (credit_payment_st _ _ _ _ Hcr) as Hs1. unfold reset_outputs in Hs1. cbn in Hs1.
    destruct Hcond as (_ & _ & _ & _ & _ & _ & Hpay).
    assert (Hb1 : bal w1 sc_addr (lp_token (st w)) 0 = bal w sc_addr (lp_token (st w)) 0).
    { change (bal w) with (bal (reset_outputs w sd)).
      eapply credit_other_token; [exact Hcr|exact Hcs|].
      destruct Hpay as [->|(-> & _)]; [|constructor]. constructor; [|constructor]. cbn. exact (cp_tok _ Hi). }
    eapply CovPre_frame; [exact Hi|..]; unfold confirm_effect; rewrite ?st_emit, ?st_set_st, ?bal_emit, ?bal_set_st, ?Hs1; [reflexivity|exact Hb1].
  - open_plain E w0.
    match goal with Hd : pause_endpoint _ _ = Ok _ |- _ => apply gate_pause in Hd; destruct Hd as (_ & Hs & Hb) end.
    eapply CovPre_frame; [exact Hi0|..]; rewrite ?Hs, ?Hb; reflexivity.
  - open_plain E w0.
    match goal with Hd : unpause_endpoint _ _ = Ok _ |- _ => apply gate_unpause in Hd; destruct Hd as (_ & Hs & Hb) end.
    eapply CovPre_frame; [exact Hi0|..]; rewrite ?Hs, ?Hb; reflexivity.
  - open_plain E w0.
    match goal with Hd : set_confirmation_period_start_round _ _ _ = Ok _ |- _ => apply gate_set_conf in Hd; destruct Hd as (_ & _ & _ & Hs & _ & Hb) end.
    eapply CovPre_frame; [exact Hi0|..]; rewrite ?Hs, ?Hb; reflexivity.
  - open_plain E w0.
    match goal with Hd : set_winner_selection_start_round _ _ _ = Ok _ |- _ => apply gate_set_ws in Hd; destruct Hd as (_ & _ & _ & Hs & _ & Hb) end.
    eapply CovPre_frame; [exact Hi0|..]; rewrite ?Hs, ?Hb; reflexivity.
  - open_plain E w0.
    match goal with Hd : set_claim_start_round _ _ _ = Ok _ |- _ => apply gate_set_claim in Hd; destruct Hd as (_ & _ & _ & Hs & _ & Hb) end.
    eapply CovPre_frame; [exact Hi0|..]; rewrite ?Hs, ?Hb; reflexivity.
  - open_plain E w0.
    match goal with Hd : set_support_address _ _ _ = Ok _ |- _ => unfold set_support_address in Hd; mon_inv end.
    eapply CovPre_frame; [exact Hi0|..]; rewrite ?st_set_st, ?bal_set_st; reflexivity.
  - (* blacklisting *)
    unfold exec in E. cbn [payable] in E. fold w0 in E.
    apply bind_ok in E. destruct E as (u & Hnp & E). apply no_payment_nil in Hnp. rewrite Hnp in E. cbn [credit_payment bind] in E.
    cbn [dispatch] in E. unfold ret0, blacklist_endpoint in E. cbn [has_nft] in E. mon_inv.
    match goal with Hd : add_users_to_blacklist _ _ _ = Ok _ |- _ => unfold add_users_to_blacklist in Hd; mon_inv end.
    match goal with Hd : blacklist_loop _ _ _ = Ok _ |- _ => apply blacklist_loop_lpside in Hd; [destruct Hd as [Hl Hb]|exact (cp_tok _ Hi0)] end.
    eapply CovPre_frame; [exact Hi0|exact Hl|exact Hb].
  - (* tokens per ticket: only before the deposit *)
    open_plain E w0.
    match goal with Hd : set_launchpad_tokens_per_winning_ticket _ _ _ = Ok _ |- _ =>
      unfold set_launchpad_tokens_per_winning_ticket, try_set_tpt in Hd; mon_inv end.
    match goal with Hd : negb (deposited _) = true |- _ => apply negb_true_iff in Hd; rename Hd into Hnd end.
    destruct Hi0 as [Hbal Hdep Htok]. rewrite Hnd in Hdep.
    constructor; rewrite ?st_set_st, ?bal_set_st; cbn.
    + exact Hbal.
    + cbn in Hnd. rewrite Hnd. exact Hdep.
    + exact Htok.
Qed.

Corollary CovPre_exec_plain v e b sd w c w' r :
  plain v -> CovPre w -> setup_call c -> pay_wf (pay e) -> caller e <> sc_addr ->
  exec H v e b sd w c = Ok (w', r) -> CovPre w'.
Proof. intros Hv Hp Hc Hwf Hcs E. rewrite (exec_plain H v _ _ _ _ _ Hv Hc) in E. eapply CovPre_exec; eauto. Qed.

Lemma deploy_CovPre v e lp tpt0 ptok price0 nrw conf ws claim x s :
  plain v -> deploy v e lp tpt0 ptok price0 nrw conf ws claim x = Ok s -> lp <> egld -> CovPre (world0 s).
Proof.
  intros Hv E Hlp.
  destruct (deploy_Pre v e lp tpt0 ptok price0 nrw conf ws claim x s Hv E Hlp) as [_ Htok _].
  unfold deploy in E.
  assert (Hs : total_deposited s = 0 /\ deposited s = false).
  { destruct Hv as [-> | ->]; cbn [has_nft is_v1 has_lock has_extra negb] in E; mon_inv;
      repeat match goal with Hl : lock_init _ _ _ _ _ = Ok _ |- _ => unfold lock_init in Hl; mon_inv end;
      match goal with Hinit : init_base _ _ _ _ _ _ _ _ _ _ = Ok _ |- _ =>
        unfold init_base, try_set_tpt, try_set_ticket_price, try_set_nr_winning in Hinit; mon_inv end;
      cbn; split; reflexivity. }
  destruct Hs as [H5 H6].
  constructor; cbn [st bal world0].
  - rewrite H5. unfold init_bal. replace ((1 <=? sc_addr) && (sc_addr <=? 24)) with false by (vm_compute; reflexivity). reflexivity.
  - rewrite H6. exact H5.
  - exact Htok.
Qed.

Theorem setup_reach_CovPre v w : plain v -> setup_reach H v w -> CovPre w.
Proof.
  intros Hv. induction 1 as [e lp tpt0 ptok price0 nrw conf ws claim x s Hd Hlp | w e b sd c w' r _ IH Hc Hwf Hcs E].
  - eapply deploy_CovPre; eauto.
  - eapply CovPre_exec_plain; eauto.
Qed.

(** from deployment to the cover invariant of the claim period *)
Theorem deployed_cover v w0 lf wf ef bf w1 ls ws es bs w2 sd rest :
  plain v -> setup_reach H v w0 -> deposited (st w0) = true ->
  after_interrupted filter_tickets lf w0 = Some wf -> filter_tickets ef bf wf = Ok (w1, 0) ->
  seeds w1 = sd :: rest ->
  after_interrupted (select_winners H) ls w1 = Some ws -> select_winners H es bs ws = Ok (w2, 0) ->
  exists l : list (N * N),
    ClaimInv w2 (map fst l) /\ CoverInv w2 /\ pay_token (st w2) <> lp_token (st w2) /\
    bal w2 sc_addr (lp_token (st w2)) 0 = tpt (st w2) * nr_winning (st w0).
Proof.
  intros Hv Hr Hdep Haf Ef Hs Has Es.
  destruct (setup_reach_Pre H v w0 Hv Hr) as [l [Hsel _ _]]. exists l.
  pose proof (setup_reach_CovPre v w0 Hv Hr) as [Hbal Hd Htok]. rewrite Hdep in Hd.
  destruct (pipeline_to_claims H l w0 lf wf ef bf w1 ls ws es bs w2 sd rest Hsel Haf Ef Hs Has Es)
    as (Hci & _ & _ & Hn2 & _). cbn zeta in Hn2.
  pose proof Hsel as [Hop0 _ _ _ _ _ _ _].
  assert (Hfok : filter_op_ok (st w0)) by (unfold filter_op_ok; rewrite Hop0; exact I).
  rewrite (filter_multi_resume lf w0 wf ef bf Hfok Haf) in Ef.
  destruct (filter_tickets_only _ _ _ _ Ef) as ((rg & ba & nw & la & fs & Hs1) & Hb1).
  rewrite (select_multi_resume H ls w1 ws es bs Has) in Es.
  assert (Hop1 : op (st w1) = OpNone) by (rewrite Hs1; reflexivity).
  destruct (select_winners_only H _ _ _ _ Hop1 Es) as ((f2 & g2 & Hs2) & Hb2).
  assert (Hlp : lp_token (st w2) = lp_token (st w0)) by (rewrite Hs2, Hs1; reflexivity).
  assert (Htpt : tpt (st w2) = tpt (st w0)) by (rewrite Hs2, Hs1; reflexivity).
  assert (Hpt : pay_token (st w2) = pay_token (st w0)) by (rewrite Hs2, Hs1; reflexivity).
  assert (Hb : bal w2 sc_addr (lp_token (st w2)) 0 = tpt (st w2) * nr_winning (st w0)).
  { rewrite Hlp, Htpt, Hb2, Hb1, Hbal. exact Hd. }
  split; [exact Hci|]. split; [|split; [rewrite Hpt, Hlp; exact Htok|exact Hb]].
  unfold CoverInv. rewrite Hb, Hn2. nia.
Qed.

(** the configured number of winners is untouched by the set-up of these two contracts *)
Lemma setup_call_nrw e b sd w c w' r :
  setup_call c -> pay_wf (pay e) -> caller e <> sc_addr -> pay_token (st w) <> lp_token (st w) ->
  exec H Base e b sd w c = Ok (w', r) -> nr_winning (st w') = nr_winning (st w).
Proof.
  intros Hc Hwf Hcs Htok E.
  set (w0 := w <| evs := [] |> <| rlog := [] |> <| locks := [] |> <| seeds := sd |>).
  destruct Hc as [la Hpos Hsc | | n | | | r0 | r0 | r0 | a | la Hsc | a].
  - open_plain E w0.
    match goal with Hd : add_tickets _ _ _ = Ok _ |- _ => unfold add_tickets in Hd; mon_inv end.
    match goal with Hd : add_tickets_loop _ _ = Ok _ |- _ => apply add_tickets_loop_lpside in Hd; rename Hd into Hl end.
    rewrite st_set_st. unfold lpside in Hl. change (st w0) with (st w) in Hl. congruence.
  - unfold exec in E. cbn [payable] in E. fold w0 in E. cbn [bind] in E.
    apply bind_ok in E. destruct E as (w1 & Hcr & E).
    cbn [dispatch] in E. unfold ret0 in E. mon_inv.
    match goal with Hd : deposit_launchpad_tokens _ _ _ = Ok _ |- _ => apply (deposit_iff _ _ _ _ Hwf) in Hd; destruct Hd as (_ & _ & _ & ->) end.
    pose proof (credit_payment_st _ _ _ _ Hcr) as Hs1. rewrite st_set_st, Hs1. reflexivity.
  - apply (exec_confirm_iff H Base e b sd w n w' r Hwf) in E. destruct E as (w1 & Hcr & _ & -> & _).
    pose proof (credit_payment_st _ _ _ _ Hcr) as Hs1. unfold reset_outputs in Hs1. cbn in Hs1.
    unfold confirm_effect. rewrite st_emit, st_set_st, Hs1. reflexivity.
  - open_plain E w0.
    match goal with Hd : pause_endpoint _ _ = Ok _ |- _ => apply gate_pause in Hd; destruct Hd as (_ & Hs & _) end. rewrite Hs. reflexivity.
  - open_plain E w0.
    match goal with Hd : unpause_endpoint _ _ = Ok _ |- _ => apply gate_unpause in Hd; destruct Hd as (_ & Hs & _) end. rewrite Hs. reflexivity.
  - open_plain E w0.
    match goal with Hd : set_confirmation_period_start_round _ _ _ = Ok _ |- _ => apply gate_set_conf in Hd; destruct Hd as (_ & _ & _ & Hs & _) end. rewrite Hs. reflexivity.
  - open_plain E w0.
    match goal with Hd : set_winner_selection_start_round _ _ _ = Ok _ |- _ => apply gate_set_ws in Hd; destruct Hd as (_ & _ & _ & Hs & _) end. rewrite Hs. reflexivity.
  - open_plain E w0.
    match goal with Hd : set_claim_start_round _ _ _ = Ok _ |- _ => apply gate_set_claim in Hd; destruct Hd as (_ & _ & _ & Hs & _) end. rewrite Hs. reflexivity.
  - open_plain E w0.
    match goal with Hd : set_support_address _ _ _ = Ok _ |- _ => unfold set_support_address in Hd; mon_inv end. reflexivity.
  - unfold exec in E. cbn [payable] in E. fold w0 in E.
    apply bind_ok in E. destruct E as (u & Hnp & E). apply no_payment_nil in Hnp. rewrite Hnp in E. cbn [credit_payment bind] in E.
    cbn [dispatch] in E. unfold ret0, blacklist_endpoint in E. cbn [has_nft] in E. mon_inv.
    match goal with Hd : add_users_to_blacklist _ _ _ = Ok _ |- _ => unfold add_users_to_blacklist in Hd; mon_inv end.
    match goal with Hd : blacklist_loop _ _ _ = Ok _ |- _ => apply blacklist_loop_lpside in Hd; [destruct Hd as [Hl _]|exact Htok] end.
    unfold lpside in Hl. change (st w0) with (st w) in Hl. congruence.
  - open_plain E w0.
    match goal with Hd : set_launchpad_tokens_per_winning_ticket _ _ _ = Ok _ |- _ =>
      unfold set_launchpad_tokens_per_winning_ticket, try_set_tpt in Hd; mon_inv end. reflexivity.
Qed.

Theorem setup_reach_nrw v w : plain v -> setup_reach H v w ->
  exists e lp tpt0 ptok price0 nrw conf ws claim x s,
    deploy v e lp tpt0 ptok price0 nrw conf ws claim x = Ok s /\ nr_winning (st w) = nrw.
Proof.
  intros Hv. induction 1 as [e lp tpt0 ptok price0 nrw conf ws claim x s Hd Hlp | w e b sd c w' r Hr IH Hc Hwf Hcs E].
  - exists e, lp, tpt0, ptok, price0, nrw, conf, ws, claim, x, s. split; [exact Hd|].
    unfold deploy in Hd.
    destruct Hv as [-> | ->]; cbn [has_nft is_v1 has_lock has_extra negb] in Hd; mon_inv;
      repeat match goal with Hl : lock_init _ _ _ _ _ = Ok _ |- _ => unfold lock_init in Hl; mon_inv end;
      match goal with Hinit : init_base _ _ _ _ _ _ _ _ _ _ = Ok _ |- _ =>
        unfold init_base, try_set_tpt, try_set_ticket_price, try_set_nr_winning in Hinit; mon_inv end;
      reflexivity.
  - destruct IH as (e0 & lp & tpt0 & ptok & price0 & nrw & conf & ws & claim & x & s & Hd & Hn).
    exists e0, lp, tpt0, ptok, price0, nrw, conf, ws, claim, x, s. split; [exact Hd|].
    rewrite (exec_plain H v _ _ _ _ _ Hv Hc) in E.
    rewrite (setup_call_nrw _ _ _ _ _ _ _ Hc Hwf Hcs (cp_tok _ (setup_reach_CovPre v w Hv Hr)) E). exact Hn.
Qed.

(** C03 / C12 for the two contracts without guarantees, from deployment: the winners are the
    Fisher-Yates winners and their number is min(configured at deployment, confirmed tickets) *)
Theorem deployed_plain_winners v w0 lf wf ef bf w1 ls ws es bs w2 sd rest :
  plain v -> setup_reach H v w0 ->
  after_interrupted filter_tickets lf w0 = Some wf -> filter_tickets ef bf wf = Ok (w1, 0) ->
  seeds w1 = sd :: rest ->
  after_interrupted (select_winners H) ls w1 = Some ws -> select_winners H es bs ws = Ok (w2, 0) ->
  exists e lp tpt0 ptok price0 nrw conf wsr claim x s (l : list (N * N)),
    deploy v e lp tpt0 ptok price0 nrw conf wsr claim x = Ok s /\
    let total := sumN (map (confirmed (st w0)) (map fst l)) in
    let k := N.min nrw total in
    let wins := fst (fy (N.to_nat k) (range_ids 1 total) (rng_words H (N.to_nat k) {| r_seed := sd; r_index := 0 |})) in
    nr_winning (st w2) = k /\ (forall t, status (st w2) t = true <-> In t wins) /\ NoDup wins.
Proof.
  intros Hv Hr Haf Ef Hs Has Es.
  destruct (setup_reach_nrw v w0 Hv Hr) as (e & lp & tpt0 & ptok & price0 & nrw & conf & wsr & claim & x & s & Hd & Hn).
  destruct (deployed_pipeline H v w0 lf wf ef bf w1 ls ws es bs w2 sd rest Hv Hr Haf Ef Hs Has Es) as (l & Hp).
  cbn zeta in Hp. destruct Hp as (_ & _ & _ & Hk & Hst & Hnd & _).
  exists e, lp, tpt0, ptok, price0, nrw, conf, wsr, claim, x, s, l. split; [exact Hd|]. cbn zeta.
  rewrite <- Hn. auto.
Qed.

(** ... and to the end: any order of winners' claims and owner withdrawals afterwards keeps both
    ledgers; after the owner's (first) withdrawal the balance is exactly tokens-per-ticket x the winning
    tickets not yet claimed, zero when they all are.  [locked]: launchpad-locked-tokens, whose claims
    also need a lock contract other than the launchpad itself (not enforced at deployment). *)
Theorem deployed_cover_to_end v w0 lf wf ef bf w1 ls ws es bs w2 sd rest w3 :
  plain v -> setup_reach H v w0 -> deposited (st w0) = true ->
  let locked := match v with Lock => true | _ => false end in
  (locked = true -> lock_ok w0) ->
  after_interrupted filter_tickets lf w0 = Some wf -> filter_tickets ef bf wf = Ok (w1, 0) ->
  seeds w1 = sd :: rest ->
  after_interrupted (select_winners H) ls w1 = Some ws -> select_winners H es bs ws = Ok (w2, 0) ->
  csteps locked w2 w3 ->
  exists l : list (N * N),
    CInvs locked w3 (map fst l) /\
    (forall e w3' w4, caller e <> sc_addr -> claim_ticket_payment e w3 = Ok w3' -> csteps locked w3' w4 ->
       CInvs locked w4 (map fst l) /\ bal w4 sc_addr (lp_token (st w4)) 0 = tpt (st w4) * nr_winning (st w4) /\
       (nr_winning (st w4) = 0 -> bal w4 sc_addr (lp_token (st w4)) 0 = 0)).
Proof.
  intros Hv Hr Hdep locked Hlock Haf Ef Hs Has Es Hsteps.
  destruct (deployed_cover v w0 lf wf ef bf w1 ls ws es bs w2 sd rest Hv Hr Hdep Haf Ef Hs Has Es) as (l & Hci & Hcov & Htok & _).
  exists l.
  assert (Hlk2 : locked = true -> lock_ok w2).
  { intros Hx. destruct (Hlock Hx) as (A1 & A2 & A3).
    destruct (setup_reach_Pre H v w0 Hv Hr) as [l0 [Hsel _ _]].
    pose proof Hsel as [Hop0 _ _ _ _ _ _ _].
    assert (Hfok : filter_op_ok (st w0)) by (unfold filter_op_ok; rewrite Hop0; exact I).
    rewrite (filter_multi_resume lf w0 wf ef bf Hfok Haf) in Ef.
    destruct (filter_tickets_only _ _ _ _ Ef) as ((rg & ba & nw & la & fs & Hs1) & Hb1).
    rewrite (select_multi_resume H ls w1 ws es bs Has) in Es.
    assert (Hop1 : op (st w1) = OpNone) by (rewrite Hs1; reflexivity).
    destruct (select_winners_only H _ _ _ _ Hop1 Es) as ((f2 & g2 & Hs2) & Hb2).
    unfold lock_ok. rewrite Hs2, Hs1. cbn. auto. }
  assert (Hc2 : CInvs locked w2 (map fst l)) by (unfold CInvs; auto).
  destruct (Cover_steps locked w2 w3 _ Hc2 Hsteps) as [Hc3 _].
  split; [exact Hc3|].
  intros e w3' w4 Hne Eo Hs4. eapply Cover_after_owner; eauto.
Qed.
End HSetupCover.
