(** * From deployment to the end of the confirmation window (launchpad; the same endpoints serve
    launchpad-locked-tokens): every history of accepted allocation, deposit, confirmation, pause and
    timeline / support transactions keeps [PreSel], the hypothesis of the selection pipeline. *)
From Coq Require Import Permutation.
From LP Require Import Proofs.Tactics Proofs.LedgerBase Proofs.Loop Proofs.Shuffle Proofs.Gates Proofs.Frames Proofs.Filter
  Proofs.Alloc Proofs.Confirm Proofs.Settle Proofs.Ledger Proofs.Stage Proofs.Resume Proofs.FisherYates Proofs.Rng
  Proofs.ClaimLedger Proofs.Partition Proofs.Lifecycle Proofs.Examples.
Open Scope N_scope.

Record Pre (w : world) (l : list (N * N)) : Prop := {
  pre_sel : PreSel w l;
  pre_tok : pay_token (st w) <> lp_token (st w);
  pre_known : forall a, In a (map fst l) -> range (st w) a <> None
}.

(** ** helpers about [PayInv] *)
Lemma PayInv_extend w A a : PayInv w A -> ~ In a A -> a <> sc_addr -> PayInv w (A ++ [a]).
Proof.
  intros [Hnd Hsup Hsc Hbal] Hn Hne. constructor.
  - apply NoDup_snoc; assumption.
  - intros x Hx. apply Hsup. intros Hi. apply Hx. apply in_or_app. now left.
  - intros Hi. apply in_app_or in Hi. destruct Hi as [Hi|[Hi|[]]]; [contradiction|]. congruence.
  - rewrite Hbal. f_equal. unfold paysum. rewrite map_app. cbn [map]. rewrite (Hsup a Hn).
    clear. induction (map (confirmed (st w)) A) as [|x xs IH]; cbn [app]; rewrite ?sumN_cons; [cbn; lia|]. cbn [app] in IH. lia.
Qed.

Lemma PayInv_drop w A a : PayInv w (a :: A) -> confirmed (st w) a = 0 -> PayInv w A.
Proof.
  intros [Hnd Hsup Hsc Hbal] Hz. inversion Hnd as [|? ? Hna Hnd']; subst. constructor; auto.
  - intros x Hx. destruct (N.eq_dec x a) as [->|Hne]; [exact Hz|]. apply Hsup. intros [->|Hi]; [congruence|contradiction].
  - intros Hi. apply Hsc. now right.
  - rewrite Hbal. unfold paysum. cbn [map]. rewrite sumN_cons, Hz. reflexivity.
Qed.

(** ** allocation of a batch of participants with positive sizes *)
Lemma alloc_all_pre : forall la s l,
  Chain s (last_ticket_id s) 1 l -> Owned s 1 l -> NoDup (map fst l) ->
  (forall x, In x (map fst l) -> range s x <> None) ->
  NoDup (map fst la) -> (forall a, In a (map fst la) -> range s a = None) ->
  Forall (fun x => 0 < snd x) la ->
  let s' := alloc_all s la in
  Chain s' (last_ticket_id s') 1 (l ++ la) /\ Owned s' 1 (l ++ la) /\ NoDup (map fst (l ++ la)) /\
  (forall x, In x (map fst (l ++ la)) -> range s' x <> None).
Proof.
  induction la as [|[a n] la IH]; intros s l Hc Ho Hnd Hr Hndl Hnone Hpos; cbn zeta.
  - cbn [alloc_all]. rewrite app_nil_r. auto.
  - inversion Hndl as [|? ? Hna Hndl']; subst. inversion Hpos as [|? ? Hn Hpos']; subst. cbn [fst snd] in *.
    cbn [alloc_all].
    destruct (alloc_one_inv s l a n Hc Ho Hnd Hr (Hnone a (or_introl eq_refl))) as (Hc1 & Ho1 & Hnd1 & Hr1).
    replace (0 <? n) with true in * by (symmetry; apply N.ltb_lt; exact Hn).
    specialize (IH (alloc_one s a n) (l ++ [(a, n)]) Hc1 Ho1 Hnd1 Hr1 Hndl').
    rewrite <- app_assoc in IH. cbn [app] in IH. apply IH; [|exact Hpos'].
    intros x Hx. rewrite alloc_one_range_other; [apply Hnone; now right|]. intros ->. contradiction.
Qed.

Lemma alloc_all_frame : forall la s,
  let s' := alloc_all s la in
  status s' = status s /\ pos2id s' = pos2id s /\ confirmed s' = confirmed s /\ op s' = op s /\
  price s' = price s /\ pay_token s' = pay_token s /\ lp_token s' = lp_token s.
Proof.
  induction la as [|[a n] la IH]; intros s; cbn zeta; cbn [alloc_all]; [repeat split|].
  destruct (IH (alloc_one s a n)) as (A & B & C & D & E & F & G). rewrite A, B, C, D, E, F, G. repeat split.
Qed.

Lemma PayInv_extend_list w : forall la A,
  PayInv w A -> NoDup la -> (forall a, In a la -> ~ In a A /\ a <> sc_addr) -> PayInv w (A ++ la).
Proof.
  induction la as [|a la IH]; intros A Hp Hnd Hn; [rewrite app_nil_r; exact Hp|].
  inversion Hnd as [|? ? Hna Hnd']; subst.
  replace (A ++ a :: la) with ((A ++ [a]) ++ la) by (rewrite <- app_assoc; reflexivity).
  apply IH; [|exact Hnd'|].
  - destruct (Hn a (or_introl eq_refl)). apply PayInv_extend; assumption.
  - intros x Hx. destruct (Hn x (or_intror Hx)) as [H1 H2]. split; [|exact H2].
    intros Hi. apply in_app_or in Hi. destruct Hi as [Hi|[Hi|[]]]; [contradiction|]. subst. contradiction.
Qed.

Theorem Pre_add_tickets e w l la w' :
  Pre w l -> Forall (fun x => 0 < snd x) la -> ~ In sc_addr (map fst la) ->
  add_tickets e w la = Ok w' -> Pre w' (l ++ la).
Proof.
  intros [[Hop Hch Hown Hnd Hcf Hfresh Hpay Hnone] Htok Hknown] Hpos Hsc E.
  unfold add_tickets in E. apply bind_ok in E. destruct E as (u & _ & E).
  apply bind_ok in E. destruct E as (s' & Hloop & E). inversion E; subst w'; clear E.
  destruct (add_tickets_loop_spec _ _ _ Hloop) as (-> & Hndl & Hnew & _ & Hother & _).
  destruct (alloc_all_pre la (st w) l Hch Hown Hnd Hknown Hndl Hnew Hpos) as (Hc' & Ho' & Hnd' & Hk').
  destruct (alloc_all_frame la (st w)) as (Hs & Hp & Hc & Hopp & Hpr & Hpt & Hlp).
  assert (Hnewconf : forall a, In a (map fst la) -> confirmed (st w) a = 0 /\ ~ In a (map fst l)).
  { intros a Ha. assert (Hn : ~ In a (map fst l)) by (intros Hi; apply (Hknown a Hi); apply Hnew; exact Ha).
    split; [apply (pi_support _ _ Hpay); exact Hn | exact Hn]. }
  constructor; [constructor|..]; rewrite ?st_set_st.
  - congruence.
  - exact Hc'.
  - exact Ho'.
  - exact Hnd'.
  - rewrite Hc. apply Forall_app. split; [exact Hcf|].
    rewrite Forall_forall in *. intros [a n] Hin. cbn [fst snd].
    destruct (Hnewconf a (in_map fst _ _ Hin)) as [Hz _]. rewrite Hz. specialize (Hpos _ Hin). cbn in Hpos. lia.
  - destruct Hfresh as [A B]. split; intros; rewrite ?Hs, ?Hp; auto.
  - rewrite map_app. eapply PayInv_frame with (w := w).
    + apply PayInv_extend_list; [exact Hpay|exact Hndl|].
      intros a Ha. destruct (Hnewconf a Ha) as [_ Hn]. split; [exact Hn|]. intros ->. contradiction.
    + rewrite st_set_st, bal_set_st, Hpt. reflexivity.
    + rewrite st_set_st. exact Hpr.
    + intros a. rewrite st_set_st, Hc. reflexivity.
  - intros a Ha. rewrite map_app in Ha. rewrite Hother; [apply Hnone|]; intros Hi; apply Ha; apply in_or_app; auto.
  - congruence.
  - exact Hk'.
Qed.

(** [Pre] only looks at the contract state and the balances *)
Lemma PreSel_ext w w' l : st w' = st w -> bal w' = bal w -> PreSel w l -> PreSel w' l.
Proof.
  intros Hs Hb [Hop Hch Hown Hnd Hcf Hfresh Hpay Hnone]. constructor; rewrite ?Hs; auto.
  eapply PayInv_frame; [exact Hpay| rewrite Hs, Hb; reflexivity | rewrite Hs; reflexivity | intros; rewrite Hs; reflexivity].
Qed.
Lemma Pre_ext w w' l : st w' = st w -> bal w' = bal w -> Pre w l -> Pre w' l.
Proof. intros Hs Hb [A B C]. constructor; rewrite ?Hs; auto. eapply PreSel_ext; eauto. Qed.

(** a state change that touches none of the fields [Pre] reads *)
Definition neutral (s s' : state) : Prop :=
  op s' = op s /\ last_ticket_id s' = last_ticket_id s /\ batch s' = batch s /\ range s' = range s /\
  confirmed s' = confirmed s /\ status s' = status s /\ pos2id s' = pos2id s /\
  price s' = price s /\ pay_token s' = pay_token s /\ lp_token s' = lp_token s.

Lemma chain_neutral s s' last : batch s' = batch s -> forall f l, Chain s last f l -> Chain s' last f l.
Proof. intros Hb f l Hc. induction Hc; constructor; auto. rewrite Hb. assumption. Qed.

Lemma Pre_neutral_gen w w' l :
  neutral (st w) (st w') -> bal w' sc_addr (pay_token (st w)) 0 = bal w sc_addr (pay_token (st w)) 0 ->
  Pre w l -> Pre w' l.
Proof.
  intros (Ho & Hl & Hb & Hr & Hc & Hs & Hp & Hpr & Hpt & Hlp) Hbal [[Hop Hch Hown Hnd Hcf Hfresh Hpay Hnone] Htok Hknown].
  constructor; [constructor|..]; rewrite ?Ho, ?Hl, ?Hr, ?Hc, ?Hpt, ?Hlp; auto.
  - eapply chain_neutral; eauto.
  - eapply owned_other; [exact Hown|]. intros; rewrite Hr; reflexivity.
  - destruct Hfresh as [A B]. split; intros; rewrite ?Hs, ?Hp; auto.
  - eapply PayInv_frame; [exact Hpay| rewrite Hpt, Hbal; reflexivity | exact Hpr | intros; rewrite Hc; reflexivity].
Qed.

Lemma Pre_neutral w w' l : neutral (st w) (st w') -> bal w' = bal w -> Pre w l -> Pre w' l.
Proof. intros Hn Hb. apply Pre_neutral_gen; [exact Hn | rewrite Hb; reflexivity]. Qed.

(** crediting the call value of a deposit (launchpad token) does not touch the payment token *)
Lemma credit_other_token : forall p w from w1 t,
  credit_payment w from p = Ok w1 -> from <> sc_addr -> Forall (fun x => fst (fst x) <> t) p ->
  bal w1 sc_addr t 0 = bal w sc_addr t 0.
Proof.
  induction p as [|[[tk k] a] p IH]; intros w from w1 t E Hne Hall; cbn in E; [inversion E; reflexivity|].
  apply bind_ok in E. destruct E as (w2 & Ht & E). inversion Hall as [|? ? Hx Hall']; subst. cbn in Hx.
  rewrite (IH _ _ _ _ E Hne Hall'). apply transfer_ok in Ht. destruct Ht as [_ ->]. cbn.
  apply bal_after_other; intros Heq; inversion Heq; congruence.
Qed.

(** ** blacklisting (launchpad: refund and flag; no guarantee or NFT bookkeeping) *)
Lemma bl_one_only e w a w' :
  bl_one e w a = Ok w' -> exists c bl, st w' = st w <| confirmed := c |> <| blacklisted := bl |>.
Proof.
  unfold bl_one. intros E.
  apply bind_ok in E. destruct E as (u1 & _ & E). apply bind_ok in E. destruct E as (u2 & _ & E).
  apply bind_ok in E. destruct E as (w1 & Hw1 & E). inversion E; subst w'; clear E. rewrite st_set_st.
  destruct (0 <? confirmed (st w) a).
  - apply bind_ok in Hw1. destruct Hw1 as (w2 & Hr & Hw1). inversion Hw1; subst w1; clear Hw1.
    apply refund_tf in Hr. rewrite st_set_st, Hr. eexists _, _. reflexivity.
  - inversion Hw1; subst w1. exists (confirmed (st w)), (upd (blacklisted (st w)) a true). destruct (st w); reflexivity.
Qed.

Lemma Pre_bl_one e w l a w' : Pre w l -> a <> sc_addr -> bl_one e w a = Ok w' -> Pre w' l.
Proof.
  intros [[Hop Hch Hown Hnd Hcf Hfresh Hpay Hnone] Htok Hknown] Hasc E.
  pose proof (PayInv_blacklist e w a w' _ Hasc Hpay E) as Hpay'.
  destruct (bl_one_only _ _ _ _ E) as (c & bl & Hs).
  apply bl_one_spec in E. cbn zeta in E. destruct E as (_ & _ & _ & Hc0 & Hoth & _).
  constructor; [constructor|..]; rewrite ?Hs; auto.
  - eapply chain_neutral; [|exact Hch]. reflexivity.
  - eapply owned_other; [exact Hown|]. intros; reflexivity.
  - rewrite Forall_forall in *. intros [x n0] Hin. pose proof (Hcf _ Hin) as Hc1. cbn [fst snd] in *.
    rewrite <- Hs. destruct (N.eq_dec x a) as [->|Hne]; [rewrite Hc0; split; [lia|apply Hc1]|].
    destruct (Hoth x Hne) as [Hcx _]. rewrite Hcx. exact Hc1.
Qed.

Lemma Pre_blacklist_loop e : forall la w l w',
  Pre w l -> ~ In sc_addr la -> blacklist_loop e w la = Ok w' -> Pre w' l.
Proof.
  induction la as [|a la IH]; intros w l w' Hp Hsc E; [inversion E; subst; exact Hp|].
  rewrite blacklist_loop_cons in E. apply bind_ok in E. destruct E as (w1 & H1 & E).
  eapply IH; [|intros Hi; apply Hsc; now right|exact E].
  eapply Pre_bl_one; [exact Hp| |exact H1]. intros ->. apply Hsc. now left.
Qed.

Section HSetup.
Variable H : list N -> list N.

Inductive setup_call : call -> Prop :=
| sc_add la : Forall (fun x => 0 < snd x) la -> ~ In sc_addr (map fst la) -> setup_call (CAddTickets la)
| sc_deposit : setup_call CDeposit
| sc_confirm n : setup_call (CConfirm n)
| sc_pause : setup_call CPause
| sc_unpause : setup_call CUnpause
| sc_conf r : setup_call (CSetConf r)
| sc_ws r : setup_call (CSetWs r)
| sc_claim r : setup_call (CSetClaim r)
| sc_support a : setup_call (CSetSupport a)
| sc_blacklist la : ~ In sc_addr la -> setup_call (CBlacklist la)
| sc_tpt a : setup_call (CSetTpt a).

Lemma no_payment_nil p u : no_payment p = Ok u -> p = [].
Proof. unfold no_payment. destruct p; [reflexivity|discriminate]. Qed.

Theorem Pre_exec e b sd w l c w' r :
  Pre w l -> setup_call c -> pay_wf (pay e) -> caller e <> sc_addr ->
  exec H Base e b sd w c = Ok (w', r) -> exists l', Pre w' l'.
Proof.
  intros Hpre Hc Hwf Hcs E.
  set (w0 := w <| evs := [] |> <| rlog := [] |> <| locks := [] |> <| seeds := sd |>).
  assert (Hpre0 : Pre w0 l) by (eapply Pre_ext; [| |exact Hpre]; reflexivity).
  destruct Hc as [la Hpos Hsc | | n | | | r0 | r0 | r0 | a | la Hsc | a].
  - (* allocation *)
    unfold exec in E. cbn [payable] in E. fold w0 in E.
    apply bind_ok in E. destruct E as (u & Hnp & E). apply no_payment_nil in Hnp. rewrite Hnp in E. cbn [credit_payment bind] in E.
    cbn [dispatch] in E. unfold ret0 in E. mon_inv.
    exists (l ++ la). eapply Pre_add_tickets; eauto.
  - (* deposit *)
    unfold exec in E. cbn [payable] in E. fold w0 in E. cbn [bind] in E.
    apply bind_ok in E. destruct E as (w1 & Hcr & E).
    cbn [dispatch] in E. unfold ret0 in E. mon_inv.
    match goal with Hd : deposit_launchpad_tokens _ _ _ = Ok _ |- _ => apply (deposit_iff _ _ _ _ Hwf) in Hd; destruct Hd as (_ & Hp & Hlp & ->) end.
    pose proof (credit_payment_st _ _ _ _ Hcr) as Hs1.
    exists l. pose proof (pre_tok _ _ Hpre0) as Htok.
    assert (Hb1 : bal w1 sc_addr (pay_token (st w0)) 0 = bal w0 sc_addr (pay_token (st w0)) 0).
    { eapply credit_other_token; [exact Hcr|exact Hcs|]. rewrite Hp. constructor; [|constructor]. cbn. rewrite Hs1.
      intros Heq. apply Htok. symmetry. exact Heq. }
    eapply Pre_neutral_gen; [| |exact Hpre0].
    + rewrite st_set_st, Hs1. unfold neutral. cbn. repeat split.
    + rewrite bal_set_st. exact Hb1.
  - (* confirmation *)
    pose proof (PayInv_confirm H Base e b sd w n w' r (map fst l) Hwf Hcs (ps_pay _ _ (pre_sel _ _ Hpre)) E) as Hpay'.
    apply (exec_confirm_iff H Base e b sd w n w' r Hwf) in E. destruct E as (w1 & Hcr & Hcond & -> & _).
    pose proof (credit_payment_st _ _ _ _ Hcr) as Hs1. unfold reset_outputs in Hs1. cbn in Hs1.
    destruct Hcond as (_ & _ & _ & _ & _ & (total & Htot & Hle) & _).
    destruct Hpre as [[Hop Hch Hown Hnd Hcf Hfresh Hpay Hnone] Htok Hknown].
    set (tc := confirmed (st w) (caller e) + n).
    assert (Hst : st (confirm_effect e w1 n) = st w <| confirmed := upd (confirmed (st w)) (caller e) tc |>).
    { unfold confirm_effect. rewrite st_emit, st_set_st, Hs1. reflexivity. }
    (* the allocation of a listed caller is the size recorded in [l] *)
    assert (Hsize : forall n0, In (caller e, n0) l -> total = n0).
    { intros n0 Hin. clear - Hown Hnd Hin Htot Hcf.
      assert (Hgen : forall f, Owned (st w) f l -> NoDup (map fst l) -> In (caller e, n0) l ->
                Forall (fun x => confirmed (st w) (fst x) <= snd x /\ 0 < snd x) l -> total = n0).
      { clear Hown Hnd Hin Hcf. induction l as [|[x m] l IH]; intros f Ho Hndl Hi Hc; [destruct Hi|].
        inversion Ho as [|? ? ? ? Hr Ho']; subst. inversion Hndl as [|? ? Hnx Hndl']; subst.
        inversion Hc as [|? ? [_ Hm] Hc']; subst. cbn [snd] in Hm.
        destruct Hi as [Heq|Hi].
        - inversion Heq; subst. unfold get_total_number_of_tickets_for_address in Htot. rewrite Hr in Htot.
          unfold usub in Htot. destruct (N.leb_spec f (f + n0 - 1)); cbn in Htot; inversion Htot; lia.
        - eapply IH; eauto. }
      eapply Hgen; eauto. }
    exists l. constructor; [constructor|..]; rewrite ?Hst.
    + exact Hop.
    + eapply chain_neutral; [|exact Hch]. reflexivity.
    + eapply owned_other; [exact Hown|]. intros; reflexivity.
    + exact Hnd.
    + rewrite Forall_forall in *. intros [a n0] Hin. pose proof (Hcf _ Hin) as Hc0. cbn [fst snd] in *.
      change (confirmed (st w <| confirmed := upd (confirmed (st w)) (caller e) tc |>) a) with (upd (confirmed (st w)) (caller e) tc a).
      unfold upd. destruct (N.eqb_spec a (caller e)) as [->|Hne]; [|exact Hc0].
      split; [|apply Hc0]. rewrite <- (Hsize n0 Hin). exact Hle.
    + exact Hfresh.
    + destruct (mem (caller e) (map fst l)) eqn:Em; [exact Hpay'|].
      apply PayInv_drop in Hpay'; [exact Hpay'|].
      rewrite Hst. change (confirmed (st w <| confirmed := upd (confirmed (st w)) (caller e) tc |>) (caller e)) with (upd (confirmed (st w)) (caller e) tc (caller e)).
      rewrite upd_same. unfold tc.
      assert (Hni : ~ In (caller e) (map fst l)) by (intros Hi; apply mem_In' in Hi; congruence).
      rewrite (pi_support _ _ Hpay _ Hni).
      unfold get_total_number_of_tickets_for_address in Htot. rewrite (Hnone _ Hni) in Htot. inversion Htot; subst.
      rewrite (pi_support _ _ Hpay _ Hni) in Hle. lia.
    + exact Hnone.
    + exact Htok.
    + exact Hknown.
  - (* pause *)
    unfold exec in E. cbn [payable] in E. fold w0 in E.
    apply bind_ok in E. destruct E as (u & Hnp & E). apply no_payment_nil in Hnp. rewrite Hnp in E. cbn [credit_payment bind] in E.
    cbn [dispatch] in E. unfold ret0 in E. mon_inv.
    match goal with Hd : pause_endpoint _ _ = Ok _ |- _ => apply gate_pause in Hd; destruct Hd as (_ & Hs & Hb) end.
    exists l. eapply Pre_neutral; [|exact Hb|exact Hpre0]. rewrite Hs. unfold neutral. cbn. repeat split.
  - unfold exec in E. cbn [payable] in E. fold w0 in E.
    apply bind_ok in E. destruct E as (u & Hnp & E). apply no_payment_nil in Hnp. rewrite Hnp in E. cbn [credit_payment bind] in E.
    cbn [dispatch] in E. unfold ret0 in E. mon_inv.
    match goal with Hd : unpause_endpoint _ _ = Ok _ |- _ => apply gate_unpause in Hd; destruct Hd as (_ & Hs & Hb) end.
    exists l. eapply Pre_neutral; [|exact Hb|exact Hpre0]. rewrite Hs. unfold neutral. cbn. repeat split.
  - unfold exec in E. cbn [payable] in E. fold w0 in E.
    apply bind_ok in E. destruct E as (u & Hnp & E). apply no_payment_nil in Hnp. rewrite Hnp in E. cbn [credit_payment bind] in E.
    cbn [dispatch] in E. unfold ret0 in E. mon_inv.
    match goal with Hd : set_confirmation_period_start_round _ _ _ = Ok _ |- _ => apply gate_set_conf in Hd; destruct Hd as (_ & _ & _ & Hs & _ & Hb) end.
    exists l. eapply Pre_neutral; [|exact Hb|exact Hpre0]. rewrite Hs. unfold neutral. cbn. repeat split.
  - unfold exec in E. cbn [payable] in E. fold w0 in E.
    apply bind_ok in E. destruct E as (u & Hnp & E). apply no_payment_nil in Hnp. rewrite Hnp in E. cbn [credit_payment bind] in E.
    cbn [dispatch] in E. unfold ret0 in E. mon_inv.
    match goal with Hd : set_winner_selection_start_round _ _ _ = Ok _ |- _ => apply gate_set_ws in Hd; destruct Hd as (_ & _ & _ & Hs & _ & Hb) end.
    exists l. eapply Pre_neutral; [|exact Hb|exact Hpre0]. rewrite Hs. unfold neutral. cbn. repeat split.
  - unfold exec in E. cbn [payable] in E. fold w0 in E.
    apply bind_ok in E. destruct E as (u & Hnp & E). apply no_payment_nil in Hnp. rewrite Hnp in E. cbn [credit_payment bind] in E.
    cbn [dispatch] in E. unfold ret0 in E. mon_inv.
    match goal with Hd : set_claim_start_round _ _ _ = Ok _ |- _ => apply gate_set_claim in Hd; destruct Hd as (_ & _ & _ & Hs & _ & Hb) end.
    exists l. eapply Pre_neutral; [|exact Hb|exact Hpre0]. rewrite Hs. unfold neutral. cbn. repeat split.
  - unfold exec in E. cbn [payable] in E. fold w0 in E.
    apply bind_ok in E. destruct E as (u & Hnp & E). apply no_payment_nil in Hnp. rewrite Hnp in E. cbn [credit_payment bind] in E.
    cbn [dispatch] in E. unfold ret0 in E. mon_inv.
    match goal with Hd : set_support_address _ _ _ = Ok _ |- _ => unfold set_support_address in Hd; mon_inv end.
    exists l. eapply Pre_neutral; [| |exact Hpre0]; [rewrite st_set_st; unfold neutral; cbn; repeat split | reflexivity].
  - (* blacklisting *)
    unfold exec in E. cbn [payable] in E. fold w0 in E.
    apply bind_ok in E. destruct E as (u & Hnp & E). apply no_payment_nil in Hnp. rewrite Hnp in E. cbn [credit_payment bind] in E.
    cbn [dispatch] in E. unfold ret0, blacklist_endpoint in E. cbn [has_nft] in E. mon_inv.
    match goal with Hd : add_users_to_blacklist _ _ _ = Ok _ |- _ => unfold add_users_to_blacklist in Hd; mon_inv end.
    exists l. eapply Pre_blacklist_loop; eauto.
  - (* tokens per ticket *)
    unfold exec in E. cbn [payable] in E. fold w0 in E.
    apply bind_ok in E. destruct E as (u & Hnp & E). apply no_payment_nil in Hnp. rewrite Hnp in E. cbn [credit_payment bind] in E.
    cbn [dispatch] in E. unfold ret0 in E. mon_inv.
    match goal with Hd : set_launchpad_tokens_per_winning_ticket _ _ _ = Ok _ |- _ =>
      unfold set_launchpad_tokens_per_winning_ticket, try_set_tpt in Hd; mon_inv end.
    exists l. eapply Pre_neutral; [| |exact Hpre0]; [rewrite st_set_st; unfold neutral; cbn; repeat split | reflexivity].
Qed.

(** launchpad-locked-tokens runs the same code for these transactions *)
Definition plain (v : variant) : Prop := v = Base \/ v = Lock.

Lemma exec_plain v e b sd w c : plain v -> setup_call c -> exec H v e b sd w c = exec H Base e b sd w c.
Proof. intros [-> | ->] Hc; [reflexivity|]. destruct Hc; reflexivity. Qed.

Corollary Pre_exec_plain v e b sd w l c w' r :
  plain v -> Pre w l -> setup_call c -> pay_wf (pay e) -> caller e <> sc_addr ->
  exec H v e b sd w c = Ok (w', r) -> exists l', Pre w' l'.
Proof. intros Hv Hp Hc Hwf Hcs E. rewrite (exec_plain v _ _ _ _ _ Hv Hc) in E. eapply Pre_exec; eauto. Qed.

(** deployment *)
Lemma deploy_Pre v e lp tpt0 ptok price0 nrw conf ws claim x s :
  plain v -> deploy v e lp tpt0 ptok price0 nrw conf ws claim x = Ok s -> lp <> egld -> Pre (world0 s) [].
Proof.
  intros Hv E Hlp. unfold deploy in E.
  assert (Hs : exists s0 pct un la, init_base e lp tpt0 ptok price0 nrw conf ws claim true = Ok s0 /\
             (s = s0 \/ s = s0 <| lock_pct := pct |> <| unlock_epoch := un |> <| lock_sc := la |>)).
  { destruct Hv as [-> | ->]; cbn [has_nft is_v1 has_lock has_extra negb] in E; mon_inv.
    - eexists _, 0, 0, 0. split; [eassumption|left; reflexivity].
    - match goal with Hl : lock_init _ _ _ _ _ = Ok _ |- _ => unfold lock_init in Hl; mon_inv end.
      eexists _, _, _, _. split; [eassumption|right; reflexivity]. }
  clear E. destruct Hs as (s0 & pct & un & la & Hinit & Hs).
  unfold init_base, try_set_tpt, try_set_ticket_price, try_set_nr_winning in Hinit. mon_inv.
  match goal with Hx : (if negb (ptok =? egld) then _ else _) = Ok _ |- _ => rename Hx into Hif end.
  assert (Htok : ptok <> lp).
  { destruct (N.eqb_spec ptok egld) as [->|Hne]; [intros Heq; apply Hlp; symmetry; exact Heq|].
    cbn in Hif. apply require_ok' in Hif. apply negb_true_iff in Hif. apply N.eqb_neq in Hif. congruence. }
  destruct Hs as [-> | ->].
  all: constructor; [constructor|..].
  all: try reflexivity.
  all: try (apply (chain_nil _ 0)).
  all: try apply owned_nil.
  all: try apply NoDup_nil.
  all: try apply Forall_nil.
  all: try (split; reflexivity).
  all: try (intros a []).
  all: try exact Htok.
  all: constructor; [apply NoDup_nil | intros a _; reflexivity | intros [] |];
    cbn; unfold paysum; cbn; unfold init_bal;
    replace ((1 <=? sc_addr) && (sc_addr <=? 24)) with false by (vm_compute; reflexivity); lia.
Qed.

(** every state reached from deployment by accepted set-up transactions *)
Inductive setup_reach (v : variant) : world -> Prop :=
| sr_deploy e lp tpt0 ptok price0 nrw conf ws claim x s :
    deploy v e lp tpt0 ptok price0 nrw conf ws claim x = Ok s -> lp <> egld -> setup_reach v (world0 s)
| sr_step w e b sd c w' r :
    setup_reach v w -> setup_call c -> pay_wf (pay e) -> caller e <> sc_addr ->
    exec H v e b sd w c = Ok (w', r) -> setup_reach v w'.

Theorem setup_reach_Pre v w : plain v -> setup_reach v w -> exists l, Pre w l.
Proof.
  intros Hv. induction 1 as [e lp tpt0 ptok price0 nrw conf ws claim x s Hd Hlp | w e b sd c w' r _ IH Hc Hwf Hcs E].
  - exists []. eapply deploy_Pre; eauto.
  - destruct IH as [l Hl]. eapply Pre_exec_plain; eauto.
Qed.

Corollary setup_reach_PreSel v w : plain v -> setup_reach v w -> exists l, PreSel w l.
Proof. intros Hv Hr. destruct (setup_reach_Pre v w Hv Hr) as [l [Hs _ _]]. exists l. exact Hs. Qed.

(** from deployment to the claim period *)
Theorem deployed_pipeline v w0 lf wf ef bf w1 ls ws es bs w2 sd rest :
  plain v -> setup_reach v w0 ->
  after_interrupted filter_tickets lf w0 = Some wf -> filter_tickets ef bf wf = Ok (w1, 0) ->
  seeds w1 = sd :: rest ->
  after_interrupted (select_winners H) ls w1 = Some ws -> select_winners H es bs ws = Ok (w2, 0) ->
  exists l : list (N * N),
    let A := map fst l in
    let total := sumN (map (confirmed (st w0)) A) in
    let k := N.min (nr_winning (st w0)) total in
    let wins := fst (fy (N.to_nat k) (range_ids 1 total) (rng_words H (N.to_nat k) {| r_seed := sd; r_index := 0 |})) in
    ClaimInv w2 A /\
    Layout (range (st w2)) (confirmed (st w2)) 0 A /\ last_ticket_id (st w2) = total /\
    nr_winning (st w2) = k /\ (forall t, status (st w2) t = true <-> In t wins) /\ NoDup wins /\
    claimable_payment (st w2) = price (st w0) * k /\ confirmed (st w2) = confirmed (st w0).
Proof.
  intros Hv Hr Haf Ef Hs Has Es. destruct (setup_reach_PreSel v w0 Hv Hr) as [l Hl]. exists l.
  exact (pipeline_to_claims H l w0 lf wf ef bf w1 ls ws es bs w2 sd rest Hl Haf Ef Hs Has Es).
Qed.
End HSetup.

(** ** non-vacuity: the concrete history of [Examples] is a set-up history *)
Lemma step_reach w e b sd c :
  setup_reach sha256 Base w -> setup_call c -> pay_wf (pay e) -> caller e <> sc_addr ->
  (exists w' r, exec sha256 Base e b sd w c = Ok (w', r)) ->
  setup_reach sha256 Base (step_sha Base w (e, b, sd, c)).
Proof.
  intros Hr Hc Hwf Hcs (w' & r & E). unfold step_sha, exec_sha. rewrite E. eapply sr_step; eauto.
Qed.

Example base_confirmed_reachable : setup_reach sha256 Base base_confirmed.
Proof.
  unfold base_confirmed, run_sha. cbn [fold_left].
  assert (H0 : setup_reach sha256 Base base0).
  { unfold base0. destruct (deploy Base (mkenv 1 0 0 []) 1 100 0 1000 2 10 20 30 x0) as [s|k] eqn:Ed; [|vm_compute in Ed; discriminate].
    eapply sr_deploy; [exact Ed|]. vm_compute. discriminate. }
  repeat (apply step_reach;
          [ | first [ apply sc_add; [repeat constructor; vm_compute; reflexivity | vm_compute; intuition discriminate]
                    | apply sc_deposit | apply sc_confirm ]
            | cbn; first [ left; reflexivity | right; left; eexists; reflexivity | right; right; split; [discriminate | repeat constructor; cbn; discriminate] ]
            | vm_compute; discriminate
            | eexists _, _; vm_compute; reflexivity ]).
  exact H0.
Qed.
