(** * C13: vesting arithmetic (v1 periodic schedule, v2 milestone schedule). *)
From LP Require Import Proofs.Tactics.
Open Scope N_scope.

(** ** v2 milestones *)

(** declarative validity of a v2 schedule at round [cur] *)
Inductive sorted_from : N -> list (N * N) -> Prop :=
| sorted_nil lo : sorted_from lo []
| sorted_cons lo r p l : lo <= r -> sorted_from r l -> sorted_from lo ((r, p) :: l).

Definition valid_v2 (cur : N) (l : list (N * N)) : Prop :=
  l <> [] /\
  Forall (fun x => snd x <= MAX_PERCENTAGE /\ cur <= fst x /\ fst x <= cur + MAX_RELEASE_ROUND_DIFF) l /\
  sorted_from 0 l /\
  sumN (map snd l) = MAX_PERCENTAGE.

Lemma validate_v2_spec cur : forall l last total,
  validate_v2 cur last total l = (true, total + sumN (map snd l)) <->
  (Forall (fun x => snd x <= MAX_PERCENTAGE /\ cur <= fst x /\ fst x <= cur + MAX_RELEASE_ROUND_DIFF) l /\
   sorted_from last l).
Proof.
  induction l as [|[r p] l IH]; intros last total; cbn [validate_v2 map snd].
  - split; [intros _; split; constructor|]. intros _. rewrite sumN_nil. f_equal. lia.
  - destruct (MAX_PERCENTAGE <? p) eqn:E1; cbn [orb].
    { split; [discriminate|]. intros [HF _]. inversion HF as [|? ? [Hp _] _]; subst. cbn [fst snd] in Hp. lia. }
    destruct (r <? cur) eqn:E2; cbn [orb].
    { split; [discriminate|]. intros [HF _]. inversion HF as [|? ? [_ [Hc _]] _]; subst. cbn [fst snd] in Hc. lia. }
    destruct (r <? last) eqn:E3; cbn [orb].
    { split; [discriminate|]. intros [_ HS]. inversion HS; subst. lia. }
    destruct (cur + MAX_RELEASE_ROUND_DIFF <? r) eqn:E4; cbn [orb].
    { split; [discriminate|]. intros [HF _]. inversion HF as [|? ? [_ [_ Hc]] _]; subst. cbn [fst snd] in Hc. lia. }
    rewrite sumN_cons, N.add_assoc.
    rewrite IH. split.
    + intros [HF HS]. split; constructor; auto; cbn [fst snd]; lia.
    + intros [HF HS]. inversion HF; subst. inversion HS; subst. auto.
Qed.

Lemma validate_v2_fst_false cur : forall l last total b t,
  validate_v2 cur last total l = (b, t) -> b = true -> t = total + sumN (map snd l).
Proof.
  induction l as [|[r p] l IH]; intros last total b t E Hb; cbn [validate_v2] in E.
  - inversion E; subst. cbn [map]. rewrite sumN_nil. lia.
  - destruct ((MAX_PERCENTAGE <? p) || (r <? cur) || (r <? last) || (cur + MAX_RELEASE_ROUND_DIFF <? r)).
    + inversion E; subst; discriminate.
    + apply IH in E; auto. rewrite E. cbn [map snd]. rewrite sumN_cons. lia.
Qed.

Theorem schedule_valid_v2_iff cur l : schedule_valid_v2 cur l = true <-> valid_v2 cur l.
Proof.
  unfold schedule_valid_v2, valid_v2. destruct l as [|x l]; [split; [discriminate | intros [H _]; congruence]|].
  destruct (validate_v2 cur 0 0 (x :: l)) as [b t] eqn:E. split.
  - intros Hb. apply andb_true_iff in Hb. destruct Hb as [Hb Ht]. subst b.
    apply N.eqb_eq in Ht.
    pose proof (validate_v2_fst_false _ _ _ _ _ _ E eq_refl) as Ht'.
    rewrite Ht' in E. apply validate_v2_spec in E. destruct E as [HF HS].
    repeat split; auto; [congruence | lia].
  - intros (_ & HF & HS & Hsum).
    assert (E' : validate_v2 cur 0 0 (x :: l) = (true, 0 + sumN (map snd (x :: l)))) by (apply validate_v2_spec; auto).
    rewrite E' in E. inversion E; subst. cbn [andb]. apply N.eqb_eq.
    cbn [map] in Hsum. rewrite sumN_cons in Hsum. lia.
Qed.

(** percentage released by round [r]: for a sorted schedule it is the sum of the milestones
    reached by [r], hence monotone, bounded by the total and equal to it after the last one *)
Lemma pct_v2_le_total l r : pct_v2 l r <= sumN (map snd l).
Proof.
  induction l as [|[rr p] l IH]; cbn [pct_v2 map snd]; [rewrite sumN_nil; lia|].
  rewrite sumN_cons. destruct (rr <=? r); lia.
Qed.

Lemma pct_v2_mono lo l : sorted_from lo l -> forall r1 r2, r1 <= r2 -> pct_v2 l r1 <= pct_v2 l r2.
Proof.
  induction 1 as [|lo rr p l Hlo Hs IH]; intros r1 r2 Hr; cbn [pct_v2]; [lia|].
  destruct (N.leb_spec rr r1), (N.leb_spec rr r2); try lia.
  specialize (IH r1 r2 Hr). lia.
Qed.

Lemma sorted_from_weaken lo lo' l : lo' <= lo -> sorted_from lo l -> sorted_from lo' l.
Proof. intros Hl Hs. inversion Hs; subst; constructor; auto; lia. Qed.

Lemma pct_v2_full lo l r : sorted_from lo l -> Forall (fun x => fst x <= r) l -> pct_v2 l r = sumN (map snd l).
Proof.
  induction 1 as [|lo rr p l Hlo Hs IH]; intros HF; cbn [pct_v2 map snd]; [reflexivity|].
  inversion HF as [|? ? Hx HF']; subst. cbn [fst] in Hx. rewrite sumN_cons.
  destruct (N.leb_spec rr r); [|lia].
  rewrite IH; auto.
Qed.

Lemma pct_v2_zero_before lo l r : sorted_from lo l -> r < lo -> pct_v2 l r = 0.
Proof.
  induction 1 as [|lo rr p l Hlo Hs IH]; intros Hr; cbn [pct_v2]; [reflexivity|].
  destruct (N.leb_spec rr r); [lia|reflexivity].
Qed.

(** the default schedule (no schedule set): everything at once *)
Lemma default_schedule_v2 r : pct_v2 [(0, MAX_PERCENTAGE)] r = MAX_PERCENTAGE.
Proof. cbn. destruct (N.leb_spec 0 r); lia. Qed.

(** cumulative amount a winner is entitled to have received by round [r] *)
Definition vested_v2 (s : state) (total r : N) : N := total * pct_v2 (schedule_v2 s) r / MAX_PERCENTAGE.

Lemma div_mul_le a p : p <= MAX_PERCENTAGE -> a * p / MAX_PERCENTAGE <= a.
Proof. unfold MAX_PERCENTAGE. intros. nia. Qed.

Lemma vested_v2_bounded s total r :
  sumN (map snd (schedule_v2 s)) = MAX_PERCENTAGE -> vested_v2 s total r <= total.
Proof.
  intros Hs. unfold vested_v2. apply div_mul_le. rewrite <- Hs. apply pct_v2_le_total.
Qed.

Lemma vested_v2_mono s total lo r1 r2 :
  sorted_from lo (schedule_v2 s) -> r1 <= r2 -> vested_v2 s total r1 <= vested_v2 s total r2.
Proof.
  intros Hs Hr. unfold vested_v2. pose proof (pct_v2_mono _ _ Hs _ _ Hr).
  unfold MAX_PERCENTAGE. apply N.div_le_mono; [lia|]. nia.
Qed.

Lemma vested_v2_full s total lo r :
  sorted_from lo (schedule_v2 s) -> sumN (map snd (schedule_v2 s)) = MAX_PERCENTAGE ->
  Forall (fun x => fst x <= r) (schedule_v2 s) -> vested_v2 s total r = total.
Proof.
  intros Hs Hsum HF. unfold vested_v2. rewrite (pct_v2_full _ _ _ Hs HF), Hsum.
  unfold MAX_PERCENTAGE. now rewrite N.div_mul.
Qed.

(** [getClaimableTokens] / the amount a claim pays: cumulative amount minus what was received *)
Theorem compute_claimable_v2_spec e s a amt :
  compute_claimable_v2 e s a = Ok amt ->
  total_claimable s a = 0 /\ amt = 0 \/
  0 < total_claimable s a /\ claimed_balance s a < total_claimable s a /\
  claimed_balance s a <= vested_v2 s (total_claimable s a) (round e) /\
  claimed_balance s a + amt = vested_v2 s (total_claimable s a) (round e).
Proof.
  unfold compute_claimable_v2, vested_v2. destruct (N.eqb_spec (total_claimable s a) 0) as [E0|E0].
  - intros E; inversion E; auto.
  - intros E. mon_inv. right. apply N.ltb_lt in E1. repeat split; try lia.
Qed.

(** ** v1 periodic schedule *)
Definition sched1_ok (sch : N * N * N * N * N) : Prop :=
  let '(start, initial, times, pct, period) := sch in
  initial + times * pct = MAX_PERCENTAGE /\ (0 < period \/ initial = MAX_PERCENTAGE).

Lemma pct_v1_le sch r : sched1_ok sch -> pct_v1 sch r <= MAX_PERCENTAGE.
Proof.
  destruct sch as [[[[start initial] times] pct] period]. unfold sched1_ok, pct_v1.
  intros [Hs _]. pose proof (N.le_min_r ((r - start) / period) times). nia.
Qed.

Lemma Ndiv_0_r a : a / 0 = 0.
Proof. destruct a; reflexivity. Qed.

Lemma pct_v1_mono sch r1 r2 : r1 <= r2 -> pct_v1 sch r1 <= pct_v1 sch r2.
Proof.
  destruct sch as [[[[start initial] times] pct] period]. unfold pct_v1. intros Hr.
  assert ((r1 - start) / period <= (r2 - start) / period).
  { destruct (N.eqb_spec period 0) as [->|Hp]; [now rewrite !Ndiv_0_r|]. apply N.div_le_mono; lia. }
  assert (N.min ((r1 - start) / period) times <= N.min ((r2 - start) / period) times) by lia.
  nia.
Qed.

Lemma pct_v1_full sch r :
  sched1_ok sch ->
  let '(start, initial, times, pct, period) := sch in
  0 < period -> start + times * period <= r -> pct_v1 sch r = MAX_PERCENTAGE.
Proof.
  destruct sch as [[[[start initial] times] pct] period]. unfold sched1_ok, pct_v1.
  intros [Hs _] Hp Hr.
  assert (times <= (r - start) / period).
  { apply N.div_le_lower_bound; lia. }
  rewrite N.min_r by lia. lia.
Qed.

Definition vested_v1 (sch : N * N * N * N * N) (total r : N) : N :=
  let '(start, initial, times, pct, period) := sch in
  if r <? start then 0
  else if initial =? MAX_PERCENTAGE then total
  else total * pct_v1 sch r / MAX_PERCENTAGE.

Theorem compute_claimable_v1_spec e s a amt sch :
  sched1 s = Some sch ->
  compute_claimable_v1 e s a = Ok amt ->
  total_claimable s a = 0 /\ amt = 0 \/
  0 < total_claimable s a /\ claimed_balance s a < total_claimable s a /\
  (let '(start, initial, _, _, _) := sch in
   round e < start /\ amt = 0 \/
   start <= round e /\ initial = MAX_PERCENTAGE /\ amt = total_claimable s a \/
   start <= round e /\ initial <> MAX_PERCENTAGE /\
   claimed_balance s a + amt = vested_v1 sch (total_claimable s a) (round e)).
Proof.
  intros Hs. unfold compute_claimable_v1. rewrite Hs.
  destruct sch as [[[[start initial] times] pct] period].
  destruct (N.eqb_spec (total_claimable s a) 0) as [E0|E0].
  - intros E; inversion E; auto.
  - intros E. mon_inv. apply N.ltb_lt in E1. right. repeat split; try lia.
    unfold vested_v1.
    destruct (N.ltb_spec (round e) start).
    + inversion E; subst. left; auto.
    + destruct (N.eqb_spec initial MAX_PERCENTAGE).
      * inversion E; subst. right; left; auto.
      * mon_inv. right; right. repeat split; auto. lia.
Qed.

Lemma vested_v1_bounded sch total r : sched1_ok sch -> vested_v1 sch total r <= total.
Proof.
  intros Hok. pose proof (pct_v1_le sch r Hok) as Hle.
  destruct sch as [[[[start initial] times] pct] period]. unfold vested_v1.
  destruct (r <? start); [lia|]. destruct (initial =? MAX_PERCENTAGE); [lia|].
  now apply div_mul_le.
Qed.

(** [setUnlockSchedule] (gt1): what an accepted call guarantees *)
Theorem set_unlock_schedule_v1_ok e w a b c d p w' :
  set_unlock_schedule_v1 e w a b c d p = Ok w' ->
  caller e = owner_addr /\
  (round e < conf_start (st w) \/ sched1 (st w) = None) /\
  round e <= a /\ sched1_ok (a, b, c, d, p) /\
  st w' = st w <| sched1 := Some (a, b, c, d, p) |> /\ bal w' = bal w.
Proof.
  unfold set_unlock_schedule_v1. intros E. mon_inv.
  unfold only_owner in *. mon_inv.
  repeat match goal with H : (_ =? _) = true |- _ => apply N.eqb_eq in H end.
  repeat match goal with H : (_ <=? _) = true |- _ => apply N.leb_le in H end.
  repeat split; auto.
  - match goal with H : ((round e <? _) || _) = true |- _ => apply orb_true_iff in H; destruct H as [H|H] end.
    + left. now apply N.ltb_lt.
    + right. destruct (sched1 (st w)); [discriminate|reflexivity].
  - match goal with H : ((0 <? p) || _) = true |- _ => apply orb_true_iff in H; destruct H as [H|H] end.
    + left. now apply N.ltb_lt.
    + right. now apply N.eqb_eq.
Qed.

(** [setUnlockSchedule] (gt2): accepted iff owner, AddTickets stage, at most 60 entries, valid *)
Theorem set_unlock_schedule_v2_iff e w l :
  Forall (fun x => fst x < u64_lim /\ snd x < u64_lim) l ->
  ((exists w', set_unlock_schedule_v2 e w l = Ok w') <->
   caller e = owner_addr /\ get_launch_stage e (st w) = AddTickets /\
   N.of_nat (length l) <= MAX_UNLOCK_MILESTONES_ENTRIES /\ valid_v2 (round e) l).
Proof.
  intros Hargs. unfold set_unlock_schedule_v2.
  assert (Ha : all_ok (fun x => do_ u64_arg (fst x); u64_arg (snd x)) l = Ok tt).
  { induction Hargs as [|x l [H1 H2] _ IH]; [reflexivity|]. cbn. unfold u64_arg, require.
    apply N.ltb_lt in H1, H2. rewrite H1, H2. cbn. exact IH. }
  rewrite Ha. cbn [bind]. split.
  - intros (w' & E). mon_inv. unfold only_owner in *. mon_inv.
    match goal with H : require_stage _ _ _ = Ok _ |- _ => apply require_stage_ok in H end.
    repeat match goal with H : (_ =? _) = true |- _ => apply N.eqb_eq in H end.
    repeat match goal with H : (_ <=? _) = true |- _ => apply N.leb_le in H end.
    split; [assumption|]. split; [assumption|]. split; [assumption|]. now apply schedule_valid_v2_iff.
  - intros (Hc & Hs & Hn & Hv). eexists. unfold only_owner, require_stage.
    apply schedule_valid_v2_iff in Hv. apply N.leb_le in Hn.
    rewrite Hc, Hs, Hn, Hv, N.eqb_refl. cbn. reflexivity.
Qed.

(** ** The claim endpoint of the vested variants after the settlement: the winner's cumulative
    receipts equal the vested amount of the claim round, whatever happened before. *)
From LP Require Import Proofs.LedgerBase.

Theorem claim_vested_v2_cumulative e w w' :
  claimed (st w) (caller e) = true ->
  0 < total_claimable (st w) (caller e) ->
  claim_vested true e w = Ok w' ->
  let total := total_claimable (st w) (caller e) in
  let target := vested_v2 (st w) total (round e) in
  claimed_balance (st w) (caller e) <= target /\
  claimed_balance (st w') (caller e) = target /\
  total_claimable (st w') (caller e) = total /\
  sched2 (st w') = sched2 (st w) /\
  bal w' = (if 0 <? target - claimed_balance (st w) (caller e)
            then bal_after (bal w) sc_addr (caller e) (lp_token (st w)) 0 (target - claimed_balance (st w) (caller e))
            else bal w).
Proof.
  intros Hcl Htot. unfold claim_vested. rewrite Hcl. cbn zeta. intros E.
  apply bind_ok in E. destruct E as (u & _ & E). cbn [bind] in E.
  apply bind_ok in E. destruct E as (x & Ex & Hif).
  apply compute_claimable_v2_spec in Ex. destruct Ex as [[H0 _]|(_ & Hlt & Hle & Hsum)]; [lia|].
  assert (Hx : x = vested_v2 (st w) (total_claimable (st w) (caller e)) (round e) - claimed_balance (st w) (caller e)) by lia.
  rewrite <- Hx.
  destruct (N.ltb_spec 0 x) as [Hpos|Hzero].
  - apply bind_ok in Hif. destruct Hif as (w2 & Ht & Hif).
    apply transfer_ok in Ht. destruct Ht as [_ ->]. inversion Hif; subst w'.
    cbn. rewrite upd_same. repeat split; auto; lia.
  - inversion Hif; subst w'. repeat split; auto; lia.
Qed.
