(** * C02, claim period of the contracts that pay winners at once: any order of winners' claims and
    owner withdrawals keeps the two ledgers; after the owner's withdrawal the balance is exactly what
    the remaining winners are owed, and when they are all paid it is zero. *)
From LP Require Import Proofs.Tactics Proofs.LedgerBase Proofs.Gates Proofs.Frames Proofs.Settle Proofs.Ledger Proofs.ClaimLedger Proofs.Lock.
Open Scope N_scope.

(** what the lock variants need besides the ledgers *)
Definition lock_ok (w : world) : Prop :=
  lock_sc (st w) <> sc_addr /\ lock_pct (st w) <= MAX_PERCENTAGE /\ 0 < tpt (st w).

Definition CoverEq (w : world) : Prop :=
  bal w sc_addr (lp_token (st w)) 0 = tpt (st w) * nr_winning (st w).

Definition sf_of (locked : bool) := if locked then send_locked_launchpad_tokens else default_send.

Inductive cstep (locked : bool) : world -> world -> Prop :=
| cs_claim e w w' : caller e <> sc_addr -> claim_launchpad_tokens (sf_of locked) e w = Ok w' -> cstep locked w w'
| cs_owner e w w' : caller e <> sc_addr -> claim_ticket_payment e w = Ok w' -> cstep locked w w'.

Inductive csteps (locked : bool) : world -> world -> Prop :=
| css_nil w : csteps locked w w
| css_cons w w1 w2 : cstep locked w w1 -> csteps locked w1 w2 -> csteps locked w w2.

Definition CInvs (locked : bool) (w : world) (A : list N) : Prop :=
  ClaimInv w A /\ CoverInv w /\ pay_token (st w) <> lp_token (st w) /\ (locked = true -> lock_ok w).

Lemma claim_step locked e w w' A :
  CInvs locked w A -> caller e <> sc_addr -> claim_launchpad_tokens (sf_of locked) e w = Ok w' ->
  CInvs locked w' A /\ (CoverEq w -> CoverEq w').
Proof.
  intros (Hi & Hc & Htok & Hl) Hne E.
  pose proof (gate_claim _ _ _ _ E) as (Hst & Hcl & Hr).
  pose proof (gate_claim_not_blacklisted _ _ _ _ E) as Hnb.
  assert (Htf : tf (st w') = tf (st w)).
  { unfold sf_of in E. destruct locked; [eapply claim_launchpad_tokens_tf; [exact send_locked_tf|exact E]
                                   |eapply claim_launchpad_tokens_tf; [exact default_send_tf|exact E]]. }
  destruct (tf_lp _ _ Htf) as [Hlp Htpt]. destruct (tf_price' _ _ Htf) as [_ Hpt].
  assert (Hlk : lock_pct (st w') = lock_pct (st w) /\ lock_sc (st w') = lock_sc (st w)).
  { unfold tf, terms_of in Htf. inversion Htf. auto. }
  unfold sf_of in E. destruct locked.
  - destruct (Hl eq_refl) as (Hl1 & Hl2 & Hl3).
    destruct (Cover_claim_locked e w A Hi Hc Htok Hne Hl1 Hl2 Hl3 Hst Hcl Hnb Hr) as (w2 & E2 & Hi2 & Hc2 & Hn2 & Hb2).
    rewrite E in E2. inversion E2; subst w2; clear E2.
    split.
    + split; [exact Hi2|]. split; [exact Hc2|]. split; [rewrite Hpt, Hlp; exact Htok|].
      intros _. unfold lock_ok. destruct Hlk as [-> ->]. rewrite Htpt. auto.
    + unfold CoverEq. intros He. rewrite Hlp, Htpt, Hn2.
      unfold CoverInv in Hc. pose proof (ci_win _ _ Hi) as Hw. 
      assert (winning_of (st w) (caller e) <= nr_winning (st w)).
      { rewrite Hw. apply sumN_map_ge. destruct (in_dec N.eq_dec (caller e) A) as [Hin|Hn]; [exact Hin|].
        destruct (ci_support _ _ Hi _ Hn) as [_ Hx]. contradiction. }
      nia.
  - destruct (Cover_claim e w A Hi Hc Htok Hne Hst Hcl Hnb Hr) as (w2 & E2 & Hi2 & Hc2 & Hn2 & _ & Hb2).
    rewrite E in E2. inversion E2; subst w2; clear E2.
    split.
    + split; [exact Hi2|]. split; [exact Hc2|]. split; [rewrite Hpt, Hlp; exact Htok|]. intros Hx; discriminate Hx.
    + unfold CoverEq. intros He. rewrite Hlp, Htpt, Hn2.
      pose proof (ci_win _ _ Hi) as Hw.
      assert (winning_of (st w) (caller e) <= nr_winning (st w)).
      { rewrite Hw. apply sumN_map_ge. destruct (in_dec N.eq_dec (caller e) A) as [Hin|Hn]; [exact Hin|].
        destruct (ci_support _ _ Hi _ Hn) as [_ Hx]. contradiction. }
      nia.
Qed.

Lemma owner_step locked e w w' A :
  CInvs locked w A -> caller e <> sc_addr -> claim_ticket_payment e w = Ok w' ->
  CInvs locked w' A /\ CoverEq w'.
Proof.
  intros (Hi & Hc & Htok & Hl) Hne E.
  destruct (ClaimInv_owner e w w' A Hi Hne Htok E) as (Hi' & _).
  destruct (Cover_owner e w w' A Hi Hne Htok E) as (Hb & Hn & Htpt & Hlp & _).
  pose proof (claim_ticket_payment_tf _ _ _ E) as Htf.
  destruct (tf_price' _ _ Htf) as [_ Hpt].
  assert (Hlk : lock_pct (st w') = lock_pct (st w) /\ lock_sc (st w') = lock_sc (st w)).
  { unfold tf, terms_of in Htf. inversion Htf. auto. }
  assert (He : CoverEq w') by (unfold CoverEq; rewrite Hlp, Htpt, Hn; exact Hb).
  split; [|exact He].
  split; [exact Hi'|]. split; [unfold CoverInv; rewrite He; lia|]. split; [rewrite Hpt, Hlp; exact Htok|].
  intros Hx. destruct (Hl Hx) as (A1 & A2 & A3). unfold lock_ok. destruct Hlk as [-> ->]. rewrite Htpt. auto.
Qed.

Theorem Cover_steps locked w w' A :
  CInvs locked w A -> csteps locked w w' -> CInvs locked w' A /\ (CoverEq w -> CoverEq w').
Proof.
  intros Hc Hs. induction Hs as [w|w w1 w2 H1 _ IH]; [auto|].
  destruct H1 as [e w w1 Hne E|e w w1 Hne E].
  - destruct (claim_step locked e w w1 A Hc Hne E) as [Hc1 He1]. destruct (IH Hc1) as [Hc2 He2]. auto.
  - destruct (owner_step locked e w w1 A Hc Hne E) as [Hc1 He1]. destruct (IH Hc1) as [Hc2 He2]. auto.
Qed.

(** once the owner has withdrawn, whatever happens afterwards the balance is tokens-per-ticket x the
    winning tickets not yet claimed; zero when they all are *)
Theorem Cover_after_owner locked e w w1 w' A :
  CInvs locked w A -> caller e <> sc_addr -> claim_ticket_payment e w = Ok w1 -> csteps locked w1 w' ->
  CInvs locked w' A /\ bal w' sc_addr (lp_token (st w')) 0 = tpt (st w') * nr_winning (st w') /\
  (nr_winning (st w') = 0 -> bal w' sc_addr (lp_token (st w')) 0 = 0).
Proof.
  intros Hc Hne E Hs. destruct (owner_step locked e w w1 A Hc Hne E) as [Hc1 He1].
  destruct (Cover_steps locked w1 w' A Hc1 Hs) as [Hc2 He2]. specialize (He2 He1).
  split; [exact Hc2|]. split; [exact He2|]. intros Hz. unfold CoverEq in He2. rewrite He2, Hz. lia.
Qed.
