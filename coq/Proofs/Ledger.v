(** * C01 / C02: the contract's holdings.
    Payment token: the solvency invariant of the confirmation / selection window and the exact
    accounting of every operation that moves that token.  Launchpad token: the deposit rule and
    the surplus formulas. *)
From LP Require Import Proofs.Tactics Proofs.LedgerBase Proofs.Gates Proofs.Frames Proofs.Settle Proofs.Confirm Proofs.Reserve.
Open Scope N_scope.

Lemma mem_In' x l : mem x l = true <-> In x l.
Proof.
  unfold mem. rewrite existsb_exists. split.
  - intros (y & Hy & E). apply N.eqb_eq in E. now subst.
  - intros H. exists x. split; [assumption|apply N.eqb_refl].
Qed.
Lemma tf_price' s s' : tf s' = tf s -> price s' = price s /\ pay_token s' = pay_token s.
Proof. unfold tf, terms_of. intros E. inversion E. auto. Qed.

(** ** sums of confirmed tickets over a duplicate-free list of participants *)
Definition paysum (s : state) (A : list N) : N := sumN (map (confirmed s) A).

Lemma paysum_ext s s' A : (forall a, In a A -> confirmed s' a = confirmed s a) -> paysum s' A = paysum s A.
Proof.
  unfold paysum. induction A as [|x A IH]; intros Hc; [reflexivity|]. cbn [map]. rewrite !sumN_cons.
  rewrite Hc by (now left). rewrite IH; [reflexivity|]. intros a Ha. apply Hc. now right.
Qed.

Lemma paysum_upd_in s s' A a v :
  NoDup A -> In a A -> confirmed s' a = v -> (forall x, x <> a -> confirmed s' x = confirmed s x) ->
  paysum s' A + confirmed s a = paysum s A + v.
Proof.
  unfold paysum. induction A as [|x A IH]; intros Hnd Hin Hv Ho; [destruct Hin|].
  inversion Hnd as [|? ? Hx Hnd']; subst. cbn [map]. rewrite !sumN_cons.
  destruct Hin as [->|Hin].
  - assert (Hext : sumN (map (confirmed s') A) = sumN (map (confirmed s) A)).
    { apply (paysum_ext s s' A). intros y Hy. apply Ho. intros ->. contradiction. }
    rewrite Hext. lia.
  - assert (x <> a) by (intros ->; contradiction). rewrite (Ho x) by assumption.
    specialize (IH Hnd' Hin eq_refl Ho). lia.
Qed.

(** the solvency invariant of the window in which confirmations exist and selection is not yet
    complete: the contract holds exactly price x (sum of confirmed tickets) of the payment token *)
Record PayInv (w : world) (A : list N) : Prop := {
  pi_nodup : NoDup A;
  pi_support : forall a, ~ In a A -> confirmed (st w) a = 0;
  pi_sc : ~ In sc_addr A;
  pi_bal : bal w sc_addr (pay_token (st w)) 0 = price (st w) * paysum (st w) A
}.

(** operations that touch neither the holdings nor the confirmations nor the price keep it *)
Lemma PayInv_frame w w' A :
  PayInv w A ->
  bal w' sc_addr (pay_token (st w')) 0 = bal w sc_addr (pay_token (st w)) 0 ->
  price (st w') = price (st w) -> (forall a, confirmed (st w') a = confirmed (st w) a) ->
  PayInv w' A.
Proof.
  intros [Hn Hs Hsc Hb] Hbal Hp Hc. constructor; auto.
  - intros a Ha. rewrite Hc. auto.
  - rewrite Hbal, Hb, Hp, (paysum_ext (st w) (st w') A); [reflexivity|]. intros; apply Hc.
Qed.

(** a confirmation (whole transaction: the VM credits the call value, then the endpoint runs) *)
Theorem PayInv_confirm (H : list N -> list N) v e b sd w n w' r A :
  pay_wf (pay e) -> caller e <> sc_addr ->
  PayInv w A ->
  exec H v e b sd w (CConfirm n) = Ok (w', r) ->
  PayInv w' (if mem (caller e) A then A else caller e :: A).
Proof.
  intros Hwf Hcs [Hn Hs Hsc Hb] E. apply (exec_confirm_iff H v e b sd w n w' r Hwf) in E.
  destruct E as (w1 & Hcr & Hcond & -> & _).
  destruct Hcond as (_ & _ & _ & _ & _ & _ & Hpay).
  pose proof (credit_payment_st _ _ _ _ Hcr) as Hst1. unfold reset_outputs in Hst1. cbn in Hst1.
  set (s' := st (confirm_effect e w1 n)).
  assert (F1 : confirmed s' (caller e) = confirmed (st w) (caller e) + n).
  { unfold s', confirm_effect. rewrite st_emit, st_set_st, Hst1. cbn. apply upd_same. }
  assert (F2 : forall x, x <> caller e -> confirmed s' x = confirmed (st w) x).
  { intros x Hx. unfold s', confirm_effect. rewrite st_emit, st_set_st, Hst1. cbn. now apply upd_other. }
  assert (F3 : pay_token s' = pay_token (st w) /\ price s' = price (st w)).
  { unfold s', confirm_effect. rewrite st_emit, st_set_st, Hst1. split; reflexivity. }
  destruct F3 as [Hpt Hpr].
  assert (F4 : bal (confirm_effect e w1 n) = bal w1) by reflexivity.
  assert (Hcred : bal w1 sc_addr (pay_token (st w)) 0 = bal w sc_addr (pay_token (st w)) 0 + price (st w) * n).
  { destruct Hpay as [Hp | (Hp & Ht & Ha)].
    - rewrite Hp in Hcr. cbn in Hcr. apply bind_ok in Hcr. destruct Hcr as (wa & Ht & Hcr). inversion Hcr; subst wa.
      apply transfer_ok in Ht. destruct Ht as [_ ->]. cbn. rewrite bal_after_to by assumption. reflexivity.
    - rewrite Hp in Hcr. cbn in Hcr. inversion Hcr; subst. cbn. lia. }
  fold s'.
  destruct (mem (caller e) A) eqn:Hm.
  - apply mem_In' in Hm. constructor; auto.
    + intros a Ha. fold s'. rewrite F2 by (intros ->; contradiction). auto.
    + fold s'. rewrite F4, Hpt, Hpr, Hcred, Hb.
      pose proof (paysum_upd_in (st w) s' A (caller e) (confirmed (st w) (caller e) + n) Hn Hm F1 F2) as Hsum. nia.
  - assert (Hnin : ~ In (caller e) A) by (intros Hi; apply mem_In' in Hi; congruence).
    constructor.
    + constructor; assumption.
    + intros a Ha. fold s'. rewrite F2 by (intros ->; apply Ha; now left). apply Hs. intros Hi. apply Ha. now right.
    + intros [Hi|Hi]; [congruence|contradiction].
    + fold s'. rewrite F4, Hpt, Hpr, Hcred, Hb. unfold paysum. cbn [map]. rewrite sumN_cons, F1, (Hs _ Hnin).
      assert (Hext : sumN (map (confirmed s') A) = sumN (map (confirmed (st w)) A)).
      { apply (paysum_ext (st w) s' A). intros a Ha. apply F2. intros ->. contradiction. }
      rewrite Hext. lia.
Qed.

(** blacklisting one participant: the refund is exactly what leaves the sum *)
Theorem PayInv_blacklist e w a w' A :
  a <> sc_addr -> PayInv w A -> bl_one e w a = Ok w' -> PayInv w' A.
Proof.
  intros Hasc [Hn Hs Hsc Hb] E. apply bl_one_spec in E. cbn zeta in E.
  destruct E as (_ & _ & _ & Hc0 & Hoth & _ & Htf & _ & _ & _ & _ & Hbal & _).
  destruct (tf_price' _ _ Htf) as [Hpr Hpt].
  constructor; auto.
  - intros x Hx. destruct (N.eq_dec x a) as [->|Hne]; [assumption|]. destruct (Hoth x Hne) as [Hcx _]. rewrite Hcx. auto.
  - rewrite Hpt, Hpr, Hbal.
    destruct (in_dec N.eq_dec a A) as [Hin|Hnin].
    + pose proof (paysum_upd_in (st w) (st w') A a 0 Hn Hin Hc0 (fun x Hx => proj1 (Hoth x Hx))) as Hsum.
      destruct (N.ltb_spec 0 (confirmed (st w) a)).
      * rewrite bal_after_from by (intros Heq; apply Hasc; now rewrite <- Heq). rewrite Hb. nia.
      * rewrite Hb. assert (confirmed (st w) a = 0) by lia. nia.
    + rewrite (Hs a Hnin). change (0 <? 0) with false. cbv iota. rewrite Hb. f_equal.
      symmetry. apply paysum_ext. intros x Hx. apply (Hoth x). intros ->. contradiction.
Qed.

(** ** the claim stage: what leaves the contract *)
(** owner withdrawal (common): exactly the recorded proceeds of the payment token, once; and of the
    launchpad token exactly balance - tokens-per-ticket x unclaimed winners *)
Theorem claim_ticket_payment_spec e w w' :
  claim_ticket_payment e w = Ok w' ->
  let s := st w in
  get_launch_stage e s = Claim /\
  claimable_payment (st w') = 0 /\
  exists b1, b1 = (if 0 <? claimable_payment s
                   then bal_after (bal w) sc_addr (caller e) (pay_token s) 0 (claimable_payment s) else bal w) /\
             tpt s * nr_winning s <= b1 sc_addr (lp_token s) 0 /\
             bal w' = (let extra := b1 sc_addr (lp_token s) 0 - tpt s * nr_winning s in
                       if 0 <? extra then bal_after b1 sc_addr (caller e) (lp_token s) 0 extra else b1).
Proof.
  intros E. pose proof (gate_claim_payment _ _ _ E) as Hs. unfold claim_ticket_payment in E.
  apply bind_ok in E. destruct E as (u & _ & E).
  apply bind_ok in E. destruct E as (w1 & H1 & E).
  cbn zeta. split; [assumption|].
  assert (Hw1 : st w1 = st w <| claimable_payment := 0 |> \/ (st w1 = st w /\ claimable_payment (st w) = 0)).
  { destruct (N.ltb_spec 0 (claimable_payment (st w))); [left|right].
    - apply transfer_ok in H1. destruct H1 as [_ ->]. reflexivity.
    - inversion H1; subst. split; [reflexivity|lia]. }
  assert (Hb1 : bal w1 = (if 0 <? claimable_payment (st w)
                          then bal_after (bal w) sc_addr (caller e) (pay_token (st w)) 0 (claimable_payment (st w)) else bal w)).
  { destruct (N.ltb_spec 0 (claimable_payment (st w))).
    - apply transfer_ok in H1. destruct H1 as [_ ->]. reflexivity.
    - inversion H1; reflexivity. }
  assert (Hf : lp_token (st w1) = lp_token (st w) /\ tpt (st w1) = tpt (st w) /\ nr_winning (st w1) = nr_winning (st w) /\ claimable_payment (st w1) = 0).
  { destruct Hw1 as [-> | [-> Hz]]; cbn; auto. }
  destruct Hf as (F1 & F2 & F3 & F4).
  apply bind_ok in E. destruct E as (ex & Hex & E). apply bsub_ok in Hex. destruct Hex as [Hle ->].
  rewrite F1, F2, F3 in *.
  set (extra := bal w1 sc_addr (lp_token (st w)) 0 - tpt (st w) * nr_winning (st w)) in *.
  assert (Hw' : w' = if 0 <? extra then w1 <| bal := bal_after (bal w1) sc_addr (caller e) (lp_token (st w)) 0 extra |> else w1).
  { destruct (0 <? extra); [apply transfer_ok in E; destruct E as [_ ->]; reflexivity | inversion E; reflexivity]. }
  split.
  { rewrite Hw'. destruct (0 <? extra); cbn; exact F4. }
  eexists. split; [reflexivity|]. rewrite <- Hb1. split; [assumption|].
  rewrite Hw'. fold extra. destruct (0 <? extra); reflexivity.
Qed.

(** what the proceeds are: set when the base selection completes (C03) and increased by the
    additional winners of the distribution step *)
Lemma finish_gt_spec w o :
  claimable_payment (st (finish_gt w o)) = claimable_payment (st w) + price (st w) * g_additional o /\
  nr_winning (st (finish_gt w o)) = nr_winning (st w) + g_additional o /\ bal (finish_gt w o) = bal w.
Proof. unfold finish_gt. rewrite st_set_st. cbn. auto. Qed.

(** ** launchpad token *)
(** the deposit: accepted iff not yet deposited and the call value is one fungible transfer of the
    launchpad token of exactly tokens-per-ticket x (base winners + reserved tickets) *)
Theorem deposit_iff e w n w' :
  pay_wf (pay e) ->
  (deposit_launchpad_tokens e w n = Ok w' <->
   deposited (st w) = false /\ pay e = [(lp_token (st w), 0, tpt (st w) * n)] /\ lp_token (st w) <> egld /\
   w' = set_st w (st w <| deposited := true |> <| total_deposited := tpt (st w) * n |>)).
Proof.
  intros Hwf. unfold deposit_launchpad_tokens, single_fungible_esdt. split.
  - intros E. apply bind_ok in E. destruct E as (u & Hd & E). apply require_ok' in Hd. apply negb_true_iff in Hd.
    apply bind_ok in E. destruct E as ([tok amt] & Hp & E).
    apply bind_ok in E. destruct E as (u2 & Ht & E). apply require_ok' in Ht. apply N.eqb_eq in Ht.
    apply bind_ok in E. destruct E as (u3 & Ha & E). apply require_ok' in Ha. apply N.eqb_eq in Ha.
    inversion E; subst w'. subst tok amt.
    destruct Hwf as [Hp0 | [(a & Hp0) | (Hne & Hall)]].
    + rewrite Hp0 in Hp. discriminate.
    + rewrite Hp0 in Hp. cbn in Hp. discriminate.
    + rewrite (esdt_transfers_all _ Hall) in Hp.
      destruct (pay e) as [|[[t k] a] [|y l]]; try discriminate.
      apply bind_ok in Hp. destruct Hp as (u4 & Hk & Hp). apply require_ok' in Hk. apply N.eqb_eq in Hk.
      inversion Hp; subst. inversion Hall as [|? ? Hx _]; subst. cbn in Hx.
      repeat split; auto.
  - intros (Hd & Hp & Hne & ->). rewrite Hd, Hp. cbn.
    destruct (N.eqb_spec (lp_token (st w)) egld); [contradiction|]. cbn. rewrite ?N.eqb_refl. cbn. rewrite ?N.eqb_refl. cbn. reflexivity.
Qed.

(** a winner's entitlement is tokens-per-ticket x winning tickets, whatever the send function does
    with it (direct, lock split - C16, vesting - C13) *)
Lemma send_launchpad_tokens_amount sf e w a n :
  send_launchpad_tokens sf e w a n = if n =? 0 then Ok w else sf e w a (n * tpt (st w)).
Proof. reflexivity. Qed.

(** owner withdrawal of the vested variants: surplus = deposit - (proceeds / price) x
    tokens-per-ticket, taken once *)
Theorem claim_ticket_payment_gt_spec e w w' :
  claim_ticket_payment_gt e w = Ok w' ->
  let s := st w in
  get_launch_stage e s = Claim /\ claimable_payment (st w') = 0 /\ total_deposited (st w') = 0 /\
  exists b1, b1 = (if 0 <? claimable_payment s
                   then bal_after (bal w) sc_addr (caller e) (pay_token s) 0 (claimable_payment s) else bal w) /\
             bal w' = (let won := claimable_payment s / price s * tpt s in
                       if (total_deposited s =? 0) || (total_deposited s <=? won) then b1
                       else bal_after b1 sc_addr (caller e) (lp_token s) 0 (total_deposited s - won)).
Proof.
  intros E. pose proof (gate_claim_payment_gt _ _ _ E) as Hs. unfold claim_ticket_payment_gt in E.
  apply bind_ok in E. destruct E as (u & _ & E).
  apply bind_ok in E. destruct E as (w1 & H1 & E). cbn zeta in *.
  split; [assumption|].
  assert (Hw1 : (st w1 = st w <| claimable_payment := 0 |> \/ (st w1 = st w /\ claimable_payment (st w) = 0)) /\
                bal w1 = (if 0 <? claimable_payment (st w)
                          then bal_after (bal w) sc_addr (caller e) (pay_token (st w)) 0 (claimable_payment (st w)) else bal w)).
  { destruct (N.ltb_spec 0 (claimable_payment (st w))).
    - apply transfer_ok in H1. destruct H1 as [_ ->]. split; [left|]; reflexivity.
    - inversion H1; subst. split; [right; split; [reflexivity|lia]|reflexivity]. }
  destruct Hw1 as [Hst Hb1].
  assert (Hf : total_deposited (st w1) = total_deposited (st w) /\ price (st w1) = price (st w) /\ tpt (st w1) = tpt (st w) /\
               lp_token (st w1) = lp_token (st w) /\ claimable_payment (st w1) = 0).
  { destruct Hst as [-> | [-> Hz]]; cbn; auto 10. }
  destruct Hf as (F1 & F2 & F3 & F4 & F5). rewrite F1, F2, F3, F4 in E.
  destruct (total_deposited (st w) =? 0) eqn:Hd; cbn [orb].
  { inversion E; subst. rewrite st_set_st. cbn. rewrite F5. split; [reflexivity|]. split; [reflexivity|]. eexists; split; [reflexivity|exact Hb1]. }
  destruct (total_deposited (st w) <=? claimable_payment (st w) / price (st w) * tpt (st w)) eqn:Hw.
  { inversion E; subst. rewrite st_set_st. cbn. rewrite F5. split; [reflexivity|]. split; [reflexivity|]. eexists; split; [reflexivity|exact Hb1]. }
  apply transfer_ok in E. destruct E as [_ ->]. cbn. rewrite F5.
  split; [reflexivity|]. split; [reflexivity|]. eexists; split; [reflexivity|]. rewrite Hb1. reflexivity.
Qed.
