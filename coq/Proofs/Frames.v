(** * Frames: which parts of the configuration an endpoint can change.
    [terms_of]: everything a participant's commitment depends on plus the timeline and the pause
    flag; [flags_of]: the three step flags.  Used by C06, C17, C19. *)
From LP Require Import Proofs.Tactics Proofs.Loop.
Open Scope N_scope.

Definition terms_of (s : state) :=
  (lp_token s, tpt s, pay_token s, price s, support s, paused s, deposited s,
   (nft_tok s, nft_nonce s, nft_amt s, total_nfts s, sft_ready s),
   (lock_pct s, unlock_epoch s, lock_sc s, min_conf s),
   (sched1 s, sched2 s),
   (conf_start s, ws_start s, claim_start s)).
Definition flags_of (s : state) := (fl_filtered s, fl_selected s, fl_additional s).
Definition tf (s : state) := (terms_of s, flags_of s).

(** [f] preserves terms and flags *)
Ltac tf_refl := unfold tf, terms_of, flags_of; cbn; reflexivity.

Lemma transfer_tf w a b t k x w' : transfer w a b t k x = Ok w' -> st w' = st w.
Proof. unfold transfer. destruct (x <=? bal w a t k); [|discriminate]. intros E; inversion E; reflexivity. Qed.

Lemma refund_tf e w a n w' : refund_ticket_payment e w a n = Ok w' -> st w' = st w.
Proof.
  unfold refund_ticket_payment. destruct (n =? 0); [intros E; inversion E; reflexivity|].
  intros E. mon_inv. rewrite st_emit.
  match goal with H : transfer _ _ _ _ _ _ = Ok _ |- _ => apply transfer_tf in H; exact H end.
Qed.

Lemma try_create_tickets_tf s a n s' : try_create_tickets s a n = Ok s' -> tf s' = tf s.
Proof. unfold try_create_tickets. intros E. mon_inv. tf_refl. Qed.

Lemma add_tickets_loop_tf : forall l s s', add_tickets_loop s l = Ok s' -> tf s' = tf s.
Proof.
  induction l as [|[a n] l IH]; intros s s' E; cbn in E; [inversion E; reflexivity|].
  mon_inv. apply IH in E.
  match goal with H : try_create_tickets _ _ _ = Ok _ |- _ => apply try_create_tickets_tf in H end. congruence.
Qed.

Lemma add_tickets_tf e w l w' : add_tickets e w l = Ok w' -> tf (st w') = tf (st w).
Proof. unfold add_tickets. intros E. mon_inv. rewrite st_set_st. eapply add_tickets_loop_tf; eauto. Qed.

Lemma confirm_tf e w n w' : confirm_tickets e w n = Ok w' -> tf (st w') = tf (st w).
Proof. unfold confirm_tickets. intros E. mon_inv. destruct a1. mon_inv. rewrite st_emit, st_set_st. tf_refl. Qed.

Lemma blacklist_loop_tf e : forall l w w', blacklist_loop e w l = Ok w' -> tf (st w') = tf (st w).
Proof.
  induction l as [|a l IH]; intros w w' E; cbn in E; [inversion E; reflexivity|].
  mon_inv. apply IH in E. rewrite E, st_set_st.
  match goal with H : (if _ then _ else _) = Ok _ |- _ => rename H into Hif end.
  destruct (0 <? confirmed (st w) a).
  - mon_inv. match goal with H : refund_ticket_payment _ _ _ _ = Ok ?x |- _ => apply refund_tf in H; rewrite st_set_st, H end. tf_refl.
  - inversion Hif; subst. tf_refl.
Qed.
Lemma add_users_to_blacklist_tf e w l w' : add_users_to_blacklist e w l = Ok w' -> tf (st w') = tf (st w).
Proof. unfold add_users_to_blacklist. intros E. mon_inv. eapply blacklist_loop_tf; eauto. Qed.

Lemma unblacklist_loop_tf : forall l s s', unblacklist_loop s l = Ok s' -> tf s' = tf s.
Proof.
  induction l as [|a l IH]; intros s s' E; cbn in E; [inversion E; reflexivity|].
  mon_inv. apply IH in E. rewrite E. tf_refl.
Qed.
Lemma remove_users_from_blacklist_tf e w l w' : remove_users_from_blacklist e w l = Ok w' -> tf (st w') = tf (st w).
Proof. unfold remove_users_from_blacklist. intros E. mon_inv. rewrite st_set_st. eapply unblacklist_loop_tf; eauto. Qed.

Lemma settle_tf e w w' x : settle_tickets e w = Ok (w', x) -> tf (st w') = tf (st w).
Proof.
  unfold settle_tickets. intros E. mon_inv. destruct a. mon_inv.
  match goal with H : refund_ticket_payment _ _ _ _ = Ok _ |- _ => apply refund_tf in H; rewrite H end.
  rewrite st_set_st.
  match goal with H : (if _ then _ else _) = Ok _ |- _ => rename H into Hif end.
  destruct (0 <? _); mon_inv; tf_refl.
Qed.

Lemma default_send_tf e w a x w' : default_send e w a x = Ok w' -> st w' = st w.
Proof. unfold default_send. apply transfer_tf. Qed.
Lemma send_locked_tf e w a x w' : send_locked_launchpad_tokens e w a x = Ok w' -> st w' = st w.
Proof.
  unfold send_locked_launchpad_tokens. intros E.
  apply bind_ok in E. destruct E as (w1 & H1 & E).
  assert (Hw1 : st w1 = st w).
  { destruct (0 <? lock_amount (st w) e x); [|inversion H1; reflexivity].
    apply bind_ok in H1. destruct H1 as (w0 & Ht & H1). inversion H1; subst. cbn.
    now apply transfer_tf in Ht. }
  destruct (0 <? x - lock_amount (st w) e x); [apply transfer_tf in E; congruence | inversion E; subst; assumption].
Qed.

Lemma claim_launchpad_tokens_tf sf e w w' :
  (forall e w a x w', sf e w a x = Ok w' -> st w' = st w) ->
  claim_launchpad_tokens sf e w = Ok w' -> tf (st w') = tf (st w).
Proof.
  intros Hsf. unfold claim_launchpad_tokens, send_launchpad_tokens. intros E. mon_inv. destruct a1.
  match goal with H : settle_tickets _ _ = Ok _ |- _ => apply settle_tf in H end.
  destruct (n =? 0); [inversion E; subst; assumption|].
  apply Hsf in E. congruence.
Qed.

Lemma claim_ticket_payment_tf e w w' : claim_ticket_payment e w = Ok w' -> tf (st w') = tf (st w).
Proof.
  unfold claim_ticket_payment. intros E.
  apply bind_ok in E. destruct E as (u & _ & E).
  apply bind_ok in E. destruct E as (w1 & H1 & E).
  assert (Ha : tf (st w1) = tf (st w)).
  { destruct (0 <? claimable_payment (st w)); [|inversion H1; reflexivity].
    apply transfer_tf in H1. rewrite H1, st_set_st. tf_refl. }
  apply bind_ok in E. destruct E as (ex & _ & E).
  destruct (0 <? ex); [apply transfer_tf in E; congruence | inversion E; subst; assumption].
Qed.

Lemma deposit_tf e w n w' :
  deposit_launchpad_tokens e w n = Ok w' ->
  st w' = st w <| deposited := true |> <| total_deposited := total_deposited (st w') |> /\ deposited (st w) = false.
Proof.
  unfold deposit_launchpad_tokens. intros E.
  apply bind_ok in E. destruct E as (u & Hd & E).
  apply bind_ok in E. destruct E as ([tok amt] & _ & E). mon_inv.
  rewrite st_set_st. cbn. split; [reflexivity|]. now apply negb_true_iff.
Qed.

(** ** the loops of the selection steps *)
Lemma filter_body_tf last s f r s' f' r' c :
  filter_body last (s, f, r) = Ok (s', f', r', c) -> tf s' = tf s.
Proof.
  unfold filter_body. destruct (f =? last + 1); [intros E; inversion E; reflexivity|].
  destruct (batch s f) as [[a n]|]; [|discriminate]. intros E. mon_inv.
  match goal with H : (if _ then _ else _) = Ok _ |- _ => rename H into Hif end.
  destruct (confirmed s a =? 0); [inversion Hif; subst; tf_refl|].
  destruct ((0 <? r) || (confirmed s a <? n)); mon_inv; tf_refl.
Qed.

Lemma filter_loop_tf last b s f r s' f' r' d b' :
  run_while b (filter_body last) (s, f, r) = Ok (s', f', r', d, b') -> tf s' = tf s.
Proof.
  intros E. change (tf (fst (fst (s', f', r'))) = tf s).
  eapply (run_invariant (filter_body last) (fun x => tf (fst (fst x)) = tf s)); [| |exact E].
  - intros [[sa fa] ra] [[sb fb] rb] c Hf Eb. cbn in *. apply filter_body_tf in Eb. congruence.
  - reflexivity.
Qed.

Lemma filter_tickets_tf e b w w' x :
  filter_tickets e b w = Ok (w', x) ->
  terms_of (st w') = terms_of (st w) /\ fl_selected (st w') = fl_selected (st w) /\
  fl_additional (st w') = fl_additional (st w) /\
  (x = 0 -> fl_filtered (st w') = true) /\ (x <> 0 -> fl_filtered (st w') = fl_filtered (st w)).
Proof.
  unfold filter_tickets. intros E.
  apply bind_ok in E. destruct E as (u1 & _ & E).
  apply bind_ok in E. destruct E as (u2 & _ & E).
  apply bind_ok in E. destruct E as (u3 & _ & E).
  apply bind_ok in E. destruct E as ([f0 r0] & _ & E).
  apply bind_ok in E. destruct E as ([[[[s1 f1] r1] done] bb] & Hrun & E).
  assert (Hs1 : tf s1 = tf (st w)).
  { apply filter_loop_tf in Hrun. rewrite Hrun. tf_refl. }
  unfold tf in Hs1. inversion Hs1 as [[Ht Hfl]]. unfold flags_of in Hfl. inversion Hfl.
  destruct done.
  - apply bind_ok in E. destruct E as (nl & _ & E). inversion E; subst. rewrite st_emit, st_set_st.
    unfold terms_of in *. cbn. inversion Ht. repeat split; auto; try congruence.
  - inversion E; subst. rewrite st_set_st. unfold terms_of in *. cbn. inversion Ht.
    repeat split; auto; try congruence.
Qed.

Section H.
Variable H : list N -> list N.

Lemma select_body_tf nrw last w r p w' r' p' c :
  select_body H nrw last (w, r, p) = Ok (w', r', p', c) -> tf (st w') = tf (st w).
Proof.
  unfold select_body. destruct (nrw =? 0); [intros E; inversion E; reflexivity|].
  unfold shuffle_single_ticket, next_usize_in_range, next_usize. destruct w as [s ? ? ? ? ?]. cbn.
  destruct (p =? nrw); intros E; inversion E; subst; tf_refl.
Qed.

Lemma select_loop_tf nrw last b w r p w' r' p' d b' :
  run_while b (select_body H nrw last) (w, r, p) = Ok (w', r', p', d, b') -> tf (st w') = tf (st w).
Proof.
  intros E. change (tf (st (fst (fst (w', r', p')))) = tf (st w)).
  eapply (run_invariant (select_body H nrw last) (fun x => tf (st (fst (fst x))) = tf (st w))); [| |exact E].
  - intros [[wa ra] pa] [[wb rb] pb] c Hf Eb. cbn in *. apply select_body_tf in Eb. congruence.
  - reflexivity.
Qed.

Lemma select_winners_tf e b w w' x :
  select_winners H e b w = Ok (w', x) ->
  terms_of (st w') = terms_of (st w) /\ fl_filtered (st w') = fl_filtered (st w) /\
  fl_additional (st w') = fl_additional (st w) /\
  (x = 0 -> fl_selected (st w') = true) /\ (x <> 0 -> fl_selected (st w') = fl_selected (st w)).
Proof.
  unfold select_winners. intros E.
  apply bind_ok in E. destruct E as (u1 & _ & E).
  apply bind_ok in E. destruct E as (u2 & _ & E).
  apply bind_ok in E. destruct E as (u3 & _ & E).
  apply bind_ok in E. destruct E as (u4 & _ & E).
  apply bind_ok in E. destruct E as (u5 & _ & E).
  apply bind_ok in E. destruct E as ([[r0 p0] wl] & Hl & E).
  assert (Hwl : st wl = st w).
  { unfold load_select_winners_operation in Hl. destruct (op (st w)); try discriminate.
    - unfold rng_default in Hl. destruct (seeds w); inversion Hl; subst; reflexivity.
    - inversion Hl; subst; reflexivity. }
  apply bind_ok in E. destruct E as ([[[[w1 r1] p1] done] bb] & Hrun & E).
  assert (Hs1 : tf (st w1) = tf (st w)).
  { apply select_loop_tf in Hrun. rewrite Hrun, st_set_st, Hwl. tf_refl. }
  unfold tf in Hs1. inversion Hs1 as [[Ht Hfl]]. unfold flags_of in Hfl. inversion Hfl.
  destruct done; inversion E; subst; rewrite ?st_emit, st_set_st; unfold terms_of in *; cbn; inversion Ht;
    repeat split; auto; try congruence.
Qed.
End H.
