(** * Frames: which parts of the configuration an endpoint can change.
    [terms_of]: everything a participant's commitment depends on plus the timeline and the pause
    flag; [flags_of]: the three step flags.  Used by C06, C17, C19. *)
From LP Require Import Proofs.Tactics Proofs.Loop.
Open Scope N_scope.

Definition terms_of (s : state) :=
  (lp_token s, tpt s, pay_token s, price s, support s, paused s, deposited s,
   (nft_tok s, nft_nonce s, nft_amt s, total_nfts s, sft_ready s),
   (lock_pct s, unlock_epoch s, lock_sc s, min_conf s),
   (sched1 s, sched2 s),
   (conf_start s, ws_start s, claim_start s)).
Definition flags_of (s : state) := (fl_filtered s, fl_selected s, fl_additional s).
Definition tf (s : state) := (terms_of s, flags_of s).

(** [f] preserves terms and flags *)
Ltac tf_refl := unfold tf, terms_of, flags_of; cbn; reflexivity.

Lemma transfer_tf w a b t k x w' : transfer w a b t k x = Ok w' -> st w' = st w.
Proof. unfold transfer. destruct (x <=? bal w a t k); [|discriminate]. intros E; inversion E; reflexivity. Qed.

Lemma refund_tf e w a n w' : refund_ticket_payment e w a n = Ok w' -> st w' = st w.
Proof.
  unfold refund_ticket_payment. destruct (n =? 0); [intros E; inversion E; reflexivity|].
  intros E. mon_inv. rewrite st_emit.
  match goal with H : transfer _ _ _ _ _ _ = Ok _ |- _ => apply transfer_tf in H; exact H end.
Qed.

Lemma try_create_tickets_tf s a n s' : try_create_tickets s a n = Ok s' -> tf s' = tf s.
Proof. unfold try_create_tickets. intros E. mon_inv. tf_refl. Qed.

Lemma add_tickets_loop_tf : forall l s s', add_tickets_loop s l = Ok s' -> tf s' = tf s.
Proof.
  induction l as [|[a n] l IH]; intros s s' E; cbn in E; [inversion E; reflexivity|].
  mon_inv. apply IH in E.
  match goal with H : try_create_tickets _ _ _ = Ok _ |- _ => apply try_create_tickets_tf in H end. congruence.
Qed.

Lemma add_tickets_tf e w l w' : add_tickets e w l = Ok w' -> tf (st w') = tf (st w).
Proof. unfold add_tickets. intros E. mon_inv. rewrite st_set_st. eapply add_tickets_loop_tf; eauto. Qed.

Lemma confirm_tf e w n w' : confirm_tickets e w n = Ok w' -> tf (st w') = tf (st w).
Proof. unfold confirm_tickets. intros E. mon_inv. destruct a1. mon_inv. rewrite st_emit, st_set_st. tf_refl. Qed.

Lemma blacklist_loop_tf e : forall l w w', blacklist_loop e w l = Ok w' -> tf (st w') = tf (st w).
Proof.
  induction l as [|a l IH]; intros w w' E; cbn in E; [inversion E; reflexivity|].
  mon_inv. apply IH in E. rewrite E, st_set_st.
  match goal with H : (if _ then _ else _) = Ok _ |- _ => rename H into Hif end.
  destruct (0 <? confirmed (st w) a).
  - mon_inv. match goal with H : refund_ticket_payment _ _ _ _ = Ok ?x |- _ => apply refund_tf in H; rewrite st_set_st, H end. tf_refl.
  - inversion Hif; subst. tf_refl.
Qed.
Lemma add_users_to_blacklist_tf e w l w' : add_users_to_blacklist e w l = Ok w' -> tf (st w') = tf (st w).
Proof. unfold add_users_to_blacklist. intros E. mon_inv. eapply blacklist_loop_tf; eauto. Qed.

Lemma unblacklist_loop_tf : forall l s s', unblacklist_loop s l = Ok s' -> tf s' = tf s.
Proof.
  induction l as [|a l IH]; intros s s' E; cbn in E; [inversion E; reflexivity|].
  mon_inv. apply IH in E. rewrite E. tf_refl.
Qed.
Lemma remove_users_from_blacklist_tf e w l w' : remove_users_from_blacklist e w l = Ok w' -> tf (st w') = tf (st w).
Proof. unfold remove_users_from_blacklist. intros E. mon_inv. rewrite st_set_st. eapply unblacklist_loop_tf; eauto. Qed.

Lemma settle_tf e w w' x : settle_tickets e w = Ok (w', x) -> tf (st w') = tf (st w).
Proof.
  unfold settle_tickets. intros E. mon_inv. destruct a. mon_inv.
  match goal with H : refund_ticket_payment _ _ _ _ = Ok _ |- _ => apply refund_tf in H; rewrite H end.
  rewrite st_set_st.
  match goal with H : (if _ then _ else _) = Ok _ |- _ => rename H into Hif end.
  destruct (0 <? _); mon_inv; tf_refl.
Qed.

Lemma default_send_tf e w a x w' : default_send e w a x = Ok w' -> st w' = st w.
Proof. unfold default_send. apply transfer_tf. Qed.
Lemma send_locked_tf e w a x w' : send_locked_launchpad_tokens e w a x = Ok w' -> st w' = st w.
Proof.
  unfold send_locked_launchpad_tokens. intros E.
  apply bind_ok in E. destruct E as (w1 & H1 & E).
  assert (Hw1 : st w1 = st w).
  { destruct (0 <? lock_amount (st w) e x); [|inversion H1; reflexivity].
    apply bind_ok in H1. destruct H1 as (w0 & Ht & H1). inversion H1; subst. cbn.
    now apply transfer_tf in Ht. }
  destruct (0 <? x - lock_amount (st w) e x); [apply transfer_tf in E; congruence | inversion E; subst; assumption].
Qed.

Lemma claim_launchpad_tokens_tf sf e w w' :
  (forall e w a x w', sf e w a x = Ok w' -> st w' = st w) ->
  claim_launchpad_tokens sf e w = Ok w' -> tf (st w') = tf (st w).
Proof.
  intros Hsf. unfold claim_launchpad_tokens, send_launchpad_tokens. intros E. mon_inv.
  match goal with Hx : settle_tickets _ _ = Ok ?a |- _ => destruct a end.
  match goal with H : settle_tickets _ _ = Ok _ |- _ => apply settle_tf in H end.
  destruct (n =? 0); [inversion E; subst; assumption|].
  apply Hsf in E. congruence.
Qed.

Lemma claim_ticket_payment_tf e w w' : claim_ticket_payment e w = Ok w' -> tf (st w') = tf (st w).
Proof.
  unfold claim_ticket_payment. intros E.
  apply bind_ok in E. destruct E as (u & _ & E).
  apply bind_ok in E. destruct E as (w1 & H1 & E).
  assert (Ha : tf (st w1) = tf (st w)).
  { destruct (0 <? claimable_payment (st w)); [|inversion H1; reflexivity].
    apply transfer_tf in H1. rewrite H1, st_set_st. tf_refl. }
  apply bind_ok in E. destruct E as (ex & _ & E).
  destruct (0 <? ex); [apply transfer_tf in E; congruence | inversion E; subst; assumption].
Qed.

Lemma deposit_tf e w n w' :
  deposit_launchpad_tokens e w n = Ok w' ->
  st w' = st w <| deposited := true |> <| total_deposited := total_deposited (st w') |> /\ deposited (st w) = false.
Proof.
  unfold deposit_launchpad_tokens. intros E.
  apply bind_ok in E. destruct E as (u & Hd & E).
  apply bind_ok in E. destruct E as ([tok amt] & _ & E). mon_inv.
  rewrite st_set_st. cbn. split; [reflexivity|]. now apply negb_true_iff.
Qed.

(** ** the loops of the selection steps *)
Lemma filter_body_tf last s f r s' f' r' c :
  filter_body last (s, f, r) = Ok (s', f', r', c) -> tf s' = tf s.
Proof.
  unfold filter_body. destruct (f =? last + 1); [intros E; inversion E; reflexivity|].
  destruct (batch s f) as [[a n]|]; [|discriminate]. intros E. mon_inv.
  match goal with H : (if _ then _ else _) = Ok _ |- _ => rename H into Hif end.
  destruct (confirmed s a =? 0); [inversion Hif; subst; tf_refl|].
  destruct ((0 <? r) || (confirmed s a <? n)); mon_inv; tf_refl.
Qed.

Lemma filter_loop_tf last b s f r s' f' r' d b' :
  run_while b (filter_body last) (s, f, r) = Ok (s', f', r', d, b') -> tf s' = tf s.
Proof.
  intros E. change (tf (fst (fst (s', f', r'))) = tf s).
  eapply (run_invariant (filter_body last) (fun x => tf (fst (fst x)) = tf s)); [| |exact E].
  - intros [[sa fa] ra] [[sb fb] rb] c Hf Eb. cbn in *. apply filter_body_tf in Eb. congruence.
  - reflexivity.
Qed.

Lemma filter_tickets_tf e b w w' x :
  filter_tickets e b w = Ok (w', x) ->
  terms_of (st w') = terms_of (st w) /\ fl_selected (st w') = fl_selected (st w) /\
  fl_additional (st w') = fl_additional (st w) /\
  (x = 0 -> fl_filtered (st w') = true) /\ (x <> 0 -> fl_filtered (st w') = fl_filtered (st w)).
Proof.
  unfold filter_tickets. intros E.
  apply bind_ok in E. destruct E as (u1 & _ & E).
  apply bind_ok in E. destruct E as (u2 & _ & E).
  apply bind_ok in E. destruct E as (u3 & _ & E).
  apply bind_ok in E. destruct E as ([f0 r0] & _ & E).
  apply bind_ok in E. destruct E as ([[[[s1 f1] r1] done] bb] & Hrun & E).
  assert (Hs1 : tf s1 = tf (st w)).
  { apply filter_loop_tf in Hrun. rewrite Hrun. tf_refl. }
  unfold tf in Hs1. inversion Hs1 as [[Ht Hfl]]. unfold flags_of in Hfl. inversion Hfl.
  destruct done.
  - apply bind_ok in E. destruct E as (nl & _ & E). inversion E; subst. rewrite st_emit, st_set_st.
    unfold terms_of in *. cbn. inversion Ht. repeat split; auto; try congruence.
  - inversion E; subst. rewrite st_set_st. unfold terms_of in *. cbn. inversion Ht.
    repeat split; auto; try congruence.
Qed.

Section H.
Variable H : list N -> list N.

Lemma select_body_tf nrw last w r p w' r' p' c :
  select_body H nrw last (w, r, p) = Ok (w', r', p', c) -> tf (st w') = tf (st w).
Proof.
  unfold select_body. destruct (nrw =? 0); [intros E; inversion E; reflexivity|].
  unfold shuffle_single_ticket, next_usize_in_range, next_usize. destruct w as [s ? ? ? ? ?]. cbn.
  destruct (p =? nrw); intros E; inversion E; subst; tf_refl.
Qed.

Lemma select_loop_tf nrw last b w r p w' r' p' d b' :
  run_while b (select_body H nrw last) (w, r, p) = Ok (w', r', p', d, b') -> tf (st w') = tf (st w).
Proof.
  intros E. change (tf (st (fst (fst (w', r', p')))) = tf (st w)).
  eapply (run_invariant (select_body H nrw last) (fun x => tf (st (fst (fst x))) = tf (st w))); [| |exact E].
  - intros [[wa ra] pa] [[wb rb] pb] c Hf Eb. cbn in *. apply select_body_tf in Eb. congruence.
  - reflexivity.
Qed.

Lemma select_winners_tf e b w w' x :
  select_winners H e b w = Ok (w', x) ->
  terms_of (st w') = terms_of (st w) /\ fl_filtered (st w') = fl_filtered (st w) /\
  fl_additional (st w') = fl_additional (st w) /\
  (x = 0 -> fl_selected (st w') = true) /\ (x <> 0 -> fl_selected (st w') = fl_selected (st w)).
Proof.
  unfold select_winners. intros E.
  apply bind_ok in E. destruct E as (u1 & _ & E).
  apply bind_ok in E. destruct E as (u2 & _ & E).
  apply bind_ok in E. destruct E as (u3 & _ & E).
  apply bind_ok in E. destruct E as (u4 & _ & E).
  apply bind_ok in E. destruct E as (u5 & _ & E).
  apply bind_ok in E. destruct E as ([[r0 p0] wl] & Hl & E).
  assert (Hwl : st wl = st w).
  { unfold load_select_winners_operation in Hl. destruct (op (st w)); try discriminate.
    - unfold rng_default in Hl. destruct (seeds w); inversion Hl; subst; reflexivity.
    - inversion Hl; subst; reflexivity. }
  apply bind_ok in E. destruct E as ([[[[w1 r1] p1] done] bb] & Hrun & E).
  assert (Hs1 : tf (st w1) = tf (st w)).
  { apply select_loop_tf in Hrun. rewrite Hrun, st_set_st, Hwl. tf_refl. }
  unfold tf in Hs1. inversion Hs1 as [[Ht Hfl]]. unfold flags_of in Hfl. inversion Hfl.
  destruct done; inversion E; subst; rewrite ?st_emit, st_set_st; unfold terms_of in *; cbn; inversion Ht;
    repeat split; auto; try congruence.
Qed.
End H.

(** ** guaranteed tickets *)
Ltac break_in E :=
  repeat (match type of E with
          | context [match ?x with _ => _ end] => destruct x eqn:?
          | context [if ?x then _ else _] => destruct x eqn:?
          end; try discriminate E).

Lemma add_one_v1_tf minc s tw tg x s' tw' tg' :
  add_one_v1 minc (s, tw, tg) x = Ok (s', tw', tg') -> tf s' = tf s.
Proof.
  destruct x as [[[buyer staking] energy] mig]. unfold add_one_v1. intros E.
  apply bind_ok in E. destruct E as (u1 & _ & E).
  apply bind_ok in E. destruct E as (u2 & _ & E).
  apply bind_ok in E. destruct E as (s1 & Hc & E). apply try_create_tickets_tf in Hc.
  apply bind_ok in E. destruct E as ([[[s2 tw2] tg2] us2] & H1 & E).
  apply bind_ok in E. destruct E as ([[[s3 tw3] tg3] us3] & H2 & E).
  inversion E; subst.
  assert (tf s2 = tf s1) by (break_in H1; mon_inv; tf_refl).
  assert (tf s3 = tf s2) by (break_in H2; mon_inv; tf_refl).
  transitivity (tf s3); [tf_refl|congruence].
Qed.

Lemma add_loop_v1_tf minc : forall l s tw tg s' tw' tg',
  add_loop_v1 minc (s, tw, tg) l = Ok (s', tw', tg') -> tf s' = tf s.
Proof.
  induction l as [|x l IH]; intros s tw tg s' tw' tg' E; cbn in E; [inversion E; reflexivity|].
  apply bind_ok in E. destruct E as ([[s1 tw1] tg1] & H1 & E).
  apply add_one_v1_tf in H1. apply IH in E. congruence.
Qed.

Lemma add_tickets_v1_tf e w l w' : add_tickets_v1 e w l = Ok w' -> tf (st w') = tf (st w).
Proof.
  unfold add_tickets_v1. intros E.
  apply bind_ok in E. destruct E as (u1 & _ & E).
  apply bind_ok in E. destruct E as ([[s1 tw1] tg1] & H1 & E). inversion E; subst.
  apply add_loop_v1_tf in H1. rewrite st_set_st. transitivity (tf s1); [tf_refl|assumption].
Qed.

Lemma add_one_v2_tf acc x acc' :
  add_one_v2 acc x = Ok acc' -> tf (fst (fst (fst (fst (fst acc'))))) = tf (fst (fst (fst (fst (fst acc))))).
Proof.
  destruct acc as [[[[[s tw] tg] uc] ta] ga]. destruct x as [[buyer allowance] infos].
  unfold add_one_v2. intros E. destruct (allowance =? 0); [inversion E; reflexivity|].
  apply bind_ok in E. destruct E as (u1 & _ & E).
  apply bind_ok in E. destruct E as (u2 & _ & E).
  apply bind_ok in E. destruct E as (u3 & _ & E).
  apply bind_ok in E. destruct E as (s1 & Hc & E). apply try_create_tickets_tf in Hc.
  apply bind_ok in E. destruct E as (u4 & _ & E).
  destruct (0 <? infos_sum infos).
  - apply bind_ok in E. destruct E as (u5 & _ & E). inversion E; subst. cbn [fst].
    transitivity (tf s1); [tf_refl|assumption].
  - inversion E; subst. cbn [fst]. transitivity (tf s1); [tf_refl|assumption].
Qed.

Lemma add_loop_v2_tf : forall l acc acc',
  add_loop_v2 acc l = Ok acc' -> tf (fst (fst (fst (fst (fst acc'))))) = tf (fst (fst (fst (fst (fst acc))))).
Proof.
  induction l as [|x l IH]; intros acc acc' E; cbn in E; [inversion E; reflexivity|].
  apply bind_ok in E. destruct E as (u & _ & E).
  apply bind_ok in E. destruct E as (acc1 & H1 & E).
  apply add_one_v2_tf in H1. apply IH in E. congruence.
Qed.

Lemma add_tickets_v2_tf e w l w' : add_tickets_v2 e w l = Ok w' -> tf (st w') = tf (st w).
Proof.
  unfold add_tickets_v2. intros E.
  apply bind_ok in E. destruct E as (u1 & _ & E).
  apply bind_ok in E. destruct E as ([[[[[s1 tw] tg] uc] ta] ga] & H1 & E). inversion E; subst.
  apply add_loop_v2_tf in H1. cbn [fst] in H1. rewrite st_emit, st_set_st.
  transitivity (tf s1); [tf_refl|assumption].
Qed.

Lemma clear_gt_loop_v1_tf : forall l s a b s' a' b', clear_gt_loop_v1 (s, a, b) l = Ok (s', a', b') -> tf s' = tf s.
Proof.
  induction l as [|u l IH]; intros s a b s' a' b' E; cbn in E; [inversion E; reflexivity|].
  destruct (mem u (gt_users s)); [|eapply IH; eauto].
  apply bind_ok in E. destruct E as (x1 & _ & E). apply bind_ok in E. destruct E as (x2 & _ & E).
  apply IH in E. rewrite E. tf_refl.
Qed.
Lemma clear_gt_after_blacklist_v1_tf w l w' : clear_gt_after_blacklist_v1 w l = Ok w' -> tf (st w') = tf (st w).
Proof.
  unfold clear_gt_after_blacklist_v1. intros E.
  apply bind_ok in E. destruct E as ([[s1 rm] tg] & H1 & E). inversion E; subst.
  apply clear_gt_loop_v1_tf in H1. rewrite st_set_st. destruct (0 <? rm); (transitivity (tf s1); [tf_refl|assumption]).
Qed.
Lemma clear_gt_loop_v2_tf : forall l s a b s' a' b', clear_gt_loop_v2 (s, a, b) l = Ok (s', a', b') -> tf s' = tf s.
Proof.
  induction l as [|u l IH]; intros s a b s' a' b' E; cbn in E; [inversion E; reflexivity|].
  apply bind_ok in E. destruct E as (x1 & _ & E). apply IH in E. rewrite E. tf_refl.
Qed.
Lemma clear_gt_after_blacklist_v2_tf w l w' : clear_gt_after_blacklist_v2 w l = Ok w' -> tf (st w') = tf (st w).
Proof.
  unfold clear_gt_after_blacklist_v2. intros E.
  apply bind_ok in E. destruct E as ([[s1 rm] tg] & H1 & E). inversion E; subst.
  apply clear_gt_loop_v2_tf in H1. rewrite st_set_st. transitivity (tf s1); [tf_refl|assumption].
Qed.
Lemma unbl_gt_loop_v1_tf : forall l s a b s' a' b', unbl_gt_loop_v1 (s, a, b) l = Ok (s', a', b') -> tf s' = tf s.
Proof.
  induction l as [|u l IH]; intros s a b s' a' b' E; cbn in E; [inversion E; reflexivity|].
  match type of E with (if ?c then _ else _) = _ => destruct c end; [eapply IH; eauto|].
  destruct (mem u (gt_users s)); [eapply IH; eauto|].
  apply bind_ok in E. destruct E as (x0 & _ & E).
  apply bind_ok in E. destruct E as (x1 & _ & E). apply bind_ok in E. destruct E as (x2 & _ & E).
  apply IH in E. rewrite E. tf_refl.
Qed.
Lemma unblacklist_gt_v1_tf w l w' : unblacklist_gt_v1 w l = Ok w' -> tf (st w') = tf (st w).
Proof.
  unfold unblacklist_gt_v1. intros E.
  apply bind_ok in E. destruct E as ([[s1 rm] tg] & H1 & E). inversion E; subst.
  apply unbl_gt_loop_v1_tf in H1. rewrite st_set_st. transitivity (tf s1); [tf_refl|assumption].
Qed.
Lemma unbl_gt_loop_v2_tf : forall l s a b s' a' b', unbl_gt_loop_v2 (s, a, b) l = Ok (s', a', b') -> tf s' = tf s.
Proof.
  induction l as [|u l IH]; intros s a b s' a' b' E; cbn in E; [inversion E; reflexivity|].
  destruct (range s u); [|eapply IH; eauto].
  apply bind_ok in E. destruct E as ([[s1 nw1] tg1] & H1 & E).
  apply IH in E. rewrite E.
  destruct (0 <? _); mon_inv; tf_refl.
Qed.
Lemma unblacklist_gt_v2_tf w l w' : unblacklist_gt_v2 w l = Ok w' -> tf (st w') = tf (st w).
Proof.
  unfold unblacklist_gt_v2. intros E.
  apply bind_ok in E. destruct E as ([[s1 rm] tg] & H1 & E). inversion E; subst.
  apply unbl_gt_loop_v2_tf in H1. rewrite st_set_st. transitivity (tf s1); [tf_refl|assumption].
Qed.

Lemma topup_v2_tf : forall ids s r a s' r' a', topup_v2 ids s r a = (s', r', a') -> tf s' = tf s.
Proof.
  induction ids as [|t ids IH]; intros s r a s' r' a' E; cbn in E; [inversion E; reflexivity|].
  destruct (r =? 0); [inversion E; reflexivity|]. destruct (status s t); [eapply IH; eauto|].
  apply IH in E. rewrite E. tf_refl.
Qed.

Lemma gt_user_step_tf (v2 : bool) s o u (s' : state) (o' : gtop) :
  (if v2 then gt_user_step_v2 s o u else gt_user_step_v1 s o u) = (s', o') -> tf s' = tf s.
Proof.
  destruct v2.
  - unfold gt_user_step_v2. intros E. break_in E; inversion E; subst; try reflexivity.
    eapply topup_v2_tf; eauto.
  - unfold gt_user_step_v1. intros E. break_in E; inversion E; subst; try reflexivity;
      eapply topup_v2_tf; eauto.
Qed.

Lemma select_gt_body_tf v2 s o n s' o' n' c :
  select_gt_body v2 (s, o, n) = Ok (s', o', n', c) -> tf s' = tf s.
Proof.
  unfold select_gt_body. destruct (n =? 0); [intros E; inversion E; reflexivity|].
  destruct (gt_users s) as [|u l]; [discriminate|].
  destruct (if v2 then _ else _) as [s2 o2] eqn:Es. intros E; inversion E; subst.
  apply gt_user_step_tf in Es. rewrite Es. tf_refl.
Qed.

Section H2.
Variable H : list N -> list N.

Lemma try_select_tf v2 w r cur last tr r' w' :
  try_select_winning_ticket H v2 w r cur last = (tr, r', w') -> tf (st w') = tf (st w).
Proof.
  unfold try_select_winning_ticket, next_usize_in_range, next_usize. destruct w as [s ? ? ? ? ?]. cbn.
  intros E. break_in E; inversion E; subst; tf_refl.
Qed.

Lemma leftover_body_tf v2 nrw last w o w' o' c :
  leftover_body H v2 nrw last (w, o) = Ok (w', o', c) -> tf (st w') = tf (st w).
Proof.
  unfold leftover_body. intros E.
  destruct (g_leftover _ =? 0); [inversion E; reflexivity|].
  destruct (try_select_winning_ticket _ _ _ _ _ _) as [[tr r'] w1] eqn:Et.
  apply try_select_tf in Et. destruct tr; inversion E; subst; assumption.
Qed.

Lemma gt_distribution_tf v2 b w o w' o' d b' :
  gt_distribution H v2 b w o = Ok (w', o', d, b') -> tf (st w') = tf (st w).
Proof.
  unfold gt_distribution. intros E.
  apply bind_ok in E. destruct E as ([[[[s1 o1] n1] d1] b1] & H1 & E).
  assert (Hs1 : tf s1 = tf (st w)).
  { change (tf (fst (fst (s1, o1, n1))) = tf (st w)).
    eapply (run_invariant (select_gt_body v2) (fun x => tf (fst (fst x)) = tf (st w))); [| |exact H1].
    - intros [[sa oa] na] [[sb ob] nb] c Hf Eb. cbn in *. apply select_gt_body_tf in Eb. congruence.
    - reflexivity. }
  destruct d1; cbn [negb] in E.
  - apply bind_ok in E. destruct E as ([[[w2 o2] d2] b2] & H2 & E). inversion E; subst.
    change (tf (st (fst (w', o'))) = tf (st w)).
    eapply (run_invariant (leftover_body H v2 (nr_winning s1) (last_ticket_id s1)) (fun x => tf (st (fst x)) = tf (st w))); [| |exact H2].
    + intros [wa oa] [wb ob] c Hf Eb. cbn in *. apply leftover_body_tf in Eb. congruence.
    + cbn. exact Hs1.
  - inversion E; subst. rewrite ?st_set_st. exact Hs1.
Qed.

Lemma load_gt_op_st w o w' : load_gt_op w = Ok (o, w') -> st w' = st w.
Proof.
  unfold load_gt_op. destruct (op (st w)) as [| | |d]; try discriminate.
  - unfold rng_default. destruct (seeds w); intros E; inversion E; reflexivity.
  - destruct d; try discriminate. intros E; inversion E; reflexivity.
Qed.

Lemma distribute_tf v2 e b w w' x :
  distribute_guaranteed_tickets H v2 e b w = Ok (w', x) ->
  terms_of (st w') = terms_of (st w) /\ fl_filtered (st w') = fl_filtered (st w) /\
  fl_selected (st w') = fl_selected (st w) /\
  (x = 0 -> fl_additional (st w') = true) /\ (x <> 0 -> fl_additional (st w') = fl_additional (st w)).
Proof.
  unfold distribute_guaranteed_tickets. intros E.
  apply bind_ok in E. destruct E as (u1 & _ & E).
  apply bind_ok in E. destruct E as (u2 & _ & E).
  apply bind_ok in E. destruct E as (u3 & _ & E).
  apply bind_ok in E. destruct E as (u4 & _ & E).
  apply bind_ok in E. destruct E as (u5 & _ & E).
  apply bind_ok in E. destruct E as ([o0 wl] & Hl & E). apply load_gt_op_st in Hl.
  apply bind_ok in E. destruct E as ([[[w1 o1] d1] b1] & Hd & E).
  apply gt_distribution_tf in Hd. rewrite st_set_st, Hl in Hd.
  assert (Hs1 : tf (st w1) = tf (st w)) by (rewrite Hd; tf_refl).
  unfold tf in Hs1. inversion Hs1 as [[Ht Hfl]]. unfold flags_of in Hfl. inversion Hfl.
  destruct d1; inversion E; subst.
  - destruct v2; rewrite ?st_emit; unfold finish_gt; rewrite !st_set_st; unfold terms_of in *; cbn;
      inversion Ht; repeat split; auto; try congruence.
  - rewrite st_set_st. unfold terms_of in *. cbn. inversion Ht. repeat split; auto; try congruence.
Qed.
End H2.

(** ** vesting, NFT *)
Lemma compute_launchpad_results_tf e w w' : compute_launchpad_results e w = Ok w' -> tf (st w') = tf (st w).
Proof.
  unfold compute_launchpad_results. intros E.
  apply bind_ok in E. destruct E as (u & _ & E).
  apply bind_ok in E. destruct E as ([w1 wins] & Hs & E). apply settle_tf in Hs.
  destruct (0 <? wins); inversion E; subst; rewrite ?st_set_st; [|assumption].
  transitivity (tf (st w1)); [tf_refl|assumption].
Qed.

Lemma claim_vested_tf v2 e w w' : claim_vested v2 e w = Ok w' -> tf (st w') = tf (st w).
Proof.
  unfold claim_vested. intros E.
  apply bind_ok in E. destruct E as (u & _ & E).
  apply bind_ok in E. destruct E as (w1 & H1 & E).
  assert (Hw1 : tf (st w1) = tf (st w)).
  { destruct (claimed (st w) (caller e)); [inversion H1; reflexivity | now apply compute_launchpad_results_tf in H1]. }
  apply bind_ok in E. destruct E as (amt & _ & E).
  destruct (0 <? amt); [|inversion E; subst; assumption].
  apply bind_ok in E. destruct E as (w2 & Ht & E). apply transfer_tf in Ht.
  inversion E; subst. destruct v2; rewrite ?st_emit, st_set_st, Ht; (transitivity (tf (st w1)); [tf_refl|assumption]).
Qed.

Lemma claim_ticket_payment_gt_tf e w w' : claim_ticket_payment_gt e w = Ok w' -> tf (st w') = tf (st w).
Proof.
  unfold claim_ticket_payment_gt. intros E.
  apply bind_ok in E. destruct E as (u & _ & E).
  apply bind_ok in E. destruct E as (w1 & H1 & E).
  assert (Hw1 : tf (st w1) = tf (st w)).
  { destruct (0 <? claimable_payment (st w)); [|inversion H1; reflexivity].
    apply transfer_tf in H1. rewrite H1, st_set_st. tf_refl. }
  cbn zeta in E. destruct (total_deposited (st w1) =? 0); [inversion E; subst; rewrite st_set_st; rewrite <- Hw1; tf_refl|].
  destruct (_ <=? _); [inversion E; subst; rewrite st_set_st; rewrite <- Hw1; tf_refl|].
  apply transfer_tf in E. rewrite E, st_set_st, <- Hw1. tf_refl.
Qed.

Lemma confirm_nft_tf e w w' : confirm_nft e w = Ok w' -> tf (st w') = tf (st w).
Proof.
  unfold confirm_nft. intros E.
  apply bind_ok in E. destruct E as (u1 & _ & E). apply bind_ok in E. destruct E as (u2 & _ & E).
  apply bind_ok in E. destruct E as (u3 & _ & E). apply bind_ok in E. destruct E as (u4 & _ & E).
  apply bind_ok in E. destruct E as ([[t n] a] & _ & E).
  apply bind_ok in E. destruct E as (u5 & _ & E). inversion E; subst. rewrite st_set_st. tf_refl.
Qed.

Lemma refund_nft_loop_tf : forall l w w', refund_nft_loop w l = Ok w' -> tf (st w') = tf (st w).
Proof.
  induction l as [|u l IH]; intros w w' E; cbn in E; [inversion E; reflexivity|].
  destruct (mem u (nft_payers (st w))); [|eapply IH; eauto].
  apply bind_ok in E. destruct E as (w1 & Ht & E). apply transfer_tf in Ht. apply IH in E.
  rewrite E, Ht, st_set_st. tf_refl.
Qed.

Lemma claim_nft_payment_tf e w w' : claim_nft_payment e w = Ok w' -> tf (st w') = tf (st w).
Proof.
  unfold claim_nft_payment. intros E.
  apply bind_ok in E. destruct E as (u1 & _ & E).
  destruct (0 <? claimable_nft (st w)); [|inversion E; reflexivity].
  apply bind_ok in E. destruct E as (w1 & Ht & E). apply transfer_tf in Ht.
  inversion E; subst. rewrite st_set_st, Ht. tf_refl.
Qed.

Lemma claim_nft_tf e w w' : claim_nft e w = Ok w' -> tf (st w') = tf (st w).
Proof.
  unfold claim_nft. intros E.
  destruct (mem (caller e) (nft_winners (st w))).
  - apply bind_ok in E. destruct E as (u & _ & E). cbn in E. inversion E; subst. tf_refl.
  - destruct (mem (caller e) (nft_payers (st w))).
    + apply bind_ok in E. destruct E as (u & _ & E). cbn in E. apply transfer_tf in E. rewrite E. tf_refl.
    + apply bind_ok in E. destruct E as (u & _ & E). cbn in E. inversion E; subst. tf_refl.
Qed.

Section H3.
Variable H : list N -> list N.

Lemma nft_body_tf total w r ul sel w' r' ul' sel' c :
  nft_body H total (w, r, ul, sel) = Ok (w', r', ul', sel', c) -> tf (st w') = tf (st w).
Proof.
  unfold nft_body, next_usize_in_range, next_usize. destruct w as [s ? ? ? ? ?]. cbn.
  intros E. break_in E; inversion E; subst; tf_refl.
Qed.

Lemma select_nft_winners_tf b w r w' r' d b' :
  select_nft_winners H b w r = Ok (w', r', d, b') -> tf (st w') = tf (st w).
Proof.
  unfold select_nft_winners. intros E.
  apply bind_ok in E. destruct E as ([[[[[w1 r1] u1] s1] d1] b1] & Hr & E). inversion E; subst.
  change (tf (st (fst (fst (fst (w', r', u1, s1))))) = tf (st w)).
  eapply (run_invariant (nft_body H (total_nfts (st w))) (fun x => tf (st (fst (fst (fst x)))) = tf (st w))); [| |exact Hr].
  - intros [[[wa ra] ua] sa] [[[wb rb] ub] sb] c Hf Eb. cbn in *. apply nft_body_tf in Eb. congruence.
  - reflexivity.
Qed.

Lemma select_nft_endpoint_tf e b w w' x :
  select_nft_winners_endpoint H e b w = Ok (w', x) ->
  terms_of (st w') = terms_of (st w) /\ fl_filtered (st w') = fl_filtered (st w) /\
  fl_selected (st w') = fl_selected (st w) /\
  (x = 0 -> fl_additional (st w') = true) /\ (x <> 0 -> fl_additional (st w') = fl_additional (st w)).
Proof.
  unfold select_nft_winners_endpoint. intros E.
  apply bind_ok in E. destruct E as (u1 & _ & E).
  apply bind_ok in E. destruct E as (u2 & _ & E).
  apply bind_ok in E. destruct E as (u3 & _ & E).
  apply bind_ok in E. destruct E as ([r0 wl] & Hl & E).
  assert (Hwl : st wl = st w).
  { destruct (op (st w)) as [| | |d]; try discriminate.
    - unfold rng_default in Hl. destruct (seeds w); inversion Hl; reflexivity.
    - destruct d; try discriminate. inversion Hl; reflexivity. }
  apply bind_ok in E. destruct E as ([[[w1 r1] d1] b1] & Hs & E).
  apply select_nft_winners_tf in Hs. rewrite st_set_st, Hwl in Hs.
  assert (Hs1 : tf (st w1) = tf (st w)) by (rewrite Hs; tf_refl).
  unfold tf in Hs1. inversion Hs1 as [[Ht Hfl]]. unfold flags_of in Hfl. inversion Hfl.
  destruct d1; inversion E; subst; unfold set_claimable_nft; rewrite ?st_set_st; unfold terms_of in *; cbn;
    inversion Ht; repeat split; auto; try congruence.
Qed.

Lemma secondary_tf e b w w' x :
  secondary_selection_step H e b w = Ok (w', x) ->
  terms_of (st w') = terms_of (st w) /\ fl_filtered (st w') = fl_filtered (st w) /\
  fl_selected (st w') = fl_selected (st w) /\
  (x = 0 -> fl_additional (st w') = true) /\ (x <> 0 -> fl_additional (st w') = fl_additional (st w)).
Proof.
  unfold secondary_selection_step. intros E.
  apply bind_ok in E. destruct E as (u1 & _ & E).
  apply bind_ok in E. destruct E as (u2 & _ & E).
  apply bind_ok in E. destruct E as (u3 & _ & E).
  apply bind_ok in E. destruct E as ([cur wl] & Hl & E).
  assert (Hwl : st wl = st w).
  { destruct (op (st w)) as [| | |d]; try discriminate.
    - unfold rng_default in Hl. destruct (seeds w); inversion Hl; reflexivity.
    - destruct d; try discriminate; inversion Hl; reflexivity. }
  apply bind_ok in E. destruct E as ([[w1 orng] b1] & Hph & E).
  assert (Hw1 : tf (st w1) = tf (st w)).
  { destruct cur; try discriminate.
    - apply bind_ok in Hph. destruct Hph as ([[[wa oa] da] ba] & Hd & Hph).
      apply gt_distribution_tf in Hd. rewrite st_set_st, Hwl in Hd.
      destruct da.
      + unfold rng_default, finish_gt in Hph. destruct (seeds _); inversion Hph; subst; cbn;
          rewrite ?st_set_st; (transitivity (tf (st wa)); [tf_refl | rewrite Hd; tf_refl]).
      + inversion Hph; subst. rewrite st_set_st. transitivity (tf (st wa)); [tf_refl | rewrite Hd; tf_refl].
    - inversion Hph; subst. rewrite st_set_st, Hwl. tf_refl. }
  unfold tf in Hw1. inversion Hw1 as [[Ht Hfl]]. unfold flags_of in Hfl. inversion Hfl.
  destruct orng as [r|].
  - apply bind_ok in E. destruct E as ([[[w2 r2] d2] b2] & Hs & E).
    apply select_nft_winners_tf in Hs.
    assert (Hs2 : tf (st w2) = tf (st w)) by (rewrite Hs; unfold tf; congruence).
    unfold tf in Hs2. inversion Hs2 as [[Ht2 Hfl2]]. unfold flags_of in Hfl2. inversion Hfl2.
    destruct d2; inversion E; subst; unfold set_claimable_nft; rewrite ?st_set_st; unfold terms_of in *; cbn;
      inversion Ht2; repeat split; auto; try congruence.
  - inversion E; subst. repeat split; auto; try congruence.
Qed.
End H3.
