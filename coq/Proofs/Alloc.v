(** * C18: allocation gives each participant one fresh, disjoint, exact-size ticket range. *)
From LP Require Import Proofs.Tactics Proofs.Filter.
Open Scope N_scope.

Definition alloc_one (s : state) (a n : N) : state :=
  let f := last_ticket_id s + 1 in
  s <| range := upd (range s) a (Some (f, f + n - 1)) |>
    <| batch := upd (batch s) f (Some (a, n)) |>
    <| last_ticket_id := f + n - 1 |>.

Lemma try_create_tickets_iff s a n s' :
  n < usize_lim ->
  (try_create_tickets s a n = Ok s' <->
   0 < n /\ range s a = None /\ last_ticket_id s + 1 < u64_lim - 1 - n /\ s' = alloc_one s a n).
Proof.
  intros Hn. unfold try_create_tickets, alloc_one. split.
  - intros E. apply bind_ok in E. destruct E as (u0 & Hp & E). apply require_ok' in Hp. apply N.ltb_lt in Hp.
    mon_inv. match goal with Hx : (_ <? _) = true |- _ => apply N.ltb_lt in Hx end.
    subst. split; [exact Hp|]. split; [destruct (range s a); [discriminate|reflexivity]|]. split; [assumption|]. reflexivity.
  - intros (Hp & Hr & Hl & ->). rewrite (proj2 (N.ltb_lt _ _) Hp). cbn [bind require]. rewrite Hr. cbn [bind require].
    unfold usub. unfold usize_lim, u64_lim in *.
    destruct (N.leb_spec n (18446744073709551616 - 1)); [|lia]. cbn [bind].
    replace (last_ticket_id s + 1 <? 18446744073709551616 - 1 - n) with true by (symmetry; apply N.ltb_lt; lia).
    cbn [bind require]. destruct (N.leb_spec 1 (last_ticket_id s + 1 + n)); [|lia]. reflexivity.
Qed.

(** sequential allocation of a batch *)
Fixpoint alloc_all (s : state) (l : list (N * N)) : state :=
  match l with
  | [] => s
  | (a, n) :: r => alloc_all (alloc_one s a n) r
  end.

Lemma alloc_one_range_other s a n x : x <> a -> range (alloc_one s a n) x = range s x.
Proof. intros Hx. unfold alloc_one. cbn. now apply upd_other. Qed.
Lemma alloc_one_range_self s a n :
  range (alloc_one s a n) a = Some (last_ticket_id s + 1, last_ticket_id s + 1 + n - 1).
Proof. unfold alloc_one. cbn. apply upd_same. Qed.
Lemma alloc_one_last s a n : 0 < last_ticket_id s + 1 + n -> last_ticket_id (alloc_one s a n) = last_ticket_id s + n.
Proof. unfold alloc_one. cbn. lia. Qed.

Theorem add_tickets_loop_spec : forall l s s',
  add_tickets_loop s l = Ok s' ->
  s' = alloc_all s l /\ NoDup (map fst l) /\ (forall a, In a (map fst l) -> range s a = None) /\
  last_ticket_id s' = last_ticket_id s + sumN (map snd l) /\
  (forall x, ~ In x (map fst l) -> range s' x = range s x) /\
  (forall pre a n post, l = pre ++ (a, n) :: post ->
     range s' a = Some (last_ticket_id s + sumN (map snd pre) + 1, last_ticket_id s + sumN (map snd pre) + 1 + n - 1)).
Proof.
  induction l as [|[a n] l IH]; intros s s' E; cbn [add_tickets_loop] in E.
  - inversion E; subst. cbn [alloc_all map].
    split; [reflexivity|]. split; [constructor|]. split; [intros a []|].
    split; [rewrite sumN_nil; lia|]. split; [reflexivity|].
    intros pre a n post Hl. destruct pre; discriminate.
  - apply bind_ok in E. destruct E as (u & Hu & E). unfold usize_arg in Hu. apply require_ok' in Hu. apply N.ltb_lt in Hu.
    apply bind_ok in E. destruct E as (s1 & H1 & E).
    apply (try_create_tickets_iff _ _ _ _ Hu) in H1. destruct H1 as (Hpos1 & Hr & Hlim & ->).
    destruct (IH _ _ E) as (-> & Hnd & Hnone & Hlast & Hother & Hpre).
    assert (Hnotin : ~ In a (map fst l)).
    { intros Hin. specialize (Hnone a Hin). rewrite alloc_one_range_self in Hnone. discriminate. }
    cbn [alloc_all map fst snd]. split; [reflexivity|]. split; [constructor; assumption|].
    split.
    { intros x [<-|Hx]; [assumption|]. specialize (Hnone x Hx).
      destruct (N.eq_dec x a) as [->|Hne]; [assumption|]. now rewrite alloc_one_range_other in Hnone. }
    split. { rewrite Hlast, sumN_cons, alloc_one_last by lia. lia. }
    split.
    { intros x Hx. rewrite Hother by (intros Hin; apply Hx; now right).
      apply alloc_one_range_other. intros ->. apply Hx. now left. }
    intros pre a0 n0 post Hl. destruct pre as [|p pre].
    + inversion Hl; subst. cbn [map]. rewrite sumN_nil, N.add_0_r.
      rewrite Hother by assumption. apply alloc_one_range_self.
    + inversion Hl; subst. rewrite (Hpre pre a0 n0 post eq_refl).
      cbn [map snd]. rewrite sumN_cons, alloc_one_last by lia. f_equal. f_equal; lia.
Qed.

(** ** the allocation invariant behind C08: the non-empty batches form a chain from ticket 1 to the
    last ticket, each owned by a distinct participant *)
Definition AllocInv (s : state) (l : list (N * N)) : Prop :=
  Chain s (last_ticket_id s) 1 l /\ Owned s 1 l /\ NoDup (map fst l) /\
  Forall (fun x => 0 < snd x) l /\ (forall a, In a (map fst l) -> range s a <> None) /\
  (forall f, last_ticket_id s < f -> True).

Lemma NoDup_snoc (l : list N) (a : N) : NoDup l -> ~ In a l -> NoDup (l ++ [a]).
Proof.
  induction l as [|x l IH]; intros Hnd Hn; cbn.
  - constructor; [intros []|constructor].
  - inversion Hnd; subst. constructor.
    + intros Hin. apply in_app_iff in Hin. destruct Hin as [Hin|[<-|[]]]; [contradiction|]. apply Hn. now left.
    + apply IH; auto. intros Hin. apply Hn. now right.
Qed.

Lemma chain_within s s' last : forall f l,
  Chain s last f l -> (forall g, f <= g <= last -> batch s' g = batch s g) -> Chain s' last f l.
Proof.
  intros f l Hc. induction Hc as [|f a n l Hf Hb Hn Hc IH]; intros Hs; [constructor|].
  econstructor; eauto.
  - rewrite Hs by lia. exact Hb.
  - apply IH. intros g Hg. apply Hs. lia.
Qed.

Lemma chain_app s last : forall f l a n,
  Chain s last f l -> 0 < n ->
  forall s', (forall g, g <= last -> batch s' g = batch s g) -> batch s' (last + 1) = Some (a, n) ->
  Chain s' (last + n) f (l ++ [(a, n)]).
Proof.
  intros f l a n Hc Hn s' Hb Hnew. induction Hc as [|f a0 n0 l Hf Hbf Hn0 Hc IH].
  - cbn. econstructor; [lia | exact Hnew | exact Hn |]. replace (last + 1 + n) with (last + n + 1) by lia. constructor.
  - cbn. econstructor; [lia | rewrite Hb by lia; exact Hbf | exact Hn0 | exact IH].
Qed.

Lemma chain_bound s last : forall f l, Chain s last f l -> f <= last + 1.
Proof. intros f l Hc. induction Hc; lia. Qed.

Lemma owned_app s : forall f l a n s',
  Owned s f l -> (forall x, In x (map fst l) -> range s' x = range s x) ->
  range s' a = Some (f + sumN (map snd l), f + sumN (map snd l) + n - 1) ->
  Owned s' f (l ++ [(a, n)]).
Proof.
  intros f l a n s' Ho. revert a n. induction Ho as [f|f a0 n0 l Hr Ho IH]; intros a n Hs Hnew.
  - cbn [map app] in *. rewrite sumN_nil, N.add_0_r in Hnew. constructor; [exact Hnew|constructor].
  - cbn [app]. constructor.
    + rewrite Hs by (left; reflexivity). exact Hr.
    + apply IH; [intros x Hx; apply Hs; now right|].
      cbn [map snd] in Hnew. rewrite sumN_cons in Hnew. rewrite Hnew. f_equal. f_equal; lia.
Qed.

Lemma chain_sum s last : forall f l, Chain s last f l -> f + sumN (map snd l) = last + 1.
Proof.
  intros f l Hc. induction Hc as [|f a n l Hf Hb Hn Hc IH]; cbn [map snd]; rewrite ?sumN_nil, ?sumN_cons; lia.
Qed.

Theorem alloc_one_inv s l a n :
  Chain s (last_ticket_id s) 1 l -> Owned s 1 l -> NoDup (map fst l) ->
  (forall x, In x (map fst l) -> range s x <> None) -> range s a = None ->
  let s' := alloc_one s a n in
  let l' := if 0 <? n then l ++ [(a, n)] else l in
  Chain s' (last_ticket_id s') 1 l' /\ Owned s' 1 l' /\ NoDup (map fst l') /\
  (forall x, In x (map fst l') -> range s' x <> None).
Proof.
  intros Hc Ho Hnd Hr Ha. cbn zeta.
  assert (Hnotin : ~ In a (map fst l)) by (intros Hin; apply (Hr a Hin); exact Ha).
  pose proof (chain_sum _ _ _ _ Hc) as Hsum.
  destruct (N.ltb_spec 0 n) as [Hn|Hn].
  - assert (Hl : last_ticket_id (alloc_one s a n) = last_ticket_id s + n) by (apply alloc_one_last; lia).
    rewrite Hl. split.
    { apply (chain_app s (last_ticket_id s) 1 l a n Hc Hn).
      - intros g Hg. unfold alloc_one. cbn. apply upd_other. lia.
      - unfold alloc_one. cbn. apply upd_same. }
    split.
    { apply (owned_app s 1 l a n); auto.
      - intros x Hx. apply alloc_one_range_other. intros ->. contradiction.
      - rewrite alloc_one_range_self. f_equal. f_equal; lia. }
    split.
    { rewrite map_app. cbn [map fst]. apply NoDup_snoc; auto. }
    intros x Hx. rewrite map_app in Hx. apply in_app_iff in Hx. destruct Hx as [Hx|[<-|[]]].
    + rewrite alloc_one_range_other by (intros ->; contradiction). auto.
    + rewrite alloc_one_range_self. discriminate.
  - assert (n = 0) by lia. subst n.
    assert (Hl : last_ticket_id (alloc_one s a 0) = last_ticket_id s) by (unfold alloc_one; cbn; lia).
    rewrite Hl. split.
    { eapply chain_within; [exact Hc|]. intros g Hg. unfold alloc_one. cbn. apply upd_other. lia. }
    split.
    { eapply owned_other; [exact Ho|]. intros x Hx. apply alloc_one_range_other. intros ->. contradiction. }
    split; [assumption|].
    intros x Hx. rewrite alloc_one_range_other by (intros ->; contradiction). auto.
Qed.

(** ** v2 limits *)
Lemma infos_ok_spec : forall l, infos_ok l = Ok tt -> Forall (fun x => fst x <= snd x) l.
Proof.
  induction l as [|[g m] l IH]; intros E; [constructor|]. cbn in E. mon_inv.
  constructor; [cbn; now apply N.leb_le | now apply IH].
Qed.

Theorem add_one_v2_limits s tw tg uc ta ga buyer allowance infos acc' :
  add_one_v2 (s, tw, tg, uc, ta, ga) (buyer, allowance, infos) = Ok acc' ->
  (allowance = 0 /\ acc' = (s, tw, tg, uc, ta, ga)) \/
  (0 < allowance /\ is_sc buyer = false /\ allowance <= MAX_TICKETS_ALLOWANCE /\
   N.of_nat (length infos) <= MAX_GUARANTEED_TICKETS_ENTRIES /\
   Forall (fun x => fst x <= snd x) infos /\ range s buyer = None /\
   (0 < infos_sum infos -> infos_sum infos <= tw) /\
   exists s', acc' = (s', (if 0 <? infos_sum infos then tw - infos_sum infos else tw),
                      (if 0 <? infos_sum infos then tg + infos_sum infos else tg),
                      uc + 1, ta + allowance, (if 0 <? infos_sum infos then ga + infos_sum infos else ga)) /\
              range s' buyer = Some (last_ticket_id s + 1, last_ticket_id s + 1 + allowance - 1) /\
              last_ticket_id s' = last_ticket_id s + allowance).
Proof.
  unfold add_one_v2. destruct (N.eqb_spec allowance 0) as [->|Hnz].
  { intros E; inversion E; left; auto. }
  intros E. right.
  apply bind_ok in E. destruct E as (u1 & H1 & E). apply require_ok' in H1. apply negb_true_iff in H1.
  apply bind_ok in E. destruct E as (u2 & H2 & E). apply require_ok' in H2. apply N.leb_le in H2.
  apply bind_ok in E. destruct E as (u3 & H3 & E). apply require_ok' in H3. apply N.leb_le in H3.
  apply bind_ok in E. destruct E as (s1 & Hc & E).
  apply bind_ok in E. destruct E as (u4 & H4 & E). destruct u4. apply infos_ok_spec in H4.
  assert (Hlt : allowance < usize_lim) by (unfold MAX_TICKETS_ALLOWANCE, usize_lim in *; lia).
  apply (try_create_tickets_iff _ _ _ _ Hlt) in Hc. destruct Hc as (_ & Hr & _ & ->).
  split; [lia|]. split; [assumption|]. split; [assumption|]. split; [assumption|]. split; [assumption|].
  split; [assumption|].
  destruct (N.ltb_spec 0 (infos_sum infos)) as [Hg|Hg].
  - apply bind_ok in E. destruct E as (u5 & H5 & E). apply require_ok' in H5. apply N.leb_le in H5.
    split; [auto|]. inversion E; subst. eexists. split; [reflexivity|]. cbn.
    split; [apply upd_same|lia].
  - split; [lia|]. inversion E; subst. eexists. split; [reflexivity|]. cbn.
    split; [apply upd_same|lia].
Qed.
