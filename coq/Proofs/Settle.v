(** * C09 / C10: settlement at claim, blacklisting and un-blacklisting. *)
From LP Require Import Proofs.Tactics Proofs.LedgerBase Proofs.Gates Proofs.Frames.
Open Scope N_scope.

(** ** refunds *)
Lemma refund_spec e w a n w' :
  refund_ticket_payment e w a n = Ok w' ->
  (n = 0 /\ w' = w) \/
  (0 < n /\ price (st w) * n <= bal w sc_addr (pay_token (st w)) 0 /\
   w' = emit (w <| bal := bal_after (bal w) sc_addr a (pay_token (st w)) 0 (price (st w) * n) |>)
             EvRefund (event_hdr e ++ [n; pay_token (st w); 0; price (st w) * n])).
Proof.
  unfold refund_ticket_payment. destruct (N.eqb_spec n 0) as [->|Hn].
  - intros E; inversion E; auto.
  - intros E. right. apply bind_ok in E. destruct E as (w1 & Ht & E).
    apply transfer_ok in Ht. destruct Ht as [Hle ->]. inversion E; subst. split; [lia|]. split; [assumption|reflexivity].
Qed.

(** ** blacklisting: the loop body for one participant *)
Definition bl_one (e : env) (w : world) (a : N) : res world :=
  let s := st w in
  do_ require (negb (blacklisted s a));
  do_ require (match range s a with Some _ => true | None => false end);
  do w1 <- (if 0 <? confirmed s a then
              do w' <- refund_ticket_payment e w a (confirmed s a);
              Ok (set_st w' (st w' <| confirmed := upd (confirmed (st w')) a 0 |>))
            else Ok w);
  Ok (set_st w1 (st w1 <| blacklisted := upd (blacklisted (st w1)) a true |>)).

Lemma blacklist_loop_cons e w a l :
  blacklist_loop e w (a :: l) = do w1 <- bl_one e w a; blacklist_loop e w1 l.
Proof.
  cbn [blacklist_loop]. unfold bl_one.
  destruct (require (negb (blacklisted (st w) a))) as [[]|]; [|reflexivity]. cbn [bind].
  destruct (require (match range (st w) a with Some _ => true | None => false end)) as [[]|]; [|reflexivity]. cbn [bind].
  destruct (if 0 <? confirmed (st w) a then _ else _) as [w1|k]; reflexivity.
Qed.

(** what blacklisting one participant does: full refund of what they paid for tickets, confirmed
    count zero, flag set, nobody else touched *)
Theorem bl_one_spec e w a w' :
  bl_one e w a = Ok w' ->
  let s := st w in let c := confirmed s a in
  blacklisted s a = false /\ range s a <> None /\
  blacklisted (st w') a = true /\ confirmed (st w') a = 0 /\
  (forall x, x <> a -> confirmed (st w') x = confirmed s x /\ blacklisted (st w') x = blacklisted s x) /\
  range (st w') = range s /\ tf (st w') = tf s /\
  nr_winning (st w') = nr_winning s /\ total_guaranteed (st w') = total_guaranteed s /\
  last_ticket_id (st w') = last_ticket_id s /\ batch (st w') = batch s /\
  bal w' = (if 0 <? c then bal_after (bal w) sc_addr a (pay_token s) 0 (price s * c) else bal w) /\
  evs w' = (if 0 <? c then [{| ev_name := EvRefund; ev_nums := event_hdr e ++ [c; pay_token s; 0; price s * c] |}] else []) ++ evs w.
Proof.
  unfold bl_one. cbn zeta. intros E.
  apply bind_ok in E. destruct E as (u1 & H1 & E). apply require_ok' in H1. apply negb_true_iff in H1.
  apply bind_ok in E. destruct E as (u2 & H2 & E). apply require_ok' in H2.
  apply bind_ok in E. destruct E as (w1 & Hw1 & E). inversion E; subst w'; clear E.
  split; [assumption|]. split; [destruct (range (st w) a); [discriminate|discriminate]|].
  rewrite st_set_st, bal_set_st, evs_set_st.
  destruct (N.ltb_spec 0 (confirmed (st w) a)) as [Hc|Hc].
  - apply bind_ok in Hw1. destruct Hw1 as (w2 & Hr & Hw1). inversion Hw1; subst w1; clear Hw1.
    apply refund_spec in Hr. destruct Hr as [[Hz _]|(_ & _ & ->)]; [lia|].
    rewrite st_set_st. cbn. rewrite !upd_same.
    repeat split; auto; try (intros; now apply upd_other).
  - inversion Hw1; subst w1. cbn. rewrite upd_same.
    repeat split; auto; try lia; try (intros; now apply upd_other).
Qed.

(** ** un-blacklisting (common part): only the flags of the listed participants change *)
Theorem unblacklist_loop_spec : forall l s s',
  unblacklist_loop s l = Ok s' ->
  (forall a, In a l -> blacklisted s' a = false) /\
  (forall x, ~ In x l -> blacklisted s' x = blacklisted s x) /\
  confirmed s' = confirmed s /\ range s' = range s /\ batch s' = batch s /\ status s' = status s /\
  nr_winning s' = nr_winning s /\ total_guaranteed s' = total_guaranteed s /\ uts s' = uts s /\
  bl_uts s' = bl_uts s /\ gt_users s' = gt_users s /\ tf s' = tf s /\
  total_claimable s' = total_claimable s /\ claimed_balance s' = claimed_balance s.
Proof.
  induction l as [|a l IH]; intros s s' E; cbn in E.
  - inversion E; subst. repeat split; auto. intros a [].
  - apply bind_ok in E. destruct E as (u & Hu & E). apply IH in E.
    destruct E as (Hl & Ho & E). cbn in E.
    split.
    { intros x [<-|Hx]; [|auto]. destruct (in_dec N.eq_dec a l) as [Hin|Hnin]; [auto|].
      rewrite Ho by assumption. cbn. apply upd_same. }
    split.
    { intros x Hx. rewrite Ho by (intros Hin; apply Hx; now right). cbn. apply upd_other.
      intros ->. apply Hx. now left. }
    exact E.
Qed.

(** ** settlement at claim *)
Definition winning_of (s : state) (a : N) : N :=
  match range s a with
  | Some (f, l) => count_winning s (range_ids f l)
  | None => 0
  end.

Lemma winning_of_view s a :
  fl_selected s = true -> winning_of s a = N.of_nat (length (get_winning_ticket_ids_for_address s a)).
Proof.
  intros Hs. unfold winning_of, get_winning_ticket_ids_for_address, count_winning. rewrite Hs. cbn.
  destruct (range s a) as [[f l]|]; reflexivity.
Qed.

Theorem settle_spec e w w' wins :
  settle_tickets e w = Ok (w', wins) ->
  let s := st w in let a := caller e in
  range s a <> None /\ wins = winning_of s a /\ wins <= confirmed s a /\
  range (st w') a = None /\ confirmed (st w') a = 0 /\ claimed (st w') a = true /\
  nr_winning (st w') = nr_winning s - wins /\ (0 < wins -> wins <= nr_winning s) /\
  (forall x, x <> a -> range (st w') x = range s x /\ confirmed (st w') x = confirmed s x /\
                       claimed (st w') x = claimed s x) /\
  tf (st w') = tf s /\ total_claimable (st w') = total_claimable s /\ claimed_balance (st w') = claimed_balance s /\
  bal w' = (if 0 <? confirmed s a - wins
            then bal_after (bal w) sc_addr a (pay_token s) 0 (price s * (confirmed s a - wins)) else bal w) /\
  evs w' = (if 0 <? confirmed s a - wins
            then [{| ev_name := EvRefund; ev_nums := event_hdr e ++ [confirmed s a - wins; pay_token s; 0; price s * (confirmed s a - wins)] |}]
            else []) ++ evs w.
Proof.
  unfold settle_tickets. cbn zeta. intros E.
  apply bind_ok in E. destruct E as ([f l] & Hr & E).
  assert (Hrange : range (st w) (caller e) = Some (f, l)) by (destruct (range (st w) (caller e)); inversion Hr; reflexivity).
  apply bind_ok in E. destruct E as (s3 & Hs3 & E).
  apply bind_ok in E. destruct E as (tr & Htr & E). apply usub_ok in Htr. destruct Htr as [Hle ->].
  apply bind_ok in E. destruct E as (w1 & Hrf & E). inversion E; subst w' wins; clear E.
  set (wins := count_winning (st w) (range_ids f l)) in *.
  assert (Hw : winning_of (st w) (caller e) = wins) by (unfold winning_of; now rewrite Hrange).
  apply refund_spec in Hrf. rewrite st_set_st in Hrf.
  assert (Hs3' : nr_winning s3 = nr_winning (st w) - wins /\ (0 < wins -> wins <= nr_winning (st w)) /\
                 range s3 = upd (range (st w)) (caller e) None /\
                 confirmed s3 = upd (confirmed (st w)) (caller e) 0 /\ claimed s3 = claimed (st w) /\
                 tf s3 = tf (st w) /\ total_claimable s3 = total_claimable (st w) /\
                 claimed_balance s3 = claimed_balance (st w) /\ pay_token s3 = pay_token (st w) /\ price s3 = price (st w)).
  { destruct (N.ltb_spec 0 wins) as [Hp|Hp].
    - apply bind_ok in Hs3. destruct Hs3 as (xx & Hx & Hs3). apply usub_ok in Hx. destruct Hx as [Hxle ->].
      inversion Hs3; subst s3. cbn. repeat split; auto.
    - inversion Hs3; subst s3. cbn. repeat split; auto; lia. }
  destruct Hs3' as (Hn & Hnle & Hrg & Hcf & Hcl & Htf & Htc & Hcb & Hpt & Hpr).
  split; [congruence|]. split; [auto|]. split; [assumption|].
  assert (Hcommon : forall w1', st w1' = (s3 <| claimed := upd (claimed s3) (caller e) true |>) ->
     range (st w1') (caller e) = None /\ confirmed (st w1') (caller e) = 0 /\ claimed (st w1') (caller e) = true /\
     nr_winning (st w1') = nr_winning (st w) - wins /\ (0 < wins -> wins <= nr_winning (st w)) /\
     (forall x, x <> caller e -> range (st w1') x = range (st w) x /\ confirmed (st w1') x = confirmed (st w) x /\
                                 claimed (st w1') x = claimed (st w) x) /\
     tf (st w1') = tf (st w) /\ total_claimable (st w1') = total_claimable (st w) /\ claimed_balance (st w1') = claimed_balance (st w)).
  { intros w1' ->. cbn. rewrite Hrg, Hcf, Hcl, !upd_same.
    split; [reflexivity|]. split; [reflexivity|]. split; [reflexivity|]. split; [assumption|]. split; [assumption|].
    split; [intros y Hy; rewrite !upd_other by assumption; auto|].
    split; [rewrite <- Htf; tf_refl|]. auto. }
  destruct Hrf as [[Hz ->]|(Hpos & Hbal & ->)].
  - destruct (Hcommon (set_st w (s3 <| claimed := upd (claimed s3) (caller e) true |>)) (st_set_st _ _))
      as (A & B & C & D & E0 & F & G & I & J).
    rewrite Hz. cbn [N.ltb N.compare]. repeat split; auto; try (apply F; assumption).
  - destruct (Hcommon (set_st w (s3 <| claimed := upd (claimed s3) (caller e) true |>)) (st_set_st _ _))
      as (A & B & C & D & E0 & F & G & I & J).
    rewrite st_set_st in A, B, C, D, F, G, I, J.
    cbn in Hpos, Hbal |- *. rewrite Hpt, Hpr in *.
    replace (0 <? confirmed (st w) (caller e) - wins) with true by (symmetry; apply N.ltb_lt; lia).
    repeat split; auto; try (apply F; assumption).
Qed.

(** the common claim endpoint: exactly once per participant *)
Theorem claim_twice_fails sf e w :
  claimed (st w) (caller e) = true -> exists k, claim_launchpad_tokens sf e w = Err k.
Proof.
  intros Hc. unfold claim_launchpad_tokens.
  destruct (require_stage e (st w) Claim) as [[]|k]; [|cbn; eauto]. cbn [bind]. rewrite Hc. cbn. eauto.
Qed.
Theorem claim_blacklisted_fails sf e w :
  blacklisted (st w) (caller e) = true -> exists k, claim_launchpad_tokens sf e w = Err k.
Proof.
  intros Hb. destruct (claim_launchpad_tokens sf e w) as [w'|k] eqn:E; [|eauto].
  apply gate_claim_not_blacklisted in E. congruence.
Qed.
Theorem claim_without_range_fails sf e w :
  range (st w) (caller e) = None -> exists k, claim_launchpad_tokens sf e w = Err k.
Proof.
  intros Hr. destruct (claim_launchpad_tokens sf e w) as [w'|k] eqn:E; [|eauto].
  apply gate_claim in E. destruct E as (_ & _ & Hn). contradiction.
Qed.
