(** * C12: base winners + reserved tickets stay equal to the configured winners count through
    every allocation, blacklisting and un-blacklisting (v1 family and v2). *)
From LP Require Import Proofs.Tactics Proofs.Gates Proofs.Frames Proofs.Settle.
Open Scope N_scope.

Definition reserve_total (s : state) : N := nr_winning s + total_guaranteed s.

(** ** v1 *)
Lemma add_one_v1_conserves minc s tw tg x s' tw' tg' :
  add_one_v1 minc (s, tw, tg) x = Ok (s', tw', tg') -> tw' + tg' = tw + tg /\ tw' <= tw.
Proof.
  destruct x as [[[buyer staking] energy] mig]. unfold add_one_v1. intros E.
  apply bind_ok in E. destruct E as (u1 & _ & E).
  apply bind_ok in E. destruct E as (u2 & _ & E).
  apply bind_ok in E. destruct E as (s1 & _ & E).
  apply bind_ok in E. destruct E as ([[[s2 tw2] tg2] us2] & H1 & E).
  apply bind_ok in E. destruct E as ([[[s3 tw3] tg3] us3] & H2 & E).
  inversion E; subst. unfold STAKING_GUARANTEED_TICKETS_NO, MIGRATION_GUARANTEED_TICKETS_NO in *.
  assert (A1 : tw2 + tg2 = tw + tg /\ tw2 <= tw).
  { destruct (minc <=? staking); mon_inv; [|lia]. match goal with Hx : (0 <? _) = true |- _ => apply N.ltb_lt in Hx end. lia. }
  assert (A2 : tw' + tg' = tw2 + tg2 /\ tw' <= tw2).
  { destruct mig; mon_inv; [|lia]. match goal with Hx : (0 <? _) = true |- _ => apply N.ltb_lt in Hx end. lia. }
  lia.
Qed.

Lemma add_loop_v1_conserves minc : forall l s tw tg s' tw' tg',
  add_loop_v1 minc (s, tw, tg) l = Ok (s', tw', tg') -> tw' + tg' = tw + tg /\ tw' <= tw.
Proof.
  induction l as [|x l IH]; intros s tw tg s' tw' tg' E; cbn in E; [inversion E; lia|].
  apply bind_ok in E. destruct E as ([[s1 tw1] tg1] & H1 & E).
  apply add_one_v1_conserves in H1. apply IH in E. lia.
Qed.

Theorem add_tickets_v1_conserves e w l w' :
  add_tickets_v1 e w l = Ok w' -> reserve_total (st w') = reserve_total (st w) /\ nr_winning (st w') <= nr_winning (st w).
Proof.
  unfold add_tickets_v1, reserve_total. intros E.
  apply bind_ok in E. destruct E as (u1 & _ & E).
  apply bind_ok in E. destruct E as ([[s1 tw1] tg1] & H1 & E). inversion E; subst.
  apply add_loop_v1_conserves in H1. rewrite st_set_st. cbn. lia.
Qed.

Lemma clear_gt_loop_v1_conserves : forall l s rm tg s' rm' tg',
  clear_gt_loop_v1 (s, rm, tg) l = Ok (s', rm', tg') -> rm' + tg' = rm + tg /\ nr_winning s' = nr_winning s.
Proof.
  induction l as [|u l IH]; intros s rm tg s' rm' tg' E; cbn in E; [inversion E; auto|].
  destruct (mem u (gt_users s)); [|eapply IH; eauto].
  apply bind_ok in E. destruct E as (x1 & H1 & E). apply usub_ok in H1. destruct H1 as [L1 ->].
  apply bind_ok in E. destruct E as (x2 & H2 & E). apply usub_ok in H2. destruct H2 as [L2 ->].
  apply IH in E. cbn in E. lia.
Qed.

Theorem clear_gt_v1_conserves w l w' :
  clear_gt_after_blacklist_v1 w l = Ok w' -> reserve_total (st w') = reserve_total (st w).
Proof.
  unfold clear_gt_after_blacklist_v1, reserve_total. intros E.
  apply bind_ok in E. destruct E as ([[s1 rm] tg] & H1 & E). inversion E; subst.
  apply clear_gt_loop_v1_conserves in H1. rewrite st_set_st. destruct (0 <? rm) eqn:Hr; cbn; [lia|].
  apply N.ltb_ge in Hr. lia.
Qed.

Lemma unbl_gt_loop_v1_conserves : forall l s nw tg s' nw' tg',
  unbl_gt_loop_v1 (s, nw, tg) l = Ok (s', nw', tg') -> nw' + tg' = nw + tg.
Proof.
  induction l as [|u l IH]; intros s nw tg s' nw' tg' E; cbn in E; [inversion E; auto|].
  match type of E with (if ?c then _ else _) = _ => destruct c end; [eapply IH; eauto|].
  destruct (mem u (gt_users s)); [eapply IH; eauto|].
  apply bind_ok in E. destruct E as (x0 & H0 & E). apply require_ok' in H0. apply N.leb_le in H0.
  apply bind_ok in E. destruct E as (x1 & H1 & E). apply usub_ok in H1. destruct H1 as [L1 ->].
  apply bind_ok in E. destruct E as (x2 & H2 & E). apply usub_ok in H2. destruct H2 as [L2 ->].
  apply IH in E. lia.
Qed.

Theorem unblacklist_gt_v1_conserves w l w' :
  unblacklist_gt_v1 w l = Ok w' -> reserve_total (st w') = reserve_total (st w).
Proof.
  unfold unblacklist_gt_v1, reserve_total. intros E.
  apply bind_ok in E. destruct E as ([[s1 nw] tg] & H1 & E). inversion E; subst.
  apply unbl_gt_loop_v1_conserves in H1. rewrite st_set_st. cbn. lia.
Qed.

(** the repaired un-blacklist never reaches the unchecked subtraction with too small a counter:
    the rejection is a user error, not an arithmetic panic *)
Lemma unbl_gt_loop_v1_no_panic : forall l acc, unbl_gt_loop_v1 acc l <> Err FPanic.
Proof.
  induction l as [|u l IH]; intros [[s nw] tg]; cbn; [discriminate|].
  match goal with |- (if ?c then _ else _) <> _ => destruct c end; [apply IH|].
  destruct (mem u (gt_users s)); [apply IH|].
  destruct (N.leb_spec (us_sg (us_get (bl_uts s u)) + us_mg (us_get (bl_uts s u))) nw) as [Hle|Hgt]; cbn; [|discriminate].
  unfold usub. destruct (N.leb_spec (us_sg (us_get (bl_uts s u))) nw); [|lia]. cbn.
  destruct (N.leb_spec (us_mg (us_get (bl_uts s u))) (nw - us_sg (us_get (bl_uts s u)))); [|lia]. cbn. apply IH.
Qed.

(** ** v2 *)
Lemma add_loop_v2_conserves : forall l s tw tg uc ta ga s' tw' tg' uc' ta' ga',
  add_loop_v2 (s, tw, tg, uc, ta, ga) l = Ok (s', tw', tg', uc', ta', ga') -> tw' + tg' = tw + tg /\ tw' <= tw.
Proof.
  induction l as [|[[b a] i] l IH]; intros s tw tg uc ta ga s' tw' tg' uc' ta' ga' E; cbn [add_loop_v2] in E;
    [inversion E; lia|].
  apply bind_ok in E. destruct E as (u & _ & E).
  apply bind_ok in E. destruct E as ([[[[[s1 tw1] tg1] uc1] ta1] ga1] & H1 & E).
  apply Proofs.Tactics.bind_ok in H1 || idtac.
  assert (A : tw1 + tg1 = tw + tg /\ tw1 <= tw).
  { unfold add_one_v2 in H1. destruct (a =? 0); [inversion H1; lia|].
    apply bind_ok in H1. destruct H1 as (u1 & _ & H1). apply bind_ok in H1. destruct H1 as (u2 & _ & H1).
    apply bind_ok in H1. destruct H1 as (u3 & _ & H1). apply bind_ok in H1. destruct H1 as (sx & _ & H1).
    apply bind_ok in H1. destruct H1 as (u4 & _ & H1).
    destruct (0 <? infos_sum i).
    - apply bind_ok in H1. destruct H1 as (u5 & H5 & H1). apply require_ok' in H5. apply N.leb_le in H5.
      inversion H1; subst. lia.
    - inversion H1; subst. lia. }
  apply IH in E. lia.
Qed.

Theorem add_tickets_v2_conserves e w l w' :
  add_tickets_v2 e w l = Ok w' -> reserve_total (st w') = reserve_total (st w) /\ nr_winning (st w') <= nr_winning (st w).
Proof.
  unfold add_tickets_v2, reserve_total. intros E.
  apply bind_ok in E. destruct E as (u1 & _ & E).
  apply bind_ok in E. destruct E as ([[[[[s1 tw] tg] uc] ta] ga] & H1 & E). inversion E; subst.
  apply add_loop_v2_conserves in H1. rewrite st_emit, st_set_st. cbn. lia.
Qed.

Lemma clear_gt_loop_v2_conserves : forall l s nw tg s' nw' tg',
  clear_gt_loop_v2 (s, nw, tg) l = Ok (s', nw', tg') -> nw' + tg' = nw + tg.
Proof.
  induction l as [|u l IH]; intros s nw tg s' nw' tg' E; cbn in E; [inversion E; auto|].
  apply bind_ok in E. destruct E as (x1 & H1 & E). apply usub_ok in H1. destruct H1 as [L1 ->].
  apply IH in E. lia.
Qed.
Theorem clear_gt_v2_conserves w l w' :
  clear_gt_after_blacklist_v2 w l = Ok w' -> reserve_total (st w') = reserve_total (st w).
Proof.
  unfold clear_gt_after_blacklist_v2, reserve_total. intros E.
  apply bind_ok in E. destruct E as ([[s1 nw] tg] & H1 & E). inversion E; subst.
  apply clear_gt_loop_v2_conserves in H1. rewrite st_set_st. cbn. lia.
Qed.

Lemma unbl_gt_loop_v2_conserves : forall l s nw tg s' nw' tg',
  unbl_gt_loop_v2 (s, nw, tg) l = Ok (s', nw', tg') -> nw' + tg' = nw + tg.
Proof.
  induction l as [|u l IH]; intros s nw tg s' nw' tg' E; cbn in E; [inversion E; auto|].
  destruct (range s u); [|eapply IH; eauto].
  apply bind_ok in E. destruct E as ([[s1 nw1] tg1] & H1 & E).
  apply IH in E.
  destruct (0 <? infos_sum _).
  - apply bind_ok in H1. destruct H1 as (u0 & H0 & H1). apply require_ok' in H0. apply N.leb_le in H0.
    inversion H1; subst. lia.
  - inversion H1; subst. lia.
Qed.
Theorem unblacklist_gt_v2_conserves w l w' :
  unblacklist_gt_v2 w l = Ok w' -> reserve_total (st w') = reserve_total (st w).
Proof.
  unfold unblacklist_gt_v2, reserve_total. intros E.
  apply bind_ok in E. destruct E as ([[s1 nw] tg] & H1 & E). inversion E; subst.
  apply unbl_gt_loop_v2_conserves in H1. rewrite st_set_st. cbn. lia.
Qed.
Lemma unbl_gt_loop_v2_no_panic : forall l acc, unbl_gt_loop_v2 acc l <> Err FPanic.
Proof.
  induction l as [|u l IH]; intros [[s nw] tg]; cbn; [discriminate|].
  destruct (range s u); [|apply IH].
  destruct (0 <? infos_sum _).
  - destruct (_ <=? nw); cbn; [apply IH|discriminate].
  - cbn. apply IH.
Qed.

(** blacklisting itself (the common part) and un-blacklisting do not touch the counters *)
Lemma blacklist_loop_keeps_reserve e : forall l w w',
  blacklist_loop e w l = Ok w' -> reserve_total (st w') = reserve_total (st w).
Proof.
  induction l as [|a l IH]; intros w w' E.
  - cbn in E. inversion E; reflexivity.
  - rewrite blacklist_loop_cons in E. apply bind_ok in E. destruct E as (w1 & H1 & E).
    apply IH in E. apply bl_one_spec in H1. cbn zeta in H1.
    destruct H1 as (_ & _ & _ & _ & _ & _ & _ & Hn & Hg & _). unfold reserve_total in *. lia.
Qed.
Lemma blacklist_common_keeps_reserve e w l w' :
  add_users_to_blacklist e w l = Ok w' -> reserve_total (st w') = reserve_total (st w).
Proof.
  unfold add_users_to_blacklist. intros E.
  apply bind_ok in E. destruct E as (u1 & _ & E). apply bind_ok in E. destruct E as (u2 & _ & E).
  eapply blacklist_loop_keeps_reserve; eauto.
Qed.

(** the deposit is sized by the conserved total *)
Lemma deposit_size_is_reserve_total v s :
  match v with Base | Lock | Nft => deposit_size v s = nr_winning s | _ => deposit_size v s = reserve_total s end.
Proof. destruct v; reflexivity. Qed.
