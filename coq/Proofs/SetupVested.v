(** * The launchpad-token side of the set-up history of the guaranteed-ticket contracts: from
    deployment through allocation (with guarantees), the deposit, confirmations, pause, timeline /
    support / tokens-per-ticket transactions, the contract holds exactly the recorded deposit, the
    deposit is tokens-per-ticket x (winners + reservations), the reservation counter equals the sum
    of the holders' reservations, and nothing has been credited to anybody - the hypotheses of
    [pipeline_gt_vested]. *)
From Coq Require Import Permutation.
From LP Require Import Proofs.Tactics Proofs.LedgerBase Proofs.Loop Proofs.Shuffle Proofs.Gates Proofs.Frames Proofs.Filter
  Proofs.Alloc Proofs.Confirm Proofs.Settle Proofs.Ledger Proofs.Stage Proofs.Resume Proofs.FisherYates Proofs.Rng Proofs.Reserve
  Proofs.Guaranteed Proofs.GuaranteedLoop Proofs.Leftover Proofs.ClaimLedger Proofs.Partition Proofs.Lifecycle Proofs.Setup
  Proofs.SetupGt Proofs.Vesting Proofs.VestedCover Proofs.VestedLifecycle.
Open Scope N_scope.

(** what an allocation may change *)
Definition alloc_only (s s' : state) : Prop :=
  exists r b la g u, s' = s <| range := r |> <| batch := b |> <| last_ticket_id := la |> <| gt_users := g |> <| uts := u |>.

Lemma alloc_only_refl s : alloc_only s s.
Proof. exists (range s), (batch s), (last_ticket_id s), (gt_users s), (uts s). destruct s; reflexivity. Qed.
Lemma alloc_only_trans a b c : alloc_only a b -> alloc_only b c -> alloc_only a c.
Proof. intros (r & ba & la & g & u & ->) (r' & ba' & la' & g' & u' & ->). exists r', ba', la', g', u'. reflexivity. Qed.

(** the reservation counter is the sum of the holders' reservations, and holders have tickets *)
Definition GRes (v2 : bool) (s : state) (tg : N) : Prop :=
  tg = total_reserved v2 s /\ NoDup (gt_users s) /\ (forall u, In u (gt_users s) -> range s u <> None).

Lemma sum_reserved_other v2 s s' l :
  (forall u, In u l -> uts s' u = uts s u) ->
  sumN (map (reserved v2 s') l) = sumN (map (reserved v2 s) l).
Proof.
  intros Hu. apply sumN_map_ext. intros a Ha. unfold reserved. rewrite (Hu a Ha). reflexivity.
Qed.

(** one new holder [buyer] (no tickets before) with record [us]; in the list iff [ins] *)
Lemma GRes_add v2 s tg buyer fl us (ins : bool) s' :
  GRes v2 s tg -> range s buyer = None ->
  range s' = upd (range s) buyer (Some fl) ->
  uts s' = upd (uts s) buyer (Some us) ->
  gt_users s' = (if ins then gt_users s ++ [buyer] else gt_users s) ->
  let r := if v2 then sumN (map fst (us_infos us)) else us_sg us + us_mg us in
  GRes v2 s' (tg + (if ins then r else 0)).
Proof.
  intros (Htg & Hnd & Hr) Hnone Hrange Huts Hg r.
  assert (Hni : ~ In buyer (gt_users s)) by (intros Hi; apply (Hr _ Hi); exact Hnone).
  assert (Hother : forall u, In u (gt_users s) -> uts s' u = uts s u).
  { intros u Hu. rewrite Huts. apply upd_other. intros ->. contradiction. }
  split; [|split].
  - unfold total_reserved. rewrite Hg. destruct ins.
    + rewrite map_app, sumN_app. cbn [map]. rewrite sumN_cons, sumN_nil.
      rewrite (sum_reserved_other v2 s s' _ Hother). unfold reserved at 2. rewrite Huts, upd_same.
      fold r. unfold total_reserved in Htg. lia.
    + rewrite (sum_reserved_other v2 s s' _ Hother). unfold total_reserved in Htg. lia.
  - rewrite Hg. destruct ins; [|exact Hnd]. apply NoDup_snoc; assumption.
  - intros u Hu. rewrite Hrange. unfold upd. destruct (N.eqb_spec u buyer) as [->|Hne]; [discriminate|].
    apply Hr. rewrite Hg in Hu. destruct ins; [|exact Hu]. apply in_app_or in Hu. destruct Hu as [Hu|[Hu|[]]]; [exact Hu|congruence].
Qed.

Lemma set_insert_new x l : ~ In x l -> set_insert x l = l ++ [x].
Proof. intros Hn. unfold set_insert. destruct (mem x l) eqn:Em; [apply mem_In' in Em; contradiction|reflexivity]. Qed.
Lemma set_insert_old x l : In x l -> set_insert x l = l.
Proof. intros Hi. unfold set_insert. destruct (mem x l) eqn:Em; [reflexivity|]. exfalso.
  assert (mem x l = true) by (apply mem_In'; exact Hi). congruence. Qed.

Lemma alloc_only_rbl s r b la : alloc_only s (s <| range := r |> <| batch := b |> <| last_ticket_id := la |>).
Proof. exists r, b, la, (gt_users s), (uts s). destruct s; reflexivity. Qed.
Lemma alloc_only_gu s g u : alloc_only s (s <| gt_users := g |> <| uts := u |>).
Proof. exists (range s), (batch s), (last_ticket_id s), g, u. destruct s; reflexivity. Qed.
Lemma alloc_only_u s u : alloc_only s (s <| uts := u |>).
Proof. exists (range s), (batch s), (last_ticket_id s), (gt_users s), u. destruct s; reflexivity. Qed.

Lemma try_create_only s buyer n s1 :
  try_create_tickets s buyer n = Ok s1 ->
  range s buyer = None /\ alloc_only s s1 /\
  (exists fl, range s1 = upd (range s) buyer (Some fl)) /\ gt_users s1 = gt_users s /\ uts s1 = uts s.
Proof.
  unfold try_create_tickets. intros Hc.
  apply bind_ok in Hc. destruct Hc as (u3 & Hr & Hc). apply require_ok' in Hr.
  assert (Hnone : range s buyer = None) by (destruct (range s buyer); [discriminate|reflexivity]).
  apply bind_ok in Hc. destruct Hc as (m & _ & Hc). apply bind_ok in Hc. destruct Hc as (u4 & _ & Hc).
  apply bind_ok in Hc. destruct Hc as (la & _ & Hc). inversion Hc; subst s1; clear Hc.
  split; [exact Hnone|]. split; [|split; [eexists; reflexivity|split; reflexivity]].
  apply alloc_only_rbl.
Qed.

(** ** v1 *)
Lemma add_one_v1_GRes minc s tw tg x s' tw' tg' :
  add_one_v1 minc (s, tw, tg) x = Ok (s', tw', tg') ->
  GRes false s tg -> GRes false s' tg' /\ alloc_only s s'.
Proof.
  destruct x as [[[buyer staking] energy] mig]. unfold add_one_v1. intros E HG.
  apply bind_ok in E. destruct E as (u1 & _ & E). apply bind_ok in E. destruct E as (u2 & _ & E).
  apply bind_ok in E. destruct E as (s1 & Hc & E).
  destruct (try_create_only _ _ _ _ Hc) as (Hnone & Hao & (fl & Hrg) & Hg1 & Hu1).
  destruct HG as (Htg & Hnd & Hr).
  assert (Hni : ~ In buyer (gt_users s)) by (intros Hi; apply (Hr _ Hi); exact Hnone).
  apply bind_ok in E. destruct E as ([[[s2 tw2] tg2] us2] & H1 & E).
  apply bind_ok in E. destruct E as ([[[s3 tw3] tg3] us3] & H2 & E).
  inversion E; subst s' tw' tg'; clear E.
  destruct (minc <=? staking); destruct mig.
  - apply bind_ok in H1. destruct H1 as (u5 & _ & H1). inversion H1; subst s2 tw2 tg2 us2; clear H1.
    apply bind_ok in H2. destruct H2 as (u6 & _ & H2). inversion H2; subst s3 tw3 tg3 us3; clear H2.
    split.
    + replace (tg + STAKING_GUARANTEED_TICKETS_NO + MIGRATION_GUARANTEED_TICKETS_NO) with (tg + (if true then 1 + 1 else 0)) by (unfold STAKING_GUARANTEED_TICKETS_NO, MIGRATION_GUARANTEED_TICKETS_NO; cbv iota; lia).
      eapply (GRes_add false s tg buyer fl {| us_a := staking; us_b := energy; us_sg := 1; us_mg := 1; us_infos := [] |} true); [repeat split; assumption|exact Hnone| | |]; cbn.
      * exact Hrg.
      * rewrite Hu1. reflexivity.
      * rewrite Hg1. rewrite (set_insert_new buyer (gt_users s) Hni).
        apply set_insert_old. apply in_or_app. right. left. reflexivity.
    + eapply alloc_only_trans; [exact Hao|]. exact (alloc_only_gu _ _ _).
  - apply bind_ok in H1. destruct H1 as (u5 & _ & H1). inversion H1; subst s2 tw2 tg2 us2; clear H1.
    inversion H2; subst s3 tw3 tg3 us3; clear H2.
    split.
    + replace (tg + STAKING_GUARANTEED_TICKETS_NO) with (tg + (if true then 1 + 0 else 0)) by (unfold STAKING_GUARANTEED_TICKETS_NO, MIGRATION_GUARANTEED_TICKETS_NO; cbv iota; lia).
      eapply (GRes_add false s tg buyer fl {| us_a := staking; us_b := energy; us_sg := 1; us_mg := 0; us_infos := [] |} true); [repeat split; assumption|exact Hnone| | |]; cbn.
      * exact Hrg.
      * rewrite Hu1. reflexivity.
      * rewrite Hg1. apply set_insert_new. exact Hni.
    + eapply alloc_only_trans; [exact Hao|]. exact (alloc_only_gu _ _ _).
  - inversion H1; subst s2 tw2 tg2 us2; clear H1.
    apply bind_ok in H2. destruct H2 as (u6 & _ & H2). inversion H2; subst s3 tw3 tg3 us3; clear H2.
    split.
    + replace (tg + MIGRATION_GUARANTEED_TICKETS_NO) with (tg + (if true then 0 + 1 else 0)) by (unfold STAKING_GUARANTEED_TICKETS_NO, MIGRATION_GUARANTEED_TICKETS_NO; cbv iota; lia).
      eapply (GRes_add false s tg buyer fl {| us_a := staking; us_b := energy; us_sg := 0; us_mg := 1; us_infos := [] |} true); [repeat split; assumption|exact Hnone| | |]; cbn.
      * exact Hrg.
      * rewrite Hu1. reflexivity.
      * rewrite Hg1. apply set_insert_new. exact Hni.
    + eapply alloc_only_trans; [exact Hao|]. exact (alloc_only_gu _ _ _).
  - inversion H1; subst s2 tw2 tg2 us2; clear H1. inversion H2; subst s3 tw3 tg3 us3; clear H2.
    split.
    + replace tg with (tg + (if false then 0 else 0)) by lia.
      eapply (GRes_add false s tg buyer fl {| us_a := staking; us_b := energy; us_sg := 0; us_mg := 0; us_infos := [] |} false); [repeat split; assumption|exact Hnone| | |]; cbn.
      * exact Hrg.
      * rewrite Hu1. reflexivity.
      * exact Hg1.
    + eapply alloc_only_trans; [exact Hao|]. exact (alloc_only_u _ _).
Qed.

Lemma add_loop_v1_GRes minc : forall l s tw tg s' tw' tg',
  add_loop_v1 minc (s, tw, tg) l = Ok (s', tw', tg') ->
  GRes false s tg -> GRes false s' tg' /\ alloc_only s s'.
Proof.
  induction l as [|x l IH]; intros s tw tg s' tw' tg' E HG; cbn [add_loop_v1] in E.
  - inversion E; subst. split; [exact HG|apply alloc_only_refl].
  - apply bind_ok in E. destruct E as ([[s1 tw1] tg1] & H1 & E).
    destruct (add_one_v1_GRes _ _ _ _ _ _ _ _ H1 HG) as [HG1 Ha1].
    destruct (IH _ _ _ _ _ _ E HG1) as [HG2 Ha2]. split; [exact HG2|eapply alloc_only_trans; eauto].
Qed.

(** ** v2 *)
Lemma add_one_v2_GRes s tw tg uc ta ga x s' tw' tg' uc' ta' ga' :
  add_one_v2 (s, tw, tg, uc, ta, ga) x = Ok (s', tw', tg', uc', ta', ga') ->
  GRes true s tg -> GRes true s' tg' /\ alloc_only s s'.
Proof.
  destruct x as [[buyer allowance] infos]. unfold add_one_v2. intros E HG.
  destruct (allowance =? 0); [inversion E; subst; split; [exact HG|apply alloc_only_refl]|].
  apply bind_ok in E. destruct E as (u1 & _ & E). apply bind_ok in E. destruct E as (u2 & _ & E).
  apply bind_ok in E. destruct E as (u3 & _ & E).
  apply bind_ok in E. destruct E as (s1 & Hc & E).
  destruct (try_create_only _ _ _ _ Hc) as (Hnone & Hao & (fl & Hrg) & Hg1 & Hu1).
  apply bind_ok in E. destruct E as (u4 & _ & E).
  destruct HG as (Htg & Hnd & Hr).
  assert (Hni : ~ In buyer (gt_users s)) by (intros Hi; apply (Hr _ Hi); exact Hnone).
  destruct (0 <? infos_sum infos) eqn:Hpos.
  - apply bind_ok in E. destruct E as (u5 & _ & E). inversion E; subst s' tw' tg' uc' ta' ga'; clear E.
    split.
    + replace (tg + infos_sum infos) with (tg + (if true then sumN (map fst infos) else 0)) by reflexivity.
      eapply (GRes_add true s tg buyer fl {| us_a := allowance; us_b := 0; us_sg := 0; us_mg := 0; us_infos := infos |} true); [repeat split; assumption|exact Hnone| | |]; cbn.
      * exact Hrg.
      * rewrite Hu1. reflexivity.
      * rewrite Hg1. apply set_insert_new. exact Hni.
    + eapply alloc_only_trans; [exact Hao|]. exact (alloc_only_gu _ _ _).
  - inversion E; subst s' tw' tg' uc' ta' ga'; clear E.
    split.
    + replace tg with (tg + (if false then 0 else 0)) by lia.
      eapply (GRes_add true s tg buyer fl {| us_a := allowance; us_b := 0; us_sg := 0; us_mg := 0; us_infos := [] |} false); [repeat split; assumption|exact Hnone| | |]; cbn.
      * exact Hrg.
      * rewrite Hu1. reflexivity.
      * exact Hg1.
    + eapply alloc_only_trans; [exact Hao|]. exact (alloc_only_u _ _).
Qed.

Lemma add_loop_v2_GRes : forall l s tw tg uc ta ga s' tw' tg' uc' ta' ga',
  add_loop_v2 (s, tw, tg, uc, ta, ga) l = Ok (s', tw', tg', uc', ta', ga') ->
  GRes true s tg -> GRes true s' tg' /\ alloc_only s s'.
Proof.
  induction l as [|x l IH]; intros s tw tg uc ta ga s' tw' tg' uc' ta' ga' E HG; cbn [add_loop_v2] in E.
  - inversion E; subst. split; [exact HG|apply alloc_only_refl].
  - apply bind_ok in E. destruct E as (u0 & _ & E).
    apply bind_ok in E. destruct E as ([[[[[s1 tw1] tg1] uc1] ta1] ga1] & H1 & E).
    destruct (add_one_v2_GRes _ _ _ _ _ _ _ _ _ _ _ _ _ H1 HG) as [HG1 Ha1].
    destruct (IH _ _ _ _ _ _ _ _ _ _ _ _ E HG1) as [HG2 Ha2]. split; [exact HG2|eapply alloc_only_trans; eauto].
Qed.

(** ** the launchpad-token invariant of the set-up history *)
Record LpInv (v2 : bool) (w : world) : Prop := {
  lp_tc : forall a, total_claimable (st w) a = 0;
  lp_cb : forall a, claimed_balance (st w) a = 0;
  lp_res : GRes v2 (st w) (total_guaranteed (st w));
  lp_bal : bal w sc_addr (lp_token (st w)) 0 = total_deposited (st w);
  lp_dep : if deposited (st w) then total_deposited (st w) = tpt (st w) * reserve_total (st w)
           else total_deposited (st w) = 0;
  lp_sched : sched_inv v2 (st w);
  lp_tok : pay_token (st w) <> lp_token (st w)
}.

(** a transaction that leaves the fields of the invariant alone *)
Lemma LpInv_frame v2 w w' :
  LpInv v2 w ->
  total_claimable (st w') = total_claimable (st w) -> claimed_balance (st w') = claimed_balance (st w) ->
  total_guaranteed (st w') = total_guaranteed (st w) -> uts (st w') = uts (st w) -> gt_users (st w') = gt_users (st w) ->
  range (st w') = range (st w) -> lp_token (st w') = lp_token (st w) -> pay_token (st w') = pay_token (st w) ->
  total_deposited (st w') = total_deposited (st w) -> deposited (st w') = deposited (st w) ->
  nr_winning (st w') = nr_winning (st w) -> sched1 (st w') = sched1 (st w) -> sched2 (st w') = sched2 (st w) ->
  (tpt (st w') = tpt (st w) \/ deposited (st w) = false) ->
  bal w' sc_addr (lp_token (st w)) 0 = bal w sc_addr (lp_token (st w)) 0 ->
  LpInv v2 w'.
Proof.
  intros [Htc Hcb (Hres & Hnd & Hr) Hbal Hdep Hsch Htok] E1 E2 E3 E4 E5 E6 E7 E8 E9 E10 E11 E12 E13 Etpt Eb.
  constructor.
  - intros a. rewrite E1. apply Htc.
  - intros a. rewrite E2. apply Hcb.
  - unfold GRes, total_reserved, reserved. rewrite E3, E4, E5, E6. repeat split; assumption.
  - rewrite E7, E9, Eb. exact Hbal.
  - rewrite E10, E9. unfold reserve_total. rewrite E11, E3.
    destruct (deposited (st w)) eqn:Hd; [|exact Hdep].
    destruct Etpt as [->|Hx]; [exact Hdep|discriminate].
  - eapply sched_inv_ext; [exact E12|exact E13|exact E1|exact E2|exact Hsch].
  - rewrite E7, E8. exact Htok.
Qed.

Lemma LpInv_ext v2 w w' : st w' = st w -> bal w' = bal w -> LpInv v2 w -> LpInv v2 w'.
Proof.
  intros Hs Hb Hi. eapply LpInv_frame; [exact Hi|rewrite Hs; reflexivity..| |rewrite Hb; reflexivity].
  left. rewrite Hs. reflexivity.
Qed.

(** allocation *)
Lemma LpInv_alloc v2 w s' tw tg :
  LpInv v2 w -> alloc_only (st w) s' -> GRes v2 s' tg ->
  tw + tg = reserve_total (st w) ->
  LpInv v2 (set_st w (s' <| total_guaranteed := tg |> <| nr_winning := tw |>)).
Proof.
  intros [Htc Hcb _ Hbal Hdep Hsch Htok] (r & b & la & g & u & ->) (Hres & Hnd & Hr) Hcons.
  constructor; rewrite ?st_set_st, ?bal_set_st; cbn.
  - exact Htc.
  - exact Hcb.
  - unfold GRes, total_reserved, reserved in *. cbn in *. repeat split; assumption.
  - exact Hbal.
  - unfold reserve_total in *. cbn. destruct (deposited (st w)); [|exact Hdep]. rewrite Hcons. exact Hdep.
  - eapply sched_inv_ext; [| | | |exact Hsch]; reflexivity.
  - exact Htok.
Qed.

Theorem LpInv_add_tickets_v1 e w lx w' :
  LpInv false w -> add_tickets_v1 e w lx = Ok w' -> LpInv false w'.
Proof.
  intros Hi E. pose proof (add_tickets_v1_conserves e w lx w' E) as Hcons.
  unfold add_tickets_v1 in E.
  apply bind_ok in E. destruct E as (u & _ & E).
  apply bind_ok in E. destruct E as ([[s' tw] tg] & Hloop & E). inversion E; subst w'; clear E.
  destruct (add_loop_v1_GRes _ _ _ _ _ _ _ _ Hloop (lp_res _ _ Hi)) as [HG Ha].
  apply LpInv_alloc; auto.
  unfold reserve_total in Hcons. rewrite st_set_st in Hcons. cbn in Hcons. unfold reserve_total. apply Hcons.
Qed.

Theorem LpInv_add_tickets_v2 e w lx w' :
  LpInv true w -> add_tickets_v2 e w lx = Ok w' -> LpInv true w'.
Proof.
  intros Hi E. pose proof (add_tickets_v2_conserves e w lx w' E) as Hcons.
  unfold add_tickets_v2 in E.
  apply bind_ok in E. destruct E as (u & _ & E).
  apply bind_ok in E. destruct E as ([[[[[s' tw] tg] uc] ta] ga] & Hloop & E). inversion E; subst w'; clear E.
  destruct (add_loop_v2_GRes _ _ _ _ _ _ _ _ _ _ _ _ _ Hloop (lp_res _ _ Hi)) as [HG Ha].
  eapply LpInv_ext; [| |apply (LpInv_alloc true w s' tw tg); auto].
  - rewrite st_emit. reflexivity.
  - rewrite bal_emit. reflexivity.
  - unfold reserve_total in Hcons. rewrite st_emit, st_set_st in Hcons. cbn in Hcons. unfold reserve_total. apply Hcons.
Qed.

Definition vflag (v : variant) : bool := match v with Gt2 => true | _ => false end.

Section HSetupVested.
Variable H : list N -> list N.

Ltac open_plain E w0 :=
  unfold exec in E; cbn [payable] in E; fold w0 in E;
  apply bind_ok in E; destruct E as (?u & ?Hnp & E); apply no_payment_nil in Hnp; rewrite Hnp in E;
  cbn [credit_payment bind] in E; cbn [dispatch] in E; unfold ret0 in E; mon_inv.

Theorem LpInv_exec_common v e b sd w c w' r :
  guar v -> LpInv (vflag v) w -> common_call c -> pay_wf (pay e) -> caller e <> sc_addr ->
  exec H v e b sd w c = Ok (w', r) -> LpInv (vflag v) w'.
Proof.
  intros Hv Hi Hc Hwf Hcs E.
  set (w0 := w <| evs := [] |> <| rlog := [] |> <| locks := [] |> <| seeds := sd |>).
  assert (Hi0 : LpInv (vflag v) w0) by (eapply LpInv_ext; [| |exact Hi]; reflexivity).
  destruct Hc as [ | n | | | r0 | r0 | r0 | a | a].
  - (* deposit *)
    unfold exec in E. cbn [payable] in E. fold w0 in E. cbn [bind] in E.
    apply bind_ok in E. destruct E as (w1 & Hcr & E).
    cbn [dispatch] in E. unfold ret0 in E. mon_inv.
    match goal with Hd : deposit_launchpad_tokens _ _ _ = Ok _ |- _ => apply (deposit_iff _ _ _ _ Hwf) in Hd; destruct Hd as (Hnd & Hp & Hlp & ->) end.
    pose proof (credit_payment_st _ _ _ _ Hcr) as Hs1.
    rewrite Hs1 in *.
    assert (Hsize : deposit_size v (st w0) = reserve_total (st w0)).
    { pose proof (deposit_size_is_reserve_total v (st w0)) as Hx. destruct Hv as [-> | [-> | [-> | ->]]]; exact Hx. }
    rewrite Hp in Hcr. apply credit_single in Hcr. apply transfer_ok in Hcr. destruct Hcr as [_ Hw1].
    destruct Hi0 as [Htc Hcb (Hres & Hndg & Hr) Hbal Hdep Hsch Htok]. rewrite Hnd in Hdep.
    constructor; rewrite ?st_set_st, ?bal_set_st; cbn.
    + exact Htc.
    + exact Hcb.
    + unfold GRes, total_reserved, reserved in *. cbn. repeat split; assumption.
    + rewrite Hw1. cbn. rewrite bal_after_to by exact Hcs. cbn in Hbal, Hdep. rewrite Hbal, Hdep. lia.
    + cbn in Hsize. rewrite Hsize. unfold reserve_total. cbn. reflexivity.
    + eapply sched_inv_ext; [| | | |exact Hsch]; reflexivity.
    + exact Htok.
  - (* confirmation *)
    apply (exec_confirm_iff H v e b sd w n w' r Hwf) in E. destruct E as (w1 & Hcr & Hcond & -> & _).
    pose proof (credit_payment_st _ _ _ _ Hcr) as Hs1. unfold reset_outputs in Hs1. cbn in Hs1.
    destruct Hcond as (_ & _ & _ & _ & _ & _ & Hpay).
    assert (Hb1 : bal w1 sc_addr (lp_token (st w)) 0 = bal w sc_addr (lp_token (st w)) 0).
    { change (bal w) with (bal (reset_outputs w sd)).
      eapply credit_other_token; [exact Hcr|exact Hcs|].
      destruct Hpay as [->|(-> & _)]; [|constructor]. constructor; [|constructor]. cbn. exact (lp_tok _ _ Hi). }
    eapply LpInv_frame; [exact Hi|..]; unfold confirm_effect; rewrite ?st_emit, ?st_set_st, ?bal_emit, ?bal_set_st, ?Hs1; try reflexivity.
    + left. reflexivity.
    + exact Hb1.
  - open_plain E w0.
    match goal with Hd : pause_endpoint _ _ = Ok _ |- _ => apply gate_pause in Hd; destruct Hd as (_ & Hs & Hb) end.
    eapply LpInv_frame; [exact Hi0|..]; rewrite ?Hs, ?Hb; try reflexivity. left; reflexivity.
  - open_plain E w0.
    match goal with Hd : unpause_endpoint _ _ = Ok _ |- _ => apply gate_unpause in Hd; destruct Hd as (_ & Hs & Hb) end.
    eapply LpInv_frame; [exact Hi0|..]; rewrite ?Hs, ?Hb; try reflexivity. left; reflexivity.
  - open_plain E w0.
    match goal with Hd : set_confirmation_period_start_round _ _ _ = Ok _ |- _ => apply gate_set_conf in Hd; destruct Hd as (_ & _ & _ & Hs & _ & Hb) end.
    eapply LpInv_frame; [exact Hi0|..]; rewrite ?Hs, ?Hb; try reflexivity. left; reflexivity.
  - open_plain E w0.
    match goal with Hd : set_winner_selection_start_round _ _ _ = Ok _ |- _ => apply gate_set_ws in Hd; destruct Hd as (_ & _ & _ & Hs & _ & Hb) end.
    eapply LpInv_frame; [exact Hi0|..]; rewrite ?Hs, ?Hb; try reflexivity. left; reflexivity.
  - open_plain E w0.
    match goal with Hd : set_claim_start_round _ _ _ = Ok _ |- _ => apply gate_set_claim in Hd; destruct Hd as (_ & _ & _ & Hs & _ & Hb) end.
    eapply LpInv_frame; [exact Hi0|..]; rewrite ?Hs, ?Hb; try reflexivity. left; reflexivity.
  - open_plain E w0.
    match goal with Hd : set_support_address _ _ _ = Ok _ |- _ => unfold set_support_address in Hd; mon_inv end.
    eapply LpInv_frame; [exact Hi0|..]; rewrite ?st_set_st, ?bal_set_st; try reflexivity. left; reflexivity.
  - open_plain E w0.
    match goal with Hd : set_launchpad_tokens_per_winning_ticket _ _ _ = Ok _ |- _ =>
      unfold set_launchpad_tokens_per_winning_ticket, try_set_tpt in Hd; mon_inv end.
    eapply LpInv_frame; [exact Hi0|..]; rewrite ?st_set_st, ?bal_set_st; try reflexivity.
    right. match goal with Hd : negb (deposited _) = true |- _ => apply negb_true_iff in Hd; exact Hd end.
Qed.
End HSetupVested.

(** ** deployment and reachability *)
Lemma deploy_LpInv v e lp tpt0 ptok price0 nrw conf ws claim x s :
  guar v -> deploy v e lp tpt0 ptok price0 nrw conf ws claim x = Ok s -> lp <> egld -> LpInv (vflag v) (world0 s).
Proof.
  intros Hv E Hlp.
  destruct (deploy_PreG v e lp tpt0 ptok price0 nrw conf ws claim x s Hv E Hlp) as [[_ Htok _] _].
  unfold deploy in E.
  assert (Hs : total_claimable s = (fun _ => 0) /\ claimed_balance s = (fun _ => 0) /\ total_guaranteed s = 0 /\
               gt_users s = [] /\ total_deposited s = 0 /\ deposited s = false /\ sched1 s = None /\ sched2 s = None).
  { destruct Hv as [-> | [-> | [-> | ->]]]; cbn [has_nft is_v1 has_lock has_extra negb] in E; mon_inv;
      repeat match goal with Hl : lock_init _ _ _ _ _ = Ok _ |- _ => unfold lock_init in Hl; mon_inv end;
      match goal with Hinit : init_base _ _ _ _ _ _ _ _ _ _ = Ok _ |- _ =>
        unfold init_base, try_set_tpt, try_set_ticket_price, try_set_nr_winning in Hinit; mon_inv end;
      cbn; repeat split; reflexivity. }
  destruct Hs as (H1 & H2 & H3 & H4 & H5 & H6 & H7 & H8).
  constructor; cbn [st bal world0].
  - intros a. rewrite H1. reflexivity.
  - intros a. rewrite H2. reflexivity.
  - unfold GRes, total_reserved. rewrite H3, H4. cbn. repeat split; [constructor|intros u []].
  - rewrite H5. unfold init_bal. replace ((1 <=? sc_addr) && (sc_addr <=? 24)) with false by (vm_compute; reflexivity). reflexivity.
  - rewrite H6. exact H5.
  - unfold sched_inv, schedule_v2. rewrite H7, H8. destruct (vflag v); [vm_compute; reflexivity|exact I].
  - exact Htok.
Qed.

Section HReachVested.
Variable H : list N -> list N.

Theorem setup_reach_gt_LpInv v w : guar v -> setup_reach_gt H v w -> LpInv (vflag v) w.
Proof.
  intros Hv. induction 1 as [e lp tpt0 ptok price0 nrw conf ws claim x s Hd Hlp
                            | w e b sd c w' r _ IH Hc Hwf Hcs E
                            | w e b sd lx w' r _ IH Hpos Hsc E
                            | w e b sd lx w' r _ IH Hsc E].
  - eapply deploy_LpInv; eauto.
  - eapply LpInv_exec_common; eauto.
  - set (w0 := w <| evs := [] |> <| rlog := [] |> <| locks := [] |> <| seeds := sd |>).
    assert (Hi0 : LpInv (vflag v) w0) by (eapply LpInv_ext; [| |exact IH]; reflexivity).
    unfold exec in E. cbn [payable] in E. fold w0 in E.
    apply bind_ok in E. destruct E as (u & Hnp & E). apply no_payment_nil in Hnp. rewrite Hnp in E.
    cbn [credit_payment bind] in E. cbn [dispatch] in E.
    destruct (is_v1 v) eqn:Hv1; [|discriminate]. unfold ret0 in E. mon_inv.
    assert (Hf : vflag v = false) by (destruct v; try reflexivity; discriminate).
    rewrite Hf in *. eapply LpInv_add_tickets_v1; eauto.
  - set (w0 := w <| evs := [] |> <| rlog := [] |> <| locks := [] |> <| seeds := sd |>).
    assert (Hi0 : LpInv (vflag v) w0) by (eapply LpInv_ext; [| |exact IH]; reflexivity).
    unfold exec in E. cbn [payable] in E. fold w0 in E.
    apply bind_ok in E. destruct E as (u & Hnp & E). apply no_payment_nil in Hnp. rewrite Hnp in E.
    cbn [credit_payment bind] in E. cbn [dispatch] in E.
    destruct v; try discriminate. unfold ret0 in E. mon_inv.
    eapply LpInv_add_tickets_v2; eauto.
Qed.

(** ** from deployment to the launchpad-token ledger of the claim period (gt1, gt2) *)
Theorem deployed_vested v w0 lf wf ef bf w1 ls ws es bs w2 sd rest ld wd ed bd w3 :
  guar v -> setup_reach_gt H v w0 ->
  deposited (st w0) = true -> 0 < price (st w0) ->
  after_interrupted filter_tickets lf w0 = Some wf -> filter_tickets ef bf wf = Ok (w1, 0) ->
  seeds w1 = sd :: rest ->
  after_interrupted (select_winners H) ls w1 = Some ws -> select_winners H es bs ws = Ok (w2, 0) ->
  after_interrupted (distribute_guaranteed_tickets H (vflag v)) ld w2 = Some wd ->
  distribute_guaranteed_tickets H (vflag v) ed bd wd = Ok (w3, 0) ->
  exists l : list (N * N), ClaimInv w3 (map fst l) /\ VInv (vflag v) w3 (map fst l) 0.
Proof.
  intros Hv Hr Hdep Hprice Haf Ef Hs Has Es Had Ed.
  destruct (setup_reach_gt_PreG H v w0 Hv Hr) as [l [[Hsel _ _] Hg]]. exists l.
  pose proof (setup_reach_gt_LpInv v w0 Hv Hr) as [Htc Hcb (Hres & _ & _) Hbal Hd Hsch _].
  rewrite Hdep in Hd.
  eapply (pipeline_gt_vested H (vflag v) l w0 lf wf ef bf w1 ls ws es bs w2 sd rest ld wd ed bd w3); eauto.
  rewrite Hd. unfold reserve_total. rewrite Hres. lia.
Qed.

(** the contracts with guarantees that pay at once (migration, locked-tokens-and-guaranteed-tickets):
    the cover invariant of [ClaimLedger] at the start of the claim period *)
Corollary deployed_cover_gt v w0 lf wf ef bf w1 ls ws es bs w2 sd rest ld wd ed bd w3 :
  guar v -> setup_reach_gt H v w0 ->
  deposited (st w0) = true -> 0 < price (st w0) ->
  after_interrupted filter_tickets lf w0 = Some wf -> filter_tickets ef bf wf = Ok (w1, 0) ->
  seeds w1 = sd :: rest ->
  after_interrupted (select_winners H) ls w1 = Some ws -> select_winners H es bs ws = Ok (w2, 0) ->
  after_interrupted (distribute_guaranteed_tickets H (vflag v)) ld w2 = Some wd ->
  distribute_guaranteed_tickets H (vflag v) ed bd wd = Ok (w3, 0) ->
  exists l : list (N * N), ClaimInv w3 (map fst l) /\ CoverInv w3.
Proof.
  intros Hv Hr Hdep Hprice Haf Ef Hs Has Es Had Ed.
  destruct (deployed_vested v w0 lf wf ef bf w1 ls ws es bs w2 sd rest ld wd ed bd w3 Hv Hr Hdep Hprice Haf Ef Hs Has Es Had Ed)
    as (l & Hci & Hvi).
  exists l. split; [exact Hci|]. unfold CoverInv. rewrite (vi_bal _ _ _ _ Hvi). lia.
Qed.
End HReachVested.
