(** * The launchpad-token side of the set-up history of the guaranteed-ticket contracts: from
    deployment through allocation (with guarantees), the deposit, confirmations, pause, timeline /
    support / tokens-per-ticket transactions, the contract holds exactly the recorded deposit, the
    deposit is tokens-per-ticket x (winners + reservations), the reservation counter equals the sum
    of the holders' reservations, and nothing has been credited to anybody - the hypotheses of
    [pipeline_gt_vested]. *)
From Coq Require Import Permutation.
From LP Require Import Proofs.Tactics Proofs.LedgerBase Proofs.Loop Proofs.Shuffle Proofs.Gates Proofs.Frames Proofs.Filter
  Proofs.Alloc Proofs.Confirm Proofs.Settle Proofs.Ledger Proofs.Stage Proofs.Resume Proofs.FisherYates Proofs.Rng Proofs.Reserve
  Proofs.Guaranteed Proofs.GuaranteedLoop Proofs.Leftover Proofs.ClaimLedger Proofs.Partition Proofs.Lifecycle Proofs.Setup
  Proofs.SetupGt Proofs.Nft Proofs.SetupCover Proofs.Vesting Proofs.VestedCover Proofs.VestedLifecycle.
Open Scope N_scope.

(** what an allocation may change *)
Definition alloc_only (s s' : state) : Prop :=
  exists r b la g u, s' = s <| range := r |> <| batch := b |> <| last_ticket_id := la |> <| gt_users := g |> <| uts := u |>.

Lemma alloc_only_refl s : alloc_only s s.
Proof. exists (range s), (batch s), (last_ticket_id s), (gt_users s), (uts s). destruct s; reflexivity. Qed.
Lemma alloc_only_trans a b c : alloc_only a b -> alloc_only b c -> alloc_only a c.
Proof. intros (r & ba & la & g & u & ->) (r' & ba' & la' & g' & u' & ->). exists r', ba', la', g', u'. reflexivity. Qed.

(** the reservation counter is the sum of the holders' reservations, and holders have tickets *)
Definition GRes (v2 : bool) (s : state) (tg : N) : Prop :=
  tg = total_reserved v2 s /\ NoDup (gt_users s) /\ (forall u, In u (gt_users s) -> range s u <> None) /\
  (forall u, ~ In u (gt_users s) -> reserved v2 s u = 0) /\
  (forall u, blacklisted s u = true -> range s u <> None /\ ~ In u (gt_users s)).

Lemma sum_reserved_other v2 s s' l :
  (forall u, In u l -> uts s' u = uts s u) ->
  sumN (map (reserved v2 s') l) = sumN (map (reserved v2 s) l).
Proof.
  intros Hu. apply sumN_map_ext. intros a Ha. unfold reserved. rewrite (Hu a Ha). reflexivity.
Qed.

(** one new holder [buyer] (no tickets before) with record [us]; in the list iff [ins] *)
Lemma GRes_add v2 s tg buyer fl us (ins : bool) s' :
  GRes v2 s tg -> range s buyer = None ->
  range s' = upd (range s) buyer (Some fl) ->
  uts s' = upd (uts s) buyer (Some us) ->
  gt_users s' = (if ins then gt_users s ++ [buyer] else gt_users s) ->
  blacklisted s' = blacklisted s ->
  let r := if v2 then sumN (map fst (us_infos us)) else us_sg us + us_mg us in
  (ins = false -> r = 0) ->
  GRes v2 s' (tg + (if ins then r else 0)).
Proof.
  intros (Htg & Hnd & Hr & Hz & Hbl) Hnone Hrange Huts Hg Hb r Hr0.
  assert (Hni : ~ In buyer (gt_users s)) by (intros Hi; apply (Hr _ Hi); exact Hnone).
  assert (Hother : forall u, In u (gt_users s) -> uts s' u = uts s u).
  { intros u Hu. rewrite Huts. apply upd_other. intros ->. contradiction. }
  split; [|split; [|split; [|split]]].
  - unfold total_reserved. rewrite Hg. destruct ins.
    + rewrite map_app, sumN_app. cbn [map]. rewrite sumN_cons, sumN_nil.
      rewrite (sum_reserved_other v2 s s' _ Hother). unfold reserved at 2. rewrite Huts, upd_same.
      fold r. unfold total_reserved in Htg. lia.
    + rewrite (sum_reserved_other v2 s s' _ Hother). unfold total_reserved in Htg. lia.
  - rewrite Hg. destruct ins; [|exact Hnd]. apply NoDup_snoc; assumption.
  - intros u Hu. rewrite Hrange. unfold upd. destruct (N.eqb_spec u buyer) as [->|Hne]; [discriminate|].
    apply Hr. rewrite Hg in Hu. destruct ins; [|exact Hu]. apply in_app_or in Hu. destruct Hu as [Hu|[Hu|[]]]; [exact Hu|congruence].
  - intros u Hu. unfold reserved. rewrite Huts. unfold upd. destruct (N.eqb_spec u buyer) as [->|Hne].
    + fold r. destruct ins; [|apply Hr0; reflexivity]. exfalso. apply Hu. rewrite Hg. apply in_or_app. right. left. reflexivity.
    + apply Hz. intros Hi. apply Hu. rewrite Hg. destruct ins; [apply in_or_app; left|]; exact Hi.
  - intros u Hu. rewrite Hb in Hu. destruct (Hbl u Hu) as [Hru Hnu]. split.
    + rewrite Hrange. unfold upd. destruct (u =? buyer); [discriminate|exact Hru].
    + rewrite Hg. destruct ins; [|exact Hnu]. intros Hi. apply in_app_or in Hi. destruct Hi as [Hi|[Hi|[]]]; [contradiction|].
      subst u. contradiction.
Qed.

Lemma set_insert_new x l : ~ In x l -> set_insert x l = l ++ [x].
Proof. intros Hn. unfold set_insert. destruct (mem x l) eqn:Em; [apply mem_In' in Em; contradiction|reflexivity]. Qed.
Lemma set_insert_old x l : In x l -> set_insert x l = l.
Proof. intros Hi. unfold set_insert. destruct (mem x l) eqn:Em; [reflexivity|]. exfalso.
  assert (mem x l = true) by (apply mem_In'; exact Hi). congruence. Qed.

Lemma alloc_only_rbl s r b la : alloc_only s (s <| range := r |> <| batch := b |> <| last_ticket_id := la |>).
Proof. exists r, b, la, (gt_users s), (uts s). destruct s; reflexivity. Qed.
Lemma alloc_only_gu s g u : alloc_only s (s <| gt_users := g |> <| uts := u |>).
Proof. exists (range s), (batch s), (last_ticket_id s), g, u. destruct s; reflexivity. Qed.
Lemma alloc_only_u s u : alloc_only s (s <| uts := u |>).
Proof. exists (range s), (batch s), (last_ticket_id s), (gt_users s), u. destruct s; reflexivity. Qed.

Lemma try_create_only s buyer n s1 :
  try_create_tickets s buyer n = Ok s1 ->
  range s buyer = None /\ alloc_only s s1 /\
  (exists fl, range s1 = upd (range s) buyer (Some fl)) /\ gt_users s1 = gt_users s /\ uts s1 = uts s /\
  blacklisted s1 = blacklisted s.
Proof.
  unfold try_create_tickets. intros Hc.
  apply bind_ok in Hc. destruct Hc as (u0 & _ & Hc).
  apply bind_ok in Hc. destruct Hc as (u3 & Hr & Hc). apply require_ok' in Hr.
  assert (Hnone : range s buyer = None) by (destruct (range s buyer); [discriminate|reflexivity]).
  apply bind_ok in Hc. destruct Hc as (m & _ & Hc). apply bind_ok in Hc. destruct Hc as (u4 & _ & Hc).
  apply bind_ok in Hc. destruct Hc as (la & _ & Hc). inversion Hc; subst s1; clear Hc.
  split; [exact Hnone|]. split; [|split; [eexists; reflexivity|repeat split; reflexivity]].
  apply alloc_only_rbl.
Qed.

(** ** v1 *)
Lemma add_one_v1_GRes minc s tw tg x s' tw' tg' :
  add_one_v1 minc (s, tw, tg) x = Ok (s', tw', tg') ->
  GRes false s tg -> GRes false s' tg' /\ alloc_only s s'.
Proof.
  destruct x as [[[buyer staking] energy] mig]. unfold add_one_v1. intros E HG.
  apply bind_ok in E. destruct E as (u1 & _ & E). apply bind_ok in E. destruct E as (u2 & _ & E).
  apply bind_ok in E. destruct E as (s1 & Hc & E).
  destruct (try_create_only _ _ _ _ Hc) as (Hnone & Hao & (fl & Hrg) & Hg1 & Hu1 & Hbl1).
  pose proof HG as (Htg & Hnd & Hr & _ & _).
  assert (Hni : ~ In buyer (gt_users s)) by (intros Hi; apply (Hr _ Hi); exact Hnone).
  apply bind_ok in E. destruct E as ([[[s2 tw2] tg2] us2] & H1 & E).
  apply bind_ok in E. destruct E as ([[[s3 tw3] tg3] us3] & H2 & E).
  inversion E; subst s' tw' tg'; clear E.
  destruct (minc <=? staking); destruct mig.
  - apply bind_ok in H1. destruct H1 as (u5 & _ & H1). inversion H1; subst s2 tw2 tg2 us2; clear H1.
    apply bind_ok in H2. destruct H2 as (u6 & _ & H2). inversion H2; subst s3 tw3 tg3 us3; clear H2.
    split.
    + replace (tg + STAKING_GUARANTEED_TICKETS_NO + MIGRATION_GUARANTEED_TICKETS_NO) with (tg + (if true then 1 + 1 else 0)) by (unfold STAKING_GUARANTEED_TICKETS_NO, MIGRATION_GUARANTEED_TICKETS_NO; cbv iota; lia).
      eapply (GRes_add false s tg buyer fl {| us_a := staking; us_b := energy; us_sg := 1; us_mg := 1; us_infos := [] |} true); [exact HG|exact Hnone| | | | |]; cbn.
      * exact Hrg.
      * rewrite Hu1. reflexivity.
      * rewrite Hg1. rewrite (set_insert_new buyer (gt_users s) Hni).
        apply set_insert_old. apply in_or_app. right. left. reflexivity.
      * exact Hbl1.
      * intros Hx; try discriminate Hx; reflexivity.
    + eapply alloc_only_trans; [exact Hao|]. exact (alloc_only_gu _ _ _).
  - apply bind_ok in H1. destruct H1 as (u5 & _ & H1). inversion H1; subst s2 tw2 tg2 us2; clear H1.
    inversion H2; subst s3 tw3 tg3 us3; clear H2.
    split.
    + replace (tg + STAKING_GUARANTEED_TICKETS_NO) with (tg + (if true then 1 + 0 else 0)) by (unfold STAKING_GUARANTEED_TICKETS_NO, MIGRATION_GUARANTEED_TICKETS_NO; cbv iota; lia).
      eapply (GRes_add false s tg buyer fl {| us_a := staking; us_b := energy; us_sg := 1; us_mg := 0; us_infos := [] |} true); [exact HG|exact Hnone| | | | |]; cbn.
      * exact Hrg.
      * rewrite Hu1. reflexivity.
      * rewrite Hg1. apply set_insert_new. exact Hni.
      * exact Hbl1.
      * intros Hx; try discriminate Hx; reflexivity.
    + eapply alloc_only_trans; [exact Hao|]. exact (alloc_only_gu _ _ _).
  - inversion H1; subst s2 tw2 tg2 us2; clear H1.
    apply bind_ok in H2. destruct H2 as (u6 & _ & H2). inversion H2; subst s3 tw3 tg3 us3; clear H2.
    split.
    + replace (tg + MIGRATION_GUARANTEED_TICKETS_NO) with (tg + (if true then 0 + 1 else 0)) by (unfold STAKING_GUARANTEED_TICKETS_NO, MIGRATION_GUARANTEED_TICKETS_NO; cbv iota; lia).
      eapply (GRes_add false s tg buyer fl {| us_a := staking; us_b := energy; us_sg := 0; us_mg := 1; us_infos := [] |} true); [exact HG|exact Hnone| | | | |]; cbn.
      * exact Hrg.
      * rewrite Hu1. reflexivity.
      * rewrite Hg1. apply set_insert_new. exact Hni.
      * exact Hbl1.
      * intros Hx; try discriminate Hx; reflexivity.
    + eapply alloc_only_trans; [exact Hao|]. exact (alloc_only_gu _ _ _).
  - inversion H1; subst s2 tw2 tg2 us2; clear H1. inversion H2; subst s3 tw3 tg3 us3; clear H2.
    split.
    + replace tg with (tg + (if false then 0 else 0)) by lia.
      eapply (GRes_add false s tg buyer fl {| us_a := staking; us_b := energy; us_sg := 0; us_mg := 0; us_infos := [] |} false); [exact HG|exact Hnone| | | | |]; cbn.
      * exact Hrg.
      * rewrite Hu1. reflexivity.
      * exact Hg1.
      * exact Hbl1.
      * intros Hx; try discriminate Hx; reflexivity.
    + eapply alloc_only_trans; [exact Hao|]. exact (alloc_only_u _ _).
Qed.

Lemma add_loop_v1_GRes minc : forall l s tw tg s' tw' tg',
  add_loop_v1 minc (s, tw, tg) l = Ok (s', tw', tg') ->
  GRes false s tg -> GRes false s' tg' /\ alloc_only s s'.
Proof.
  induction l as [|x l IH]; intros s tw tg s' tw' tg' E HG; cbn [add_loop_v1] in E.
  - inversion E; subst. split; [exact HG|apply alloc_only_refl].
  - apply bind_ok in E. destruct E as ([[s1 tw1] tg1] & H1 & E).
    destruct (add_one_v1_GRes _ _ _ _ _ _ _ _ H1 HG) as [HG1 Ha1].
    destruct (IH _ _ _ _ _ _ E HG1) as [HG2 Ha2]. split; [exact HG2|eapply alloc_only_trans; eauto].
Qed.

(** ** v2 *)
Lemma add_one_v2_GRes s tw tg uc ta ga x s' tw' tg' uc' ta' ga' :
  add_one_v2 (s, tw, tg, uc, ta, ga) x = Ok (s', tw', tg', uc', ta', ga') ->
  GRes true s tg -> GRes true s' tg' /\ alloc_only s s'.
Proof.
  destruct x as [[buyer allowance] infos]. unfold add_one_v2. intros E HG.
  destruct (allowance =? 0); [inversion E; subst; split; [exact HG|apply alloc_only_refl]|].
  apply bind_ok in E. destruct E as (u1 & _ & E). apply bind_ok in E. destruct E as (u2 & _ & E).
  apply bind_ok in E. destruct E as (u3 & _ & E).
  apply bind_ok in E. destruct E as (s1 & Hc & E).
  destruct (try_create_only _ _ _ _ Hc) as (Hnone & Hao & (fl & Hrg) & Hg1 & Hu1 & Hbl1).
  apply bind_ok in E. destruct E as (u4 & _ & E).
  pose proof HG as (Htg & Hnd & Hr & _ & _).
  assert (Hni : ~ In buyer (gt_users s)) by (intros Hi; apply (Hr _ Hi); exact Hnone).
  destruct (0 <? infos_sum infos) eqn:Hpos.
  - apply bind_ok in E. destruct E as (u5 & _ & E). inversion E; subst s' tw' tg' uc' ta' ga'; clear E.
    split.
    + replace (tg + infos_sum infos) with (tg + (if true then sumN (map fst infos) else 0)) by reflexivity.
      eapply (GRes_add true s tg buyer fl {| us_a := allowance; us_b := 0; us_sg := 0; us_mg := 0; us_infos := infos |} true); [exact HG|exact Hnone| | | | |]; cbn.
      * exact Hrg.
      * rewrite Hu1. reflexivity.
      * rewrite Hg1. apply set_insert_new. exact Hni.
      * exact Hbl1.
      * intros Hx; try discriminate Hx; reflexivity.
    + eapply alloc_only_trans; [exact Hao|]. exact (alloc_only_gu _ _ _).
  - inversion E; subst s' tw' tg' uc' ta' ga'; clear E.
    split.
    + replace tg with (tg + (if false then 0 else 0)) by lia.
      eapply (GRes_add true s tg buyer fl {| us_a := allowance; us_b := 0; us_sg := 0; us_mg := 0; us_infos := [] |} false); [exact HG|exact Hnone| | | | |]; cbn.
      * exact Hrg.
      * rewrite Hu1. reflexivity.
      * exact Hg1.
      * exact Hbl1.
      * intros Hx; try discriminate Hx; reflexivity.
    + eapply alloc_only_trans; [exact Hao|]. exact (alloc_only_u _ _).
Qed.

Lemma add_loop_v2_GRes : forall l s tw tg uc ta ga s' tw' tg' uc' ta' ga',
  add_loop_v2 (s, tw, tg, uc, ta, ga) l = Ok (s', tw', tg', uc', ta', ga') ->
  GRes true s tg -> GRes true s' tg' /\ alloc_only s s'.
Proof.
  induction l as [|x l IH]; intros s tw tg uc ta ga s' tw' tg' uc' ta' ga' E HG; cbn [add_loop_v2] in E.
  - inversion E; subst. split; [exact HG|apply alloc_only_refl].
  - apply bind_ok in E. destruct E as (u0 & _ & E).
    apply bind_ok in E. destruct E as ([[[[[s1 tw1] tg1] uc1] ta1] ga1] & H1 & E).
    destruct (add_one_v2_GRes _ _ _ _ _ _ _ _ _ _ _ _ _ H1 HG) as [HG1 Ha1].
    destruct (IH _ _ _ _ _ _ _ _ _ _ _ _ E HG1) as [HG2 Ha2]. split; [exact HG2|eapply alloc_only_trans; eauto].
Qed.

(** ** blacklisting / un-blacklisting: the reservation counter follows the holders' list *)
Definition GW (v2 : bool) (s : state) (tg : N) : Prop :=
  tg = total_reserved v2 s /\ NoDup (gt_users s) /\ (forall u, In u (gt_users s) -> range s u <> None) /\
  (forall u, ~ In u (gt_users s) -> reserved v2 s u = 0).

Lemma GRes_GW v2 s tg : GRes v2 s tg -> GW v2 s tg.
Proof. intros (A & B & C & D & _). repeat split; assumption. Qed.

Lemma reserved_ext v2 s s' u : uts s' u = uts s u -> reserved v2 s' u = reserved v2 s u.
Proof. intros E. unfold reserved. rewrite E. reflexivity. Qed.

Lemma reserved_v1_get s u : reserved false s u = us_sg (us_get (uts s u)) + us_mg (us_get (uts s u)).
Proof. unfold reserved, us_get. destruct (uts s u); reflexivity. Qed.
Lemma reserved_v2_get s u : reserved true s u = infos_sum (us_infos (us_get (uts s u))).
Proof. unfold reserved, us_get, infos_sum. destruct (uts s u); reflexivity. Qed.

(** a holder leaves *)
Lemma GW_remove v2 s tg u s' :
  GW v2 s tg -> In u (gt_users s) ->
  gt_users s' = swap_remove u (gt_users s) -> uts s' = upd (uts s) u None -> range s' = range s ->
  reserved v2 s u <= tg /\ GW v2 s' (tg - reserved v2 s u).
Proof.
  intros (Htg & Hnd & Hr & Hz) Hin Hg Hu Hrg.
  destruct (swap_remove_facts u (gt_users s) Hnd Hin) as (Hnd1 & Hnot & Hiff & _).
  pose proof (sumN_map_perm (reserved v2 s) _ _ (swap_remove_perm u (gt_users s) Hnd Hin)) as Hsum.
  cbn [map] in Hsum. rewrite sumN_cons in Hsum.
  assert (Hsame : sumN (map (reserved v2 s') (swap_remove u (gt_users s))) = sumN (map (reserved v2 s) (swap_remove u (gt_users s)))).
  { apply sumN_map_ext. intros x Hx. apply reserved_ext. rewrite Hu. apply upd_other. intros ->. contradiction. }
  unfold total_reserved in Htg. split; [lia|].
  split; [|split; [|split]].
  - unfold total_reserved. rewrite Hg, Hsame. lia.
  - rewrite Hg. exact Hnd1.
  - intros x Hx. rewrite Hrg. apply Hr. rewrite Hg in Hx. apply Hiff in Hx. tauto.
  - intros x Hx. destruct (N.eq_dec x u) as [->|Hne].
    + unfold reserved. rewrite Hu, upd_same. reflexivity.
    + rewrite (reserved_ext v2 s s' x) by (rewrite Hu; apply upd_other; exact Hne).
      apply Hz. intros Hi. apply Hx. rewrite Hg. apply Hiff. tauto.
Qed.

(** a non-holder's record is wiped *)
Lemma GW_wipe v2 s tg u s' :
  GW v2 s tg -> ~ In u (gt_users s) ->
  gt_users s' = gt_users s -> uts s' = upd (uts s) u None -> range s' = range s ->
  GW v2 s' tg.
Proof.
  intros (Htg & Hnd & Hr & Hz) Hni Hg Hu Hrg.
  split; [|split; [|split]].
  - unfold total_reserved in *. rewrite Hg, Htg. symmetry. apply sumN_map_ext. intros x Hx. apply reserved_ext.
    rewrite Hu. apply upd_other. intros ->. contradiction.
  - rewrite Hg. exact Hnd.
  - intros x Hx. rewrite Hrg. apply Hr. rewrite <- Hg. exact Hx.
  - intros x Hx. rewrite Hg in Hx. destruct (N.eq_dec x u) as [->|Hne].
    + unfold reserved. rewrite Hu, upd_same. reflexivity.
    + rewrite (reserved_ext v2 s s' x) by (rewrite Hu; apply upd_other; exact Hne). apply Hz. exact Hx.
Qed.

(** somebody with tickets who is not a holder gets the record [us]; a holder iff [ins] *)
Lemma GW_readd v2 s tg u us (ins : bool) s' :
  GW v2 s tg -> ~ In u (gt_users s) -> range s u <> None ->
  gt_users s' = (if ins then gt_users s ++ [u] else gt_users s) -> uts s' = upd (uts s) u (Some us) -> range s' = range s ->
  let r := if v2 then sumN (map fst (us_infos us)) else us_sg us + us_mg us in
  (ins = false -> r = 0) ->
  GW v2 s' (tg + (if ins then r else 0)).
Proof.
  intros (Htg & Hnd & Hr & Hz) Hni Hru Hg Hu Hrg r Hr0.
  assert (Hother : forall x, In x (gt_users s) -> uts s' x = uts s x).
  { intros x Hx. rewrite Hu. apply upd_other. intros ->. contradiction. }
  split; [|split; [|split]].
  - unfold total_reserved. rewrite Hg. destruct ins.
    + rewrite map_app, sumN_app. cbn [map]. rewrite sumN_cons, sumN_nil.
      rewrite (sum_reserved_other v2 s s' _ Hother). unfold reserved at 2. rewrite Hu, upd_same.
      fold r. unfold total_reserved in Htg. lia.
    + rewrite (sum_reserved_other v2 s s' _ Hother). unfold total_reserved in Htg. lia.
  - rewrite Hg. destruct ins; [|exact Hnd]. apply NoDup_snoc; assumption.
  - intros x Hx. rewrite Hrg. rewrite Hg in Hx. destruct ins; [|apply Hr; exact Hx].
    apply in_app_or in Hx. destruct Hx as [Hx|[<-|[]]]; [apply Hr; exact Hx|exact Hru].
  - intros x Hx. unfold reserved. rewrite Hu. unfold upd. destruct (N.eqb_spec x u) as [->|Hne].
    + fold r. destruct ins; [|apply Hr0; reflexivity]. exfalso. apply Hx. rewrite Hg. apply in_or_app. right. left. reflexivity.
    + apply Hz. intros Hi. apply Hx. rewrite Hg. destruct ins; [apply in_or_app; left|]; exact Hi.
Qed.

Lemma swap_remove_absent x l : ~ In x l -> swap_remove x l = l.
Proof. intros Hn. unfold swap_remove. destruct (mem x l) eqn:Em; [apply mem_In' in Em; contradiction|reflexivity]. Qed.
Lemma swap_remove_sub x l y : NoDup l -> In y (swap_remove x l) -> In y l.
Proof.
  intros Hnd Hy. destruct (in_dec N.eq_dec x l) as [Hi|Hn].
  - apply (swap_remove_facts x l Hnd Hi) in Hy. tauto.
  - rewrite (swap_remove_absent x l Hn) in Hy. exact Hy.
Qed.

Lemma clear_gt_loop_v1_GW : forall l s rm tg s' rm' tg',
  clear_gt_loop_v1 (s, rm, tg) l = Ok (s', rm', tg') -> GW false s tg ->
  GW false s' tg' /\ range s' = range s /\ blacklisted s' = blacklisted s /\
  (forall x, In x (gt_users s') -> In x (gt_users s)) /\ (forall x, In x l -> ~ In x (gt_users s')).
Proof.
  induction l as [|u l IH]; intros s rm tg s' rm' tg' E HG; cbn [clear_gt_loop_v1] in E.
  - inversion E; subst. split; [exact HG|]. split; [reflexivity|]. split; [reflexivity|]. split; [auto|intros x []].
  - destruct (mem u (gt_users s)) eqn:Em.
    + apply mem_In' in Em.
      apply bind_ok in E. destruct E as (tg1 & H1 & E). apply usub_ok in H1. destruct H1 as [_ ->].
      apply bind_ok in E. destruct E as (tg2 & H2 & E). apply usub_ok in H2. destruct H2 as [_ ->].
      match type of E with clear_gt_loop_v1 (?sx, _, _) l = _ => set (s1 := sx) in * end.
      destruct (GW_remove false s tg u s1 HG Em eq_refl eq_refl eq_refl) as [Hle HG1].
      rewrite reserved_v1_get in HG1.
      replace (tg - us_sg (us_get (uts s u)) - us_mg (us_get (uts s u))) with (tg - (us_sg (us_get (uts s u)) + us_mg (us_get (uts s u)))) in E by lia.
      destruct (IH _ _ _ _ _ _ E HG1) as (HG' & Hrg & Hbl & Hsub & Hout).
      destruct HG as (_ & Hnd & _).
      split; [exact HG'|]. split; [exact Hrg|]. split; [exact Hbl|]. split.
      * intros x Hx. apply Hsub in Hx. eapply swap_remove_sub; [exact Hnd|exact Hx].
      * intros x [<-|Hx]; [|apply Hout; exact Hx]. intros Hi. apply Hsub in Hi.
        apply (swap_remove_facts u (gt_users s) Hnd Em) in Hi. tauto.
    + destruct (IH _ _ _ _ _ _ E HG) as (HG' & Hrg & Hbl & Hsub & Hout).
      split; [exact HG'|]. split; [exact Hrg|]. split; [exact Hbl|]. split; [exact Hsub|].
      intros x [<-|Hx]; [|apply Hout; exact Hx]. intros Hi. apply Hsub in Hi.
      apply mem_In' in Hi. congruence.
Qed.

Lemma clear_gt_loop_v2_GW : forall l s nw tg s' nw' tg',
  clear_gt_loop_v2 (s, nw, tg) l = Ok (s', nw', tg') -> GW true s tg ->
  GW true s' tg' /\ range s' = range s /\ blacklisted s' = blacklisted s /\
  (forall x, In x (gt_users s') -> In x (gt_users s)) /\ (forall x, In x l -> ~ In x (gt_users s')).
Proof.
  induction l as [|u l IH]; intros s nw tg s' nw' tg' E HG; cbn [clear_gt_loop_v2] in E.
  - inversion E; subst. split; [exact HG|]. split; [reflexivity|]. split; [reflexivity|]. split; [auto|intros x []].
  - apply bind_ok in E. destruct E as (tg1 & H1 & E). apply usub_ok in H1. destruct H1 as [_ ->].
    match type of E with clear_gt_loop_v2 (?sx, _, _) l = _ => set (s1 := sx) in * end.
    rewrite <- reserved_v2_get in E.
    pose proof HG as (_ & Hnd & _ & Hz).
    destruct (in_dec N.eq_dec u (gt_users s)) as [Em|Hn].
    + destruct (GW_remove true s tg u s1 HG Em eq_refl eq_refl eq_refl) as [Hle HG1].
      destruct (IH _ _ _ _ _ _ E HG1) as (HG' & Hrg & Hbl & Hsub & Hout).
      split; [exact HG'|]. split; [exact Hrg|]. split; [exact Hbl|]. split.
      * intros x Hx. apply Hsub in Hx. eapply swap_remove_sub; [exact Hnd|exact Hx].
      * intros x [<-|Hx]; [|apply Hout; exact Hx]. intros Hi. apply Hsub in Hi.
        apply (swap_remove_facts u (gt_users s) Hnd Em) in Hi. tauto.
    + assert (HG1 : GW true s1 (tg - reserved true s u)).
      { rewrite (Hz u Hn), N.sub_0_r. apply (GW_wipe true s tg u s1 HG Hn); try reflexivity.
        unfold s1. cbn. apply swap_remove_absent. exact Hn. }
      destruct (IH _ _ _ _ _ _ E HG1) as (HG' & Hrg & Hbl & Hsub & Hout).
      assert (Hg1 : gt_users s1 = gt_users s) by (unfold s1; cbn; apply swap_remove_absent; exact Hn).
      split; [exact HG'|]. split; [exact Hrg|]. split; [exact Hbl|]. split.
      * intros x Hx. apply Hsub in Hx. rewrite Hg1 in Hx. exact Hx.
      * intros x [<-|Hx]; [|apply Hout; exact Hx]. intros Hi. apply Hsub in Hi. rewrite Hg1 in Hi. contradiction.
Qed.

Lemma unbl_gt_loop_v1_GW : forall l s nw tg s' nw' tg',
  unbl_gt_loop_v1 (s, nw, tg) l = Ok (s', nw', tg') -> GW false s tg ->
  GW false s' tg' /\ range s' = range s /\ blacklisted s' = blacklisted s /\
  (forall x, In x (gt_users s') -> In x (gt_users s) \/ In x l).
Proof.
  induction l as [|u l IH]; intros s nw tg s' nw' tg' E HG; cbn [unbl_gt_loop_v1] in E.
  - inversion E; subst. split; [exact HG|]. split; [reflexivity|]. split; [reflexivity|]. intros x Hx; left; exact Hx.
  - destruct (match uts s u with Some _ => true | None => false end || match range s u with None => true | Some _ => false end) eqn:Hskip.
    { destruct (IH _ _ _ _ _ _ E HG) as (HG' & Hrg & Hbl & Hsub).
      split; [exact HG'|]. split; [exact Hrg|]. split; [exact Hbl|].
      intros x Hx. destruct (Hsub x Hx); [left|right; right]; assumption. }
    destruct (mem u (gt_users s)) eqn:Em.
    { destruct (IH _ _ _ _ _ _ E HG) as (HG' & Hrg & Hbl & Hsub).
      split; [exact HG'|]. split; [exact Hrg|]. split; [exact Hbl|].
      intros x Hx. destruct (Hsub x Hx); [left|right; right]; assumption. }
    apply orb_false_iff in Hskip. destruct Hskip as [_ Hrange].
    assert (Hru : range s u <> None) by (destruct (range s u); [discriminate|discriminate]).
    assert (Hni : ~ In u (gt_users s)) by (intros Hi; apply mem_In' in Hi; congruence).
    apply bind_ok in E. destruct E as (u1 & _ & E).
    apply bind_ok in E. destruct E as (nw1 & _ & E). apply bind_ok in E. destruct E as (nw2 & _ & E).
    match type of E with unbl_gt_loop_v1 (?sx, _, _) l = _ => set (s1 := sx) in * end.
    set (us := us_get (bl_uts s u)) in *.
    assert (HG1 : GW false s1 (tg + us_sg us + us_mg us)).
    { replace (tg + us_sg us + us_mg us) with (tg + (if true then us_sg us + us_mg us else 0)) by (cbv iota; lia).
      apply (GW_readd false s tg u us true s1 HG Hni Hru); try reflexivity. intros Hx; discriminate Hx. }
    destruct (IH _ _ _ _ _ _ E HG1) as (HG' & Hrg & Hbl & Hsub).
    split; [exact HG'|]. split; [exact Hrg|]. split; [exact Hbl|].
    intros x Hx. destruct (Hsub x Hx) as [Hi|Hi]; [|right; right; exact Hi].
    unfold s1 in Hi. cbn in Hi. apply in_app_or in Hi. destruct Hi as [Hi|[<-|[]]]; [left; exact Hi|right; left; reflexivity].
Qed.

Lemma unbl_gt_loop_v2_GW : forall l s nw tg s' nw' tg',
  unbl_gt_loop_v2 (s, nw, tg) l = Ok (s', nw', tg') -> GW true s tg ->
  NoDup l -> (forall x, In x l -> ~ In x (gt_users s)) ->
  GW true s' tg' /\ range s' = range s /\ blacklisted s' = blacklisted s /\
  (forall x, In x (gt_users s') -> In x (gt_users s) \/ In x l).
Proof.
  induction l as [|u l IH]; intros s nw tg s' nw' tg' E HG Hndl Hout; cbn [unbl_gt_loop_v2] in E.
  - inversion E; subst. split; [exact HG|]. split; [reflexivity|]. split; [reflexivity|]. intros x Hx; left; exact Hx.
  - inversion Hndl as [|? ? Hul Hndl']; subst.
    assert (Hni : ~ In u (gt_users s)) by (apply Hout; left; reflexivity).
    destruct (range s u) as [fl|] eqn:Hrange.
    2:{ destruct (IH _ _ _ _ _ _ E HG Hndl' (fun x Hx => Hout x (or_intror Hx))) as (HG' & Hrg & Hbl & Hsub).
        split; [exact HG'|]. split; [exact Hrg|]. split; [exact Hbl|].
        intros x Hx. destruct (Hsub x Hx); [left|right; right]; assumption. }
    assert (Hru : range s u <> None) by (rewrite Hrange; discriminate).
    apply bind_ok in E. destruct E as ([[s1 nw1] tg1] & H1 & E).
    set (us := us_get (bl_uts s u)) in *.
    destruct (N.ltb_spec 0 (infos_sum (us_infos us))) as [Hpos|Hzero].
    + apply bind_ok in H1. destruct H1 as (u1 & _ & H1). inversion H1; subst s1 nw1 tg1; clear H1.
      match type of E with unbl_gt_loop_v2 (?sx, _, _) l = _ => set (s2 := sx) in * end.
      assert (HG1 : GW true s2 (tg + infos_sum (us_infos us))).
      { replace (tg + infos_sum (us_infos us)) with (tg + (if true then sumN (map fst (us_infos us)) else 0)) by reflexivity.
        apply (GW_readd true s tg u us true s2 HG Hni Hru); try reflexivity.
        - unfold s2. cbn. apply set_insert_new. exact Hni.
        - intros Hx; discriminate Hx. }
      assert (Hg2 : gt_users s2 = gt_users s ++ [u]) by (unfold s2; cbn; apply set_insert_new; exact Hni).
      destruct (IH _ _ _ _ _ _ E HG1 Hndl') as (HG' & Hrg & Hbl & Hsub).
      { intros x Hx Hi. rewrite Hg2 in Hi. apply in_app_or in Hi. destruct Hi as [Hi|[<-|[]]]; [apply (Hout x (or_intror Hx)); exact Hi|contradiction]. }
      split; [exact HG'|]. split; [exact Hrg|]. split; [exact Hbl|].
      intros x Hx. destruct (Hsub x Hx) as [Hi|Hi]; [|right; right; exact Hi].
      rewrite Hg2 in Hi. apply in_app_or in Hi. destruct Hi as [Hi|[<-|[]]]; [left; exact Hi|right; left; reflexivity].
    + inversion H1; subst s1 nw1 tg1; clear H1.
      match type of E with unbl_gt_loop_v2 (?sx, _, _) l = _ => set (s2 := sx) in * end.
      assert (HG1 : GW true s2 tg).
      { replace tg with (tg + (if false then sumN (map fst (us_infos us)) else 0)) by (cbv iota; lia).
        apply (GW_readd true s tg u us false s2 HG Hni Hru); try reflexivity.
        intros _. unfold infos_sum in Hzero. lia. }
      destruct (IH _ _ _ _ _ _ E HG1 Hndl') as (HG' & Hrg & Hbl & Hsub).
      { intros x Hx. apply (Hout x (or_intror Hx)). }
      split; [exact HG'|]. split; [exact Hrg|]. split; [exact Hbl|].
      intros x Hx. destruct (Hsub x Hx) as [Hi|Hi]; [left; exact Hi|right; right; exact Hi].
Qed.

(** ** the launchpad-token invariant of the set-up history *)
Record LpInv (v2 : bool) (w : world) : Prop := {
  lp_tc : forall a, total_claimable (st w) a = 0;
  lp_cb : forall a, claimed_balance (st w) a = 0;
  lp_res : GRes v2 (st w) (total_guaranteed (st w));
  lp_bal : bal w sc_addr (lp_token (st w)) 0 = total_deposited (st w);
  lp_dep : if deposited (st w) then total_deposited (st w) = tpt (st w) * reserve_total (st w)
           else total_deposited (st w) = 0;
  lp_sched : sched_inv v2 (st w);
  lp_tok : pay_token (st w) <> lp_token (st w)
}.

(** a transaction that leaves the fields of the invariant alone *)
Lemma LpInv_frame v2 w w' :
  LpInv v2 w ->
  total_claimable (st w') = total_claimable (st w) -> claimed_balance (st w') = claimed_balance (st w) ->
  total_guaranteed (st w') = total_guaranteed (st w) -> uts (st w') = uts (st w) -> gt_users (st w') = gt_users (st w) ->
  range (st w') = range (st w) -> lp_token (st w') = lp_token (st w) -> pay_token (st w') = pay_token (st w) ->
  total_deposited (st w') = total_deposited (st w) -> deposited (st w') = deposited (st w) ->
  nr_winning (st w') = nr_winning (st w) -> sched1 (st w') = sched1 (st w) -> sched2 (st w') = sched2 (st w) ->
  (tpt (st w') = tpt (st w) \/ deposited (st w) = false) ->
  blacklisted (st w') = blacklisted (st w) ->
  bal w' sc_addr (lp_token (st w)) 0 = bal w sc_addr (lp_token (st w)) 0 ->
  LpInv v2 w'.
Proof.
  intros [Htc Hcb (Hres & Hnd & Hr & Hz & Hbl) Hbal Hdep Hsch Htok] E1 E2 E3 E4 E5 E6 E7 E8 E9 E10 E11 E12 E13 Etpt Ebl Eb.
  constructor.
  - intros a. rewrite E1. apply Htc.
  - intros a. rewrite E2. apply Hcb.
  - unfold GRes, total_reserved, reserved in *. rewrite E3, E4, E5, E6, Ebl. repeat split; try assumption; apply Hbl; assumption.
  - rewrite E7, E9, Eb. exact Hbal.
  - rewrite E10, E9. unfold reserve_total. rewrite E11, E3.
    destruct (deposited (st w)) eqn:Hd; [|exact Hdep].
    destruct Etpt as [->|Hx]; [exact Hdep|discriminate].
  - eapply sched_inv_ext; [exact E12|exact E13|exact E1|exact E2|exact Hsch].
  - rewrite E7, E8. exact Htok.
Qed.

Lemma LpInv_ext v2 w w' : st w' = st w -> bal w' = bal w -> LpInv v2 w -> LpInv v2 w'.
Proof.
  intros Hs Hb Hi. eapply LpInv_frame; [exact Hi|rewrite Hs; reflexivity..| | |rewrite Hb; reflexivity].
  - left. rewrite Hs. reflexivity.
  - rewrite Hs. reflexivity.
Qed.

(** allocation *)
Lemma LpInv_alloc v2 w s' tw tg :
  LpInv v2 w -> alloc_only (st w) s' -> GRes v2 s' tg ->
  tw + tg = reserve_total (st w) ->
  LpInv v2 (set_st w (s' <| total_guaranteed := tg |> <| nr_winning := tw |>)).
Proof.
  intros [Htc Hcb _ Hbal Hdep Hsch Htok] (r & b & la & g & u & ->) (Hres & Hnd & Hr & Hz & Hbl) Hcons.
  constructor; rewrite ?st_set_st, ?bal_set_st; cbn.
  - exact Htc.
  - exact Hcb.
  - unfold GRes, total_reserved, reserved in *. cbn in *. repeat split; try assumption; apply Hbl; assumption.
  - exact Hbal.
  - unfold reserve_total in *. cbn. destruct (deposited (st w)); [|exact Hdep]. rewrite Hcons. exact Hdep.
  - eapply sched_inv_ext; [| | | |exact Hsch]; reflexivity.
  - exact Htok.
Qed.

Theorem LpInv_add_tickets_v1 e w lx w' :
  LpInv false w -> add_tickets_v1 e w lx = Ok w' -> LpInv false w'.
Proof.
  intros Hi E. pose proof (add_tickets_v1_conserves e w lx w' E) as Hcons.
  unfold add_tickets_v1 in E.
  apply bind_ok in E. destruct E as (u & _ & E).
  apply bind_ok in E. destruct E as ([[s' tw] tg] & Hloop & E). inversion E; subst w'; clear E.
  destruct (add_loop_v1_GRes _ _ _ _ _ _ _ _ Hloop (lp_res _ _ Hi)) as [HG Ha].
  apply LpInv_alloc; auto.
  unfold reserve_total in Hcons. rewrite st_set_st in Hcons. cbn in Hcons. unfold reserve_total. apply Hcons.
Qed.

Theorem LpInv_add_tickets_v2 e w lx w' :
  LpInv true w -> add_tickets_v2 e w lx = Ok w' -> LpInv true w'.
Proof.
  intros Hi E. pose proof (add_tickets_v2_conserves e w lx w' E) as Hcons.
  unfold add_tickets_v2 in E.
  apply bind_ok in E. destruct E as (u & _ & E).
  apply bind_ok in E. destruct E as ([[[[[s' tw] tg] uc] ta] ga] & Hloop & E). inversion E; subst w'; clear E.
  destruct (add_loop_v2_GRes _ _ _ _ _ _ _ _ _ _ _ _ _ Hloop (lp_res _ _ Hi)) as [HG Ha].
  eapply LpInv_ext; [| |apply (LpInv_alloc true w s' tw tg); auto].
  - rewrite st_emit. reflexivity.
  - rewrite bal_emit. reflexivity.
  - unfold reserve_total in Hcons. rewrite st_emit, st_set_st in Hcons. cbn in Hcons. unfold reserve_total. apply Hcons.
Qed.

Definition vflag (v : variant) : bool := match v with Gt2 => true | _ => false end.

(** ** blacklisting / refunding / un-blacklisting keep the invariant *)
Lemma blacklist_loop_facts e : forall la w w1, blacklist_loop e w la = Ok w1 ->
  (exists c bl, st w1 = st w <| confirmed := c |> <| blacklisted := bl |>) /\
  (forall x, blacklisted (st w1) x = true <-> blacklisted (st w) x = true \/ In x la) /\
  (forall x, In x la -> range (st w) x <> None).
Proof.
  induction la as [|a la IH]; intros w w1 E.
  - cbn in E. inversion E; subst. split; [exists (confirmed (st w1)), (blacklisted (st w1)); destruct (st w1); reflexivity|].
    split; [intros x; cbn [In]; tauto|intros x []].
  - rewrite blacklist_loop_cons in E. apply bind_ok in E. destruct E as (w0 & H1 & E).
    destruct (IH _ _ E) as ((c & bl & Hs) & Hb & Hr).
    destruct (bl_one_only _ _ _ _ H1) as (c0 & bl0 & Hs0).
    apply bl_one_spec in H1. cbn zeta in H1. destruct H1 as (_ & Hra & Hba & _ & Hoth & Hrg & _).
    split; [exists c, bl; rewrite Hs, Hs0; reflexivity|]. split.
    + intros x. rewrite Hb. destruct (N.eq_dec x a) as [->|Hne].
      * rewrite Hba. split; [intros _; right; left; reflexivity|intros _; left; reflexivity].
      * destruct (Hoth x Hne) as [_ Hbx]. rewrite Hbx. cbn [In]. split; [intros [Hx|Hx]; auto|intros [Hx|[Hx|Hx]]; auto; congruence].
    + intros x [<-|Hx]; [exact Hra|]. rewrite <- Hrg. apply Hr. exact Hx.
Qed.

Lemma unblacklist_loop_facts : forall l s s', unblacklist_loop s l = Ok s' ->
  NoDup l /\ (forall x, In x l -> blacklisted s x = true) /\
  (forall x, blacklisted s' x = true -> blacklisted s x = true /\ ~ In x l).
Proof.
  induction l as [|a l IH]; intros s s' E; cbn [unblacklist_loop] in E.
  - inversion E; subst. split; [constructor|]. split; [intros x []|intros x Hx; split; [exact Hx|intros []]].
  - apply bind_ok in E. destruct E as (u & Hq & E). apply require_ok' in Hq.
    destruct (IH _ _ E) as (Hnd & Hall & Hback). cbn in Hall, Hback.
    assert (Hal : ~ In a l).
    { intros Hi. specialize (Hall a Hi). rewrite upd_same in Hall. discriminate. }
    split; [constructor; assumption|]. split.
    + intros x [<-|Hx]; [exact Hq|]. specialize (Hall x Hx). unfold upd in Hall. destruct (x =? a); [discriminate|exact Hall].
    + intros x Hx. destruct (Hback x Hx) as [Hb Hn]. unfold upd in Hb. destruct (N.eqb_spec x a) as [->|Hne]; [discriminate|].
      split; [exact Hb|]. intros [Hi|Hi]; [congruence|contradiction].
Qed.

Definition bl_only (s s' : state) : Prop :=
  exists c bl g u b nw tg, s' = s <| confirmed := c |> <| blacklisted := bl |> <| gt_users := g |> <| uts := u |>
                                  <| bl_uts := b |> <| nr_winning := nw |> <| total_guaranteed := tg |>.

Lemma LpInv_rebuild v2 w w' :
  LpInv v2 w -> bl_only (st w) (st w') ->
  reserve_total (st w') = reserve_total (st w) -> GRes v2 (st w') (total_guaranteed (st w')) ->
  bal w' sc_addr (lp_token (st w)) 0 = bal w sc_addr (lp_token (st w)) 0 -> LpInv v2 w'.
Proof.
  intros [Htc Hcb _ Hbal Hdep Hsch Htok] (c & bl & g & u & b & nw & tg & Hs) Hrt HG Hb.
  constructor.
  - intros a. rewrite Hs. cbn. apply Htc.
  - intros a. rewrite Hs. cbn. apply Hcb.
  - exact HG.
  - replace (lp_token (st w')) with (lp_token (st w)) by (rewrite Hs; reflexivity).
    replace (total_deposited (st w')) with (total_deposited (st w)) by (rewrite Hs; reflexivity). rewrite Hb. exact Hbal.
  - rewrite Hrt. replace (deposited (st w')) with (deposited (st w)) by (rewrite Hs; reflexivity).
    replace (total_deposited (st w')) with (total_deposited (st w)) by (rewrite Hs; reflexivity).
    replace (tpt (st w')) with (tpt (st w)) by (rewrite Hs; reflexivity). exact Hdep.
  - eapply sched_inv_ext; [| | | |exact Hsch]; rewrite Hs; reflexivity.
  - replace (lp_token (st w')) with (lp_token (st w)) by (rewrite Hs; reflexivity).
    replace (pay_token (st w')) with (pay_token (st w)) by (rewrite Hs; reflexivity). exact Htok.
Qed.

Lemma GW_fields v2 s s' tg :
  gt_users s' = gt_users s -> uts s' = uts s -> range s' = range s -> GW v2 s tg -> GW v2 s' tg.
Proof. intros E1 E2 E3. unfold GW, total_reserved, reserved. rewrite E1, E2, E3. auto. Qed.

Theorem LpInv_blacklist v we e w la w' :
  guar v -> LpInv (vflag v) w -> blacklist_endpoint v we e w la = Ok w' -> LpInv (vflag v) w'.
Proof.
  intros Hv Hi E. unfold blacklist_endpoint in E.
  apply bind_ok in E. destruct E as (w1 & H1 & E).
  pose proof (blacklist_common_keeps_reserve _ _ _ _ H1) as Hrt1.
  unfold add_users_to_blacklist in H1. apply bind_ok in H1. destruct H1 as (u1 & _ & H1). apply bind_ok in H1. destruct H1 as (u2 & _ & H1).
  destruct (blacklist_loop_facts e la w w1 H1) as ((c & bl & Hs1) & Hblk & Hrange).
  destruct (blacklist_loop_lpside e la w w1 H1 (lp_tok _ _ Hi)) as [_ Hb1].
  pose proof (lp_res _ _ Hi) as HG. pose proof HG as (_ & _ & _ & _ & Hcl5).
  assert (HG1 : GW (vflag v) (st w1) (total_guaranteed (st w1))).
  { replace (total_guaranteed (st w1)) with (total_guaranteed (st w)) by (rewrite Hs1; reflexivity).
    apply (GW_fields _ (st w)); try (rewrite Hs1; reflexivity). apply GRes_GW. exact HG. }
  apply bind_ok in E. destruct E as (w2 & H2 & E).
  assert (H2' : bl_only (st w) (st w2) /\ reserve_total (st w2) = reserve_total (st w) /\
                GRes (vflag v) (st w2) (total_guaranteed (st w2)) /\ bal w2 = bal w1).
  { assert (Hfin : forall s1 tg, gt_only (st w1) s1 -> GW (vflag v) s1 tg -> range s1 = range (st w1) ->
               blacklisted s1 = blacklisted (st w1) -> (forall x, In x (gt_users s1) -> In x (gt_users (st w1))) ->
               (forall x, In x la -> ~ In x (gt_users s1)) ->
               forall nw, bl_only (st w) (s1 <| nr_winning := nw |> <| total_guaranteed := tg |>) /\
                          GRes (vflag v) (s1 <| nr_winning := nw |> <| total_guaranteed := tg |>) tg).
    { intros s1 tg (g & u & b & Hs2) HGW Hrg Hbl Hsub Hout nw. split.
      - exists c, bl, g, u, b, nw, tg. rewrite Hs2, Hs1. reflexivity.
      - destruct (GW_fields (vflag v) s1 (s1 <| nr_winning := nw |> <| total_guaranteed := tg |>) tg eq_refl eq_refl eq_refl HGW)
          as (A & B & C & D).
        split; [exact A|]. split; [exact B|]. split; [exact C|]. split; [exact D|].
        intros x Hx. cbn in Hx. rewrite Hbl in Hx. apply Hblk in Hx. cbn. rewrite Hrg.
        replace (range (st w1)) with (range (st w)) by (rewrite Hs1; reflexivity).
        destruct Hx as [Hx|Hx].
        + destruct (Hcl5 x Hx) as [Hr Hn]. split; [exact Hr|]. intros Hi2. apply Hsub in Hi2. rewrite Hs1 in Hi2. cbn in Hi2. contradiction.
        + split; [apply Hrange; exact Hx|apply Hout; exact Hx]. }
    destruct Hv as [-> | [-> | [-> | ->]]].
    1,2,3: pose proof (clear_gt_v1_conserves _ _ _ H2) as Hrt2;
      unfold clear_gt_after_blacklist_v1 in H2; apply bind_ok in H2; destruct H2 as ([[s1 rm] tg] & Hl & H2);
      inversion H2; subst w2; clear H2;
      destruct (clear_gt_loop_v1_only _ _ _ _ _ _ _ Hl) as [Ho _];
      destruct (clear_gt_loop_v1_GW _ _ _ _ _ _ _ Hl HG1) as (HGW & Hrg & Hbl & Hsub & Hout);
      rewrite st_set_st in *; rewrite bal_set_st;
      (destruct (0 <? rm);
       [ destruct (Hfin s1 tg Ho HGW Hrg Hbl Hsub Hout (nr_winning s1 + rm)) as [Hbo HGr]
       | destruct (Hfin s1 tg Ho HGW Hrg Hbl Hsub Hout (nr_winning s1)) as [Hbo HGr];
         replace (s1 <| nr_winning := nr_winning s1 |> <| total_guaranteed := tg |>) with (s1 <| total_guaranteed := tg |>) in * by (destruct s1; reflexivity) ]);
      (split; [exact Hbo|split; [congruence|split; [exact HGr|reflexivity]]]).
    pose proof (clear_gt_v2_conserves _ _ _ H2) as Hrt2.
    unfold clear_gt_after_blacklist_v2 in H2. apply bind_ok in H2. destruct H2 as ([[s1 nw] tg] & Hl & H2).
    inversion H2; subst w2; clear H2.
    destruct (clear_gt_loop_v2_only _ _ _ _ _ _ _ Hl) as [Ho _].
    destruct (clear_gt_loop_v2_GW _ _ _ _ _ _ _ Hl HG1) as (HGW & Hrg & Hbl & Hsub & Hout).
    rewrite st_set_st in *. rewrite bal_set_st.
    destruct (Hfin s1 tg Ho HGW Hrg Hbl Hsub Hout nw) as [Hbo HGr].
    split; [exact Hbo|split; [congruence|split; [exact HGr|reflexivity]]]. }
  destruct H2' as (Hbo & Hrt & HGr & Hb2).
  apply bind_ok in E. destruct E as (w3 & H3 & E).
  assert (w3 = w2) by (destruct Hv as [-> | [-> | [-> | ->]]]; cbn [has_nft] in H3; inversion H3; reflexivity). subst w3.
  assert (Hi2 : LpInv (vflag v) w2).
  { eapply LpInv_rebuild; [exact Hi|exact Hbo|exact Hrt|exact HGr|]. rewrite Hb2. exact Hb1. }
  inversion E; subst w'; clear E.
  destruct Hv as [-> | [-> | [-> | ->]]]; try exact Hi2.
  destruct we; [|exact Hi2]. eapply LpInv_ext; [| |exact Hi2]; reflexivity.
Qed.

Theorem LpInv_unblacklist v e w la w' :
  guar v -> LpInv (vflag v) w -> unblacklist_endpoint v e w la = Ok w' -> LpInv (vflag v) w'.
Proof.
  intros Hv Hi E. unfold unblacklist_endpoint in E.
  apply bind_ok in E. destruct E as (w1 & H1 & E).
  unfold remove_users_from_blacklist in H1. apply bind_ok in H1. destruct H1 as (u1 & _ & H1). apply bind_ok in H1. destruct H1 as (u2 & _ & H1).
  apply bind_ok in H1. destruct H1 as (s1 & Hl & H1). inversion H1; subst w1; clear H1.
  destruct (unblacklist_loop_only _ _ _ Hl) as (bl' & Hs1).
  destruct (unblacklist_loop_facts _ _ _ Hl) as (Hndl & Hall & Hback).
  pose proof (lp_res _ _ Hi) as HG. pose proof HG as (_ & _ & _ & _ & Hcl5).
  assert (HG1 : GW (vflag v) s1 (total_guaranteed s1)).
  { replace (total_guaranteed s1) with (total_guaranteed (st w)) by (rewrite Hs1; reflexivity).
    apply (GW_fields _ (st w)); try (rewrite Hs1; reflexivity). apply GRes_GW. exact HG. }
  assert (Hfin : forall s2 tg nw, gt_only s1 s2 -> GW (vflag v) s2 tg -> range s2 = range s1 -> blacklisted s2 = blacklisted s1 ->
             (forall x, In x (gt_users s2) -> In x (gt_users s1) \/ In x la) ->
             bl_only (st w) (s2 <| nr_winning := nw |> <| total_guaranteed := tg |>) /\
             GRes (vflag v) (s2 <| nr_winning := nw |> <| total_guaranteed := tg |>) tg).
  { intros s2 tg nw (g & u & b & Hs2) HGW Hrg Hbl Hsub. split.
    - exists (confirmed (st w)), bl', g, u, b, nw, tg. rewrite Hs2, Hs1. destruct (st w); reflexivity.
    - destruct (GW_fields (vflag v) s2 (s2 <| nr_winning := nw |> <| total_guaranteed := tg |>) tg eq_refl eq_refl eq_refl HGW)
        as (A & B & C & D).
      split; [exact A|]. split; [exact B|]. split; [exact C|]. split; [exact D|].
      intros x Hx. cbn in Hx. rewrite Hbl in Hx. destruct (Hback x Hx) as [Hbx Hnl]. destruct (Hcl5 x Hbx) as [Hr Hn].
      cbn. rewrite Hrg. replace (range s1) with (range (st w)) by (rewrite Hs1; reflexivity). split; [exact Hr|].
      intros Hi2. destruct (Hsub x Hi2) as [Hi3|Hi3]; [|contradiction]. rewrite Hs1 in Hi3. cbn in Hi3. contradiction. }
  assert (Hrt1 : reserve_total s1 = reserve_total (st w)) by (rewrite Hs1; reflexivity).
  destruct Hv as [-> | [-> | [-> | ->]]]; try discriminate.
  1,2: pose proof (unblacklist_gt_v1_conserves _ _ _ E) as Hrt2; rewrite st_set_st in Hrt2;
       unfold unblacklist_gt_v1 in E; apply bind_ok in E; destruct E as ([[s2 nw] tg] & Hl2 & E); inversion E; subst w'; clear E;
       rewrite st_set_st in *;
       destruct (unbl_gt_loop_v1_only _ _ _ _ _ _ _ Hl2) as [Ho _];
       destruct (unbl_gt_loop_v1_GW _ _ _ _ _ _ _ Hl2 HG1) as (HGW & Hrg & Hbl & Hsub);
       destruct (Hfin s2 tg nw Ho HGW Hrg Hbl Hsub) as [Hbo HGr];
       (eapply LpInv_rebuild; [exact Hi|rewrite st_set_st; exact Hbo|rewrite st_set_st; congruence|rewrite st_set_st; exact HGr|reflexivity]).
  apply bind_ok in E. destruct E as (w2 & H2 & E). inversion E; subst w'; clear E.
  pose proof (unblacklist_gt_v2_conserves _ _ _ H2) as Hrt2. rewrite st_set_st in Hrt2.
  unfold unblacklist_gt_v2 in H2. apply bind_ok in H2. destruct H2 as ([[s2 nw] tg] & Hl2 & H2). inversion H2; subst w2; clear H2.
  rewrite st_set_st in *.
  destruct (unbl_gt_loop_v2_only _ _ _ _ _ _ _ Hl2) as [Ho _].
  assert (Hout : forall x, In x la -> ~ In x (gt_users s1)).
  { intros x Hx. destruct (Hcl5 x (Hall x Hx)) as [_ Hn]. rewrite Hs1. exact Hn. }
  destruct (unbl_gt_loop_v2_GW _ _ _ _ _ _ _ Hl2 HG1 Hndl Hout) as (HGW & Hrg & Hbl & Hsub).
  destruct (Hfin s2 tg nw Ho HGW Hrg Hbl Hsub) as [Hbo HGr].
  eapply LpInv_ext; [| |eapply (LpInv_rebuild (vflag Gt2) w (set_st (set_st w s1) (s2 <| nr_winning := nw |> <| total_guaranteed := tg |>)));
                         [exact Hi|rewrite st_set_st; exact Hbo|rewrite st_set_st; congruence|rewrite st_set_st; exact HGr|reflexivity]]; reflexivity.
Qed.

Lemma GRes_fields v2 s s' tg :
  gt_users s' = gt_users s -> uts s' = uts s -> range s' = range s -> blacklisted s' = blacklisted s ->
  GRes v2 s tg -> GRes v2 s' tg.
Proof. intros E1 E2 E3 E4. unfold GRes, total_reserved, reserved. rewrite E1, E2, E3, E4. auto. Qed.

(** the schedule setters: an accepted schedule is a valid one; nobody has been paid yet *)
Theorem LpInv_sched1 e w a0 b0 c0 d0 p0 w' :
  LpInv false w -> set_unlock_schedule_v1 e w a0 b0 c0 d0 p0 = Ok w' -> LpInv false w'.
Proof.
  intros Hi E. apply set_unlock_schedule_v1_ok in E. destruct E as (_ & _ & _ & Hok & Hs & Hb).
  destruct Hi as [Htc Hcb HG Hbal Hdep Hsch Htok].
  constructor; rewrite ?Hs, ?Hb; cbn; try assumption.
  all: try (apply (GRes_fields false (st w)); [reflexivity..|exact HG]).
  unfold sched_inv. cbn. split; [exact Hok|]. intros _ a. left. apply Hcb.
Qed.

Theorem LpInv_sched2 e w ls w' :
  LpInv true w -> set_unlock_schedule_v2 e w ls = Ok w' -> LpInv true w'.
Proof.
  intros Hi E. unfold set_unlock_schedule_v2 in E.
  apply bind_ok in E. destruct E as (u1 & _ & E). apply bind_ok in E. destruct E as (u2 & _ & E).
  apply bind_ok in E. destruct E as (u3 & _ & E). apply bind_ok in E. destruct E as (u4 & _ & E).
  apply bind_ok in E. destruct E as (u5 & Hv & E). apply require_ok' in Hv. inversion E; subst w'; clear E.
  apply schedule_valid_v2_iff in Hv. destruct Hv as (_ & _ & _ & Hsum).
  destruct Hi as [Htc Hcb HG Hbal Hdep Hsch Htok].
  constructor; rewrite ?st_emit, ?st_set_st, ?bal_emit, ?bal_set_st; cbn; try assumption.
  all: try (apply (GRes_fields true (st w)); [reflexivity..|exact HG]).
  all: try (unfold sched_inv, schedule_v2; cbn; exact Hsum).
Qed.

Section HSetupVested.
Variable H : list N -> list N.

Ltac open_plain E w0 :=
  unfold exec in E; cbn [payable] in E; fold w0 in E;
  apply bind_ok in E; destruct E as (?u & ?Hnp & E); apply no_payment_nil in Hnp; rewrite Hnp in E;
  cbn [credit_payment bind] in E; cbn [dispatch] in E; unfold ret0 in E; mon_inv.

Theorem LpInv_exec_common v e b sd w c w' r :
  guar v -> LpInv (vflag v) w -> common_call c -> pay_wf (pay e) -> caller e <> sc_addr ->
  exec H v e b sd w c = Ok (w', r) -> LpInv (vflag v) w'.
Proof.
  intros Hv Hi Hc Hwf Hcs E.
  set (w0 := w <| evs := [] |> <| rlog := [] |> <| locks := [] |> <| seeds := sd |>).
  assert (Hi0 : LpInv (vflag v) w0) by (eapply LpInv_ext; [| |exact Hi]; reflexivity).
  destruct Hc as [ | n | | | r0 | r0 | r0 | a | a].
  - (* deposit *)
    unfold exec in E. cbn [payable] in E. fold w0 in E. cbn [bind] in E.
    apply bind_ok in E. destruct E as (w1 & Hcr & E).
    cbn [dispatch] in E. unfold ret0 in E. mon_inv.
    match goal with Hd : deposit_launchpad_tokens _ _ _ = Ok _ |- _ => apply (deposit_iff _ _ _ _ Hwf) in Hd; destruct Hd as (Hnd & Hp & Hlp & ->) end.
    pose proof (credit_payment_st _ _ _ _ Hcr) as Hs1.
    rewrite Hs1 in *.
    assert (Hsize : deposit_size v (st w0) = reserve_total (st w0)).
    { pose proof (deposit_size_is_reserve_total v (st w0)) as Hx. destruct Hv as [-> | [-> | [-> | ->]]]; exact Hx. }
    rewrite Hp in Hcr. apply credit_single in Hcr. apply transfer_ok in Hcr. destruct Hcr as [_ Hw1].
    destruct Hi0 as [Htc Hcb (Hres & Hndg & Hr & Hz & Hbl) Hbal Hdep Hsch Htok]. rewrite Hnd in Hdep.
    constructor; rewrite ?st_set_st, ?bal_set_st; cbn.
    + exact Htc.
    + exact Hcb.
    + unfold GRes, total_reserved, reserved in *. cbn. repeat split; try assumption; apply Hbl; assumption.
    + rewrite Hw1. cbn. rewrite bal_after_to by exact Hcs. cbn in Hbal, Hdep. rewrite Hbal, Hdep. lia.
    + cbn in Hsize. rewrite Hsize. unfold reserve_total. cbn. reflexivity.
    + eapply sched_inv_ext; [| | | |exact Hsch]; reflexivity.
    + exact Htok.
  - (* confirmation *)
    apply (exec_confirm_iff H v e b sd w n w' r Hwf) in E. destruct E as (w1 & Hcr & Hcond & -> & _).
    pose proof (credit_payment_st _ _ _ _ Hcr) as Hs1. unfold reset_outputs in Hs1. cbn in Hs1.
    destruct Hcond as (_ & _ & _ & _ & _ & _ & Hpay).
    assert (Hb1 : bal w1 sc_addr (lp_token (st w)) 0 = bal w sc_addr (lp_token (st w)) 0).
    { change (bal w) with (bal (reset_outputs w sd)).
      eapply credit_other_token; [exact Hcr|exact Hcs|].
      destruct Hpay as [->|(-> & _)]; [|constructor]. constructor; [|constructor]. cbn. exact (lp_tok _ _ Hi). }
    eapply LpInv_frame; [exact Hi|..]; unfold confirm_effect; rewrite ?st_emit, ?st_set_st, ?bal_emit, ?bal_set_st, ?Hs1; try reflexivity.
    + left. reflexivity.
    + exact Hb1.
  - open_plain E w0.
    match goal with Hd : pause_endpoint _ _ = Ok _ |- _ => apply gate_pause in Hd; destruct Hd as (_ & Hs & Hb) end.
    eapply LpInv_frame; [exact Hi0|..]; rewrite ?Hs, ?Hb; try reflexivity. left; reflexivity.
  - open_plain E w0.
    match goal with Hd : unpause_endpoint _ _ = Ok _ |- _ => apply gate_unpause in Hd; destruct Hd as (_ & Hs & Hb) end.
    eapply LpInv_frame; [exact Hi0|..]; rewrite ?Hs, ?Hb; try reflexivity. left; reflexivity.
  - open_plain E w0.
    match goal with Hd : set_confirmation_period_start_round _ _ _ = Ok _ |- _ => apply gate_set_conf in Hd; destruct Hd as (_ & _ & _ & Hs & _ & Hb) end.
    eapply LpInv_frame; [exact Hi0|..]; rewrite ?Hs, ?Hb; try reflexivity. left; reflexivity.
  - open_plain E w0.
    match goal with Hd : set_winner_selection_start_round _ _ _ = Ok _ |- _ => apply gate_set_ws in Hd; destruct Hd as (_ & _ & _ & Hs & _ & Hb) end.
    eapply LpInv_frame; [exact Hi0|..]; rewrite ?Hs, ?Hb; try reflexivity. left; reflexivity.
  - open_plain E w0.
    match goal with Hd : set_claim_start_round _ _ _ = Ok _ |- _ => apply gate_set_claim in Hd; destruct Hd as (_ & _ & _ & Hs & _ & Hb) end.
    eapply LpInv_frame; [exact Hi0|..]; rewrite ?Hs, ?Hb; try reflexivity. left; reflexivity.
  - open_plain E w0.
    match goal with Hd : set_support_address _ _ _ = Ok _ |- _ => unfold set_support_address in Hd; mon_inv end.
    eapply LpInv_frame; [exact Hi0|..]; rewrite ?st_set_st, ?bal_set_st; try reflexivity. left; reflexivity.
  - open_plain E w0.
    match goal with Hd : set_launchpad_tokens_per_winning_ticket _ _ _ = Ok _ |- _ =>
      unfold set_launchpad_tokens_per_winning_ticket, try_set_tpt in Hd; mon_inv end.
    eapply LpInv_frame; [exact Hi0|..]; rewrite ?st_set_st, ?bal_set_st; try reflexivity.
    right. match goal with Hd : negb (deposited _) = true |- _ => apply negb_true_iff in Hd; exact Hd end.
Qed.
End HSetupVested.

(** ** deployment and reachability *)
Lemma deploy_LpInv v e lp tpt0 ptok price0 nrw conf ws claim x s :
  guar v -> deploy v e lp tpt0 ptok price0 nrw conf ws claim x = Ok s -> lp <> egld -> LpInv (vflag v) (world0 s).
Proof.
  intros Hv E Hlp.
  destruct (deploy_PreG v e lp tpt0 ptok price0 nrw conf ws claim x s Hv E Hlp) as [[_ Htok _] _].
  unfold deploy in E.
  assert (Hs : total_claimable s = (fun _ => 0) /\ claimed_balance s = (fun _ => 0) /\ total_guaranteed s = 0 /\
               gt_users s = [] /\ total_deposited s = 0 /\ deposited s = false /\ sched1 s = None /\ sched2 s = None /\
               uts s = (fun _ => None) /\ blacklisted s = (fun _ => false)).
  { destruct Hv as [-> | [-> | [-> | ->]]]; cbn [has_nft is_v1 has_lock has_extra negb] in E; mon_inv;
      repeat match goal with Hl : lock_init _ _ _ _ _ = Ok _ |- _ => unfold lock_init in Hl; mon_inv end;
      match goal with Hinit : init_base _ _ _ _ _ _ _ _ _ _ = Ok _ |- _ =>
        unfold init_base, try_set_tpt, try_set_ticket_price, try_set_nr_winning in Hinit; mon_inv end;
      cbn; repeat split; reflexivity. }
  destruct Hs as (H1 & H2 & H3 & H4 & H5 & H6 & H7 & H8 & H9 & H10).
  constructor; cbn [st bal world0].
  - intros a. rewrite H1. reflexivity.
  - intros a. rewrite H2. reflexivity.
  - unfold GRes, total_reserved, reserved. rewrite H3, H4, H9, H10. cbn. repeat split; try discriminate; [constructor|intros u []].
  - rewrite H5. unfold init_bal. replace ((1 <=? sc_addr) && (sc_addr <=? 24)) with false by (vm_compute; reflexivity). reflexivity.
  - rewrite H6. exact H5.
  - unfold sched_inv, schedule_v2. rewrite H7, H8. destruct (vflag v); [vm_compute; reflexivity|exact I].
  - exact Htok.
Qed.

Section HReachVested.
Variable H : list N -> list N.

Theorem setup_reach_gt_LpInv v w : guar v -> setup_reach_gt H v w -> LpInv (vflag v) w.
Proof.
  intros Hv. induction 1 as [e lp tpt0 ptok price0 nrw conf ws claim x s Hd Hlp
                            | w e b sd c w' r _ IH Hc Hwf Hcs E
                            | w e b sd lx w' r _ IH Hpos Hsc E
                            | w e b sd lx w' r _ IH Hsc E
                            | w e b sd la w' r _ IH Hsc E
                            | w e b sd la w' r _ IH Hsc E
                            | w e b sd la w' r _ IH E
                            | w e b sd a0 b0 c0 d0 p0 w' r _ IH E
                            | w e b sd ls w' r _ IH E].
  - eapply deploy_LpInv; eauto.
  - eapply LpInv_exec_common; eauto.
  - set (w0 := w <| evs := [] |> <| rlog := [] |> <| locks := [] |> <| seeds := sd |>).
    assert (Hi0 : LpInv (vflag v) w0) by (eapply LpInv_ext; [| |exact IH]; reflexivity).
    unfold exec in E. cbn [payable] in E. fold w0 in E.
    apply bind_ok in E. destruct E as (u & Hnp & E). apply no_payment_nil in Hnp. rewrite Hnp in E.
    cbn [credit_payment bind] in E. cbn [dispatch] in E.
    destruct (is_v1 v) eqn:Hv1; [|discriminate]. unfold ret0 in E. mon_inv.
    assert (Hf : vflag v = false) by (destruct v; try reflexivity; discriminate).
    rewrite Hf in *. eapply LpInv_add_tickets_v1; eauto.
  - set (w0 := w <| evs := [] |> <| rlog := [] |> <| locks := [] |> <| seeds := sd |>).
    assert (Hi0 : LpInv (vflag v) w0) by (eapply LpInv_ext; [| |exact IH]; reflexivity).
    unfold exec in E. cbn [payable] in E. fold w0 in E.
    apply bind_ok in E. destruct E as (u & Hnp & E). apply no_payment_nil in Hnp. rewrite Hnp in E.
    cbn [credit_payment bind] in E. cbn [dispatch] in E.
    destruct v; try discriminate. unfold ret0 in E. mon_inv.
    eapply LpInv_add_tickets_v2; eauto.
  - set (w0 := w <| evs := [] |> <| rlog := [] |> <| locks := [] |> <| seeds := sd |>).
    assert (Hi0 : LpInv (vflag v) w0) by (eapply LpInv_ext; [| |exact IH]; reflexivity).
    unfold exec in E. cbn [payable] in E. fold w0 in E.
    apply bind_ok in E. destruct E as (u & Hnp & E). apply no_payment_nil in Hnp. rewrite Hnp in E.
    cbn [credit_payment bind] in E. cbn [dispatch] in E. unfold ret0 in E. mon_inv.
    eapply LpInv_blacklist; eauto.
  - set (w0 := w <| evs := [] |> <| rlog := [] |> <| locks := [] |> <| seeds := sd |>).
    assert (Hi0 : LpInv (vflag v) w0) by (eapply LpInv_ext; [| |exact IH]; reflexivity).
    unfold exec in E. cbn [payable] in E. fold w0 in E.
    apply bind_ok in E. destruct E as (u & Hnp & E). apply no_payment_nil in Hnp. rewrite Hnp in E.
    cbn [credit_payment bind] in E. cbn [dispatch] in E.
    destruct v; try discriminate. unfold ret0 in E. mon_inv.
    eapply (LpInv_blacklist Gt2); eauto.
  - set (w0 := w <| evs := [] |> <| rlog := [] |> <| locks := [] |> <| seeds := sd |>).
    assert (Hi0 : LpInv (vflag v) w0) by (eapply LpInv_ext; [| |exact IH]; reflexivity).
    unfold exec in E. cbn [payable] in E. fold w0 in E.
    apply bind_ok in E. destruct E as (u & Hnp & E). apply no_payment_nil in Hnp. rewrite Hnp in E.
    cbn [credit_payment bind] in E. cbn [dispatch] in E.
    destruct (has_unblacklist v); [|discriminate]. unfold ret0 in E. mon_inv.
    eapply LpInv_unblacklist; eauto.
  - set (w0 := w <| evs := [] |> <| rlog := [] |> <| locks := [] |> <| seeds := sd |>).
    assert (Hi0 : LpInv (vflag v) w0) by (eapply LpInv_ext; [| |exact IH]; reflexivity).
    unfold exec in E. cbn [payable] in E. fold w0 in E.
    apply bind_ok in E. destruct E as (u & Hnp & E). apply no_payment_nil in Hnp. rewrite Hnp in E.
    cbn [credit_payment bind] in E. cbn [dispatch] in E.
    destruct v; try discriminate. unfold ret0 in E. mon_inv.
    eapply LpInv_sched1; eauto.
  - set (w0 := w <| evs := [] |> <| rlog := [] |> <| locks := [] |> <| seeds := sd |>).
    assert (Hi0 : LpInv (vflag v) w0) by (eapply LpInv_ext; [| |exact IH]; reflexivity).
    unfold exec in E. cbn [payable] in E. fold w0 in E.
    apply bind_ok in E. destruct E as (u & Hnp & E). apply no_payment_nil in Hnp. rewrite Hnp in E.
    cbn [credit_payment bind] in E. cbn [dispatch] in E.
    destruct v; try discriminate. unfold ret0 in E. mon_inv.
    eapply LpInv_sched2; eauto.
Qed.

(** ** from deployment to the launchpad-token ledger of the claim period (gt1, gt2) *)
Theorem deployed_vested v w0 lf wf ef bf w1 ls ws es bs w2 sd rest ld wd ed bd w3 :
  guar v -> setup_reach_gt H v w0 ->
  deposited (st w0) = true -> 0 < price (st w0) ->
  after_interrupted filter_tickets lf w0 = Some wf -> filter_tickets ef bf wf = Ok (w1, 0) ->
  seeds w1 = sd :: rest ->
  after_interrupted (select_winners H) ls w1 = Some ws -> select_winners H es bs ws = Ok (w2, 0) ->
  after_interrupted (distribute_guaranteed_tickets H (vflag v)) ld w2 = Some wd ->
  distribute_guaranteed_tickets H (vflag v) ed bd wd = Ok (w3, 0) ->
  exists l : list (N * N), ClaimInv w3 (map fst l) /\ VInv (vflag v) w3 (map fst l) 0 /\
                           pay_token (st w3) <> lp_token (st w3).
Proof.
  intros Hv Hr Hdep Hprice Haf Ef Hs Has Es Had Ed.
  destruct (setup_reach_gt_PreG H v w0 Hv Hr) as [l [[Hsel _ _] Hg]]. exists l.
  pose proof (setup_reach_gt_LpInv v w0 Hv Hr) as [Htc Hcb (Hres & _ & _) Hbal Hd Hsch Htok].
  rewrite Hdep in Hd.
  destruct (pipeline_gt_vested H (vflag v) l w0 lf wf ef bf w1 ls ws es bs w2 sd rest ld wd ed bd w3) as (A1 & A2 & A3 & A4); eauto.
  - rewrite Hd. unfold reserve_total. rewrite Hres. lia.
  - split; [exact A1|]. split; [exact A2|]. rewrite A3, A4. exact Htok.
Qed.

(** ... and any order of vesting claims and withdrawals afterwards; when everybody is paid and the
    owner has withdrawn the contract holds neither payment nor launchpad tokens *)
Theorem deployed_vested_drained v w0 lf wf ef bf w1 ls ws es bs w2 sd rest ld wd ed bd w3 w4 :
  guar v -> setup_reach_gt H v w0 ->
  deposited (st w0) = true -> 0 < price (st w0) ->
  after_interrupted filter_tickets lf w0 = Some wf -> filter_tickets ef bf wf = Ok (w1, 0) ->
  seeds w1 = sd :: rest ->
  after_interrupted (select_winners H) ls w1 = Some ws -> select_winners H es bs ws = Ok (w2, 0) ->
  after_interrupted (distribute_guaranteed_tickets H (vflag v)) ld w2 = Some wd ->
  distribute_guaranteed_tickets H (vflag v) ed bd wd = Ok (w3, 0) ->
  vsteps (vflag v) w3 w4 ->
  exists l : list (N * N),
    ClaimInv w4 (map fst l) /\ VInv (vflag v) w4 (map fst l) 0 /\
    ((forall a, In a (map fst l) -> confirmed (st w4) a = 0) -> claimable_payment (st w4) = 0 ->
     nr_winning (st w4) = 0 -> (forall a, In a (map fst l) -> outstanding (st w4) a = 0) -> surplus (st w4) = 0 ->
     bal w4 sc_addr (pay_token (st w4)) 0 = 0 /\ bal w4 sc_addr (lp_token (st w4)) 0 = 0).
Proof.
  intros Hv Hr Hdep Hprice Haf Ef Hs Has Es Had Ed Hsteps.
  destruct (deployed_vested v w0 lf wf ef bf w1 ls ws es bs w2 sd rest ld wd ed bd w3 Hv Hr Hdep Hprice Haf Ef Hs Has Es Had Ed)
    as (l & Hci & Hvi & Htok).
  exists l. destruct (VInv_steps _ _ _ _ _ Hci Hvi Htok Hsteps) as (B1 & B2 & _).
  split; [exact B1|]. split; [exact B2|].
  intros Hall Hcp Hn Hout Hsur. exact (VInv_steps_drained _ _ _ _ _ Hci Hvi Htok Hsteps Hall Hcp Hn Hout Hsur).
Qed.

(** C13 from deployment (guaranteed-tickets-v2): at every state of the claim period nobody has received
    more than the entitlement, the stored schedule adds up to 100 %, and a settled winner's claim brings
    the cumulative receipts to exactly floor(entitlement x unlocked % / 100 %), never above the entitlement *)
Theorem deployed_vesting_v2 w0 lf wf ef bf w1 ls ws es bs w2 sd rest ld wd ed bd w3 w4 :
  setup_reach_gt H Gt2 w0 ->
  deposited (st w0) = true -> 0 < price (st w0) ->
  after_interrupted filter_tickets lf w0 = Some wf -> filter_tickets ef bf wf = Ok (w1, 0) ->
  seeds w1 = sd :: rest ->
  after_interrupted (select_winners H) ls w1 = Some ws -> select_winners H es bs ws = Ok (w2, 0) ->
  after_interrupted (distribute_guaranteed_tickets H true) ld w2 = Some wd ->
  distribute_guaranteed_tickets H true ed bd wd = Ok (w3, 0) ->
  vsteps true w3 w4 ->
  (forall a, claimed_balance (st w4) a <= total_claimable (st w4) a) /\
  sumN (map snd (schedule_v2 (st w4))) = MAX_PERCENTAGE /\
  (forall e w5, claimed (st w4) (caller e) = true -> 0 < total_claimable (st w4) (caller e) ->
     claim_vested true e w4 = Ok w5 ->
     let total := total_claimable (st w4) (caller e) in
     claimed_balance (st w5) (caller e) = vested_v2 (st w4) total (round e) /\
     claimed_balance (st w4) (caller e) <= claimed_balance (st w5) (caller e) /\
     claimed_balance (st w5) (caller e) <= total /\ total_claimable (st w5) (caller e) = total).
Proof.
  intros Hr Hdep Hprice Haf Ef Hs Has Es Had Ed Hsteps.
  assert (Hv : guar Gt2) by (right; right; right; reflexivity).
  destruct (deployed_vested_drained Gt2 w0 lf wf ef bf w1 ls ws es bs w2 sd rest ld wd ed bd w3 w4 Hv Hr Hdep Hprice Haf Ef Hs Has Es Had Ed Hsteps)
    as (l & _ & Hvi & _).
  cbn [vflag] in Hvi. pose proof (vi_sched _ _ _ _ Hvi) as Hsch. unfold sched_inv in Hsch.
  split; [exact (vi_le _ _ _ _ Hvi)|]. split; [exact Hsch|].
  intros e w5 Hcl Htot E. cbn zeta.
  destruct (claim_vested_v2_cumulative e w4 w5 Hcl Htot E) as (Hle & Heq & Htc & _). cbn zeta in *.
  split; [exact Heq|]. split; [rewrite Heq; exact Hle|]. split; [rewrite Heq; apply vested_v2_bounded; exact Hsch|exact Htc].
Qed.

(** the contracts with guarantees that pay at once (migration, locked-tokens-and-guaranteed-tickets):
    the cover invariant of [ClaimLedger] at the start of the claim period *)
Corollary deployed_cover_gt v w0 lf wf ef bf w1 ls ws es bs w2 sd rest ld wd ed bd w3 :
  guar v -> setup_reach_gt H v w0 ->
  deposited (st w0) = true -> 0 < price (st w0) ->
  after_interrupted filter_tickets lf w0 = Some wf -> filter_tickets ef bf wf = Ok (w1, 0) ->
  seeds w1 = sd :: rest ->
  after_interrupted (select_winners H) ls w1 = Some ws -> select_winners H es bs ws = Ok (w2, 0) ->
  after_interrupted (distribute_guaranteed_tickets H (vflag v)) ld w2 = Some wd ->
  distribute_guaranteed_tickets H (vflag v) ed bd wd = Ok (w3, 0) ->
  exists l : list (N * N), ClaimInv w3 (map fst l) /\ CoverInv w3.
Proof.
  intros Hv Hr Hdep Hprice Haf Ef Hs Has Es Had Ed.
  destruct (deployed_vested v w0 lf wf ef bf w1 ls ws es bs w2 sd rest ld wd ed bd w3 Hv Hr Hdep Hprice Haf Ef Hs Has Es Had Ed)
    as (l & Hci & Hvi & _).
  exists l. split; [exact Hci|]. unfold CoverInv. rewrite (vi_bal _ _ _ _ Hvi). lia.
Qed.
End HReachVested.

(** ** C12 along the set-up history: winners + reservations stays the configured number *)
Section HTotal.
Variable H : list N -> list N.

Ltac open_plain E w0 :=
  unfold exec in E; cbn [payable] in E; fold w0 in E;
  apply bind_ok in E; destruct E as (?u & ?Hnp & E); apply no_payment_nil in Hnp; rewrite Hnp in E;
  cbn [credit_payment bind] in E; cbn [dispatch] in E; unfold ret0 in E; mon_inv.

Lemma exec_common_reserve v e b sd w c w' r :
  common_call c -> pay_wf (pay e) -> exec H v e b sd w c = Ok (w', r) ->
  reserve_total (st w') = reserve_total (st w).
Proof.
  intros Hc Hwf E.
  set (w0 := w <| evs := [] |> <| rlog := [] |> <| locks := [] |> <| seeds := sd |>).
  destruct Hc as [ | n | | | r0 | r0 | r0 | a | a].
  - unfold exec in E. cbn [payable] in E. fold w0 in E. cbn [bind] in E.
    apply bind_ok in E. destruct E as (w1 & Hcr & E).
    cbn [dispatch] in E. unfold ret0 in E. mon_inv.
    match goal with Hd : deposit_launchpad_tokens _ _ _ = Ok _ |- _ => apply (deposit_iff _ _ _ _ Hwf) in Hd; destruct Hd as (_ & _ & _ & ->) end.
    pose proof (credit_payment_st _ _ _ _ Hcr) as Hs1. rewrite st_set_st, Hs1. reflexivity.
  - apply (exec_confirm_iff H v e b sd w n w' r Hwf) in E. destruct E as (w1 & Hcr & _ & -> & _).
    pose proof (credit_payment_st _ _ _ _ Hcr) as Hs1. unfold reset_outputs in Hs1. cbn in Hs1.
    unfold confirm_effect. rewrite st_emit, st_set_st, Hs1. reflexivity.
  - open_plain E w0.
    match goal with Hd : pause_endpoint _ _ = Ok _ |- _ => apply gate_pause in Hd; destruct Hd as (_ & Hs & _) end. rewrite Hs. reflexivity.
  - open_plain E w0.
    match goal with Hd : unpause_endpoint _ _ = Ok _ |- _ => apply gate_unpause in Hd; destruct Hd as (_ & Hs & _) end. rewrite Hs. reflexivity.
  - open_plain E w0.
    match goal with Hd : set_confirmation_period_start_round _ _ _ = Ok _ |- _ => apply gate_set_conf in Hd; destruct Hd as (_ & _ & _ & Hs & _) end. rewrite Hs. reflexivity.
  - open_plain E w0.
    match goal with Hd : set_winner_selection_start_round _ _ _ = Ok _ |- _ => apply gate_set_ws in Hd; destruct Hd as (_ & _ & _ & Hs & _) end. rewrite Hs. reflexivity.
  - open_plain E w0.
    match goal with Hd : set_claim_start_round _ _ _ = Ok _ |- _ => apply gate_set_claim in Hd; destruct Hd as (_ & _ & _ & Hs & _) end. rewrite Hs. reflexivity.
  - open_plain E w0.
    match goal with Hd : set_support_address _ _ _ = Ok _ |- _ => unfold set_support_address in Hd; mon_inv end. reflexivity.
  - open_plain E w0.
    match goal with Hd : set_launchpad_tokens_per_winning_ticket _ _ _ = Ok _ |- _ =>
      unfold set_launchpad_tokens_per_winning_ticket, try_set_tpt in Hd; mon_inv end. reflexivity.
Qed.

Lemma blacklist_endpoint_reserve v we e w la w' :
  guar v -> blacklist_endpoint v we e w la = Ok w' -> reserve_total (st w') = reserve_total (st w).
Proof.
  intros Hv E. unfold blacklist_endpoint in E.
  apply bind_ok in E. destruct E as (w1 & H1 & E). apply blacklist_common_keeps_reserve in H1.
  apply bind_ok in E. destruct E as (w2 & H2 & E).
  assert (Hr2 : reserve_total (st w2) = reserve_total (st w1)).
  { destruct Hv as [-> | [-> | [-> | ->]]]; [apply clear_gt_v1_conserves in H2..|apply clear_gt_v2_conserves in H2]; exact H2. }
  apply bind_ok in E. destruct E as (w3 & H3 & E).
  assert (w3 = w2) by (destruct Hv as [-> | [-> | [-> | ->]]]; cbn [has_nft] in H3; inversion H3; reflexivity). subst w3.
  inversion E; subst w'; clear E.
  destruct Hv as [-> | [-> | [-> | ->]]]; try congruence. destruct we; rewrite ?st_emit; congruence.
Qed.

Lemma unblacklist_endpoint_reserve v e w la w' :
  guar v -> unblacklist_endpoint v e w la = Ok w' -> reserve_total (st w') = reserve_total (st w).
Proof.
  intros Hv E. unfold unblacklist_endpoint in E.
  apply bind_ok in E. destruct E as (w1 & H1 & E).
  unfold remove_users_from_blacklist in H1. apply bind_ok in H1. destruct H1 as (u1 & _ & H1). apply bind_ok in H1. destruct H1 as (u2 & _ & H1).
  apply bind_ok in H1. destruct H1 as (s1 & Hl & H1). inversion H1; subst w1; clear H1.
  destruct (unblacklist_loop_only _ _ _ Hl) as (bl' & Hs1).
  assert (Hr1 : reserve_total (st (set_st w s1)) = reserve_total (st w)) by (rewrite st_set_st, Hs1; reflexivity).
  destruct Hv as [-> | [-> | [-> | ->]]]; try discriminate.
  1,2: apply unblacklist_gt_v1_conserves in E; congruence.
  apply bind_ok in E. destruct E as (w2 & H2 & E). inversion E; subst w'; clear E.
  apply unblacklist_gt_v2_conserves in H2. rewrite st_emit. congruence.
Qed.

Theorem setup_reach_gt_total v w : guar v -> setup_reach_gt H v w ->
  exists e lp tpt0 ptok price0 nrw conf ws claim x s,
    deploy v e lp tpt0 ptok price0 nrw conf ws claim x = Ok s /\ reserve_total (st w) = nrw.
Proof.
  intros Hv. induction 1 as [e lp tpt0 ptok price0 nrw conf ws claim x s Hd Hlp
                            | w e b sd c w' r _ IH Hc Hwf Hcs E
                            | w e b sd lx w' r _ IH Hpos Hsc E
                            | w e b sd lx w' r _ IH Hsc E
                            | w e b sd la w' r _ IH Hsc E
                            | w e b sd la w' r _ IH Hsc E
                            | w e b sd la w' r _ IH E
                            | w e b sd a0 b0 c0 d0 p0 w' r _ IH E
                            | w e b sd ls w' r _ IH E].
  - exists e, lp, tpt0, ptok, price0, nrw, conf, ws, claim, x, s. split; [exact Hd|].
    unfold deploy in Hd.
    destruct Hv as [-> | [-> | [-> | ->]]]; cbn [has_nft is_v1 has_lock has_extra negb] in Hd; mon_inv;
      repeat match goal with Hl : lock_init _ _ _ _ _ = Ok _ |- _ => unfold lock_init in Hl; mon_inv end;
      match goal with Hinit : init_base _ _ _ _ _ _ _ _ _ _ = Ok _ |- _ =>
        unfold init_base, try_set_tpt, try_set_ticket_price, try_set_nr_winning in Hinit; mon_inv end;
      unfold reserve_total; cbn; lia.
  - destruct IH as (e0 & lp & tpt0 & ptok & price0 & nrw & conf & ws & claim & x & s & Hd & Hrt).
    exists e0, lp, tpt0, ptok, price0, nrw, conf, ws, claim, x, s. split; [exact Hd|].
    rewrite (exec_common_reserve _ _ _ _ _ _ _ _ Hc Hwf E). exact Hrt.
  - destruct IH as (e0 & lp & tpt0 & ptok & price0 & nrw & conf & ws & claim & x & s & Hd & Hrt).
    exists e0, lp, tpt0, ptok, price0, nrw, conf, ws, claim, x, s. split; [exact Hd|].
    set (w0 := w <| evs := [] |> <| rlog := [] |> <| locks := [] |> <| seeds := sd |>).
    unfold exec in E. cbn [payable] in E. fold w0 in E.
    apply bind_ok in E. destruct E as (u & Hnp & E). apply no_payment_nil in Hnp. rewrite Hnp in E.
    cbn [credit_payment bind] in E. cbn [dispatch] in E.
    destruct (is_v1 v); [|discriminate]. unfold ret0 in E. mon_inv.
    match goal with Hd2 : add_tickets_v1 _ _ _ = Ok _ |- _ => apply add_tickets_v1_conserves in Hd2; destruct Hd2 as [Hd2 _]; rewrite Hd2 end. first [exact Hrt|reflexivity].
  - destruct IH as (e0 & lp & tpt0 & ptok & price0 & nrw & conf & ws & claim & x & s & Hd & Hrt).
    exists e0, lp, tpt0, ptok, price0, nrw, conf, ws, claim, x, s. split; [exact Hd|].
    set (w0 := w <| evs := [] |> <| rlog := [] |> <| locks := [] |> <| seeds := sd |>).
    unfold exec in E. cbn [payable] in E. fold w0 in E.
    apply bind_ok in E. destruct E as (u & Hnp & E). apply no_payment_nil in Hnp. rewrite Hnp in E.
    cbn [credit_payment bind] in E. cbn [dispatch] in E.
    destruct v; try discriminate. unfold ret0 in E. mon_inv.
    match goal with Hd2 : add_tickets_v2 _ _ _ = Ok _ |- _ => apply add_tickets_v2_conserves in Hd2; destruct Hd2 as [Hd2 _]; rewrite Hd2 end. first [exact Hrt|reflexivity].
  - destruct IH as (e0 & lp & tpt0 & ptok & price0 & nrw & conf & ws & claim & x & s & Hd & Hrt).
    exists e0, lp, tpt0, ptok, price0, nrw, conf, ws, claim, x, s. split; [exact Hd|].
    set (w0 := w <| evs := [] |> <| rlog := [] |> <| locks := [] |> <| seeds := sd |>).
    unfold exec in E. cbn [payable] in E. fold w0 in E.
    apply bind_ok in E. destruct E as (u & Hnp & E). apply no_payment_nil in Hnp. rewrite Hnp in E.
    cbn [credit_payment bind] in E. cbn [dispatch] in E. unfold ret0 in E. mon_inv.
    match goal with Hd2 : blacklist_endpoint _ _ _ _ _ = Ok _ |- _ => apply (blacklist_endpoint_reserve _ _ _ _ _ _ Hv) in Hd2; rewrite Hd2 end. first [exact Hrt|reflexivity].
  - destruct IH as (e0 & lp & tpt0 & ptok & price0 & nrw & conf & ws & claim & x & s & Hd & Hrt).
    exists e0, lp, tpt0, ptok, price0, nrw, conf, ws, claim, x, s. split; [exact Hd|].
    set (w0 := w <| evs := [] |> <| rlog := [] |> <| locks := [] |> <| seeds := sd |>).
    unfold exec in E. cbn [payable] in E. fold w0 in E.
    apply bind_ok in E. destruct E as (u & Hnp & E). apply no_payment_nil in Hnp. rewrite Hnp in E.
    cbn [credit_payment bind] in E. cbn [dispatch] in E.
    destruct v; try discriminate. unfold ret0 in E. mon_inv.
    match goal with Hd2 : blacklist_endpoint _ _ _ _ _ = Ok _ |- _ => apply (blacklist_endpoint_reserve _ _ _ _ _ _ Hv) in Hd2; rewrite Hd2 end. first [exact Hrt|reflexivity].
  - destruct IH as (e0 & lp & tpt0 & ptok & price0 & nrw & conf & ws & claim & x & s & Hd & Hrt).
    exists e0, lp, tpt0, ptok, price0, nrw, conf, ws, claim, x, s. split; [exact Hd|].
    set (w0 := w <| evs := [] |> <| rlog := [] |> <| locks := [] |> <| seeds := sd |>).
    unfold exec in E. cbn [payable] in E. fold w0 in E.
    apply bind_ok in E. destruct E as (u & Hnp & E). apply no_payment_nil in Hnp. rewrite Hnp in E.
    cbn [credit_payment bind] in E. cbn [dispatch] in E.
    destruct (has_unblacklist v); [|discriminate]. unfold ret0 in E. mon_inv.
    match goal with Hd2 : unblacklist_endpoint _ _ _ _ = Ok _ |- _ => apply (unblacklist_endpoint_reserve _ _ _ _ _ Hv) in Hd2; rewrite Hd2 end. first [exact Hrt|reflexivity].
  - destruct IH as (e0 & lp & tpt0 & ptok & price0 & nrw & conf & ws & claim & x & s & Hd & Hrt).
    exists e0, lp, tpt0, ptok, price0, nrw, conf, ws, claim, x, s. split; [exact Hd|].
    set (w0 := w <| evs := [] |> <| rlog := [] |> <| locks := [] |> <| seeds := sd |>).
    unfold exec in E. cbn [payable] in E. fold w0 in E.
    apply bind_ok in E. destruct E as (u & Hnp & E). apply no_payment_nil in Hnp. rewrite Hnp in E.
    cbn [credit_payment bind] in E. cbn [dispatch] in E.
    destruct v; try discriminate. unfold ret0 in E. mon_inv.
    match goal with Hd2 : set_unlock_schedule_v1 _ _ _ _ _ _ _ = Ok _ |- _ => apply set_unlock_schedule_v1_ok in Hd2; destruct Hd2 as (_ & _ & _ & _ & Hs2 & _); rewrite Hs2 end.
    first [exact Hrt|reflexivity].
  - destruct IH as (e0 & lp & tpt0 & ptok & price0 & nrw & conf & ws & claim & x & s & Hd & Hrt).
    exists e0, lp, tpt0, ptok, price0, nrw, conf, ws, claim, x, s. split; [exact Hd|].
    set (w0 := w <| evs := [] |> <| rlog := [] |> <| locks := [] |> <| seeds := sd |>).
    unfold exec in E. cbn [payable] in E. fold w0 in E.
    apply bind_ok in E. destruct E as (u & Hnp & E). apply no_payment_nil in Hnp. rewrite Hnp in E.
    cbn [credit_payment bind] in E. cbn [dispatch] in E.
    destruct v; try discriminate. unfold ret0 in E. mon_inv.
    match goal with Hd2 : set_unlock_schedule_v2 _ _ _ = Ok _ |- _ => unfold set_unlock_schedule_v2 in Hd2; mon_inv end.
    first [exact Hrt|reflexivity].
Qed.

(** C12, last sentence, from deployment: after the three stages the number of winners is
    min(winners configured at deployment, confirmed tickets) *)
Theorem deployed_final_winners v w0 lf wf ef bf w1 ls ws es bs w2 sd rest ld wd ed bd w3 :
  guar v -> setup_reach_gt H v w0 ->
  after_interrupted filter_tickets lf w0 = Some wf -> filter_tickets ef bf wf = Ok (w1, 0) ->
  seeds w1 = sd :: rest ->
  after_interrupted (select_winners H) ls w1 = Some ws -> select_winners H es bs ws = Ok (w2, 0) ->
  after_interrupted (distribute_guaranteed_tickets H (vflag v)) ld w2 = Some wd ->
  distribute_guaranteed_tickets H (vflag v) ed bd wd = Ok (w3, 0) ->
  exists e lp tpt0 ptok price0 nrw conf wsr claim x s (l : list (N * N)),
    deploy v e lp tpt0 ptok price0 nrw conf wsr claim x = Ok s /\
    nr_winning (st w3) = N.min nrw (sumN (map (confirmed (st w0)) (map fst l))) /\
    count_winning (st w3) (range_ids 1 (sumN (map (confirmed (st w0)) (map fst l)))) = nr_winning (st w3).
Proof.
  intros Hv Hr Haf Ef Hs Has Es Had Ed.
  destruct (setup_reach_gt_total v w0 Hv Hr) as (e & lp & tpt0 & ptok & price0 & nrw & conf & wsr & claim & x & s & Hd & Hrt).
  destruct (setup_reach_gt_PreG H v w0 Hv Hr) as [l [[Hsel _ _] Hg]].
  pose proof (setup_reach_gt_LpInv H v w0 Hv Hr) as [_ _ (Hres & _) _ _ _ _].
  exists e, lp, tpt0, ptok, price0, nrw, conf, wsr, claim, x, s, l. split; [exact Hd|].
  destruct (pipeline_gt H (vflag v) l w0 lf wf ef bf w1 ls ws es bs w2 sd rest ld wd ed bd w3 Hsel Hg Haf Ef Hs Has Es Had Ed)
    as (_ & (Hc3 & Hn3 & _ & _) & _ & _).
  destruct (pipeline_to_claims H l w0 lf wf ef bf w1 ls ws es bs w2 sd rest Hsel Haf Ef Hs Has Es)
    as (_ & _ & Hlast2 & Hn2 & _). cbn zeta in Hn2.
  (* the first two stages do not touch the reservations *)
  pose proof Hsel as [Hop0 _ _ _ _ _ _ _].
  assert (Hfok : filter_op_ok (st w0)) by (unfold filter_op_ok; rewrite Hop0; exact I).
  rewrite (filter_multi_resume lf w0 wf ef bf Hfok Haf) in Ef.
  destruct (filter_tickets_only _ _ _ _ Ef) as ((rg & ba & nw & la & fs & Hs1) & _).
  rewrite (select_multi_resume H ls w1 ws es bs Has) in Es.
  assert (Hop1 : op (st w1) = OpNone) by (rewrite Hs1; reflexivity).
  destruct (select_winners_only H _ _ _ _ Hop1 Es) as ((f2 & g2 & Hs2) & _).
  assert (Hres2 : total_reserved (vflag v) (st w2) = total_reserved (vflag v) (st w0)).
  { unfold total_reserved, reserved. rewrite Hs2, Hs1. reflexivity. }
  unfold reserve_total in Hrt. rewrite Hres in Hrt.
  rewrite Hlast2 in Hn3, Hc3. split; [|exact Hc3].
  rewrite Hn3, Hres2, Hn2. lia.
Qed.
End HTotal.
