(** * Calls of other endpoints between the resumed calls of one selection step.
    During the selection period the only other transactions the contracts accept change the pause
    flag, the support address or a start round that still lies in the future (the claim start).
    The resumable steps read none of these except through their gates, so a step commutes with any
    change [U] of these fields: running it on [U w] gives [U] of running it on [w]. *)
From LP Require Import Proofs.Tactics Proofs.Loop Proofs.Resume Proofs.Gates Proofs.Frames.
Open Scope N_scope.

Definition U (su cs : N) (s : state) : state := s <| support := su |> <| claim_start := cs |>.
Definition Uw (su cs : N) (w : world) : world := set_st w (U su cs (st w)).

Definition mapU {A} (su cs : N) (r : res (world * A)) : res (world * A) :=
  match r with Ok (w, x) => Ok (Uw su cs w, x) | Err k => Err k end.

(** the stage does not depend on the claim start while a selection flag is missing *)
Lemma stage_U e su cs s :
  fl_selected s && fl_additional s = false ->
  get_launch_stage e (U su cs s) = get_launch_stage e s.
Proof. intros Hf. unfold get_launch_stage, U. cbn. rewrite Hf. cbn. reflexivity. Qed.

Lemma filter_body_U su cs last s f r :
  filter_body last (U su cs s, f, r) =
  match filter_body last (s, f, r) with Ok (s', f', r', c) => Ok (U su cs s', f', r', c) | Err k => Err k end.
Proof.
  unfold filter_body, U. destruct (f =? last + 1); [reflexivity|]. cbn.
  destruct (batch s f) as [[a n]|]; [|reflexivity]. cbn.
  destruct (confirmed s a =? 0); cbn.
  - destruct (usub n (confirmed s a)); reflexivity.
  - destruct ((0 <? r) || (confirmed s a <? n)); cbn.
    + destruct (usub f r) as [nf|]; cbn; [|reflexivity]. destruct (usub (nf + confirmed s a) 1); cbn; [|reflexivity].
      destruct (usub n (confirmed s a)); reflexivity.
    + destruct (usub n (confirmed s a)); reflexivity.
Qed.

Lemma run_filter_U su cs last b s f r :
  run_while b (filter_body last) (U su cs s, f, r) =
  match run_while b (filter_body last) (s, f, r) with
  | Ok (s', f', r', d, b') => Ok (U su cs s', f', r', d, b')
  | Err k => Err k
  end.
Proof.
  pose proof (run_while_commute (fun x : state * N * N => (U su cs (fst (fst x)), snd (fst x), snd x))
                (filter_body last)) as Hc.
  specialize (Hc ltac:(intros [[sx fx] rx]; cbn [fst snd]; rewrite filter_body_U;
                        destruct (filter_body last (sx, fx, rx)) as [[[[s' f'] r'] c]|]; reflexivity) b (s, f, r)).
  cbn [fst snd] in Hc. rewrite Hc.
  destruct (run_while b (filter_body last) (s, f, r)) as [[[[[s1 f1] r1] d] bb]|]; reflexivity.
Qed.

Theorem filter_tickets_U su cs e b w :
  fl_selected (st w) && fl_additional (st w) = false ->
  filter_tickets e b (Uw su cs w) = mapU su cs (filter_tickets e b w).
Proof.
  intros Hf. unfold filter_tickets, Uw. rewrite !st_set_st.
  change (paused (U su cs (st w))) with (paused (st w)).
  change (fl_filtered (U su cs (st w))) with (fl_filtered (st w)).
  change (last_ticket_id (U su cs (st w))) with (last_ticket_id (st w)).
  unfold require_stage. rewrite (stage_U e su cs (st w) Hf).
  destruct (require (negb (paused (st w)))) as [[]|]; [|reflexivity]. cbn [bind].
  destruct (require (stage_eqb (get_launch_stage e (st w)) WinnerSelection)) as [[]|]; [|reflexivity]. cbn [bind].
  destruct (require (negb (fl_filtered (st w)))) as [[]|]; [|reflexivity]. cbn [bind].
  unfold load_filter_tickets_operation. change (op (U su cs (st w))) with (op (st w)).
  destruct (op (st w)) as [|f0 r0| |]; try reflexivity; cbn [bind].
  - change (U su cs (st w) <| op := OpNone |> <| fl_started := (if 1 =? 1 then true else fl_started (U su cs (st w))) |>)
      with (U su cs (st w <| op := OpNone |> <| fl_started := (if 1 =? 1 then true else fl_started (st w)) |>)).
    rewrite run_filter_U.
    destruct (run_while b _ _) as [[[[[s1 f1] r1] done] bb]|]; [|reflexivity]. cbn [bind].
    destruct done; [|reflexivity].
    destruct (usub (last_ticket_id (st w)) r1); reflexivity.
  - change (U su cs (st w) <| op := OpNone |> <| fl_started := (if f0 =? 1 then true else fl_started (U su cs (st w))) |>)
      with (U su cs (st w <| op := OpNone |> <| fl_started := (if f0 =? 1 then true else fl_started (st w)) |>)).
    rewrite run_filter_U.
    destruct (run_while b _ _) as [[[[[s1 f1] r1] done] bb]|]; [|reflexivity]. cbn [bind].
    destruct done; [|reflexivity].
    destruct (usub (last_ticket_id (st w)) r1); reflexivity.
Qed.

Section HInter.
Variable H : list N -> list N.

Lemma select_body_U su cs nrw last w r p :
  select_body H nrw last (Uw su cs w, r, p) =
  match select_body H nrw last (w, r, p) with Ok (w', r', p', c) => Ok (Uw su cs w', r', p', c) | Err k => Err k end.
Proof.
  unfold select_body. destruct (nrw =? 0); [reflexivity|].
  unfold shuffle_single_ticket, next_usize_in_range, next_usize, Uw, U. destruct w as [s ? ? ? ? ?]. cbn.
  destruct (p =? nrw); reflexivity.
Qed.

Lemma run_select_U su cs nrw last b w r p :
  run_while b (select_body H nrw last) (Uw su cs w, r, p) =
  match run_while b (select_body H nrw last) (w, r, p) with
  | Ok (w', r', p', d, b') => Ok (Uw su cs w', r', p', d, b')
  | Err k => Err k
  end.
Proof.
  pose proof (run_while_commute (fun x : world * rng * N => (Uw su cs (fst (fst x)), snd (fst x), snd x))
                (select_body H nrw last)) as Hc.
  specialize (Hc ltac:(intros [[wx rx] px]; cbn [fst snd]; rewrite select_body_U;
                        destruct (select_body H nrw last (wx, rx, px)) as [[[[w' r'] p'] c]|]; reflexivity) b (w, r, p)).
  cbn [fst snd] in Hc. rewrite Hc.
  destruct (run_while b (select_body H nrw last) (w, r, p)) as [[[[[w1 r1] p1] d] bb]|]; reflexivity.
Qed.

Theorem select_winners_U su cs e b w :
  fl_selected (st w) && fl_additional (st w) = false ->
  select_winners H e b (Uw su cs w) = mapU su cs (select_winners H e b w).
Proof.
  intros Hf. unfold select_winners. unfold Uw at 1 2 3 4 5 6. rewrite !st_set_st.
  change (paused (U su cs (st w))) with (paused (st w)).
  change (fl_filtered (U su cs (st w))) with (fl_filtered (st w)).
  change (fl_selected (U su cs (st w))) with (fl_selected (st w)).
  change (nr_winning (U su cs (st w))) with (nr_winning (st w)).
  change (last_ticket_id (U su cs (st w))) with (last_ticket_id (st w)).
  unfold require_stage. rewrite (stage_U e su cs (st w) Hf).
  destruct (require (negb (paused (st w)))) as [[]|]; [|reflexivity]. cbn [bind].
  destruct (require (stage_eqb (get_launch_stage e (st w)) WinnerSelection)) as [[]|]; [|reflexivity]. cbn [bind].
  destruct (check_caller_owner_or_user e) as [[]|]; [|reflexivity]. cbn [bind].
  destruct (require (fl_filtered (st w))) as [[]|]; [|reflexivity]. cbn [bind].
  destruct (require (negb (fl_selected (st w)))) as [[]|]; [|reflexivity]. cbn [bind].
  unfold load_select_winners_operation. rewrite st_set_st. change (op (U su cs (st w))) with (op (st w)).
  destruct (op (st w)) as [| |r0 p0|]; try reflexivity; cbn [bind].
  - (* a fresh start: the seed comes from the world, which [U] does not touch *)
    unfold rng_default. change (seeds (set_st w (U su cs (st w)))) with (seeds w).
    destruct (seeds w) as [|sd rest]; cbn [bind].
    all: change (st (Uw su cs w)) with (U su cs (st w)).
    all: change (nr_winning (U su cs (st w))) with (nr_winning (st w)).
    all: change (last_ticket_id (U su cs (st w))) with (last_ticket_id (st w)).
    all: lazymatch goal with
         | |- bind (run_while _ _ (?x, _, _)) _ = mapU _ _ (bind (run_while _ _ (?y, _, _)) _) =>
             change x with (Uw su cs y)
         end.
    all: rewrite run_select_U.
    all: match goal with |- context [run_while ?bb ?bd ?x] => destruct (run_while bb bd x) as [[[[[w1 r1] p1] done] bbb]|] end;
         [|reflexivity]; cbn [bind]; destruct done; reflexivity.
  - change (st (Uw su cs w)) with (U su cs (st w)).
    change (nr_winning (U su cs (st w))) with (nr_winning (st w)).
    change (last_ticket_id (U su cs (st w))) with (last_ticket_id (st w)).
    lazymatch goal with
    | |- bind (run_while _ _ (?x, _, _)) _ = mapU _ _ (bind (run_while _ _ (?y, _, _)) _) =>
        change x with (Uw su cs y)
    end.
    rewrite run_select_U.
    match goal with |- context [run_while ?bb ?bd ?x] => destruct (run_while bb bd x) as [[[[[w1 r1] p1] done] bbb]|] end;
      [|reflexivity]; cbn [bind]; destruct done; reflexivity.
Qed.
End HInter.

(** ** histories in which other accepted transactions (support / claim-start setters, pause ...
    unpause) sit between the calls of one step *)
Definition T (su cs : N) (p : bool) (s : state) : state := U su cs s <| paused := p |>.
Definition Tw (su cs : N) (p : bool) (w : world) : world := set_st w (T su cs p (st w)).

Lemma Tw_unpaused su cs w : paused (st w) = false -> Tw su cs false w = Uw su cs w.
Proof. unfold Tw, Uw, T, U. destruct w as [s ? ? ? ? ?]. destruct s. cbn. intros ->. reflexivity. Qed.

Lemma Tw_Tw su cs p su' cs' p' w : Tw su' cs' p' (Tw su cs p w) = Tw su' cs' p' w.
Proof. unfold Tw, T, U. rewrite st_set_st, set_st_set_st. reflexivity. Qed.

Lemma Uw_as_Tw su cs w : Uw su cs w = Tw su cs (paused (st w)) w.
Proof. unfold Tw, Uw, T, U. destruct w as [s ? ? ? ? ?]. destruct s. reflexivity. Qed.

Definition open_flags (w : world) : Prop := fl_selected (st w) && fl_additional (st w) = false.

Section Noisy.
Variable ep : env -> nat -> world -> res (world * N).
Hypothesis ep_U : forall su cs e b w, open_flags w -> ep e b (Uw su cs w) = mapU su cs (ep e b w).
Hypothesis ep_gate : forall e b w w1 x, ep e b w = Ok (w1, x) -> paused (st w) = false.
Hypothesis ep_keeps : forall e b w w1, ep e b w = Ok (w1, 1) -> paused (st w1) = paused (st w) /\ (open_flags w -> open_flags w1).

(** interrupted calls with noise in between *)
Inductive noisy : world -> world -> Prop :=
| ny_nil w : noisy w w
| ny_call e b w w1 wk : ep e b w = Ok (w1, 1) -> noisy w1 wk -> noisy w wk
| ny_noise su cs p w wk : noisy (Tw su cs p w) wk -> noisy w wk.

(** the noisy history ends in a neutral transform of the state a noise-free history ends in *)
Theorem noisy_pure : forall wa wk, noisy wa wk ->
  forall wp su cs p, wa = Tw su cs p wp -> paused (st wp) = false -> open_flags wp ->
  exists l wq su' cs' p', after_interrupted ep l wp = Some wq /\ wk = Tw su' cs' p' wq /\
                          paused (st wq) = false /\ open_flags wq.
Proof.
  induction 1 as [w | e b w w1 wk E _ IH | su0 cs0 p0 w wk _ IH]; intros wp su cs p Hw Hp Hf.
  - exists [], wp, su, cs, p. cbn. auto.
  - subst w. pose proof (ep_gate _ _ _ _ _ E) as Hg.
    assert (p = false) by (unfold Tw, T in Hg; rewrite st_set_st in Hg; exact Hg). subst p.
    rewrite (Tw_unpaused su cs wp Hp) in E. rewrite (ep_U su cs e b wp Hf) in E.
    destruct (ep e b wp) as [[wp1 x]|] eqn:Ep; [|discriminate]. cbn in E. inversion E; subst w1 x; clear E.
    destruct (ep_keeps _ _ _ _ Ep) as [Hp1 Hf1]. rewrite Hp in Hp1.
    destruct (IH wp1 su cs (paused (st wp1)) (Uw_as_Tw su cs wp1) Hp1 (Hf1 Hf)) as (l & wq & su' & cs' & p' & Ha & Hk & Hq).
    exists ((e, b) :: l), wq, su', cs', p'. cbn. rewrite Ep. auto.
  - subst w. rewrite Tw_Tw in IH. exact (IH wp su0 cs0 p0 eq_refl Hp Hf).
Qed.

(** ... and the completing call then yields a neutral transform of the noise-free result *)
Corollary noisy_complete wa wk e b wf x :
  noisy wa wk -> paused (st wa) = false -> open_flags wa -> ep e b wk = Ok (wf, x) ->
  exists l wq su cs wpure, after_interrupted ep l wa = Some wq /\ ep e b wq = Ok (wpure, x) /\ wf = Uw su cs wpure.
Proof.
  intros Hn Hp Hf E.
  assert (Hwa : wa = Tw (support (st wa)) (claim_start (st wa)) (paused (st wa)) wa).
  { unfold Tw, T, U. destruct wa as [s ? ? ? ? ?]. destruct s. reflexivity. }
  destruct (noisy_pure wa wk Hn wa _ _ _ Hwa Hp Hf) as (l & wq & su & cs & p & Ha & Hk & Hq & Hfq).
  subst wk. pose proof (ep_gate _ _ _ _ _ E) as Hg.
  assert (p = false) by (unfold Tw, T in Hg; rewrite st_set_st in Hg; exact Hg). subst p.
  rewrite (Tw_unpaused su cs wq Hq) in E. rewrite (ep_U su cs e b wq Hfq) in E.
  destruct (ep e b wq) as [[wpure x']|] eqn:Ep; [|discriminate]. cbn in E. inversion E; subst.
  exists l, wq, su, cs, wpure. auto.
Qed.
End Noisy.

(** ** instances *)
Lemma terms_paused s s' : terms_of s' = terms_of s -> paused s' = paused s.
Proof. unfold terms_of. intros E. inversion E. auto. Qed.

Theorem filter_noisy_complete wa wk e b wf x :
  noisy filter_tickets wa wk -> paused (st wa) = false -> open_flags wa -> filter_tickets e b wk = Ok (wf, x) ->
  exists l wq su cs wpure, after_interrupted filter_tickets l wa = Some wq /\
                           filter_tickets e b wq = Ok (wpure, x) /\ wf = Uw su cs wpure.
Proof.
  apply noisy_complete.
  - intros su cs e0 b0 w Hf. apply filter_tickets_U. exact Hf.
  - intros e0 b0 w w1 x0 E. apply gate_filter in E. tauto.
  - intros e0 b0 w w1 E. destruct (filter_tickets_tf _ _ _ _ _ E) as (Ht & Hs & Ha & _).
    split; [apply terms_paused; exact Ht|]. unfold open_flags. rewrite Hs, Ha. auto.
Qed.

Section HInst.
Variable H : list N -> list N.

Theorem select_noisy_complete wa wk e b wf x :
  noisy (select_winners H) wa wk -> paused (st wa) = false -> open_flags wa -> select_winners H e b wk = Ok (wf, x) ->
  exists l wq su cs wpure, after_interrupted (select_winners H) l wa = Some wq /\
                           select_winners H e b wq = Ok (wpure, x) /\ wf = Uw su cs wpure.
Proof.
  apply noisy_complete.
  - intros su cs e0 b0 w Hf. apply select_winners_U. exact Hf.
  - intros e0 b0 w w1 x0 E. apply (gate_select H) in E. tauto.
  - intros e0 b0 w w1 E. destruct (select_winners_tf H _ _ _ _ _ E) as (Ht & _ & Ha & _ & Hs).
    split; [apply terms_paused; exact Ht|]. unfold open_flags. rewrite (Hs ltac:(discriminate)), Ha. auto.
Qed.
End HInst.
