(** * C11 lifted to the whole distribution step: every listed holder is processed exactly once,
    in whatever order the unordered set yields them, and ends up honoured; only tickets of
    holders' own ranges are newly marked. *)
From Coq Require Import Permutation.
From LP Require Import Proofs.Tactics Proofs.Loop Proofs.Shuffle Proofs.Frames Proofs.Guaranteed Proofs.Nft Proofs.Resume Proofs.Resume2.
Open Scope N_scope.

Lemma status_eta (s : state) : s <| status := status s |> = s.
Proof. destruct s; reflexivity. Qed.

Lemma topup_v2_only_status : forall ids s rem added s' rem' added',
  topup_v2 ids s rem added = (s', rem', added') -> exists f, s' = s <| status := f |>.
Proof.
  induction ids as [|t ids IH]; intros s rem added s' rem' added' E; cbn in E.
  - inversion E; subst. exists (status s'). symmetry; apply status_eta.
  - destruct (rem =? 0); [inversion E; subst; exists (status s'); symmetry; apply status_eta|].
    destruct (status s t); [eapply IH; eauto|].
    apply IH in E. destruct E as [f ->]. exists f. reflexivity.
Qed.

Lemma gt_user_step_only_status (v2 : bool) s o u (s' : state) (o' : gtop) :
  (if v2 then gt_user_step_v2 s o u else gt_user_step_v1 s o u) = (s', o') ->
  exists f, s' = s <| status := f |>.
Proof.
  destruct v2.
  - unfold gt_user_step_v2. intros E. break_in E; inversion E; subst;
      try (exists (status s'); symmetry; apply status_eta).
    eapply topup_v2_only_status; eauto.
  - unfold gt_user_step_v1. intros E. break_in E; inversion E; subst;
      try (exists (status s'); symmetry; apply status_eta);
      eapply topup_v2_only_status; eauto.
Qed.

(** a ticket newly marked by the step of [u] lies in [u]'s own range *)
Lemma gt_user_step_new_in_range (v2 : bool) s o u (s' : state) (o' : gtop) :
  (if v2 then gt_user_step_v2 s o u else gt_user_step_v1 s o u) = (s', o') ->
  forall t, status s' t = true ->
  status s t = true \/ exists f la, range s u = Some (f, la) /\ In t (range_ids f la).
Proof.
  intros E t Ht.
  destruct (range s u) as [[f la]|] eqn:Er.
  - destruct (in_dec N.eq_dec t (range_ids f la)) as [Hin|Hout]; [right; eauto|left].
    destruct v2; [unfold gt_user_step_v2 in E|unfold gt_user_step_v1 in E]; rewrite Er in E;
      break_in E; inversion E; subst; try exact Ht;
      match goal with Hx : topup_v2 _ _ _ _ = _ |- _ =>
        apply topup_v2_spec in Hx; [|apply range_ids_NoDup];
        destruct Hx as (_ & _ & _ & _ & Hfr & _); rewrite <- (Hfr t Hout); exact Ht end.
  - left. destruct v2; [unfold gt_user_step_v2 in E|unfold gt_user_step_v1 in E]; rewrite Er in E;
      break_in E; inversion E; subst; exact Ht.
Qed.

Lemma count_winning_mono s s' ids :
  (forall t, status s t = true -> status s' t = true) -> count_winning s ids <= count_winning s' ids.
Proof.
  intros Hm. unfold count_winning. induction ids as [|t ids IH]; cbn [filter]; [lia|].
  destruct (status s t) eqn:Et.
  - rewrite (Hm t Et). cbn [length]. lia.
  - destruct (status s' t); cbn [length]; lia.
Qed.

(** what participant [u] is owed, from the data of the state the step starts in *)
Definition owed (v2 : bool) (s0 : state) (u : N) : N :=
  match uts s0 u, range s0 u with
  | Some us, Some (f, la) =>
      if v2 then N.min (qualified_v2 (us_infos us) (confirmed s0 u)) (confirmed s0 u)
      else N.min (qualified_v1 us (min_conf s0) (confirmed s0 u)) (N.of_nat (length (range_ids f la)))
  | _, _ => 0
  end.

Definition own_winning (s0 s : state) (u : N) : N :=
  match range s0 u with
  | Some (f, la) => count_winning s (range_ids f la)
  | None => 0
  end.

Record GInv (v2 : bool) (s0 s : state) : Prop := {
  gi_mono : forall t, status s0 t = true -> status s t = true;
  gi_frame : exists f g, s = s0 <| status := f |> <| gt_users := g |>;
  gi_nodup : NoDup (gt_users s);
  gi_incl : forall u, In u (gt_users s) -> In u (gt_users s0);
  gi_done : forall u, In u (gt_users s0) -> ~ In u (gt_users s) -> owed v2 s0 u <= own_winning s0 s u;
  gi_new : forall t, status s t = true -> status s0 t = true \/
             exists u f la, In u (gt_users s0) /\ range s0 u = Some (f, la) /\ In t (range_ids f la)
}.

Definition sized (v2 : bool) (s0 : state) : Prop :=
  v2 = true -> forall u us f la, In u (gt_users s0) -> uts s0 u = Some us -> range s0 u = Some (f, la) ->
  confirmed s0 u <= N.of_nat (length (range_ids f la)).

Lemma GInv_init v2 s0 : NoDup (gt_users s0) -> GInv v2 s0 s0.
Proof.
  intros Hnd. constructor; auto.
  - exists (status s0), (gt_users s0). destruct s0; reflexivity.
  - intros u Hin Hout. contradiction.
Qed.

Lemma select_gt_body_GInv v2 s0 s o n s' o' n' :
  sized v2 s0 -> GInv v2 s0 s ->
  select_gt_body v2 (s, o, n) = Ok (s', o', n', true) -> GInv v2 s0 s'.
Proof.
  intros Hsz [Hmono (f0 & g0 & Hfr) Hnd Hincl Hdone Hnew]. unfold select_gt_body.
  destruct (n =? 0); [discriminate|].
  destruct (gt_users s) as [|u l] eqn:Eg; [discriminate|].
  set (s1 := s <| gt_users := swap_remove u (u :: l) |>).
  destruct (if v2 then gt_user_step_v2 s1 o u else gt_user_step_v1 s1 o u) as [s2 o2] eqn:Es.
  intros E; inversion E; subst s' o' n'; clear E.
  assert (Hin : In u (u :: l)) by (left; reflexivity).
  destruct (swap_remove_facts u (u :: l) Hnd Hin) as (Hnd1 & Hnot & Hiff & _).
  destruct (gt_user_step_only_status v2 _ _ _ _ _ Es) as [f2 Hs2].
  pose proof (gt_user_step_status_mono v2 _ _ _ _ _ Es) as Hm2.
  pose proof (gt_user_step_new_in_range v2 _ _ _ _ _ Es) as Hn2.
  assert (Hst1 : status s1 = status s) by reflexivity.
  assert (Hr1 : range s1 = range s0) by (unfold s1; rewrite Hfr; reflexivity).
  assert (Hu1 : uts s1 = uts s0) by (unfold s1; rewrite Hfr; reflexivity).
  assert (Hc1 : confirmed s1 = confirmed s0) by (unfold s1; rewrite Hfr; reflexivity).
  assert (Hm1 : min_conf s1 = min_conf s0) by (unfold s1; rewrite Hfr; reflexivity).
  assert (Hg2 : gt_users s2 = swap_remove u (u :: l)) by (rewrite Hs2; reflexivity).
  assert (Hu0 : In u (gt_users s0)) by (apply Hincl; left; reflexivity).
  constructor.
  - intros t Ht. apply Hm2. rewrite Hst1. auto.
  - exists f2, (swap_remove u (u :: l)). rewrite Hs2. unfold s1. rewrite Hfr. reflexivity.
  - rewrite Hg2. exact Hnd1.
  - intros v Hv. rewrite Hg2 in Hv. apply Hiff in Hv. apply Hincl. tauto.
  - intros v Hv0 Hvout. rewrite Hg2 in Hvout.
    assert (Hle : forall x, own_winning s0 s x <= own_winning s0 s2 x).
    { intros x. unfold own_winning. destruct (range s0 x) as [[fx lx]|]; [|lia].
      apply count_winning_mono. intros t Ht. apply Hm2. rewrite Hst1. exact Ht. }
    destruct (N.eq_dec v u) as [->|Hne].
    + (* the participant just processed *)
      unfold owed, own_winning. destruct (uts s0 u) as [us|] eqn:Eu; [|lia].
      destruct (range s0 u) as [[fu lu]|] eqn:Er; [|lia].
      destruct v2.
      * assert (Hsize : confirmed s1 u <= N.of_nat (length (range_ids fu lu))) by (rewrite Hc1; eapply Hsz; eauto).
        rewrite <- Hu1 in Eu. rewrite <- Hr1 in Er.
        destruct (gt_user_step_v2_spec _ _ _ _ _ _ _ _ Es Eu Er Hsize) as (Hneed & _). rewrite Hc1 in Hneed. exact Hneed.
      * rewrite <- Hu1 in Eu. rewrite <- Hr1 in Er.
        destruct (gt_user_step_v1_spec _ _ _ _ _ _ _ _ Es Eu Er) as (Hneed & _). rewrite Hc1, Hm1 in Hneed. exact Hneed.
    + (* processed earlier: nothing was un-marked since *)
      assert (Hvs : ~ In v (u :: l)) by (intros Hx; apply Hvout, Hiff; split; assumption).
      etransitivity; [apply Hdone; assumption|apply Hle].
  - intros t Ht. destruct (Hn2 t Ht) as [Hold|(fu & lu & Hr & Hin')].
    + rewrite Hst1 in Hold. auto.
    + right. exists u, fu, lu. rewrite Hr1 in Hr. auto.
Qed.

(** the whole first phase *)
Theorem select_gt_loop_honours v2 s0 : forall b o n s' o' n' d b',
  NoDup (gt_users s0) -> sized v2 s0 -> n = N.of_nat (length (gt_users s0)) ->
  run_while b (select_gt_body v2) (s0, o, n) = Ok (s', o', n', d, b') ->
  GInv v2 s0 s' /\ (d = true -> gt_users s' = []).
Proof.
  intros b o n s' o' n' d b' Hnd Hsz Hn E.
  destruct (select_gt_loop_inv v2 _ _ _ _ _ _ _ _ _ Hn E) as (_ & Hn' & Hd).
  split.
  - change (GInv v2 s0 (fst (fst (s', o', n')))).
    eapply (run_invariant (select_gt_body v2) (fun x => GInv v2 s0 (fst (fst x)))); [| |exact E].
    + intros [[sa oa] na] [[sb ob] nb] c Hi Eb. cbn [fst] in *. destruct c.
      * eapply select_gt_body_GInv; eauto.
      * unfold select_gt_body in Eb. destruct (na =? 0); [inversion Eb; subst; assumption|].
        destruct (gt_users sa); [discriminate|]. destruct (if v2 then _ else _); discriminate.
    + cbn. apply GInv_init. exact Hnd.
  - intros ->. specialize (Hd eq_refl). subst n'. destruct (gt_users s'); [reflexivity|]. cbn [length] in Hd. lia.
Qed.

(** C11 for the completed first phase: every listed holder is honoured with own tickets *)
Corollary select_gt_loop_all_honoured v2 s0 b o s' o' n' b' :
  NoDup (gt_users s0) -> sized v2 s0 ->
  run_while b (select_gt_body v2) (s0, o, N.of_nat (length (gt_users s0))) = Ok (s', o', n', true, b') ->
  (forall u, In u (gt_users s0) -> owed v2 s0 u <= own_winning s0 s' u) /\
  (forall t, status s0 t = true -> status s' t = true) /\
  (forall t, status s' t = true -> status s0 t = true \/
     exists u f la, In u (gt_users s0) /\ range s0 u = Some (f, la) /\ In t (range_ids f la)).
Proof.
  intros Hnd Hsz E.
  destruct (select_gt_loop_honours v2 s0 _ _ _ _ _ _ _ _ Hnd Hsz eq_refl E) as ([Hm _ _ _ Hdone Hnew] & Hg).
  specialize (Hg eq_refl). split; [|split; assumption].
  intros u Hu. apply Hdone; [assumption|]. rewrite Hg. intros [].
Qed.

(** ** the second phase (leftover redistribution) only adds winners *)
Section HL.
Variable H : list N -> list N.

Lemma upd_true_mono (f : N -> bool) k t : f t = true -> upd f k true t = true.
Proof. unfold upd. destruct (N.eqb t k) eqn:E; auto. Qed.

Lemma try_select_status_mono v2 w r cur last tr r' w' :
  try_select_winning_ticket H v2 w r cur last = (tr, r', w') ->
  forall t, status (st w) t = true -> status (st w') t = true.
Proof.
  unfold try_select_winning_ticket, next_usize_in_range, next_usize. destruct w as [s ? ? ? ? ?]. cbn.
  intros E t Ht. break_in E; inversion E; subst; cbn; auto. all: try (apply upd_true_mono; exact Ht).
Qed.

Lemma leftover_loop_status_mono v2 nrw last b w o w' o' d b' :
  run_while b (leftover_body H v2 nrw last) (w, o) = Ok (w', o', d, b') ->
  forall t, status (st w) t = true -> status (st w') t = true.
Proof.
  intros E.
  change (forall t, status (st w) t = true -> status (st (fst (w', o'))) t = true).
  eapply (run_invariant (leftover_body H v2 nrw last)
            (fun x => forall t, status (st w) t = true -> status (st (fst x)) t = true)); [| |exact E].
  - intros [wa oa] [wb ob] c Hi Eb t Ht. cbn [fst] in *. specialize (Hi t Ht).
    unfold leftover_body in Eb.
    destruct (g_leftover _ =? 0); [inversion Eb; subst; exact Hi|].
    destruct (try_select_winning_ticket _ _ _ _ _ _) as [[tr r'] w1] eqn:Et.
    pose proof (try_select_status_mono _ _ _ _ _ _ _ _ Et t Hi) as Hm.
    destruct tr; inversion Eb; subst; exact Hm.
  - cbn. auto.
Qed.

(** both phases *)
Theorem gt_distribution_honours v2 b w o w1 o1 bb :
  NoDup (gt_users (st w)) -> sized v2 (st w) ->
  gt_distribution H v2 b w o = Ok (w1, o1, true, bb) ->
  (forall u, In u (gt_users (st w)) -> owed v2 (st w) u <= own_winning (st w) (st w1) u) /\
  (forall t, status (st w) t = true -> status (st w1) t = true).
Proof.
  intros Hnd Hsz. unfold gt_distribution. intros E.
  apply bind_ok in E. destruct E as ([[[[s1 oa] n1] d1] ba] & H1 & E).
  destruct d1; cbn [negb] in E; [|inversion E].
  apply bind_ok in E. destruct E as ([[[w2 o2] d2] b2'] & H2 & E). inversion E; subst; clear E.
  destruct (select_gt_loop_all_honoured v2 _ _ _ _ _ _ _ Hnd Hsz H1) as (Hdone & Hmono & _).
  pose proof (leftover_loop_status_mono _ _ _ _ _ _ _ _ _ _ H2) as Hm2. rewrite st_set_st in Hm2.
  split.
  - intros u Hu. etransitivity; [apply Hdone; exact Hu|].
    unfold own_winning. destruct (range (st w) u) as [[f la]|]; [|lia].
    apply count_winning_mono. exact Hm2.
  - intros t Ht. apply Hm2, Hmono, Ht.
Qed.

(** the endpoint, started afresh and completed in one call *)
Theorem distribute_honours v2 e b w w' :
  op (st w) = OpNone -> NoDup (gt_users (st w)) -> sized v2 (st w) ->
  distribute_guaranteed_tickets H v2 e b w = Ok (w', 0) ->
  (forall u, In u (gt_users (st w)) -> owed v2 (st w) u <= own_winning (st w) (st w') u) /\
  (forall t, status (st w) t = true -> status (st w') t = true).
Proof.
  intros Hop Hnd Hsz. unfold distribute_guaranteed_tickets. intros E.
  apply bind_ok in E. destruct E as (u1 & _ & E).
  apply bind_ok in E. destruct E as (u2 & _ & E).
  apply bind_ok in E. destruct E as (u3 & _ & E).
  apply bind_ok in E. destruct E as (u4 & _ & E).
  apply bind_ok in E. destruct E as (u5 & _ & E).
  apply bind_ok in E. destruct E as ([o0 wl] & Hl & E).
  apply bind_ok in E. destruct E as ([[[wa oa] da] ba] & Hd & E).
  assert (Hwl : st wl = st w) by (eapply load_gt_op_st; eauto).
  destruct da; [|inversion E].
  set (w0 := set_st wl (st wl <| op := OpNone |>)) in *.
  assert (Hs0 : st w0 = st w).
  { unfold w0. rewrite st_set_st, Hwl. rewrite <- Hop. destruct (st w); reflexivity. }
  rewrite <- Hs0 in Hnd, Hsz.
  destruct (gt_distribution_honours v2 _ _ _ _ _ _ Hnd Hsz Hd) as (Hdone & Hmono).
  rewrite Hs0 in Hdone, Hmono.
  assert (Hst : status (st w') = status (st wa)).
  { destruct v2; inversion E; subst w'; unfold finish_gt; rewrite ?st_emit, !st_set_st; reflexivity. }
  split.
  - intros u Hu. unfold own_winning, count_winning in *. rewrite Hst. apply Hdone. exact Hu.
  - intros t Ht. rewrite Hst. apply Hmono. exact Ht.
Qed.

(** ... and however the step is interrupted (C04): the final state is the one of a single call *)
Theorem distribute_honours_interrupted v2 l w wk e b w' :
  op (st w) = OpNone -> NoDup (gt_users (st w)) -> sized v2 (st w) ->
  after_interrupted (distribute_guaranteed_tickets H v2) l w = Some wk ->
  distribute_guaranteed_tickets H v2 e b wk = Ok (w', 0) ->
  (forall u, In u (gt_users (st w)) -> owed v2 (st w) u <= own_winning (st w) (st w') u) /\
  (forall t, status (st w) t = true -> status (st w') t = true).
Proof.
  intros Hop Hnd Hsz Ha E. rewrite (distribute_multi_resume H v2 _ _ _ _ _ Ha) in E.
  eapply distribute_honours; eauto.
Qed.
End HL.

(** ** the combined step of ngt: guaranteed tickets, then the NFT draw (which marks no ticket) *)
From LP Require Import Proofs.Resume3 Proofs.Resume4.
Section HN.
Variable H : list N -> list N.

Lemma nft_body_status total w r ul sel w' r' ul' sel' c :
  nft_body H total (w, r, ul, sel) = Ok (w', r', ul', sel', c) -> status (st w') = status (st w).
Proof.
  unfold nft_body. destruct ((ul =? 0) || (sel =? total)); [intros E; inversion E; reflexivity|].
  unfold next_usize_in_range, next_usize. cbn zeta.
  match goal with |- context [nth_error ?l ?i] => destruct (nth_error l i) end; [|discriminate].
  intros E; inversion E; subst. rewrite st_set_st. destruct w as [sx ? ? ? ? ?]. reflexivity.
Qed.

Lemma select_nft_winners_status b w r w' r' d b' :
  select_nft_winners H b w r = Ok (w', r', d, b') -> status (st w') = status (st w).
Proof.
  unfold select_nft_winners. intros E.
  apply bind_ok in E. destruct E as ([[[[[wy ry] uy] sy] dy] by_] & Hrun & E). inversion E; subst; clear E.
  change (status (st (fst (fst (fst (w', r', uy, sy))))) = status (st w)).
  eapply (run_invariant (nft_body H (total_nfts (st w)))
            (fun x => status (st (fst (fst (fst x)))) = status (st w))); [| |exact Hrun].
  - intros [[[wa ra] ua] sa] [[[wb rb] ub] sb] c Hi Eb. cbn [fst] in *.
    rewrite (nft_body_status _ _ _ _ _ _ _ _ _ _ Eb). exact Hi.
  - reflexivity.
Qed.

Theorem secondary_honours e b w w' :
  op (st w) = OpNone -> NoDup (gt_users (st w)) ->
  secondary_selection_step H e b w = Ok (w', 0) ->
  (forall u, In u (gt_users (st w)) -> owed false (st w) u <= own_winning (st w) (st w') u) /\
  (forall t, status (st w) t = true -> status (st w') t = true).
Proof.
  intros Hop Hnd. unfold secondary_selection_step. intros E.
  apply bind_ok in E. destruct E as (u1 & _ & E).
  apply bind_ok in E. destruct E as (u2 & _ & E).
  apply bind_ok in E. destruct E as (u3 & _ & E).
  rewrite Hop in E. destruct (rng_default w) as [r0 wl] eqn:Er. cbn [bind] in E.
  assert (Hwl : st wl = st w) by (eapply rng_default_st; eauto).
  set (w0 := set_st wl (st wl <| op := OpNone |>)) in *.
  assert (Hs0 : st w0 = st w).
  { unfold w0. rewrite st_set_st, Hwl. rewrite <- Hop. destruct (st w); reflexivity. }
  apply bind_ok in E. destruct E as ([[wp orng] bp] & Hph & E).
  apply bind_ok in Hph. destruct Hph as ([[[wa oa] da] ba] & Hd & Hph).
  destruct da.
  2:{ inversion Hph; subst. inversion E. }
  destruct (rng_default (finish_gt wa oa)) as [rn w3] eqn:Er3. inversion Hph; subst wp orng bp; clear Hph.
  apply bind_ok in E. destruct E as ([[[wx rx] dx] bx] & Hs & E).
  destruct dx; [|discriminate E]. injection E as Hw'.
  assert (Hsz : sized false (st w0)) by (intros Hx; discriminate Hx).
  rewrite <- Hs0 in Hnd.
  destruct (gt_distribution_honours H false _ _ _ _ _ _ Hnd Hsz Hd) as (Hdone & Hmono).
  rewrite Hs0 in Hdone, Hmono.
  assert (Hst : status (st w') = status (st wa)).
  { rewrite <- Hw'. change (status (st wx) = status (st wa)).
    rewrite (select_nft_winners_status _ _ _ _ _ _ _ Hs), (rng_default_st _ _ _ Er3). reflexivity. }
  split.
  - intros u Hu. unfold own_winning, count_winning in *. rewrite Hst. apply Hdone. exact Hu.
  - intros t Ht. rewrite Hst. apply Hmono. exact Ht.
Qed.

Theorem secondary_honours_interrupted l w wk e b w' :
  op (st w) = OpNone -> NoDup (gt_users (st w)) -> nft_disjoint w ->
  after_interrupted (secondary_selection_step H) l w = Some wk ->
  secondary_selection_step H e b wk = Ok (w', 0) ->
  (forall u, In u (gt_users (st w)) -> owed false (st w) u <= own_winning (st w) (st w') u) /\
  (forall t, status (st w) t = true -> status (st w') t = true).
Proof.
  intros Hop Hnd Hdj Ha E. rewrite (secondary_multi_resume H _ _ _ _ _ Hdj Ha) in E.
  eapply secondary_honours; eauto.
Qed.
End HN.
