(** * Basic facts about transfers and balances. *)
From LP Require Import Proofs.Tactics.
Open Scope N_scope.

Definition bal_after (b : N -> N -> N -> N) (from to t k a : N) : N -> N -> N -> N :=
  let b1 := upd_bal b from t k (b from t k - a) in
  upd_bal b1 to t k (b1 to t k + a).

Lemma transfer_ok w from to t k a w' :
  transfer w from to t k a = Ok w' <-> a <= bal w from t k /\ w' = w <| bal := bal_after (bal w) from to t k a |>.
Proof.
  unfold transfer, bal_after. destruct (N.leb_spec a (bal w from t k)); split.
  - intros E; inversion E; auto.
  - intros [_ ->]; reflexivity.
  - discriminate.
  - intros [L _]; lia.
Qed.

Lemma upd_bal_same b a t k v : upd_bal b a t k v a t k = v.
Proof. unfold upd_bal. now rewrite !N.eqb_refl. Qed.

Lemma upd_bal_other b a t k v a' t' k' :
  (a', t', k') <> (a, t, k) -> upd_bal b a t k v a' t' k' = b a' t' k'.
Proof.
  unfold upd_bal. intros Hne.
  destruct (N.eqb_spec a' a), (N.eqb_spec t' t), (N.eqb_spec k' k); cbn; try reflexivity.
  subst. congruence.
Qed.

(** balances after a transfer between two different accounts *)
Lemma bal_after_from b from to t k a :
  from <> to -> bal_after b from to t k a from t k = b from t k - a.
Proof.
  intros Hne. unfold bal_after. rewrite upd_bal_other by congruence. apply upd_bal_same.
Qed.
Lemma bal_after_to b from to t k a :
  from <> to -> bal_after b from to t k a to t k = b to t k + a.
Proof.
  intros Hne. unfold bal_after. rewrite upd_bal_same. rewrite upd_bal_other by congruence. reflexivity.
Qed.
Lemma bal_after_other b from to t k a a' t' k' :
  (a', t', k') <> (from, t, k) -> (a', t', k') <> (to, t, k) ->
  bal_after b from to t k a a' t' k' = b a' t' k'.
Proof.
  intros H1 H2. unfold bal_after. rewrite !upd_bal_other by assumption. reflexivity.
Qed.
Lemma bal_after_self b x t k a : a <= b x t k -> bal_after b x x t k a x t k = b x t k.
Proof.
  intros Ha. unfold bal_after. rewrite !upd_bal_same. lia.
Qed.
