(** * Laws of [run_while] (the gas-resumable loop): unfolding, splitting a run over several calls,
    progress, completion within a measure. *)
From LP Require Import Proofs.Tactics.
Open Scope N_scope.

Section Loop.
Context {S : Type}.
Variable body : S -> res (S * bool).

Lemma run_while_eq b s :
  run_while b body s =
  match body s with
  | Err k => Err k
  | Ok (s', true) => match b with O => Ok (s', false, O) | Datatypes.S b' => run_while b' body s' end
  | Ok (s', false) => Ok (s', true, b)
  end.
Proof. destruct b; simpl; destruct (body s) as [[s' [|]]|k]; reflexivity. Qed.

(** Splitting: a run that is interrupted with budget [b1] and resumed with budget [b2] equals one run
    with budget [b1 + 1 + b2] (the interrupting check is the one extra continue-check). *)
Theorem run_split b1 b2 s s1 :
  run_while b1 body s = Ok (s1, false, O) ->
  run_while (b1 + Datatypes.S b2) body s = run_while b2 body s1.
Proof.
  revert s. induction b1 as [|b1 IH]; intros s E.
  - rewrite run_while_eq in E. rewrite run_while_eq.
    destruct (body s) as [[s' [|]]|k]; try discriminate.
    inversion E; subst. reflexivity.
  - rewrite run_while_eq in E.
    replace (Datatypes.S b1 + Datatypes.S b2)%nat with (Datatypes.S (b1 + Datatypes.S b2)) by lia.
    rewrite run_while_eq.
    destruct (body s) as [[s' [|]]|k]; try discriminate.
    now apply IH.
Qed.

(** An interrupted run always leaves budget 0. *)
Lemma run_interrupted_budget b s s1 b' :
  run_while b body s = Ok (s1, false, b') -> b' = O.
Proof.
  revert s. induction b as [|b IH]; intros s E; rewrite run_while_eq in E;
    destruct (body s) as [[s' [|]]|k]; try discriminate.
  - inversion E; reflexivity.
  - eauto.
Qed.

(** More budget never changes a completed run's final state. *)
Lemma run_completed_mono b s s1 b' extra :
  run_while b body s = Ok (s1, true, b') ->
  run_while (b + extra) body s = Ok (s1, true, (b' + extra)%nat).
Proof.
  revert s. induction b as [|b IH]; intros s E; rewrite run_while_eq in E.
  - rewrite run_while_eq. destruct (body s) as [[s' [|]]|k]; try discriminate.
    inversion E; subst. reflexivity.
  - replace (Datatypes.S b + extra)%nat with (Datatypes.S (b + extra)) by lia.
    rewrite run_while_eq. destruct (body s) as [[s' [|]]|k]; try discriminate.
    + now apply IH.
    + inversion E; subst. reflexivity.
Qed.

(** An invariant preserved by the body holds after any run. *)
Lemma run_invariant (P : S -> Prop) :
  (forall s s' c, P s -> body s = Ok (s', c) -> P s') ->
  forall b s s1 d b', P s -> run_while b body s = Ok (s1, d, b') -> P s1.
Proof.
  intros HP. induction b as [|b IH]; intros s s1 d b' Ps E; rewrite run_while_eq in E;
    destruct (body s) as [[s' [|]]|k] eqn:Eb; try discriminate.
  - inversion E; subst. eapply HP; eauto.
  - inversion E; subst. eapply HP; eauto.
  - eapply IH; [|exact E]. eapply HP; eauto.
  - inversion E; subst. eapply HP; eauto.
Qed.

(** On completion the body's stop condition holds for the final state: the last body call returned
    [false]. *)
Lemma run_completed_stop b s s1 b' :
  run_while b body s = Ok (s1, true, b') -> exists s0, body s0 = Ok (s1, false).
Proof.
  revert s. induction b as [|b IH]; intros s E; rewrite run_while_eq in E;
    destruct (body s) as [[s' [|]]|k] eqn:Eb; try discriminate.
  - inversion E; subst. eauto.
  - eauto.
  - inversion E; subst. eauto.
Qed.

(** Completion within a measure: if every continuing iteration decreases [m] and the body never
    fails on states satisfying [P], then a budget of at least [m s] completes. *)
Lemma run_completes (P : S -> Prop) (m : S -> nat) :
  (forall s, P s -> exists s' c, body s = Ok (s', c) /\ P s' /\ (c = true -> (m s' < m s)%nat)) ->
  forall b s, P s -> (m s <= b)%nat -> exists s1 b', run_while b body s = Ok (s1, true, b').
Proof.
  intros HB. induction b as [|b IH]; intros s Ps Hm; rewrite run_while_eq;
    destruct (HB s Ps) as (s' & c & Eb & Ps' & Hdec); rewrite Eb; destruct c.
  - specialize (Hdec eq_refl). lia.
  - eauto.
  - apply IH; auto. specialize (Hdec eq_refl). lia.
  - eauto.
Qed.

End Loop.
