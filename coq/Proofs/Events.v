(** * C20: the events of every endpoint. [evs] is newest first; [exec] clears it before the call, so
    after an accepted transaction [evs] holds exactly the events of that transaction. *)
From LP Require Import Proofs.Tactics Proofs.LedgerBase Proofs.Loop Proofs.Resume Proofs.Frames Proofs.Settle Proofs.Confirm.
Open Scope N_scope.

Definition ev (n : evname) (l : list N) : event := {| ev_name := n; ev_nums := l |}.

Lemma transfer_evs w a b t k x w' : transfer w a b t k x = Ok w' -> evs w' = evs w.
Proof. intros E. apply transfer_ok in E. destruct E as [_ ->]. reflexivity. Qed.

(** setTicketPrice *)
Theorem set_price_event e w t a w' :
  set_ticket_price e w t a = Ok w' -> evs w' = ev EvSetPrice (event_hdr e ++ [t; 0; a]) :: evs w.
Proof. unfold set_ticket_price, try_set_ticket_price. intros E. mon_inv. reflexivity. Qed.

(** confirmTickets *)
Theorem confirm_event e w n w' :
  pay_wf (pay e) -> confirm_tickets e w n = Ok w' ->
  exists total, get_total_number_of_tickets_for_address (st w) (caller e) = Ok total /\
  evs w' = ev EvConfirm (event_hdr e ++ [n; confirmed (st w) (caller e) + n; total; pay_token (st w); 0; price (st w) * n]) :: evs w.
Proof.
  intros Hwf E. apply (confirm_iff _ _ _ _ Hwf) in E. destruct E as [(_ & _ & _ & _ & _ & (total & Ht & _) & _) ->].
  exists total. split; [assumption|]. unfold confirm_effect. rewrite Ht. reflexivity.
Qed.

(** filterTickets: one completion event carrying the tickets left; none when interrupted *)
Theorem filter_events e b w w' x :
  filter_tickets e b w = Ok (w', x) ->
  (x = 0 /\ evs w' = ev EvFilterDone (event_hdr e ++ [last_ticket_id (st w')]) :: evs w) \/
  (x = 1 /\ evs w' = evs w).
Proof.
  unfold filter_tickets. intros E.
  apply bind_ok in E. destruct E as (u1 & _ & E).
  apply bind_ok in E. destruct E as (u2 & _ & E).
  apply bind_ok in E. destruct E as (u3 & _ & E).
  apply bind_ok in E. destruct E as ([f0 r0] & _ & E).
  apply bind_ok in E. destruct E as ([[[[s1 f1] r1] done] bb] & _ & E).
  destruct done.
  - apply bind_ok in E. destruct E as (nl & _ & E). inversion E; subst. left. split; [reflexivity|]. reflexivity.
  - inversion E; subst. right. split; reflexivity.
Qed.

Section H.
Variable H : list N -> list N.

(** selectWinners: one completion event carrying the number of winners; none when interrupted *)
Theorem select_events e b w w' x :
  select_winners H e b w = Ok (w', x) ->
  (x = 0 /\ evs w' = ev EvSelectDone (event_hdr e ++ [nr_winning (st w)]) :: evs w) \/
  (x = 1 /\ evs w' = evs w).
Proof.
  unfold select_winners. intros E.
  apply bind_ok in E. destruct E as (u1 & _ & E).
  apply bind_ok in E. destruct E as (u2 & _ & E).
  apply bind_ok in E. destruct E as (u3 & _ & E).
  apply bind_ok in E. destruct E as (u4 & _ & E).
  apply bind_ok in E. destruct E as (u5 & _ & E).
  apply bind_ok in E. destruct E as ([[r0 p0] wl] & Hl & E).
  assert (Hwl : evs wl = evs w).
  { unfold load_select_winners_operation in Hl. destruct (op (st w)); try discriminate.
    - unfold rng_default in Hl. destruct (seeds w); inversion Hl; subst; reflexivity.
    - inversion Hl; subst; reflexivity. }
  apply bind_ok in E. destruct E as ([[[[w1 r1] p1] done] bb] & Hrun & E).
  pose proof (select_loop_frame H _ _ _ _ _ _ _ _ _ _ _ Hrun) as Hfr.
  destruct Hfr as (_ & _ & _ & _ & _ & _ & _ & _ & _ & _ & _ & _ & _ & Hevs). cbn in Hevs.
  destruct done; inversion E; subst.
  - left. split; [reflexivity|]. cbn. rewrite Hevs, Hwl. reflexivity.
  - right. split; [reflexivity|]. cbn. rewrite Hevs, Hwl. reflexivity.
Qed.
End H.

(** v2 allocation batch *)
Theorem add_tickets_v2_event e w l w' :
  add_tickets_v2 e w l = Ok w' ->
  exists uc ta ga, evs w' = ev EvAddTickets (event_hdr e ++ [uc; ta; ga]) :: evs w.
Proof.
  unfold add_tickets_v2. intros E.
  apply bind_ok in E. destruct E as (u1 & _ & E).
  apply bind_ok in E. destruct E as ([[[[[s1 tw] tg] uc] ta] ga] & _ & E). inversion E; subst.
  exists uc, ta, ga. reflexivity.
Qed.

(** v2 schedule *)
Theorem set_schedule_v2_event e w l w' :
  set_unlock_schedule_v2 e w l = Ok w' ->
  evs w' = ev EvSetSchedule (event_hdr e ++ N.of_nat (length l) :: flat_map (fun x => [fst x; snd x]) l) :: evs w.
Proof. unfold set_unlock_schedule_v2. intros E. mon_inv. reflexivity. Qed.

(** v2 claim payout: one event with the amount paid, none when nothing is released *)
Theorem claim_vested_v2_events e w w' :
  claimed (st w) (caller e) = true ->
  claim_vested true e w = Ok w' ->
  (evs w' = evs w /\ bal w' = bal w) \/
  (exists amt, 0 < amt /\ evs w' = ev EvClaimTokens (event_hdr e ++ [lp_token (st w); 0; amt]) :: evs w /\
               bal w' = bal_after (bal w) sc_addr (caller e) (lp_token (st w)) 0 amt).
Proof.
  intros Hc. unfold claim_vested. rewrite Hc. intros E.
  apply bind_ok in E. destruct E as (u & _ & E). cbn [bind] in E.
  apply bind_ok in E. destruct E as (amt & _ & E).
  destruct (N.ltb_spec 0 amt).
  - apply bind_ok in E. destruct E as (w2 & Ht & E). apply transfer_ok in Ht. destruct Ht as [_ ->].
    inversion E; subst. right. exists amt. auto.
  - inversion E; subst. left. auto.
Qed.

(** pause / unpause *)
Theorem pause_event e w w' : pause_endpoint e w = Ok w' -> evs w' = ev EvPause [] :: evs w.
Proof. unfold pause_endpoint. intros E. mon_inv. reflexivity. Qed.
Theorem unpause_event e w w' : unpause_endpoint e w = Ok w' -> evs w' = ev EvUnpause [] :: evs w.
Proof. unfold unpause_endpoint. intros E. mon_inv. reflexivity. Qed.

(** endpoints that emit nothing *)
Theorem deposit_no_event e w n w' : deposit_launchpad_tokens e w n = Ok w' -> evs w' = evs w.
Proof.
  unfold deposit_launchpad_tokens. intros E.
  apply bind_ok in E. destruct E as (u & _ & E).
  apply bind_ok in E. destruct E as ([t a] & _ & E). mon_inv. reflexivity.
Qed.
Theorem claim_ticket_payment_no_event e w w' : claim_ticket_payment e w = Ok w' -> evs w' = evs w.
Proof.
  unfold claim_ticket_payment. intros E.
  apply bind_ok in E. destruct E as (u & _ & E).
  apply bind_ok in E. destruct E as (w1 & H1 & E).
  assert (evs w1 = evs w).
  { destruct (0 <? claimable_payment (st w)); [|inversion H1; reflexivity]. apply transfer_evs in H1. exact H1. }
  apply bind_ok in E. destruct E as (ex & _ & E).
  destruct (0 <? ex); [apply transfer_evs in E; congruence | inversion E; subst; assumption].
Qed.

(** [exec] starts every transaction with an empty event list *)
Theorem exec_clears_events (H : list N -> list N) v e b sd w c :
  exec H v e b sd w c = exec H v e b sd (w <| evs := [] |>) c.
Proof. unfold exec. destruct w as [s ? ? ? ? ?]. reflexivity. Qed.

(** ** blacklisting a batch: one refund event per refunded participant, in order *)
Definition refund_ev (e : env) (s : state) (a : N) : list event :=
  if 0 <? confirmed s a
  then [ev EvRefund (event_hdr e ++ [confirmed s a; pay_token s; 0; price s * confirmed s a])]
  else [].

Lemma tf_price s s' : tf s' = tf s -> price s' = price s /\ pay_token s' = pay_token s.
Proof. unfold tf, terms_of. intros E. inversion E. auto. Qed.

Lemma flat_map_ext_in' {A B} (f g : A -> list B) l : (forall x, In x l -> f x = g x) -> flat_map f l = flat_map g l.
Proof.
  induction l as [|a l IH]; intros Hf; cbn; [reflexivity|].
  rewrite Hf by (now left). rewrite IH; [reflexivity|]. intros x Hx. apply Hf. now right.
Qed.

Theorem blacklist_loop_events e : forall l w w',
  blacklist_loop e w l = Ok w' ->
  NoDup l /\ (forall a, In a l -> blacklisted (st w) a = false /\ range (st w) a <> None) /\
  evs w' = rev (flat_map (refund_ev e (st w)) l) ++ evs w /\
  (forall a, In a l -> confirmed (st w') a = 0 /\ blacklisted (st w') a = true) /\
  (forall x, ~ In x l -> confirmed (st w') x = confirmed (st w) x /\ blacklisted (st w') x = blacklisted (st w) x) /\
  range (st w') = range (st w) /\ tf (st w') = tf (st w).
Proof.
  induction l as [|a l IH]; intros w w' E.
  - cbn in E. inversion E; subst. cbn. split; [constructor|]. split; [intros a []|]. split; [reflexivity|].
    split; [intros a []|]. auto.
  - rewrite blacklist_loop_cons in E. apply bind_ok in E. destruct E as (w1 & H1 & E).
    pose proof (bl_one_spec _ _ _ _ H1) as Hs. cbn zeta in Hs.
    destruct Hs as (Hb & Hr & Hb1 & Hc1 & Hoth & Hrg & Htf & _ & _ & _ & _ & _ & Hev).
    destruct (IH _ _ E) as (Hnd & Hpre & Hevs & Hin & Hout & Hrg2 & Htf2).
    assert (Hnotin : ~ In a l).
    { intros Ha. destruct (Hpre a Ha) as [Hf _]. congruence. }
    destruct (tf_price _ _ Htf) as [Hp1 Hp2].
    assert (Hrev : flat_map (refund_ev e (st w1)) l = flat_map (refund_ev e (st w)) l).
    { apply flat_map_ext_in'. intros x Hx. unfold refund_ev.
      destruct (Hoth x ltac:(intros ->; contradiction)) as [Hcx _]. rewrite Hcx, Hp1, Hp2. reflexivity. }
    split; [constructor; assumption|].
    split.
    { intros x [<-|Hx]; [split; assumption|]. destruct (Hpre x Hx) as [Hbx Hrx].
      destruct (Hoth x ltac:(intros ->; contradiction)) as [_ Hbb]. rewrite Hbb in Hbx. rewrite Hrg in Hrx. auto. }
    split.
    { rewrite Hevs, Hrev, Hev. cbn [flat_map]. rewrite rev_app_distr, <- app_assoc. f_equal.
      unfold refund_ev, ev. destruct (0 <? confirmed (st w) a); reflexivity. }
    split.
    { intros x [Hxa|Hx]; [subst x|auto]. destruct (Hout a Hnotin) as [Hc2 Hb2]. rewrite Hc2, Hb2. auto. }
    split.
    { intros x Hx. assert (Hxa : x <> a) by (intros ->; apply Hx; now left).
      assert (Hxl : ~ In x l) by (intros Hi; apply Hx; now right).
      destruct (Hout x Hxl) as [Hc2 Hb2]. destruct (Hoth x Hxa) as [Hc3 Hb3]. split; congruence. }
    split; congruence.
Qed.
