(** * The set-up history before the first confirmation may also change the ticket price
    (launchpad, launchpad-locked-tokens): as long as nobody has confirmed, the contract holds
    nothing but the deposited launchpad tokens, so a new price token finds an empty till. *)
From Coq Require Import Permutation.
From LP Require Import Proofs.Tactics Proofs.LedgerBase Proofs.Loop Proofs.Shuffle Proofs.Gates Proofs.Frames Proofs.Filter
  Proofs.Alloc Proofs.Confirm Proofs.Settle Proofs.Ledger Proofs.Lifecycle Proofs.Setup.
Open Scope N_scope.

Record PreA (w : world) (l : list (N * N)) : Prop := {
  pa_pre : Pre w l;
  pa_zero : forall a, confirmed (st w) a = 0;
  pa_clean : forall t k, (t, k) <> (lp_token (st w), 0) -> bal w sc_addr t k = 0;
  pa_lp : lp_token (st w) <> egld
}.

Lemma PreA_ext w w' l : st w' = st w -> bal w' = bal w -> PreA w l -> PreA w' l.
Proof. intros Hs Hb [A B C D]. constructor; rewrite ?Hs, ?Hb; auto. eapply Pre_ext; eauto. Qed.

(** with no confirmations blacklisting refunds nothing *)
Lemma bl_one_zero e w a w' :
  confirmed (st w) a = 0 -> bl_one e w a = Ok w' ->
  bal w' = bal w /\ confirmed (st w') = confirmed (st w) /\ lp_token (st w') = lp_token (st w).
Proof.
  intros Hz. unfold bl_one. rewrite Hz. cbn [N.ltb N.compare]. intros E.
  apply bind_ok in E. destruct E as (u1 & _ & E). apply bind_ok in E. destruct E as (u2 & _ & E).
  cbn [bind] in E. inversion E; subst. rewrite st_set_st, bal_set_st. cbn. auto.
Qed.

Lemma blacklist_loop_zero e : forall la w w',
  (forall a, confirmed (st w) a = 0) -> blacklist_loop e w la = Ok w' ->
  bal w' = bal w /\ confirmed (st w') = confirmed (st w) /\ lp_token (st w') = lp_token (st w).
Proof.
  induction la as [|a la IH]; intros w w' Hz E; [inversion E; subst; auto|].
  rewrite blacklist_loop_cons in E. apply bind_ok in E. destruct E as (w1 & H1 & E).
  destruct (bl_one_zero e w a w1 (Hz a) H1) as (Hb & Hc & Hl).
  destruct (IH w1 w' ltac:(intros x; rewrite Hc; apply Hz) E) as (Hb2 & Hc2 & Hl2).
  repeat split; congruence.
Qed.

Section HPrice.
Variable H : list N -> list N.

Inductive setup_callA : call -> Prop :=
| sa_add la : Forall (fun x => 0 < snd x) la -> ~ In sc_addr (map fst la) -> setup_callA (CAddTickets la)
| sa_deposit : setup_callA CDeposit
| sa_pause : setup_callA CPause
| sa_unpause : setup_callA CUnpause
| sa_conf r : setup_callA (CSetConf r)
| sa_ws r : setup_callA (CSetWs r)
| sa_claim r : setup_callA (CSetClaim r)
| sa_support a : setup_callA (CSetSupport a)
| sa_blacklist la : ~ In sc_addr la -> setup_callA (CBlacklist la)
| sa_tpt a : setup_callA (CSetTpt a)
| sa_price tok amt : setup_callA (CSetPrice tok amt).

Lemma callA_setup c : setup_callA c -> (exists tok amt, c = CSetPrice tok amt) \/ setup_call c.
Proof. intros [la A B| | | |r|r|r|a|la A|a|tok amt]; try (right; constructor; assumption). left. eauto. Qed.

Ltac open_plain E w0 :=
  unfold exec in E; cbn [payable] in E; fold w0 in E;
  apply bind_ok in E; destruct E as (?u & ?Hnp & E); apply no_payment_nil in Hnp; rewrite Hnp in E;
  cbn [credit_payment bind] in E; cbn [dispatch] in E; unfold ret0 in E; mon_inv.

(** what a set-up transaction other than a confirmation does to the confirmations and to the
    contract's balances, when nobody has confirmed yet *)
Lemma exec_effects e b sd w c w' r :
  (forall a, confirmed (st w) a = 0) -> setup_call c -> (forall n, c <> CConfirm n) ->
  pay_wf (pay e) -> caller e <> sc_addr ->
  exec H Base e b sd w c = Ok (w', r) ->
  confirmed (st w') = confirmed (st w) /\ lp_token (st w') = lp_token (st w) /\
  (forall t k, (t, k) <> (lp_token (st w), 0) -> bal w' sc_addr t k = bal w sc_addr t k).
Proof.
  intros Hz Hc Hnc Hwf Hcs E.
  set (w0 := w <| evs := [] |> <| rlog := [] |> <| locks := [] |> <| seeds := sd |>).
  destruct Hc as [la Hpos Hsc | | n | | | r0 | r0 | r0 | a | la Hsc | a].
  - open_plain E w0.
    match goal with Hd : add_tickets _ _ _ = Ok _ |- _ => unfold add_tickets in Hd; mon_inv end.
    match goal with Hd : add_tickets_loop _ _ = Ok _ |- _ => apply add_tickets_loop_spec in Hd; destruct Hd as (-> & _) end.
    rewrite st_set_st, bal_set_st. destruct (alloc_all_frame la (st w0)) as (_ & _ & Hcf & _ & _ & _ & Hlp).
    rewrite Hcf, Hlp. auto.
  - unfold exec in E. cbn [payable] in E. fold w0 in E. cbn [bind] in E.
    apply bind_ok in E. destruct E as (w1 & Hcr & E).
    cbn [dispatch] in E. unfold ret0 in E. mon_inv.
    match goal with Hd : deposit_launchpad_tokens _ _ _ = Ok _ |- _ => apply (deposit_iff _ _ _ _ Hwf) in Hd; destruct Hd as (_ & Hp & Hlp & ->) end.
    pose proof (credit_payment_st _ _ _ _ Hcr) as Hs1.
    rewrite st_set_st, bal_set_st. cbn. rewrite Hs1. split; [reflexivity|]. split; [reflexivity|].
    intros t k Htk. rewrite Hp in Hcr. cbn [credit_payment] in Hcr.
    apply bind_ok in Hcr. destruct Hcr as (w2 & Ht & Hcr). inversion Hcr; subst w2; clear Hcr.
    apply transfer_ok in Ht. destruct Ht as [_ ->]. cbn.
    apply bal_after_other; intros Hx; inversion Hx; subst; [apply Hcs; congruence | apply Htk; rewrite Hs1; reflexivity].
  - exfalso. eapply Hnc. reflexivity.
  - open_plain E w0.
    match goal with Hd : pause_endpoint _ _ = Ok _ |- _ => apply gate_pause in Hd; destruct Hd as (_ & Hs & Hb) end.
    rewrite Hs, Hb. cbn. auto.
  - open_plain E w0.
    match goal with Hd : unpause_endpoint _ _ = Ok _ |- _ => apply gate_unpause in Hd; destruct Hd as (_ & Hs & Hb) end.
    rewrite Hs, Hb. cbn. auto.
  - open_plain E w0.
    match goal with Hd : set_confirmation_period_start_round _ _ _ = Ok _ |- _ => apply gate_set_conf in Hd; destruct Hd as (_ & _ & _ & Hs & _ & Hb) end.
    rewrite Hs, Hb. cbn. auto.
  - open_plain E w0.
    match goal with Hd : set_winner_selection_start_round _ _ _ = Ok _ |- _ => apply gate_set_ws in Hd; destruct Hd as (_ & _ & _ & Hs & _ & Hb) end.
    rewrite Hs, Hb. cbn. auto.
  - open_plain E w0.
    match goal with Hd : set_claim_start_round _ _ _ = Ok _ |- _ => apply gate_set_claim in Hd; destruct Hd as (_ & _ & _ & Hs & _ & Hb) end.
    rewrite Hs, Hb. cbn. auto.
  - open_plain E w0.
    match goal with Hd : set_support_address _ _ _ = Ok _ |- _ => unfold set_support_address in Hd; mon_inv end.
    rewrite st_set_st, bal_set_st. cbn. auto.
  - open_plain E w0.
    match goal with Hd : blacklist_endpoint _ _ _ _ _ = Ok _ |- _ => unfold blacklist_endpoint in Hd; cbn [has_nft] in Hd; mon_inv end.
    match goal with Hd : add_users_to_blacklist _ _ _ = Ok _ |- _ => unfold add_users_to_blacklist in Hd; mon_inv end.
    match goal with Hd : blacklist_loop _ _ _ = Ok _ |- _ =>
      destruct (blacklist_loop_zero _ _ _ _ (Hz : forall a, confirmed (st w0) a = 0) Hd) as (Hb & Hc2 & Hl2) end.
    rewrite Hb, Hc2, Hl2. auto.
  - open_plain E w0.
    match goal with Hd : set_launchpad_tokens_per_winning_ticket _ _ _ = Ok _ |- _ =>
      unfold set_launchpad_tokens_per_winning_ticket, try_set_tpt in Hd; mon_inv end.
    rewrite st_set_st, bal_set_st. cbn. auto.
Qed.

Theorem PreA_exec e b sd w l c w' r :
  PreA w l -> setup_callA c -> pay_wf (pay e) -> caller e <> sc_addr ->
  exec H Base e b sd w c = Ok (w', r) -> exists l', PreA w' l'.
Proof.
  intros [Hpre Hz Hclean Hlp] Hc Hwf Hcs E.
  destruct (callA_setup c Hc) as [(tok & amt & ->) | Hsc].
  - (* the price *)
    set (w0 := w <| evs := [] |> <| rlog := [] |> <| locks := [] |> <| seeds := sd |>).
    open_plain E w0.
    match goal with Hd : set_ticket_price _ _ _ _ = Ok _ |- _ =>
      unfold set_ticket_price, try_set_ticket_price in Hd; mon_inv end.
    match goal with Hx : (if negb (tok =? egld) then _ else _) = Ok _ |- _ => rename Hx into Hif end.
    assert (Htok : tok <> lp_token (st w)).
    { destruct (N.eqb_spec tok egld) as [->|Hne]; [intros Heq; apply Hlp; symmetry; exact Heq|].
      cbn in Hif. apply require_ok' in Hif. apply negb_true_iff in Hif. apply N.eqb_neq in Hif. intros Heq. apply Hif. symmetry. exact Heq. }
    exists l.
    destruct Hpre as [[Hop Hch Hown Hnd Hcf Hfresh Hpay Hnone] Htk Hknown].
    constructor; [constructor; [constructor|..]|..]; rewrite ?st_emit, ?st_set_st; cbn; auto.
    + eapply chain_neutral; [|exact Hch]. reflexivity.
    + eapply owned_other; [exact Hown|]. intros; reflexivity.
    + destruct Hpay as [Pn Ps Psc Pb]. constructor; auto.
      rewrite bal_emit, bal_set_st, st_emit, st_set_st. cbn.
      rewrite (Hclean tok 0) by (intros Hx; inversion Hx; contradiction).
      unfold paysum. cbn. clear - Hz. induction (map fst l) as [|x xs IH]; [cbn; lia|].
      cbn [map]. rewrite sumN_cons, Hz. cbn [N.add]. exact IH.
  - assert (Hnc : forall n, c <> CConfirm n) by (intros n ->; inversion Hc).
    destruct (Pre_exec H e b sd w l c w' r Hpre Hsc Hwf Hcs E) as [l' Hp'].
    destruct (exec_effects e b sd w c w' r Hz Hsc Hnc Hwf Hcs E) as (Hc' & Hl' & Hb').
    exists l'. constructor; auto.
    + intros a. rewrite Hc'. apply Hz.
    + intros t k Htk. rewrite Hl' in Htk. rewrite (Hb' t k Htk). apply Hclean. exact Htk.
    + rewrite Hl'. exact Hlp.
Qed.

(** set-up histories whose prefix before the first confirmation may change the price *)
Inductive setup_reachA : world -> Prop :=
| sra_deploy e lp tpt0 ptok price0 nrw conf ws claim x s :
    deploy Base e lp tpt0 ptok price0 nrw conf ws claim x = Ok s -> lp <> egld -> setup_reachA (world0 s)
| sra_step w e b sd c w' r :
    setup_reachA w -> setup_callA c -> pay_wf (pay e) -> caller e <> sc_addr ->
    exec H Base e b sd w c = Ok (w', r) -> setup_reachA w'.

Lemma deploy_PreA e lp tpt0 ptok price0 nrw conf ws claim x s :
  deploy Base e lp tpt0 ptok price0 nrw conf ws claim x = Ok s -> lp <> egld -> PreA (world0 s) [].
Proof.
  intros E Hlp. pose proof (deploy_Pre Base e lp tpt0 ptok price0 nrw conf ws claim x s (or_introl eq_refl) E Hlp) as Hp.
  unfold deploy in E. cbn [has_nft is_v1 has_lock has_extra negb] in E. mon_inv.
  match goal with Hi : init_base _ _ _ _ _ _ _ _ _ _ = Ok _ |- _ =>
    unfold init_base, try_set_tpt, try_set_ticket_price, try_set_nr_winning in Hi; mon_inv end.
  constructor; [exact Hp | intros a; reflexivity | | exact Hlp].
  intros t k _. cbn. unfold init_bal. replace ((1 <=? sc_addr) && (sc_addr <=? 24)) with false by (vm_compute; reflexivity). reflexivity.
Qed.

Theorem setup_reachA_PreA w : setup_reachA w -> exists l, PreA w l.
Proof.
  induction 1 as [e lp tpt0 ptok price0 nrw conf ws claim x s Hd Hlp | w e b sd c w' r _ IH Hc Hwf Hcs E].
  - exists []. eapply deploy_PreA; eauto.
  - destruct IH as [l Hl]. eapply PreA_exec; eauto.
Qed.

(** a price-changing prefix followed by an ordinary set-up history *)
Inductive setup_reach2 : world -> Prop :=
| sr2_prefix w : setup_reachA w -> setup_reach2 w
| sr2_step w e b sd c w' r :
    setup_reach2 w -> setup_call c -> pay_wf (pay e) -> caller e <> sc_addr ->
    exec H Base e b sd w c = Ok (w', r) -> setup_reach2 w'.

Theorem setup_reach2_PreSel w : setup_reach2 w -> exists l, PreSel w l.
Proof.
  intros Hr. assert (Hp : exists l, Pre w l).
  { induction Hr as [w Ha | w e b sd c w' r _ IH Hc Hwf Hcs E].
    - destruct (setup_reachA_PreA w Ha) as [l [Hp _ _ _]]. eauto.
    - destruct IH as [l Hl]. eapply Pre_exec; eauto. }
  destruct Hp as [l [Hs _ _]]. eauto.
Qed.
End HPrice.
