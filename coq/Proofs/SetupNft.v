(** * From deployment to the end of the confirmation window, launchpad-with-nft: allocation, deposit,
    ticket confirmations, NFT-fee confirmations, blacklisting (ticket refunds + fee refunds), pause,
    timeline / support / tokens-per-ticket transactions keep [PreSel] (C01), the fee ledger [FeeInv]
    (C14) and an empty winners' list - the hypotheses of the three-stage pipeline of that contract.
    Assumption carried from deployment: the fee asset differs from the payment token. *)
From Coq Require Import Permutation.
From LP Require Import Proofs.Tactics Proofs.LedgerBase Proofs.Loop Proofs.Shuffle Proofs.Gates Proofs.Frames Proofs.Filter
  Proofs.Alloc Proofs.Confirm Proofs.Settle Proofs.Ledger Proofs.Stage Proofs.Resume Proofs.FisherYates Proofs.Rng
  Proofs.Nft Proofs.Resume3 Proofs.ClaimLedger Proofs.Partition Proofs.Lifecycle Proofs.Setup Proofs.SetupGt Proofs.NftLedger Proofs.Examples.
Open Scope N_scope.

Definition nside (s : state) :=
  (nft_tok s, nft_nonce s, nft_amt s, nft_payers s, nft_winners s, claimable_nft s, pay_token s, lp_token s).

Record NInv (w : world) : Prop := {
  ni_fee : FeeInv w;
  ni_win : nft_winners (st w) = [];
  ni_cn : claimable_nft (st w) = 0;
  ni_pay : (nft_tok (st w), nft_nonce (st w)) <> (pay_token (st w), 0);
  ni_lp : (nft_tok (st w), nft_nonce (st w)) <> (lp_token (st w), 0)
}.

Lemma NInv_frame w w' :
  NInv w -> nside (st w') = nside (st w) ->
  bal w' sc_addr (nft_tok (st w)) (nft_nonce (st w)) = bal w sc_addr (nft_tok (st w)) (nft_nonce (st w)) -> NInv w'.
Proof.
  intros [[Hnd Hsft Hbal] Hw Hc Hp Hl] Hn Hb. unfold nside in Hn. inversion Hn as [[E1 E2 E3 E4 E5 E6 E7 E8]].
  constructor; [constructor|..]; unfold fee_held in *; rewrite ?E1, ?E2, ?E3, ?E4, ?E5, ?E6, ?E7, ?E8; try assumption.
  rewrite Hb. exact Hbal.
Qed.

Lemma NInv_ext w w' : st w' = st w -> bal w' = bal w -> NInv w -> NInv w'.
Proof. intros Hs Hb Hi. eapply NInv_frame; [exact Hi|rewrite Hs; reflexivity|rewrite Hb; reflexivity]. Qed.

Lemma add_tickets_loop_nside : forall l s s', add_tickets_loop s l = Ok s' -> nside s' = nside s.
Proof.
  induction l as [|[buyer n] l IH]; intros s s' E; cbn [add_tickets_loop] in E; [inversion E; reflexivity|].
  apply bind_ok in E. destruct E as (u & _ & E).
  apply bind_ok in E. destruct E as (s1 & Hc & E).
  rewrite (IH _ _ E). unfold try_create_tickets in Hc. mon_inv. reflexivity.
Qed.

Lemma blacklist_loop_nside e : forall l w w',
  blacklist_loop e w l = Ok w' ->
  nside (st w') = nside (st w) /\
  forall t n, (t, n) <> (pay_token (st w), 0) -> bal w' sc_addr t n = bal w sc_addr t n.
Proof.
  induction l as [|a l IH]; intros w w' E; cbn [blacklist_loop] in E; [inversion E; auto|].
  apply bind_ok in E. destruct E as (u1 & _ & E). apply bind_ok in E. destruct E as (u2 & _ & E).
  apply bind_ok in E. destruct E as (w1 & H1 & E).
  assert (Hw1 : nside (st w1) = nside (st w) /\ forall t n, (t, n) <> (pay_token (st w), 0) -> bal w1 sc_addr t n = bal w sc_addr t n).
  { destruct (0 <? confirmed (st w) a); [|inversion H1; auto].
    apply bind_ok in H1. destruct H1 as (w2 & Hrf & H1). inversion H1; subst w1; clear H1.
    unfold refund_ticket_payment in Hrf. destruct (confirmed (st w) a =? 0); [inversion Hrf; subst; auto|].
    apply bind_ok in Hrf. destruct Hrf as (w3 & Ht & Hrf). inversion Hrf; subst w2; clear Hrf.
    apply transfer_ok in Ht. destruct Ht as [_ ->]. rewrite st_set_st, st_emit, bal_set_st, bal_emit. cbn. split; [reflexivity|].
    intros t n Hne. apply bal_after_other; intros Hx; inversion Hx; congruence. }
  destruct Hw1 as [Hl1 Hb1].
  set (w1' := set_st w1 (st w1 <| blacklisted := upd (blacklisted (st w1)) a true |>)) in *.
  destruct (IH _ _ E) as [Hl2 Hb2].
  assert (Hpt : pay_token (st w1') = pay_token (st w)).
  { change (pay_token (st w1) = pay_token (st w)). unfold nside in Hl1. inversion Hl1; auto. }
  split.
  - rewrite Hl2. change (nside (st w1) = nside (st w)). exact Hl1.
  - intros t n Hne. rewrite Hb2 by (rewrite Hpt; exact Hne). change (bal w1' ) with (bal w1). apply Hb1. exact Hne.
Qed.

Lemma refund_nft_loop_only : forall l w w', refund_nft_loop w l = Ok w' ->
  (exists p, st w' = st w <| nft_payers := p |>) /\
  forall t n, (t, n) <> (nft_tok (st w), nft_nonce (st w)) -> bal w' sc_addr t n = bal w sc_addr t n.
Proof.
  induction l as [|u l IH]; intros w w' E; cbn [refund_nft_loop] in E.
  - inversion E; subst. split; [exists (nft_payers (st w')); destruct (st w'); reflexivity|auto].
  - destruct (mem u (nft_payers (st w))); [|apply IH; exact E].
    apply bind_ok in E. destruct E as (w1 & Ht & E). apply transfer_ok in Ht. destruct Ht as [_ ->].
    destruct (IH _ _ E) as ((p & Hs) & Hb). split.
    + exists p. rewrite Hs. reflexivity.
    + intros t n Hne. rewrite Hb by exact Hne. cbn. apply bal_after_other; intros Hx; inversion Hx; congruence.
Qed.

Lemma credit_parsed_other p : pay_wf p -> forall w from w1 t n a t' n',
  from <> sc_addr -> egld_or_single_esdt p = Ok (t, n, a) ->
  credit_payment w from p = Ok w1 -> (t', n') <> (t, n) ->
  bal w1 sc_addr t' n' = bal w sc_addr t' n'.
Proof.
  intros Hwf w from w1 t n a t' n' Hne Hp Hc Hd.
  destruct Hwf as [-> | [(x & ->) | (Hnn & Hall)]].
  - cbn in Hc. inversion Hc; subst. reflexivity.
  - cbn in Hp. inversion Hp; subst. cbn in Hc. apply bind_ok in Hc. destruct Hc as (w2 & Ht & Hc). inversion Hc; subst.
    apply transfer_ok in Ht. destruct Ht as [_ ->]. cbn. apply bal_after_other; intros Hx; inversion Hx; subst; congruence.
  - unfold egld_or_single_esdt in Hp. rewrite (esdt_transfers_all p Hall) in Hp.
    destruct p as [|[[t0 n0] a0] [|y p']]; try discriminate; [contradiction|]. inversion Hp; subst.
    cbn in Hc. apply bind_ok in Hc. destruct Hc as (w2 & Ht & Hc). inversion Hc; subst.
    apply transfer_ok in Ht. destruct Ht as [_ ->]. cbn. apply bal_after_other; intros Hx; inversion Hx; subst; congruence.
Qed.

Section HSetupNft.
Variable H : list N -> list N.

Ltac open_plain E w0 :=
  unfold exec in E; cbn [payable] in E; fold w0 in E;
  apply bind_ok in E; destruct E as (?u & ?Hnp & E); apply no_payment_nil in Hnp; rewrite Hnp in E;
  cbn [credit_payment bind] in E; cbn [dispatch] in E; unfold ret0 in E; mon_inv.

Definition not_blacklist (c : call) : Prop := match c with CBlacklist _ => False | _ => True end.

Lemma exec_nft_base e b sd w c : setup_call c -> not_blacklist c -> exec H Nft e b sd w c = exec H Base e b sd w c.
Proof. intros Hc Hn. destruct Hc; try reflexivity. destruct Hn. Qed.

(** the set-up transactions shared with the plain launchpad leave the NFT side alone *)
Lemma NInv_exec_base e b sd w c w' r :
  NInv w -> setup_call c -> not_blacklist c -> pay_wf (pay e) -> caller e <> sc_addr ->
  exec H Base e b sd w c = Ok (w', r) -> NInv w'.
Proof.
  intros Hi Hc Hnb Hwf Hcs E.
  set (w0 := w <| evs := [] |> <| rlog := [] |> <| locks := [] |> <| seeds := sd |>).
  assert (Hi0 : NInv w0) by (eapply NInv_ext; [| |exact Hi]; reflexivity).
  destruct Hc as [la Hpos Hsc | | n | | | r0 | r0 | r0 | a | la Hsc | a]; [| | | | | | | | |destruct Hnb|].
  - open_plain E w0.
    match goal with Hd : add_tickets _ _ _ = Ok _ |- _ => unfold add_tickets in Hd; mon_inv end.
    match goal with Hd : add_tickets_loop _ _ = Ok _ |- _ => apply add_tickets_loop_nside in Hd; rename Hd into Hl end.
    eapply NInv_frame; [exact Hi0|rewrite st_set_st; exact Hl|reflexivity].
  - (* deposit *)
    unfold exec in E. cbn [payable] in E. fold w0 in E. cbn [bind] in E.
    apply bind_ok in E. destruct E as (w1 & Hcr & E).
    cbn [dispatch] in E. unfold ret0 in E. mon_inv.
    match goal with Hd : deposit_launchpad_tokens _ _ _ = Ok _ |- _ => apply (deposit_iff _ _ _ _ Hwf) in Hd; destruct Hd as (Hnd & Hp & Hlp & ->) end.
    pose proof (credit_payment_st _ _ _ _ Hcr) as Hs1. rewrite Hs1 in *.
    rewrite Hp in Hcr. apply credit_single in Hcr. apply transfer_ok in Hcr. destruct Hcr as [_ Hw1].
    eapply NInv_frame; [exact Hi0|rewrite st_set_st; reflexivity|].
    rewrite bal_set_st, Hw1. cbn. pose proof (ni_lp _ Hi0) as Hne. cbn in Hne.
    apply bal_after_other; intros Hx; inversion Hx; subst; congruence.
  - (* confirmation *)
    apply (exec_confirm_iff H Base e b sd w n w' r Hwf) in E. destruct E as (w1 & Hcr & Hcond & -> & _).
    pose proof (credit_payment_st _ _ _ _ Hcr) as Hs1. unfold reset_outputs in Hs1. cbn in Hs1.
    destruct Hcond as (_ & _ & _ & _ & _ & _ & Hpay).
    assert (Hb1 : bal w1 sc_addr (nft_tok (st w)) (nft_nonce (st w)) = bal w sc_addr (nft_tok (st w)) (nft_nonce (st w))).
    { change (bal w) with (bal (reset_outputs w sd)).
      destruct Hpay as [Hp|(Hp & _)]; rewrite Hp in Hcr.
      - apply credit_single in Hcr. apply transfer_ok in Hcr. destruct Hcr as [_ ->]. cbn.
        pose proof (ni_pay _ Hi) as Hne. apply bal_after_other; intros Hx; inversion Hx; subst; congruence.
      - cbn in Hcr. inversion Hcr; reflexivity. }
    eapply NInv_frame; [exact Hi|..]; unfold confirm_effect; rewrite ?st_emit, ?st_set_st, ?bal_emit, ?bal_set_st, ?Hs1; [reflexivity|exact Hb1].
  - open_plain E w0.
    match goal with Hd : pause_endpoint _ _ = Ok _ |- _ => apply gate_pause in Hd; destruct Hd as (_ & Hs & Hb) end.
    eapply NInv_frame; [exact Hi0|..]; rewrite ?Hs, ?Hb; reflexivity.
  - open_plain E w0.
    match goal with Hd : unpause_endpoint _ _ = Ok _ |- _ => apply gate_unpause in Hd; destruct Hd as (_ & Hs & Hb) end.
    eapply NInv_frame; [exact Hi0|..]; rewrite ?Hs, ?Hb; reflexivity.
  - open_plain E w0.
    match goal with Hd : set_confirmation_period_start_round _ _ _ = Ok _ |- _ => apply gate_set_conf in Hd; destruct Hd as (_ & _ & _ & Hs & _ & Hb) end.
    eapply NInv_frame; [exact Hi0|..]; rewrite ?Hs, ?Hb; reflexivity.
  - open_plain E w0.
    match goal with Hd : set_winner_selection_start_round _ _ _ = Ok _ |- _ => apply gate_set_ws in Hd; destruct Hd as (_ & _ & _ & Hs & _ & Hb) end.
    eapply NInv_frame; [exact Hi0|..]; rewrite ?Hs, ?Hb; reflexivity.
  - open_plain E w0.
    match goal with Hd : set_claim_start_round _ _ _ = Ok _ |- _ => apply gate_set_claim in Hd; destruct Hd as (_ & _ & _ & Hs & _ & Hb) end.
    eapply NInv_frame; [exact Hi0|..]; rewrite ?Hs, ?Hb; reflexivity.
  - open_plain E w0.
    match goal with Hd : set_support_address _ _ _ = Ok _ |- _ => unfold set_support_address in Hd; mon_inv end.
    eapply NInv_frame; [exact Hi0|..]; rewrite ?st_set_st, ?bal_set_st; reflexivity.
  - open_plain E w0.
    match goal with Hd : set_launchpad_tokens_per_winning_ticket _ _ _ = Ok _ |- _ =>
      unfold set_launchpad_tokens_per_winning_ticket, try_set_tpt in Hd; mon_inv end.
    eapply NInv_frame; [exact Hi0|..]; rewrite ?st_set_st, ?bal_set_st; reflexivity.
Qed.

(** ** the transactions specific to the NFT contract *)
Theorem PreN_blacklist e b sd w l la w' r :
  Pre w l -> NInv w -> ~ In sc_addr la -> caller e <> sc_addr ->
  exec H Nft e b sd w (CBlacklist la) = Ok (w', r) -> Pre w' l /\ NInv w'.
Proof.
  intros Hp Hi Hsc Hcs E.
  set (w0 := w <| evs := [] |> <| rlog := [] |> <| locks := [] |> <| seeds := sd |>).
  assert (Hp0 : Pre w0 l) by (eapply Pre_ext; [| |exact Hp]; reflexivity).
  assert (Hi0 : NInv w0) by (eapply NInv_ext; [| |exact Hi]; reflexivity).
  unfold exec in E. cbn [payable] in E. fold w0 in E.
  apply bind_ok in E. destruct E as (u & Hnp & E). apply no_payment_nil in Hnp. rewrite Hnp in E. cbn [credit_payment bind] in E.
  cbn [dispatch] in E. unfold ret0, blacklist_endpoint in E. cbn [has_nft] in E. mon_inv.
  match goal with Hd : add_users_to_blacklist _ _ _ = Ok ?wx |- _ => unfold add_users_to_blacklist in Hd; mon_inv; rename wx into w1 end.
  match goal with Hd : blacklist_loop _ _ _ = Ok _ |- _ => rename Hd into Hbl end.
  match goal with Hd : refund_nft_loop _ _ = Ok _ |- _ => rename Hd into Hrf end.
  pose proof (Pre_blacklist_loop e la w0 l w1 Hp0 Hsc Hbl) as Hp1.
  destruct (blacklist_loop_nside e la w0 w1 Hbl) as [Hn1 Hb1].
  assert (Hi1 : NInv w1).
  { eapply NInv_frame; [exact Hi0|exact Hn1|]. apply Hb1. exact (ni_pay _ Hi0). }
  destruct (refund_nft_loop_only _ _ _ Hrf) as ((p & Hs2) & Hb2).
  split.
  - eapply Pre_neutral_gen; [| |exact Hp1].
    + rewrite Hs2. unfold neutral. cbn. repeat split.
    + apply Hb2. intros Hx. apply (ni_pay _ Hi1). symmetry. exact Hx.
  - destruct (FeeInv_refund la w1 w' (ni_fee _ Hi1) Hsc Hrf) as [Hf Hc].
    constructor; [exact Hf|rewrite Hs2; cbn; exact (ni_win _ Hi1)|rewrite Hc; exact (ni_cn _ Hi1)|rewrite Hs2; cbn; exact (ni_pay _ Hi1)|rewrite Hs2; cbn; exact (ni_lp _ Hi1)].
Qed.

Theorem PreN_confirm_nft v e b sd w l w' r :
  Pre w l -> NInv w -> pay_wf (pay e) -> caller e <> sc_addr ->
  exec H v e b sd w CConfirmNft = Ok (w', r) ->
  Pre w' l /\ NInv w' /\ gt_users (st w') = gt_users (st w).
Proof.
  intros Hp Hi Hwf Hcs E.
  destruct (FeeInv_confirm_nft H v e b sd w w' r Hwf Hcs (ni_fee _ Hi) E) as (Hf & Hpay & Hcn).
  unfold exec in E. cbn [payable bind] in E.
  apply bind_ok in E. destruct E as (w1 & Hcr & E). cbn [dispatch] in E.
  destruct (has_nft v); [|discriminate]. unfold ret0 in E. mon_inv.
  match goal with Hd : confirm_nft _ _ = Ok _ |- _ => apply confirm_nft_spec in Hd;
    destruct Hd as (_ & _ & _ & Hm & Hpp & Hs & Hb & _) end.
  destruct (credit_parsed (pay e) Hwf _ _ _ _ _ _ Hcs Hpp Hcr) as [Hs1 Hb1]. cbn in Hs1.
  (* the payment token balance is not touched by crediting the fee *)
  assert (Hbp : bal w1 sc_addr (pay_token (st w)) 0 = bal w sc_addr (pay_token (st w)) 0).
  { change (bal w) with (bal (reset_outputs w sd)).
    eapply (credit_parsed_other (pay e) Hwf); [exact Hcs|exact Hpp|exact Hcr|].
    rewrite Hs1. cbn. intros Hx. apply (ni_pay _ Hi). symmetry. exact Hx. }
  split.
  - eapply Pre_neutral_gen; [| |exact Hp].
    + rewrite Hs, Hs1. unfold neutral. cbn. repeat split.
    + rewrite Hb. exact Hbp.
  - split; [|rewrite Hs, Hs1; reflexivity].
    constructor; [exact Hf|rewrite Hs, Hs1; cbn; exact (ni_win _ Hi)|rewrite Hcn; exact (ni_cn _ Hi)
                 |rewrite Hs, Hs1; cbn; exact (ni_pay _ Hi)|rewrite Hs, Hs1; cbn; exact (ni_lp _ Hi)].
Qed.

Theorem PreN_sft_setup v e b sd w l w' r :
  Pre w l -> NInv w -> exec H v e b sd w CSftSetup = Ok (w', r) ->
  Pre w' l /\ NInv w' /\ gt_users (st w') = gt_users (st w).
Proof.
  intros Hp Hi E.
  set (w0 := w <| evs := [] |> <| rlog := [] |> <| locks := [] |> <| seeds := sd |>).
  assert (Hp0 : Pre w0 l) by (eapply Pre_ext; [| |exact Hp]; reflexivity).
  assert (Hi0 : NInv w0) by (eapply NInv_ext; [| |exact Hi]; reflexivity).
  unfold exec in E. fold w0 in E.
  cbn [dispatch] in E. inversion E; subst w' r; clear E.
  assert (Hb : forall t n, t <> sft_token \/ n = 0 ->
     upd_bal (upd_bal (upd_bal (bal w0) sc_addr sft_token 1 1) sc_addr sft_token 2 1) sc_addr sft_token 3 1 sc_addr t n = bal w0 sc_addr t n).
  { intros t n Hd. rewrite !upd_bal_other; [reflexivity|..]; intros Hx; inversion Hx; subst; destruct Hd as [Hd|Hd]; congruence. }
  split.
  - eapply Pre_neutral_gen; [| |exact Hp0]; cbn.
    + unfold neutral. cbn. repeat split.
    + apply Hb. right. reflexivity.
  - split; [|reflexivity]. eapply NInv_frame; [exact Hi0|reflexivity|]. cbn. apply Hb. left. exact (fi_sft _ (ni_fee _ Hi0)).
Qed.
End HSetupNft.

(** ** deployment and reachability *)
Lemma deploy_PreN e lp tpt0 ptok price0 nrw conf ws claim x s :
  deploy Nft e lp tpt0 ptok price0 nrw conf ws claim x = Ok s -> lp <> egld ->
  d_nft_tok x <> sft_token -> (d_nft_tok x, d_nft_nonce x) <> (ptok, 0) ->
  Pre (world0 s) [] /\ NInv (world0 s).
Proof.
  intros E Hlp Hsft Hpay. unfold deploy in E. cbn [has_nft is_v1 has_lock has_extra negb] in E. mon_inv.
  match goal with Hinit : init_base _ _ _ _ _ _ _ _ _ _ = Ok ?s0 |- _ =>
    destruct (init_base_Pre _ _ _ _ _ _ _ _ _ _ _ Hinit Hlp) as [Hp0 _]; rename s0 into sb; rename Hinit into Hib end.
  match goal with Hn : try_set_nft_cost _ _ _ _ = Ok _ |- _ => unfold try_set_nft_cost in Hn; mon_inv end.
  assert (Hfields : pay_token sb = ptok /\ lp_token sb = lp /\ nft_payers sb = [] /\ nft_winners sb = [] /\ claimable_nft sb = 0).
  { unfold init_base, try_set_tpt, try_set_ticket_price, try_set_nr_winning in Hib. mon_inv. cbn. repeat split; reflexivity. }
  destruct Hfields as (Hpt & Hlpt & Hpy & Hwn & Hcn).
  split.
  - eapply (Pre_neutral (world0 sb)); [|reflexivity|exact Hp0]. unfold neutral. cbn. repeat split.
  - assert (Hz : forall t n, init_bal sc_addr t n = 0).
    { intros t n. unfold init_bal. replace ((1 <=? sc_addr) && (sc_addr <=? 24)) with false by (vm_compute; reflexivity). reflexivity. }
    constructor; [constructor|..]; unfold fee_held; cbn; rewrite ?Hpy, ?Hwn, ?Hcn, ?Hpt, ?Hlpt; try reflexivity; try assumption.
    + constructor.
    + rewrite Hz. cbn. lia.
    + intros Hx. inversion Hx; subst.
      match goal with Hq : (if negb (d_nft_tok x =? egld) then _ else _) = Ok _ |- _ => rename Hq into Hne end.
      destruct (N.eqb_spec (d_nft_tok x) egld) as [Heq|Hneq]; [congruence|].
      cbn in Hne. apply require_ok' in Hne. apply negb_true_iff in Hne. apply N.eqb_neq in Hne. congruence.
Qed.

Section HReachNft.
Variable H : list N -> list N.

Inductive setup_reach_nft : world -> Prop :=
| sn_deploy e lp tpt0 ptok price0 nrw conf ws claim x s :
    deploy Nft e lp tpt0 ptok price0 nrw conf ws claim x = Ok s -> lp <> egld ->
    d_nft_tok x <> sft_token -> (d_nft_tok x, d_nft_nonce x) <> (ptok, 0) -> setup_reach_nft (world0 s)
| sn_step w e b sd c w' r :
    setup_reach_nft w -> setup_call c -> pay_wf (pay e) -> caller e <> sc_addr ->
    exec H Nft e b sd w c = Ok (w', r) -> setup_reach_nft w'
| sn_confirm_nft w e b sd w' r :
    setup_reach_nft w -> pay_wf (pay e) -> caller e <> sc_addr ->
    exec H Nft e b sd w CConfirmNft = Ok (w', r) -> setup_reach_nft w'
| sn_sft w e b sd w' r :
    setup_reach_nft w -> exec H Nft e b sd w CSftSetup = Ok (w', r) -> setup_reach_nft w'.

Theorem setup_reach_nft_PreN w : setup_reach_nft w -> exists l, Pre w l /\ NInv w.
Proof.
  induction 1 as [e lp tpt0 ptok price0 nrw conf ws claim x s Hd Hlp Hsft Hpay
                 | w e b sd c w' r _ IH Hc Hwf Hcs E
                 | w e b sd w' r _ IH Hwf Hcs E
                 | w e b sd w' r _ IH E].
  - exists []. eapply deploy_PreN; eauto.
  - destruct IH as (l & Hp & Hi).
    assert (Hbl : not_blacklist c \/ exists la, c = CBlacklist la /\ ~ In sc_addr la).
    { destruct Hc; try (left; exact I). right. eexists. split; [reflexivity|assumption]. }
    destruct Hbl as [Hnb|(la & -> & Hsc)].
    + rewrite (exec_nft_base H e b sd w c Hc Hnb) in E.
      destruct (Pre_exec H e b sd w l c w' r Hp Hc Hwf Hcs E) as [l' Hp'].
      exists l'. split; [exact Hp'|]. eapply NInv_exec_base; eauto.
    + exists l. eapply PreN_blacklist; eauto.
  - destruct IH as (l & Hp & Hi). exists l. destruct (PreN_confirm_nft H Nft e b sd w l w' r Hp Hi Hwf Hcs E) as (A & B & _). auto.
  - destruct IH as (l & Hp & Hi). exists l. destruct (PreN_sft_setup H Nft e b sd w l w' r Hp Hi E) as (A & B & _). auto.
Qed.

(** from deployment through the three stages of launchpad-with-nft *)
Theorem deployed_pipeline_nft w0 lf wf ef bf w1 ls ws es bs w2 sd rest ln wn en bn w3 :
  setup_reach_nft w0 ->
  after_interrupted filter_tickets lf w0 = Some wf -> filter_tickets ef bf wf = Ok (w1, 0) ->
  seeds w1 = sd :: rest ->
  after_interrupted (select_winners H) ls w1 = Some ws -> select_winners H es bs ws = Ok (w2, 0) ->
  after_interrupted (select_nft_winners_endpoint H) ln w2 = Some wn ->
  select_nft_winners_endpoint H en bn wn = Ok (w3, 0) ->
  exists l : list (N * N),
    ClaimInv w3 (map fst l) /\ status (st w3) = status (st w2) /\ nr_winning (st w3) = nr_winning (st w2).
Proof.
  intros Hr Haf Ef Hs Has Es Han En.
  destruct (setup_reach_nft_PreN w0 Hr) as (l & [Hsel _ _] & Hi). exists l.
  eapply (pipeline_nft H l w0 lf wf ef bf w1 ls ws es bs w2 sd rest ln wn en bn w3); eauto.
  unfold nft_disjoint. rewrite (ni_win _ Hi), app_nil_r. exact (fi_nodup _ (ni_fee _ Hi)).
Qed.
End HReachNft.

(** ** non-vacuity: a concrete launchpad-with-nft set-up history (fee: 7 units of token 2; two
    participants pay it, one of them is blacklisted afterwards and gets ticket payment and fee back) *)
Definition xn : deploy_extra := {| d_min_conf := 1; d_lock_pct := 0; d_unlock_epoch := 0; d_lock_addr := 0;
  d_nft_tok := 2; d_nft_nonce := 0; d_nft_amt := 7; d_total_nfts := 1 |}.
Definition nft_0 : world :=
  match deploy Nft (mkenv 1 0 0 []) 1 100 0 1000 2 10 20 30 xn with Ok s => world0 s | Err _ => world0 state0 end.
Definition nft_history : list (env * nat * list (list N) * call) :=
    [ (mkenv 1 1 0 [], 100%nat, [], CAddTickets [(2, 3); (3, 2)]);
      (mkenv 1 2 0 [(1, 0, 200)], 100%nat, [], CDeposit);
      (mkenv 1 3 0 [], 100%nat, [], CSftSetup);
      (mkenv 2 10 0 [(0, 0, 3000)], 100%nat, [], CConfirm 3);
      (mkenv 3 11 0 [(0, 0, 1000)], 100%nat, [], CConfirm 1);
      (mkenv 2 12 0 [(2, 0, 7)], 100%nat, [], CConfirmNft);
      (mkenv 3 12 0 [(2, 0, 7)], 100%nat, [], CConfirmNft);
      (mkenv 1 13 0 [], 100%nat, [], CBlacklist [3]) ].
Definition nft_confirmed : world := run_sha Nft nft_0 nft_history.

Lemma step_nft w e b sd c :
  setup_reach_nft sha256 w -> setup_call c -> pay_wf (pay e) -> caller e <> sc_addr ->
  (exists w' r, exec sha256 Nft e b sd w c = Ok (w', r)) ->
  setup_reach_nft sha256 (step_sha Nft w (e, b, sd, c)).
Proof. intros Hr Hc Hwf Hcs (w' & r & E). unfold step_sha, exec_sha. rewrite E. eapply sn_step; eauto. Qed.
Lemma step_nft_fee w e b sd :
  setup_reach_nft sha256 w -> pay_wf (pay e) -> caller e <> sc_addr ->
  (exists w' r, exec sha256 Nft e b sd w CConfirmNft = Ok (w', r)) ->
  setup_reach_nft sha256 (step_sha Nft w (e, b, sd, CConfirmNft)).
Proof. intros Hr Hwf Hcs (w' & r & E). unfold step_sha, exec_sha. rewrite E. eapply sn_confirm_nft; eauto. Qed.
Lemma step_nft_sft w e b sd :
  setup_reach_nft sha256 w ->
  (exists w' r, exec sha256 Nft e b sd w CSftSetup = Ok (w', r)) ->
  setup_reach_nft sha256 (step_sha Nft w (e, b, sd, CSftSetup)).
Proof. intros Hr (w' & r & E). unfold step_sha, exec_sha. rewrite E. eapply sn_sft; eauto. Qed.

Example nft_confirmed_reachable :
  setup_reach_nft sha256 nft_confirmed /\
  (nft_payers (st nft_confirmed), confirmed (st nft_confirmed) 2, confirmed (st nft_confirmed) 3,
   bal nft_confirmed sc_addr 2 0, bal nft_confirmed sc_addr 0 0) = ([2], 3, 0, 7, 3000).
Proof.
  split; [|vm_compute; reflexivity].
  unfold nft_confirmed, nft_history, run_sha. cbn [fold_left].
  assert (H0 : setup_reach_nft sha256 nft_0).
  { unfold nft_0. destruct (deploy Nft (mkenv 1 0 0 []) 1 100 0 1000 2 10 20 30 xn) as [s|k] eqn:Ed; [|vm_compute in Ed; discriminate].
    eapply sn_deploy; [exact Ed|vm_compute; discriminate..]. }
  apply step_nft; [|apply sc_blacklist; vm_compute; intros [Hx|Hx]; [discriminate Hx|exact Hx]|left; reflexivity|vm_compute; discriminate|eexists _, _; vm_compute; reflexivity].
  apply step_nft_fee; [|right; right; split; [discriminate|repeat constructor; cbn; discriminate]|vm_compute; discriminate|eexists _, _; vm_compute; reflexivity].
  apply step_nft_fee; [|right; right; split; [discriminate|repeat constructor; cbn; discriminate]|vm_compute; discriminate|eexists _, _; vm_compute; reflexivity].
  apply step_nft; [|apply sc_confirm|right; left; eexists; reflexivity|vm_compute; discriminate|eexists _, _; vm_compute; reflexivity].
  apply step_nft; [|apply sc_confirm|right; left; eexists; reflexivity|vm_compute; discriminate|eexists _, _; vm_compute; reflexivity].
  apply step_nft_sft; [|eexists _, _; vm_compute; reflexivity].
  apply step_nft; [|apply sc_deposit|right; right; split; [discriminate|repeat constructor; cbn; discriminate]|vm_compute; discriminate|eexists _, _; vm_compute; reflexivity].
  apply step_nft; [|apply sc_add; [repeat constructor|vm_compute; intros [Hx|[Hx|Hx]]; try discriminate Hx; exact Hx]|left; reflexivity|vm_compute; discriminate|eexists _, _; vm_compute; reflexivity].
  exact H0.
Qed.
