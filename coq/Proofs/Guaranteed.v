(** * C11: the guaranteed-ticket top-up marks only the holder's own tickets and reaches
    min(qualified, confirmed) winners. *)
From LP Require Import Proofs.Tactics Proofs.Loop Proofs.Shuffle Proofs.Frames.
Open Scope N_scope.

(** ** the top-up walk over the holder's range *)
Lemma count_winning_cons s t ids :
  count_winning s (t :: ids) = (if status s t then 1 else 0) + count_winning s ids.
Proof. unfold count_winning. cbn [filter]. destruct (status s t); cbn [length]; lia. Qed.
Lemma count_winning_nil s : count_winning s [] = 0.
Proof. reflexivity. Qed.

Lemma count_winning_le_length s ids : count_winning s ids <= N.of_nat (length ids).
Proof.
  unfold count_winning. induction ids as [|x ids IH]; cbn [filter length]; [lia|].
  destruct (status s x); cbn [length]; lia.
Qed.

Lemma count_winning_upd_notin s t ids :
  ~ In t ids -> count_winning (s <| status := upd (status s) t true |>) ids = count_winning s ids.
Proof.
  induction ids as [|x ids IH]; intros Hn; [reflexivity|].
  rewrite !count_winning_cons.
  change (status (s <| status := upd (status s) t true |>) x) with (upd (status s) t true x).
  rewrite upd_other by (intros ->; apply Hn; now left).
  rewrite IH by (intros Hi; apply Hn; now right). reflexivity.
Qed.

Theorem topup_v2_spec : forall ids s rem added s' rem' added',
  NoDup ids ->
  topup_v2 ids s rem added = (s', rem', added') ->
  rem' <= rem /\ added' = added + (rem - rem') /\
  count_winning s' ids = count_winning s ids + (rem - rem') /\
  (forall t, status s t = true -> status s' t = true) /\
  (forall t, ~ In t ids -> status s' t = status s t) /\
  (rem' = 0 \/ count_winning s' ids = N.of_nat (length ids)) /\
  range s' = range s /\ confirmed s' = confirmed s /\ uts s' = uts s /\ gt_users s' = gt_users s /\
  pos2id s' = pos2id s /\ nr_winning s' = nr_winning s /\ last_ticket_id s' = last_ticket_id s.
Proof.
  induction ids as [|t ids IH]; intros s rem added s' rem' added' Hnd E; cbn [topup_v2] in E.
  - inversion E; subst. rewrite count_winning_nil. repeat split; auto; try lia.
  - inversion Hnd as [|? ? Hnotin Hnd']; subst.
    destruct (N.eqb_spec rem 0) as [->|Hrem].
    { inversion E; subst. repeat split; auto; try lia. }
    pose proof (count_winning_cons s t ids) as Hc0.
    pose proof (count_winning_cons s' t ids) as Hc1.
    destruct (status s t) eqn:Hst.
    + destruct (IH _ _ _ _ _ _ Hnd' E) as (A & B & C & D & F & G & Rest).
      rewrite (D t Hst) in Hc1.
      split; [assumption|]. split; [assumption|]. split; [lia|]. split; [assumption|].
      split; [intros x Hx; apply F; intros Hi; apply Hx; now right|].
      split; [|exact Rest].
      destruct G as [G|G]; [left; assumption|right]. cbn [length]. lia.
    + destruct (IH _ _ _ _ _ _ Hnd' E) as (A & B & C & D & F & G & Rest). cbn in Rest.
      assert (Ht' : status s' t = true) by (apply D; cbn; apply upd_same).
      rewrite Ht' in Hc1. rewrite count_winning_upd_notin in C by assumption.
      split; [lia|]. split; [lia|]. split; [lia|].
      split.
      { intros x Hx. apply D. cbn. unfold upd. destruct (x =? t); auto. }
      split.
      { intros x Hx. rewrite F by (intros Hi; apply Hx; now right). cbn. apply upd_other.
        intros ->. apply Hx. now left. }
      split; [|exact Rest].
      destruct G as [G|G]; [left; assumption|right]. cbn [length]. lia.
Qed.

(** ** qualification (v2): guaranteed = min(sum of the guarantees whose threshold is met, confirmed) *)
Definition qualified_v2 (infos : list (N * N)) (c : N) : N :=
  sumN (map fst (filter (fun i => snd i <=? c) infos)).

Lemma calc_v2_spec infos c :
  fst (calc_v2 infos c) = N.min (qualified_v2 infos c) c /\
  fst (calc_v2 infos c) + snd (calc_v2 infos c) = sumN (map fst infos).
Proof.
  unfold calc_v2, qualified_v2.
  assert (Hsplit : forall l : list (N * N),
            sumN (map fst (filter (fun i => snd i <=? c) l)) + sumN (map fst (filter (fun i => negb (snd i <=? c)) l))
            = sumN (map fst l)).
  { induction l as [|[g m] l IH]; [reflexivity|]. cbn [filter snd]. destruct (m <=? c); cbn [negb map fst];
      rewrite !sumN_cons; lia. }
  specialize (Hsplit infos).
  destruct (N.ltb_spec c (sumN (map fst (filter (fun i => snd i <=? c) infos)))); cbn [fst snd]; split; lia.
Qed.

(** one participant of the v2 distribution: afterwards the participant holds at least
    min(qualified, confirmed) winning tickets in its own range (when the range holds all confirmed
    tickets, as after the filter); only tickets of that range are marked; reserved tickets are
    conserved: used + handed to the leftover pool = total guarantees of the participant *)
Theorem gt_user_step_v2_spec s o u s' o' us f la :
  gt_user_step_v2 s o u = (s', o') ->
  uts s u = Some us -> range s u = Some (f, la) ->
  confirmed s u <= N.of_nat (length (range_ids f la)) ->
  let need := N.min (qualified_v2 (us_infos us) (confirmed s u)) (confirmed s u) in
  need <= count_winning s' (range_ids f la) /\
  (forall t, status s t = true -> status s' t = true) /\
  (forall t, ~ In t (range_ids f la) -> status s' t = status s t) /\
  (g_additional o' - g_additional o) + (g_leftover o' - g_leftover o) = sumN (map fst (us_infos us)) /\
  g_additional o <= g_additional o' /\ g_leftover o <= g_leftover o' /\
  count_winning s' (range_ids f la) = count_winning s (range_ids f la) + (g_additional o' - g_additional o) /\
  range s' = range s /\ confirmed s' = confirmed s /\ g_rng o' = g_rng o /\ g_offset o' = g_offset o.
Proof.
  intros E Hu Hr Hsize. cbn zeta. unfold gt_user_step_v2 in E. rewrite Hu, Hr in E.
  destruct (calc_v2_spec (us_infos us) (confirmed s u)) as [Hg Hsum].
  destruct (calc_v2 (us_infos us) (confirmed s u)) as [g l] eqn:Ec. cbn [fst snd] in Hg, Hsum.
  rewrite <- Hg.
  destruct (N.ltb_spec 0 g) as [Hgp|Hgz].
  - unfold winning_tickets_in_range in E.
    destruct (N.ltb_spec (count_winning s (range_ids f la)) g) as [Hlt|Hge].
    + destruct (topup_v2 (range_ids f la) s (g - count_winning s (range_ids f la)) 0) as [[s2 rem] added] eqn:Et.
      inversion E; subst s' o'; clear E.
      destruct (topup_v2_spec _ _ _ _ _ _ _ (range_ids_NoDup f la) Et) as (A & B & C & D & F & G & Rr & Rc & _).
      cbn.
      assert (Hrem0 : rem = 0).
      { destruct G as [G|G]; [assumption|]. rewrite G in C.
        pose proof (N.le_min_r (qualified_v2 (us_infos us) (confirmed s u)) (confirmed s u)). lia. }
      subst rem. repeat split; auto; try lia.
    + inversion E; subst s' o'; clear E. cbn. repeat split; auto; lia.
  - inversion E; subst s' o'; clear E. cbn. assert (g = 0) by lia. subst g. repeat split; auto; lia.
Qed.

(** ** nothing is ever un-marked during the distribution step *)
Lemma gt_user_step_status_mono (v2 : bool) s o u (s' : state) (o' : gtop) :
  (if v2 then gt_user_step_v2 s o u else gt_user_step_v1 s o u) = (s', o') ->
  forall t, status s t = true -> status s' t = true.
Proof.
  destruct v2.
  - unfold gt_user_step_v2. intros E. break_in E; inversion E; subst; auto.
    match goal with Ht : topup_v2 _ _ _ _ = _ |- _ => apply topup_v2_spec in Ht; [|apply range_ids_NoDup] end.
    tauto.
  - unfold gt_user_step_v1. intros E. break_in E; inversion E; subst; auto;
    match goal with Ht : topup_v2 _ _ _ _ = _ |- _ => apply topup_v2_spec in Ht; [|apply range_ids_NoDup] end;
    tauto.
Qed.

(** ** v1 family (after the repair of F1 the top-up is the same bounded walk) *)
Definition qualified_v1 (us : ustatus) (minc c : N) : N :=
  let n1 := if us_b us <=? c then us_mg us else 0 in
  if ((0 <? n1) && (us_a us + us_b us <=? c)) || ((n1 =? 0) && (minc <=? c)) then n1 + us_sg us else n1.

Theorem gt_user_step_v1_spec s o u s' o' us f la :
  gt_user_step_v1 s o u = (s', o') ->
  uts s u = Some us -> range s u = Some (f, la) ->
  let q := qualified_v1 us (min_conf s) (confirmed s u) in
  N.min q (N.of_nat (length (range_ids f la))) <= count_winning s' (range_ids f la) /\
  (forall t, status s t = true -> status s' t = true) /\
  (forall t, ~ In t (range_ids f la) -> status s' t = status s t) /\
  (g_additional o' - g_additional o) + (g_leftover o' - g_leftover o) = us_sg us + us_mg us /\
  g_additional o <= g_additional o' /\ g_leftover o <= g_leftover o' /\
  count_winning s' (range_ids f la) = count_winning s (range_ids f la) + (g_additional o' - g_additional o) /\
  range s' = range s /\ confirmed s' = confirmed s.
Proof.
  intros E Hu Hr. cbn zeta. unfold gt_user_step_v1 in E. rewrite Hu, Hr in E. unfold qualified_v1.
  pose proof (count_winning_le_length s (range_ids f la)) as Hcl.
  destruct (us_b us <=? confirmed s u); cbn [fst snd] in E |- *;
  match type of E with context [if ?c then _ else _] => destruct c eqn:Ec end; cbn [fst snd] in E |- *;
  match type of E with context [0 <? ?n] => destruct (N.ltb_spec 0 n) as [Hn|Hn] end;
  try (inversion E; subst s' o'; clear E; cbn; repeat split; auto; lia);
  unfold winning_tickets_in_range in E;
  match type of E with context [?n <=? count_winning s ?ids] => destruct (N.leb_spec n (count_winning s ids)) as [Hle|Hgt] end;
  try (inversion E; subst s' o'; clear E; cbn; repeat split; auto; lia);
  match type of E with context [topup_v2 ?ids s ?r 0] => destruct (topup_v2 ids s r 0) as [[s2 rem] added] eqn:Et end;
  inversion E; subst s' o'; clear E;
  destruct (topup_v2_spec _ _ _ _ _ _ _ (range_ids_NoDup f la) Et) as (A & B & C & D & F & G & Rr & Rc & _);
  cbn; repeat split; auto; try lia;
  destruct G as [G|G]; lia.
Qed.
