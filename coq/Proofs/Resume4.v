(** * C04 continued: secondarySelectionStep (ngt) - guaranteed tickets, then the NFT draw. *)
From Coq Require Import Permutation.
From LP Require Import Proofs.Tactics Proofs.Loop Proofs.Resume Proofs.Frames Proofs.Guaranteed Proofs.Nft
  Proofs.Resume2 Proofs.Resume3.
Open Scope N_scope.

Section H4.
Variable H : list N -> list N.

(** the NFT loop: interrupted then resumed = one run with the total budget *)
Lemma select_nft_winners_resume ba b2 w3 rn wx rx bx :
  nft_disjoint w3 ->
  select_nft_winners H ba w3 rn = Ok (wx, rx, false, bx) ->
  select_nft_winners H b2 wx rx = select_nft_winners H (ba + Datatypes.S b2) w3 rn /\
  tf (st wx) = tf (st w3) /\ op (st wx) = op (st w3) /\ nft_disjoint wx.
Proof.
  intros Hnd. unfold select_nft_winners. intros Hs.
  apply bind_ok in Hs. destruct Hs as ([[[[[wy ry] uy] sy] dy] by_] & Hrun & Hs).
  inversion Hs; subst wy ry dy by_; clear Hs.
  pose proof (run_interrupted_budget _ _ _ _ _ Hrun) as ->.
  set (p0 := nft_payers (st w3) ++ nft_winners (st w3)) in *.
  assert (Hi0 : NInv p0 w3 (N.of_nat (length (nft_payers (st w3)))) (N.of_nat (length (nft_winners (st w3))))).
  { constructor; [apply Permutation_refl | reflexivity | reflexivity]. }
  destruct (nft_loop_inv H _ p0 Hnd _ _ _ _ _ _ _ _ _ _ _ Hi0 Hrun) as ([Hp Hul Hsel] & Htf & Hop).
  split; [|split; [assumption|split; [assumption|]]].
  2:{ unfold nft_disjoint. eapply Permutation_NoDup; [apply Permutation_sym, Hp|exact Hnd]. }
  destruct (tf_fields _ _ Htf) as (_ & _ & _ & _ & _ & Htot).
  rewrite (run_split _ _ _ _ _ Hrun). rewrite Htot, <- Hul, <- Hsel. reflexivity.
Qed.

Lemma gt_distribution_frame v2 b w o w1 o1 d bb :
  gt_distribution H v2 b w o = Ok (w1, o1, d, bb) ->
  gt_frame (st w) (st w1) /\ bal w1 = bal w /\ evs w1 = evs w /\ seeds w1 = seeds w.
Proof.
  unfold gt_distribution. intros E.
  apply bind_ok in E. destruct E as ([[[[s1 oa] n1] d1] ba] & H1 & E).
  destruct (select_gt_loop_inv v2 _ _ _ _ _ _ _ _ _ eq_refl H1) as (Hf1 & _ & _).
  destruct d1; cbn [negb] in E.
  - apply bind_ok in E. destruct E as ([[[w2 o2] d2] b2'] & H2 & E). inversion E; subst; clear E.
    destruct (leftover_loop_gt_frame H v2 _ _ _ _ _ _ _ _ _ H2) as (Hf2 & _ & Hb2 & He2 & Hs2).
    rewrite st_set_st in Hf2. cbn in Hb2, He2, Hs2.
    split; [eapply gt_frame_trans; eauto|auto].
  - inversion E; subst. rewrite st_set_st. auto.
Qed.

Lemma gt_distribution_completed_mono v2 b w o w1 o1 bb k :
  gt_distribution H v2 b w o = Ok (w1, o1, true, bb) ->
  gt_distribution H v2 (b + k) w o = Ok (w1, o1, true, (bb + k)%nat).
Proof.
  unfold gt_distribution. intros E.
  apply bind_ok in E. destruct E as ([[[[s1 oa] n1] d1] ba] & H1 & E).
  destruct d1; cbn [negb] in E; [|inversion E].
  apply bind_ok in E. destruct E as ([[[w2 o2] d2] b2'] & H2 & E). inversion E; subst; clear E.
  rewrite (run_completed_mono _ _ _ _ _ k H1). cbn [bind negb].
  rewrite (run_completed_mono _ _ _ _ _ k H2). reflexivity.
Qed.

Definition gates (s : state) := (conf_start s, ws_start s, claim_start s, fl_selected s, fl_additional s).

Lemma gates_stage e s' s : gates s' = gates s -> get_launch_stage e s' = get_launch_stage e s.
Proof. unfold gates, get_launch_stage. intros E; inversion E. congruence. Qed.

Lemma gt_frame_gates s s' : gt_frame s s' -> gates s' = gates s.
Proof. unfold gt_frame, gates. intros (_ & Ha & Hb & Hc & Hd & He & _). congruence. Qed.

Lemma tf_gates s' s : tf s' = tf s -> gates s' = gates s.
Proof. intros E. destruct (tf_fields _ _ E) as (Ha & Hb & Hc & Hd & He & _). unfold gates. congruence. Qed.

Lemma gates_flags s' s : gates s' = gates s -> fl_selected s' = fl_selected s /\ fl_additional s' = fl_additional s.
Proof. unfold gates. intros E; inversion E. auto. Qed.

Lemma rng_default_st w r w' : rng_default w = (r, w') -> st w' = st w.
Proof. unfold rng_default. destruct (seeds w); intros E; inversion E; reflexivity. Qed.

Lemma reload_comb w x :
  op (st w) = OpNone ->
  set_st (set_st w (st w <| op := OpExtra x |>)) (st w <| op := OpExtra x |> <| op := OpNone |>) = w.
Proof. destruct w as [s ? ? ? ? ?]. destruct s; cbn; intros ->; reflexivity. Qed.

Theorem secondary_resume e1 e2 b1 b2 w w1 :
  nft_disjoint w ->
  secondary_selection_step H e1 b1 w = Ok (w1, 1) ->
  secondary_selection_step H e2 b2 w1 = secondary_selection_step H e2 (b1 + Datatypes.S b2) w /\
  nft_disjoint w1.
Proof.
  intros Hnd. unfold secondary_selection_step. intros E.
  apply bind_ok in E. destruct E as (u1 & _ & E).
  apply bind_ok in E. destruct E as (u2 & _ & E).
  apply bind_ok in E. destruct E as (u3 & _ & E).
  apply bind_ok in E. destruct E as ([cur wl] & Hl & E).
  assert (Hwl : st wl = st w).
  { destruct (op (st w)) as [| | |d]; try discriminate.
    - destruct (rng_default w) as [r w'] eqn:Er. inversion Hl; subst. eapply rng_default_st; eauto.
    - destruct d; try discriminate; inversion Hl; reflexivity. }
  apply bind_ok in E. destruct E as ([[wp orng] bp] & Hph & E).
  set (w0 := set_st wl (st wl <| op := OpNone |>)) in *.
  assert (Hg0 : gates (st w0) = gates (st w)) by (unfold w0; rewrite st_set_st; unfold gates; cbn; rewrite Hwl; reflexivity).
  assert (Hop0 : op (st w0) = OpNone) by reflexivity.
  assert (Hnd0 : nft_disjoint w0) by (unfold nft_disjoint, w0; rewrite st_set_st; cbn; rewrite Hwl; exact Hnd).
  destruct cur as [og|rr|o|r]; try discriminate.
  - (* started (or resumed) in the guaranteed-tickets sub-step *)
    apply bind_ok in Hph. destruct Hph as ([[[wa oa] da] ba] & Hd & Hph).
    destruct (gt_distribution_frame _ _ _ _ _ _ _ _ Hd) as (Hfr & _ & _ & Hsd).
    assert (Hga : gates (st wa) = gates (st w)) by (rewrite (gt_frame_gates _ _ Hfr); exact Hg0).
    assert (Hopa : op (st wa) = OpNone) by (destruct Hfr as (_&_&_&_&_&_&_&_&_&Ho&_); rewrite Ho; exact Hop0).
    assert (Hnda : nft_disjoint wa).
    { unfold nft_disjoint. destruct Hfr as (_&_&_&_&_&_&_&_&_&_&_&_&Hp&Hw&_). rewrite Hp, Hw. exact Hnd0. }
    destruct da.
    + (* guaranteed tickets completed in the interrupted call; the NFT draw was interrupted *)
      destruct (rng_default (finish_gt wa oa)) as [rn w3] eqn:Er. inversion Hph; subst wp orng bp; clear Hph.
      apply bind_ok in E. destruct E as ([[[wx rx] dx] bx] & Hs & E).
      destruct dx; inversion E; subst w1; clear E.
      assert (Hst3 : st w3 = st (finish_gt wa oa)) by (eapply rng_default_st; eauto).
      assert (Hnd3 : nft_disjoint w3) by (unfold nft_disjoint; rewrite Hst3; exact Hnda).
      destruct (select_nft_winners_resume _ b2 _ _ _ _ _ Hnd3 Hs) as (Hres & Htf & Hopx & Hndx).
      split; [|unfold nft_disjoint; rewrite st_set_st; exact Hndx].
      assert (Hgx : gates (st wx) = gates (st w)).
      { rewrite (tf_gates _ _ Htf), Hst3. unfold finish_gt. rewrite st_set_st. exact Hga. }
      assert (Hopx' : op (st wx) = OpNone).
      { rewrite Hopx, Hst3. unfold finish_gt. rewrite st_set_st. exact Hopa. }
      rewrite !st_set_st. unfold require_stage.
      rewrite (gates_stage e2 (st wx <| op := OpExtra (XCombNft rx) |>) (st w)) by (rewrite <- Hgx; reflexivity).
      change (fl_selected (st wx <| op := OpExtra (XCombNft rx) |>)) with (fl_selected (st wx)).
      change (fl_additional (st wx <| op := OpExtra (XCombNft rx) |>)) with (fl_additional (st wx)).
      destruct (gates_flags _ _ Hgx) as [-> ->].
      destruct (require (stage_eqb (get_launch_stage e2 (st w)) WinnerSelection)) as [[]|]; [|reflexivity]. cbn [bind].
      destruct (require (fl_selected (st w))) as [[]|]; [|reflexivity]. cbn [bind].
      destruct (require (negb (fl_additional (st w)))) as [[]|]; [|reflexivity]. cbn [bind].
      rewrite Hl. cbn [bind]. fold w0.
      rewrite (gt_distribution_completed_mono _ _ _ _ _ _ _ (Datatypes.S b2) Hd). cbn [bind]. rewrite Er.
      change (op (st wx <| op := OpExtra (XCombNft rx) |>)) with (OpExtra (XCombNft rx)). cbn [bind].
      rewrite st_set_st, (reload_comb wx _ Hopx'). rewrite Hres. reflexivity.
    + (* the guaranteed-tickets sub-step itself was interrupted *)
      inversion Hph; subst wp orng bp; clear Hph. inversion E; subst w1; clear E.
      destruct (gt_distribution_resume H false b1 b2 _ _ _ _ _ Hd) as (Hres & _).
      split; [|unfold nft_disjoint; rewrite st_set_st; exact Hnda].
      rewrite !st_set_st. unfold require_stage.
      rewrite (gates_stage e2 (st wa <| op := OpExtra (XCombGt oa) |>) (st w)) by (rewrite <- Hga; reflexivity).
      change (fl_selected (st wa <| op := OpExtra (XCombGt oa) |>)) with (fl_selected (st wa)).
      change (fl_additional (st wa <| op := OpExtra (XCombGt oa) |>)) with (fl_additional (st wa)).
      destruct (gates_flags _ _ Hga) as [-> ->].
      destruct (require (stage_eqb (get_launch_stage e2 (st w)) WinnerSelection)) as [[]|]; [|reflexivity]. cbn [bind].
      destruct (require (fl_selected (st w))) as [[]|]; [|reflexivity]. cbn [bind].
      destruct (require (negb (fl_additional (st w)))) as [[]|]; [|reflexivity]. cbn [bind].
      rewrite Hl. cbn [bind]. fold w0. rewrite <- Hres.
      change (op (st wa <| op := OpExtra (XCombGt oa) |>)) with (OpExtra (XCombGt oa)). cbn [bind].
      rewrite st_set_st, (reload_comb wa _ Hopa). reflexivity.
  - (* resumed in the NFT sub-step *)
    inversion Hph; subst wp orng bp; clear Hph.
    apply bind_ok in E. destruct E as ([[[wx rx] dx] bx] & Hs & E).
    destruct dx; inversion E; subst w1; clear E.
    destruct (select_nft_winners_resume _ b2 _ _ _ _ _ Hnd0 Hs) as (Hres & Htf & Hopx & Hndx).
    split; [|unfold nft_disjoint; rewrite st_set_st; exact Hndx].
    assert (Hgx : gates (st wx) = gates (st w)) by (rewrite (tf_gates _ _ Htf); exact Hg0).
    assert (Hopx' : op (st wx) = OpNone) by (rewrite Hopx; exact Hop0).
    rewrite !st_set_st. unfold require_stage.
    rewrite (gates_stage e2 (st wx <| op := OpExtra (XCombNft rx) |>) (st w)) by (rewrite <- Hgx; reflexivity).
    change (fl_selected (st wx <| op := OpExtra (XCombNft rx) |>)) with (fl_selected (st wx)).
    change (fl_additional (st wx <| op := OpExtra (XCombNft rx) |>)) with (fl_additional (st wx)).
    destruct (gates_flags _ _ Hgx) as [-> ->].
    destruct (require (stage_eqb (get_launch_stage e2 (st w)) WinnerSelection)) as [[]|]; [|reflexivity]. cbn [bind].
    destruct (require (fl_selected (st w))) as [[]|]; [|reflexivity]. cbn [bind].
    destruct (require (negb (fl_additional (st w)))) as [[]|]; [|reflexivity]. cbn [bind].
    rewrite Hl. cbn [bind]. fold w0.
    change (op (st wx <| op := OpExtra (XCombNft rx) |>)) with (OpExtra (XCombNft rx)). cbn [bind].
    rewrite st_set_st, (reload_comb wx _ Hopx'). rewrite Hres. reflexivity.
Qed.

Theorem secondary_multi_resume : forall l w wk e b,
  nft_disjoint w -> after_interrupted (secondary_selection_step H) l w = Some wk ->
  secondary_selection_step H e b wk = secondary_selection_step H e (total_budget l b) w.
Proof.
  intros l w wk e b Hi. apply (multi_resume (secondary_selection_step H) nft_disjoint); auto.
  intros e1 e2 b1 b2 w0 w1 Hi0 E. eapply secondary_resume; eauto.
Qed.
End H4.
