(** * selectWinners: the completed endpoint computes the textbook Fisher-Yates winners on the words
    of the call's random stream (C03 base part, C05). *)
From Coq Require Import Permutation.
From LP Require Import Proofs.Tactics Proofs.Loop Proofs.FisherYates Proofs.Shuffle Proofs.Rng Proofs.Resume.
Open Scope N_scope.

Section Select.
Variable H : list N -> list N.

(** the selection loop only changes the state through [sstep]; balances, events and seeds stay *)
Lemma select_body_step nrw n w r pos :
  nrw <> 0 ->
  select_body H nrw n (w, r, pos) =
  let x := fst (rng_step H r) in
  let r1 := snd (rng_step H r) in
  let w1 := set_st (w <| rlog := RDraw (r_seed (rehash H r)) (r_index (rehash H r)) x :: rlog w |>)
                   (sstep (st w) pos n x) in
  if pos =? nrw then Ok (w1, r1, pos, false) else Ok (w1, r1, pos + 1, true).
Proof.
  intros Hn. unfold select_body. destruct (N.eqb_spec nrw 0); [contradiction|].
  pose proof (shuffle_single_ticket_sstep H w r pos n) as Hs.
  rewrite next_usize_step in Hs. rewrite Hs. reflexivity.
Qed.

Lemma select_loop_completed nrw n : nrw <> 0 ->
  forall b w r pos w' r' pos' b',
  pos <= nrw ->
  run_while b (select_body H nrw n) (w, r, pos) = Ok (w', r', pos', true, b') ->
  let k := S (N.to_nat (nrw - pos)) in
  st w' = sloop k (st w) pos n (rng_words H k r) /\ bal w' = bal w /\ evs w' = evs w /\
  seeds w' = seeds w /\ locks w' = locks w /\ pos' = nrw.
Proof.
  intros Hn. induction b as [|b IH]; intros w r pos w' r' pos' b' Hpos E;
    rewrite run_while_eq, (select_body_step _ _ _ _ _ Hn) in E; cbn zeta in E;
    destruct (N.eqb_spec pos nrw) as [Heq|Hne].
  - inversion E; subst. replace (N.to_nat (pos' - pos')) with O by lia. cbn. auto 10.
  - discriminate.
  - inversion E; subst. replace (N.to_nat (pos' - pos')) with O by lia. cbn. auto 10.
  - apply IH in E; [|lia]. cbn zeta in E. destruct E as (Hst & Hb & He & Hs & Hl & Hp).
    replace (S (N.to_nat (nrw - pos))) with (S (S (N.to_nat (nrw - (pos + 1))))) by lia.
    cbn [sloop rng_words]. rewrite st_set_st in Hst. cbn in Hb, He, Hs, Hl. auto 10.
Qed.

(** The completed endpoint, started on a state where no selection has happened. *)
Theorem select_winners_completed e b w w' sd rest :
  op (st w) = OpNone -> seeds w = sd :: rest ->
  fresh_shuffle (st w) ->
  nr_winning (st w) <= last_ticket_id (st w) ->
  select_winners H e b w = Ok (w', 0) ->
  let k := N.to_nat (nr_winning (st w)) in
  let n := last_ticket_id (st w) in
  let words := rng_words H k {| r_seed := sd; r_index := 0 |} in
  let wins := fst (fy k (range_ids 1 n) words) in
  (forall t, status (st w') t = true <-> In t wins) /\
  NoDup wins /\ length wins = k /\ (forall t, In t wins -> 1 <= t <= n) /\
  fl_selected (st w') = true /\ nr_winning (st w') = nr_winning (st w) /\
  last_ticket_id (st w') = n /\
  claimable_payment (st w') = price (st w) * nr_winning (st w) /\
  bal w' = bal w /\ op (st w') = OpNone /\ seeds w' = rest.
Proof.
  intros Hop Hseeds Hfresh Hle. unfold select_winners. intros E.
  apply bind_ok in E. destruct E as (u1 & _ & E).
  apply bind_ok in E. destruct E as (u2 & _ & E).
  apply bind_ok in E. destruct E as (u3 & _ & E).
  apply bind_ok in E. destruct E as (u4 & _ & E).
  apply bind_ok in E. destruct E as (u5 & _ & E).
  unfold load_select_winners_operation in E. rewrite Hop in E.
  rewrite (rng_default_fresh _ _ _ Hseeds) in E. cbn [bind] in E.
  apply bind_ok in E. destruct E as ([[[[wl rl] pl] done] bb] & Hrun & E).
  destruct done; [|inversion E]. inversion E; subst w'; clear E.
  cbn zeta. rewrite !st_emit, !st_set_st.
  destruct (N.eqb_spec (nr_winning (st w)) 0) as [Hz|Hnz].
  - (* no winners to draw: the loop stops at once *)
    rewrite run_while_eq in Hrun. unfold select_body in Hrun. rewrite Hz in Hrun. cbn in Hrun.
    destruct b; inversion Hrun; subst; clear Hrun.
    all: rewrite Hz; cbn; destruct Hfresh as [Hs Hp].
    all: split; [intros t; rewrite Hs; split; [discriminate | intros []]|].
    all: split; [constructor|]. all: split; [reflexivity|]. all: split; [intros t []|].
    all: repeat split; auto.
  - assert (H1le : 1 <= nr_winning (st w)) by lia.
    pose proof (select_loop_completed _ _ Hnz _ _ _ _ _ _ _ _ H1le Hrun) as Hc.
    cbn zeta in Hc. destruct Hc as (Hst & Hb & He & Hs & Hl & Hp).
    rewrite st_set_st in Hst. cbn in Hb, Hs.
    replace (S (N.to_nat (nr_winning (st w) - 1))) with (N.to_nat (nr_winning (st w))) in Hst by lia.
    set (k := N.to_nat (nr_winning (st w))) in *.
    assert (Hfresh' : fresh_shuffle (st w <| op := OpNone |>)) by (destruct Hfresh; split; auto).
    pose proof (sloop_fresh k (st w <| op := OpNone |>) (last_ticket_id (st w))
                  (rng_words H k {| r_seed := sd; r_index := 0 |}) Hfresh' ltac:(lia)
                  ltac:(rewrite rng_words_length; lia)) as Hsl.
    cbn zeta in Hsl. destruct Hsl as (H1 & H2 & H3 & H4).
    pose proof (select_loop_frame H _ _ _ _ _ _ _ _ _ _ _ Hrun) as Hfr.
    destruct Hfr as (Hpa & Hc1 & Hc2 & Hc3 & Hsel & Hadd & Hfil & Hlast & Hnw & Hopp & Hpr & _).
    rewrite !st_set_st in *. cbn in Hnw, Hlast, Hopp, Hpr.
    cbn. rewrite Hst. repeat split; auto; try (apply H1); try congruence;
      try (match goal with Hin : In ?t _ |- _ => apply H4 in Hin; lia end).
Qed.

End Select.
