(** * C17: the sale terms can only be changed by their own setters, which are gated. *)
From LP Require Import Proofs.Tactics Proofs.Gates Proofs.Frames Proofs.Permissions Proofs.Stage.
Open Scope N_scope.

(** the terms a participant commits to *)
Definition sale_terms (s : state) :=
  (lp_token s, tpt s, pay_token s, price s, (nft_tok s, nft_nonce s, nft_amt s), (sched1 s, sched2 s),
   (lock_pct s, unlock_epoch s, lock_sc s, min_conf s)).

Lemma terms_sale s s' : terms_of s' = terms_of s -> sale_terms s' = sale_terms s.
Proof.
  unfold terms_of, sale_terms. intros E. inversion E. reflexivity.
Qed.
Lemma tf_sale s s' : tf s' = tf s -> sale_terms s' = sale_terms s.
Proof. unfold tf. intros E. apply terms_sale. exact (f_equal fst E). Qed.

Definition term_setter (c : call) : bool :=
  match c with
  | CSetPrice _ _ | CSetTpt _ | CSetNftCost _ _ _ | CSetSchedule1 _ _ _ _ _ | CSetSchedule2 _ => true
  | _ => false
  end.

Section H.
Variable H : list N -> list N.

Theorem dispatch_keeps_terms v e b w c w' r :
  dispatch H v e b w c = Ok (w', r) -> term_setter c = false -> sale_terms (st w') = sale_terms (st w).
Proof.
  intros E Hc.
  destruct c; cbn in Hc; try discriminate Hc; destruct v;
    cbn [dispatch ret0 ret1 blacklist_endpoint unblacklist_endpoint has_nft is_v1 has_unblacklist send_fn_of has_lock] in E;
    try discriminate E; unfold ret0, ret1 in E; mon_inv;
    repeat match goal with
    | Hx : blacklist_endpoint _ _ _ _ _ = Ok _ |- _ => unfold blacklist_endpoint in Hx; cbn [has_nft] in Hx; mon_inv
    | Hx : unblacklist_endpoint _ _ _ _ = Ok _ |- _ => unfold unblacklist_endpoint in Hx; mon_inv
    end;
    repeat match goal with a : (world * N)%type |- _ => destruct a end; cbn [fst snd];
    repeat match goal with
    | Hx : add_tickets _ _ _ = Ok _ |- _ => apply add_tickets_tf in Hx
    | Hx : add_tickets_v1 _ _ _ = Ok _ |- _ => apply add_tickets_v1_tf in Hx
    | Hx : add_tickets_v2 _ _ _ = Ok _ |- _ => apply add_tickets_v2_tf in Hx
    | Hx : confirm_tickets _ _ _ = Ok _ |- _ => apply confirm_tf in Hx
    | Hx : add_users_to_blacklist _ _ _ = Ok _ |- _ => apply add_users_to_blacklist_tf in Hx
    | Hx : remove_users_from_blacklist _ _ _ = Ok _ |- _ => apply remove_users_from_blacklist_tf in Hx
    | Hx : clear_gt_after_blacklist_v1 _ _ = Ok _ |- _ => apply clear_gt_after_blacklist_v1_tf in Hx
    | Hx : clear_gt_after_blacklist_v2 _ _ = Ok _ |- _ => apply clear_gt_after_blacklist_v2_tf in Hx
    | Hx : unblacklist_gt_v1 _ _ = Ok _ |- _ => apply unblacklist_gt_v1_tf in Hx
    | Hx : unblacklist_gt_v2 _ _ = Ok _ |- _ => apply unblacklist_gt_v2_tf in Hx
    | Hx : refund_nft_loop _ _ = Ok _ |- _ => apply refund_nft_loop_tf in Hx
    | Hx : claim_vested _ _ _ = Ok _ |- _ => apply claim_vested_tf in Hx
    | Hx : claim_launchpad_tokens default_send _ _ = Ok _ |- _ => apply (claim_launchpad_tokens_tf _ _ _ _ default_send_tf) in Hx
    | Hx : claim_launchpad_tokens send_locked_launchpad_tokens _ _ = Ok _ |- _ => apply (claim_launchpad_tokens_tf _ _ _ _ send_locked_tf) in Hx
    | Hx : claim_nft _ _ = Ok _ |- _ => apply claim_nft_tf in Hx
    | Hx : claim_ticket_payment _ _ = Ok _ |- _ => apply claim_ticket_payment_tf in Hx
    | Hx : claim_ticket_payment_gt _ _ = Ok _ |- _ => apply claim_ticket_payment_gt_tf in Hx
    | Hx : claim_nft_payment _ _ = Ok _ |- _ => apply claim_nft_payment_tf in Hx
    | Hx : confirm_nft _ _ = Ok _ |- _ => apply confirm_nft_tf in Hx
    end;
    rewrite ?st_emit;
    try (apply tf_sale; congruence).
  all: try (match goal with Hx : deposit_launchpad_tokens _ _ _ = Ok _ |- _ => apply deposit_tf in Hx; destruct Hx as [Hx _]; rewrite Hx; reflexivity end).
  all: try (match goal with Hx : set_confirmation_period_start_round _ _ _ = Ok _ |- _ =>
              apply gate_set_conf in Hx; destruct Hx as (_ & _ & _ & Hs & _); rewrite Hs; reflexivity end).
  all: try (match goal with Hx : set_winner_selection_start_round _ _ _ = Ok _ |- _ =>
              apply gate_set_ws in Hx; destruct Hx as (_ & _ & _ & Hs & _); rewrite Hs; reflexivity end).
  all: try (match goal with Hx : set_claim_start_round _ _ _ = Ok _ |- _ =>
              apply gate_set_claim in Hx; destruct Hx as (_ & _ & _ & Hs & _); rewrite Hs; reflexivity end).
  all: try (match goal with Hx : set_support_address _ _ _ = Ok _ |- _ =>
              unfold set_support_address in Hx; mon_inv; rewrite st_set_st; reflexivity end).
  all: try (match goal with Hx : pause_endpoint _ _ = Ok _ |- _ => apply gate_pause in Hx; destruct Hx as (_ & Hs & _); rewrite Hs; reflexivity end).
  all: try (match goal with Hx : unpause_endpoint _ _ = Ok _ |- _ => apply gate_unpause in Hx; destruct Hx as (_ & Hs & _); rewrite Hs; reflexivity end).
  all: try (match goal with
            | Hx : filter_tickets _ _ _ = Ok _ |- _ => apply filter_tickets_tf in Hx
            | Hx : select_winners _ _ _ _ = Ok _ |- _ => apply select_winners_tf in Hx
            | Hx : distribute_guaranteed_tickets _ _ _ _ _ = Ok _ |- _ => apply distribute_tf in Hx
            | Hx : select_nft_winners_endpoint _ _ _ _ = Ok _ |- _ => apply select_nft_endpoint_tf in Hx
            | Hx : secondary_selection_step _ _ _ _ = Ok _ |- _ => apply secondary_tf in Hx
            end; match goal with Hx : _ /\ _ |- _ => destruct Hx as (Ht & _) end; apply terms_sale; exact Ht).
  all: try (inversion E; subst; reflexivity).
  all: reflexivity.
Qed.
End H.

(** the setters themselves: what they accept *)
Lemma set_price_effect e w t a w' :
  set_ticket_price e w t a = Ok w' ->
  is_owner e /\ get_launch_stage e (st w) = AddTickets /\ 0 < a /\ token_valid t = true /\
  (t <> egld -> lp_token (st w) <> t) /\
  st w' = st w <| pay_token := t |> <| price := a |> /\ bal w' = bal w.
Proof.
  intros E. pose proof (gate_set_ticket_price _ _ _ _ _ E) as (Ho & Hs & Ha & Hv).
  unfold set_ticket_price, try_set_ticket_price in E.
  apply bind_ok in E. destruct E as (u1 & _ & E).
  apply bind_ok in E. destruct E as (u2 & _ & E).
  apply bind_ok in E. destruct E as (u3 & Hlp & E). mon_inv.
  repeat split; auto.
  intros Hne Heq. destruct (N.eqb_spec t egld); [contradiction|]. cbn in Hlp.
  apply require_ok' in Hlp. apply negb_true_iff in Hlp. apply N.eqb_neq in Hlp. contradiction.
Qed.

Lemma set_tpt_effect e w a w' :
  set_launchpad_tokens_per_winning_ticket e w a = Ok w' ->
  is_owner e /\ get_launch_stage e (st w) = AddTickets /\ deposited (st w) = false /\ 0 < a /\
  st w' = st w <| tpt := a |> /\ bal w' = bal w.
Proof.
  intros E. pose proof (gate_set_tpt _ _ _ _ E) as (Ho & Hs & Hd & Ha).
  unfold set_launchpad_tokens_per_winning_ticket, try_set_tpt in E. mon_inv. repeat split; auto.
Qed.

(** once the confirmation start round has been reached the stage is never AddTickets again *)
Lemma not_add_tickets_after_conf e s : conf_start s <= round e -> get_launch_stage e s <> AddTickets.
Proof.
  unfold get_launch_stage. intros Hc. destruct (N.ltb_spec (round e) (conf_start s)); [lia|].
  destruct (round e <? ws_start s); [discriminate|]. destruct (negb _); [discriminate|].
  destruct (round e <? claim_start s); discriminate.
Qed.
