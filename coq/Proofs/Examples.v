(** * Concrete histories evaluated by [vm_compute]: used for non-vacuity [Example]s. *)
From LP Require Import Proofs.Tactics.
Open Scope N_scope.

Definition mkenv (c r ep : N) (p : list (N * N * N)) : env :=
  {| caller := c; round := r; epoch := ep; pay := p |}.

(** run a list of calls (ignoring failures: a failed call leaves the world unchanged) *)
Definition step_sha (v : variant) (w : world) (x : env * nat * list (list N) * call) : world :=
  let '(e, b, sd, c) := x in
  match exec_sha v e b sd w c with
  | Ok (w', _) => w'
  | Err _ => w
  end.
Definition run_sha (v : variant) (w : world) (l : list (env * nat * list (list N) * call)) : world :=
  fold_left (step_sha v) l w.

Definition x0 : deploy_extra :=
  {| d_min_conf := 1; d_lock_pct := 2500; d_unlock_epoch := 10; d_lock_addr := 30;
     d_nft_tok := 3; d_nft_nonce := 0; d_nft_amt := 50; d_total_nfts := 1 |}.

(** base contract: 100 tokens per ticket, EGLD price 1000, 2 winners, rounds 10 / 20 / 30 *)
Definition base0 : world :=
  match deploy Base (mkenv 1 0 0 []) 1 100 0 1000 2 10 20 30 x0 with
  | Ok s => world0 s
  | Err _ => world0 state0
  end.

Definition seedA : list N := map N.of_nat (seq 0 32).

(** allocation 3 + 2 tickets, deposit, both users confirm 2 *)
Definition base_confirmed : world :=
  run_sha Base base0
    [ (mkenv 1 1 0 [], 100%nat, [], CAddTickets [(2, 3); (3, 2)]);
      (mkenv 1 2 0 [(1, 0, 200)], 100%nat, [], CDeposit);
      (mkenv 2 10 0 [(0, 0, 2000)], 100%nat, [], CConfirm 2);
      (mkenv 3 11 0 [(0, 0, 2000)], 100%nat, [], CConfirm 2) ].

Definition base_selected : world :=
  run_sha Base base_confirmed
    [ (mkenv 2 20 0 [], 100%nat, [], CFilter);
      (mkenv 2 21 0 [], 100%nat, [seedA], CSelect) ].

(** a gt2 sale: 3 winners, holders 2 and 3 with one guarantee each, participant 4 without; base
    selection done; the distribution interrupted after one iteration and completed by somebody else *)
Definition gt2_0 : world :=
  match deploy Gt2 (mkenv 1 0 0 []) 1 100 0 1000 3 10 20 30 x0 with
  | Ok s => world0 s
  | Err _ => world0 state0
  end.
Definition gt2_selected : world :=
  run_sha Gt2 gt2_0
    [ (mkenv 1 1 0 [], 100%nat, [], CAddTicketsV2 [(2, 3, [(1, 2)]); (3, 3, [(1, 1)]); (4, 4, [])]);
      (mkenv 1 2 0 [(1, 0, 300)], 100%nat, [], CDeposit);
      (mkenv 2 10 0 [(0, 0, 3000)], 100%nat, [], CConfirm 3);
      (mkenv 3 11 0 [(0, 0, 2000)], 100%nat, [], CConfirm 2);
      (mkenv 4 11 0 [(0, 0, 4000)], 100%nat, [], CConfirm 4);
      (mkenv 1 20 0 [], 100%nat, [], CFilter);
      (mkenv 1 21 0 [], 100%nat, [seedA], CSelect) ].
Definition gt2_half := step_sha Gt2 gt2_selected (mkenv 3 22 0 [], 1%nat, [seedA], CExtra).
Definition gt2_done := step_sha Gt2 gt2_half (mkenv 4 23 0 [], 100%nat, [], CExtra).

