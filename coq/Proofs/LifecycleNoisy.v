(** * The selection pipeline with other accepted transactions interleaved between the calls of a
    step (support / claim-start setters, pause ... unpause): the state reached is the state of the
    noise-free pipeline up to the support address and the claim start, and satisfies the same
    claim-period invariant. *)
From Coq Require Import Permutation.
From LP Require Import Proofs.Tactics Proofs.Loop Proofs.Resume Proofs.FisherYates Proofs.Shuffle Proofs.Rng Proofs.Select
  Proofs.Gates Proofs.Frames Proofs.Confirm Proofs.Settle Proofs.Filter Proofs.Ledger Proofs.ClaimLedger Proofs.Partition Proofs.Lifecycle Proofs.Setup
  Proofs.Interleave Proofs.InterleaveGt Proofs.Guaranteed Proofs.GuaranteedLoop Proofs.Leftover.
Open Scope N_scope.

Lemma ClaimInv_Uw su cs w A : ClaimInv w A -> ClaimInv (Uw su cs w) A.
Proof.
  intros Hi. eapply ClaimInv_same_ledger; [exact Hi|..]; unfold Uw, U; rewrite ?st_set_st, ?bal_set_st; try reflexivity.
Qed.

Lemma Uw_Uw su cs su' cs' w : Uw su' cs' (Uw su cs w) = Uw su' cs' w.
Proof. unfold Uw, U. rewrite st_set_st, set_st_set_st. reflexivity. Qed.

Section Transport.
Variable ep : env -> nat -> world -> res (world * N).
Hypothesis ep_U : forall su cs e b w, open_flags w -> ep e b (Uw su cs w) = mapU su cs (ep e b w).
Hypothesis ep_keeps : forall e b w w1, ep e b w = Ok (w1, 1) -> open_flags w -> open_flags w1.

Lemma after_interrupted_Uw su cs : forall l w wk,
  open_flags w -> after_interrupted ep l (Uw su cs w) = Some wk ->
  exists wk0, after_interrupted ep l w = Some wk0 /\ wk = Uw su cs wk0 /\ open_flags wk0.
Proof.
  induction l as [|[e b] l IH]; intros w wk Hf Ha; cbn in Ha.
  - inversion Ha; subst. exists w. cbn. auto.
  - rewrite (ep_U su cs e b w Hf) in Ha. destruct (ep e b w) as [[w1 x]|] eqn:E; [|discriminate]. cbn in Ha.
    destruct x as [|px]; [discriminate|]. destruct px; try discriminate.
    destruct (IH w1 wk (ep_keeps _ _ _ _ E Hf) Ha) as (wk0 & Ha0 & Hk & Hf0).
    exists wk0. cbn. rewrite E. auto.
Qed.
End Transport.

Section HNoisyLife.
Variable H : list N -> list N.

Lemma noisy_two_stages w0 wf ef bf w1' ws es bs w2' sd rest :
  paused (st w0) = false -> open_flags w0 ->
  noisy filter_tickets w0 wf -> filter_tickets ef bf wf = Ok (w1', 0) ->
  seeds w1' = sd :: rest ->
  noisy (select_winners H) w1' ws -> select_winners H es bs ws = Ok (w2', 0) ->
  exists lf wq w1 ls wq2 w2 su cs,
    after_interrupted filter_tickets lf w0 = Some wq /\ filter_tickets ef bf wq = Ok (w1, 0) /\
    seeds w1 = sd :: rest /\
    after_interrupted (select_winners H) ls w1 = Some wq2 /\ select_winners H es bs wq2 = Ok (w2, 0) /\
    w2' = Uw su cs w2 /\ paused (st w2) = false.
Proof.
  intros Hp0 Hf0 Hnf Ef Hseeds Hns Es.
  destruct (filter_noisy_complete w0 wf ef bf w1' 0 Hnf Hp0 Hf0 Ef) as (lf & wq & su1 & cs1 & w1 & Haf & Ef1 & Hw1).
  destruct (filter_tickets_tf _ _ _ _ _ Ef1) as (Ht1 & Hs1 & Ha1 & _).
  assert (Hq : paused (st wq) = false /\ open_flags wq).
  { clear - Haf Hp0 Hf0. revert w0 Haf Hp0 Hf0. induction lf as [|[e b] lf IH]; intros w0 Haf Hp0 Hf0; cbn in Haf.
    - inversion Haf; subst. auto.
    - destruct (filter_tickets e b w0) as [[wx x]|] eqn:E; [|discriminate]. destruct x as [|px]; [discriminate|]. destruct px; try discriminate.
      destruct (filter_tickets_tf _ _ _ _ _ E) as (Ht & Hs & Ha & _).
      apply (IH wx Haf); [rewrite (terms_paused _ _ Ht); exact Hp0 | unfold open_flags in *; rewrite Hs, Ha; exact Hf0]. }
  destruct Hq as [Hpq Hfq].
  assert (Hp1 : paused (st w1) = false) by (rewrite (terms_paused _ _ Ht1); exact Hpq).
  assert (Hf1 : open_flags w1) by (unfold open_flags in *; rewrite Hs1, Ha1; exact Hfq).
  subst w1'.
  assert (Hp1' : paused (st (Uw su1 cs1 w1)) = false) by exact Hp1.
  assert (Hf1' : open_flags (Uw su1 cs1 w1)) by exact Hf1.
  destruct (select_noisy_complete H _ ws es bs w2' 0 Hns Hp1' Hf1' Es) as (ls & wq2 & su2 & cs2 & w2p & Has & Es2 & Hw2).
  destruct (after_interrupted_Uw (select_winners H) (fun su cs e b w Hf => select_winners_U H su cs e b w Hf)
              ltac:(intros e b w wx E Hf; destruct (select_winners_tf H _ _ _ _ _ E) as (_ & _ & Ha & _ & Hs);
                    unfold open_flags in *; rewrite (Hs ltac:(discriminate)), Ha; exact Hf)
              su1 cs1 ls w1 wq2 Hf1 Has) as (wq20 & Has0 & Hq2 & Hfq2).
  subst wq2. rewrite (select_winners_U H su1 cs1 es bs wq20 Hfq2) in Es2.
  destruct (select_winners H es bs wq20) as [[w2 x2]|] eqn:Es0; [|discriminate]. cbn in Es2. inversion Es2; subst w2p x2; clear Es2.
  subst w2'. rewrite Uw_Uw.
  exists lf, wq, w1, ls, wq20, w2, su2, cs2. repeat split; auto.
  (* the selection chain keeps the pause flag *)
  destruct (select_winners_tf H _ _ _ _ _ Es0) as (Ht2 & _).
  rewrite (terms_paused _ _ Ht2).
  clear - Has0 Hp1. revert w1 Has0 Hp1. induction ls as [|[e b] ls IH]; intros w1 Has0 Hp1; cbn in Has0.
  - inversion Has0; subst. exact Hp1.
  - destruct (select_winners H e b w1) as [[wx x]|] eqn:E; [|discriminate]. destruct x as [|px]; [discriminate|]. destruct px; try discriminate.
    destruct (select_winners_tf H _ _ _ _ _ E) as (Ht & _).
    apply (IH wx Has0). rewrite (terms_paused _ _ Ht). exact Hp1.
Qed.

Theorem pipeline_noisy l w0 wf ef bf w1' ws es bs w2' sd rest :
  PreSel w0 l -> paused (st w0) = false -> open_flags w0 ->
  noisy filter_tickets w0 wf -> filter_tickets ef bf wf = Ok (w1', 0) ->
  seeds w1' = sd :: rest ->
  noisy (select_winners H) w1' ws -> select_winners H es bs ws = Ok (w2', 0) ->
  exists su cs w2,
    w2' = Uw su cs w2 /\ ClaimInv w2' (map fst l) /\
    let A := map fst l in
    let total := sumN (map (confirmed (st w0)) A) in
    let k := N.min (nr_winning (st w0)) total in
    let wins := fst (fy (N.to_nat k) (range_ids 1 total) (rng_words H (N.to_nat k) {| r_seed := sd; r_index := 0 |})) in
    Layout (range (st w2)) (confirmed (st w2)) 0 A /\ last_ticket_id (st w2) = total /\
    nr_winning (st w2) = k /\ (forall t, status (st w2) t = true <-> In t wins) /\ NoDup wins /\
    claimable_payment (st w2) = price (st w0) * k.
Proof.
  intros Hpre Hp0 Hf0 Hnf Ef Hseeds Hns Es.
  destruct (noisy_two_stages w0 wf ef bf w1' ws es bs w2' sd rest Hp0 Hf0 Hnf Ef Hseeds Hns Es)
    as (lf & wq & w1 & ls & wq2 & w2 & su & cs & Haf & Ef1 & Hs1 & Has & Es1 & Hw2 & _).
  destruct (pipeline_to_claims H l w0 lf wq ef bf w1 ls wq2 es bs w2 sd rest Hpre Haf Ef1 Hs1 Has Es1)
    as (Hci & Hlay & Hlast & Hnw & Hst & Hnd & Hcp & _).
  exists su, cs, w2. split; [exact Hw2|]. split; [rewrite Hw2; apply ClaimInv_Uw; exact Hci|].
  cbn zeta. auto 10.
Qed.

(** the guaranteed-ticket contracts: noise also between the calls of the distribution step (where the
    v1 family does not even look at the pause flag) *)
Lemma ClaimInv_Tw su cs p w A : ClaimInv w A -> ClaimInv (Tw su cs p w) A.
Proof.
  intros Hi. eapply ClaimInv_same_ledger; [exact Hi|..]; unfold Tw, T, U; rewrite ?st_set_st, ?bal_set_st; try reflexivity.
Qed.

Theorem pipeline_gt_noisy v2 l w0 wf ef bf w1' ws es bs w2' sd rest wd ed bd w3' :
  PreSel w0 l -> NoDup (gt_users (st w0)) -> paused (st w0) = false -> fl_additional (st w0) = false ->
  noisy filter_tickets w0 wf -> filter_tickets ef bf wf = Ok (w1', 0) ->
  seeds w1' = sd :: rest ->
  noisy (select_winners H) w1' ws -> select_winners H es bs ws = Ok (w2', 0) ->
  noisyT (distribute_guaranteed_tickets H v2) w2' wd -> distribute_guaranteed_tickets H v2 ed bd wd = Ok (w3', 0) ->
  exists su cs p w2 w3,
    w3' = Tw su cs p w3 /\ ClaimInv w3' (map fst l) /\
    dist_result v2 (st w2) (st w3) /\
    (forall u, In u (gt_users (st w2)) -> owed v2 (st w2) u <= own_winning (st w2) (st w3) u) /\
    (forall t, status (st w2) t = true -> status (st w3) t = true).
Proof.
  intros Hpre Hndg Hp0 Hadd0 Hnf Ef Hseeds Hns Es Hnd Ed.
  assert (Hf0 : open_flags w0) by (unfold open_flags; rewrite Hadd0; apply andb_false_r).
  destruct (noisy_two_stages w0 wf ef bf w1' ws es bs w2' sd rest Hp0 Hf0 Hnf Ef Hseeds Hns Es)
    as (lf & wq & w1 & ls & wq2 & w2 & su & cs & Haf & Ef1 & Hs1 & Has & Es1 & Hw2 & Hp2).
  assert (Hf2 : open_flags w2).
  { pose proof Hpre as [Hop0 _ _ _ _ _ _ _].
    assert (Hfok : filter_op_ok (st w0)) by (unfold filter_op_ok; rewrite Hop0; exact I).
    pose proof Ef1 as Ef1'. rewrite (filter_multi_resume lf w0 wq ef bf Hfok Haf) in Ef1'.
    destruct (filter_tickets_only _ _ _ _ Ef1') as ((rg & ba & nw & la & fs & Hst1) & _).
    pose proof Es1 as Es1'. rewrite (select_multi_resume H ls w1 wq2 es bs Has) in Es1'.
    assert (Hop1 : op (st w1) = OpNone) by (rewrite Hst1; reflexivity).
    destruct (select_winners_only H _ _ _ _ Hop1 Es1') as ((f2 & g2 & Hst2) & _).
    unfold open_flags. rewrite Hst2, Hst1. cbn. rewrite Hadd0. reflexivity. }
  (* the distribution: noisy from w2' = Tw .. w2 *)
  assert (Hwa : w2' = Tw su cs (paused (st w2)) w2) by (rewrite Hw2; apply Uw_as_Tw).
  destruct (distribute_noisy_complete H v2 w2' w2 _ _ _ wd ed bd w3' 0 Hnd Hwa (fun _ => Hp2) Hf2 Ed)
    as (ld & wqd & su3 & cs3 & p3 & w3 & Had & Ed1 & Hw3).
  destruct (pipeline_gt H v2 l w0 lf wq ef bf w1 ls wq2 es bs w2 sd rest ld wqd ed bd w3 Hpre Hndg Haf Ef1 Hs1 Has Es1 Had Ed1)
    as (Hci & Hres & Hhon & Hmono).
  exists su3, cs3, p3, w2, w3. split; [exact Hw3|]. split; [rewrite Hw3; apply ClaimInv_Tw; exact Hci|]. auto.
Qed.
End HNoisyLife.

(** ** the noise steps are what the other accepted transactions of the selection period do:
    after the reset of the output fields with which every transaction starts, the world left by
    pause / unpause / setSupportAddress / setClaimStartRound is a [Tw] transform *)
Section HNoiseCalls.
Variable H : list N -> list N.

Inductive noise_call : call -> Prop :=
| nc_pause : noise_call CPause
| nc_unpause : noise_call CUnpause
| nc_support a : noise_call (CSetSupport a)
| nc_claim r : noise_call (CSetClaim r).

Theorem noise_exec v e b sd w c w' r sd' :
  noise_call c -> exec H v e b sd w c = Ok (w', r) ->
  exists su cs p, reset_outputs w' sd' = Tw su cs p (reset_outputs w sd').
Proof.
  intros Hc E.
  set (w0 := w <| evs := [] |> <| rlog := [] |> <| locks := [] |> <| seeds := sd |>).
  assert (Hgoal : forall su cs p, st w' = T su cs p (st w) -> bal w' = bal w ->
            reset_outputs w' sd' = Tw su cs p (reset_outputs w sd')).
  { intros su cs p Hs Hb. unfold reset_outputs, Tw. destruct w' as [s' b' ? ? ? ?]. destruct w as [s0 b0 ? ? ? ?].
    cbn in *. subst. reflexivity. }
  destruct Hc as [ | | a | r0];
    unfold exec in E; cbn [payable] in E; fold w0 in E;
    apply bind_ok in E; destruct E as (u & Hnp & E); apply no_payment_nil in Hnp; rewrite Hnp in E;
    cbn [credit_payment bind] in E; cbn [dispatch] in E; unfold ret0 in E; mon_inv.
  - match goal with Hd : pause_endpoint _ _ = Ok _ |- _ => apply gate_pause in Hd; destruct Hd as (_ & Hs & Hb) end.
    change (st w0) with (st w) in Hs. change (bal w0) with (bal w) in Hb.
    exists (support (st w)), (claim_start (st w)), true. apply Hgoal; [|exact Hb].
    rewrite Hs. unfold T, U. destruct (st w); reflexivity.
  - match goal with Hd : unpause_endpoint _ _ = Ok _ |- _ => apply gate_unpause in Hd; destruct Hd as (_ & Hs & Hb) end.
    change (st w0) with (st w) in Hs. change (bal w0) with (bal w) in Hb.
    exists (support (st w)), (claim_start (st w)), false. apply Hgoal; [|exact Hb].
    rewrite Hs. unfold T, U. destruct (st w); reflexivity.
  - match goal with Hd : set_support_address _ _ _ = Ok _ |- _ => unfold set_support_address in Hd; mon_inv end.
    exists a, (claim_start (st w)), (paused (st w)). apply Hgoal; [|reflexivity].
    rewrite st_set_st. change (st w0) with (st w). unfold T, U. destruct (st w); reflexivity.
  - match goal with Hd : set_claim_start_round _ _ _ = Ok _ |- _ => apply gate_set_claim in Hd; destruct Hd as (_ & _ & _ & Hs & _ & Hb) end.
    change (st w0) with (st w) in Hs. change (bal w0) with (bal w) in Hb.
    exists (support (st w)), r0, (paused (st w)). apply Hgoal; [|exact Hb].
    rewrite Hs. unfold T, U. destruct (st w); reflexivity.
Qed.
End HNoiseCalls.
